import Mustache.Proofs.LifePack
import Mustache.Proofs.RowsPackInv
/-!
# A whole pack, the packs of a buffer, `onUnlock` on the live-slot set (C03)
-/
namespace Mustache.Proofs.Life
open Mustache.Model Mustache.Proofs.Rows

/-- what a pack needs from the state it is applied to: a deferred creation brings a sorted mask; a pack on an
existing (still valid) entity finds it at a row of its archetype (`TargetOK`) -/
def PackLifeOK (w : WM) : List Cmd → Prop
  | [] => True
  | (.create _ m _) :: _ => MaskOk m
  | first :: _ => w.isValid first.entity = true → ∀ pi, (w.locOf first.entity).arch = some pi →
      TargetOK w first.entity pi

theorem packEvents_eq (info : CompId → CompInfo) (w : WM) (t off : Nat) (first : Cmd) (rest : List Cmd) :
    w.packEvents info t off (first :: rest) =
      match packStart w first with
      | none => []
      | some (w1, initial0, sh) =>
        packFinishEvents t first.entity (isCreateCmd first) (packInit (isCreateCmd first) w1.deps initial0) sh
          ((if isCreateCmd first then rest.zipIdx (off + 1) else (first :: rest).zipIdx off).foldl
            (packLifeStep info first.entity (isCreateCmd first))
            { w := w1, p := { final := packInit (isCreateCmd first) w1.deps initial0 } }) := by
  rfl

theorem mem_zipIdx_off {α : Type} (l : List α) (o : Nat) (ck : α × Nat) (h : ck ∈ l.zipIdx o) :
    ∃ j, ck.2 = o + j ∧ l[j]? = some ck.1 := by
  induction l generalizing o with
  | nil => cases h
  | cons a as ih =>
    rw [List.zipIdx_cons, List.mem_cons] at h
    rcases h with h | h
    · subst h; exact ⟨0, rfl, rfl⟩
    · rcases ih (o + 1) h with ⟨j, hj, hl⟩
      exact ⟨j + 1, by omega, by simpa using hl⟩

/-- what `packStart` hands to the fold -/
theorem packStart_facts (w : WM) (first : Cmd) (w1 : WM) (initial0 : Mask) (sh : Shared)
    (h : packStart w first = some (w1, initial0, sh)) (hok : PackLifeOK w (first :: [])) (hmk : MasksOk w) :
    w1.archs = w.archs ∧ MaskOk initial0 ∧
    (isCreateCmd first = false → ∃ pi, (w1.locOf first.entity).arch = some pi ∧ TargetOK w1 first.entity pi ∧
      initial0 = (w1.arch pi).mask ∧ sh = (w1.arch pi).shared) := by
  have hnc : ∀ (_ : isCreateCmd first = false)
      (_ : w.isValid first.entity = true → ∀ pi, (w.locOf first.entity).arch = some pi →
        TargetOK w first.entity pi)
      (_ : (if !w.isValid first.entity then none else
          match (w.locOf first.entity).arch with
          | none => none
          | some ai => some (w, (w.arch ai).mask, (w.arch ai).shared)) = some (w1, initial0, sh)),
      w1.archs = w.archs ∧ MaskOk initial0 ∧
      (isCreateCmd first = false → ∃ pi, (w1.locOf first.entity).arch = some pi ∧ TargetOK w1 first.entity pi ∧
        initial0 = (w1.arch pi).mask ∧ sh = (w1.arch pi).shared) := by
    intro _ hok' h'
    by_cases hv : w.isValid first.entity = true
    · simp only [hv, Bool.not_true, Bool.false_eq_true, if_false] at h'
      cases hla : (w.locOf first.entity).arch with
      | none => rw [hla] at h'; cases h'
      | some ai =>
        rw [hla] at h'
        simp only [Option.some.injEq, Prod.mk.injEq] at h'
        rcases h' with ⟨rfl, rfl, rfl⟩
        exact ⟨rfl, hmk ai, fun _ => ⟨ai, hla, hok' hv ai hla, rfl, rfl⟩⟩
    · simp only [Bool.not_eq_true] at hv
      simp only [hv, Bool.not_false, if_true] at h'
      cases h'
  unfold packStart at h
  cases first with
  | create e m s =>
    simp only [Option.some.injEq, Prod.mk.injEq] at h
    rcases h with ⟨rfl, rfl, rfl⟩
    exact ⟨rfl, hok, fun hc => by cases hc⟩
  | destroyNow e => exact hnc rfl hok h
  | destroy e => exact hnc rfl hok h
  | remove e c => exact hnc rfl hok h
  | assign e c v => exact hnc rfl hok h

theorem packLifeOK_head (w : WM) (first : Cmd) (rest : List Cmd) (h : PackLifeOK w (first :: rest)) :
    PackLifeOK w (first :: []) := by
  cases first <;> exact h

/-- one `applyCommandPack` -/
theorem pack_accepts (info : CompId → CompInfo) (w : WM) (t off : Nat) (pack : List Cmd) (F : SlotState)
    (hF : TempOnly F) (hmk : MasksOk w) (hok : PackLifeOK w pack)
    (htemps : ∀ j e c v, pack[j]? = some (Cmd.assign e c v) → F (.temp t (off + j) c) = true) :
    accepts (live w F) (w.packEvents info t off pack) = some (live (w.applyPack info pack).1 F) ∧
    MasksOk (w.applyPack info pack).1 := by
  cases pack with
  | nil => exact ⟨rfl, hmk⟩
  | cons first rest =>
    rw [packEvents_eq, applyPack_eq]
    cases hs : packStart w first with
    | none => exact ⟨rfl, hmk⟩
    | some r =>
      obtain ⟨w1, initial0, sh⟩ := r
      simp only
      rcases packStart_facts w first w1 initial0 sh hs (packLifeOK_head w first rest hok) hmk with ⟨ha, hm0, hnc0⟩
      have harch : ∀ a, w1.arch a = w.arch a := fun a => by rw [arch_def, arch_def, ha]
      have hlive : live w1 F = live w F := live_congr F (fun a => by rw [harch]) (fun a => by rw [harch])
      have inv0 : LifeFold t F (live w F) w1 (packInit (isCreateCmd first) w1.deps initial0)
          { w := w1, p := { final := packInit (isCreateCmd first) w1.deps initial0 } } :=
        ⟨masksOk_congr (fun a => by rw [harch]) hmk, by rw [hlive]; rfl, fun _ => ⟨rfl, rfl, rfl, rfl⟩,
         (by unfold packInit; split; exact maskOk_closedMask _ hm0; exact hm0), rfl, List.nodup_nil, (fun _ hc => absurd hc List.not_mem_nil),
         (fun _ hc => absurd hc List.not_mem_nil), (fun _ hi hn => absurd hi hn),
         (fun _ hck => absurd hck List.not_mem_nil)⟩
      have hfin : ∀ (body : List Cmd) (o : Nat),
          (∀ ck ∈ body.zipIdx o, ∀ e' c v, ck.1 = Cmd.assign e' c v → F (.temp t ck.2 c) = true) →
          accepts (live w F)
            (packFinishEvents t first.entity (isCreateCmd first) (packInit (isCreateCmd first) w1.deps initial0) sh
              ((body.zipIdx o).foldl (packLifeStep info first.entity (isCreateCmd first))
                { w := w1, p := { final := packInit (isCreateCmd first) w1.deps initial0 } })) =
            some (live (packFinish info first.entity (isCreateCmd first) (packInit (isCreateCmd first) w1.deps initial0) sh
              (body.foldl (packStep info first.entity (isCreateCmd first))
                (w1, { final := packInit (isCreateCmd first) w1.deps initial0 }, []))).1 F) ∧
          MasksOk (packFinish info first.entity (isCreateCmd first) (packInit (isCreateCmd first) w1.deps initial0) sh
              (body.foldl (packStep info first.entity (isCreateCmd first))
                (w1, { final := packInit (isCreateCmd first) w1.deps initial0 }, []))).1 := by
        intro body o hbody
        have inv := lifeFold_inv info t F hF (live w F) w1 (packInit (isCreateCmd first) w1.deps initial0) first.entity
          (isCreateCmd first) (body.zipIdx o) _ inv0 hbody
        have proj := lifeFold_proj info first.entity (isCreateCmd first) body o
          { w := w1, p := { final := packInit (isCreateCmd first) w1.deps initial0 } } []
        have := packFinish_accepts info t F hF w w1 (packInit (isCreateCmd first) w1.deps initial0) first.entity (isCreateCmd first) sh
          _ (body.foldl (packStep info first.entity (isCreateCmd first))
                (w1, { final := packInit (isCreateCmd first) w1.deps initial0 }, [])).2.2 inv
          (fun hc _ => by
            rcases hnc0 hc with ⟨pi, h1, h2, h3, h4⟩
            exact ⟨pi, h1, h2, by rw [hc, packInit_existing, h3], h4⟩)
        rw [proj.1, proj.2] at this
        exact this
      by_cases hic : isCreateCmd first = true
      · rw [if_pos hic, if_pos hic]
        apply hfin rest (off + 1)
        intro ck hck e' c v hc
        rcases mem_zipIdx_off rest (off + 1) ck hck with ⟨j, hj, hl⟩
        have := htemps (j + 1) e' c v (by rw [List.getElem?_cons_succ, hl, hc])
        rw [hj]
        have h2 : off + 1 + j = off + (j + 1) := by omega
        rw [h2]; exact this
      · rw [if_neg hic, if_neg hic]
        apply hfin (first :: rest) off
        intro ck hck e' c v hc
        rcases mem_zipIdx_off (first :: rest) off ck hck with ⟨j, hj, hl⟩
        have := htemps j e' c v (by rw [hl, hc])
        rw [hj]; exact this

/-! ## the packs of one buffer -/

inductive PacksLifeOK (info : CompId → CompInfo) : WM → List (List Cmd) → Prop
  | nil (w : WM) : PacksLifeOK info w []
  | cons (w : WM) (p : List Cmd) (ps : List (List Cmd)) :
      PackLifeOK w p → PacksLifeOK info (w.applyPack info p).1 ps → PacksLifeOK info w (p :: ps)

theorem packsEvents_fst (info : CompId → CompInfo) (ps : List (List Cmd)) (w : WM) (t off : Nat) (cbs : List Cb) :
    (w.packsEvents info t off ps).1 = (applyPacks info (w, cbs) ps).1 := by
  induction ps generalizing w off cbs with
  | nil => rfl
  | cons p ps ih =>
    rw [applyPacks_cons]
    simp only [WM.packsEvents]
    exact ih _ _ _

theorem packs_accepts (info : CompId → CompInfo) (ps : List (List Cmd)) (w : WM) (t off : Nat) (F : SlotState)
    (hF : TempOnly F) (hmk : MasksOk w) (hok : PacksLifeOK info w ps)
    (htemps : ∀ j e c v, ps.flatten[j]? = some (Cmd.assign e c v) → F (.temp t (off + j) c) = true) :
    accepts (live w F) (w.packsEvents info t off ps).2 = some (live (w.packsEvents info t off ps).1 F) ∧
    MasksOk (w.packsEvents info t off ps).1 := by
  induction ps generalizing w off with
  | nil => exact ⟨rfl, hmk⟩
  | cons p ps ih =>
    cases hok with
    | cons _ _ _ h1 h2 =>
      simp only [WM.packsEvents]
      have hp := pack_accepts info w t off p F hF hmk h1 (by
        intro j e c v hj
        apply htemps j e c v
        rw [List.flatten_cons, List.getElem?_append_left (List.getElem?_eq_some_iff.mp hj).1]
        exact hj)
      have hr := ih (w.applyPack info p).1 (off + p.length) hp.2 h2 (by
        intro j e c v hj
        have := htemps (p.length + j) e c v (by
          rw [List.flatten_cons, List.getElem?_append_right (Nat.le_add_right _ _)]
          simpa using hj)
        rw [Nat.add_assoc]; exact this)
      exact ⟨accepts_append_of hp.1 hr.1, hr.2⟩

/-! ## `packs` splits a buffer without losing or reordering commands -/

theorem packs_flatten (buf : List Cmd) : (packs buf).flatten = buf := by
  induction buf with
  | nil => rfl
  | cons c cs ih =>
    unfold packs
    cases hp : packs cs with
    | nil => rw [hp] at ih; simp only at ih ⊢; rw [← ih]; rfl
    | cons p ps =>
      rw [hp] at ih
      cases p with
      | nil => simp only at ih ⊢; simp only [List.flatten_cons, List.nil_append] at ih ⊢; rw [ih]; rfl
      | cons d ds =>
        have hcs : cs = d :: (ds ++ ps.flatten) := by simpa using ih.symm
        simp only
        split <;> split <;> simp [hcs]

/-! ## the temporaries of a buffer -/

/-- the slots of the temporaries parked in buffer `t`, commands `off, off+1, …` -/
def tempSlots (t : Nat) : Nat → List Cmd → List LSlot
  | _, [] => []
  | off, (.assign _ c _) :: cs => .temp t off c :: tempSlots t (off + 1) cs
  | off, _ :: cs => tempSlots t (off + 1) cs

theorem mem_tempSlots (t : Nat) (buf : List Cmd) (off : Nat) (y : LSlot) :
    y ∈ tempSlots t off buf ↔ ∃ j e c v, buf[j]? = some (Cmd.assign e c v) ∧ y = .temp t (off + j) c := by
  induction buf generalizing off with
  | nil => simp [tempSlots]
  | cons cmd cs ih =>
    have hrest : (∃ j e c v, cs[j]? = some (Cmd.assign e c v) ∧ y = .temp t (off + 1 + j) c) ↔
        (∃ j e c v, (cmd :: cs)[j + 1]? = some (Cmd.assign e c v) ∧ y = .temp t (off + (j + 1)) c) := by
      constructor
      · rintro ⟨j, e, c, v, h1, h2⟩
        exact ⟨j, e, c, v, by simpa using h1, by rw [h2]; congr 1; omega⟩
      · rintro ⟨j, e, c, v, h1, h2⟩
        exact ⟨j, e, c, v, by simpa using h1, by rw [h2]; congr 1; omega⟩
    have hsplit : (∃ j e c v, (cmd :: cs)[j]? = some (Cmd.assign e c v) ∧ y = .temp t (off + j) c) ↔
        ((∃ e c v, cmd = Cmd.assign e c v ∧ y = .temp t off c) ∨
         (∃ j e c v, (cmd :: cs)[j + 1]? = some (Cmd.assign e c v) ∧ y = .temp t (off + (j + 1)) c)) := by
      constructor
      · rintro ⟨j, e, c, v, h1, h2⟩
        cases j with
        | zero =>
          left
          simp only [List.getElem?_cons_zero, Option.some.injEq] at h1
          exact ⟨e, c, v, h1, h2⟩
        | succ j => right; exact ⟨j, e, c, v, h1, h2⟩
      · rintro (⟨e, c, v, h1, h2⟩ | ⟨j, e, c, v, h1, h2⟩)
        · exact ⟨0, e, c, v, by simp [h1], h2⟩
        · exact ⟨j + 1, e, c, v, h1, h2⟩
    rw [hsplit, ← hrest, ← ih]
    cases cmd with
    | assign e c v =>
      simp only [tempSlots, List.mem_cons]
      constructor
      · rintro (h | h)
        · exact Or.inl ⟨e, c, v, rfl, h⟩
        · exact Or.inr h
      · rintro (⟨e', c', v', h1, h2⟩ | h)
        · cases h1; exact Or.inl h2
        · exact Or.inr h
    | create _ _ _ =>
      simp only [tempSlots]
      exact ⟨Or.inr, fun h => h.elim (fun ⟨_, _, _, h1, _⟩ => by cases h1) id⟩
    | destroyNow _ =>
      simp only [tempSlots]
      exact ⟨Or.inr, fun h => h.elim (fun ⟨_, _, _, h1, _⟩ => by cases h1) id⟩
    | destroy _ =>
      simp only [tempSlots]
      exact ⟨Or.inr, fun h => h.elim (fun ⟨_, _, _, h1, _⟩ => by cases h1) id⟩
    | remove _ _ =>
      simp only [tempSlots]
      exact ⟨Or.inr, fun h => h.elim (fun ⟨_, _, _, h1, _⟩ => by cases h1) id⟩

theorem tempSlots_nodup (t : Nat) (buf : List Cmd) (off : Nat) : (tempSlots t off buf).Nodup := by
  induction buf generalizing off with
  | nil => exact List.nodup_nil
  | cons cmd cs ih =>
    cases cmd with
    | assign e c v =>
      simp only [tempSlots, List.nodup_cons]
      refine ⟨?_, ih (off + 1)⟩
      intro h
      rcases (mem_tempSlots t cs (off + 1) _).mp h with ⟨j, _, _, _, _, h2⟩
      have := (LSlot.temp.inj h2).2.1
      omega
    | create _ _ _ => exact ih (off + 1)
    | destroyNow _ => exact ih (off + 1)
    | destroy _ => exact ih (off + 1)
    | remove _ _ => exact ih (off + 1)

theorem tempDestroyEvents_eq (t : Nat) (buf : List Cmd) :
    tempDestroyEvents t buf = (tempSlots t 0 buf).map Event.destroy := by
  unfold tempDestroyEvents
  generalize 0 = off
  induction buf generalizing off with
  | nil => rfl
  | cons cmd cs ih =>
    rw [List.zipIdx_cons, List.filterMap_cons]
    cases cmd <;> simp only [tempSlots, List.map_cons] <;> rw [ih]

/-! ## `onUnlock` -/

theorem packsLifeOK_append (info : CompId → CompInfo) (a b : List (List Cmd)) (w : WM) (cbs : List Cb)
    (h : PacksLifeOK info w (a ++ b)) :
    PacksLifeOK info w a ∧ PacksLifeOK info (applyPacks info (w, cbs) a).1 b := by
  induction a generalizing w cbs with
  | nil => exact ⟨PacksLifeOK.nil w, h⟩
  | cons p ps ih =>
    cases h with
    | cons _ _ _ h1 h2 =>
      rw [applyPacks_cons]
      have := ih _ (cbs ++ (w.applyPack info p).2) h2
      exact ⟨PacksLifeOK.cons w p ps h1 this.1, this.2⟩

theorem getD_replicate_cons (n t : Nat) (b : List Cmd) (r : List (List Cmd)) :
    (List.replicate n ([] : List Cmd) ++ b :: r).getD t [] =
      if t = n then b else (List.replicate (n + 1) ([] : List Cmd) ++ r).getD t [] := by
  simp only [List.getD_eq_getElem?_getD, List.getElem?_append, List.length_replicate, List.getElem?_replicate]
  by_cases h1 : t < n
  · have h2 : t ≠ n := by omega
    have h3 : t < n + 1 := by omega
    simp [h1, h2, h3]
  · by_cases h2 : t = n
    · subst h2; simp
    · have h3 : ¬ t < n + 1 := by omega
      have h4 : t - n = (t - (n + 1)) + 1 := by omega
      simp [h1, h2, h3, h4]

theorem tempLive_empty (bufs : List (List Cmd)) (h : ∀ t, bufs.getD t [] = []) : tempLive bufs = SlotState.empty := by
  apply slotState_ext
  intro y
  cases y with
  | stored a c i => exact Iff.rfl
  | temp t k c =>
    rw [tempLive_temp, h t]
    constructor
    · rintro ⟨_, _, h'⟩; cases h'
    · intro h'; cases h'

theorem getD_replicate_nil (n t : Nat) : (List.replicate n ([] : List Cmd)).getD t [] = [] := by
  simp only [List.getD_eq_getElem?_getD, List.getElem?_replicate]
  split <;> rfl

theorem getD_map_nil (bufs : List (List Cmd)) (t : Nat) : (bufs.map (fun _ => ([] : List Cmd))).getD t [] = [] := by
  simp only [List.getD_eq_getElem?_getD, List.getElem?_map]
  cases bufs[t]? <;> rfl

/-- the temporaries of buffer `done` are destroyed: the buffers `done+1, …` stay parked -/
theorem tempDestroy_accepts (w1 : WM) (done : Nat) (buf : List Cmd) (rest' : List (List Cmd)) :
    accepts (live w1 (tempLive (List.replicate done [] ++ buf :: rest'))) (tempDestroyEvents done buf) =
      some (live w1 (tempLive (List.replicate (done + 1) [] ++ rest'))) := by
  have hF := tempOnly_tempLive (List.replicate done [] ++ buf :: rest')
  have hgetD : (List.replicate done ([] : List Cmd) ++ buf :: rest').getD done [] = buf := by
    rw [getD_replicate_cons, if_pos rfl]
  rw [tempDestroyEvents_eq, accepts_destroys _ _ (tempSlots_nodup _ _ _)]
  · congr 1
    apply slotState_ext
    intro y
    rw [removeAll_apply]
    cases y with
    | stored a c i =>
      rw [live_stored, live_stored, hF a c i, tempOnly_tempLive _ a c i]
      have : LSlot.stored a c i ∉ tempSlots done 0 buf := by
        intro h
        rcases (mem_tempSlots _ _ _ _).mp h with ⟨_, _, _, _, _, h2⟩
        cases h2
      simp [this]
    | temp t' k c =>
      rw [live_temp, live_temp, tempLive_temp, tempLive_temp, getD_replicate_cons, mem_tempSlots]
      by_cases ht : t' = done
      · subst ht
        simp only [if_true, Nat.zero_add]
        constructor
        · rintro ⟨⟨e, v, h1⟩, h2⟩
          exact absurd ⟨k, e, c, v, h1, rfl⟩ h2
        · rintro ⟨_, _, h'⟩
          have : (List.replicate (t' + 1) ([] : List Cmd) ++ rest').getD t' [] = [] := by
            simp only [List.getD_eq_getElem?_getD, List.getElem?_append, List.length_replicate,
              List.getElem?_replicate]
            simp
          rw [this] at h'; cases h'
      · simp only [if_neg ht]
        constructor
        · rintro ⟨h1, _⟩; exact h1
        · intro h1
          refine ⟨h1, ?_⟩
          rintro ⟨_, _, _, _, _, h2⟩
          cases h2; exact ht rfl
  · intro y hy
    rcases (mem_tempSlots _ _ _ _).mp hy with ⟨j, e, c, v, h1, rfl⟩
    rw [live_temp, tempLive_temp, hgetD, Nat.zero_add]
    exact ⟨e, v, h1⟩

/-- the fold of `flushEvents` over the buffers `done, done+1, …`; `F` = the temporaries still parked -/
theorem flushFold_accepts (info : CompId → CompInfo) (rest : List (List Cmd)) (done : Nat) (w : WM)
    (evs0 : List Event) (S0 : SlotState) (cbs : List Cb)
    (h0 : accepts S0 evs0 = some (live w (tempLive (List.replicate done [] ++ rest))))
    (hmk : MasksOk w) (hok : PacksLifeOK info w (rest.map packs).flatten) :
    accepts S0 ((rest.zipIdx done).foldl (fun (acc : WM × List Event) bt =>
        let r := acc.1.packsEvents info bt.2 0 (packs bt.1)
        (r.1, acc.2 ++ r.2 ++ tempDestroyEvents bt.2 bt.1)) (w, evs0)).2 =
      some (live (applyPacks info (w, cbs) (rest.map packs).flatten).1 SlotState.empty) ∧
    MasksOk (applyPacks info (w, cbs) (rest.map packs).flatten).1 := by
  induction rest generalizing done w evs0 cbs with
  | nil =>
    simp only [List.zipIdx_nil, List.foldl_nil, List.map_nil, List.flatten_nil, applyPacks, List.append_nil] at h0 ⊢
    rw [h0, tempLive_empty _ (getD_replicate_nil done)]
    exact ⟨rfl, hmk⟩
  | cons buf rest' ih =>
    rw [List.zipIdx_cons, List.foldl_cons, List.map_cons, List.flatten_cons]
    simp only
    have hsplit := packsLifeOK_append info (packs buf) (rest'.map packs).flatten w cbs
      (by rw [List.map_cons, List.flatten_cons] at hok; exact hok)
    have hF := tempOnly_tempLive (List.replicate done [] ++ buf :: rest')
    have hgetD : (List.replicate done ([] : List Cmd) ++ buf :: rest').getD done [] = buf := by
      rw [getD_replicate_cons, if_pos rfl]
    have hp := packs_accepts info (packs buf) w done 0 _ hF hmk hsplit.1 (by
      intro j e c v hj
      rw [packs_flatten] at hj
      rw [tempLive_temp, hgetD, Nat.zero_add]
      exact ⟨e, v, hj⟩)
    have hw1 : (w.packsEvents info done 0 (packs buf)).1 = (applyPacks info (w, cbs) (packs buf)).1 :=
      packsEvents_fst info _ _ _ _ _
    have hd := tempDestroy_accepts (w.packsEvents info done 0 (packs buf)).1 done buf rest'
    have h1 := accepts_append_of (accepts_append_of h0 hp.1) hd
    have := ih (done + 1) (w.packsEvents info done 0 (packs buf)).1
      (evs0 ++ (w.packsEvents info done 0 (packs buf)).2 ++ tempDestroyEvents done buf) (applyPacks info (w, cbs) (packs buf)).2
      h1 hp.2 (by rw [hw1]; exact hsplit.2)
    have happ : applyPacks info (w, cbs) (packs buf ++ (rest'.map packs).flatten) =
        applyPacks info ((applyPacks info (w, cbs) (packs buf)).1, (applyPacks info (w, cbs) (packs buf)).2)
          (rest'.map packs).flatten := by
      unfold applyPacks
      rw [List.foldl_append]
    rw [happ, ← hw1]
    exact this

/-- `onUnlock`: every temporary is consumed or destroyed, the stored slots are those of the state after the flush -/
theorem flush_accepts (info : CompId → CompInfo) (w : WM) (hmk : MasksOk w)
    (hok : PacksLifeOK info (detached w) (w.buffers.map packs).flatten) :
    accepts (slotsOf w) (w.flushEvents info) = some (slotsOf (w.flush info).1) ∧ MasksOk (w.flush info).1 := by
  have harch : ∀ a, (detached w).arch a = w.arch a := fun _ => rfl
  have hmk0 : MasksOk (detached w) := hmk
  have h0 : accepts (slotsOf w) [] = some (live (detached w) (tempLive (List.replicate 0 [] ++ w.buffers))) := by
    simp only [List.replicate_zero, List.nil_append]
    rfl
  have hf := flushFold_accepts info w.buffers 0 (detached w) [] (slotsOf w) [] h0 hmk0 hok
  have hfl : (w.flush info).1 = { (applyPacks info (detached w, []) (w.buffers.map packs).flatten).1 with temps := [] } := by
    rw [flush_eq]; rfl
  have hbuf := (flush_ctl info w).1
  constructor
  · unfold WM.flushEvents
    simp only
    rw [show ({ w with buffers := w.buffers.map (fun _ => []) } : WM) = detached w from rfl, hf.1]
    congr 1
    rw [slotsOf_eq_live, hbuf, tempLive_empty _ (getD_map_nil w.buffers), hfl]
    rfl
  · rw [hfl]
    exact hf.2

end Mustache.Proofs.Life

import Mustache.Proofs.LifeBuild
/-!
# Operations recorded under lock on the live-slot set (C03): the temporaries parked in the command buffers
-/
namespace Mustache.Proofs.Life
open Mustache.Model Mustache.Proofs.Rows

theorem tempLive_temp (bufs : List (List Cmd)) (t k c : Nat) :
    tempLive bufs (.temp t k c) = true ↔ ∃ e v, (bufs.getD t [])[k]? = some (Cmd.assign e c v) := by
  unfold tempLive
  simp only
  split
  · rename_i e c' v h
    rw [h]
    constructor
    · intro hc
      have : c' = c := by simpa using hc
      subst this; exact ⟨e, v, rfl⟩
    · rintro ⟨e', v', h'⟩
      cases h'; simp
  · rename_i h
    constructor
    · intro hf; cases hf
    · rintro ⟨e, v, h'⟩
      exact absurd h' (h e c v)

theorem getD_set_buf (bufs : List (List Cmd)) (t t' : Nat) (x : List Cmd) :
    (bufs.set t x).getD t' [] = if t = t' ∧ t < bufs.length then x else bufs.getD t' [] := by
  simp only [List.getD_eq_getElem?_getD, List.getElem?_set]
  by_cases h : t = t'
  · subst h
    by_cases hlt : t < bufs.length
    · simp [hlt]
    · simp [hlt]
  · simp [h]

def isAssign : Cmd → Bool
  | .assign _ _ _ => true
  | _ => false

/-- recording anything but an assignment parks no temporary -/
theorem tempLive_push_other (bufs : List (List Cmd)) (t : Nat) (cmd : Cmd) (h : isAssign cmd = false) :
    tempLive (bufs.set t (bufs.getD t [] ++ [cmd])) = tempLive bufs := by
  apply slotState_ext
  intro y
  cases y with
  | stored a c i => exact Iff.rfl
  | temp t' k c =>
    rw [tempLive_temp, tempLive_temp, getD_set_buf]
    split
    · rename_i htt
      rcases htt with ⟨rfl, _⟩
      constructor
      · rintro ⟨e, v, he⟩
        rw [List.getElem?_append] at he
        split at he
        · exact ⟨e, v, he⟩
        · rw [List.getElem?_singleton] at he
          split at he
          · cases he; simp [isAssign] at h
          · cases he
      · rintro ⟨e, v, he⟩
        refine ⟨e, v, ?_⟩
        rw [List.getElem?_append_left (List.getElem?_eq_some_iff.mp he).1]
        exact he
    · exact Iff.rfl

/-- recording `assign<C>` on thread `t` parks one temporary: command number `|buffer t|` -/
theorem tempLive_push_assign (bufs : List (List Cmd)) (t : Nat) (e : Handle) (c : CompId) (v : Val)
    (ht : t < bufs.length) :
    tempLive (bufs.set t (bufs.getD t [] ++ [Cmd.assign e c v])) =
      (tempLive bufs).set (.temp t (bufs.getD t []).length c) true := by
  apply slotState_ext
  intro y
  cases y with
  | stored a c' i => simp [SlotState.set, tempLive]
  | temp t' k c' =>
    rw [tempLive_temp, getD_set_buf]
    simp only [SlotState.set]
    by_cases htt : t = t'
    · subst htt
      simp only [ht, and_self, if_true]
      by_cases hk : k < (bufs.getD t []).length
      · have hne : ¬ (LSlot.temp t k c' = LSlot.temp t (bufs.getD t []).length c') := by
          intro hh; cases hh; omega
        have hne' : ¬ (LSlot.temp t k c' = LSlot.temp t (bufs.getD t []).length c) := by
          intro hh; cases hh; omega
        rw [if_neg hne', tempLive_temp, List.getElem?_append_left hk]
      · by_cases hk2 : k = (bufs.getD t []).length
        · subst hk2
          rw [List.getElem?_append_right (Nat.le_refl _)]
          simp only [Nat.sub_self, List.getElem?_cons_zero, Option.some.injEq, Cmd.assign.injEq]
          by_cases hcc : c' = c
          · subst hcc; simp
          · have hne' : ¬ (LSlot.temp t (bufs.getD t []).length c' = LSlot.temp t (bufs.getD t []).length c) := by
              intro hh; cases hh; exact hcc rfl
            rw [if_neg hne', tempLive_temp]
            have hnone : (bufs.getD t [])[(bufs.getD t []).length]? = none :=
              List.getElem?_eq_none_iff.mpr (Nat.le_refl _)
            rw [hnone]
            constructor
            · rintro ⟨_, _, _, hc, _⟩; exact absurd hc.symm hcc
            · rintro ⟨_, _, h⟩; cases h
        · have hne' : ¬ (LSlot.temp t k c' = LSlot.temp t (bufs.getD t []).length c) := by
            intro hh; cases hh; exact hk2 rfl
          rw [if_neg hne', tempLive_temp]
          have h1 : (bufs.getD t [] ++ [Cmd.assign e c v])[k]? = none :=
            List.getElem?_eq_none_iff.mpr (by rw [List.length_append, List.length_singleton]; omega)
          have h2 : (bufs.getD t [])[k]? = none := List.getElem?_eq_none_iff.mpr (by omega)
          rw [h1, h2]
    · have hne' : ¬ (LSlot.temp t' k c' = LSlot.temp t (bufs.getD t []).length c) := by
        intro hh; cases hh; exact htt rfl
      rw [if_neg hne', tempLive_temp]
      simp [htt]

/-! ## on world states -/

theorem slotsOf_congr {w w' : WM} (ha : w'.archs = w.archs) (hb : tempLive w'.buffers = tempLive w.buffers) :
    slotsOf w' = slotsOf w := by
  rw [slotsOf_eq_live, slotsOf_eq_live, hb]
  exact live_congr _ (fun a => by rw [arch_def, ha]; rfl) (fun a => by rw [arch_def, ha]; rfl)

theorem slotsOf_pushCmd_other (w : WM) (t : Nat) (cmd : Cmd) (h : isAssign cmd = false) :
    slotsOf (w.pushCmd t cmd) = slotsOf w :=
  slotsOf_congr rfl (tempLive_push_other w.buffers t cmd h)

/-- what a locked call keeps: locked, the same number of buffers -/
structure SameLock (w w' : WM) : Prop where
  depth : w'.lockDepth = w.lockDepth
  nbuf : w'.buffers.length = w.buffers.length

theorem SameLock.refl (w : WM) : SameLock w w := ⟨rfl, rfl⟩
theorem SameLock.trans {a b c : WM} (h1 : SameLock a b) (h2 : SameLock b c) : SameLock a c :=
  ⟨h2.depth.trans h1.depth, h2.nbuf.trans h1.nbuf⟩

theorem sameLock_pushCmd (w : WM) (t : Nat) (cmd : Cmd) : SameLock w (w.pushCmd t cmd) :=
  ⟨rfl, by simp [WM.pushCmd]⟩

theorem SameLock.isLocked {w w' : WM} (h : SameLock w w') : w'.isLocked = w.isLocked := by
  unfold WM.isLocked; rw [h.depth]

/-- `assign` recorded under lock: one temporary is constructed in the buffer of thread `t` -/
theorem assign_locked_accepts (info : CompId → CompInfo) (w : WM) (t : Nat) (e : Handle) (c : CompId)
    (v : Option Nat) (hl : w.isLocked = true) (ht : t < w.buffers.length) :
    accepts (slotsOf w) (w.assignEvents t e c v) = some (slotsOf (w.assign info t e c v).1) ∧
    SameLock w (w.assign info t e c v).1 := by
  unfold WM.assignEvents WM.assign
  simp only [hl, if_true]
  have hdead : slotsOf w (.temp t (w.buffers.getD t []).length c) = false := by
    simp only [slotsOf, storedLive, Bool.false_or]
    apply Bool.eq_false_iff.mpr
    intro h
    rcases (tempLive_temp _ _ _ _).mp h with ⟨_, _, h'⟩
    have : (w.buffers.getD t [])[(w.buffers.getD t []).length]? = none :=
      List.getElem?_eq_none_iff.mpr (Nat.le_refl _)
    rw [this] at h'; cases h'
  have key : ∀ w' : WM, w'.archs = w.archs →
      w'.buffers = w.buffers.set t (w.buffers.getD t [] ++ [Cmd.assign e c
        (match (info c).fixed with
          | some f => some f
          | none => match v with
            | some tok => some tok
            | none => defaultVal info c)]) → w'.lockDepth = w.lockDepth →
      accepts (slotsOf w) [Event.construct (.temp t (w.buffers.getD t []).length c)] = some (slotsOf w') ∧
      SameLock w w' := by
    intro w' ha hb hd
    refine ⟨?_, hd, by rw [hb]; simp⟩
    simp only [accepts, acceptStep, hdead, Bool.false_eq_true, if_false, Option.bind_some]
    congr 1
    apply slotState_ext
    intro y
    have harch : ∀ a, w'.arch a = w.arch a := fun a => by rw [arch_def, arch_def, ha]
    have hs : storedLive w' = storedLive w := by
      funext z
      cases z with
      | stored a c' i => simp only [storedLive, harch]
      | temp _ _ _ => rfl
    simp only [slotsOf, hs, hb, tempLive_push_assign w.buffers t e c _ ht, SlotState.set]
    by_cases hy : y = .temp t (w.buffers.getD t []).length c
    · rw [if_pos hy, if_pos hy]; simp
    · rw [if_neg hy, if_neg hy]
  split
  · exact key _ rfl rfl rfl
  · exact key _ rfl rfl rfl

/-- a run of `assign` calls recorded under lock (builder arguments) -/
theorem assignRun_accepts (info : CompId → CompInfo) (t : Nat) (e : Handle) (adds : List (CompId × Option Nat))
    (w : WM) (hl : w.isLocked = true) (ht : t < w.buffers.length)
    (S0 : SlotState) (evs0 : List Event) (cbs0 : List Cb) (h0 : accepts S0 evs0 = some (slotsOf w)) :
    accepts S0 (adds.foldl (fun (acc : WM × List Event) p =>
        ((acc.1.assign info t e p.1 p.2).1, acc.2 ++ acc.1.assignEvents t e p.1 p.2)) (w, evs0)).2 =
      some (slotsOf (adds.foldl (fun (acc : WM × List Cb) p =>
        let (w', _, c) := acc.1.assign info t e p.1 p.2
        (w', acc.2 ++ c)) (w, cbs0)).1) ∧
    SameLock w (adds.foldl (fun (acc : WM × List Cb) p =>
        let (w', _, c) := acc.1.assign info t e p.1 p.2
        (w', acc.2 ++ c)) (w, cbs0)).1 := by
  induction adds generalizing w evs0 cbs0 with
  | nil => exact ⟨h0, SameLock.refl w⟩
  | cons p ps ih =>
    rw [List.foldl_cons, List.foldl_cons]
    have ha := assign_locked_accepts info w t e p.1 p.2 hl ht
    have := ih (w.assign info t e p.1 p.2).1 (by rw [ha.2.isLocked]; exact hl) (by rw [ha.2.nbuf]; exact ht)
      (evs0 ++ w.assignEvents t e p.1 p.2) (cbs0 ++ (w.assign info t e p.1 p.2).2.2) (accepts_append_of h0 ha.1)
    exact ⟨this.1, ha.2.trans this.2⟩

/-- `removeComponent` calls recorded under lock -/
theorem removeRun_slots (info : CompId → CompInfo) (t : Nat) (e : Handle) (rems : List CompId) (w : WM)
    (hl : w.isLocked = true) :
    slotsOf (rems.foldl (fun w c => (w.removeComp info t e c).1) w) = slotsOf w := by
  induction rems generalizing w with
  | nil => rfl
  | cons c cs ih =>
    rw [List.foldl_cons]
    have hw : (w.removeComp info t e c).1 = w.pushCmd t (.remove e c) := by
      unfold WM.removeComp; simp only [hl, if_true]
    rw [ih _ (by rw [hw, (sameLock_pushCmd w t _).isLocked]; exact hl), hw]
    exact slotsOf_pushCmd_other w t _ rfl

/-- `lock`: command buffers are handed out empty -/
theorem slotsOf_lock (w : WM) : slotsOf w.lock = slotsOf w := by
  unfold WM.lock
  simp only
  split
  · refine slotsOf_congr (w := w) rfl ?_
    apply slotState_ext
    intro y
    cases y with
    | stored a c i => exact Iff.rfl
    | temp t k c =>
      rw [tempLive_temp, tempLive_temp]
      have : (w.buffers ++ List.replicate (w.nthreads - w.buffers.length) ([] : List Cmd)).getD t [] =
          w.buffers.getD t [] := by
        simp only [List.getD_eq_getElem?_getD, List.getElem?_append]
        split
        · rfl
        · rename_i hlt
          rw [List.getElem?_replicate]
          split
          · simp [List.getElem?_eq_none_iff.mpr (Nat.le_of_not_lt hlt)]
          · simp [List.getElem?_eq_none_iff.mpr (Nat.le_of_not_lt hlt)]
      simp only [this]
  · exact slotsOf_congr (w := w) rfl rfl

end Mustache.Proofs.Life

import Mustache.Proofs.LifeShape
/-!
# The unlocked operations on the live-slot set (C03): create, assign, removeComponent, destroyNow, update,
clearArchetype, clone, shared assign / remove

Each lemma: the events `Model/Lifecycle.lean` lists for the operation lead from `live w F` (stored slots of `w`
plus any frame `F` of parked temporaries) to `live w' F` for the model's next state `w'`; the buffers are untouched.
-/
namespace Mustache.Proofs.Life
open Mustache.Model Mustache.Proofs.Rows

/-- the operand's location, when it names an archetype, is a row index inside that archetype -/
def LocIn (w : WM) (e : Handle) : Prop :=
  ∀ pi, (w.locOf e).arch = some pi → (w.locOf e).idx < (w.arch pi).rows.length

theorem locIn_of_located {w : WM} {e : Handle} (h : Located w e) : LocIn w e := by
  intro pi hpi
  rcases h pi hpi with ⟨r, hr, _⟩
  exact idx_lt_of_row hr

theorem lt_archs_of_rows {w : WM} {pi idx : Nat} (h : idx < (w.arch pi).rows.length) : pi < w.archs.length := by
  apply Classical.byContradiction
  intro hn
  rw [arch_of_ge w pi (by omega)] at h
  exact Nat.not_lt_zero _ h

/-- writing a value into a row changes no slot -/
theorem live_setRow (w : WM) (ti idx : Nat) (row : Row) (F : SlotState) :
    live (w.setArch ti { w.arch ti with rows := (w.arch ti).rows.set idx row }) F = live w F := by
  apply live_congr F
  · intro a
    by_cases ha : a = ti
    · subst ha
      by_cases hlt : a < w.archs.length
      · rw [arch_setArch_same _ _ _ hlt]
      · rw [arch_of_ge _ a (by rw [archs_length_setArch]; omega), arch_of_ge w a (by omega)]
    · rw [arch_setArch_ne _ _ _ _ ha]
  · intro a
    by_cases ha : a = ti
    · subst ha
      by_cases hlt : a < w.archs.length
      · rw [arch_setArch_same _ _ _ hlt]; simp
      · rw [arch_of_ge _ a (by rw [archs_length_setArch]; omega), arch_of_ge w a (by omega)]
    · rw [arch_setArch_ne _ _ _ _ ha]

/-- `getArchetype(m, sh)` followed by `externalMove` of row `(pi, idx)` into it -/
theorem move_via_getArch (info : CompId → CompInfo) (w : WM) (F : SlotState) (hF : TempOnly F)
    (m : Mask) (sh : Shared) (e : Handle) (pi idx : Nat) (skip : Mask)
    (hmk : MasksOk w) (hm : MaskOk m) (hidx : idx < (w.arch pi).rows.length) :
    ((w.getArch m sh).2 = pi ∧
      (w.getArch m sh).1.externalMove info (w.getArch m sh).2 e pi idx skip = none ∧
      (w.getArch m sh).1.externalMoveEvents (w.getArch m sh).2 pi idx skip = []) ∨
    ((w.getArch m sh).2 ≠ pi ∧ ∃ w2 cbs,
      (w.getArch m sh).1.externalMove info (w.getArch m sh).2 e pi idx skip = some (w2, cbs) ∧
      accepts (live w F) ((w.getArch m sh).1.externalMoveEvents (w.getArch m sh).2 pi idx skip) =
        some (removeAll (live w2 F)
          (colSlots (w.getArch m sh).2
            ((closedMask w.deps m).filter (fun c => !(w.arch pi).mask.contains c && skip.contains c))
            ((w.getArch m sh).1.arch (w.getArch m sh).2).rows.length)) ∧
      (w2.arch (w.getArch m sh).2).mask = closedMask w.deps m ∧
      (w2.arch (w.getArch m sh).2).rows.length = ((w.getArch m sh).1.arch (w.getArch m sh).2).rows.length + 1 ∧
      w2.buffers = w.buffers ∧ MasksOk w2) := by
  by_cases hti : (w.getArch m sh).2 = pi
  · left
    refine ⟨hti, ?_, ?_⟩
    · rw [hti]; exact externalMove_self _ _ _ _ _ _
    · unfold WM.externalMoveEvents; rw [if_pos hti]
  · right
    refine ⟨hti, ?_⟩
    have hpi : pi < w.archs.length := lt_archs_of_rows hidx
    have hpa : (w.getArch m sh).1.arch pi = w.arch pi := getArch_arch_lt w m sh pi hpi
    have hmk1 := masksOk_getArch hmk m sh hm
    have hidx1 : idx < ((w.getArch m sh).1.arch pi).rows.length := by rw [hpa]; exact hidx
    rcases externalMove_shape info (w.getArch m sh).1 (w.getArch m sh).2 e pi idx skip hti
      (getArch_idx_lt w m sh) hidx1 with ⟨w2, cbs, heq, hmask, hlen, _, hst⟩
    refine ⟨w2, cbs, heq, ?_, ?_, ?_, ?_, ?_⟩
    · have := externalMove_accepts info (w.getArch m sh).1 F hF (w.getArch m sh).2 e pi idx skip hti
        (getArch_idx_lt w m sh) hidx1 (maskOk_nodup (hmk1 _)) (maskOk_nodup (hmk1 _)) w2 cbs heq
      rw [live_getArch, hpa, (getArch_key w m sh).1] at this
      exact this
    · rw [hmask, (getArch_key w m sh).1]
    · have := hlen (w.getArch m sh).2
      simp only [hti, if_false, if_true, Nat.add_zero] at this
      exact this
    · rw [hst.buffers, getArch_buffers]
    · exact masksOk_congr hmask hmk1

/-! ## create -/

theorem filter_contains_nil (m : Mask) : m.filter (fun c => ([] : Mask).contains c) = [] := by
  rw [List.filter_eq_nil_iff]; intro c _; simp

theorem create_unlocked_accepts (info : CompId → CompInfo) (w : WM) (F : SlotState) (hF : TempOnly F)
    (t : Nat) (mask : Mask) (sh : Shared) (hl : w.isLocked = false) (hmk : MasksOk w) (hm : MaskOk mask) :
    accepts (live w F) ((w.getArch mask sh).1.archInsertEvents (w.getArch mask sh).2 []) =
      some (live (w.create info t mask sh).1 F) ∧
    (w.create info t mask sh).1.buffers = w.buffers := by
  have hmk1 := masksOk_getArch hmk mask sh hm
  have hai := getArch_idx_lt w mask sh
  have hw' : (w.create info t mask sh).1 =
      (((w.getArch mask sh).1.allocId).1.archInsert info (w.getArch mask sh).2
        ((w.getArch mask sh).1.allocId).2 []).1 := by
    unfold WM.create; simp only [hl, Bool.false_eq_true, if_false]
  have hev : (w.getArch mask sh).1.archInsertEvents (w.getArch mask sh).2 [] =
      ((w.getArch mask sh).1.allocId).1.archInsertEvents (w.getArch mask sh).2 [] := by
    unfold WM.archInsertEvents; rw [allocId_arch]
  have hlive : live ((w.getArch mask sh).1.allocId).1 F = live w F := by
    rw [← live_getArch w mask sh F]
    exact live_congr F (fun a => by rw [allocId_arch]) (fun a => by rw [allocId_arch])
  constructor
  · rw [hw', hev, ← hlive,
      archInsert_accepts info _ F hF _ ((w.getArch mask sh).1.allocId).2 [] (by rw [allocId_archs]; exact hai)
        (by rw [allocId_arch]; exact maskOk_nodup (hmk1 _)),
      filter_contains_nil]
    simp [colSlots, removeAll_nil]
  · rw [hw', (archInsert_sameTable info _ _ _ _).buffers]
    have : ((w.getArch mask sh).1.allocId).1.buffers = (w.getArch mask sh).1.buffers := by
      unfold WM.allocId
      split
      · rfl
      · split <;> rfl
    rw [this, getArch_buffers]

/-! ## assign -/

theorem assign_final_shape (w2 : WM) (ti idx : Nat) (v : Option Nat) (c : CompId) (stored : Val) (F : SlotState) :
    live (match v, (w2.arch ti).mask.indexOf? c with
      | some _, some ci =>
        w2.setArch ti { (w2.arch ti) with
          rows := (w2.arch ti).rows.set idx { ((w2.arch ti).rows.getD idx default) with
                    vals := ((w2.arch ti).rows.getD idx default).vals.set ci stored } }
      | _, _ => w2) F = live w2 F ∧
    (match v, (w2.arch ti).mask.indexOf? c with
      | some _, some ci =>
        w2.setArch ti { (w2.arch ti) with
          rows := (w2.arch ti).rows.set idx { ((w2.arch ti).rows.getD idx default) with
                    vals := ((w2.arch ti).rows.getD idx default).vals.set ci stored } }
      | _, _ => w2).buffers = w2.buffers := by
  split
  · exact ⟨live_setRow _ _ _ _ _, rfl⟩
  · exact ⟨rfl, rfl⟩

theorem assign_unlocked_accepts (info : CompId → CompInfo) (w : WM) (F : SlotState) (hF : TempOnly F)
    (t : Nat) (e : Handle) (c : CompId) (v : Option Nat) (hl : w.isLocked = false) (hmk : MasksOk w)
    (hloc : LocIn w e)
    (hnew : ∀ pi, (w.locOf e).arch = some pi → v.isSome = true → c ∉ (w.arch pi).mask) :
    accepts (live w F) (w.assignEvents t e c v) = some (live (w.assign info t e c v).1 F) ∧
    (w.assign info t e c v).1.buffers = w.buffers := by
  unfold WM.assignEvents WM.assign
  simp only [hl, Bool.false_eq_true, if_false]
  cases hla : (w.locOf e).arch with
  | none => exact ⟨rfl, rfl⟩
  | some pi =>
    simp only
    have hidx := hloc pi hla
    have hmp : MaskOk (Mask.insert (w.arch pi).mask c) := maskOk_insert (hmk pi) c
    rcases move_via_getArch info w F hF (Mask.insert (w.arch pi).mask c) (w.arch pi).shared e pi (w.locOf e).idx
      (if v.isSome then Mask.insert (w.arch pi).mask c else []) hmk hmp hidx with
      ⟨hti, hnone, _⟩ | ⟨hti, w2, cbs, hsome, hacc, hmask, hlen, hbuf, _⟩
    · rw [hnone, if_pos hti]
      exact ⟨by rw [live_getArch]; rfl, getArch_buffers _ _ _⟩
    · rw [hsome, if_neg hti]
      simp only
      refine ⟨Eq.trans ?_ (congrArg some (assign_final_shape w2 _ _ v c _ F).1.symm),
        (assign_final_shape w2 _ _ v c _ F).2.trans hbuf⟩
      cases v with
      | none =>
        simp only [Option.isSome_none, Bool.false_eq_true, if_false, Bool.false_and, List.append_nil] at hacc ⊢
        rw [hacc]
        have : (closedMask w.deps (Mask.insert (w.arch pi).mask c)).filter
            (fun c' => !(w.arch pi).mask.contains c' && ([] : Mask).contains c') = [] := by
          rw [List.filter_eq_nil_iff]; intro c' _; simp
        rw [this]; simp [colSlots, removeAll_nil]
      | some tok =>
        simp only [Option.isSome_some, if_true, Bool.true_and] at hacc ⊢
        have hcnew : c ∉ (w.arch pi).mask := hnew pi hla rfl
        have hct : c ∈ closedMask w.deps (Mask.insert (w.arch pi).mask c) :=
          mem_closedMask_of_mem _ _ _ ((mem_insert _ _ _).mpr (Or.inl rfl))
        have hg : ((w.getArch (Mask.insert (w.arch pi).mask c) (w.arch pi).shared).1.arch
            (w.getArch (Mask.insert (w.arch pi).mask c) (w.arch pi).shared).2).mask =
            closedMask w.deps (Mask.insert (w.arch pi).mask c) := (getArch_key _ _ _).1
        have hcont : ((w.getArch (Mask.insert (w.arch pi).mask c) (w.arch pi).shared).1.arch
            (w.getArch (Mask.insert (w.arch pi).mask c) (w.arch pi).shared).2).mask.contains c = true := by
          rw [hg]; simpa using hct
        rw [hcont, if_pos rfl]
        refine accepts_append_of hacc ?_
        apply accepts_fill (cs := [c])
        · rfl
        · intro ev hev; simp only [List.mem_singleton] at hev; subst hev; rfl
        · simp
        · intro x
          simp only [List.mem_singleton, List.mem_filter, Bool.and_eq_true, Bool.not_eq_true']
          constructor
          · rintro rfl
            exact ⟨hct, by simpa using hcnew, by simpa using (mem_insert _ _ _).mpr (Or.inl rfl)⟩
          · rintro ⟨_, h2, h3⟩
            have h3' : x ∈ Mask.insert (w.arch pi).mask c := by simpa using h3
            rcases (mem_insert _ _ _).mp h3' with h | h
            · exact h
            · have : (w.arch pi).mask.contains x = true := by simpa using h
              rw [this] at h2; cases h2
        · intro x hx
          simp only [List.mem_filter] at hx
          rw [live_stored]
          left
          refine ⟨by rw [hmask]; exact hx.1, by rw [hlen]; exact Nat.lt_succ_self _⟩
        · intro ev hev x hx
          simp only [List.mem_singleton] at hev; subst hev
          simp [Event.src?] at hx

/-! ## removeComponent -/

theorem filter_and_contains_nil (m pm : Mask) :
    m.filter (fun c => !pm.contains c && ([] : Mask).contains c) = [] := by
  rw [List.filter_eq_nil_iff]; intro c _; simp

/-- a move without skip mask leaves nothing raw -/
theorem move_noskip (info : CompId → CompInfo) (w : WM) (F : SlotState) (hF : TempOnly F)
    (m : Mask) (sh : Shared) (e : Handle) (pi idx : Nat)
    (hmk : MasksOk w) (hm : MaskOk m) (hidx : idx < (w.arch pi).rows.length) :
    accepts (live w F) ((w.getArch m sh).1.externalMoveEvents (w.getArch m sh).2 pi idx []) =
      some (live (match (w.getArch m sh).1.externalMove info (w.getArch m sh).2 e pi idx [] with
        | none => (w.getArch m sh).1
        | some r => r.1) F) ∧
    (match (w.getArch m sh).1.externalMove info (w.getArch m sh).2 e pi idx [] with
        | none => (w.getArch m sh).1
        | some r => r.1).buffers = w.buffers := by
  rcases move_via_getArch info w F hF m sh e pi idx [] hmk hm hidx with
    ⟨_, hnone, hev⟩ | ⟨_, w2, cbs, hsome, hacc, _, _, hbuf, _⟩
  · rw [hnone, hev]
    exact ⟨by rw [live_getArch]; rfl, getArch_buffers _ _ _⟩
  · rw [hsome, hacc, filter_and_contains_nil]
    exact ⟨by simp [colSlots, removeAll_nil], hbuf⟩

theorem removeComp_unlocked_accepts (info : CompId → CompInfo) (w : WM) (F : SlotState) (hF : TempOnly F)
    (t : Nat) (e : Handle) (c : CompId) (hl : w.isLocked = false) (hmk : MasksOk w)
    (hloc : w.isValid e = true → LocIn w e) :
    accepts (live w F) (w.removeCompEvents e c) = some (live (w.removeComp info t e c).1 F) ∧
    (w.removeComp info t e c).1.buffers = w.buffers := by
  unfold WM.removeCompEvents WM.removeComp
  simp only [hl, Bool.false_eq_true, if_false]
  by_cases hv : w.isValid e = true
  · simp only [hv, Bool.not_true, Bool.false_eq_true, if_false]
    cases hla : (w.locOf e).arch with
    | none => exact ⟨rfl, rfl⟩
    | some pi =>
      simp only
      by_cases hc : (w.arch pi).mask.contains c = true
      · simp only [hc, Bool.not_true, Bool.false_eq_true, if_false]
        have := move_noskip info w F hF (Mask.erase (w.arch pi).mask c) (w.arch pi).shared e pi (w.locOf e).idx
          hmk (maskOk_erase (hmk pi) c) (hloc hv pi hla)
        cases hx : (w.getArch (Mask.erase (w.arch pi).mask c) (w.arch pi).shared).1.externalMove info
          (w.getArch (Mask.erase (w.arch pi).mask c) (w.arch pi).shared).2 e pi (w.locOf e).idx [] with
        | none => rw [hx] at this; exact this
        | some r => rw [hx] at this; exact this
      · simp only [hc, Bool.not_false, if_true]; exact ⟨rfl, trivial⟩
  · simp only [Bool.not_eq_true] at hv
    simp only [hv, Bool.not_false, if_true]; exact ⟨rfl, trivial⟩

/-! ## destroyNow, update -/

theorem release_arch' (w : WM) (h : Handle) (a : Nat) : (w.release h).arch a = w.arch a := by
  unfold WM.release
  simp only
  split <;> rfl

theorem destroyNowU_accepts (info : CompId → CompInfo) (w : WM) (F : SlotState) (hF : TempOnly F)
    (h : Handle) (hmk : MasksOk w) :
    accepts (live w F) (w.destroyNowUEvents h) = some (live (w.destroyNowU info h).1 F) ∧
    (w.destroyNowU info h).1.buffers = w.buffers ∧ MasksOk (w.destroyNowU info h).1 := by
  refine ⟨?_, (destroyNowU_ctl info w h).buffers, ?_⟩
  · rw [destroyNowU_fst]
    unfold WM.destroyNowUEvents
    by_cases hv : w.isValid h = true
    · simp only [hv, Bool.not_true, Bool.false_eq_true, if_false, if_true]
      cases hla : (w.locOf h).arch with
      | none =>
        simp only
        exact congrArg some (live_congr F (fun a => by rw [release_arch']) (fun a => by rw [release_arch'])).symm
      | some ai =>
        simp only
        rw [archRemove_accepts info w F hF ai _ [] (maskOk_nodup (hmk ai))]
        exact congrArg some (live_congr F (fun a => by rw [release_arch']) (fun a => by rw [release_arch'])).symm
    · simp only [Bool.not_eq_true] at hv
      simp only [hv, Bool.not_false, if_true, Bool.false_eq_true, if_false]; rfl
  · rw [destroyNowU_fst]
    split
    · apply masksOk_congr (w := match (w.locOf h).arch with
        | some ai => (w.archRemove info ai (w.locOf h).idx []).1
        | none => w) (fun a => congrArg Arch.mask (release_arch' _ h a))
      cases (w.locOf h).arch with
      | none => exact hmk
      | some ai => exact masksOk_congr (archRemove_shape info w ai _ []).1 hmk
    · exact hmk

theorem update_fold_accepts (info : CompId → CompInfo) (l : List Handle) (w : WM) (F : SlotState) (hF : TempOnly F)
    (hmk : MasksOk w) (evs0 : List Event) (S0 : SlotState) (h0 : accepts S0 evs0 = some (live w F)) :
    accepts S0 (l.foldl (fun (acc : WM × List Event) h =>
        ((acc.1.destroyNowU info h).1, acc.2 ++ acc.1.destroyNowUEvents h)) (w, evs0)).2 =
      some (live (l.foldl (fun (acc : WM × List Event) h =>
        ((acc.1.destroyNowU info h).1, acc.2 ++ acc.1.destroyNowUEvents h)) (w, evs0)).1 F) ∧
    (l.foldl (fun (acc : WM × List Event) h =>
        ((acc.1.destroyNowU info h).1, acc.2 ++ acc.1.destroyNowUEvents h)) (w, evs0)).1.buffers = w.buffers := by
  induction l generalizing w evs0 with
  | nil => exact ⟨h0, rfl⟩
  | cons h t ih =>
    rw [List.foldl_cons]
    have hd := destroyNowU_accepts info w F hF h hmk
    have := ih (w.destroyNowU info h).1 hd.2.2 (evs0 ++ w.destroyNowUEvents h) (accepts_append_of h0 hd.1)
    exact ⟨this.1, by rw [this.2, hd.2.1]⟩

/-- the state component of the two folds agree: `update` = fold of `destroyNowU` -/
theorem update_fold_fst (info : CompId → CompInfo) (l : List Handle) (w : WM) (cbs : List Cb) (evs : List Event) :
    (l.foldl (fun (acc : WM × List Cb) h =>
      let (w', c) := acc.1.destroyNowU info h
      (w', acc.2 ++ c)) (w, cbs)).1 =
    (l.foldl (fun (acc : WM × List Event) h =>
        ((acc.1.destroyNowU info h).1, acc.2 ++ acc.1.destroyNowUEvents h)) (w, evs)).1 := by
  induction l generalizing w cbs evs with
  | nil => rfl
  | cons h t ih => rw [List.foldl_cons, List.foldl_cons]; exact ih _ _ _

/-! ## clone -/

theorem clone_accepts (w : WM) (F : SlotState) (hF : TempOnly F) (e : Handle) (hmk : MasksOk w)
    (hloc : w.isValid e = true → LocIn w e) :
    accepts (live w F)
      (if !w.isValid e then [] else
        match (w.locOf e).arch with
        | none => []
        | some ai => cloneEvents ai (w.arch ai).mask (w.arch ai).rows.length (w.locOf e).idx) =
      some (live (w.clone e).1 F) ∧
    (w.clone e).1.buffers = w.buffers := by
  unfold WM.clone
  by_cases hv : w.isValid e = true
  · simp only [hv, Bool.not_true, Bool.false_eq_true, if_false]
    cases hla : (w.locOf e).arch with
    | none => exact ⟨rfl, rfl⟩
    | some ai =>
      simp only
      have hidx := hloc hv ai hla
      have hai : ai < w.archs.length := lt_archs_of_rows hidx
      have hbuf : (w.allocId).1.buffers = w.buffers := by
        unfold WM.allocId
        split
        · rfl
        · split <;> rfl
      refine ⟨?_, by rw [(sameTable_setLoc _ _ _ _).buffers, (sameTable_setArch _ _ _).buffers, hbuf]⟩
      rw [accepts_newRow _ _ ai (w.arch ai).mask (w.arch ai).mask (w.arch ai).rows.length]
      · congr 1
        apply live_addRow F ai
        · intro a
          rw [arch_setLoc]
          by_cases ha : a = ai
          · subst ha; rw [arch_setArch_same _ _ _ (by rw [allocId_archs]; exact hai), allocId_arch]
          · rw [arch_setArch_ne _ _ _ _ ha, allocId_arch]
        · intro a
          rw [arch_setLoc]
          by_cases ha : a = ai
          · subst ha
            rw [arch_setArch_same _ _ _ (by rw [allocId_archs]; exact hai), allocId_arch]; simp
          · rw [arch_setArch_ne _ _ _ _ ha, allocId_arch]; simp [ha]
      · simp [cloneEvents, colSlots, List.map_map, Event.dst]
      · intro ev hev
        simp only [cloneEvents, List.mem_map] at hev
        rcases hev with ⟨c, _, rfl⟩; rfl
      · exact maskOk_nodup (hmk ai)
      · intro c; rfl
      · intro c _
        simp [live, storedLive, hF ai c _]
      · intro ev hev x hx
        simp only [cloneEvents, List.mem_map] at hev
        rcases hev with ⟨c, hc, rfl⟩
        simp only [Event.src?, Option.some.injEq] at hx
        subst hx
        rw [live_stored]; exact Or.inl ⟨hc, hidx⟩
  · simp only [Bool.not_eq_true] at hv
    simp only [hv, Bool.not_false, if_true]; exact ⟨rfl, trivial⟩

end Mustache.Proofs.Life

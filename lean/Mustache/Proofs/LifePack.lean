import Mustache.Proofs.LifePackFold
/-!
# `applyCommandPack`, second half and the whole pack, on the live-slot set (C03)

After the single insertion / move the target row has raw slots (constructor skipped for the supplied components);
the stale instances are destroyed (and, unless supplied, constructed again in place); every supplied component
present in the target is move-constructed from its temporary. `accepts_packTail`: this leaves every slot of the row live.
-/
namespace Mustache.Proofs.Life
open Mustache.Model Mustache.Proofs.Rows

theorem renew_pairs (ti idx : Nat) (supplied : Mask) (stale : List CompId) :
    ((stale.map (fun c => (LSlot.stored ti c idx, supplied.contains c))).filter (·.2)).map (·.1) =
      colSlots ti (stale.filter (fun c => supplied.contains c)) idx := by
  induction stale with
  | nil => rfl
  | cons c cs ih =>
    simp only [List.map_cons, List.filter_cons]
    cases hs : supplied.contains c
    · simpa using ih
    · simp only [if_true, List.map_cons, colSlots] at ih ⊢
      rw [ih]

theorem filterMap_keys_nodup {β : Type} (p : CompId × β → Bool) (l : List (CompId × β))
    (h : (l.map (·.1)).Nodup) : ((l.filter p).map (·.1)).Nodup :=
  List.Nodup.sublist (List.Sublist.map _ List.filter_sublist) h

/-- stale instances renewed, supplied values moved in: the row is complete -/
theorem accepts_packTail (L : SlotState) (t ti idx : Nat) (tm rawCs stale : List CompId) (supplied : Mask)
    (srcIdx : List (CompId × Nat))
    (hstale_nd : stale.Nodup) (hstale_tm : ∀ c ∈ stale, c ∈ tm) (hdisj : ∀ c ∈ stale, c ∉ rawCs)
    (hraw_tm : ∀ c ∈ rawCs, c ∈ tm)
    (hLrow : ∀ c ∈ tm, L (.stored ti c idx) = true)
    (hLsrc : ∀ ck ∈ srcIdx, L (.temp t ck.2 ck.1) = true)
    (hkeys_nd : (srcIdx.map (·.1)).Nodup)
    (hkey : ∀ x, (x ∈ srcIdx.map (·.1) ∧ x ∈ tm) ↔ (x ∈ rawCs ∨ (x ∈ stale ∧ supplied.contains x = true))) :
    accepts (removeAll L (colSlots ti rawCs idx))
      (stale.flatMap (fun c => Event.destroy (.stored ti c idx) ::
          (if supplied.contains c then [] else [Event.construct (.stored ti c idx)])) ++
        (srcIdx.filter (fun ck => tm.contains ck.1)).map (fun ck =>
          Event.moveConstruct (.stored ti ck.1 idx) (.temp t ck.2 ck.1))) = some L := by
  have h2 : accepts (removeAll L (colSlots ti rawCs idx))
      (stale.flatMap (fun c => Event.destroy (.stored ti c idx) ::
          (if supplied.contains c then [] else [Event.construct (.stored ti c idx)]))) =
      some (removeAll L (colSlots ti (rawCs ++ stale.filter (fun c => supplied.contains c)) idx)) := by
    have := accepts_renew (stale.map (fun c => (LSlot.stored ti c idx, supplied.contains c)))
      (removeAll L (colSlots ti rawCs idx))
      (by
        rw [List.map_map]
        exact colSlots_nodup (ai := ti) (n := idx) hstale_nd)
      (by
        intro p hp
        simp only [List.mem_map] at hp
        rcases hp with ⟨c, hc, rfl⟩
        rw [removeAll_apply]
        refine ⟨hLrow c (hstale_tm c hc), ?_⟩
        rw [mem_colSlots_stored]
        exact fun h => hdisj c hc h.2.1)
    rw [List.flatMap_map, renew_pairs, removeAll_removeAll, ← colSlots_append] at this
    exact this
  refine accepts_append_of h2 ?_
  apply accepts_fill (cs := (srcIdx.filter (fun ck => tm.contains ck.1)).map (·.1))
  · simp [colSlots, List.map_map, Event.dst]
  · intro ev hev
    simp only [List.mem_map] at hev
    rcases hev with ⟨ck, _, rfl⟩; rfl
  · exact filterMap_keys_nodup _ _ hkeys_nd
  · intro x
    have : x ∈ (srcIdx.filter (fun ck => tm.contains ck.1)).map (·.1) ↔ (x ∈ srcIdx.map (·.1) ∧ x ∈ tm) := by
      simp only [List.mem_map, List.mem_filter, List.contains_iff_mem]
      constructor
      · rintro ⟨p, ⟨hp, ht⟩, rfl⟩; exact ⟨⟨p, hp, rfl⟩, ht⟩
      · rintro ⟨⟨p, hp, rfl⟩, ht⟩; exact ⟨p, ⟨hp, ht⟩, rfl⟩
    rw [this, hkey x, List.mem_append, List.mem_filter]
  · intro c hc
    rw [List.mem_append, List.mem_filter] at hc
    rcases hc with hc | hc
    · exact hLrow c (hraw_tm c hc)
    · exact hLrow c (hstale_tm c hc.1)
  · intro ev hev x hx
    simp only [List.mem_map] at hev
    rcases hev with ⟨ck, hck, rfl⟩
    simp only [Event.src?, Option.some.injEq] at hx
    subst hx
    exact ⟨hLsrc ck (List.mem_filter.mp hck).1, not_mem_colSlots_temp⟩

/-! ## same shape -/

/-- same masks, same sizes -/
def ShapeEq (a b : WM) : Prop :=
  (∀ x, (b.arch x).mask = (a.arch x).mask) ∧ (∀ x, (b.arch x).rows.length = (a.arch x).rows.length)

theorem ShapeEq.refl (a : WM) : ShapeEq a a := ⟨fun _ => rfl, fun _ => rfl⟩
theorem ShapeEq.trans {a b c : WM} (h1 : ShapeEq a b) (h2 : ShapeEq b c) : ShapeEq a c :=
  ⟨fun x => (h2.1 x).trans (h1.1 x), fun x => (h2.2 x).trans (h1.2 x)⟩
theorem ShapeEq.live {a b : WM} (h : ShapeEq a b) (F : SlotState) : live b F = live a F := live_congr F h.1 h.2
theorem ShapeEq.masksOk {a b : WM} (h : ShapeEq a b) (hm : MasksOk a) : MasksOk b := masksOk_congr h.1 hm

theorem shapeEq_packSetVal (ti idx : Nat) (w : WM) (c : CompId) (v : Val) : ShapeEq w (packSetVal ti idx w c v) := by
  unfold packSetVal
  simp only
  split
  · exact ShapeEq.refl w
  · constructor
    · intro a
      by_cases ha : a = ti
      · subst ha
        by_cases hlt : a < w.archs.length
        · rw [arch_setArch_same _ _ _ hlt]
        · rw [arch_of_ge _ a (by rw [archs_length_setArch]; omega), arch_of_ge w a (by omega)]
      · rw [arch_setArch_ne _ _ _ _ ha]
    · intro a
      by_cases ha : a = ti
      · subst ha
        by_cases hlt : a < w.archs.length
        · rw [arch_setArch_same _ _ _ hlt]; simp
        · rw [arch_of_ge _ a (by rw [archs_length_setArch]; omega), arch_of_ge w a (by omega)]
      · rw [arch_setArch_ne _ _ _ _ ha]

/-- the two value loops of `packFinish` keep the shape the single insertion / move produced -/
theorem packFinish_shape (info : CompId → CompInfo) (e : Handle) (isCreate : Bool) (initial : Mask) (sh : Shared)
    (w : WM) (p : PackSt) (cbs : List Cb) (hd : p.dead = false) :
    ShapeEq (packMoved info e isCreate initial sh w p).1 (packFinish info e isCreate initial sh (w, p, cbs)).1 := by
  rw [packFinish_fst, hd]
  simp only [Bool.false_eq_true, if_false]
  have := packLoops_rel ShapeEq ShapeEq.refl (fun _ _ _ h₁ h₂ => h₁.trans h₂)
    (fun ti idx a c v => shapeEq_packSetVal ti idx a c v) info e isCreate initial sh w p
  exact this.1.trans (this.2 _ _ _)

/-! ## the second half of a pack -/

/-- what a pack on an existing entity needs from the state: its location is a row of its archetype. (Nothing about the
archetype's mask being closed under the dependencies, nothing about its key: an entity whose set did not change stays
where it is without a lookup, and a changed set is looked up whatever the old mask was.) -/
structure TargetOK (w : WM) (e : Handle) (pi : Nat) : Prop where
  idx : (w.locOf e).idx < (w.arch pi).rows.length

theorem supplied_contains (st : PackLife) (hk : st.srcIdx.map (·.1) = st.p.src.map (·.1)) (x : CompId) :
    (Mask.ofList (st.p.src.map (·.1))).contains x = true ↔ x ∈ st.srcIdx.map (·.1) := by
  rw [List.contains_iff_mem, mem_ofList, hk]

theorem stale_nodup (isCreate : Bool) (initial : Mask) (p : PackSt) (supplied tm : Mask) (h : MaskOk p.final) :
    ((p.final.filter (fun c => p.replaced.contains c && initial.contains c)).filter
      (fun c => !(isCreate && supplied.contains c) && tm.contains c)).Nodup :=
  ((maskOk_nodup h).filter _).filter _

theorem mem_stale (isCreate : Bool) (initial : Mask) (p : PackSt) (supplied tm : Mask) (c : CompId) :
    c ∈ (p.final.filter (fun c => p.replaced.contains c && initial.contains c)).filter
      (fun c => !(isCreate && supplied.contains c) && tm.contains c) ↔
    c ∈ p.final ∧ c ∈ p.replaced ∧ c ∈ initial ∧ ¬ (isCreate = true ∧ supplied.contains c = true) ∧ c ∈ tm := by
  constructor
  · intro h
    rcases List.mem_filter.mp h with ⟨h12, h45⟩
    rcases List.mem_filter.mp h12 with ⟨h1, h23⟩
    rw [Bool.and_eq_true] at h23 h45
    refine ⟨h1, List.contains_iff_mem.mp h23.1, List.contains_iff_mem.mp h23.2, ?_, List.contains_iff_mem.mp h45.2⟩
    rintro ⟨ha, hb⟩
    have h := h45.1
    rw [ha, hb] at h
    cases h
  · rintro ⟨h1, h2, h3, h4, h5⟩
    have hf : (isCreate && supplied.contains c) = false := by
      cases hi : isCreate
      · rfl
      · cases hs : supplied.contains c
        · rfl
        · exact absurd ⟨hi, hs⟩ h4
    refine List.mem_filter.mpr ⟨List.mem_filter.mpr ⟨h1, ?_⟩, ?_⟩
    · rw [Bool.and_eq_true]; exact ⟨List.contains_iff_mem.mpr h2, List.contains_iff_mem.mpr h3⟩
    · rw [Bool.and_eq_true, hf]; exact ⟨rfl, List.contains_iff_mem.mpr h5⟩

theorem packFinish_accepts (info : CompId → CompInfo) (t : Nat) (F : SlotState) (hF : TempOnly F) (w0 w1 : WM)
    (initial : Mask) (e : Handle) (isCreate : Bool) (sh : Shared) (st : PackLife) (cbs : List Cb)
    (inv : LifeFold t F (live w0 F) w1 initial st)
    (hnc : isCreate = false → st.p.dead = false → ∃ pi, (w1.locOf e).arch = some pi ∧ TargetOK w1 e pi ∧
      initial = (w1.arch pi).mask ∧ sh = (w1.arch pi).shared) :
    accepts (live w0 F) (packFinishEvents t e isCreate initial sh st) =
      some (live (packFinish info e isCreate initial sh (st.w, st.p, cbs)).1 F) ∧
    MasksOk (packFinish info e isCreate initial sh (st.w, st.p, cbs)).1 := by
  by_cases hd : st.p.dead = true
  · have : (packFinish info e isCreate initial sh (st.w, st.p, cbs)).1 = st.w := by
      rw [packFinish_fst, if_pos hd]
    rw [this]
    unfold packFinishEvents
    rw [if_pos hd]
    exact ⟨inv.ok, inv.masks⟩
  · have hd' : st.p.dead = false := by simpa using hd
    rcases inv.alive hd' with ⟨hevs, harchs, hlocs, hdeps⟩
    have hS0 : live w0 F = live st.w F := by
      have := inv.ok; rw [hevs] at this; exact Option.some.inj this
    have hshape := packFinish_shape info e isCreate initial sh st.w st.p cbs hd'
    have hlo : st.w.locOf e = w1.locOf e := by unfold WM.locOf; rw [hlocs]
    have harch1 : ∀ a, st.w.arch a = w1.arch a := fun a => by rw [arch_def, arch_def, harchs]
    rw [hshape.live F]
    refine ⟨?_, hshape.masksOk ?_⟩
    all_goals
      have hmk1 := masksOk_getArch inv.masks st.p.final sh inv.fin
      have hkey := getArch_key st.w st.p.final sh
      have hsup := supplied_contains st inv.keys
      have hLsrcOf : ∀ (wM : WM), ∀ ck ∈ st.srcIdx, live wM F (.temp t ck.2 ck.1) = true := by
        intro wM ck hck; rw [live_temp]; exact inv.temps ck hck
    -- the events
    · cases hic : isCreate with
      | true =>
        have hT : packTarget e true initial sh st.w st.p = st.w.getArch st.p.final sh := rfl
        have hT' : packTargetArch e true initial sh st.w st.p = st.w.getArch st.p.final sh := hT
        unfold packFinishEvents packMoved
        rw [if_neg hd, hevs, hS0]
        simp only [List.nil_append, hT, hT']
        simp only [if_true, List.append_assoc]
        have hai := getArch_idx_lt st.w st.p.final sh
        have hsh := archInsert_shape info (st.w.getArch st.p.final sh).1 (st.w.getArch st.p.final sh).2 e
          (Mask.ofList (st.p.src.map (·.1))) hai
        rw [← live_getArch st.w st.p.final sh F]
        refine accepts_append_of (archInsert_accepts info _ F hF _ e _ hai (maskOk_nodup (hmk1 _))) ?_
        apply accepts_packTail
        · exact stale_nodup _ _ _ _ _ inv.fin
        · intro c hc; exact ((mem_stale _ _ _ _ _ c).mp hc).2.2.2.2
        · intro c hc hr
          have h1 := ((mem_stale _ _ _ _ _ c).mp hc).2.2.2.1
          exact h1 ⟨rfl, (List.mem_filter.mp hr).2⟩
        · intro c hc; exact (List.mem_filter.mp hc).1
        · intro c hc
          rw [live_stored]
          exact Or.inl ⟨by rw [hsh.1]; exact hc, by rw [hsh.2.1]; simp⟩
        · exact hLsrcOf _
        · exact inv.nodup
        · intro x
          rw [List.mem_filter, mem_stale]
          constructor
          · rintro ⟨hk, ht⟩; exact Or.inl ⟨ht, (hsup x).mpr hk⟩
          · rintro (⟨ht, hs⟩ | ⟨⟨_, _, _, h4, _⟩, hs⟩)
            · exact ⟨(hsup x).mp hs, ht⟩
            · exact absurd ⟨rfl, hs⟩ h4
      | false =>
        rcases hnc hic hd' with ⟨pi, hla, htgt, hinit, hshd⟩
        have hpilt : pi < st.w.archs.length := by
          rw [harchs]; exact lt_archs_of_rows htgt.idx
        -- no move: the supplied values replace stale instances of row `(pi, idx)`
        have hstayTail : ∀ (wL : WM), wL.arch pi = w1.arch pi →
            accepts (live wL F)
              (((st.p.final.filter (fun c => st.p.replaced.contains c && initial.contains c)).filter
                  (fun c => !(false && (Mask.ofList (st.p.src.map (·.1))).contains c) &&
                    (w1.arch pi).mask.contains c)).flatMap (fun c =>
                  Event.destroy (.stored pi c (w1.locOf e).idx) ::
                    (if (Mask.ofList (st.p.src.map (·.1))).contains c then []
                      else [Event.construct (.stored pi c (w1.locOf e).idx)])) ++
                (st.srcIdx.filter (fun ck => (w1.arch pi).mask.contains ck.1)).map (fun ck =>
                  Event.moveConstruct (.stored pi ck.1 (w1.locOf e).idx) (.temp t ck.2 ck.1))) =
              some (live wL F) := by
          intro wL hpa
          have := accepts_packTail (live wL F) t pi (w1.locOf e).idx (w1.arch pi).mask []
            ((st.p.final.filter (fun c => st.p.replaced.contains c && initial.contains c)).filter
              (fun c => !(false && (Mask.ofList (st.p.src.map (·.1))).contains c) && (w1.arch pi).mask.contains c))
            (Mask.ofList (st.p.src.map (·.1))) st.srcIdx
            (stale_nodup _ _ _ _ _ inv.fin)
            (fun c hc => ((mem_stale _ _ _ _ _ c).mp hc).2.2.2.2)
            (fun c _ h => by cases h) (fun c h => by cases h)
            (fun c hc => by rw [live_stored, hpa]; exact Or.inl ⟨hc, htgt.idx⟩)
            (hLsrcOf _) inv.nodup
            (by
              intro x
              rw [mem_stale]
              constructor
              · rintro ⟨hk, ht⟩
                have hxi : x ∈ initial := by rw [hinit]; exact ht
                exact Or.inr ⟨⟨inv.sub x hk, inv.repl x hk hxi, hxi, by simp, ht⟩, (hsup x).mpr hk⟩
              · rintro (h | ⟨⟨_, _, _, _, ht⟩, hs⟩)
                · cases h
                · exact ⟨(hsup x).mp hs, ht⟩)
          simpa [colSlots, removeAll_nil] using this
        by_cases hfin : initial = st.p.final
        · -- the set did not change: the entity stays in its archetype, nothing is looked up
          have hT : packTarget e false initial sh st.w st.p = (st.w, pi) :=
            packTarget_stay e initial sh st.w st.p pi hfin (by rw [hlo]; exact hla)
          have hT' : packTargetArch e false initial sh st.w st.p = (st.w, pi) := hT
          rw [packMoved_stay info e initial sh st.w st.p pi (by rw [hlo]; exact hla) hT]
          unfold packFinishEvents
          rw [if_neg hd, hevs, hS0]
          simp only [List.nil_append, hT', hlo, hla, Bool.false_eq_true, if_false, decide_true, Bool.true_or, if_true,
            harch1]
          exact hstayTail st.w (harch1 pi)
        · have hT : packTarget e false initial sh st.w st.p = st.w.getArch st.p.final sh :=
            packTarget_ne e false initial sh st.w st.p hfin
          have hT' : packTargetArch e false initial sh st.w st.p = st.w.getArch st.p.final sh := hT
          unfold packFinishEvents packMoved
          rw [if_neg hd, hevs, hS0]
          simp only [List.nil_append, hT, hT']
          simp only [Bool.false_eq_true, if_false]
          have hloc : (st.w.getArch st.p.final sh).1.locOf e = w1.locOf e := by
            unfold WM.locOf; rw [getArch_locs, hlocs]
          rw [hloc, hla]
          simp only
          by_cases hun : (pi = (st.w.getArch st.p.final sh).2 || initial == st.p.final) = true
          · rw [if_pos hun, if_pos hun]
            simp only [List.nil_append]
            -- the looked-up archetype is the entity's own
            have hti : (st.w.getArch st.p.final sh).2 = pi := by
              simp only [Bool.or_eq_true, decide_eq_true_eq, beq_iff_eq] at hun
              rcases hun with h | h
              · exact h.symm
              · exact absurd h hfin
            have hpa : (st.w.getArch st.p.final sh).1.arch pi = w1.arch pi := by
              rw [getArch_arch_lt _ _ _ _ hpilt, harch1]
            rw [hti, hpa, ← live_getArch st.w st.p.final sh F]
            exact hstayTail _ hpa
          · rw [if_neg hun, if_neg hun]
            have hne : (st.w.getArch st.p.final sh).2 ≠ pi := by
              simp only [Bool.or_eq_true, decide_eq_true_eq, not_or] at hun
              exact fun h => hun.1 h.symm
            have hidx : (w1.locOf e).idx < (st.w.arch pi).rows.length := by rw [harch1]; exact htgt.idx
            rcases move_via_getArch info st.w F hF st.p.final sh e pi (w1.locOf e).idx
              (Mask.ofList (st.p.src.map (·.1))) inv.masks inv.fin hidx with
              ⟨hti, _, _⟩ | ⟨_, w2, cbs2, hsome, hacc, hmask, hlen, _, _⟩
            · exact absurd hti hne
            · rw [hsome]
              simp only [List.append_assoc]
              refine accepts_append_of hacc ?_
              rw [hkey.1]
              apply accepts_packTail
              · exact stale_nodup _ _ _ _ _ inv.fin
              · intro c hc; exact ((mem_stale _ _ _ _ _ c).mp hc).2.2.2.2
              · intro c hc hr
                have h3 := ((mem_stale _ _ _ _ _ c).mp hc).2.2.1
                have hr' := (List.mem_filter.mp hr).2
                simp only [Bool.and_eq_true, Bool.not_eq_true', List.contains_eq_mem, decide_eq_false_iff_not] at hr'
                rw [hinit, ← harch1] at h3
                exact hr'.1 h3
              · intro c hc; exact (List.mem_filter.mp hc).1
              · intro c hc
                rw [live_stored]
                exact Or.inl ⟨by rw [hmask]; exact hc, by rw [hlen]; exact Nat.lt_succ_self _⟩
              · exact hLsrcOf _
              · exact inv.nodup
              · intro x
                rw [List.mem_filter, mem_stale]
                simp only [Bool.and_eq_true, Bool.not_eq_true', List.contains_eq_mem, decide_eq_false_iff_not,
                  decide_eq_true_eq]
                constructor
                · rintro ⟨hk, ht⟩
                  by_cases hxp : x ∈ (st.w.arch pi).mask
                  · have hxi : x ∈ initial := by rw [hinit, ← harch1]; exact hxp
                    right
                    refine ⟨⟨inv.sub x hk, inv.repl x hk hxi, hxi, by simp, ht⟩, ?_⟩
                    have := (hsup x).mpr hk
                    simpa using this
                  · left
                    refine ⟨ht, hxp, ?_⟩
                    have := (hsup x).mpr hk
                    simpa using this
                · rintro (⟨ht, _, hs⟩ | ⟨⟨_, _, _, _, ht⟩, hs⟩)
                  · exact ⟨(hsup x).mp (by simpa using hs), ht⟩
                  · exact ⟨(hsup x).mp (by simpa using hs), ht⟩
    -- the masks
    · have hlookup : packTarget e isCreate initial sh st.w st.p = st.w.getArch st.p.final sh →
          MasksOk (packMoved info e isCreate initial sh st.w st.p).1 := by
        intro hT
        unfold packMoved
        simp only [hT]
        cases hic : isCreate with
        | true =>
          simp only [if_true]
          exact masksOk_congr (archInsert_shape info _ _ e _ (getArch_idx_lt _ _ _)).1 hmk1
        | false =>
          simp only [Bool.false_eq_true, if_false]
          split
          · split
            · exact hmk1
            · split
              · rename_i pi _ _ _ r hr
                have hne : (st.w.getArch st.p.final sh).2 ≠ pi := by
                  intro h; rw [h, externalMove_self] at hr; cases hr
                rcases externalMove_eq info (st.w.getArch st.p.final sh).1 (st.w.getArch st.p.final sh).2 e pi
                  ((st.w.getArch st.p.final sh).1.locOf e).idx (Mask.ofList (st.p.src.map (·.1))) hne with ⟨cbs', heq⟩
                rw [heq] at hr; cases hr
                refine masksOk_congr (fun a => ?_) hmk1
                have hr := archRemove_shape info (st.w.getArch st.p.final sh).1 pi
                  ((st.w.getArch st.p.final sh).1.locOf e).idx
                  ((st.w.getArch st.p.final sh).1.arch (st.w.getArch st.p.final sh).2).mask
                rw [(insertRow_mask _ _ a e _ (by rw [hr.2.2]; exact getArch_idx_lt _ _ _)).1, hr.1]
              · exact hmk1
          · exact hmk1
      rcases packTarget_cases e isCreate initial sh st.w st.p with ⟨hc, _, pi, hl, hT⟩ | hT
      · subst hc
        rw [packMoved_stay info e initial sh st.w st.p pi hl hT]
        exact inv.masks
      · exact hlookup hT

end Mustache.Proofs.Life

import Mustache.Proofs.LifeLocked
/-!
# `applyCommandPack`, first half: the fold over the commands of a pack with the lifecycle ghost state (C03)

`packLifeStep` carries, next to the model's folding state, the buffer index of the assign command that supplies each
value and the events performed so far (only `destroyNow` performs any). `LifeFold` is the invariant of that fold.
-/
namespace Mustache.Proofs.Life
open Mustache.Model Mustache.Proofs.Rows

/-- the model part of `packLifeStep` is `packStep` -/
theorem packLifeStep_proj (info : CompId → CompInfo) (e : Handle) (isCreate : Bool) (acc : PackLife)
    (ck : Cmd × Nat) (cbs : List Cb) :
    (packLifeStep info e isCreate acc ck).w = (packStep info e isCreate (acc.w, acc.p, cbs) ck.1).1 ∧
    (packLifeStep info e isCreate acc ck).p = (packStep info e isCreate (acc.w, acc.p, cbs) ck.1).2.1 := by
  unfold packLifeStep packStep
  simp only
  split
  · exact ⟨rfl, rfl⟩
  · cases ck.1 with
    | create _ _ _ => exact ⟨rfl, rfl⟩
    | destroyNow _ =>
      simp only
      split <;> exact ⟨rfl, rfl⟩
    | destroy x => exact ⟨rfl, rfl⟩
    | remove _ c =>
      simp only
      split
      · split <;> exact ⟨rfl, rfl⟩
      · exact ⟨rfl, rfl⟩
    | assign _ c v =>
      simp only
      split <;> exact ⟨rfl, rfl⟩

theorem lifeFold_proj (info : CompId → CompInfo) (e : Handle) (isCreate : Bool) (body : List Cmd) (o : Nat)
    (acc : PackLife) (cbs : List Cb) :
    ((body.zipIdx o).foldl (packLifeStep info e isCreate) acc).w =
      (body.foldl (packStep info e isCreate) (acc.w, acc.p, cbs)).1 ∧
    ((body.zipIdx o).foldl (packLifeStep info e isCreate) acc).p =
      (body.foldl (packStep info e isCreate) (acc.w, acc.p, cbs)).2.1 := by
  induction body generalizing o acc cbs with
  | nil => exact ⟨rfl, rfl⟩
  | cons c cs ih =>
    rw [List.zipIdx_cons, List.foldl_cons, List.foldl_cons]
    have hp := packLifeStep_proj info e isCreate acc (c, o) cbs
    have := ih (o + 1) (packLifeStep info e isCreate acc (c, o)) (packStep info e isCreate (acc.w, acc.p, cbs) c).2.2
    rw [hp.1, hp.2] at this
    exact this

/-- invariant of the fold: `S0` is the slot set the pack started from, `w1` the state after the pack's start -/
structure LifeFold (t : Nat) (F S0 : SlotState) (w1 : WM) (initial : Mask) (acc : PackLife) : Prop where
  masks : MasksOk acc.w
  ok : accepts S0 acc.evs = some (live acc.w F)
  alive : acc.p.dead = false →
    acc.evs = [] ∧ acc.w.archs = w1.archs ∧ acc.w.locs = w1.locs ∧ acc.w.deps = w1.deps
  fin : MaskOk acc.p.final
  keys : acc.srcIdx.map (·.1) = acc.p.src.map (·.1)
  nodup : (acc.srcIdx.map (·.1)).Nodup
  sub : ∀ c ∈ acc.srcIdx.map (·.1), c ∈ acc.p.final
  repl : ∀ c ∈ acc.srcIdx.map (·.1), c ∈ initial → c ∈ acc.p.replaced
  gone : ∀ c ∈ initial, c ∉ acc.p.final → c ∈ acc.p.replaced
  temps : ∀ ck ∈ acc.srcIdx, F (.temp t ck.2 ck.1) = true

theorem map_fst_filter_ne {β : Type} (l : List (CompId × β)) (c : CompId) :
    (l.filter (fun x => x.1 != c)).map (·.1) = (l.map (·.1)).filter (fun x => x != c) := by
  induction l with
  | nil => rfl
  | cons x xs ih =>
    simp only [List.filter_cons, List.map_cons]
    split <;> simp [ih]

theorem mem_filter_ne {l : List CompId} {c x : CompId} :
    x ∈ l.filter (fun y => y != c) ↔ x ∈ l ∧ x ≠ c := by
  simp [List.mem_filter]

theorem packLifeStep_inv (info : CompId → CompInfo) (t : Nat) (F : SlotState) (hF : TempOnly F) (S0 : SlotState)
    (w1 : WM) (initial : Mask) (e : Handle) (isCreate : Bool) (acc : PackLife) (ck : Cmd × Nat)
    (h : LifeFold t F S0 w1 initial acc)
    (hck : ∀ e' c v, ck.1 = Cmd.assign e' c v → F (.temp t ck.2 c) = true) :
    LifeFold t F S0 w1 initial (packLifeStep info e isCreate acc ck) := by
  unfold packLifeStep
  split
  · exact h
  · rename_i hdead
    have hd : acc.p.dead = false := by simpa using hdead
    have hal := h.alive hd
    cases hc : ck.1 with
    | create _ _ _ => exact h
    | destroyNow _ =>
      simp only
      split
      · refine ⟨masksOk_congr (fun a => congrArg Arch.mask (release_arch' _ e a)) h.masks, ?_, ?_, h.fin, h.keys,
          h.nodup, h.sub, h.repl, h.gone, h.temps⟩
        · rw [h.ok]
          exact congrArg some (live_congr F (fun a => by rw [release_arch']) (fun a => by rw [release_arch'])).symm
        · intro hh; cases hh
      · have hdn := destroyNowU_accepts info acc.w F hF e h.masks
        refine ⟨hdn.2.2, accepts_append_of h.ok hdn.1, ?_, h.fin, h.keys, h.nodup, h.sub, h.repl, h.gone, h.temps⟩
        intro hh; cases hh
    | destroy x =>
      simp only
      refine ⟨fun a => h.masks a, ?_, fun hh => ⟨(h.alive hh).1, (h.alive hh).2.1, (h.alive hh).2.2.1,
        (h.alive hh).2.2.2⟩, h.fin, h.keys, h.nodup, h.sub, h.repl, h.gone, h.temps⟩
      rw [h.ok]; rfl
    | remove _ c =>
      simp only
      split
      · split
        · rename_i hfc hnc
          -- the closure brings `c` back: the set becomes the closure of the rest, which contains the old one
          have hcn : c ∈ closedMask acc.w.deps (Mask.erase acc.p.final c) := by simpa using hnc
          have hsup : ∀ x, x ∈ acc.p.final → x ∈ closedMask acc.w.deps (Mask.erase acc.p.final c) := by
            intro x hx
            by_cases hxc : x = c
            · rw [hxc]; exact hcn
            · exact mem_closedMask_of_mem _ _ _ ((mem_erase _ _ _).mpr ⟨hx, hxc⟩)
          exact ⟨h.masks, h.ok, fun _ => hal, maskOk_closedMask _ (maskOk_erase h.fin c), h.keys, h.nodup,
            fun x hx => hsup x (h.sub x hx), h.repl, fun x hi hx => h.gone x hi (fun hxf => hx (hsup x hxf)), h.temps⟩
        · rename_i hfc hnc
          refine ⟨h.masks, h.ok, fun _ => hal, maskOk_closedMask _ (maskOk_erase h.fin c), ?_, ?_, ?_, ?_, ?_, ?_⟩
          · simp only [map_fst_filter_ne, h.keys]
          · rw [map_fst_filter_ne]; exact h.nodup.filter _
          · intro x hx
            rw [map_fst_filter_ne, mem_filter_ne] at hx
            exact mem_closedMask_of_mem _ _ _ ((mem_erase _ _ _).mpr ⟨h.sub x hx.1, hx.2⟩)
          · intro x hx hi
            rw [map_fst_filter_ne, mem_filter_ne] at hx
            exact (mem_insert _ _ _).mpr (Or.inr (h.repl x hx.1 hi))
          · intro x hi hx
            by_cases hxc : x = c
            · exact (mem_insert _ _ _).mpr (Or.inl hxc)
            · refine (mem_insert _ _ _).mpr (Or.inr (h.gone x hi ?_))
              intro hxf
              exact hx (mem_closedMask_of_mem _ _ _ ((mem_erase _ _ _).mpr ⟨hxf, hxc⟩))
          · intro ck' hck'
            exact h.temps ck' (List.mem_filter.mp hck').1
      · exact h
    | assign e' c v =>
      simp only
      have hkeys : (acc.srcIdx.filter (fun x => x.1 != c) ++ [(c, ck.2)]).map (·.1) =
          (acc.p.src.filter (fun x => x.1 != c) ++ [(c, v)]).map (·.1) := by
        simp only [List.map_append, map_fst_filter_ne, h.keys, List.map_cons, List.map_nil]
      have hnd : ((acc.srcIdx.filter (fun x => x.1 != c) ++ [(c, ck.2)]).map (·.1)).Nodup := by
        rw [List.map_append, map_fst_filter_ne, List.map_cons, List.map_nil, List.nodup_append]
        refine ⟨h.nodup.filter _, by simp, ?_⟩
        intro a ha b hb
        simp only [List.mem_singleton] at hb
        subst hb
        exact (mem_filter_ne.mp ha).2
      have hmem : ∀ x, x ∈ (acc.srcIdx.filter (fun x => x.1 != c) ++ [(c, ck.2)]).map (·.1) →
          (x ∈ acc.srcIdx.map (·.1) ∧ x ≠ c) ∨ x = c := by
        intro x hx
        rw [List.map_append, List.mem_append, map_fst_filter_ne, mem_filter_ne] at hx
        rcases hx with hx | hx
        · exact Or.inl hx
        · simp only [List.map_cons, List.map_nil, List.mem_singleton] at hx; exact Or.inr hx
      have htemps : ∀ ck' ∈ acc.srcIdx.filter (fun x => x.1 != c) ++ [(c, ck.2)],
          F (.temp t ck'.2 ck'.1) = true := by
        intro ck' hck'
        rw [List.mem_append] at hck'
        rcases hck' with h1 | h1
        · exact h.temps ck' (List.mem_filter.mp h1).1
        · simp only [List.mem_singleton] at h1
          subst h1
          exact hck e' c v hc
      split
      · rename_i hfc
        have hcf : c ∈ acc.p.final := by simpa using hfc
        refine ⟨h.masks, h.ok, fun _ => hal, h.fin, hkeys, hnd, ?_, ?_, ?_, htemps⟩
        · intro x hx
          rcases hmem x hx with hx | hx
          · exact h.sub x hx.1
          · rw [hx]; exact hcf
        · intro x hx hi
          rcases hmem x hx with hx | hx
          · exact (mem_insert _ _ _).mpr (Or.inr (h.repl x hx.1 hi))
          · exact (mem_insert _ _ _).mpr (Or.inl hx)
        · intro x hi hx
          exact (mem_insert _ _ _).mpr (Or.inr (h.gone x hi hx))
      · rename_i hfc
        have hcf : c ∉ acc.p.final := by simpa using hfc
        refine ⟨h.masks, h.ok, fun _ => hal, maskOk_closedMask _ (maskOk_insert h.fin c), hkeys, hnd, ?_, ?_, ?_,
          htemps⟩
        · intro x hx
          apply mem_closedMask_of_mem
          rcases hmem x hx with hx | hx
          · exact (mem_insert _ _ _).mpr (Or.inr (h.sub x hx.1))
          · exact (mem_insert _ _ _).mpr (Or.inl hx)
        · intro x hx hi
          rcases hmem x hx with hx | hx
          · exact h.repl x hx.1 hi
          · subst hx; exact h.gone x hi hcf
        · intro x hi hx
          refine h.gone x hi ?_
          intro hxf
          exact hx (mem_closedMask_of_mem _ _ _ ((mem_insert _ _ _).mpr (Or.inr hxf)))

theorem lifeFold_inv (info : CompId → CompInfo) (t : Nat) (F : SlotState) (hF : TempOnly F) (S0 : SlotState)
    (w1 : WM) (initial : Mask) (e : Handle) (isCreate : Bool) (body : List (Cmd × Nat)) (acc : PackLife)
    (h : LifeFold t F S0 w1 initial acc)
    (hbody : ∀ ck ∈ body, ∀ e' c v, ck.1 = Cmd.assign e' c v → F (.temp t ck.2 c) = true) :
    LifeFold t F S0 w1 initial (body.foldl (packLifeStep info e isCreate) acc) := by
  induction body generalizing acc with
  | nil => exact h
  | cons ck cks ih =>
    rw [List.foldl_cons]
    exact ih _ (packLifeStep_inv info t F hF S0 w1 initial e isCreate acc ck h
      (hbody ck (List.mem_cons_self ..))) (fun ck' hck' => hbody ck' (List.mem_cons_of_mem _ hck'))

end Mustache.Proofs.Life

import Mustache.Proofs.LifeBasic
import Mustache.Proofs.RowsPack
/-!
# The archetype primitives on the live-slot set (C03)

* `accepts_newRow`: a batch of constructions that fills exactly the slots of a new row;
* `accepts_dropRow`: `Archetype::remove` (last row / any other row) ends exactly the slots of the last row;
* `accepts_clear`: `Archetype::clear`;
* `live_addRow`, `live_dropRow`, `live_move`: the resulting slot sets are the slot sets of the states with one
  more / one fewer row.
-/
namespace Mustache.Proofs.Life
open Mustache.Model Mustache.Proofs.Rows

/-- the slots of row `i` of archetype `ai` for the components `cs` -/
def colSlots (ai : Nat) (cs : List CompId) (i : Nat) : List LSlot := cs.map (fun c => LSlot.stored ai c i)

theorem mem_colSlots_stored {ai : Nat} {cs : List CompId} {n a c i : Nat} :
    LSlot.stored a c i ∈ colSlots ai cs n ↔ a = ai ∧ c ∈ cs ∧ i = n := by
  simp only [colSlots, List.mem_map, LSlot.stored.injEq]
  constructor
  · rintro ⟨c', hc', rfl, rfl, rfl⟩; exact ⟨rfl, hc', rfl⟩
  · rintro ⟨rfl, hc, rfl⟩; exact ⟨c, hc, rfl, rfl, rfl⟩

theorem not_mem_colSlots_temp {ai : Nat} {cs : List CompId} {n t k c : Nat} :
    LSlot.temp t k c ∉ colSlots ai cs n := by
  simp [colSlots]

theorem colSlots_nodup {ai : Nat} {cs : List CompId} {n : Nat} (h : cs.Nodup) : (colSlots ai cs n).Nodup := by
  unfold colSlots
  exact List.Pairwise.map _ (fun a b (hab : a ≠ b) => by simpa using hab) h

theorem colSlots_append (ai : Nat) (a b : List CompId) (n : Nat) :
    colSlots ai (a ++ b) n = colSlots ai a n ++ colSlots ai b n := by
  simp [colSlots]

theorem addAll_congr (s : SlotState) {xs ys : List LSlot} (h : ∀ y, y ∈ xs ↔ y ∈ ys) :
    addAll s xs = addAll s ys := by
  apply slotState_ext
  intro y
  rw [addAll_apply, addAll_apply, h y]

theorem removeAll_removeAll (s : SlotState) (xs ys : List LSlot) :
    removeAll (removeAll s xs) ys = removeAll s (xs ++ ys) := by
  apply slotState_ext
  intro y
  simp only [removeAll_apply, List.mem_append, not_or, and_assoc]

/-- a batch of constructions whose destinations are the slots `cs` of row `n`, `cs` = the mask as a set -/
theorem accepts_newRow (evs : List Event) (s : SlotState) (ai : Nat) (mask cs : List CompId) (n : Nat)
    (hdst : evs.map Event.dst = colSlots ai cs n)
    (hc : ∀ e ∈ evs, Event.isCreate e = true)
    (hcs : cs.Nodup) (hmem : ∀ c, c ∈ cs ↔ c ∈ mask)
    (hdead : ∀ c ∈ mask, s (.stored ai c n) = false)
    (hsrc : ∀ e ∈ evs, ∀ x, Event.src? e = some x → s x = true) :
    accepts s evs = some (addAll s (colSlots ai mask n)) := by
  rw [accepts_creates evs s hc (by rw [hdst]; exact colSlots_nodup hcs) ?_ hsrc, hdst]
  · congr 1
    apply addAll_congr
    intro y
    cases y with
    | stored a c i => simp only [mem_colSlots_stored, hmem]
    | temp t k c => simp [not_mem_colSlots_temp]
  · intro e he
    have : e.dst ∈ colSlots ai cs n := by rw [← hdst]; exact List.mem_map_of_mem he
    simp only [colSlots, List.mem_map] at this
    rcases this with ⟨c, hc', heq⟩
    rw [← heq]
    exact hdead c ((hmem c).mp hc')

/-- `Archetype::remove` of row `idx < len`: first, middle or last -/
theorem accepts_dropRow (s : SlotState) (ai : Nat) (mask : List CompId) (idx len : Nat)
    (hnd : mask.Nodup) (hidx : idx < len)
    (hlive : ∀ c ∈ mask, ∀ i, i < len → s (.stored ai c i) = true) :
    accepts s (removeEvents ai mask idx len) = some (removeAll s (colSlots ai mask (len - 1))) := by
  have hd : ∀ j, mask.map (fun c => Event.destroy (.stored ai c j)) = (colSlots ai mask j).map Event.destroy := by
    intro j; simp [colSlots, List.map_map]
  have hlast : accepts s ((colSlots ai mask (len - 1)).map Event.destroy) =
      some (removeAll s (colSlots ai mask (len - 1))) := by
    apply accepts_destroys _ _ (colSlots_nodup hnd)
    intro x hx
    simp only [colSlots, List.mem_map] at hx
    rcases hx with ⟨c, hc, rfl⟩
    exact hlive c hc _ (by omega)
  unfold removeEvents
  by_cases h : idx = len - 1
  · rw [if_pos h, hd, h]; exact hlast
  · rw [if_neg h, hd]
    refine accepts_append_of (s' := s) ?_ hlast
    have : mask.map (fun c => Event.moveAssign (.stored ai c idx) (.stored ai c (len - 1))) =
        (mask.map (fun c => (LSlot.stored ai c idx, LSlot.stored ai c (len - 1)))).map
          (fun p => Event.moveAssign p.1 p.2) := by
      simp [List.map_map]
    rw [this]
    apply accepts_moveAssigns
    intro p hp
    simp only [List.mem_map] at hp
    rcases hp with ⟨c, hc, rfl⟩
    exact ⟨hlive c hc _ hidx, hlive c hc _ (by omega)⟩

/-- all slots of the `n` rows of an archetype -/
def allSlots (ai : Nat) (mask : List CompId) (n : Nat) : List LSlot :=
  mask.flatMap (fun c => (List.range n).map (fun i => LSlot.stored ai c i))

theorem mem_allSlots_stored {ai : Nat} {mask : List CompId} {n a c i : Nat} :
    LSlot.stored a c i ∈ allSlots ai mask n ↔ a = ai ∧ c ∈ mask ∧ i < n := by
  simp only [allSlots, List.mem_flatMap, List.mem_map, List.mem_range, LSlot.stored.injEq]
  constructor
  · rintro ⟨c', hc', j, hj, rfl, rfl, rfl⟩; exact ⟨rfl, hc', hj⟩
  · rintro ⟨rfl, hc, hi⟩; exact ⟨c, hc, i, hi, rfl, rfl, rfl⟩

theorem not_mem_allSlots_temp {ai : Nat} {mask : List CompId} {n t k c : Nat} :
    LSlot.temp t k c ∉ allSlots ai mask n := by
  simp [allSlots]

/-- `Archetype::clear` -/
theorem accepts_clear (s : SlotState) (ai : Nat) (mask : List CompId) (n : Nat) (hnd : mask.Nodup)
    (hlive : ∀ c ∈ mask, ∀ i, i < n → s (.stored ai c i) = true) :
    accepts s (clearEvents ai mask n) = some (removeAll s (allSlots ai mask n)) := by
  induction mask generalizing s with
  | nil => simp [clearEvents, allSlots, removeAll_nil, accepts_nil]
  | cons c cs ih =>
    simp only [List.nodup_cons] at hnd
    have hcol : accepts s ((List.range n).map (fun i => Event.destroy (.stored ai c i))) =
        some (removeAll s ((List.range n).map (fun i => LSlot.stored ai c i))) := by
      have : (List.range n).map (fun i => Event.destroy (.stored ai c i)) =
          ((List.range n).map (fun i => LSlot.stored ai c i)).map Event.destroy := by simp [List.map_map]
      rw [this]
      apply accepts_destroys
      · exact List.Pairwise.map _ (fun a b (hab : a ≠ b) => by simpa using hab) List.nodup_range
      · intro x hx
        simp only [List.mem_map, List.mem_range] at hx
        rcases hx with ⟨i, hi, rfl⟩
        exact hlive c (List.mem_cons_self ..) i hi
    have hrest := ih (removeAll s ((List.range n).map (fun i => LSlot.stored ai c i))) hnd.2 (by
      intro c' hc' i hi
      rw [removeAll_apply]
      refine ⟨hlive c' (List.mem_cons_of_mem _ hc') i hi, ?_⟩
      simp only [List.mem_map, List.mem_range, LSlot.stored.injEq, not_exists, not_and]
      intro j _ _ hcc
      exact absurd hcc (fun h => hnd.1 (h ▸ hc')))
    have := accepts_append_of hcol hrest
    rw [removeAll_removeAll] at this
    simpa [clearEvents, allSlots] using this

/-! ## slot sets of world states -/

/-- stored instances of `w` plus a frame `F` (the parked temporaries) -/
def live (w : WM) (F : SlotState) : SlotState := fun y => storedLive w y || F y

theorem slotsOf_eq_live (w : WM) : slotsOf w = live w (tempLive w.buffers) := rfl

theorem storedLive_stored (w : WM) (a c i : Nat) :
    storedLive w (.stored a c i) = true ↔ c ∈ (w.arch a).mask ∧ i < (w.arch a).rows.length := by
  simp [storedLive]

theorem live_stored (w : WM) (F : SlotState) (a c i : Nat) :
    live w F (.stored a c i) = true ↔
      (c ∈ (w.arch a).mask ∧ i < (w.arch a).rows.length) ∨ F (.stored a c i) = true := by
  simp [live, storedLive]

theorem live_temp (w : WM) (F : SlotState) (t k c : Nat) : live w F (.temp t k c) = F (.temp t k c) := by
  simp [live, storedLive]

/-- a frame that holds no stored slot -/
def TempOnly (F : SlotState) : Prop := ∀ a c i, F (.stored a c i) = false

theorem tempOnly_tempLive (bufs : List (List Cmd)) : TempOnly (tempLive bufs) := fun _ _ _ => rfl

/-- same masks and same sizes: the same stored slots -/
theorem live_congr {w w' : WM} (F : SlotState) (hm : ∀ a, (w'.arch a).mask = (w.arch a).mask)
    (hl : ∀ a, (w'.arch a).rows.length = (w.arch a).rows.length) : live w' F = live w F := by
  apply slotState_ext
  intro y
  cases y with
  | stored a c i => rw [live_stored, live_stored, hm, hl]
  | temp t k c => rw [live_temp, live_temp]

/-- an archetype without rows has no slots: only the sizes of non-empty archetypes and their masks matter -/
theorem live_congr' {w w' : WM} (F : SlotState)
    (h : ∀ a, (w'.arch a).rows.length = (w.arch a).rows.length ∧
      ((w.arch a).rows.length ≠ 0 → (w'.arch a).mask = (w.arch a).mask)) : live w' F = live w F := by
  apply slotState_ext
  intro y
  cases y with
  | stored a c i =>
    rw [live_stored, live_stored, (h a).1]
    by_cases h0 : (w.arch a).rows.length = 0
    · simp [h0]
    · rw [(h a).2 h0]
  | temp t k c => rw [live_temp, live_temp]

theorem live_addRow {w w' : WM} (F : SlotState) (ai : Nat)
    (hm : ∀ a, (w'.arch a).mask = (w.arch a).mask)
    (hl : ∀ a, (w'.arch a).rows.length = (w.arch a).rows.length + (if a = ai then 1 else 0)) :
    addAll (live w F) (colSlots ai (w.arch ai).mask (w.arch ai).rows.length) = live w' F := by
  apply slotState_ext
  intro y
  rw [addAll_apply]
  cases y with
  | stored a c i =>
    rw [live_stored, live_stored, hm, hl, mem_colSlots_stored]
    by_cases ha : a = ai
    · subst ha
      simp only [if_true, true_and]
      constructor
      · rintro ((⟨h1, h2⟩ | h) | ⟨h1, h2⟩)
        · exact Or.inl ⟨h1, by omega⟩
        · exact Or.inr h
        · exact Or.inl ⟨h1, by omega⟩
      · rintro (⟨h1, h2⟩ | h)
        · by_cases hi : i = (w.arch a).rows.length
          · exact Or.inr ⟨h1, hi⟩
          · exact Or.inl (Or.inl ⟨h1, by omega⟩)
        · exact Or.inl (Or.inr h)
    · simp [ha]
  | temp t k c => simp [live_temp, not_mem_colSlots_temp]

theorem live_dropRow {w w' : WM} (F : SlotState) (hF : TempOnly F) (ai : Nat)
    (hm : ∀ a, (w'.arch a).mask = (w.arch a).mask)
    (hl : ∀ a, (w'.arch a).rows.length = (w.arch a).rows.length - (if a = ai then 1 else 0)) :
    removeAll (live w F) (colSlots ai (w.arch ai).mask ((w.arch ai).rows.length - 1)) = live w' F := by
  apply slotState_ext
  intro y
  rw [removeAll_apply]
  cases y with
  | stored a c i =>
    rw [live_stored, live_stored, hm, hl, mem_colSlots_stored, hF a c i]
    by_cases ha : a = ai
    · subst ha
      simp only [if_true, true_and, Bool.false_eq_true, or_false]
      constructor
      · rintro ⟨⟨h1, h2⟩, h3⟩
        exact ⟨h1, by have : i ≠ (w.arch a).rows.length - 1 := fun h => h3 ⟨h1, h⟩; omega⟩
      · rintro ⟨h1, h2⟩
        exact ⟨⟨h1, by omega⟩, fun h => by omega⟩
    · simp [ha]
  | temp t k c => simp [live_temp, not_mem_colSlots_temp]

/-- one row more in `t`, one row fewer in `p` -/
theorem live_move {w w' : WM} (F : SlotState) (hF : TempOnly F) (t p : Nat) (htp : t ≠ p)
    (hm : ∀ a, (w'.arch a).mask = (w.arch a).mask)
    (hl : ∀ a, (w'.arch a).rows.length + (if a = p then 1 else 0) =
      (w.arch a).rows.length + (if a = t then 1 else 0))
    (hp : 0 < (w.arch p).rows.length) :
    removeAll (addAll (live w F) (colSlots t (w.arch t).mask (w.arch t).rows.length))
      (colSlots p (w.arch p).mask ((w.arch p).rows.length - 1)) = live w' F := by
  apply slotState_ext
  intro y
  rw [removeAll_apply, addAll_apply]
  cases y with
  | stored a c i =>
    rw [live_stored, live_stored, hm, mem_colSlots_stored, mem_colSlots_stored, hF a c i]
    have hla := hl a
    by_cases hat : a = t
    · subst hat
      simp only [htp, if_false, if_true, Nat.add_zero] at hla
      simp only [true_and, htp, false_and, not_false_eq_true, and_true, Bool.false_eq_true, or_false]
      constructor
      · rintro (⟨h1, h2⟩ | ⟨h1, h2⟩)
        · exact ⟨h1, by omega⟩
        · exact ⟨h1, by omega⟩
      · rintro ⟨h1, h2⟩
        by_cases hi : i = (w.arch a).rows.length
        · exact Or.inr ⟨h1, hi⟩
        · exact Or.inl ⟨h1, by omega⟩
    · by_cases hap : a = p
      · subst hap
        simp only [hat, if_false, if_true, Nat.add_zero] at hla
        simp only [hat, false_and, or_false, true_and, Bool.false_eq_true]
        constructor
        · rintro ⟨⟨h1, h2⟩, h3⟩
          exact ⟨h1, by have : i ≠ (w.arch a).rows.length - 1 := fun h => h3 ⟨h1, h⟩; omega⟩
        · rintro ⟨h1, h2⟩
          exact ⟨⟨h1, by omega⟩, fun h => by omega⟩
      · simp only [hat, hap, if_false, Nat.add_zero] at hla
        simp [hat, hap, hla]
  | temp t' k c => simp [live_temp, not_mem_colSlots_temp]

end Mustache.Proofs.Life

import Mustache.Proofs.LifeStep
import Mustache.Proofs.RowsCheck
/-!
# Histories, teardown, and executable checkers for the preconditions (C03)
-/
namespace Mustache.Proofs.Life
open Mustache.Model Mustache.Proofs.Rows

variable (info : CompId → CompInfo)

/-- what one call needs: sorted duplicate-free archetype masks (part of `RowInv`) and the call's contract -/
def StepOk (w : WM) (op : Op Handle) : Prop := MasksOk w ∧ OpOk info w op

/-- the state after a history -/
def run (w : WM) : List (Op Handle) → WM
  | [] => w
  | op :: ops => run (w.step info op).1 ops

/-- the lifecycle event log of a history -/
def runEvents (w : WM) : List (Op Handle) → List Event
  | [] => []
  | op :: ops => w.events info op ++ runEvents (w.step info op).1 ops

/-- every call of the history meets its preconditions on the state it is issued on -/
def RunOk (w : WM) : List (Op Handle) → Prop
  | [] => MasksOk w
  | op :: ops => StepOk info w op ∧ RunOk (w.step info op).1 ops

theorem run_accepts (w : WM) (ops : List (Op Handle)) (h : RunOk info w ops) :
    accepts (slotsOf w) (runEvents info w ops) = some (slotsOf (run info w ops)) ∧ MasksOk (run info w ops) := by
  induction ops generalizing w with
  | nil => exact ⟨rfl, h⟩
  | cons op ops ih =>
    have hs := step_accepts info w op h.1.1 h.1.2
    have hr := ih (w.step info op).1 h.2
    exact ⟨accepts_append_of hs hr.1, hr.2⟩

/-! ## teardown -/

/-- destroying the temporaries of the buffers `done, done+1, …` (`~TemporalStorage`) -/
theorem teardown_temps (w' : WM) (rest : List (List Cmd)) (done : Nat) :
    accepts (live w' (tempLive (List.replicate done [] ++ rest)))
      ((rest.zipIdx done).flatMap (fun bt => tempDestroyEvents bt.2 bt.1)) = some (live w' SlotState.empty) := by
  induction rest generalizing done with
  | nil =>
    simp only [List.append_nil, List.zipIdx_nil, List.flatMap_nil]
    rw [tempLive_empty _ (getD_replicate_nil done)]; rfl
  | cons buf rest' ih =>
    rw [List.zipIdx_cons, List.flatMap_cons]
    exact accepts_append_of (tempDestroy_accepts w' done buf rest') (ih (done + 1))

theorem flatMap_congr' {α β : Type} (l : List α) (f g : α → List β) (h : ∀ a ∈ l, f a = g a) :
    l.flatMap f = l.flatMap g := by
  induction l with
  | nil => rfl
  | cons a as ih =>
    rw [List.flatMap_cons, List.flatMap_cons, h a (List.mem_cons_self ..),
      ih (fun b hb => h b (List.mem_cons_of_mem _ hb))]

/-- the archetypes `done, done+1, …` are cleared one after the other -/
theorem teardown_archs (info : CompId → CompInfo) (n : Nat) (w : WM) (F : SlotState) (hF : TempOnly F)
    (hmk : MasksOk w) (k : Nat) (hk : k + n = w.archs.length)
    (hcleared : ∀ a, a < k → (w.arch a).rows.length = 0) :
    ∃ w', accepts (live w F) ((List.range' k n).flatMap (fun ai => w.clearArchEvents ai)) = some (live w' F) ∧
      (∀ a, (w'.arch a).rows.length = 0) := by
  induction n generalizing w k with
  | zero =>
    refine ⟨w, rfl, fun a => ?_⟩
    by_cases ha : a < k
    · exact hcleared a ha
    · rw [arch_of_ge w a (by omega)]; rfl
  | succ n ih =>
    rw [List.range'_succ, List.flatMap_cons]
    have hc := clearArch_accepts info w F hF k (maskOk_nodup (hmk k))
    have hsh := clearArch_shape info w k
    have hk' : k + 1 + n = (w.clearArch info k).1.archs.length := by
      rw [(keysSame_clearArch info w k).alen]; omega
    rcases ih (w.clearArch info k).1 (masksOk_congr hsh.1 hmk) (k + 1) hk' (by
      intro a ha
      rw [hsh.2]
      by_cases hak : a = k
      · simp [hak]
      · rw [if_neg hak]; exact hcleared a (by omega)) with ⟨w', hacc, hall⟩
    refine ⟨w', accepts_append_of hc ?_, hall⟩
    have : ∀ ai, (w.clearArch info k).1.clearArchEvents ai = (if ai = k then [] else w.clearArchEvents ai) := by
      intro ai
      unfold WM.clearArchEvents
      rw [hsh.1, hsh.2]
      split
      · simp [clearEvents]
      · rfl
    have hev : (List.range' (k + 1) n).flatMap (fun ai => w.clearArchEvents ai) =
        (List.range' (k + 1) n).flatMap (fun ai => (w.clearArch info k).1.clearArchEvents ai) := by
      apply flatMap_congr'
      intro ai hai
      rw [this, if_neg]
      have := (List.mem_range'_1.mp hai).1
      omega
    rw [hev]; exact hacc

/-- world teardown from any state with sorted masks: nothing stays live -/
theorem teardown_accepts (info : CompId → CompInfo) (w : WM) (hmk : MasksOk w) :
    accepts (slotsOf w) w.teardownEvents = some SlotState.empty := by
  rcases teardown_archs info w.archs.length w (tempLive w.buffers) (tempOnly_tempLive _) hmk 0 (by omega)
    (fun a ha => absurd ha (Nat.not_lt_zero a)) with ⟨w', hacc, hall⟩
  unfold WM.teardownEvents
  rw [slotsOf_eq_live, List.range_eq_range']
  refine accepts_append_of hacc ?_
  have := teardown_temps w' w.buffers 0
  simp only [List.replicate_zero, List.nil_append] at this
  rw [this]
  congr 1
  apply slotState_ext
  intro y
  cases y with
  | stored a c i => simp [live, storedLive, SlotState.empty, hall a]
  | temp t k c => simp [live, storedLive, SlotState.empty]

end Mustache.Proofs.Life

import Mustache.Proofs.LifePrim
/-!
# `Archetype::insert / remove / externalMove`, `getArchetype`, `clear`, `cloneEntity` on world states (C03)

For each primitive: the events the model lists for it lead from the slot set of the state before to the slot
set of the state after. With a skip mask the new row is left with "raw" slots (constructor skipped): the state
after the primitive is the slot set of the new state minus those, and `accepts_fill` closes the gap when the
caller constructs exactly them.
-/
namespace Mustache.Proofs.Life
open Mustache.Model Mustache.Proofs.Rows

/-! ## masks -/

def MasksOk (w : WM) : Prop := ∀ a, MaskOk (w.arch a).mask

theorem maskOk_nodup {m : Mask} (h : MaskOk m) : m.Nodup :=
  List.Pairwise.imp (fun h => Nat.ne_of_lt h) h

theorem masksOk_of_keys {w : WM} (hk : KeysOK w) : MasksOk w := fun a => by
  by_cases h : a < w.archs.length
  · exact hk.masks a h
  · rw [arch_of_ge w a (by omega)]; exact maskOk_nil

theorem masksOk_congr {w w' : WM} (hm : ∀ a, (w'.arch a).mask = (w.arch a).mask) (h : MasksOk w) :
    MasksOk w' := fun a => by rw [hm]; exact h a

theorem masksOk_getArch {w : WM} (h : MasksOk w) (m : Mask) (sh : Shared) (hm : MaskOk m) :
    MasksOk (w.getArch m sh).1 := by
  intro a
  rcases getArch_cases w m sh with ⟨he, _⟩ | ⟨he, hi, _⟩
  · rw [he]; exact h a
  · by_cases hlt : a < w.archs.length
    · rw [getArch_arch_lt w m sh a hlt]; exact h a
    · by_cases ha : a = w.archs.length
      · have := getArch_key w m sh
        rw [hi] at this
        subst ha
        rw [this.1]; exact maskOk_closedMask _ hm
      · rw [arch_of_ge _ a (by rw [he]; simp; omega)]; exact maskOk_nil

/-- `getArchetype` adds at most an archetype without rows: no slot changes -/
theorem live_getArch (w : WM) (m : Mask) (sh : Shared) (F : SlotState) :
    live (w.getArch m sh).1 F = live w F := by
  apply live_congr'
  intro a
  refine ⟨by rw [getArch_rows], fun h0 => ?_⟩
  have hlt : a < w.archs.length := by
    apply Classical.byContradiction
    intro hn
    rw [arch_of_ge w a (by omega)] at h0
    exact h0 rfl
  rw [getArch_arch_lt w m sh a hlt]

theorem getArch_buffers (w : WM) (m : Mask) (sh : Shared) : (w.getArch m sh).1.buffers = w.buffers :=
  (getArch_sameTable w m sh).buffers

/-! ## pure facts about partial rows -/

theorem removeAll_comm (s : SlotState) (xs ys : List LSlot) :
    removeAll (removeAll s xs) ys = removeAll (removeAll s ys) xs := by
  apply slotState_ext
  intro y
  simp only [removeAll_apply]
  constructor <;> (rintro ⟨⟨h1, h2⟩, h3⟩; exact ⟨⟨h1, h3⟩, h2⟩)

/-- constructing the `keep` part of a new row = the full row minus the `raw` part -/
theorem addAll_split (s : SlotState) (ai n : Nat) (mask keep raw : List CompId)
    (hsplit : ∀ c, c ∈ mask ↔ (c ∈ keep ∨ c ∈ raw)) (hdisj : ∀ c, c ∈ keep → c ∉ raw)
    (hdead : ∀ c ∈ raw, s (.stored ai c n) = false) :
    addAll s (colSlots ai keep n) = removeAll (addAll s (colSlots ai mask n)) (colSlots ai raw n) := by
  apply slotState_ext
  intro y
  rw [removeAll_apply, addAll_apply, addAll_apply]
  cases y with
  | stored a c i =>
    simp only [mem_colSlots_stored, hsplit]
    constructor
    · rintro (h | ⟨rfl, hk, rfl⟩)
      · refine ⟨Or.inl h, ?_⟩
        rintro ⟨rfl, hr, rfl⟩
        rw [hdead c hr] at h; cases h
      · exact ⟨Or.inr ⟨rfl, Or.inl hk, rfl⟩, fun ⟨_, hr, _⟩ => hdisj c hk hr⟩
    · rintro ⟨h | ⟨rfl, hk | hr, rfl⟩, hn⟩
      · exact Or.inl h
      · exact Or.inr ⟨rfl, hk, rfl⟩
      · exact absurd ⟨rfl, hr, rfl⟩ hn
  | temp t k c => simp [not_mem_colSlots_temp]

/-- the caller constructs exactly the raw slots of the new row -/
theorem accepts_fill (L : SlotState) (t n : Nat) (rawCs cs : List CompId) (evs : List Event)
    (hdst : evs.map Event.dst = colSlots t cs n)
    (hc : ∀ e ∈ evs, Event.isCreate e = true)
    (hcs : cs.Nodup) (hmem : ∀ c, c ∈ cs ↔ c ∈ rawCs)
    (hL : ∀ c ∈ rawCs, L (.stored t c n) = true)
    (hsrc : ∀ e ∈ evs, ∀ x, Event.src? e = some x → L x = true ∧ x ∉ colSlots t rawCs n) :
    accepts (removeAll L (colSlots t rawCs n)) evs = some L := by
  rw [accepts_creates evs _ hc (by rw [hdst]; exact colSlots_nodup hcs)]
  · congr 1
    apply slotState_ext
    intro y
    rw [addAll_apply, removeAll_apply, hdst]
    constructor
    · rintro (⟨h, _⟩ | h)
      · exact h
      · simp only [colSlots, List.mem_map] at h
        rcases h with ⟨c, hc', rfl⟩
        exact hL c ((hmem c).mp hc')
    · intro h
      by_cases hy : y ∈ colSlots t rawCs n
      · right
        simp only [colSlots, List.mem_map] at hy ⊢
        rcases hy with ⟨c, hc', rfl⟩
        exact ⟨c, (hmem c).mpr hc', rfl⟩
      · exact Or.inl ⟨h, hy⟩
  · intro e he
    have : e.dst ∈ colSlots t cs n := by rw [← hdst]; exact List.mem_map_of_mem he
    simp only [colSlots, List.mem_map] at this
    rcases this with ⟨c, hc', heq⟩
    rw [← heq, removeAll]
    have : LSlot.stored t c n ∈ colSlots t rawCs n := by
      simp only [colSlots, List.mem_map]; exact ⟨c, (hmem c).mp hc', rfl⟩
    simp [this]
  · intro e he x hx
    rw [removeAll_apply]
    exact hsrc e he x hx

/-! ## `Archetype::insert` -/

theorem archInsert_shape (info : CompId → CompInfo) (w : WM) (ai : Nat) (e : Handle) (skip : Mask)
    (hai : ai < w.archs.length) :
    (∀ a, ((w.archInsert info ai e skip).1.arch a).mask = (w.arch a).mask) ∧
    (∀ a, ((w.archInsert info ai e skip).1.arch a).rows.length =
      (w.arch a).rows.length + (if a = ai then 1 else 0)) ∧
    (w.archInsert info ai e skip).1.archs.length = w.archs.length := by
  rcases archInsert_eq info w ai e skip with ⟨vals, heq, _⟩
  rw [heq]
  refine ⟨fun a => (insertRow_mask w ai a e vals hai).1, fun a => ?_, insertRow_archs_length _ _ _ _⟩
  by_cases ha : a = ai
  · subst ha; rw [insertRow_arch_same _ _ _ _ hai]; simp
  · rw [insertRow_arch_ne _ _ _ _ _ ha]; simp [ha]

theorem insertEvents_dst (ai : Nat) (mask : Mask) (n : Nat) (skip : Mask) :
    (insertEvents ai mask n skip).map Event.dst = colSlots ai (mask.filter (fun c => !skip.contains c)) n := by
  unfold insertEvents
  split
  · rename_i h
    have hs : skip = mask := by simpa using h
    subst hs
    have : skip.filter (fun c => !skip.contains c) = [] := by
      rw [List.filter_eq_nil_iff]; intro c hc; simp [hc]
    rw [this]; rfl
  · simp [colSlots, List.map_map, Event.dst]

theorem insertEvents_create (ai : Nat) (mask : Mask) (n : Nat) (skip : Mask) :
    ∀ e ∈ insertEvents ai mask n skip, Event.isCreate e = true ∧ Event.src? e = none := by
  unfold insertEvents
  split
  · intro e he; cases he
  · intro e he
    simp only [List.mem_map] at he
    rcases he with ⟨c, _, rfl⟩
    exact ⟨rfl, rfl⟩

/-- after `insert(entity, skip)`: the new state's slots minus the skipped ones of the new row -/
theorem archInsert_accepts (info : CompId → CompInfo) (w : WM) (F : SlotState) (hF : TempOnly F)
    (ai : Nat) (e : Handle) (skip : Mask) (hai : ai < w.archs.length) (hnd : (w.arch ai).mask.Nodup) :
    accepts (live w F) (w.archInsertEvents ai skip) =
      some (removeAll (live (w.archInsert info ai e skip).1 F)
        (colSlots ai ((w.arch ai).mask.filter (fun c => skip.contains c)) (w.arch ai).rows.length)) := by
  have hsh := archInsert_shape info w ai e skip hai
  have hdeadrow : ∀ c, live w F (.stored ai c (w.arch ai).rows.length) = false := by
    intro c
    simp [live, storedLive, hF ai c _]
  unfold WM.archInsertEvents
  rw [accepts_creates _ _ (fun e he => (insertEvents_create _ _ _ _ e he).1)
    (by rw [insertEvents_dst]; exact colSlots_nodup (hnd.filter _))]
  · rw [insertEvents_dst, ← live_addRow F ai hsh.1 hsh.2.1]
    congr 1
    apply addAll_split
    · intro c
      simp only [List.mem_filter, Bool.not_eq_true']
      constructor
      · intro hc
        cases hs : skip.contains c
        · exact Or.inl ⟨hc, rfl⟩
        · exact Or.inr ⟨hc, rfl⟩
      · rintro (h | h) <;> exact h.1
    · intro c hk hr
      simp only [List.mem_filter, Bool.not_eq_true'] at hk hr
      rw [hk.2] at hr; exact absurd hr.2 (by simp)
    · intro c _; exact hdeadrow c
  · intro ev hev
    have : ev.dst ∈ colSlots ai ((w.arch ai).mask.filter (fun c => !skip.contains c)) (w.arch ai).rows.length := by
      rw [← insertEvents_dst]; exact List.mem_map_of_mem hev
    simp only [colSlots, List.mem_map] at this
    rcases this with ⟨c, _, heq⟩
    rw [← heq]; exact hdeadrow c
  · intro ev hev x hx
    rw [(insertEvents_create _ _ _ _ ev hev).2] at hx; cases hx

/-! ## `Archetype::remove` -/

theorem archRemove_shape (info : CompId → CompInfo) (w : WM) (ai idx : Nat) (sk : Mask) :
    (∀ a, ((w.archRemove info ai idx sk).1.arch a).mask = (w.arch a).mask) ∧
    (∀ a, ((w.archRemove info ai idx sk).1.arch a).rows.length =
      (w.arch a).rows.length - (if a = ai ∧ idx < (w.arch ai).rows.length then 1 else 0)) ∧
    (w.archRemove info ai idx sk).1.archs.length = w.archs.length := by
  cases hr : (w.arch ai).rows[idx]? with
  | none =>
    rw [archRemove_none info w ai idx sk hr]
    have : ¬ idx < (w.arch ai).rows.length := by
      intro h; rw [List.getElem?_eq_getElem h] at hr; cases hr
    exact ⟨fun _ => rfl, fun a => by simp [this], rfl⟩
  | some row =>
    have hai := lt_of_row hr
    have hidx := idx_lt_of_row hr
    have key : ∀ (rows' : List Row) (w2 : WM), rows'.length = (w.arch ai).rows.length - 1 →
        (∀ a, w2.arch a = (w.setArch ai { w.arch ai with rows := rows' }).arch a) →
        w2.archs.length = w.archs.length →
        (∀ a, (w2.arch a).mask = (w.arch a).mask) ∧
        (∀ a, (w2.arch a).rows.length =
          (w.arch a).rows.length - (if a = ai ∧ idx < (w.arch ai).rows.length then 1 else 0)) ∧
        w2.archs.length = w.archs.length := by
      intro rows' w2 hlen h2 hal
      refine ⟨fun a => ?_, fun a => ?_, hal⟩
      · rw [h2]
        by_cases ha : a = ai
        · subst ha; rw [arch_setArch_same _ _ _ hai]
        · rw [arch_setArch_ne _ _ _ _ ha]
      · rw [h2]
        by_cases ha : a = ai
        · subst ha; rw [arch_setArch_same _ _ _ hai]; simp [hidx, hlen]
        · rw [arch_setArch_ne _ _ _ _ ha]; simp [ha]
    by_cases hl : idx = (w.arch ai).rows.length - 1
    · rw [archRemove_last info w ai idx sk row hr hl]
      refine key _ _ ?_ (fun a => by rw [arch_setLoc]) (by rw [archs_setLoc, archs_length_setArch])
      simp
    · rw [archRemove_mid info w ai idx sk row hr hl]
      refine key _ _ ?_ (fun a => by rw [arch_setLoc, arch_setLoc])
        (by rw [archs_setLoc, archs_setLoc, archs_length_setArch])
      simp

theorem archRemove_accepts (info : CompId → CompInfo) (w : WM) (F : SlotState) (hF : TempOnly F)
    (ai idx : Nat) (sk : Mask) (hnd : (w.arch ai).mask.Nodup) :
    accepts (live w F) (w.archRemoveEvents ai idx) = some (live (w.archRemove info ai idx sk).1 F) := by
  unfold WM.archRemoveEvents
  cases hr : (w.arch ai).rows[idx]? with
  | none => simp only; rw [archRemove_none info w ai idx sk hr]; rfl
  | some row =>
    simp only
    have hidx := idx_lt_of_row hr
    have hsh := archRemove_shape info w ai idx sk
    rw [accepts_dropRow _ ai _ idx _ hnd hidx]
    · congr 1
      apply live_dropRow F hF ai hsh.1
      intro a
      rw [hsh.2.1 a]
      by_cases ha : a = ai
      · simp [ha, hidx]
      · simp [ha]
    · intro c hc i hi
      rw [live_stored]; exact Or.inl ⟨hc, hi⟩

/-! ## `Archetype::externalMove` -/

theorem moveInEvents_dst (t : Nat) (tm : Mask) (n p : Nat) (pm : Mask) (i : Nat) (skip : Mask) :
    (moveInEvents t tm n p pm i skip).map Event.dst =
      colSlots t (tm.filter (fun c => pm.contains c || !skip.contains c)) n := by
  unfold moveInEvents colSlots
  rw [List.map_map]
  apply List.map_congr_left
  intro c _
  simp only [Function.comp]
  split <;> rfl

theorem externalMove_shape (info : CompId → CompInfo) (w : WM) (t : Nat) (e : Handle) (p idx : Nat)
    (skip : Mask) (htp : t ≠ p) (ht : t < w.archs.length) (hidx : idx < (w.arch p).rows.length) :
    ∃ w' cbs, w.externalMove info t e p idx skip = some (w', cbs) ∧
      (∀ a, (w'.arch a).mask = (w.arch a).mask) ∧
      (∀ a, (w'.arch a).rows.length + (if a = p then 1 else 0) =
        (w.arch a).rows.length + (if a = t then 1 else 0)) ∧
      w'.archs.length = w.archs.length ∧ SameTable w w' := by
  rcases externalMove_eq info w t e p idx skip htp with ⟨cbs, heq⟩
  refine ⟨_, cbs, heq, ?_, ?_, ?_, externalMove_sameTable info w t e p idx skip _ heq⟩
  · intro a
    have hr := archRemove_shape info w p idx (w.arch t).mask
    rw [(insertRow_mask _ t a e _ (by rw [hr.2.2]; exact ht)).1, hr.1]
  · intro a
    have hr := archRemove_shape info w p idx (w.arch t).mask
    have ht' : t < (w.archRemove info p idx (w.arch t).mask).1.archs.length := by rw [hr.2.2]; exact ht
    have hp0 : 0 < (w.arch p).rows.length := by omega
    by_cases hat : a = t
    · subst hat
      rw [insertRow_arch_same _ _ _ _ ht']
      simp only [List.length_append, List.length_cons, List.length_nil, htp, if_false, if_true]
      rw [hr.2.1 a]; simp [htp]
    · rw [insertRow_arch_ne _ _ _ _ _ hat, hr.2.1 a]
      by_cases hap : a = p
      · subst hap; simp only [true_and, hidx, if_true, hat, if_false]; omega
      · simp [hap, hat]
  · rw [insertRow_archs_length]; exact (archRemove_shape info w p idx _).2.2

/-- after `externalMove`: the new state's slots minus the skipped, not carried-over ones of the new row -/
theorem externalMove_accepts (info : CompId → CompInfo) (w : WM) (F : SlotState) (hF : TempOnly F)
    (t : Nat) (e : Handle) (p idx : Nat) (skip : Mask) (htp : t ≠ p) (ht : t < w.archs.length)
    (hidx : idx < (w.arch p).rows.length) (hmt : (w.arch t).mask.Nodup) (hmp : (w.arch p).mask.Nodup)
    (w' : WM) (cbs : List Cb) (hw' : w.externalMove info t e p idx skip = some (w', cbs)) :
    accepts (live w F) (w.externalMoveEvents t p idx skip) =
      some (removeAll (live w' F)
        (colSlots t ((w.arch t).mask.filter (fun c => !(w.arch p).mask.contains c && skip.contains c))
          (w.arch t).rows.length)) := by
  rcases externalMove_shape info w t e p idx skip htp ht hidx with ⟨w2, cbs2, heq, hm, hl, _, _⟩
  rw [heq] at hw'; cases hw'
  have hdeadrow : ∀ c, live w F (.stored t c (w.arch t).rows.length) = false := by
    intro c; simp [live, storedLive, hF t c _]
  have hrow : (w.arch p).rows[idx]? = some ((w.arch p).rows[idx]) := List.getElem?_eq_getElem hidx
  unfold WM.externalMoveEvents WM.archRemoveEvents
  rw [if_neg htp, hrow]
  simp only
  -- the loop over the target's components
  have h1 : accepts (live w F) (moveInEvents t (w.arch t).mask (w.arch t).rows.length p (w.arch p).mask idx skip) =
      some (addAll (live w F) (colSlots t ((w.arch t).mask.filter
        (fun c => (w.arch p).mask.contains c || !skip.contains c)) (w.arch t).rows.length)) := by
    rw [accepts_creates, moveInEvents_dst]
    · intro ev hev
      simp only [moveInEvents, List.mem_map] at hev
      rcases hev with ⟨c, _, rfl⟩
      split <;> rfl
    · rw [moveInEvents_dst]; exact colSlots_nodup (hmt.filter _)
    · intro ev hev
      have : ev.dst ∈ colSlots t ((w.arch t).mask.filter
          (fun c => (w.arch p).mask.contains c || !skip.contains c)) (w.arch t).rows.length := by
        rw [← moveInEvents_dst]; exact List.mem_map_of_mem hev
      simp only [colSlots, List.mem_map] at this
      rcases this with ⟨c, _, hc⟩
      rw [← hc]; exact hdeadrow c
    · intro ev hev x hx
      simp only [moveInEvents, List.mem_map] at hev
      rcases hev with ⟨c, _, rfl⟩
      split at hx
      · rename_i hpc
        simp only [Event.src?, Option.some.injEq] at hx
        subst hx
        rw [live_stored]
        exact Or.inl ⟨by simpa using hpc, hidx⟩
      · simp [Event.src?] at hx
  -- the swap-remove of the source row
  refine accepts_append_of h1 ?_
  rw [accepts_dropRow _ p _ idx _ hmp hidx]
  · congr 1
    rw [addAll_split (live w F) t (w.arch t).rows.length (w.arch t).mask _
      ((w.arch t).mask.filter (fun c => !(w.arch p).mask.contains c && skip.contains c)),
      removeAll_comm, live_move F hF t p htp hm hl (by omega)]
    · intro c
      simp only [List.mem_filter, Bool.or_eq_true, Bool.not_eq_true', Bool.and_eq_true]
      constructor
      · intro hc
        cases hpc : (w.arch p).mask.contains c
        · cases hs : skip.contains c
          · exact Or.inl ⟨hc, Or.inr rfl⟩
          · exact Or.inr ⟨hc, rfl, rfl⟩
        · exact Or.inl ⟨hc, Or.inl rfl⟩
      · rintro (h | h) <;> exact h.1
    · intro c hk hr
      simp only [List.mem_filter, Bool.or_eq_true, Bool.not_eq_true', Bool.and_eq_true] at hk hr
      rcases hk.2 with h | h
      · rw [h] at hr; exact absurd hr.2.1 (by simp)
      · rw [h] at hr; exact absurd hr.2.2 (by simp)
    · intro c _; exact hdeadrow c
  · intro c hc i hi
    rw [addAll_apply, live_stored]; exact Or.inl (Or.inl ⟨hc, hi⟩)

/-! ## `Archetype::clear`, `cloneEntity` -/

theorem clearLoop_buffers (rows : List Row) (w : WM) : (clearLoop w rows).buffers = w.buffers := by
  induction rows generalizing w with
  | nil => rfl
  | cons r rows ih =>
    unfold clearLoop
    rw [List.foldl_cons]
    have := ih ({ ({ w with locs := w.locs.set r.ent.id ⟨none, (w.locOf r.ent).idx⟩ } : WM) with
      slots := w.slots.set r.ent.id ⟨if w.empty ≠ 0 then w.next else r.ent.id + 1, (r.ent.ver + 1) % 2^24⟩,
      next := r.ent.id, empty := w.empty + 1 })
    unfold clearLoop at this
    exact this

theorem clearArch_buffers (info : CompId → CompInfo) (w : WM) (ai : Nat) :
    (w.clearArch info ai).1.buffers = w.buffers := by
  rw [clearArch_fst]; exact clearLoop_buffers _ _

theorem clearArch_shape (info : CompId → CompInfo) (w : WM) (ai : Nat) :
    (∀ a, ((w.clearArch info ai).1.arch a).mask = (w.arch a).mask) ∧
    (∀ a, ((w.clearArch info ai).1.arch a).rows.length = if a = ai then 0 else (w.arch a).rows.length) := by
  have hk := keysSame_clearArch info w ai
  refine ⟨fun a => (hk.key a).1, fun a => ?_⟩
  rw [clearArch_fst]
  have hl := clearLoop_spec (w.arch ai).rows w
  have harch : ∀ aj, (clearLoop w (w.arch ai).rows).arch aj = w.arch aj := fun aj => by
    rw [arch_def, hl.1]; rfl
  by_cases ha : a = ai
  · subst ha
    simp only [if_true]
    by_cases hlt : a < w.archs.length
    · rw [arch_setArch_same _ _ _ (by rw [hl.1]; exact hlt)]; rfl
    · rw [arch_of_ge _ a (by rw [archs_length_setArch, hl.1]; omega)]; rfl
  · rw [arch_setArch_ne _ _ _ _ ha, harch, if_neg ha]

theorem clearArch_accepts (info : CompId → CompInfo) (w : WM) (F : SlotState) (hF : TempOnly F) (ai : Nat)
    (hnd : (w.arch ai).mask.Nodup) :
    accepts (live w F) (w.clearArchEvents ai) = some (live (w.clearArch info ai).1 F) := by
  unfold WM.clearArchEvents
  have hsh := clearArch_shape info w ai
  rw [accepts_clear _ ai _ _ hnd]
  · congr 1
    apply slotState_ext
    intro y
    rw [removeAll_apply]
    cases y with
    | stored a c i =>
      rw [live_stored, live_stored, hsh.1, hsh.2, mem_allSlots_stored, hF a c i]
      by_cases ha : a = ai
      · subst ha
        simp only [if_true, true_and, Bool.false_eq_true, or_false, Nat.not_lt_zero, and_false, iff_false]
        exact fun h => h.2 h.1
      · simp [ha]
    | temp t k c => simp [live_temp, not_mem_allSlots_temp]
  · intro c hc i hi
    rw [live_stored]; exact Or.inl ⟨hc, hi⟩

end Mustache.Proofs.Life

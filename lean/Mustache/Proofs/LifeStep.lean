import Mustache.Proofs.LifeFlush
/-!
# One API call (`WM.step`) on the live-slot set (C03)

`OpOk info w op`: what the call needs from the state it is issued on (the contract of DESIGN.md 3.3 in terms of the
model state); `step_accepts`: the events `WM.events` lists for the call lead from `slotsOf w` to the slot set of the
model's next state.
-/
namespace Mustache.Proofs.Life
open Mustache.Model Mustache.Proofs.Rows

/-- the state `unlock` flushes (lock counter already decremented) -/
def unlockPre (w : WM) : WM := if w.lockDepth > 0 then { w with lockDepth := w.lockDepth - 1 } else w

/-- preconditions of one call, on the state it is issued on -/
def OpOk (info : CompId → CompInfo) (w : WM) : Op Handle → Prop
  | .create _ mask _ => MaskOk mask
  | .assign t e c v =>
    (w.isLocked = true → t < w.buffers.length) ∧
    (w.isLocked = false → LocIn w e ∧
      ∀ pi, (w.locOf e).arch = some pi → v.isSome = true → c ∉ (w.arch pi).mask)
  | .remove _ e _ => w.isLocked = false → w.isValid e = true → LocIn w e
  | .buildNew t adds =>
    (w.isLocked = true → t < w.buffers.length) ∧ (w.isLocked = false → (adds.map (·.1)).Nodup)
  | .build t e adds _ =>
    (w.isLocked = true → t < w.buffers.length) ∧
    (w.isLocked = false → LocIn w e ∧ (adds.map (·.1)).Nodup ∧
      ∀ pi, (w.locOf e).arch = some pi → ∀ c ∈ adds.map (·.1), c ∉ (w.arch pi).mask)
  | .clone e => w.isValid e = true → LocIn w e
  | .sassign e _ _ => LocIn w e
  | .sremove e _ => w.isValid e = true → LocIn w e
  | .unlock => (unlockPre w).lockDepth = 0 →
      PacksLifeOK info (detached (unlockPre w)) ((unlockPre w).buffers.map packs).flatten
  | _ => True

/-- from the frame form to `slotsOf` -/
theorem slots_of_live {w w' : WM} {evs : List Event}
    (h : accepts (live w (tempLive w.buffers)) evs = some (live w' (tempLive w.buffers)) ∧ w'.buffers = w.buffers) :
    accepts (slotsOf w) evs = some (slotsOf w') := by
  rw [slotsOf_eq_live, slotsOf_eq_live, h.2]; exact h.1

theorem poolFold_same (shared : List Nat) (w : WM) (sh0 : Shared) :
    (shared.foldl (fun (acc : WM × Shared) sid =>
      let (w', inst) := acc.1.poolGet sid 0
      (w', acc.2.add sid inst)) (w, sh0)).1.archs = w.archs ∧
    (shared.foldl (fun (acc : WM × Shared) sid =>
      let (w', inst) := acc.1.poolGet sid 0
      (w', acc.2.add sid inst)) (w, sh0)).1.buffers = w.buffers ∧
    (shared.foldl (fun (acc : WM × Shared) sid =>
      let (w', inst) := acc.1.poolGet sid 0
      (w', acc.2.add sid inst)) (w, sh0)).1.lockDepth = w.lockDepth := by
  refine foldl_inv (fun (acc : WM × Shared) => acc.1.archs = w.archs ∧ acc.1.buffers = w.buffers ∧
    acc.1.lockDepth = w.lockDepth) _ ?_ shared (w, sh0) ⟨rfl, rfl, rfl⟩
  intro a b ⟨h1, h2, h3⟩
  exact ⟨by simp only [poolGet_archs]; exact h1, by simp only [poolGet_buffers]; exact h2,
    by simp only [poolGet_lockDepth]; exact h3⟩

theorem step_create (info : CompId → CompInfo) (w : WM) (t : Nat) (mask : Mask) (shared : List Nat)
    (hmk : MasksOk w) (hm : MaskOk mask) :
    accepts (slotsOf w) (w.events info (.create t mask shared)) =
      some (slotsOf (w.step info (.create t mask shared)).1) := by
  have hp := poolFold_same shared w Shared.null
  unfold WM.events WM.step
  simp only
  generalize shared.foldl (fun (acc : WM × Shared) sid =>
      let (w', inst) := acc.1.poolGet sid 0
      (w', acc.2.add sid inst)) (w, Shared.null) = r at hp
  obtain ⟨wp, shp⟩ := r
  simp only at hp ⊢
  have hsl : slotsOf wp = slotsOf w := slotsOf_congr hp.1 (by rw [hp.2.1])
  have hmkp : MasksOk wp := masksOk_congr (fun a => by rw [arch_def, arch_def, hp.1]) hmk
  rw [← hsl]
  by_cases hl : wp.isLocked = true
  · rw [if_pos hl]
    have : (wp.create info t mask shp).1 =
        ({ wp with nextEntityId := wp.nextEntityId + 1 } : WM).pushCmd t
          (.create ⟨wp.nextEntityId, (match wp.slots[wp.nextEntityId]? with
            | some s => (s.ver + 1) % 2^24
            | none => 0), wp.worldId⟩ mask shp) := by
      unfold WM.create WM.createLocked; rw [if_pos hl]; rfl
    rw [this, slotsOf_pushCmd_other _ _ _ rfl]
    exact congrArg some (slotsOf_congr (w := wp) rfl rfl).symm
  · simp only [Bool.not_eq_true] at hl
    rw [if_neg (by simp [hl])]
    exact slots_of_live (create_unlocked_accepts info wp _ (tempOnly_tempLive _) t mask shp hl hmkp hm)

theorem step_assign (info : CompId → CompInfo) (w : WM) (t : Nat) (e : Handle) (c : CompId) (v : Option Nat)
    (hmk : MasksOk w) (hop : OpOk info w (.assign t e c v)) :
    accepts (slotsOf w) (w.assignEvents t e c v) = some (slotsOf (w.assign info t e c v).1) := by
  by_cases hl : w.isLocked = true
  · exact (assign_locked_accepts info w t e c v hl (hop.1 hl)).1
  · simp only [Bool.not_eq_true] at hl
    exact slots_of_live (assign_unlocked_accepts info w _ (tempOnly_tempLive _) t e c v hl hmk (hop.2 hl).1 (hop.2 hl).2)

theorem step_remove (info : CompId → CompInfo) (w : WM) (t : Nat) (e : Handle) (c : CompId)
    (hmk : MasksOk w) (hop : OpOk info w (.remove t e c)) :
    accepts (slotsOf w) (w.removeCompEvents e c) = some (slotsOf (w.removeComp info t e c).1) := by
  by_cases hl : w.isLocked = true
  · have hw : (w.removeComp info t e c).1 = w.pushCmd t (.remove e c) := by
      unfold WM.removeComp; simp only [hl, if_true]
    have hev : w.removeCompEvents e c = [] := by unfold WM.removeCompEvents; simp only [hl, if_true]
    rw [hw, hev, slotsOf_pushCmd_other _ _ _ rfl]; rfl
  · simp only [Bool.not_eq_true] at hl
    exact slots_of_live (removeComp_unlocked_accepts info w _ (tempOnly_tempLive _) t e c hl hmk (hop hl))

theorem createLocked_slots (w : WM) (t : Nat) (m : Mask) (sh : Shared) :
    slotsOf (w.createLocked t m sh).1 = slotsOf w ∧ SameLock w (w.createLocked t m sh).1 := by
  unfold WM.createLocked
  simp only
  refine ⟨?_, ⟨rfl, by simp [WM.pushCmd]⟩⟩
  rw [slotsOf_pushCmd_other _ _ _ rfl]
  exact slotsOf_congr (w := w) rfl rfl

theorem step_buildNew (info : CompId → CompInfo) (w : WM) (t : Nat) (adds : List (CompId × Option Nat))
    (hmk : MasksOk w) (hop : OpOk info w (.buildNew t adds)) :
    accepts (slotsOf w) (w.events info (.buildNew t adds)) = some (slotsOf (w.step info (.buildNew t adds)).1) := by
  unfold WM.events WM.step
  by_cases hl : w.isLocked = true
  · simp only [hl, if_true]
    have hc := createLocked_slots w t [] Shared.null
    have := assignRun_accepts info t (w.createLocked t [] Shared.null).2 adds (w.createLocked t [] Shared.null).1
      (by rw [hc.2.isLocked]; exact hl) (by rw [hc.2.nbuf]; exact hop.1 hl) (slotsOf w) [] []
      (by rw [hc.1]; rfl)
    exact this.1
  · simp only [Bool.not_eq_true] at hl
    simp only [hl, Bool.false_eq_true, if_false]
    exact slots_of_live (buildNewU_accepts info w _ (tempOnly_tempLive _) adds hmk (hop.2 hl))

theorem step_build (info : CompId → CompInfo) (w : WM) (t : Nat) (e : Handle) (adds : List (CompId × Option Nat))
    (rems : Mask) (hmk : MasksOk w) (hop : OpOk info w (.build t e adds rems)) :
    accepts (slotsOf w) (w.events info (.build t e adds rems)) =
      some (slotsOf (w.step info (.build t e adds rems)).1) := by
  unfold WM.events WM.step
  by_cases hl : w.isLocked = true
  · simp only [hl, if_true]
    have := assignRun_accepts info t e adds w hl (hop.1 hl) (slotsOf w) [] [] rfl
    rw [removeRun_slots info t e rems _ (by rw [this.2.isLocked]; exact hl)]
    exact this.1
  · simp only [Bool.not_eq_true] at hl
    simp only [hl, Bool.false_eq_true, if_false]
    exact slots_of_live (buildUpdateU_accepts info w _ (tempOnly_tempLive _) e adds rems hmk (hop.2 hl).1
      (hop.2 hl).2.1 (hop.2 hl).2.2)

theorem step_destroyNow (info : CompId → CompInfo) (w : WM) (t : Nat) (e : Handle) (hmk : MasksOk w) :
    accepts (slotsOf w) (w.events info (.destroyNow t e)) = some (slotsOf (w.step info (.destroyNow t e)).1) := by
  unfold WM.events WM.step WM.destroyNow
  by_cases hl : w.isLocked = true
  · simp only [hl, if_true]
    rw [slotsOf_pushCmd_other _ _ _ rfl]; rfl
  · simp only [Bool.not_eq_true] at hl
    simp only [hl, Bool.false_eq_true, if_false]
    have := destroyNowU_accepts info w _ (tempOnly_tempLive w.buffers) e hmk
    exact slots_of_live ⟨this.1, this.2.1⟩

theorem step_update (info : CompId → CompInfo) (w : WM) (hmk : MasksOk w) :
    accepts (slotsOf w) (w.events info .update) = some (slotsOf (w.step info .update).1) := by
  unfold WM.events WM.step WM.update
  by_cases hl : w.isLocked = true
  · simp only [hl, if_true]; rfl
  · simp only [Bool.not_eq_true] at hl
    simp only [hl, Bool.false_eq_true, if_false]
    have := update_fold_accepts info w.marked w _ (tempOnly_tempLive w.buffers) hmk [] _ rfl
    rw [← update_fold_fst info w.marked w [] []] at this
    have h2 := slots_of_live this
    rw [h2]
    exact congrArg some (slotsOf_congr rfl rfl).symm

theorem step_unlock (info : CompId → CompInfo) (w : WM) (hmk : MasksOk w) (hop : OpOk info w .unlock) :
    accepts (slotsOf w) (w.events info .unlock) = some (slotsOf (w.step info .unlock).1) := by
  have hsl : slotsOf (unlockPre w) = slotsOf w := by
    unfold unlockPre; split
    · exact slotsOf_congr (w := w) rfl rfl
    · rfl
  have hmk' : MasksOk (unlockPre w) := by
    unfold unlockPre; split
    · exact fun a => hmk a
    · exact hmk
  have hev : w.events info .unlock =
      if (unlockPre w).lockDepth = 0 then (unlockPre w).flushEvents info else [] := rfl
  have hst : (w.step info .unlock).1 =
      if (unlockPre w).lockDepth = 0 then ((unlockPre w).flush info).1 else unlockPre w := by
    unfold WM.step WM.unlock unlockPre
    simp only
    split <;> (split <;> rfl)
  rw [hev, hst, ← hsl]
  by_cases h0 : (unlockPre w).lockDepth = 0
  · rw [if_pos h0, if_pos h0]
    exact (flush_accepts info (unlockPre w) hmk' (hop h0)).1
  · rw [if_neg h0, if_neg h0]; rfl

/-- one API call: the events listed for it are accepted and lead to the slot set of the next state -/
theorem step_accepts (info : CompId → CompInfo) (w : WM) (op : Op Handle) (hmk : MasksOk w)
    (hop : OpOk info w op) :
    accepts (slotsOf w) (w.events info op) = some (slotsOf (w.step info op).1) := by
  cases op with
  | create t mask shared => exact step_create info w t mask shared hmk hop
  | assign t e c v => exact step_assign info w t e c v hmk hop
  | remove t e c => exact step_remove info w t e c hmk hop
  | buildNew t adds => exact step_buildNew info w t adds hmk hop
  | build t e adds rems => exact step_build info w t e adds rems hmk hop
  | destroy t e =>
    show accepts (slotsOf w) [] = some (slotsOf (w.destroy t e))
    unfold WM.destroy
    split
    · rw [slotsOf_pushCmd_other _ _ _ rfl]; rfl
    · split
      · exact congrArg some (slotsOf_congr (w := w) rfl rfl).symm
      · rfl
  | destroyNow t e => exact step_destroyNow info w t e hmk
  | clone e =>
    have := slots_of_live (clone_accepts w _ (tempOnly_tempLive w.buffers) e hmk hop)
    have hst : (w.step info (.clone e)).1 = (w.clone e).1 := by
      simp only [WM.step]
      cases w.clone e with
      | mk w' r => cases r <;> rfl
    exact Eq.trans this (congrArg some (congrArg slotsOf hst.symm))
  | sassign e sid v =>
    exact slots_of_live (sassign_accepts info w _ (tempOnly_tempLive w.buffers) e sid v hmk hop)
  | sremove e sid =>
    exact slots_of_live (sremove_accepts info w _ (tempOnly_tempLive w.buffers) e sid hmk hop)
  | clearArch mask =>
    unfold WM.events WM.step
    simp only
    split
    · exact slots_of_live ⟨clearArch_accepts info w _ (tempOnly_tempLive w.buffers) _ (maskOk_nodup (hmk _)),
        clearArch_buffers info w _⟩
    · rfl
  | update => exact step_update info w hmk
  | lock => exact congrArg some (slotsOf_lock w).symm
  | unlock => exact step_unlock info w hmk hop
  | dep c extra => exact congrArg some (slotsOf_congr (w := w) rfl rfl).symm
  | valid e => rfl
  | has e c => rfl
  | hasShared e sid => rfl
  | get e c => rfl
  | archOf e => rfl

end Mustache.Proofs.Life

import Mustache.Proofs.LifeCount
/-!
# The model's counter of parked temporaries agrees with the command buffers (C03, `live_count_eq`)

`WM.temps` counts, per instrumented component, the temporaries parked in command buffers; `TempsInv`: the counter equals
the number of recorded `assign` commands of that component. Invariant of every call (`tempsInv_step`).
-/
namespace Mustache.Proofs.Life
open Mustache.Model Mustache.Proofs.Rows

def isAssignOf (c : CompId) : Cmd → Bool
  | .assign _ c' _ => c' == c
  | _ => false

/-- recorded `assign` commands of component `c`, all buffers -/
def nAssign (bufs : List (List Cmd)) (c : CompId) : Nat :=
  (bufs.map (fun b => (b.filter (isAssignOf c)).length)).sum

theorem tempSlots_filter_length (t : Nat) (c : CompId) (buf : List Cmd) (off : Nat) :
    ((tempSlots t off buf).filter (fun y => y.comp == c)).length = (buf.filter (isAssignOf c)).length := by
  induction buf generalizing off with
  | nil => rfl
  | cons cmd cs ih =>
    cases cmd with
    | assign e c' v =>
      have hc : (LSlot.temp t off c').comp = c' := rfl
      simp only [tempSlots, List.filter_cons, hc, isAssignOf]
      by_cases hcc : (c' == c) = true
      · simp only [hcc, if_true, List.length_cons, ih (off + 1)]
      · simp only [hcc, Bool.false_eq_true, if_false, ih (off + 1)]
    | create _ _ _ => simp only [tempSlots, List.filter_cons, isAssignOf]; exact ih (off + 1)
    | destroyNow _ => simp only [tempSlots, List.filter_cons, isAssignOf]; exact ih (off + 1)
    | destroy _ => simp only [tempSlots, List.filter_cons, isAssignOf]; exact ih (off + 1)
    | remove _ _ => simp only [tempSlots, List.filter_cons, isAssignOf]; exact ih (off + 1)

theorem parked_length_aux (c : CompId) (bufs : List (List Cmd)) (o : Nat) :
    ((bufs.zipIdx o).flatMap (fun bt => (tempSlots bt.2 0 bt.1).filter (fun y => y.comp == c))).length =
      (bufs.map (fun b => (b.filter (isAssignOf c)).length)).sum := by
  induction bufs generalizing o with
  | nil => rfl
  | cons b bs ih =>
    rw [List.zipIdx_cons, List.flatMap_cons, List.length_append, List.map_cons, List.sum_cons, ih (o + 1),
      tempSlots_filter_length]

theorem parked_length (bufs : List (List Cmd)) (c : CompId) : (parkedSlotsOf bufs c).length = nAssign bufs c :=
  parked_length_aux c bufs 0

/-- the invariant: for every instrumented component the counter equals the number of parked temporaries -/
def TempsInv (info : CompId → CompInfo) (w : WM) : Prop :=
  ∀ c, (info c).counted = true → tempCount w.temps c = nAssign w.buffers c

theorem tempsInv_agree {info : CompId → CompInfo} {w : WM} (h : TempsInv info w) (c : CompId)
    (hc : (info c).counted = true) : TempsAgree w c := by
  unfold TempsAgree; rw [parked_length]; exact h c hc

theorem tempsInv_init (info : CompId → CompInfo) : TempsInv info {} := fun _ _ => rfl

theorem tempsInv_of_ctl {info : CompId → CompInfo} {w w' : WM} (hb : w'.buffers = w.buffers)
    (ht : w'.temps = w.temps) (h : TempsInv info w) : TempsInv info w' := by
  intro c hc; rw [hb, ht]; exact h c hc

/-! ## the counters -/

theorem tempCount_addTemp_self (temps : List (CompId × Nat)) (c : CompId) :
    tempCount (addTemp temps c) c = tempCount temps c + 1 := by
  unfold addTemp
  split
  · rename_i hany
    unfold tempCount
    induction temps with
    | nil => simp at hany
    | cons p ps ih =>
      simp only [List.map_cons, List.find?_cons]
      by_cases hp : (p.1 == c) = true
      · simp [hp]
      · have hp' : (p.1 == c) = false := by simpa using hp
        simp only [hp', Bool.false_eq_true, if_false]
        apply ih
        simpa [List.any_cons, hp'] using hany
  · rename_i hany
    unfold tempCount
    have hnone : temps.find? (fun x => x.1 == c) = none := by
      rw [List.find?_eq_none]
      intro x hx hxc
      exact hany (List.any_eq_true.mpr ⟨x, hx, hxc⟩)
    rw [List.find?_append, hnone]
    simp

theorem tempCount_map_ne (temps : List (CompId × Nat)) (c c' : CompId) (hne : c' ≠ c) :
    tempCount (temps.map (fun p => if p.1 == c then (c, p.2 + 1) else p)) c' = tempCount temps c' := by
  unfold tempCount
  induction temps with
  | nil => rfl
  | cons p ps ih =>
    simp only [List.map_cons, List.find?_cons]
    by_cases hp : (p.1 == c) = true
    · have hpc : p.1 = c := by simpa using hp
      have h1 : (p.1 == c') = false := by simp [hpc, Ne.symm hne]
      have h2 : (c == c') = false := by simp [Ne.symm hne]
      simp only [hp, if_true, h1, h2]
      exact ih
    · have hp' : (p.1 == c) = false := by simpa using hp
      simp only [hp', Bool.false_eq_true, if_false]
      cases hpc' : (p.1 == c')
      · exact ih
      · rfl

theorem tempCount_addTemp_ne (temps : List (CompId × Nat)) (c c' : CompId) (hne : c' ≠ c) :
    tempCount (addTemp temps c) c' = tempCount temps c' := by
  unfold addTemp
  split
  · exact tempCount_map_ne temps c c' hne
  · unfold tempCount
    rw [List.find?_append]
    cases hf : temps.find? (fun x => x.1 == c') with
    | some p => rfl
    | none =>
      have : (c == c') = false := by simp [Ne.symm hne]
      simp [this]

theorem nAssign_push (bufs : List (List Cmd)) (t : Nat) (cmd : Cmd) (c : CompId) :
    nAssign (bufs.set t (bufs.getD t [] ++ [cmd])) c =
      nAssign bufs c + (if t < bufs.length ∧ isAssignOf c cmd = true then 1 else 0) := by
  unfold nAssign
  induction bufs generalizing t with
  | nil => simp
  | cons b bs ih =>
    cases t with
    | zero =>
      simp only [List.set_cons_zero, List.getD_cons_zero, List.map_cons, List.sum_cons, List.filter_append,
        List.length_append, List.length_cons, Nat.zero_lt_succ, true_and]
      by_cases hc : isAssignOf c cmd = true
      · simp only [List.filter_cons, hc, if_true, List.filter_nil, List.length_cons, List.length_nil]; omega
      · have hc' : isAssignOf c cmd = false := by simpa using hc
        simp only [List.filter_cons, hc', Bool.false_eq_true, if_false, List.filter_nil, List.length_nil]
        omega
    | succ t =>
      have := ih t
      simp only [List.set_cons_succ, List.getD_cons_succ, List.map_cons, List.sum_cons, List.length_cons,
        Nat.add_lt_add_iff_right] at this ⊢
      rw [this]; omega

theorem nAssign_replicate (bufs : List (List Cmd)) (k : Nat) (c : CompId) :
    nAssign (bufs ++ List.replicate k []) c = nAssign bufs c := by
  unfold nAssign
  rw [List.map_append, List.sum_append]
  have : ((List.replicate k ([] : List Cmd)).map (fun b => (b.filter (isAssignOf c)).length)).sum = 0 := by
    induction k with
    | zero => rfl
    | succ k ih => simp [List.replicate_succ]
  rw [this, Nat.add_zero]

theorem nAssign_map_nil (bufs : List (List Cmd)) (c : CompId) : nAssign (bufs.map (fun _ => [])) c = 0 := by
  unfold nAssign
  induction bufs with
  | nil => rfl
  | cons b bs ih => simpa using ih

/-! ## calls recorded under lock -/

theorem tempsInv_push_other (info : CompId → CompInfo) (w w' : WM) (t : Nat) (cmd : Cmd)
    (hcmd : ∀ c, isAssignOf c cmd = false)
    (hb : w'.buffers = w.buffers.set t (w.buffers.getD t [] ++ [cmd])) (ht : w'.temps = w.temps)
    (h : TempsInv info w) : TempsInv info w' := by
  intro c hc
  rw [hb, ht, nAssign_push, hcmd c]
  simp [h c hc]

theorem tempsInv_pushCmd_other (info : CompId → CompInfo) (w : WM) (t : Nat) (cmd : Cmd)
    (hcmd : ∀ c, isAssignOf c cmd = false) (h : TempsInv info w) : TempsInv info (w.pushCmd t cmd) :=
  tempsInv_push_other info w _ t cmd hcmd rfl rfl h

theorem tempsInv_assign_locked (info : CompId → CompInfo) (w : WM) (t : Nat) (e : Handle) (c : CompId)
    (v : Option Nat) (hl : w.isLocked = true) (ht : t < w.buffers.length) (h : TempsInv info w) :
    TempsInv info (w.assign info t e c v).1 := by
  unfold WM.assign
  simp only [hl, if_true]
  intro c' hc'
  by_cases hcc : c' = c
  · subst hcc
    simp only [hc', if_true]
    show tempCount (addTemp (w.pushCmd t _).temps c') c' = nAssign (w.pushCmd t _).buffers c'
    rw [tempCount_addTemp_self]
    show tempCount w.temps c' + 1 = nAssign (w.buffers.set t _) c'
    rw [nAssign_push, h c' hc']
    simp [ht, isAssignOf]
  · split
    · show tempCount (addTemp (w.pushCmd t _).temps c) c' = nAssign (w.pushCmd t _).buffers c'
      rw [tempCount_addTemp_ne _ _ _ hcc]
      show tempCount w.temps c' = nAssign (w.buffers.set t _) c'
      rw [nAssign_push, h c' hc']
      have : (c == c') = false := by simp [Ne.symm hcc]
      simp [isAssignOf, this]
    · show tempCount w.temps c' = nAssign (w.buffers.set t _) c'
      rw [nAssign_push, h c' hc']
      have : (c == c') = false := by simp [Ne.symm hcc]
      simp [isAssignOf, this]

theorem tempsInv_assignRun (info : CompId → CompInfo) (t : Nat) (e : Handle) (adds : List (CompId × Option Nat))
    (w : WM) (cbs0 : List Cb) (hl : w.isLocked = true) (ht : t < w.buffers.length) (h : TempsInv info w) :
    TempsInv info (adds.foldl (fun (acc : WM × List Cb) p =>
        let (w', _, c) := acc.1.assign info t e p.1 p.2
        (w', acc.2 ++ c)) (w, cbs0)).1 := by
  induction adds generalizing w cbs0 with
  | nil => exact h
  | cons p ps ih =>
    rw [List.foldl_cons]
    have hs := (assign_locked_accepts info w t e p.1 p.2 hl ht).2
    have := ih (w.assign info t e p.1 p.2).1 (cbs0 ++ (w.assign info t e p.1 p.2).2.2)
      (by rw [hs.isLocked]; exact hl) (by rw [hs.nbuf]; exact ht)
      (tempsInv_assign_locked info w t e p.1 p.2 hl ht h)
    exact this

theorem tempsInv_removeRun (info : CompId → CompInfo) (t : Nat) (e : Handle) (rems : List CompId) (w : WM)
    (hl : w.isLocked = true) (h : TempsInv info w) :
    TempsInv info (rems.foldl (fun w c => (w.removeComp info t e c).1) w) := by
  induction rems generalizing w with
  | nil => exact h
  | cons c cs ih =>
    rw [List.foldl_cons]
    have hw : (w.removeComp info t e c).1 = w.pushCmd t (.remove e c) := by
      unfold WM.removeComp; simp only [hl, if_true]
    rw [hw]
    exact ih _ (by rw [(sameLock_pushCmd w t _).isLocked]; exact hl)
      (tempsInv_pushCmd_other info w t _ (fun _ => rfl) h)

end Mustache.Proofs.Life

import Mustache.Proofs.LifeTemps
/-!
# `TempsInv` is an invariant of every call (C03, `live_count_eq`)

Only `assign` under lock and the flush write `WM.temps`; only calls under lock, `lock` and the flush write the
buffers. `BT w w'`: buffers and counter untouched.
-/
namespace Mustache.Proofs.Life
open Mustache.Model Mustache.Proofs.Rows

/-- buffers and temporaries counter untouched -/
def BT (w w' : WM) : Prop := w'.buffers = w.buffers ∧ w'.temps = w.temps

theorem BT.refl (w : WM) : BT w w := ⟨rfl, rfl⟩
theorem BT.trans {a b c : WM} (h1 : BT a b) (h2 : BT b c) : BT a c := ⟨h2.1.trans h1.1, h2.2.trans h1.2⟩
theorem _root_.Mustache.Proofs.Rows.SameTable.bt {w w' : WM} (h : SameTable w w') : BT w w' := ⟨h.buffers, h.temps⟩
theorem _root_.Mustache.Proofs.Rows.SameCtl.bt {w w' : WM} (h : SameCtl w w') : BT w w' := ⟨h.buffers, h.temps⟩

theorem tempsInv_of_bt {info : CompId → CompInfo} {w w' : WM} (hbt : BT w w') (h : TempsInv info w) :
    TempsInv info w' := tempsInv_of_ctl hbt.1 hbt.2 h

theorem allocId_bt (w : WM) : BT w (w.allocId).1 := by
  unfold WM.allocId
  split
  · exact ⟨rfl, rfl⟩
  · split <;> exact ⟨rfl, rfl⟩

theorem poolGet_bt (w : WM) (sid v : Nat) : BT w (w.poolGet sid v).1 := ⟨poolGet_buffers w sid v, poolGet_temps w sid v⟩

theorem getArch_bt (w : WM) (m : Mask) (sh : Shared) : BT w (w.getArch m sh).1 := (getArch_sameTable w m sh).bt

/-- `getArchetype` then `externalMove` (or the "to itself" outcome) -/
theorem move_bt (info : CompId → CompInfo) (w : WM) (m : Mask) (sh : Shared) (e : Handle) (pi idx : Nat)
    (skip : Mask) :
    BT w (match (w.getArch m sh).1.externalMove info (w.getArch m sh).2 e pi idx skip with
      | none => (w.getArch m sh).1
      | some r => r.1) := by
  cases hx : (w.getArch m sh).1.externalMove info (w.getArch m sh).2 e pi idx skip with
  | none => exact getArch_bt w m sh
  | some r => exact (getArch_bt w m sh).trans (externalMove_sameTable info _ _ _ _ _ _ r hx).bt

theorem builder_fold_bt (info : CompId → CompInfo) (w2 : WM) (e : Handle) (ti n : Nat)
    (adds : List (CompId × Option Nat)) (cbs0 : List Cb) :
    BT w2 (adds.foldl (fun (acc : WM × List Cb) (p : CompId × Option Nat) =>
        let w := acc.1
        let ta := w.arch ti
        match ta.mask.indexOf? p.1 with
        | none => acc
        | some ci =>
          let row := ta.rows.getD n default
          let v : Val := match (info p.1).fixed with
            | some f => some f
            | none => match p.2 with
              | some tok => some tok
              | none => defaultVal info p.1
          let w := w.setArch ti { ta with rows := ta.rows.set n { row with vals := row.vals.set ci v } }
          (w, acc.2 ++ (if (info p.1).callbacks then [Cb.assign p.1 e] else []))) (w2, cbs0)).1 := by
  refine foldl_inv (fun (acc : WM × List Cb) => BT w2 acc.1) _ ?_ adds (w2, cbs0) (BT.refl w2)
  intro a b h
  simp only
  split
  · exact h
  · exact h

theorem create_unlocked_bt (info : CompId → CompInfo) (w : WM) (t : Nat) (mask : Mask) (sh : Shared)
    (hl : w.isLocked = false) : BT w (w.create info t mask sh).1 := by
  have hw' : (w.create info t mask sh).1 =
      (((w.getArch mask sh).1.allocId).1.archInsert info (w.getArch mask sh).2
        ((w.getArch mask sh).1.allocId).2 []).1 := by
    unfold WM.create; simp only [hl, Bool.false_eq_true, if_false]
  rw [hw']
  exact ((getArch_bt w mask sh).trans (allocId_bt _)).trans (archInsert_sameTable info _ _ _ _).bt

theorem assign_final_bt (w2 : WM) (ti idx : Nat) (v : Option Nat) (c : CompId) (stored : Val) :
    BT w2 (match v, (w2.arch ti).mask.indexOf? c with
      | some _, some ci =>
        w2.setArch ti { (w2.arch ti) with
          rows := (w2.arch ti).rows.set idx { ((w2.arch ti).rows.getD idx default) with
                    vals := ((w2.arch ti).rows.getD idx default).vals.set ci stored } }
      | _, _ => w2) := by
  split <;> exact ⟨rfl, rfl⟩

theorem assign_unlocked_bt (info : CompId → CompInfo) (w : WM) (t : Nat) (e : Handle) (c : CompId)
    (v : Option Nat) (hl : w.isLocked = false) : BT w (w.assign info t e c v).1 := by
  unfold WM.assign
  simp only [hl, Bool.false_eq_true, if_false]
  cases hla : (w.locOf e).arch with
  | none => exact BT.refl w
  | some pi =>
    simp only
    have hm := move_bt info w (Mask.insert (w.arch pi).mask c) (w.arch pi).shared e pi (w.locOf e).idx
      (if v.isSome then Mask.insert (w.arch pi).mask c else [])
    cases hx : (w.getArch (Mask.insert (w.arch pi).mask c) (w.arch pi).shared).1.externalMove info
        (w.getArch (Mask.insert (w.arch pi).mask c) (w.arch pi).shared).2 e pi (w.locOf e).idx
        (if v.isSome then Mask.insert (w.arch pi).mask c else []) with
    | none => rw [hx] at hm; exact hm
    | some r =>
      rw [hx] at hm
      simp only
      exact hm.trans (assign_final_bt r.1 _ _ v c _)

theorem removeComp_unlocked_bt (info : CompId → CompInfo) (w : WM) (t : Nat) (e : Handle) (c : CompId)
    (hl : w.isLocked = false) : BT w (w.removeComp info t e c).1 := by
  unfold WM.removeComp
  simp only [hl, Bool.false_eq_true, if_false]
  by_cases hv : w.isValid e = true
  · simp only [hv, Bool.not_true, Bool.false_eq_true, if_false]
    cases hla : (w.locOf e).arch with
    | none => exact BT.refl w
    | some pi =>
      simp only
      by_cases hc : (w.arch pi).mask.contains c = true
      · simp only [hc, Bool.not_true, Bool.false_eq_true, if_false]
        have hm := move_bt info w (Mask.erase (w.arch pi).mask c) (w.arch pi).shared e pi (w.locOf e).idx []
        cases hx : (w.getArch (Mask.erase (w.arch pi).mask c) (w.arch pi).shared).1.externalMove info
            (w.getArch (Mask.erase (w.arch pi).mask c) (w.arch pi).shared).2 e pi (w.locOf e).idx [] with
        | none => rw [hx] at hm; exact hm
        | some r => rw [hx] at hm; exact hm
      · simp only [hc, Bool.not_false, if_true]; exact BT.refl w
  · simp only [Bool.not_eq_true] at hv
    simp only [hv, Bool.not_false, if_true]; exact BT.refl w

theorem buildUpdateU_bt (info : CompId → CompInfo) (w : WM) (e : Handle) (adds : List (CompId × Option Nat))
    (rems : Mask) : BT w (w.buildUpdateU info e adds rems).1 := by
  unfold WM.buildUpdateU
  simp only
  cases hla : (w.locOf e).arch with
  | none => exact BT.refl w
  | some pi =>
    simp only
    have hm := move_bt info w (Mask.diff (Mask.union (Mask.ofList (adds.map (·.1))) (w.arch pi).mask) rems)
      (Shared.null.merge (w.arch pi).shared) e pi (w.locOf e).idx (Mask.ofList (adds.map (·.1)))
    cases hx : (w.getArch (Mask.diff (Mask.union (Mask.ofList (adds.map (·.1))) (w.arch pi).mask) rems)
        (Shared.null.merge (w.arch pi).shared)).1.externalMove info
        (w.getArch (Mask.diff (Mask.union (Mask.ofList (adds.map (·.1))) (w.arch pi).mask) rems)
          (Shared.null.merge (w.arch pi).shared)).2 e pi (w.locOf e).idx (Mask.ofList (adds.map (·.1))) with
    | none => rw [hx] at hm; exact hm
    | some r =>
      rw [hx] at hm
      simp only
      exact hm.trans (builder_fold_bt info r.1 e _ _ adds [])

theorem buildNewU_bt (info : CompId → CompInfo) (w : WM) (adds : List (CompId × Option Nat)) :
    BT w (w.buildNewU info adds).1 := by
  unfold WM.buildNewU
  simp only
  refine (allocId_bt w).trans ?_
  generalize (w.allocId).1 = w0
  generalize (w.allocId).2 = h
  split
  · exact (getArch_bt w0 [] Shared.null).trans (archInsert_sameTable info _ _ _ _).bt
  · exact ((getArch_bt w0 _ Shared.null).trans (archInsert_sameTable info _ _ _ _).bt).trans
      (builder_fold_bt info _ h _ _ adds [])

theorem update_bt (info : CompId → CompInfo) (w : WM) : BT w (w.update info).1 := by
  unfold WM.update
  split
  · exact BT.refl w
  · simp only
    have : ∀ (l : List Handle) (acc : WM × List Cb), BT acc.1 (l.foldl (fun (acc : WM × List Cb) h =>
        let (w', c) := acc.1.destroyNowU info h
        (w', acc.2 ++ c)) acc).1 := by
      intro l
      induction l with
      | nil => intro acc; exact BT.refl _
      | cons h t ih =>
        intro acc
        rw [List.foldl_cons]
        exact (destroyNowU_ctl info acc.1 h).bt.trans (ih _)
    exact this w.marked (w, [])

theorem clearLoop_temps (rows : List Row) (w : WM) : (clearLoop w rows).temps = w.temps := by
  induction rows generalizing w with
  | nil => rfl
  | cons r rows ih =>
    unfold clearLoop
    rw [List.foldl_cons]
    have := ih ({ ({ w with locs := w.locs.set r.ent.id ⟨none, (w.locOf r.ent).idx⟩ } : WM) with
      slots := w.slots.set r.ent.id ⟨if w.empty ≠ 0 then w.next else r.ent.id + 1, (r.ent.ver + 1) % 2^24⟩,
      next := r.ent.id, empty := w.empty + 1 })
    unfold clearLoop at this
    exact this

theorem clearArch_bt (info : CompId → CompInfo) (w : WM) (ai : Nat) : BT w (w.clearArch info ai).1 := by
  rw [clearArch_fst]
  exact ⟨clearLoop_buffers _ _, clearLoop_temps _ _⟩

theorem clone_bt (w : WM) (e : Handle) : BT w (w.clone e).1 := by
  unfold WM.clone
  by_cases hv : w.isValid e = true
  · simp only [hv, Bool.not_true, Bool.false_eq_true, if_false]
    cases hla : (w.locOf e).arch with
    | none => exact BT.refl w
    | some ai =>
      simp only
      exact (allocId_bt w).trans ((sameTable_setArch _ _ _).trans (sameTable_setLoc _ _ _ _)).bt
  · simp only [Bool.not_eq_true] at hv
    simp only [hv, Bool.not_false, if_true]; exact BT.refl w

theorem sassign_bt (info : CompId → CompInfo) (w : WM) (e : Handle) (sid v : Nat) :
    BT w (w.sassign info e sid v).1 := by
  unfold WM.sassign
  simp only
  cases hla : (w.locOf e).arch with
  | none => exact BT.refl w
  | some pi =>
    simp only
    have hm := move_bt info (w.poolGet sid v).1 ((w.poolGet sid v).1.arch pi).mask
      (((w.poolGet sid v).1.arch pi).shared.add sid (w.poolGet sid v).2) e pi (w.locOf e).idx []
    cases hx : ((w.poolGet sid v).1.getArch ((w.poolGet sid v).1.arch pi).mask
        (((w.poolGet sid v).1.arch pi).shared.add sid (w.poolGet sid v).2)).1.externalMove info
        ((w.poolGet sid v).1.getArch ((w.poolGet sid v).1.arch pi).mask
          (((w.poolGet sid v).1.arch pi).shared.add sid (w.poolGet sid v).2)).2 e pi (w.locOf e).idx [] with
    | none => rw [hx] at hm; exact (poolGet_bt w sid v).trans hm
    | some r => rw [hx] at hm; exact (poolGet_bt w sid v).trans hm

theorem sremove_bt (info : CompId → CompInfo) (w : WM) (e : Handle) (sid : Nat) :
    BT w (w.sremove info e sid).1 := by
  unfold WM.sremove
  by_cases hv : w.isValid e = true
  · simp only [hv, Bool.not_true, Bool.false_eq_true, if_false]
    cases hla : (w.locOf e).arch with
    | none => exact BT.refl w
    | some pi =>
      simp only
      by_cases hs : (w.arch pi).shared.has sid = true
      · simp only [hs, Bool.not_true, Bool.false_eq_true, if_false]
        have hm := move_bt info w (w.arch pi).mask ((w.arch pi).shared.remove sid) e pi (w.locOf e).idx []
        cases hx : (w.getArch (w.arch pi).mask ((w.arch pi).shared.remove sid)).1.externalMove info
            (w.getArch (w.arch pi).mask ((w.arch pi).shared.remove sid)).2 e pi (w.locOf e).idx [] with
        | none => rw [hx] at hm; exact hm
        | some r => rw [hx] at hm; exact hm
      · simp only [hs, Bool.not_false, if_true]; exact BT.refl w
  · simp only [Bool.not_eq_true] at hv
    simp only [hv, Bool.not_false, if_true]; exact BT.refl w

/-! ## every call -/

theorem tempsInv_lock (info : CompId → CompInfo) (w : WM) (h : TempsInv info w) : TempsInv info w.lock := by
  unfold WM.lock
  simp only
  split
  · intro c hc
    show tempCount w.temps c = nAssign (w.buffers ++ List.replicate (w.nthreads - w.buffers.length) []) c
    rw [nAssign_replicate]; exact h c hc
  · exact fun c hc => h c hc

theorem tempsInv_flush (info : CompId → CompInfo) (w : WM) : TempsInv info (w.flush info).1 := by
  intro c _
  have := flush_ctl info w
  rw [this.1, this.2.1, nAssign_map_nil]; rfl

theorem tempsInv_step (info : CompId → CompInfo) (w : WM) (op : Op Handle) (hop : OpOk info w op)
    (h : TempsInv info w) : TempsInv info (w.step info op).1 := by
  cases op with
  | create t mask shared =>
    have hp := poolFold_same shared w Shared.null
    unfold WM.step
    simp only
    have hpt : (shared.foldl (fun (acc : WM × Shared) sid =>
        let (w', inst) := acc.1.poolGet sid 0
        (w', acc.2.add sid inst)) (w, Shared.null)).1.temps = w.temps := by
      refine foldl_inv (fun (acc : WM × Shared) => acc.1.temps = w.temps) _ ?_ shared (w, Shared.null) rfl
      intro a b h1
      simp only [poolGet_temps]; exact h1
    generalize shared.foldl (fun (acc : WM × Shared) sid =>
        let (w', inst) := acc.1.poolGet sid 0
        (w', acc.2.add sid inst)) (w, Shared.null) = r at hp hpt
    obtain ⟨wp, shp⟩ := r
    simp only at hp hpt ⊢
    have hwp : TempsInv info wp := tempsInv_of_ctl hp.2.1 hpt h
    by_cases hl : wp.isLocked = true
    · have : (wp.create info t mask shp).1 =
          ({ wp with nextEntityId := wp.nextEntityId + 1 } : WM).pushCmd t
            (.create ⟨wp.nextEntityId, (match wp.slots[wp.nextEntityId]? with
              | some s => (s.ver + 1) % 2^24
              | none => 0), wp.worldId⟩ mask shp) := by
        unfold WM.create WM.createLocked; rw [if_pos hl]; rfl
      rw [this]
      exact tempsInv_pushCmd_other info _ t _ (fun _ => rfl) (fun c hc => hwp c hc)
    · simp only [Bool.not_eq_true] at hl
      exact tempsInv_of_bt (create_unlocked_bt info wp t mask shp hl) hwp
  | assign t e c v =>
    by_cases hl : w.isLocked = true
    · exact tempsInv_assign_locked info w t e c v hl (hop.1 hl) h
    · simp only [Bool.not_eq_true] at hl
      exact tempsInv_of_bt (assign_unlocked_bt info w t e c v hl) h
  | remove t e c =>
    by_cases hl : w.isLocked = true
    · have hw : (w.removeComp info t e c).1 = w.pushCmd t (.remove e c) := by
        unfold WM.removeComp; simp only [hl, if_true]
      show TempsInv info (w.removeComp info t e c).1
      rw [hw]; exact tempsInv_pushCmd_other info w t _ (fun _ => rfl) h
    · simp only [Bool.not_eq_true] at hl
      exact tempsInv_of_bt (removeComp_unlocked_bt info w t e c hl) h
  | buildNew t adds =>
    unfold WM.step
    by_cases hl : w.isLocked = true
    · simp only [hl, if_true]
      have hc := createLocked_slots w t [] Shared.null
      have h1 : TempsInv info (w.createLocked t [] Shared.null).1 := by
        unfold WM.createLocked
        exact tempsInv_pushCmd_other info _ t _ (fun _ => rfl) (fun c hc => h c hc)
      exact tempsInv_assignRun info t _ adds _ [] (by rw [hc.2.isLocked]; exact hl)
        (by rw [hc.2.nbuf]; exact hop.1 hl) h1
    · simp only [Bool.not_eq_true] at hl
      simp only [hl, Bool.false_eq_true, if_false]
      exact tempsInv_of_bt (buildNewU_bt info w adds) h
  | build t e adds rems =>
    unfold WM.step
    by_cases hl : w.isLocked = true
    · simp only [hl, if_true]
      have h1 := tempsInv_assignRun info t e adds w [] hl (hop.1 hl) h
      have hs := (assignRun_accepts info t e adds w hl (hop.1 hl) (slotsOf w) [] [] rfl).2
      exact tempsInv_removeRun info t e rems _ (by rw [hs.isLocked]; exact hl) h1
    · simp only [Bool.not_eq_true] at hl
      simp only [hl, Bool.false_eq_true, if_false]
      exact tempsInv_of_bt (buildUpdateU_bt info w e adds rems) h
  | destroy t e =>
    show TempsInv info (w.destroy t e)
    unfold WM.destroy
    split
    · exact tempsInv_pushCmd_other info w t _ (fun _ => rfl) h
    · split
      · exact fun c hc => h c hc
      · exact h
  | destroyNow t e =>
    show TempsInv info (w.destroyNow info t e).1
    unfold WM.destroyNow
    split
    · exact tempsInv_pushCmd_other info w t _ (fun _ => rfl) h
    · exact tempsInv_of_bt (destroyNowU_ctl info w e).bt h
  | clone e =>
    have hst : (w.step info (.clone e)).1 = (w.clone e).1 := by
      simp only [WM.step]
      cases w.clone e with
      | mk w' r => cases r <;> rfl
    rw [hst]; exact tempsInv_of_bt (clone_bt w e) h
  | sassign e sid v => exact tempsInv_of_bt (sassign_bt info w e sid v) h
  | sremove e sid => exact tempsInv_of_bt (sremove_bt info w e sid) h
  | clearArch mask =>
    unfold WM.step
    simp only
    split
    · exact tempsInv_of_bt (clearArch_bt info w _) h
    · exact h
  | update => exact tempsInv_of_bt (update_bt info w) h
  | lock => exact tempsInv_lock info w h
  | unlock =>
    have hst : (w.step info .unlock).1 =
        if (unlockPre w).lockDepth = 0 then ((unlockPre w).flush info).1 else unlockPre w := by
      unfold WM.step WM.unlock unlockPre
      simp only
      split <;> (split <;> rfl)
    rw [hst]
    split
    · exact tempsInv_flush info _
    · unfold unlockPre
      split
      · exact fun c hc => h c hc
      · exact h
  | dep c extra => exact fun c hc => h c hc
  | valid e => exact h
  | has e c => exact h
  | hasShared e sid => exact h
  | get e c => exact h
  | archOf e => exact h

/-- along every history that meets its preconditions -/
theorem tempsInv_run (info : CompId → CompInfo) (w : WM) (ops : List (Op Handle)) (hr : RunOk info w ops)
    (h : TempsInv info w) : TempsInv info (run info w ops) := by
  induction ops generalizing w with
  | nil => exact h
  | cons op ops ih => exact ih _ hr.2 (tempsInv_step info w op hr.1.2 h)

end Mustache.Proofs.Life

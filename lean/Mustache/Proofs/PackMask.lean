import Mustache.Proofs.RowsPackInv
import Mustache.Proofs.ClosureLoop
/-!
# Deferred command packs vs. immediate operations: the component set of the target entity

`seqMask deps m cmds` is the mask-level sequential semantics of a command list: what issuing the same
assigns / removes IMMEDIATELY (unlocked `WM.assign` / `WM.removeComp`), one by one, does to the component
set `m` of an entity.  This file proves

* `pack_final_eq_seqMask`: the `final` field `applyCommandPack` folds over a pack on an existing entity
  is `seqMask w.deps m pack`, for ANY start mask `m`;
* `immediate_assign_mask` / `immediate_remove_mask`: the unlocked operations give the entity an archetype
  whose mask is `seqMaskStep w.deps m cmd`;
* `deferred_pack_mask`: after `applyPack` the entity sits in an archetype whose mask is
  `seqMask w.deps m pack`.

Nothing here assumes that archetype masks are closed under `w.deps`: a dependency may have been declared
after the entity's archetype was created.  No `RowsOK` either: the hypotheses are a handful of decidable
facts about the entity's location.
-/
namespace Mustache.Proofs.PackMask
open Mustache.Model Mustache.Proofs.Rows

/-! ## the mask-level sequential semantics -/

/-- what one command does to the component set of its entity when the matching IMMEDIATE operation is issued
(`assign` of an absent component, `removeComponent`); `destroy` only marks, `create` / `destroyNow` are not
component edits -/
def seqMaskStep (deps : List (CompId × Mask)) (m : Mask) : Cmd → Mask
  | .assign _ c _ => if m.contains c then m else closedMask deps (Mask.insert m c)
  | .remove _ c => if m.contains c then closedMask deps (Mask.erase m c) else m
  | _ => m

def seqMask (deps : List (CompId × Mask)) (m : Mask) (cmds : List Cmd) : Mask :=
  cmds.foldl (seqMaskStep deps) m

theorem seqMask_nil (deps : List (CompId × Mask)) (m : Mask) : seqMask deps m [] = m := rfl

theorem seqMask_cons (deps : List (CompId × Mask)) (m : Mask) (c : Cmd) (l : List Cmd) :
    seqMask deps m (c :: l) = seqMask deps (seqMaskStep deps m c) l := rfl

/-- a command that edits components or marks: neither a creation nor an immediate destruction -/
def plainCmd : Cmd → Bool
  | .create .. => false
  | .destroyNow _ => false
  | _ => true

/-! ## shape of `seqMask`: the start mask itself, or a closure -/

theorem seqMaskStep_sorted (deps : List (CompId × Mask)) {m : Mask} (hs : Sorted m) (c : Cmd) :
    Sorted (seqMaskStep deps m c) := by
  cases c with
  | create _ _ _ => exact hs
  | destroyNow _ => exact hs
  | destroy _ => exact hs
  | remove _ c =>
    simp only [seqMaskStep]
    split
    · exact sorted_closedMask (Mask.sorted_erase hs)
    · exact hs
  | assign _ c _ =>
    simp only [seqMaskStep]
    split
    · exact hs
    · exact sorted_closedMask (Mask.sorted_insert hs)

theorem seqMaskStep_shape (deps : List (CompId × Mask)) {m : Mask} (hs : Sorted m) (c : Cmd) :
    seqMaskStep deps m c = m ∨ ∃ x, Sorted x ∧ seqMaskStep deps m c = closedMask deps x := by
  cases c with
  | create _ _ _ => exact Or.inl rfl
  | destroyNow _ => exact Or.inl rfl
  | destroy _ => exact Or.inl rfl
  | remove _ c =>
    simp only [seqMaskStep]
    split
    · exact Or.inr ⟨_, Mask.sorted_erase hs, rfl⟩
    · exact Or.inl rfl
  | assign _ c _ =>
    simp only [seqMaskStep]
    split
    · exact Or.inl rfl
    · exact Or.inr ⟨_, Mask.sorted_insert hs, rfl⟩

theorem seqMask_sorted (deps : List (CompId × Mask)) (l : List Cmd) {m : Mask} (hs : Sorted m) :
    Sorted (seqMask deps m l) := by
  induction l generalizing m with
  | nil => exact hs
  | cons c l ih => rw [seqMask_cons]; exact ih (seqMaskStep_sorted deps hs c)

/-- the result is the start mask (no effective step) or the closure of a sorted mask -/
theorem seqMask_shape (deps : List (CompId × Mask)) (l : List Cmd) {m : Mask} (hs : Sorted m) :
    seqMask deps m l = m ∨ ∃ x, Sorted x ∧ seqMask deps m l = closedMask deps x := by
  induction l generalizing m with
  | nil => exact Or.inl rfl
  | cons c l ih =>
    rw [seqMask_cons]
    rcases ih (seqMaskStep_sorted deps hs c) with h | h
    · rw [h]; exact seqMaskStep_shape deps hs c
    · exact Or.inr h

/-- whenever the pack changes the component set, the new set is a fixpoint of the closure
(as the very same list): looking its archetype up does not widen it again -/
theorem seqMask_closed_of_ne {deps : List (CompId × Mask)} (hb : DepsBounded deps) (l : List Cmd) {m : Mask}
    (hs : Sorted m) (hne : seqMask deps m l ≠ m) :
    closedMask deps (seqMask deps m l) = seqMask deps m l := by
  rcases seqMask_shape deps l hs with h | ⟨x, hx, h⟩
  · exact absurd h hne
  · rw [h]; exact closedMask_idem hb hx

/-- a pack that changes the component set at all leaves a set that is closed under the CURRENT table, whatever
the start mask was: a late declaration is caught up with at the first effective command -/
theorem seqMask_closedUnder_of_ne {deps : List (CompId × Mask)} (hb : DepsBounded deps) (l : List Cmd) {m : Mask}
    (hs : Sorted m) (hne : seqMask deps m l ≠ m) : ClosedUnder deps (seqMask deps m l) := by
  rcases seqMask_shape deps l hs with h | ⟨x, _, h⟩
  · exact absurd h hne
  · rw [h]; exact closedMask_closed hb x

/-! ## the fold of `applyCommandPack` -/

/-- everything but the marked set and the control fields is the same -/
structure SameWorld (w w' : WM) : Prop where
  archs : w'.archs = w.archs
  locs : w'.locs = w.locs
  slots : w'.slots = w.slots
  worldId : w'.worldId = w.worldId
  deps : w'.deps = w.deps

theorem SameWorld.refl (w : WM) : SameWorld w w := ⟨rfl, rfl, rfl, rfl, rfl⟩

theorem SameWorld.trans {a b c : WM} (h₁ : SameWorld a b) (h₂ : SameWorld b c) : SameWorld a c :=
  ⟨h₂.archs.trans h₁.archs, h₂.locs.trans h₁.locs, h₂.slots.trans h₁.slots,
   h₂.worldId.trans h₁.worldId, h₂.deps.trans h₁.deps⟩

theorem SameWorld.isValid {w w' : WM} (h : SameWorld w w') (e : Handle) : w'.isValid e = w.isValid e := by
  unfold WM.isValid; rw [h.worldId, h.slots]

theorem SameWorld.locOf {w w' : WM} (h : SameWorld w w') (e : Handle) : w'.locOf e = w.locOf e := by
  unfold WM.locOf; rw [h.locs]

theorem SameWorld.arch {w w' : WM} (h : SameWorld w w') (i : Nat) : w'.arch i = w.arch i := by
  rw [arch_def, arch_def, h.archs]

/-- one plain command: the world only gains a mark, the pack stays alive, `final` follows `seqMaskStep` -/
theorem packStep_plain (info : CompId → CompInfo) (e : Handle) (ic : Bool) (w : WM) (p : PackSt)
    (cbs : List Cb) (c : Cmd) (hd : p.dead = false) (hc : plainCmd c = true) :
    SameWorld w (packStep info e ic (w, p, cbs) c).1 ∧
    (packStep info e ic (w, p, cbs) c).2.1.dead = false ∧
    (packStep info e ic (w, p, cbs) c).2.1.final = seqMaskStep w.deps p.final c := by
  unfold packStep
  simp only [hd, Bool.false_eq_true, if_false]
  cases c with
  | create _ _ _ => cases hc
  | destroyNow _ => cases hc
  | destroy h => exact ⟨⟨rfl, rfl, rfl, rfl, rfl⟩, hd, rfl⟩
  | remove _ c =>
    simp only [seqMaskStep]
    split
    · split
      · exact ⟨SameWorld.refl w, by first | exact hd | rfl, rfl⟩
      · exact ⟨SameWorld.refl w, by first | exact hd | rfl, rfl⟩
    · exact ⟨SameWorld.refl w, by first | exact hd | rfl, rfl⟩
  | assign _ c v =>
    simp only [seqMaskStep]
    split
    · exact ⟨SameWorld.refl w, by first | exact hd | rfl, rfl⟩
    · exact ⟨SameWorld.refl w, by first | exact hd | rfl, rfl⟩

theorem packFold_plain (info : CompId → CompInfo) (e : Handle) (ic : Bool) :
    ∀ (l : List Cmd) (acc : WM × PackSt × List Cb), acc.2.1.dead = false →
      (∀ c ∈ l, plainCmd c = true) →
      SameWorld acc.1 (l.foldl (packStep info e ic) acc).1 ∧
      (l.foldl (packStep info e ic) acc).2.1.dead = false ∧
      (l.foldl (packStep info e ic) acc).2.1.final = seqMask acc.1.deps acc.2.1.final l := by
  intro l
  induction l with
  | nil => intro acc hd _; exact ⟨SameWorld.refl _, hd, rfl⟩
  | cons c l ih =>
    intro acc hd hp
    rcases acc with ⟨w, p, cbs⟩
    obtain ⟨h1, h2, h3⟩ := packStep_plain info e ic w p cbs c hd (hp c (List.mem_cons_self ..))
    obtain ⟨k1, k2, k3⟩ := ih (packStep info e ic (w, p, cbs) c) h2
      (fun d hd' => hp d (List.mem_cons_of_mem _ hd'))
    refine ⟨h1.trans k1, k2, ?_⟩
    rw [List.foldl_cons, k3, h3, h1.deps, seqMask_cons]

/-- **the fold of a pack on an existing entity computes `seqMask`**, from any start mask -/
theorem pack_final_eq_seqMask (info : CompId → CompInfo) (e : Handle) (w : WM) (m : Mask) (pack : List Cmd)
    (hp : ∀ c ∈ pack, plainCmd c = true) :
    (pack.foldl (packStep info e false) (w, { final := m }, [])).2.1.final = seqMask w.deps m pack ∧
    (pack.foldl (packStep info e false) (w, { final := m }, [])).2.1.dead = false ∧
    (pack.foldl (packStep info e false) (w, { final := m }, [])).1.deps = w.deps := by
  obtain ⟨h1, h2, h3⟩ := packFold_plain info e false pack (w, { final := m }, []) rfl hp
  exact ⟨h3, h2, h1.deps⟩

/-! ## masks and the entity's location through the structural writes (no `RowsOK` needed) -/

theorem setArch_mask (w : WM) (i j : Nat) (a : Arch) (ha : a.mask = (w.arch i).mask) :
    ((w.setArch i a).arch j).mask = (w.arch j).mask := by
  by_cases hj : j = i
  · subst hj
    by_cases hl : j < w.archs.length
    · rw [arch_setArch_same _ _ _ hl, ha]
    · have harchs : (w.setArch j a).archs = w.archs := by
        simp only [WM.setArch]
        exact List.set_eq_of_length_le (Nat.le_of_not_lt hl)
      rw [arch_def, harchs, ← arch_def]
  · rw [arch_setArch_ne _ _ _ _ hj]

/-- masks, the location table, the id table: what the value writes and (up to `locs`) the moves keep -/
structure MaskFrame (w w' : WM) : Prop where
  same : SameTable w w'
  mask : ∀ i, (w'.arch i).mask = (w.arch i).mask
  alen : w'.archs.length = w.archs.length
  llen : w'.locs.length = w.locs.length

theorem MaskFrame.refl (w : WM) : MaskFrame w w := ⟨SameTable.refl w, fun _ => rfl, rfl, rfl⟩

theorem MaskFrame.trans {a b c : WM} (h₁ : MaskFrame a b) (h₂ : MaskFrame b c) : MaskFrame a c :=
  ⟨h₁.same.trans h₂.same, fun i => (h₂.mask i).trans (h₁.mask i), h₂.alen.trans h₁.alen,
   h₂.llen.trans h₁.llen⟩

theorem maskFrame_setArch (w : WM) (i : Nat) (a : Arch) (ha : a.mask = (w.arch i).mask) :
    MaskFrame w (w.setArch i a) :=
  ⟨sameTable_setArch _ _ _, fun j => setArch_mask w i j a ha, archs_length_setArch _ _ _, rfl⟩

theorem maskFrame_setLoc (w : WM) (h : Handle) (a : Option Nat) (i : Nat) : MaskFrame w (w.setLoc h a i) :=
  ⟨sameTable_setLoc _ _ _ _, fun j => by rw [arch_setLoc], by rw [archs_setLoc], locs_length_setLoc _ _ _ _⟩

theorem maskFrame_archRemove (info : CompId → CompInfo) (w : WM) (ai idx : Nat) (sk : Mask) :
    MaskFrame w (w.archRemove info ai idx sk).1 := by
  unfold WM.archRemove
  simp only
  split
  · exact MaskFrame.refl w
  · split
    · exact (maskFrame_setArch w ai _ (by rfl)).trans (maskFrame_setLoc _ _ _ _)
    · exact ((maskFrame_setArch w ai _ (by rfl)).trans (maskFrame_setLoc _ _ _ _)).trans (maskFrame_setLoc _ _ _ _)

theorem maskFrame_insertRow (w : WM) (ai : Nat) (e : Handle) (vals : List Val) :
    MaskFrame w (insertRow w ai e vals) :=
  (maskFrame_setArch w ai _ (by rfl)).trans (maskFrame_setLoc _ _ _ _)

/-- `getArchetype`: masks of the archetypes that existed, and the tables -/
theorem getArch_frame (w : WM) (m : Mask) (sh : Shared) :
    SameTable w (w.getArch m sh).1 ∧ (w.getArch m sh).1.locs = w.locs ∧
    (∀ i, i < w.archs.length → (w.getArch m sh).1.arch i = w.arch i) ∧
    (w.getArch m sh).2 < (w.getArch m sh).1.archs.length ∧
    w.archs.length ≤ (w.getArch m sh).1.archs.length ∧
    ((w.getArch m sh).1.arch (w.getArch m sh).2).mask = closedMask w.deps m :=
  ⟨getArch_sameTable w m sh, getArch_locs w m sh, fun i hi => getArch_arch_lt w m sh i hi,
   getArch_idx_lt w m sh, getArch_length_le w m sh, (getArch_key w m sh).1⟩

/-- `externalMove` into another archetype: the entity's location is the target, no mask changes -/
theorem externalMove_loc_mask (info : CompId → CompInfo) (w : WM) (t : Nat) (e : Handle) (p i : Nat)
    (skip : Mask) (hne : t ≠ p) (hn : e.id ≠ nullId) (hlt : e.id < w.locs.length) :
    ∃ r, w.externalMove info t e p i skip = some r ∧ MaskFrame w r.1 ∧
      ∃ j, r.1.locOf e = ⟨some t, j⟩ := by
  rcases externalMove_eq info w t e p i skip hne with ⟨cbs, heq⟩
  refine ⟨_, heq, ?_, ?_⟩
  · exact (maskFrame_archRemove info w p i _).trans (maskFrame_insertRow _ _ _ _)
  · refine ⟨_, insertRow_locOf_self _ t e _ hn ?_⟩
    rw [(maskFrame_archRemove info w p i _).llen]; exact hlt

theorem locOf_lt {w : WM} {e : Handle} {a : Nat} {i : Nat} (h : w.locOf e = ⟨some a, i⟩) :
    e.id < w.locs.length := by
  apply Classical.byContradiction
  intro hn
  unfold WM.locOf at h
  rw [List.getD_eq_getElem?_getD, List.getElem?_eq_none_iff.mpr (by omega)] at h
  cases h

/-- where the entity is and which component set its archetype has -/
def HasMask (w : WM) (e : Handle) (m : Mask) : Prop :=
  ∃ a i, w.locOf e = ⟨some a, i⟩ ∧ a < w.archs.length ∧ (w.arch a).mask = m

theorem MaskFrame.hasMask {w w' : WM} (h : MaskFrame w w') (hl : w'.locs = w.locs) {e : Handle} {m : Mask}
    (hm : HasMask w e m) : HasMask w' e m := by
  rcases hm with ⟨a, i, h1, h2, h3⟩
  refine ⟨a, i, ?_, by rw [h.alen]; exact h2, (h.mask a).trans h3⟩
  unfold WM.locOf at h1 ⊢; rw [hl]; exact h1

/-! ## the immediate operations -/

/-- the move both immediate operations (and the pack) perform: look the archetype of `req` up, move there
unless it is the entity's own archetype. Either way the entity ends in an archetype with mask
`closedMask w.deps req`. -/
theorem getArch_move_mask (info : CompId → CompInfo) (w : WM) (e : Handle) (pi idx : Nat) (req : Mask)
    (sh : Shared) (skip : Mask) (hn : e.id ≠ nullId) (hloc : w.locOf e = ⟨some pi, idx⟩)
    (hpi : pi < w.archs.length) :
    let g := w.getArch req sh
    (g.1.externalMove info g.2 e pi idx skip = none ∧ g.2 = pi ∧ HasMask g.1 e (closedMask w.deps req) ∧
      SameTable w g.1) ∨
    (∃ r, g.1.externalMove info g.2 e pi idx skip = some r ∧ HasMask r.1 e (closedMask w.deps req) ∧
      SameTable w r.1 ∧ MaskFrame g.1 r.1 ∧ g.2 ≠ pi) := by
  intro g
  obtain ⟨hsame, hlocs, harch, hidx, hlen, hkey⟩ := getArch_frame w req sh
  have hloc' : g.1.locOf e = ⟨some pi, idx⟩ := by
    unfold WM.locOf at hloc ⊢; rw [hlocs]; exact hloc
  by_cases hne : g.2 = pi
  · left
    refine ⟨by rw [hne]; exact externalMove_self info _ _ _ _ _, hne, ?_, hsame⟩
    exact ⟨pi, idx, hloc', Nat.lt_of_lt_of_le hpi hlen, by rw [← hne]; exact hkey⟩
  · right
    have hlt : e.id < g.1.locs.length := locOf_lt hloc'
    obtain ⟨r, hr, hf, j, hj⟩ := externalMove_loc_mask info g.1 g.2 e pi idx skip hne hn hlt
    refine ⟨r, hr, ⟨g.2, j, hj, by rw [hf.alen]; exact hidx, (hf.mask _).trans hkey⟩,
      hsame.trans hf.same, hf, hne⟩

/-- unlocked `assign<C>(e, …)`: the entity ends in an archetype whose mask is the closure of its old mask
plus `c` — whether it moved or `getArchetype` returned its own archetype ("to itself" exception) -/
theorem immediate_assign_closed (info : CompId → CompInfo) (w : WM) (t : Nat) (e : Handle) (c : CompId)
    (v : Option Nat) (pi idx : Nat) (hul : w.isLocked = false) (hn : e.id ≠ nullId)
    (hloc : w.locOf e = ⟨some pi, idx⟩) (hpi : pi < w.archs.length) :
    HasMask (w.assign info t e c v).1 e (closedMask w.deps (Mask.insert (w.arch pi).mask c)) ∧
    SameTable w (w.assign info t e c v).1 := by
  unfold WM.assign
  simp only [hul, Bool.false_eq_true, if_false, hloc]
  rcases getArch_move_mask info w e pi idx (Mask.insert (w.arch pi).mask c) (w.arch pi).shared
    (if v.isSome then Mask.insert (w.arch pi).mask c else []) hn hloc hpi with
    ⟨h1, _, h3, h4⟩ | ⟨r, h1, h3, h4, _, _⟩
  · simp only [h1]; exact ⟨h3, h4⟩
  · simp only [h1]
    split
    · rename_i ci _ _
      refine ⟨(maskFrame_setArch r.1 _ _ (by rfl)).hasMask rfl h3, h4.trans (sameTable_setArch _ _ _)⟩
    · exact ⟨h3, h4⟩

/-- **immediate assign of an absent component** = `seqMaskStep` -/
theorem immediate_assign_mask (info : CompId → CompInfo) (w : WM) (t : Nat) (e : Handle) (c : CompId)
    (v : Option Nat) (pi idx : Nat) (hul : w.isLocked = false) (hn : e.id ≠ nullId)
    (hloc : w.locOf e = ⟨some pi, idx⟩) (hpi : pi < w.archs.length) (hc : c ∉ (w.arch pi).mask) :
    HasMask (w.assign info t e c v).1 e (seqMaskStep w.deps (w.arch pi).mask (.assign e c v)) ∧
    SameTable w (w.assign info t e c v).1 := by
  have h := immediate_assign_closed info w t e c v pi idx hul hn hloc hpi
  have hcc : (w.arch pi).mask.contains c = false := by simpa using hc
  simpa only [seqMaskStep, hcc, Bool.false_eq_true, if_false] using h

/-- **immediate removeComponent** = `seqMaskStep`: the closure of the old mask minus `c` when `c` was
there (also when that closure is the old mask and nothing moves), the old mask otherwise -/
theorem immediate_remove_mask (info : CompId → CompInfo) (w : WM) (t : Nat) (e : Handle) (c : CompId)
    (pi idx : Nat) (hul : w.isLocked = false) (hv : w.isValid e = true) (hn : e.id ≠ nullId)
    (hloc : w.locOf e = ⟨some pi, idx⟩) (hpi : pi < w.archs.length) :
    HasMask (w.removeComp info t e c).1 e (seqMaskStep w.deps (w.arch pi).mask (.remove e c)) ∧
    SameTable w (w.removeComp info t e c).1 := by
  unfold WM.removeComp
  simp only [hul, hv, Bool.false_eq_true, if_false, hloc, Bool.not_true, seqMaskStep]
  by_cases hc : (w.arch pi).mask.contains c = true
  · simp only [hc, Bool.not_true, Bool.false_eq_true, if_false, if_true]
    rcases getArch_move_mask info w e pi idx (Mask.erase (w.arch pi).mask c) (w.arch pi).shared [] hn hloc hpi with
      ⟨h1, _, h3, h4⟩ | ⟨r, h1, h3, h4, _, _⟩
    · simp only [h1]; exact ⟨h3, h4⟩
    · simp only [h1]; exact ⟨h3, h4⟩
  · have hc' : (w.arch pi).mask.contains c = false := by simpa using hc
    simp only [hc', Bool.not_false, if_true, Bool.false_eq_true, if_false]
    exact ⟨⟨pi, idx, hloc, hpi, rfl⟩, SameTable.refl w⟩

/-! ## the single move of a pack and the value loops -/

/-- masks, tables and the location table: what the value writes of the finishing loops keep -/
def ValFrame (w w' : WM) : Prop := MaskFrame w w' ∧ w'.locs = w.locs

theorem ValFrame.refl (w : WM) : ValFrame w w := ⟨MaskFrame.refl w, rfl⟩

theorem ValFrame.trans {a b c : WM} (h₁ : ValFrame a b) (h₂ : ValFrame b c) : ValFrame a c :=
  ⟨h₁.1.trans h₂.1, h₂.2.trans h₁.2⟩

theorem packSetVal_valFrame (ti idx : Nat) (w : WM) (c : CompId) (v : Val) :
    ValFrame w (packSetVal ti idx w c v) := by
  unfold packSetVal
  simp only
  split
  · exact ValFrame.refl w
  · exact ⟨maskFrame_setArch w ti _ (by rfl), rfl⟩

theorem ValFrame.hasMask {w w' : WM} (h : ValFrame w w') {e : Handle} {m : Mask} (hm : HasMask w e m) :
    HasMask w' e m := h.1.hasMask h.2 hm

/-- the one move of a pack on an existing entity: the entity ends in an archetype with mask `p.final`,
provided `p.final` is the mask it started from or a fixpoint of the closure -/
theorem packMoved_mask (info : CompId → CompInfo) (e : Handle) (initial : Mask) (sh : Shared) (w : WM)
    (p : PackSt) (pi idx : Nat) (hn : e.id ≠ nullId) (hloc : w.locOf e = ⟨some pi, idx⟩)
    (hpi : pi < w.archs.length) (hinit : (w.arch pi).mask = initial)
    (hfix : p.final ≠ initial → closedMask w.deps p.final = p.final) :
    HasMask (packMoved info e false initial sh w p).1 e p.final ∧
    SameTable w (packMoved info e false initial sh w p).1 := by
  have hla : (w.locOf e).arch = some pi := by rw [hloc]
  by_cases hpf : p.final = initial
  · rw [packMoved_stay info e initial sh w p pi hla (packTarget_stay e initial sh w p pi hpf.symm hla)]
    exact ⟨⟨pi, idx, hloc, hpi, by rw [hpf]; exact hinit⟩, SameTable.refl w⟩
  have hT := packTarget_ne e false initial sh w p (fun h => hpf h.symm)
  obtain ⟨hsame, hlocs, harch, hidx, hlen, hkey⟩ := getArch_frame w p.final sh
  have hloc' : (w.getArch p.final sh).1.locOf e = ⟨some pi, idx⟩ := by
    unfold WM.locOf at hloc ⊢; rw [hlocs]; exact hloc
  unfold packMoved
  simp only [Bool.false_eq_true, if_false, hT, hloc']
  rcases getArch_move_mask info w e pi idx p.final sh (Mask.ofList (p.src.map (·.1))) hn hloc hpi with
    ⟨_, h2, h3, h4⟩ | ⟨r, h1, h3, h4, _, h6⟩
  · -- `getArchetype` returned the entity's own archetype
    have hfin : closedMask w.deps p.final = p.final := hfix hpf
    have hcond : (decide (pi = (w.getArch p.final sh).2) || initial == p.final) = true := by
      simp [h2]
    rw [if_pos hcond]
    rw [hfin] at h3
    exact ⟨h3, h4⟩
  · have hcond : ¬ (decide (pi = (w.getArch p.final sh).2) || initial == p.final) = true := by
      have : ¬ pi = (w.getArch p.final sh).2 := fun h => h6 h.symm
      have h' : ¬ initial = p.final := fun h => hpf h.symm
      simp [this, h']
    rw [if_neg hcond]
    simp only [h1]
    rw [hfix hpf] at h3
    exact ⟨h3, h4⟩

/-- `packFinish` on an existing entity whose pack is alive -/
theorem packFinish_mask (info : CompId → CompInfo) (e : Handle) (initial : Mask) (sh : Shared) (w : WM)
    (p : PackSt) (cbs : List Cb) (pi idx : Nat) (hd : p.dead = false) (hn : e.id ≠ nullId)
    (hloc : w.locOf e = ⟨some pi, idx⟩) (hpi : pi < w.archs.length) (hinit : (w.arch pi).mask = initial)
    (hfix : p.final ≠ initial → closedMask w.deps p.final = p.final) :
    HasMask (packFinish info e false initial sh (w, p, cbs)).1 e p.final ∧
    SameTable w (packFinish info e false initial sh (w, p, cbs)).1 := by
  rw [packFinish_fst]
  simp only [hd, Bool.false_eq_true, if_false]
  obtain ⟨hm, hs⟩ := packMoved_mask info e initial sh w p pi idx hn hloc hpi hinit hfix
  have hl := packLoops_rel ValFrame ValFrame.refl (fun _ _ _ h₁ h₂ => h₁.trans h₂)
    (fun ti idx a c v => packSetVal_valFrame ti idx a c v) info e false initial sh w p
  have hv := hl.1.trans (hl.2 ((packW2 info e false initial sh w p).arch (packTarget e false initial sh w p).2).mask
    (packTarget e false initial sh w p).2 ((packMoved info e false initial sh w p).1.locOf e).idx)
  exact ⟨hv.hasMask hm, hs.trans hv.1.same⟩

theorem isCreateCmd_of_plain {c : Cmd} (h : plainCmd c = true) : isCreateCmd c = false := by
  cases c <;> first | rfl | cases h

/-- **the deferred path**: a pack of assigns / removes / destroy marks on an existing valid entity leaves it
valid, in an archetype whose mask is `seqMask w.deps m pack`, `m` being the mask its archetype had — ANY
sorted `m`, closed under `w.deps` or not. (`applyPack` ignores the lock depth: this is the state `flush`
applies it to.) -/
theorem deferred_pack_mask (info : CompId → CompInfo) (w : WM) (e : Handle) (pack : List Cmd) (pi idx : Nat)
    (hb : DepsBounded w.deps) (hv : w.isValid e = true) (hn : e.id ≠ nullId)
    (hloc : w.locOf e = ⟨some pi, idx⟩) (hpi : pi < w.archs.length) (hs : Sorted (w.arch pi).mask)
    (hent : ∀ c ∈ pack, c.entity = e) (hp : ∀ c ∈ pack, plainCmd c = true) :
    HasMask (w.applyPack info pack).1 e (seqMask w.deps (w.arch pi).mask pack) ∧
    (w.applyPack info pack).1.isValid e = true ∧ (w.applyPack info pack).1.deps = w.deps := by
  cases pack with
  | nil => exact ⟨⟨pi, idx, hloc, hpi, rfl⟩, hv, rfl⟩
  | cons first rest =>
    have hic : isCreateCmd first = false := isCreateCmd_of_plain (hp first (List.mem_cons_self ..))
    have hfe : first.entity = e := hent first (List.mem_cons_self ..)
    rw [applyPack_eq, packStart_other w first hic, hfe]
    simp only [hv, Bool.not_true, Bool.false_eq_true, if_false, hloc, hic, packInit]
    obtain ⟨h1, h2, h3⟩ := packFold_plain info e false (first :: rest)
      (w, { final := (w.arch pi).mask }, []) rfl hp
    generalize (first :: rest).foldl (packStep info e false) (w, { final := (w.arch pi).mask }, []) = st
      at h1 h2 h3
    rcases st with ⟨w2, p, cbs⟩
    simp only at h1 h2 h3
    have hfix : p.final ≠ (w.arch pi).mask → closedMask w2.deps p.final = p.final := by
      intro hne
      rw [h1.deps, h3]
      exact seqMask_closed_of_ne hb _ hs (by rw [← h3]; exact hne)
    obtain ⟨k1, k2⟩ := packFinish_mask info e (w.arch pi).mask (w.arch pi).shared w2 p cbs pi idx h2 hn
      (by rw [h1.locOf]; exact hloc) (by rw [h1.archs]; exact hpi) (by rw [h1.arch]) hfix
    refine ⟨by rw [← h3]; exact k1, ?_, ?_⟩
    · rw [k2.isValid, h1.isValid]; exact hv
    · rw [k2.deps, h1.deps]

/-! ## the same commands issued immediately, one by one -/

/-- the component set the entity's archetype has (`none`: no archetype) -/
def maskOf (w : WM) (e : Handle) : Option Mask := (w.locOf e).arch.map (fun a => (w.arch a).mask)

theorem HasMask.maskOf {w : WM} {e : Handle} {m : Mask} (h : HasMask w e m) : maskOf w e = some m := by
  rcases h with ⟨a, i, h1, _, h3⟩
  simp [PackMask.maskOf, h1, h3]

theorem HasMask.unique {w : WM} {e : Handle} {m m' : Mask} (h : HasMask w e m) (h' : HasMask w e m') :
    m = m' := by
  have a := h.maskOf
  rw [h'.maskOf] at a
  cases a; rfl

/-- what the IMMEDIATE operation really does to the component set: an unlocked `assign` looks the archetype of
`m ∪ {c}` up even when `c` is already there, so it closes `m` if `m` was not closed -/
def immMaskStep (deps : List (CompId × Mask)) (m : Mask) : Cmd → Mask
  | .assign _ c _ => closedMask deps (Mask.insert m c)
  | .remove _ c => if m.contains c then closedMask deps (Mask.erase m c) else m
  | _ => m

def immMask (deps : List (CompId × Mask)) (m : Mask) (cmds : List Cmd) : Mask :=
  cmds.foldl (immMaskStep deps) m

/-- the API call matching a buffered command, issued on the unlocked world from thread `t` -/
def immStep (info : CompId → CompInfo) (t : Nat) (w : WM) : Cmd → WM
  | .assign e c v => (w.assign info t e c v).1
  | .remove e c => (w.removeComp info t e c).1
  | .destroy e => w.destroy t e
  | _ => w

def immRun (info : CompId → CompInfo) (t : Nat) (w : WM) (cmds : List Cmd) : WM :=
  cmds.foldl (immStep info t) w

theorem immStep_mask (info : CompId → CompInfo) (t : Nat) (w : WM) (e : Handle) (m : Mask) (c : Cmd)
    (hul : w.isLocked = false) (hv : w.isValid e = true) (hn : e.id ≠ nullId) (hm : HasMask w e m)
    (hce : c.entity = e) :
    HasMask (immStep info t w c) e (immMaskStep w.deps m c) ∧ (immStep info t w c).isLocked = false ∧
    (immStep info t w c).isValid e = true ∧ (immStep info t w c).deps = w.deps := by
  rcases hm with ⟨pi, idx, hloc, hpi, rfl⟩
  cases c with
  | create _ _ _ => exact ⟨⟨pi, idx, hloc, hpi, rfl⟩, hul, hv, rfl⟩
  | destroyNow _ => exact ⟨⟨pi, idx, hloc, hpi, rfl⟩, hul, hv, rfl⟩
  | destroy h =>
    simp only [immStep, WM.destroy, hul, Bool.false_eq_true, if_false, immMaskStep]
    split
    · exact ⟨⟨pi, idx, hloc, hpi, rfl⟩, hul, hv, rfl⟩
    · exact ⟨⟨pi, idx, hloc, hpi, rfl⟩, hul, hv, rfl⟩
  | remove e' c =>
    have : e' = e := hce
    subst this
    obtain ⟨h1, h2⟩ := immediate_remove_mask info w t e' c pi idx hul hv hn hloc hpi
    exact ⟨h1, h2.isLocked.trans hul, (h2.isValid _).trans hv, h2.deps⟩
  | assign e' c v =>
    have : e' = e := hce
    subst this
    obtain ⟨h1, h2⟩ := immediate_assign_closed info w t e' c v pi idx hul hn hloc hpi
    exact ⟨h1, h2.isLocked.trans hul, (h2.isValid _).trans hv, h2.deps⟩

/-- the commands issued immediately, one after the other: the entity's archetype mask follows `immMask` -/
theorem immRun_mask (info : CompId → CompInfo) (t : Nat) (e : Handle) (hn : e.id ≠ nullId) :
    ∀ (l : List Cmd) (w : WM) (m : Mask), w.isLocked = false → w.isValid e = true → HasMask w e m →
      (∀ c ∈ l, c.entity = e) →
      HasMask (immRun info t w l) e (immMask w.deps m l) ∧ (immRun info t w l).isLocked = false ∧
      (immRun info t w l).isValid e = true ∧ (immRun info t w l).deps = w.deps := by
  intro l
  induction l with
  | nil => intro w m hul hv hm _; exact ⟨hm, hul, hv, rfl⟩
  | cons c l ih =>
    intro w m hul hv hm hent
    obtain ⟨h1, h2, h3, h4⟩ := immStep_mask info t w e m c hul hv hn hm (hent c (List.mem_cons_self ..))
    obtain ⟨k1, k2, k3, k4⟩ := ih (immStep info t w c) (immMaskStep w.deps m c) h2 h3 h1
      (fun d hd => hent d (List.mem_cons_of_mem _ hd))
    rw [h4] at k1
    exact ⟨k1, k2, k3, k4.trans h4⟩

/-- the one place where the immediate and the deferred semantics part: an `assign` of a component the entity
already has, issued while its mask is still the unclosed start mask. Excluded when the start mask is closed or
no assign in the list names a component of the start mask. -/
theorem immMask_eq_seqMask {deps : List (CompId × Mask)} (hb : DepsBounded deps) :
    ∀ (l : List Cmd) (m : Mask), Sorted m →
      (closedMask deps m = m ∨ ∀ e c v, Cmd.assign e c v ∈ l → c ∉ m) →
      immMask deps m l = seqMask deps m l := by
  intro l
  induction l with
  | nil => intro m _ _; rfl
  | cons c l ih =>
    intro m hs hre
    have hstep : immMaskStep deps m c = seqMaskStep deps m c := by
      cases c with
      | create _ _ _ => rfl
      | destroyNow _ => rfl
      | destroy _ => rfl
      | remove _ _ => rfl
      | assign e' x v =>
        simp only [immMaskStep, seqMaskStep]
        split
        · rename_i hx
          have hx' : x ∈ m := by simpa using hx
          rcases hre with h | h
          · rw [Mask.insert_of_mem hs hx', h]
          · exact absurd hx' (h e' x v (List.mem_cons_self ..))
        · rfl
    show immMask deps (immMaskStep deps m c) l = seqMask deps (seqMaskStep deps m c) l
    rw [hstep]
    refine ih _ (seqMaskStep_sorted deps hs c) ?_
    rcases seqMaskStep_shape deps hs c with h | ⟨x, hx, h⟩
    · rw [h]
      rcases hre with h' | h'
      · exact Or.inl h'
      · exact Or.inr (fun e' x v hmem => h' e' x v (List.mem_cons_of_mem _ hmem))
    · rw [h]; exact Or.inl (closedMask_idem hb hx)

/-- **deferred = immediate**: applying the pack at unlock gives the entity the same component set as issuing
the same commands immediately, one by one, on the same (unlocked) world — for every dependency table and every
sorted start mask `m`, closed or not, as long as no assign re-assigns a component of an unclosed `m`. -/
theorem deferred_eq_immediate (info : CompId → CompInfo) (t : Nat) (w : WM) (e : Handle) (pack : List Cmd)
    (pi idx : Nat) (hb : DepsBounded w.deps) (hul : w.isLocked = false) (hv : w.isValid e = true)
    (hn : e.id ≠ nullId) (hloc : w.locOf e = ⟨some pi, idx⟩) (hpi : pi < w.archs.length)
    (hs : Sorted (w.arch pi).mask) (hent : ∀ c ∈ pack, c.entity = e) (hp : ∀ c ∈ pack, plainCmd c = true)
    (hre : closedMask w.deps (w.arch pi).mask = (w.arch pi).mask ∨
      ∀ e' c v, Cmd.assign e' c v ∈ pack → c ∉ (w.arch pi).mask) :
    HasMask (w.applyPack info pack).1 e (seqMask w.deps (w.arch pi).mask pack) ∧
    HasMask (immRun info t w pack) e (seqMask w.deps (w.arch pi).mask pack) := by
  refine ⟨(deferred_pack_mask info w e pack pi idx hb hv hn hloc hpi hs hent hp).1, ?_⟩
  have h := (immRun_mask info t e hn pack w (w.arch pi).mask hul hv ⟨pi, idx, hloc, hpi, rfl⟩ hent).1
  rw [immMask_eq_seqMask hb pack _ hs hre] at h
  exact h

end Mustache.Proofs.PackMask

import Mustache.Proofs.RefineBuildNew
/-!
# Refinement: every operation except the flushing `unlock`, one theorem
-/
namespace Mustache.Proofs.Refine
open Mustache.Model Mustache.Spec
open Mustache.Proofs.IdTable (tabOf Ghost TInv)
open Mustache.Proofs.Rows

variable (info : CompId → CompInfo)

theorem query_refines {c : CW} {s : WS} (hi : Inv c) (hr : Rel c s) (op : Op Handle) (f : Bool) (g : Bool)
    (hstep : c.step info op = (c, .flag f, [])) (hs : s.step info (op.mapRef (ordOf c.issued)) = (s, .flag g, []))
    (hu : isUnlockOp op = false) (hfg : f = g) : StepRefines info c s op := by
  unfold StepRefines
  rw [hstep, hs]
  refine ⟨hi, hr, hfg, ?_⟩
  rw [hu]; simp [cbsAgree]

theorem isLocked_cases (w : WM) : w.isLocked = true ∨ w.isLocked = false := by
  cases w.isLocked <;> simp

/-- all operations but `unlock` -/
theorem step_refines_nonunlock {c : CW} {s : WS} (hi : Inv c) (hb : Bounds c) (hr : Rel c s) (op : Op Handle)
    (hwf : OpWf c op) (hb' : Bounds (c.step info op).1) (hnu : isUnlockOp op = false) : StepRefines info c s op := by
  cases op with
  | create t mask shared =>
    rcases isLocked_cases c.w with hl | hl
    · exact create_locked_refines info hi hr hl t mask shared hwf.1 hwf.2
    · exact create_unlocked_refines info hi hb hr hl t mask shared hwf.2 hb'
  | assign t e comp v =>
    rcases isLocked_cases c.w with hl | hl
    · have := hwf.2; rw [hl] at this; simp only [if_true] at this
      exact assign_locked_refines info hi hr hl t e comp v this
    · have := hwf.2; rw [hl] at this; simp only [Bool.false_eq_true, if_false] at this
      exact assign_unlocked_refines info hi hb hr hl t e comp v this.1 this.2
  | remove t e comp =>
    rcases isLocked_cases c.w with hl | hl
    · exact remove_locked_refines info hi hr hl t e comp (hwf.2 hl)
    · exact remove_unlocked_refines info hi hb hr hl t e comp
  | buildNew t adds =>
    rcases isLocked_cases c.w with hl | hl
    · exact buildNew_locked_refines info hi hr hl t adds hwf.1
    · exact buildNew_unlocked_refines info hi hb hr hl t adds hwf.2 hb'
  | build t e adds rems =>
    rcases isLocked_cases c.w with hl | hl
    · have := hwf.2.2; rw [hl] at this; simp only [if_true] at this
      exact build_locked_refines info hi hr hl t e adds rems this
    · have := hwf.2.2; rw [hl] at this; simp only [Bool.false_eq_true, if_false] at this
      exact build_unlocked_refines info hi hb hr hl t e adds rems this.1 hwf.2.1 this.2
  | destroy t e =>
    rcases isLocked_cases c.w with hl | hl
    · exact destroy_locked_refines info hi hr hl t e (hwf.2 hl)
    · exact destroy_unlocked_refines info hi hb hr hl t e
  | destroyNow t e =>
    rcases isLocked_cases c.w with hl | hl
    · exact destroyNow_locked_refines info hi hr hl t e (hwf.2 hl)
    · exact destroyNow_unlocked_refines info hi hb hr hl t e
  | clone e => exact clone_refines info hi hb hr hwf e hb'
  | sassign e sid v => exact sassign_refines info hi hb hr e sid v hwf.2
  | sremove e sid => exact sremove_refines info hi hb hr e sid
  | clearArch mask => exact clearArch_refines info hi hb hr hwf.1 mask hwf.2
  | update =>
    rcases isLocked_cases c.w with hl | hl
    · exact update_locked_refines info hi hr hl
    · exact update_unlocked_refines info hi hb hr hl
  | lock => exact lock_refines info hi hr
  | unlock => cases hnu
  | dep comp extra => exact dep_refines info hi hr comp extra hwf
  | valid e =>
    exact query_refines info hi hr _ _ _ rfl rfl rfl (valid_refines hi hb hr e)
  | has e comp =>
    exact query_refines info hi hr _ _ _ rfl rfl rfl (has_refines hi hb hr e comp)
  | hasShared e sid =>
    exact query_refines info hi hr _ _ _ rfl rfl rfl (hasShared_refines hi hb hr e sid)
  | get e comp =>
    unfold StepRefines
    have hstep : c.step info (.get e comp) = (c, .val (c.w.getComp e comp), []) := rfl
    rw [hstep]
    refine ⟨hi, hr, get_refines hi hb hr e comp, ?_⟩
    simp [isUnlockOp, cbsAgree, Op.mapRef, WS.step]
  | archOf e =>
    unfold StepRefines
    have hstep : c.step info (.archOf e) = (c, .arch (c.w.archOf e).isSome, []) := rfl
    rw [hstep]
    refine ⟨hi, hr, archOf_refines hi hb hr e, ?_⟩
    simp [isUnlockOp, cbsAgree, Op.mapRef, WS.step]

end Mustache.Proofs.Refine

import Mustache.Proofs.RefineMoved
/-!
# Refinement, stage (c): unlocked `assign`
-/
namespace Mustache.Proofs.Refine
open Mustache.Model Mustache.Spec
open Mustache.Proofs.IdTable (tabOf Ghost TInv)
open Mustache.Proofs.Rows

variable (info : CompId → CompInfo)

theorem storedOf_none (comp : CompId) : storedOf info comp none = defaultVal info comp := by
  unfold storedOf defaultVal
  cases (info comp).fixed <;> rfl

theorem compSet_of_rel {ent : SEnt} {pm : Mask} {vals : List Val} (h : ent.comps = pm.zip vals)
    (hl : vals.length = pm.length) : compSet ent = pm := by
  unfold compSet; rw [h]; exact map_fst_zip_eq hl

theorem contains_false_iff {m : Mask} {c : CompId} : m.contains c = false ↔ c ∉ m := by
  simp

/-- the row `assign` leaves behind -/
def assignVals (pm tm : Mask) (prow : Row) (comp : CompId) (v : Option Nat) : List Val :=
  match v with
  | some _ => (carry info tm pm prow (Mask.insert pm comp)).set (tm.idxOf comp) (storedOf info comp v)
  | none => carry info tm pm prow []

theorem assignVals_length (pm tm : Mask) (prow : Row) (comp : CompId) (v : Option Nat) :
    (assignVals info pm tm prow comp v).length = tm.length := by
  cases v <;> simp [assignVals, carry_length]

/-- values of the row `assign` leaves behind, component by component -/
theorem assign_vals (pm tm : Mask) (prow : Row) (comp : CompId) (v : Option Nat)
    (hcomp : comp ∉ pm) (hct : comp ∈ tm) (x : CompId) (hx : x ∈ tm) :
    (assignVals info pm tm prow comp v).getD (tm.idxOf x) none =
    if x ∈ pm then prow.vals.getD (pm.idxOf x) none
    else if x = comp then storedOf info comp v else defaultVal info x := by
  unfold assignVals
  cases v with
  | none =>
    simp only
    rw [carry_get info tm pm prow [] x hx]
    by_cases hxp : x ∈ pm
    · rw [if_pos hxp, carried_of_mem info pm prow [] x hxp]
    · rw [if_neg hxp, carried_of_not_mem info pm prow [] x hxp]
      simp only [List.contains_nil, Bool.false_eq_true, if_false]
      by_cases hxc : x = comp
      · rw [if_pos hxc, hxc, storedOf_none]
      · rw [if_neg hxc]
  | some tok =>
    simp only
    by_cases hxc : x = comp
    · subst hxc
      rw [if_neg hcomp, if_pos rfl]
      have hlt : tm.idxOf x < (carry info tm pm prow (Mask.insert pm x)).length := by
        rw [carry_length]; exact (indexOf?_of_mem hx).2.1
      simp [List.getD_eq_getElem?_getD, List.getElem?_set, hlt]
    · have hne : tm.idxOf comp ≠ tm.idxOf x := idxOf_ne hct hx (Ne.symm hxc)
      rw [List.getD_eq_getElem?_getD, List.getElem?_set_ne hne, ← List.getD_eq_getElem?_getD,
        carry_get info tm pm prow _ x hx]
      by_cases hxp : x ∈ pm
      · rw [if_pos hxp, carried_of_mem info pm prow _ x hxp]
      · rw [if_neg hxp, if_neg hxc, carried_of_not_mem info pm prow _ x hxp]
        have : (Mask.insert pm comp).contains x = false := by
          rw [contains_false_iff, mem_insert]
          exact fun h => h.elim hxc hxp
        rw [this]; rfl

/-- the spec's `rebuild` for an assignment, component by component -/
theorem assign_specPair (pm : Mask) (pvals : List Val) (hl : pvals.length = pm.length) (comp : CompId) (sv : Val)
    (x : CompId) :
    specPair info (pm.zip pvals) [(comp, sv)] x =
      (x, if x ∈ pm then pvals.getD (pm.idxOf x) none else if x = comp then sv else defaultVal info x) := by
  unfold specPair
  by_cases hxp : x ∈ pm
  · rw [find_zip_some hl hxp, if_pos hxp]
  · rw [find_zip_none hxp, if_neg hxp]
    by_cases hxc : x = comp
    · subst hxc; simp
    · have : (comp == x) = false := by simpa using (Ne.symm hxc)
      simp [List.find?_cons, this, hxc]

/-- the components whose `afterAssign` fires: those the move constructs, plus the assigned one -/
theorem assign_cb_list (pm tm : Mask) (comp : CompId) (v : Option Nat) (hn : tm.Nodup) (hct : comp ∈ tm)
    (hcomp : comp ∉ pm) :
    (tm.filter (fun c => !pm.contains c && (info c).callbacks &&
        !(if v.isSome then Mask.insert pm comp else []).contains c) ++
      (if (info comp).callbacks && v.isSome then [comp] else [])).Perm
    (tm.filter (fun c => (info c).callbacks && !pm.contains c)) := by
  cases v with
  | none =>
    simp only [Option.isSome_none, Bool.false_eq_true, if_false, Bool.and_false, List.append_nil]
    rw [List.filter_congr (q := fun c => (info c).callbacks && !pm.contains c)]
    intro c _
    simp [Bool.and_comm]
  | some tok =>
    simp only [Option.isSome_some, if_true, Bool.and_true]
    have hsplit := filter_split_perm hn (fun c => (info c).callbacks && !pm.contains c) hct
    have hpc : ((info comp).callbacks && !pm.contains comp) = (info comp).callbacks := by
      rw [contains_false_iff.mpr hcomp]; simp
    simp only [hpc] at hsplit
    refine List.Perm.trans ?_ hsplit.symm
    rw [List.filter_congr (q := fun c => ((info c).callbacks && !pm.contains c) && c != comp)]
    intro c _
    have : (Mask.insert pm comp).contains c = (c == comp || pm.contains c) := by
      rw [Bool.eq_iff_iff]
      simp only [List.contains_iff_mem, Bool.or_eq_true, beq_iff_eq, mem_insert]
    rw [this]
    simp only [bne]
    cases pm.contains c <;> cases (info c).callbacks <;> cases c == comp <;> rfl

theorem filter_none_of_subset {pm tm : Mask} (hsub : ∀ x ∈ pm, x ∈ tm) :
    pm.filter (fun c => (info c).callbacks && !tm.contains c) = [] := by
  rw [List.filter_eq_nil_iff]
  intro c hc
  have := hsub c hc
  simp [this]

theorem unlocked_spec {c : CW} {s : WS} (hr : Rel c s) (hl : c.w.isLocked = false) : ¬ (s.lockDepth > 0) := by
  rw [hr.lockDepth]
  intro h
  have := (isLocked_iff c.w).mpr h
  rw [hl] at this; cases this

theorem assign_unlocked_refines {c : CW} {s : WS} (hi : Inv c) (hb : Bounds c) (hr : Rel c s)
    (hl : c.w.isLocked = false) (t : Nat) (e : Handle) (comp : CompId) (v : Option Nat)
    (hv : c.w.isValid e = true) (hnc : c.w.hasComp e comp = false) :
    StepRefines info c s (.assign t e comp v) := by
  obtain ⟨w, iss⟩ := c
  have hl2 : w.isLocked = false := hl
  have hv2 : w.isValid e = true := hv
  rcases rel_cases hi hb hr e with ⟨hinv, _⟩ | ⟨_, k, pi, i, prow, ent, hord, hk, hrow, hent, hloc, hal, hrel⟩
  · rw [hv] at hinv; cases hinv
  have hord2 : ordOf iss e = some k := hord
  have hk2 : iss[k]? = some e := hk
  have hrow2 : (w.arch pi).rows[i]? = some prow := hrow
  have hloc2 : w.locOf e = ⟨some pi, i⟩ := hloc
  have hidx : (w.locOf e).idx = i := by rw [hloc2]
  have hpi : pi < w.archs.length := lt_of_row hrow2
  have hpm : MaskOk (w.arch pi).mask := hi.keys.masks pi hpi
  have hcomp : comp ∉ (w.arch pi).mask := by
    have := hnc
    rw [show (⟨w, iss⟩ : CW).w = w from rfl, hasComp_of_loc hloc2, hv2, Bool.true_and] at this
    exact contains_false_iff.mp this
  have hplen : prow.vals.length = (w.arch pi).mask.length := hi.rows.vals pi i prow hrow2
  -- the model side
  have hla' : w.locOf e = ⟨some pi, (w.locOf e).idx⟩ := by rw [hloc2]
  rcases assign_unlocked info hi.rows t e comp v hl2 pi prow hla' (by rw [hidx]; exact hrow2) hent _ rfl with
    ⟨hti, _⟩ | ⟨hti, w2, cbs, hsome, hm, hmask, hshd, hres, hfst⟩
  · -- "to itself": impossible, the entity lacks the component
    exfalso
    have hkey := (getArch_key w (Mask.insert (w.arch pi).mask comp) (w.arch pi).shared).1
    rw [hti, getArch_arch_lt w _ _ pi hpi] at hkey
    exact hcomp (hkey ▸ subset_closedMask ((mem_insert _ _ _).mpr (Or.inl rfl)))
  -- names
  generalize hmdef : Mask.insert (w.arch pi).mask comp = m at *
  generalize htmdef : closedMask w.deps m = tm at *
  have hmok : MaskOk m := by rw [← hmdef]; exact maskOk_insert hpm comp
  have htmok : MaskOk tm := by rw [← htmdef]; exact maskOk_closedMask w.deps hmok
  have hct : comp ∈ tm := by
    rw [← htmdef]; exact subset_closedMask (by rw [← hmdef]; exact (mem_insert _ _ _).mpr (Or.inl rfl))
  have hsub : ∀ x ∈ (w.arch pi).mask, x ∈ tm := by
    intro x hx
    rw [← htmdef]; exact subset_closedMask (by rw [← hmdef]; exact (mem_insert _ _ _).mpr (Or.inr hx))
  have hidxc : tm.indexOf? comp = some (tm.idxOf comp) := (indexOf?_of_mem hct).1
  -- callbacks of the move
  have hcbs : cbs = moveCbs info (w.getArch m (w.arch pi).shared).1 (w.getArch m (w.arch pi).shared).2 e pi
        (if v.isSome then m else []) ++
      ((w.getArch m (w.arch pi).shared).1.archRemove info pi (w.locOf e).idx
        ((w.getArch m (w.arch pi).shared).1.arch (w.getArch m (w.arch pi).shared).2).mask).2 := by
    have := externalMove_eq2 info (w.getArch m (w.arch pi).shared).1 (w.getArch m (w.arch pi).shared).2 e pi
      (w.locOf e).idx (if v.isSome then m else []) hti
    rw [hsome] at this
    exact (Prod.mk.inj (Option.some.inj this)).2
  have hw1pi : (w.getArch m (w.arch pi).shared).1.arch pi = w.arch pi := getArch_arch_lt w _ _ pi hpi
  have hw1ti : ((w.getArch m (w.arch pi).shared).1.arch (w.getArch m (w.arch pi).shared).2).mask = tm := by
    rw [← htmdef]; exact (getArch_key w m (w.arch pi).shared).1
  generalize hw1def : (w.getArch m (w.arch pi).shared).1 = w1 at *
  generalize htidef : (w.getArch m (w.arch pi).shared).2 = ti at *
  -- the moved row
  have hmv : Moved w (w.assign info t e comp v).1 e ti (assignVals info (w.arch pi).mask tm prow comp v) := by
    rw [hfst, hidxc]
    unfold assignVals
    rw [hmdef]
    cases v with
    | none => simpa using hm
    | some tok => simpa using hm.setCell (tm.idxOf comp) (storedOf info comp (some tok))
  have hks : KeysSame w1 (w.assign info t e comp v).1 := by
    have h1 : KeysSame w1 w2 := externalMove_keysSame info w1 ti e pi _ _ (w2, cbs) hsome
      (by rw [← hw1def, ← htidef]; exact getArch_idx_lt w m (w.arch pi).shared)
    rw [hfst, hidxc]
    cases v with
    | none => exact h1
    | some tok => exact h1.trans (setCell_keysSame w2 ti _ _ _)
  have hshin : SharedIn w.pool (w.arch pi).shared := hi.shared _ (arch_mem hpi)
  have hinv' : Inv ⟨(w.assign info t e comp v).1, iss⟩ :=
    moved_inv (m := m) (sh := (w.arch pi).shared) hi hv2 hshin hmv (by rw [hw1def]; exact hks)
  have hpool' : (w.assign info t e comp v).1.pool = w.pool := hmv.same.pool
  have htilt : ti < (w.assign info t e comp v).1.archs.length := by
    rcases hmv.here with ⟨n, _, hr'⟩; exact lt_of_row hr'
  have hsh' : SharedIn w.pool ((w.assign info t e comp v).1.arch ti).shared := by
    have := hinv'.shared _ (arch_mem htilt)
    rw [← hpool']; exact this
  have hkey' : ((w.assign info t e comp v).1.arch ti).mask = tm ∧
      ((w.assign info t e comp v).1.arch ti).shared.data = (w.arch pi).shared.data := by
    rw [(hks.key ti).1, (hks.key ti).2, hw1ti]
    refine ⟨rfl, ?_⟩
    rw [← hw1def, ← htidef]; exact (getArch_key w m (w.arch pi).shared).2
  -- the spec side
  have hcs : compSet ent = (w.arch pi).mask := compSet_of_rel hrel.1 hplen
  have hdeps : s.deps = w.deps := hr.deps
  have hafter : closed s.deps (Mask.insert (w.arch pi).mask comp) = tm := by
    rw [hdeps, hmdef, ← htmdef]; rfl
  have hnl := unlocked_spec hr hl
  have hncs : (w.arch pi).mask.contains comp = false := contains_false_iff.mpr hcomp
  have hs : s.step info (Op.mapRef (ordOf iss) (.assign t e comp v)) =
      (s.setEnt k (some { ent with comps := rebuild info ent.comps tm [(comp, storedVal info comp v)] }), .ok,
        cbDiff info k (w.arch pi).mask tm) := by
    simp only [Op.mapRef, WS.step, hnl, if_false, hord2, WS.doAssign, hal, hncs, Bool.false_eq_true, hafter, hcs]
  have hcomps : (rebuild info ent.comps tm [(comp, storedVal info comp v)]) =
      ((w.assign info t e comp v).1.arch ti).mask.zip (assignVals info (w.arch pi).mask tm prow comp v) := by
    rw [hkey'.1]
    symm
    apply zip_eq_rebuild info (maskOk_nodup htmok) (assignVals_length info _ _ _ _ _)
    intro x hx
    rw [hrel.1, assign_specPair info _ _ hplen, assign_vals info _ _ _ _ _ hcomp hct x hx]
    rfl
  have hrel' := moved_rel (sh := (w.arch pi).shared) hi hr hk2 hv2 hshin hmv hsh' hkey'.2
    { ent with comps := rebuild info ent.comps tm [(comp, storedVal info comp v)] } hcomps (fun sid => hrel.2 sid)
  -- the model step
  have hcb2 : (w.assign info t e comp v).2.2 =
      cbs ++ (if (info comp).callbacks && v.isSome then [Cb.assign comp e] else []) := by
    have hla2 : (w.locOf e).arch = some pi := by rw [hloc2]
    unfold WM.assign
    simp only [hl2, Bool.false_eq_true, if_false, hla2, hmdef, hw1def, htidef]
    rw [hsome]
  have hstep : CW.step info ⟨w, iss⟩ (.assign t e comp v) =
      (⟨(w.assign info t e comp v).1, iss⟩, .ok,
        cbs ++ (if (info comp).callbacks && v.isSome then [Cb.assign comp e] else [])) := by
    simp only [CW.step, WM.step, hres, resOut, issueOut, hcb2]
  unfold StepRefines
  rw [hstep, hs]
  refine ⟨hinv', hrel', trivial, ?_⟩
  simp only [isUnlockOp, Bool.false_eq_true, if_false]
  -- callbacks
  have hrow1 : (w1.arch pi).rows[(w.locOf e).idx]? = some prow := by rw [hw1pi, hidx]; exact hrow2
  have hrem : (w1.archRemove info pi (w.locOf e).idx (w1.arch ti).mask).2 = [] := by
    rw [archRemove_cbs info w1 pi _ _ prow hrow1, hw1pi, hw1ti, filter_none_of_subset info hsub]; rfl
  have hcbs' : cbs ++ (if (info comp).callbacks && v.isSome then [Cb.assign comp e] else []) =
      ((tm.filter (fun c => !(w.arch pi).mask.contains c && (info c).callbacks &&
          !(if v.isSome then Mask.insert (w.arch pi).mask comp else []).contains c)) ++
        (if (info comp).callbacks && v.isSome then [comp] else [])).map (Cb.assign · e) := by
    rw [hcbs, hrem, List.append_nil, moveCbs, hw1pi, hw1ti, List.map_append, hmdef]
    congr 1
    split <;> rfl
  unfold cbsAgree
  rw [hcbs', cbAbs_assign_map hord2]
  have hd : cbDiff info k (w.arch pi).mask tm =
      (tm.filter (fun c => (info c).callbacks && !(w.arch pi).mask.contains c)).map (fun x => ((true, x, k) : SCb)) := by
    unfold cbDiff
    rw [filter_none_of_subset info hsub]; simp
  rw [hd]
  exact ((assign_cb_list info _ tm comp v (maskOk_nodup htmok) hct hcomp).map _).map _

end Mustache.Proofs.Refine

import Mustache.Proofs.RefineDefs
/-!
# Refinement: basic lemmas (ordinal map, pointwise list relation, abstraction of an entity)
-/
namespace Mustache.Proofs.Refine
open Mustache.Model Mustache.Spec
open Mustache.Proofs.IdTable (tabOf Ghost TInv)
open Mustache.Proofs.Rows

theorem snoc_induction {α : Type} {P : List α → Prop} (h0 : P [])
    (hs : ∀ (l : List α) (x : α), P l → P (l ++ [x])) : ∀ l, P l := by
  intro l
  have h : ∀ r : List α, P r.reverse := by
    intro r
    induction r with
    | nil => exact h0
    | cons a r ih => rw [List.reverse_cons]; exact hs _ _ ih
  simpa using h l.reverse

/-! ## `ordOf` -/

theorem ordGo_append (h : Handle) (l : List Handle) (x : Handle) (i : Nat) (acc : Option Nat) :
    ordGo h (l ++ [x]) i acc = if x = h then some (i + l.length) else ordGo h l i acc := by
  induction l generalizing i acc with
  | nil => simp [ordGo]
  | cons y ys ih =>
    simp only [List.cons_append, ordGo, ih, List.length_cons]
    have : i + 1 + ys.length = i + (ys.length + 1) := by omega
    rw [this]

theorem ordOf_nil (h : Handle) : ordOf [] h = none := rfl

theorem ordOf_snoc (l : List Handle) (x h : Handle) :
    ordOf (l ++ [x]) h = if x = h then some l.length else ordOf l h := by
  unfold ordOf
  rw [ordGo_append]
  simp

/-- the ordinal `ordOf` returns names the handle -/
theorem ordOf_some {l : List Handle} {h : Handle} {k : Nat} (hk : ordOf l h = some k) : l[k]? = some h := by
  induction l using snoc_induction generalizing k with
  | h0 => simp [ordOf_nil] at hk
  | hs l x ih =>
    rw [ordOf_snoc] at hk
    by_cases hx : x = h
    · rw [if_pos hx] at hk
      cases hk
      simp [hx]
    · rw [if_neg hx] at hk
      have := ih hk
      have hlt : k < l.length := (List.getElem?_eq_some_iff.mp this).1
      rw [List.getElem?_append_left hlt]
      exact this

theorem ordOf_lt {l : List Handle} {h : Handle} {k : Nat} (hk : ordOf l h = some k) : k < l.length :=
  (List.getElem?_eq_some_iff.mp (ordOf_some hk)).1

theorem ordOf_none_iff (l : List Handle) (h : Handle) : ordOf l h = none ↔ h ∉ l := by
  induction l using snoc_induction with
  | h0 => simp [ordOf_nil]
  | hs l x ih =>
    rw [ordOf_snoc]
    by_cases hx : x = h
    · simp [hx]
    · rw [if_neg hx, ih]
      simp [Ne.symm hx]

theorem ordOf_isSome_iff (l : List Handle) (h : Handle) : (ordOf l h).isSome = true ↔ h ∈ l := by
  cases ho : ordOf l h with
  | none => simp [(ordOf_none_iff l h).mp ho]
  | some k =>
    simp only [Option.isSome_some, true_iff]
    exact List.mem_of_getElem? (ordOf_some ho)

/-- under the C01 fact that issued handles are pairwise distinct, `ordOf` is THE ordinal of the handle -/
theorem ordOf_unique {l : List Handle} (hn : l.Nodup) {h : Handle} {k : Nat} (hk : l[k]? = some h) :
    ordOf l h = some k := by
  cases ho : ordOf l h with
  | none =>
    exact absurd (List.mem_of_getElem? hk) ((ordOf_none_iff l h).mp ho)
  | some j =>
    have hj := ordOf_some ho
    have hj1 := (List.getElem?_eq_some_iff.mp hj).1
    have := (List.getElem?_inj hj1 hn).mp (hj.trans hk.symm)
    rw [this]

theorem ordOf_eq_iff {l : List Handle} (hn : l.Nodup) (h : Handle) (k : Nat) :
    ordOf l h = some k ↔ l[k]? = some h :=
  ⟨ordOf_some, ordOf_unique hn⟩

/-- appending a handle leaves the ordinal of every OTHER handle alone -/
theorem ordOf_snoc_ne (l : List Handle) {x h : Handle} (hne : x ≠ h) : ordOf (l ++ [x]) h = ordOf l h := by
  rw [ordOf_snoc, if_neg hne]

theorem ordOf_snoc_self (l : List Handle) (x : Handle) : ordOf (l ++ [x]) x = some l.length := by
  rw [ordOf_snoc, if_pos rfl]

/-! ## `All2` -/

theorem All2.length {α β : Type} {R : α → β → Prop} {l : List α} {m : List β} (h : All2 R l m) :
    l.length = m.length := by
  induction h with
  | nil => rfl
  | cons _ _ ih => simp [ih]

theorem All2.mono {α β : Type} {R S : α → β → Prop} {l : List α} {m : List β} (h : All2 R l m)
    (hrs : ∀ a ∈ l, ∀ b, R a b → S a b) : All2 S l m := by
  induction h with
  | nil => exact .nil
  | cons hr _ ih =>
    exact .cons (hrs _ (by simp) _ hr) (ih (fun a ha b hab => hrs a (by simp [ha]) b hab))

theorem All2.append {α β : Type} {R : α → β → Prop} {l l' : List α} {m m' : List β} (h : All2 R l m)
    (h' : All2 R l' m') : All2 R (l ++ l') (m ++ m') := by
  induction h with
  | nil => exact h'
  | cons hr _ ih => exact .cons hr ih

theorem All2.get {α β : Type} {R : α → β → Prop} {l : List α} {m : List β} (h : All2 R l m) (i : Nat)
    {a : α} (ha : l[i]? = some a) : ∃ b, m[i]? = some b ∧ R a b := by
  induction h generalizing i with
  | nil => simp at ha
  | cons hr _ ih =>
    cases i with
    | zero => simp at ha; subst ha; exact ⟨_, by simp, hr⟩
    | succ i => simp at ha ⊢; exact ih i ha

theorem All2.getD {α β : Type} {R : α → β → Prop} {l : List α} {m : List β} (h : All2 R l m) (i : Nat)
    (da : α) (db : β) (hd : R da db) : R (l.getD i da) (m.getD i db) := by
  induction h generalizing i with
  | nil => simpa using hd
  | cons hr _ ih =>
    cases i with
    | zero => simpa using hr
    | succ i => simpa using ih i

theorem All2.set {α β : Type} {R : α → β → Prop} {l : List α} {m : List β} (h : All2 R l m) (i : Nat)
    {a : α} {b : β} (hab : R a b) : All2 R (l.set i a) (m.set i b) := by
  induction h generalizing i with
  | nil => exact .nil
  | cons hr ht ih =>
    cases i with
    | zero => exact .cons hab ht
    | succ i => exact .cons hr (ih i)

theorem All2.replicate {α β : Type} {R : α → β → Prop} {a : α} {b : β} (hab : R a b) (n : Nat) :
    All2 R (List.replicate n a) (List.replicate n b) := by
  induction n with
  | zero => exact .nil
  | succ n ih => exact .cons hab ih

theorem All2.map {α β γ δ : Type} {R : α → β → Prop} {S : γ → δ → Prop} {l : List α} {m : List β}
    (h : All2 R l m) (f : α → γ) (g : β → δ) (hfg : ∀ a b, R a b → S (f a) (g b)) :
    All2 S (l.map f) (m.map g) := by
  induction h with
  | nil => exact .nil
  | cons hr _ ih => exact .cons (hfg _ _ hr) ih

theorem All2.of_forall {α β : Type} {R : α → β → Prop} : ∀ {l : List α} {m : List β},
    l.length = m.length → (∀ (i : Nat) a b, l[i]? = some a → m[i]? = some b → R a b) → All2 R l m
  | [], [], _, _ => .nil
  | [], _ :: _, h, _ => by simp at h
  | _ :: _, [], h, _ => by simp at h
  | a :: l, b :: m, h, hr =>
    .cons (hr 0 a b (by simp) (by simp))
      (All2.of_forall (by simpa using h) (fun i x y hx hy => hr (i + 1) x y (by simpa using hx) (by simpa using hy)))

/-! ## lookups -/

theorem lookupS_nil (sid : Nat) : lookupS [] sid = none := rfl

theorem optRel_none_left {b : Option SEnt} : optRel none b ↔ b = none := by
  cases b <;> simp [optRel]

theorem optRel_none_right {a : Option SEnt} : optRel a none ↔ a = none := by
  cases a <;> simp [optRel]

theorem optRel_some_right {a : Option SEnt} {b : SEnt} : optRel a (some b) ↔ ∃ x, a = some x ∧ entRel x b := by
  cases a <;> simp [optRel]

theorem optRel_isSome {a b : Option SEnt} (h : optRel a b) : a.isSome = b.isSome := by
  cases a <;> cases b <;> simp_all [optRel]

theorem entRel_refl (a : SEnt) : entRel a a := ⟨rfl, fun _ => rfl⟩

theorem entRel.trans {a b c : SEnt} (h₁ : entRel a b) (h₂ : entRel b c) : entRel a c :=
  ⟨h₁.1.trans h₂.1, fun sid => (h₁.2 sid).trans (h₂.2 sid)⟩

theorem entRel.symm {a b : SEnt} (h : entRel a b) : entRel b a := ⟨h.1.symm, fun sid => (h.2 sid).symm⟩

theorem optRel.trans {a b c : Option SEnt} (h₁ : optRel a b) (h₂ : optRel b c) : optRel a c := by
  cases a <;> cases b <;> cases c <;> simp_all [optRel]
  exact h₁.trans h₂

theorem optRel_refl (a : Option SEnt) : optRel a a := by
  cases a <;> simp [optRel, entRel_refl]

/-! ## `absEnt` -/

theorem absEnt_invalid {w : WM} {h : Handle} (hv : w.isValid h = false) : absEnt w h = none := by
  simp [absEnt, hv]

theorem absEnt_of_row {w : WM} {h : Handle} {ai i : Nat} {r : Row} (hv : w.isValid h = true)
    (hl : w.locOf h = ⟨some ai, i⟩) (hr : (w.arch ai).rows[i]? = some r) :
    absEnt w h = some ⟨(w.arch ai).mask.zip r.vals, absShared w.pool (w.arch ai).shared⟩ := by
  simp [absEnt, hv, hl, List.getD_eq_getElem?_getD, hr]

theorem absEnt_isSome_of_valid {w : WM} (hl : LiveInv w) (hok : RowsOK w) {h : Handle} (hv : w.isValid h = true) :
    ∃ ai i r, (w.arch ai).rows[i]? = some r ∧ r.ent = h ∧ w.locOf h = ⟨some ai, i⟩ ∧
      absEnt w h = some ⟨(w.arch ai).mask.zip r.vals, absShared w.pool (w.arch ai).shared⟩ := by
  rcases hl.live_in h hv with ⟨ai, i, r, hr, rfl⟩
  exact ⟨ai, i, r, hr, rfl, hok.locOf hr, absEnt_of_row hv (hok.locOf hr) hr⟩

theorem absEnt_isSome_iff {w : WM} (hl : LiveInv w) (hok : RowsOK w) (h : Handle) :
    (absEnt w h).isSome = w.isValid h := by
  cases hv : w.isValid h with
  | false => simp [absEnt_invalid hv]
  | true =>
    rcases absEnt_isSome_of_valid hl hok hv with ⟨_, _, _, _, _, _, he⟩
    simp [he]

end Mustache.Proofs.Refine

import Mustache.Proofs.RefineDestroy
/-!
# Refinement: an unlocked operation that brings a new entity into being (`create`, `clone`, builder creation)
-/
namespace Mustache.Proofs.Refine
open Mustache.Model Mustache.Spec
open Mustache.Proofs.IdTable (tabOf Ghost TInv valid_iff_live_any isValid_tab Chain)
open Mustache.Proofs.Rows

variable (info : CompId → CompInfo)

/-- the relation carried over to a model state in which every issued handle reads the same -/
theorem rel_transfer {w w' : WM} {iss : List Handle} {s : WS} (hi : Inv ⟨w, iss⟩) (hr : Rel ⟨w, iss⟩ s)
    (habs : ∀ h ∈ iss, absEnt w' h = absEnt w h) (hval : ∀ h ∈ w.marked, w'.isValid h = w.isValid h)
    (hext : PoolExt w.pool w'.pool) (hdeps : w'.deps = w.deps) (hld : w'.lockDepth = w.lockDepth)
    (hnt : w'.nthreads = w.nthreads) (hbuf : w'.buffers = w.buffers) (hmk : w'.marked = w.marked) :
    Rel ⟨w', iss⟩ s :=
  { len := hr.len
    ents := fun o h ho => by
      show optRel (s.alive o) (absEnt w' h)
      rw [habs h (List.mem_of_getElem? ho)]
      exact hr.ents o h ho
    deps := hr.deps.trans hdeps.symm
    lockDepth := hr.lockDepth.trans hld.symm
    nthreads := hr.nthreads.trans hnt.symm
    buffers := by
      show All2 (All2 (cmdRel iss w'.pool)) w'.buffers s.buffers
      rw [hbuf]
      refine hr.buffers.mono ?_
      intro b hb sb hbb
      refine hbb.mono ?_
      intro cmd hc sc hcs
      exact cmdRel_ext hext (hi.bufKnown b hb cmd hc).2 hcs
    marked := by
      intro o
      show _ ↔ ∃ h ∈ w'.marked, w'.isValid h = true ∧ ordOf iss h = some o
      rw [hmk, hr.marked o]
      constructor
      · rintro ⟨h, hm, hv, ho⟩; exact ⟨h, hm, (hval h hm).trans hv, ho⟩
      · rintro ⟨h, hm, hv, ho⟩; exact ⟨h, hm, (hval h hm).symm.trans hv, ho⟩
    markedLt := hr.markedLt
    markedNodup := hr.markedNodup
    markedOld := by
      intro o ho h hh
      show h ∉ createHandles w'.buffers
      rw [hbuf]; exact hr.markedOld o ho h hh }

theorem unlocked_depth {w : WM} (hl : w.isLocked = false) : w.lockDepth = 0 := by
  cases h : w.lockDepth with
  | zero => rfl
  | succ n => have := (isLocked_iff w).mpr (by omega); rw [hl] at this; cases this

/-- a new entity `h` (the handle `allocId` hands out) owns a row of `w'`; everything else as in `w` -/
theorem born_refines {w : WM} {iss : List Handle} {s : WS} (hi : Inv ⟨w, iss⟩) (hr : Rel ⟨w, iss⟩ s)
    (hl : w.isLocked = false) {w' : WM} {h : Handle} {ai : Nat} {vals : List Val}
    (htab : tabOf w' = ((tabOf w).alloc).1) (hh : h = ((tabOf w).alloc).2)
    (hs : Step w w' h.id) (ho : Owns w' h ai vals) (hfresh : NotInRow w h.id)
    (hsh' : SharedPooled w')
    (hctl : SameCtl w w') (hmk : w'.marked = w.marked) (hcov : w'.slots.length ≤ w'.locs.length)
    (hb' : Bounds ⟨w', iss ++ [h]⟩) (x : SEnt) (hx : optRel (some x) (absEnt w' h)) :
    Inv ⟨w', iss ++ [h]⟩ ∧ Rel ⟨w', iss ++ [h]⟩ { s with ents := s.ents ++ [some x] } := by
  have hd0 : w.lockDepth = 0 := unlocked_depth hl
  rcases hi.tinv with ⟨g, tinv, hiss, hpend⟩
  have hpnil : g.pending = [] := pending_nil_of_unlocked (c := ⟨w, iss⟩) hi hd0 hpend
  have halloc := Mustache.Proofs.IdTable.alloc_inv tinv hpnil (show (tabOf w).lockDepth = 0 from hd0)
  rw [← hh, ← htab] at halloc
  have htinv' := halloc.1
  have hnew : h ∉ iss := by
    intro hin
    exact halloc.2.not_issued (by rw [hiss]; exact List.mem_reverse.mpr hin)
  have hworld : h.world = w.worldId := by
    have := htinv'.world h (by show h ∈ h :: g.issued; simp)
    rw [htab] at this
    have hw : ((tabOf w).alloc).1.worldId = w.worldId := by
      unfold Tab.alloc; split
      · rfl
      · split <;> rfl
    exact this.trans hw
  have hnn : h ≠ Handle.null := by
    intro e
    have := hb'.noWrap h (by simp)
    rw [e] at this
    simp [Handle.null] at this
  have hsub : ∀ y ∈ iss, y ∈ iss ++ [h] := fun y hy => List.mem_append_left _ hy
  have hwid : w'.worldId = w.worldId := hctl.worldId
  have hch0 : createHandles w.buffers = [] := createHandles_of_empty (hi.bufEmpty hd0)
  have hpool' : PoolInv w' := by
    constructor
    · rw [hctl.pool]; exact hi.pool.vals_nodup
    · rw [hctl.pool]; exact hi.pool.insts_nodup
    · rw [hctl.pool, hctl.nextInst]; exact hi.pool.inst_lt
    · rw [hctl.pool]; exact hi.pool.inst_sid
  have hinv' : Inv ⟨w', iss ++ [h]⟩ :=
    { tinv := ⟨g.create h, htinv', by show h :: g.issued = (iss ++ [h]).reverse; rw [hiss]; simp,
        fun y => by show y ∈ g.pending ↔ y ∈ createHandles w'.buffers; rw [hctl.buffers]; exact hpend y⟩
      pendNodup := by show (createHandles w'.buffers).Nodup; rw [hctl.buffers]; exact hi.pendNodup
      rows := hs.ok, keys := hs.keys hi.keys, live := liveInv_owns hs hi.rows hi.live ho, pool := hpool'
      shared := hsh'
      depsB := by show DepsBounded w'.deps; rw [hctl.deps]; exact hi.depsB
      locsCover := hcov
      bufLe := by show w'.buffers.length ≤ w'.nthreads; rw [hctl.buffers, hctl.nthreads]; exact hi.bufLe
      bufLen := by
        intro h0
        have : 0 < w'.lockDepth := h0
        rw [hctl.lockDepth, hd0] at this
        omega
      bufEmpty := by
        intro _
        show ∀ b ∈ w'.buffers, b = []
        rw [hctl.buffers]; exact hi.bufEmpty hd0
      bufKnown := by
        show ∀ b ∈ w'.buffers, ∀ cmd ∈ b, _
        rw [hctl.buffers]
        intro b hb cmd hc
        rw [hi.bufEmpty hd0 b hb] at hc; cases hc
      markedKnown := by
        show ∀ y ∈ w'.marked, Known ⟨w', iss ++ [h]⟩ y ∧ y ∉ createHandles w'.buffers
        rw [hmk, hctl.buffers]
        intro y hy
        exact ⟨(hi.markedKnown y hy).1.mono hwid hsub, (hi.markedKnown y hy).2⟩
      markedRange := by show ∀ y ∈ w'.marked, HRange w'.worldId y; rw [hmk, hwid]; exact hi.markedRange
      markedSorted := by show w'.marked.Pairwise _; rw [hmk]; exact hi.markedSorted }
  refine ⟨hinv', ?_⟩
  -- validity through the ghosts
  have hslots : (tabOf w).slots.length ≤ 2^30 - 1 := by
    have h1 : (tabOf w').slots.length ≤ 2^30 - 1 := Nat.le_of_lt hb'.inRange
    rw [htab] at h1
    exact Nat.le_trans (Mustache.Proofs.IdTable.alloc_length_ge _) h1
  have hval' : ∀ y, w'.isValid y = true ↔ (y = h ∨ y ∈ g.live) := by
    intro y
    rw [valid_iff_ghost htinv' (Nat.le_of_lt hb'.inRange) y]
    show y ∈ h :: g.live ↔ _
    simp
  have hvalw : ∀ y, w.isValid y = true ↔ y ∈ g.live := fun y => valid_iff_ghost tinv hslots y
  have hvalid : ∀ y, y ≠ h → w'.isValid y = w.isValid y := by
    intro y hne
    rw [Bool.eq_iff_iff, hval' y, hvalw y]
    exact ⟨fun hh => hh.resolve_left hne, Or.inr⟩
  have habs : ∀ y ∈ iss, absEnt w' y = absEnt w y := by
    intro y hy
    have hne : y ≠ h := fun e => hnew (e ▸ hy)
    by_cases hid : y.id = h.id
    · have hinv : w.isValid y = false := by
        cases hv : w.isValid y with
        | false => rfl
        | true =>
          rcases hi.live.live_in y hv with ⟨aj, j, r, hrr, hre⟩
          exact absurd (by rw [hre]; exact hid) (hfresh aj j r hrr)
      rw [absEnt_invalid hinv, absEnt_invalid ((hvalid y hne).trans hinv)]
    · exact absEnt_step hi.rows hi.live hi.shared hs.frame (by rw [hctl.pool]; exact PoolExt.refl _) y hid
  have hmne : ∀ y ∈ w.marked, y ≠ h := fun y hy => (hi.markedKnown y hy).1.ne_new hnew hworld hnn
  have hr1 : Rel ⟨w', iss⟩ s :=
    rel_transfer hi hr habs (fun y hy => hvalid y (hmne y hy)) (by rw [hctl.pool]; exact PoolExt.refl _) hctl.deps
      hctl.lockDepth hctl.nthreads hctl.buffers hmk
  refine rel_issue hr1 h (some x) hx ?_ ?_
  · intro b hb cmd hc
    have hb' : b ∈ w.buffers := by rw [← hctl.buffers]; exact hb
    rw [hi.bufEmpty hd0 b hb'] at hc; cases hc
  · intro y hy
    exact hmne y (by rw [← hmk]; exact hy)

theorem allocId_cover {w : WM} (h : w.slots.length ≤ w.locs.length) :
    (w.allocId).1.slots.length ≤ (w.allocId).1.locs.length := by
  unfold WM.allocId
  split
  · simp; omega
  · split
    · simp; exact h
    · exact h

end Mustache.Proofs.Refine

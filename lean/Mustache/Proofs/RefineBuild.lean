import Mustache.Proofs.RefineClear
/-!
# Refinement, stage (d): the builder (`begin(e)….end()` on an existing entity, unlocked) — the `initComponent` loop
-/
namespace Mustache.Proofs.Refine
open Mustache.Model Mustache.Spec
open Mustache.Proofs.IdTable (tabOf Ghost TInv)
open Mustache.Proofs.Rows

variable (info : CompId → CompInfo)

/-- the values after the `initComponent` loop -/
def addsVals (tm : Mask) (adds : List (CompId × Option Nat)) (vals : List Val) : List Val :=
  adds.foldl (fun vs p => match tm.indexOf? p.1 with
    | none => vs
    | some ci => vs.set ci (storedOf info p.1 p.2)) vals

/-- the callbacks of the loop -/
def addsCbs (tm : Mask) (e : Handle) (adds : List (CompId × Option Nat)) : List Cb :=
  (adds.filter (fun p => tm.contains p.1 && (info p.1).callbacks)).map (fun p => Cb.assign p.1 e)

/-- the loop of `buildUpdateU` / `buildNewU` -/
def builderLoop (ti n : Nat) (e : Handle) (adds : List (CompId × Option Nat)) (acc : WM × List Cb) : WM × List Cb :=
  adds.foldl (fun (acc : WM × List Cb) (p : CompId × Option Nat) =>
    let w := acc.1
    let ta := w.arch ti
    match ta.mask.indexOf? p.1 with
    | none => acc
    | some ci =>
      let row := ta.rows.getD n default
      let v : Val := match (info p.1).fixed with
        | some f => some f
        | none => match p.2 with
          | some tok => some tok
          | none => defaultVal info p.1
      let w := w.setArch ti { ta with rows := ta.rows.set n { row with vals := row.vals.set ci v } }
      (w, acc.2 ++ (if (info p.1).callbacks then [Cb.assign p.1 e] else []))) acc

theorem builderLoop_explicit {w : WM} {e : Handle} {ti : Nat} (tm : Mask) :
    ∀ (adds : List (CompId × Option Nat)) (w2 : WM) (vals : List Val) (cbs0 : List Cb),
      Moved w w2 e ti vals → (w2.arch ti).mask = tm →
      Moved w (builderLoop info ti (w2.locOf e).idx e adds (w2, cbs0)).1 e ti (addsVals info tm adds vals) ∧
      (builderLoop info ti (w2.locOf e).idx e adds (w2, cbs0)).2 = cbs0 ++ addsCbs info tm e adds ∧
      KeysSame w2 (builderLoop info ti (w2.locOf e).idx e adds (w2, cbs0)).1
  | [], w2, vals, cbs0, hm, _ => ⟨hm, by simp [builderLoop, addsCbs], KeysSame.refl _⟩
  | p :: rest, w2, vals, cbs0, hm, htm => by
    cases hidx : tm.indexOf? p.1 with
    | none =>
      have hc : tm.contains p.1 = false := by
        cases h : tm.contains p.1 with
        | false => rfl
        | true =>
          have := (indexOf?_of_mem ((contains_iff tm p.1).mp h)).1
          rw [hidx] at this; cases this
      have h1 : builderLoop info ti (w2.locOf e).idx e (p :: rest) (w2, cbs0) =
          builderLoop info ti (w2.locOf e).idx e rest (w2, cbs0) := by
        simp only [builderLoop, List.foldl_cons, htm, hidx]
      have h2 : addsVals info tm (p :: rest) vals = addsVals info tm rest vals := by
        simp only [addsVals, List.foldl_cons, hidx]
      have h3 : addsCbs info tm e (p :: rest) = addsCbs info tm e rest := by
        simp only [addsCbs, List.filter_cons, hc, Bool.false_and, Bool.false_eq_true, if_false]
      rw [h1, h2, h3]
      exact builderLoop_explicit tm rest w2 vals cbs0 hm htm
    | some ci =>
      have hc : tm.contains p.1 = true := (contains_iff tm p.1).mpr (indexOf?_some hidx).1
      have hm' := hm.setCell ci (storedOf info p.1 p.2)
      have hloc' : ((setCell w2 ti (w2.locOf e).idx ci (storedOf info p.1 p.2)).locOf e).idx = (w2.locOf e).idx := by
        unfold WM.locOf; rw [setCell_locs]
      have htm' : ((setCell w2 ti (w2.locOf e).idx ci (storedOf info p.1 p.2)).arch ti).mask = tm := by
        rw [(setCell_mask w2 ti ti _ ci _).1]; exact htm
      have ih := builderLoop_explicit tm rest _ _ (cbs0 ++ (if (info p.1).callbacks then [Cb.assign p.1 e] else [])) hm' htm'
      rw [hloc'] at ih
      have h1 : builderLoop info ti (w2.locOf e).idx e (p :: rest) (w2, cbs0) =
          builderLoop info ti (w2.locOf e).idx e rest
            (setCell w2 ti (w2.locOf e).idx ci (storedOf info p.1 p.2),
             cbs0 ++ (if (info p.1).callbacks then [Cb.assign p.1 e] else [])) := by
        have hidx' : (w2.arch ti).mask.indexOf? p.1 = some ci := by rw [htm]; exact hidx
        unfold builderLoop
        rw [List.foldl_cons]
        congr 1
        simp only [hidx']
        rfl
      have h2 : addsVals info tm (p :: rest) vals = addsVals info tm rest (vals.set ci (storedOf info p.1 p.2)) := by
        simp only [addsVals, List.foldl_cons, hidx]
      have h3 : addsCbs info tm e (p :: rest) =
          (if (info p.1).callbacks then [Cb.assign p.1 e] else []) ++ addsCbs info tm e rest := by
        simp only [addsCbs, List.filter_cons, hc, Bool.true_and]
        split <;> simp
      rw [h1, h2, h3, ← List.append_assoc]
      exact ⟨ih.1, ih.2.1, (setCell_keysSame w2 ti _ ci _).trans ih.2.2⟩

theorem addsVals_length (tm : Mask) (adds : List (CompId × Option Nat)) (vals : List Val) :
    (addsVals info tm adds vals).length = vals.length := by
  induction adds generalizing vals with
  | nil => rfl
  | cons p rest ih =>
    simp only [addsVals, List.foldl_cons] at ih ⊢
    cases tm.indexOf? p.1 with
    | none => exact ih vals
    | some ci => simp only; rw [ih]; simp

/-- what the loop leaves in the cell of component `x` -/
theorem addsVals_get (tm : Mask) (adds : List (CompId × Option Nat)) (hn : (adds.map (·.1)).Nodup) (vals : List Val)
    (hl : vals.length = tm.length) (x : CompId) (hx : x ∈ tm) :
    (addsVals info tm adds vals).getD (tm.idxOf x) none =
      match adds.find? (·.1 == x) with
      | some p => storedOf info p.1 p.2
      | none => vals.getD (tm.idxOf x) none := by
  induction adds generalizing vals with
  | nil => rfl
  | cons p rest ih =>
    have hn' : p.1 ∉ rest.map (·.1) ∧ (rest.map (·.1)).Nodup := List.nodup_cons.mp hn
    by_cases hpx : p.1 = x
    · have hb : (p.1 == x) = true := by simpa using hpx
      have hidx : tm.indexOf? p.1 = some (tm.idxOf x) := by rw [hpx]; exact (indexOf?_of_mem hx).1
      simp only [addsVals, List.foldl_cons, hidx, List.find?_cons, hb]
      have hnot : rest.find? (·.1 == x) = none := by
        rw [List.find?_eq_none]
        intro q hq hqx
        have : q.1 = x := by simpa using hqx
        exact hn'.1 (List.mem_map.mpr ⟨q, hq, this.trans hpx.symm⟩)
      have := ih hn'.2 (vals.set (tm.idxOf x) (storedOf info p.1 p.2)) (by simpa using hl)
      simp only [addsVals] at this
      rw [this, hnot]
      have hlt : tm.idxOf x < vals.length := by rw [hl]; exact (indexOf?_of_mem hx).2.1
      simp [List.getD_eq_getElem?_getD, hlt]
    · have hb : (p.1 == x) = false := by simpa using hpx
      simp only [List.find?_cons, hb]
      cases hidx : tm.indexOf? p.1 with
      | none =>
        simp only [addsVals, List.foldl_cons, hidx]
        exact ih hn'.2 vals hl
      | some ci =>
        simp only [addsVals, List.foldl_cons, hidx]
        have := ih hn'.2 (vals.set ci (storedOf info p.1 p.2)) (by simpa using hl)
        simp only [addsVals] at this
        rw [this]
        cases rest.find? (·.1 == x) with
        | some q => rfl
        | none =>
          simp only
          have hpm : p.1 ∈ tm := (indexOf?_some hidx).1
          have hci : ci = tm.idxOf p.1 := (indexOf?_some hidx).2
          have hne : ci ≠ tm.idxOf x := by rw [hci]; exact idxOf_ne hpm hx hpx
          rw [List.getD_eq_getElem?_getD, List.getElem?_set_ne hne, ← List.getD_eq_getElem?_getD]

/-! ## the spec side of a builder edit -/

theorem find_filter_key (l : List (CompId × Val)) (f : CompId → Bool) (x : CompId) (hfx : f x = true) :
    (l.filter (fun p => f p.1)).find? (·.1 == x) = l.find? (·.1 == x) := by
  induction l with
  | nil => rfl
  | cons p t ih =>
    by_cases hp : p.1 = x
    · have h1 : f p.1 = true := by rw [hp]; exact hfx
      have h2 : (p.1 == x) = true := by simpa using hp
      simp only [List.filter_cons, h1, if_true, List.find?_cons, h2]
    · have h2 : (p.1 == x) = false := by simpa using hp
      by_cases h1 : f p.1 = true
      · simp only [List.filter_cons, h1, if_true, List.find?_cons, h2]; exact ih
      · simp only [List.filter_cons, h1, Bool.false_eq_true, if_false, List.find?_cons, h2]; exact ih

theorem given_find (adds : List (CompId × Option Nat)) (x : CompId) :
    (adds.map (fun p => (p.1, storedVal info p.1 p.2))).find? (·.1 == x) =
      (adds.find? (·.1 == x)).map (fun p => (p.1, storedVal info p.1 p.2)) :=
  find?_map_fst (fun p => (p.1, storedVal info p.1 p.2)) (fun _ => rfl) adds x

theorem build_specPair (pm tm : Mask) (pvals : List Val) (hl : pvals.length = pm.length)
    (adds : List (CompId × Option Nat)) (x : CompId) (hx : x ∈ tm) :
    specPair info ((pm.zip pvals).filter (fun p => tm.contains p.1)) (adds.map (fun p => (p.1, storedVal info p.1 p.2))) x =
      (x, if x ∈ pm then pvals.getD (pm.idxOf x) none
          else match adds.find? (·.1 == x) with
            | some p => storedVal info p.1 p.2
            | none => defaultVal info x) := by
  unfold specPair
  rw [find_filter_key _ (fun c => tm.contains c) x ((contains_iff tm x).mpr hx)]
  by_cases hxp : x ∈ pm
  · rw [find_zip_some hl hxp, if_pos hxp]
  · rw [find_zip_none hxp, if_neg hxp, given_find]
    cases hf : adds.find? (·.1 == x) with
    | none => rfl
    | some p =>
      have : p.1 = x := by simpa using List.find?_some hf
      simp [this]

/-! ## callbacks of a builder edit -/

theorem filter_split {l : List Nat} (q r : Nat → Bool) :
    (l.filter q).Perm (l.filter (fun c => q c && !r c) ++ l.filter (fun c => q c && r c)) := by
  induction l with
  | nil => simp
  | cons a t ih =>
    by_cases hq : q a = true
    · by_cases hr : r a = true
      · simp only [List.filter_cons, hq, hr, if_true, Bool.not_true, Bool.and_false, Bool.false_eq_true, if_false,
          Bool.and_self]
        exact (ih.cons a).trans List.perm_middle.symm
      · simp only [List.filter_cons, hq, hr, if_true, Bool.not_false, Bool.and_self, Bool.and_false, Bool.false_eq_true,
          if_false, List.cons_append]
        exact ih.cons a
    · simp only [List.filter_cons, hq, Bool.false_and, Bool.false_eq_true, if_false]
      exact ih

theorem build_cb_list (pm tm : Mask) (adds : List (CompId × Option Nat)) (htn : tm.Nodup)
    (han : (adds.map (·.1)).Nodup) (hdisj : ∀ p ∈ adds, p.1 ∉ pm) :
    (tm.filter (fun c => !pm.contains c && (info c).callbacks && !(Mask.ofList (adds.map (·.1))).contains c) ++
      (adds.filter (fun p => tm.contains p.1 && (info p.1).callbacks)).map (·.1)).Perm
    (tm.filter (fun c => (info c).callbacks && !pm.contains c)) := by
  have hsplit := filter_split (l := tm) (fun c => (info c).callbacks && !pm.contains c)
    (fun c => (Mask.ofList (adds.map (·.1))).contains c)
  refine List.Perm.trans ?_ hsplit.symm
  apply List.Perm.append
  · rw [List.filter_congr (q := fun c => ((info c).callbacks && !pm.contains c) && !(Mask.ofList (adds.map (·.1))).contains c)]
    intro c _
    cases pm.contains c <;> cases (info c).callbacks <;> rfl
  · have hm : (adds.filter (fun p => tm.contains p.1 && (info p.1).callbacks)).map (·.1) =
        (adds.map (·.1)).filter (fun c => tm.contains c && (info c).callbacks) := by
      rw [List.filter_map]; rfl
    rw [hm, List.perm_ext_iff_of_nodup (han.sublist List.filter_sublist) (htn.sublist List.filter_sublist)]
    intro c
    simp only [List.mem_filter, Bool.and_eq_true, List.contains_iff_mem, Bool.not_eq_true', mem_ofList]
    constructor
    · rintro ⟨hc, hct, hcb⟩
      rcases List.mem_map.mp hc with ⟨p, hp, rfl⟩
      have := hdisj p hp
      exact ⟨hct, ⟨hcb, by simpa using this⟩, hc⟩
    · rintro ⟨hct, ⟨hcb, _⟩, hc⟩
      exact ⟨hc, hct, hcb⟩

end Mustache.Proofs.Refine

import Mustache.Proofs.RefineBuild
/-!
# Refinement, stage (d): builder edit of an existing entity, unlocked
-/
namespace Mustache.Proofs.Refine
open Mustache.Model Mustache.Spec
open Mustache.Proofs.IdTable (tabOf Ghost TInv)
open Mustache.Proofs.Rows

variable (info : CompId → CompInfo)

/-- the value the builder leaves in the cell of `x` -/
theorem build_vals (pm tm : Mask) (prow : Row) (adds : List (CompId × Option Nat))
    (han : (adds.map (·.1)).Nodup) (hdisj : ∀ p ∈ adds, p.1 ∉ pm) (x : CompId) (hx : x ∈ tm) :
    (addsVals info tm adds (carry info tm pm prow (Mask.ofList (adds.map (·.1))))).getD (tm.idxOf x) none =
      if x ∈ pm then prow.vals.getD (pm.idxOf x) none
      else match adds.find? (·.1 == x) with
        | some p => storedVal info p.1 p.2
        | none => defaultVal info x := by
  rw [addsVals_get info tm adds han _ (carry_length info _ _ _ _) x hx]
  by_cases hxp : x ∈ pm
  · rw [if_pos hxp]
    have hnone : adds.find? (·.1 == x) = none := by
      rw [List.find?_eq_none]
      intro p hp hpx
      have : p.1 = x := by simpa using hpx
      exact hdisj p hp (this ▸ hxp)
    rw [hnone]
    simp only
    rw [carry_get info _ _ _ _ x hx, carried_of_mem info _ _ _ x hxp]
  · rw [if_neg hxp]
    cases hf : adds.find? (·.1 == x) with
    | some p => rfl
    | none =>
      simp only
      rw [carry_get info _ _ _ _ x hx, carried_of_not_mem info _ _ _ x hxp]
      have : (Mask.ofList (adds.map (·.1))).contains x = false := by
        rw [contains_false_iff, mem_ofList]
        intro hm
        rcases List.mem_map.mp hm with ⟨p, hp, hpx⟩
        have := List.find?_eq_none.mp hf p hp
        simp [hpx] at this
      rw [this]; rfl

theorem build_unlocked_refines {c : CW} {s : WS} (hi : Inv c) (hb : Bounds c) (hr : Rel c s)
    (hl : c.w.isLocked = false) (t : Nat) (e : Handle) (adds : List (CompId × Option Nat)) (rems : Mask)
    (hv : c.w.isValid e = true) (han : addsOk adds) (hdis : ∀ p ∈ adds, c.w.hasComp e p.1 = false) :
    StepRefines info c s (.build t e adds rems) := by
  obtain ⟨w, iss⟩ := c
  have hl2 : w.isLocked = false := hl
  have hv2 : w.isValid e = true := hv
  have hnl := unlocked_spec hr hl
  rcases rel_cases hi hb hr e with ⟨hinv, _⟩ | ⟨_, k, pi, i, prow, ent, hord, hk, hrow, hent, hloc, hal, hrel⟩
  · rw [hv] at hinv; cases hinv
  have hord2 : ordOf iss e = some k := hord
  have hk2 : iss[k]? = some e := hk
  have hrow2 : (w.arch pi).rows[i]? = some prow := hrow
  have hloc2 : w.locOf e = ⟨some pi, i⟩ := hloc
  have hla : (w.locOf e).arch = some pi := by rw [hloc2]
  have hidx : (w.locOf e).idx = i := by rw [hloc2]
  have hpi : pi < w.archs.length := lt_of_row hrow2
  have hpm : MaskOk (w.arch pi).mask := hi.keys.masks pi hpi
  have hplen : prow.vals.length = (w.arch pi).mask.length := hi.rows.vals pi i prow hrow2
  have hcs : compSet ent = (w.arch pi).mask := compSet_of_rel hrel.1 hplen
  have hdeps : s.deps = w.deps := hr.deps
  have hdisj : ∀ p ∈ adds, p.1 ∉ (w.arch pi).mask := by
    intro p hp
    have := hdis p hp
    rw [show (⟨w, iss⟩ : CW).w = w from rfl, hasComp_of_loc hloc2, hv2, Bool.true_and] at this
    exact contains_false_iff.mp this
  have hshm : Shared.null.merge (w.arch pi).shared = (w.arch pi).shared := Shared.null_merge _
  generalize hmdef : Mask.diff (Mask.union (Mask.ofList (adds.map (·.1))) (w.arch pi).mask) rems = m at *
  generalize htmdef : closedMask w.deps m = tm at *
  have hmok : MaskOk m := by rw [← hmdef]; exact maskOk_diff (maskOk_union (maskOk_ofList _) _) _
  have htmok : MaskOk tm := by rw [← htmdef]; exact maskOk_closedMask w.deps hmok
  have hafter : closed s.deps (Mask.diff (Mask.union (Mask.ofList (adds.map (·.1))) (w.arch pi).mask) rems) = tm := by
    rw [hdeps, hmdef, ← htmdef]; rfl
  have hshin : SharedIn w.pool (w.arch pi).shared := hi.shared _ (arch_mem hpi)
  rcases getArch_move info hi.rows m (w.arch pi).shared e pi i (Mask.ofList (adds.map (·.1))) prow hrow2 hent
    (fun _ => hmok) with ⟨hti, hnone⟩ | ⟨hti, w2, cbs, hsome, hm, hmask, hshd⟩
  · -- "to itself"
    have hw1 : (w.getArch m (w.arch pi).shared).1 = w := by
      rcases Mustache.Proofs.Rows.getArch_cases w m (w.arch pi).shared with ⟨h, _⟩ | ⟨_, h, _⟩
      · exact h
      · rw [hti] at h; omega
    have htm : tm = (w.arch pi).mask := by
      have := (getArch_key w m (w.arch pi).shared).1
      rw [hti, hw1, htmdef] at this
      exact this.symm
    have hstep : CW.step info ⟨w, iss⟩ (.build t e adds rems) = (⟨w, iss⟩, .selfMove, []) := by
      simp only [CW.step, WM.step, hl2, Bool.false_eq_true, if_false, WM.buildUpdateU, hla, hidx, hmdef, hshm, hnone,
        issueOut, resOut]
      rw [hw1]
    have hs : s.step info (Op.mapRef (ordOf iss) (.build t e adds rems)) = (s, .selfMove, []) := by
      simp only [Op.mapRef, WS.step, hnl, if_false, hord2, WS.doBuild, hal, hcs, hafter, htm, beq_self_eq_true, if_true]
    unfold StepRefines
    rw [hstep, hs]
    exact ⟨hi, hr, trivial, by simp [isUnlockOp, cbsAgree]⟩
  · rw [htmdef] at hm hmask
    have hloop := builderLoop_explicit info tm adds w2 _ [] hm hmask
    generalize hw3def : (builderLoop info (w.getArch m (w.arch pi).shared).2 (w2.locOf e).idx e adds (w2, [])).1 = w3 at hloop
    have hmv := hloop.1
    have hks : KeysSame (w.getArch m (w.arch pi).shared).1 w3 :=
      (externalMove_keysSame info _ _ e pi i _ (w2, cbs) hsome (getArch_idx_lt w m (w.arch pi).shared)).trans hloop.2.2
    have hinv' : Inv ⟨w3, iss⟩ := moved_inv (m := m) (sh := (w.arch pi).shared) hi hv2 hshin hmv hks
    have hpool' : w3.pool = w.pool := hmv.same.pool
    have htilt : (w.getArch m (w.arch pi).shared).2 < w3.archs.length := by
      rcases hmv.here with ⟨n, _, hr'⟩; exact lt_of_row hr'
    have hsh' : SharedIn w.pool (w3.arch (w.getArch m (w.arch pi).shared).2).shared := by
      have := hinv'.shared _ (arch_mem htilt)
      rw [← hpool']; exact this
    have hkey3 : (w3.arch (w.getArch m (w.arch pi).shared).2).mask = tm ∧
        (w3.arch (w.getArch m (w.arch pi).shared).2).shared.data = (w.arch pi).shared.data := by
      rw [(hloop.2.2.key _).1, (hloop.2.2.key _).2]; exact ⟨hmask, hshd⟩
    have hne : tm ≠ (w.arch pi).mask := by
      intro heq
      have hk1 : KeysOK (w.getArch m (w.arch pi).shared).1 := keysOK_getArch hi.keys m _ hmok
      have hpi1 : pi < (w.getArch m (w.arch pi).shared).1.archs.length :=
        Nat.lt_of_lt_of_le hpi (getArch_length_le w m _)
      have hkey := getArch_key w m (w.arch pi).shared
      have ha : (w.getArch m (w.arch pi).shared).1.arch pi = w.arch pi := getArch_arch_lt w _ _ pi hpi
      exact hti (hk1.distinct _ pi (getArch_idx_lt w m _) hpi1 (by rw [hkey.1, ha, htmdef, heq]) (by rw [hkey.2, ha]))
    have hbne : (tm == (w.arch pi).mask) = false := by simpa using hne
    have hs : s.step info (Op.mapRef (ordOf iss) (.build t e adds rems)) =
        (s.setEnt k (some { ent with comps := (rebuild info (ent.comps.filter (fun p => tm.contains p.1)) tm
            (adds.map (fun p => (p.1, storedVal info p.1 p.2)))) }), .ok, cbDiff info k (w.arch pi).mask tm) := by
      simp only [Op.mapRef, WS.step, hnl, if_false, hord2, WS.doBuild, hal, hcs, hafter, hbne, Bool.false_eq_true]
    have hcomps : rebuild info (ent.comps.filter (fun p => tm.contains p.1)) tm
          (adds.map (fun p => (p.1, storedVal info p.1 p.2))) =
        (w3.arch (w.getArch m (w.arch pi).shared).2).mask.zip
          (addsVals info tm adds (carry info tm (w.arch pi).mask prow (Mask.ofList (adds.map (·.1))))) := by
      rw [hkey3.1]
      symm
      apply zip_eq_rebuild info (maskOk_nodup htmok) (by rw [addsVals_length, carry_length])
      intro x hx
      rw [hrel.1, build_specPair info _ _ _ hplen adds x hx, build_vals info _ _ _ adds han hdisj x hx]
      congr 1
    have hrel' := moved_rel (sh := (w.arch pi).shared) hi hr hk2 hv2 hshin hmv hsh' hkey3.2
      { ent with comps := (rebuild info (ent.comps.filter (fun p => tm.contains p.1)) tm
            (adds.map (fun p => (p.1, storedVal info p.1 p.2)))) } hcomps (fun sid => hrel.2 sid)
    have hstep : CW.step info ⟨w, iss⟩ (.build t e adds rems) =
        (⟨w3, iss⟩, .ok, cbs ++ addsCbs info tm e adds) := by
      have hl2' := hloop.2.1
      simp only [List.nil_append] at hl2'
      simp only [CW.step, WM.step, hl2, Bool.false_eq_true, if_false, WM.buildUpdateU, hla, hidx, hmdef, hshm, hsome,
        issueOut, resOut]
      refine Prod.ext ?_ (Prod.ext rfl ?_)
      · show CW.mk (builderLoop info _ (w2.locOf e).idx e adds (w2, [])).1 iss = _
        rw [hw3def]
      · show cbs ++ (builderLoop info _ (w2.locOf e).idx e adds (w2, [])).2 = _
        rw [hl2']
    unfold StepRefines
    rw [hstep, hs]
    refine ⟨hinv', hrel', trivial, ?_⟩
    simp only [isUnlockOp, Bool.false_eq_true, if_false]
    -- callbacks
    have hw1pi : (w.getArch m (w.arch pi).shared).1.arch pi = w.arch pi := getArch_arch_lt w _ _ pi hpi
    have hw1ti : ((w.getArch m (w.arch pi).shared).1.arch (w.getArch m (w.arch pi).shared).2).mask = tm := by
      rw [← htmdef]; exact (getArch_key w m (w.arch pi).shared).1
    have hcbs : cbs = moveCbs info (w.getArch m (w.arch pi).shared).1 (w.getArch m (w.arch pi).shared).2 e pi
          (Mask.ofList (adds.map (·.1))) ++
        ((w.getArch m (w.arch pi).shared).1.archRemove info pi i
          ((w.getArch m (w.arch pi).shared).1.arch (w.getArch m (w.arch pi).shared).2).mask).2 := by
      have := externalMove_eq2 info (w.getArch m (w.arch pi).shared).1 (w.getArch m (w.arch pi).shared).2 e pi i
        (Mask.ofList (adds.map (·.1))) hti
      rw [hsome] at this
      exact (Prod.mk.inj (Option.some.inj this)).2
    have hrow1 : ((w.getArch m (w.arch pi).shared).1.arch pi).rows[i]? = some prow := by rw [hw1pi]; exact hrow2
    unfold cbsAgree
    rw [hcbs, archRemove_cbs info _ pi i _ prow hrow1, moveCbs, hw1pi, hw1ti, hent, addsCbs]
    have hadds : (adds.filter (fun p => tm.contains p.1 && (info p.1).callbacks)).map (fun p => Cb.assign p.1 e) =
        ((adds.filter (fun p => tm.contains p.1 && (info p.1).callbacks)).map (·.1)).map (Cb.assign · e) := by
      rw [List.map_map]; rfl
    rw [hadds, List.map_append, List.map_append, cbAbs_assign_map hord2, cbAbs_assign_map hord2, cbAbs_remove_map hord2]
    unfold cbDiff
    rw [List.map_append]
    -- A ++ R ++ B ~ (A ++ B) ++ R
    have hperm := ((build_cb_list info (w.arch pi).mask tm adds (maskOk_nodup htmok) han hdisj).map
      (fun x => ((true, x, k) : SCb))).map some
    rw [List.map_append, List.map_append] at hperm
    refine List.Perm.trans ?_ (hperm.append_right _)
    rw [List.append_assoc, List.append_assoc]
    exact List.Perm.append_left _ List.perm_append_comm

end Mustache.Proofs.Refine

import Mustache.Proofs.RefineBuild2
/-!
# Refinement, stage (d): builder creation of a new entity, unlocked
-/
namespace Mustache.Proofs.Refine
open Mustache.Model Mustache.Spec
open Mustache.Proofs.IdTable (tabOf Ghost TInv)
open Mustache.Proofs.Rows

variable (info : CompId → CompInfo)

/-- `buildNewU`, both branches in one formula (`skip` = the builder's mask, empty when there are no arguments) -/
theorem buildNewU_form (w : WM) (adds : List (CompId × Option Nat)) :
    w.buildNewU info adds =
      ((builderLoop info ((w.allocId).1.getArch (Mask.ofList (adds.map (·.1))) Shared.null).2
          (((((w.allocId).1.getArch (Mask.ofList (adds.map (·.1))) Shared.null).1.archInsert info
            ((w.allocId).1.getArch (Mask.ofList (adds.map (·.1))) Shared.null).2 (w.allocId).2
            (Mask.ofList (adds.map (·.1)))).1).locOf (w.allocId).2).idx (w.allocId).2 adds
          ((((w.allocId).1.getArch (Mask.ofList (adds.map (·.1))) Shared.null).1.archInsert info
            ((w.allocId).1.getArch (Mask.ofList (adds.map (·.1))) Shared.null).2 (w.allocId).2
            (Mask.ofList (adds.map (·.1)))).1, [])).1,
       (w.allocId).2,
       (((w.allocId).1.getArch (Mask.ofList (adds.map (·.1))) Shared.null).1.archInsert info
            ((w.allocId).1.getArch (Mask.ofList (adds.map (·.1))) Shared.null).2 (w.allocId).2
            (Mask.ofList (adds.map (·.1)))).2 ++
        (builderLoop info ((w.allocId).1.getArch (Mask.ofList (adds.map (·.1))) Shared.null).2
          (((((w.allocId).1.getArch (Mask.ofList (adds.map (·.1))) Shared.null).1.archInsert info
            ((w.allocId).1.getArch (Mask.ofList (adds.map (·.1))) Shared.null).2 (w.allocId).2
            (Mask.ofList (adds.map (·.1)))).1).locOf (w.allocId).2).idx (w.allocId).2 adds
          ((((w.allocId).1.getArch (Mask.ofList (adds.map (·.1))) Shared.null).1.archInsert info
            ((w.allocId).1.getArch (Mask.ofList (adds.map (·.1))) Shared.null).2 (w.allocId).2
            (Mask.ofList (adds.map (·.1)))).1, [])).2) := by
  cases adds with
  | nil => simp [WM.buildNewU, builderLoop, Mask.ofList]
  | cons p rest =>
    unfold WM.buildNewU
    simp only [List.isEmpty_cons, Bool.false_eq_true, if_false]
    rfl

theorem buildNew_specPair (adds : List (CompId × Option Nat)) (x : CompId) :
    specPair info [] (adds.map (fun p => (p.1, storedVal info p.1 p.2))) x =
      (x, match adds.find? (·.1 == x) with
          | some p => storedVal info p.1 p.2
          | none => defaultVal info x) := by
  unfold specPair
  rw [List.find?_nil, given_find]
  cases hf : adds.find? (·.1 == x) with
  | none => rfl
  | some p =>
    have : p.1 = x := by simpa using List.find?_some hf
    simp [this]

/-- values / callbacks of `Archetype::insert(entity, skip)` -/
def insVals (tm skip : Mask) : List Val :=
  tm.map (fun c => if (skip == tm) || skip.contains c then (match (info c).fixed with | some v => some v | none => none)
    else defaultVal info c)

def insCbs (tm skip : Mask) (e : Handle) : List Cb :=
  if skip == tm then [] else (tm.filter (fun c => (info c).callbacks && !skip.contains c)).map (Cb.assign · e)

theorem archInsert_form (w : WM) (ai : Nat) (e : Handle) (skip : Mask) :
    w.archInsert info ai e skip =
      (insertRow w ai e (insVals info (w.arch ai).mask skip), insCbs info (w.arch ai).mask skip e) := rfl

theorem insCbs_eq (tm skip : Mask) (e : Handle) :
    insCbs info tm skip e = (tm.filter (fun c => (info c).callbacks && !skip.contains c)).map (Cb.assign · e) := by
  unfold insCbs
  by_cases h : (skip == tm) = true
  · rw [if_pos h]
    have : skip = tm := by simpa using h
    subst this
    have : skip.filter (fun c => (info c).callbacks && !skip.contains c) = [] := by
      rw [List.filter_eq_nil_iff]; intro x hx; simp [hx]
    rw [this]; rfl
  · rw [if_neg h]

theorem insVals_get (tm skip : Mask) (x : CompId) (hx : x ∈ tm) (hns : x ∉ skip) :
    (insVals info tm skip).getD (tm.idxOf x) none = defaultVal info x := by
  unfold insVals
  have hi := indexOf?_of_mem hx
  rw [List.getD_eq_getElem?_getD, List.getElem?_map, hi.2.2]
  have h1 : (skip == tm) = false := by
    cases h : skip == tm with
    | false => rfl
    | true =>
      have : skip = tm := by simpa using h
      exact absurd (this ▸ hx) hns
  have h2 : skip.contains x = false := contains_false_iff.mpr hns
  simp only [Option.map_some, h1, h2, Bool.or_self, Bool.false_eq_true, if_false, Option.getD_some]

theorem insVals_length (tm skip : Mask) : (insVals info tm skip).length = tm.length := by simp [insVals]

theorem buildNew_unlocked_refines {c : CW} {s : WS} (hi : Inv c) (hb : Bounds c) (hr : Rel c s)
    (hl : c.w.isLocked = false) (t : Nat) (adds : List (CompId × Option Nat)) (han : addsOk adds)
    (hb' : Bounds (c.step info (.buildNew t adds)).1) : StepRefines info c s (.buildNew t adds) := by
  obtain ⟨w, iss⟩ := c
  have hl2 : w.isLocked = false := hl
  have hnl := unlocked_spec hr hl
  have ha : AllocOK w := allocOK_of_inv (c := ⟨w, iss⟩) hi hb
  have hform := buildNewU_form info w adds
  have hs1 : Step w (w.allocId).1 (w.allocId).2.id := allocId_step hi.rows ha.fresh
  have hAdeps : (w.allocId).1.deps = w.deps := (allocId_ctl w).deps
  have hvalA : (w.allocId).1.isValid (w.allocId).2 = true := allocId_valid w ha.notNull
  have hfreshA : NotInRow (w.allocId).1 (w.allocId).2.id := allocId_notInRow ha.fresh
  have htabA := Mustache.Proofs.IdTable.allocId_tab w
  have hcovA := allocId_cover hi.locsCover
  have hinR := ha.inRange
  have hnn := ha.notNull
  have hfresh := ha.fresh
  have hctlA := allocId_ctl w
  have hmkA := allocId_marked w
  have harchsA := allocId_archs w
  generalize hMdef : Mask.ofList (adds.map (·.1)) = M at *
  have hMok : MaskOk M := by rw [← hMdef]; exact maskOk_ofList _
  generalize hAdef : (w.allocId).1 = A at *
  generalize hhdef : (w.allocId).2 = h at *
  have hkeyG := getArch_key A M Shared.null
  have hGst := getArch_sameTable A M Shared.null
  have hokG := rowsOK_getArch hs1.ok M Shared.null
  have hailt := getArch_idx_lt A M Shared.null
  have hGlocs := Mustache.Proofs.Rows.getArch_locs A M Shared.null
  have hGfresh := getArch_notInRow M Shared.null hfreshA
  have hGstep := getArch_step hs1.ok M Shared.null h.id (fun _ => hMok)
  have hGkeys : AllKeys (fun _ x => SharedIn w.pool x) (A.getArch M Shared.null).1 := by
    have hA1 : AllKeys (fun _ x => SharedIn w.pool x) A := by
      intro a ha'; rw [harchsA] at ha'; exact hi.shared a ha'
    exact AllKeys.getArch hA1 M Shared.null (sharedIn_null _)
  generalize hGdef : (A.getArch M Shared.null).1 = G at *
  generalize haidef : (A.getArch M Shared.null).2 = ai at *
  generalize htmdef : closedMask w.deps M = tm at *
  have hGmask : (G.arch ai).mask = tm := by rw [hkeyG.1, hAdeps, htmdef]
  have htmok : MaskOk tm := by rw [← htmdef]; exact maskOk_closedMask w.deps hMok
  -- the inserted row and the `initComponent` loop
  have hins := archInsert_form info G ai h M
  rw [hGmask] at hins
  rw [hins] at hform
  have hvG : G.isValid h = true := (hGst.isValid h).trans hvalA
  have hmv0 : Moved G (insertRow G ai h (insVals info tm M)) h ai (insVals info tm M) :=
    insertRow_moved hokG ai h _ hailt hnn (by rw [hGlocs]; exact hinR) hGfresh (by rw [insVals_length, hGmask])
  have hmask0 : ((insertRow G ai h (insVals info tm M)).arch ai).mask = tm := by
    rw [(insertRow_mask G ai ai h _ hailt).1]; exact hGmask
  have hloop := builderLoop_explicit info (w := G) tm adds _ _ [] hmv0 hmask0
  generalize hw3def : (builderLoop info ai ((insertRow G ai h (insVals info tm M)).locOf h).idx h adds
    (insertRow G ai h (insVals info tm M), [])).1 = w3 at hloop hform
  have hmv := hloop.1
  have howns := hmv.owns hvG
  have hstep : Step w w3 h.id := hs1.trans (hGstep.trans hmv.step)
  have htab1 : tabOf w3 = ((tabOf w).alloc).1 := (SameTable.tab hmv.same).trans ((SameTable.tab hGst).trans htabA.1)
  have hctl : SameCtl w w3 := hctlA.trans (hGst.ctl.trans hmv.same.ctl)
  have hmk : w3.marked = w.marked := hmv.same.marked.trans (hGst.marked.trans hmkA)
  have hcov : w3.slots.length ≤ w3.locs.length := by
    rw [hmv.same.slots, hGst.slots]
    refine Nat.le_trans hcovA ?_
    rw [← hGlocs]; exact hmv.step.llen
  have hks : KeysSame G w3 := (insertRow_keysSame G ai h _ hailt).trans hloop.2.2
  have hsh' : SharedPooled w3 := by
    have h2 := hGkeys.keysSame hks
    show AllKeys (fun _ x => SharedIn w3.pool x) w3
    rw [hctl.pool]; exact h2
  have hcbs2 := hloop.2.1
  simp only [List.nil_append] at hcbs2
  have hstepeq : CW.step info ⟨w, iss⟩ (.buildNew t adds) =
      (⟨w3, iss ++ [h]⟩, .created h, insCbs info tm M h ++ addsCbs info tm h adds) := by
    simp only [CW.step, WM.step, hl2, Bool.false_eq_true, if_false, hform, hcbs2, issueOut]
  rw [hstepeq] at hb'
  -- the new record
  have hmask3 : (w3.arch ai).mask = tm := by rw [(hks.key ai).1]; exact hGmask
  have hsh3 : absShared w3.pool (w3.arch ai).shared = [] := by
    have hlt3 : ai < w3.archs.length := by rw [hks.alen]; exact hailt
    have hin := hsh' _ (arch_mem hlt3)
    rw [absShared_nil_iff hin.1]
    have hd : (w3.arch ai).shared.data = [] := by rw [(hks.key ai).2, hkeyG.2]; rfl
    have := hin.1.1
    rw [hd] at this
    exact List.length_eq_zero_iff.mp this
  have hdeps : s.deps = w.deps := hr.deps
  have hset : closed s.deps M = tm := by rw [hdeps, ← htmdef]; rfl
  have hx : optRel (some ⟨rebuild info [] tm (adds.map (fun p => (p.1, storedVal info p.1 p.2))), []⟩) (absEnt w3 h) := by
    rw [owns_absEnt howns, hmask3, hsh3]
    refine ⟨?_, fun _ => rfl⟩
    show rebuild info [] tm _ = _
    symm
    apply zip_eq_rebuild info (maskOk_nodup htmok) (by rw [addsVals_length, insVals_length])
    intro x hx
    rw [buildNew_specPair, addsVals_get info tm adds han _ (insVals_length info tm M) x hx]
    congr 1
    cases hf : adds.find? (·.1 == x) with
    | some p => rfl
    | none =>
      simp only
      rw [insVals_get info tm M x hx]
      rw [← hMdef, mem_ofList]
      intro hm
      rcases List.mem_map.mp hm with ⟨p, hp, hpx⟩
      have := List.find?_eq_none.mp hf p hp
      simp [hpx] at this
  have hborn := born_refines hi hr hl2 htab1 htabA.2 hstep howns hfresh hsh' hctl hmk hcov hb' _ hx
  have hs : s.step info (Op.mapRef (ordOf iss) (.buildNew t adds)) =
      ({ s with ents := s.ents ++ [some ⟨rebuild info [] tm (adds.map (fun p => (p.1, storedVal info p.1 p.2))), []⟩] },
        .created s.ents.length, cbDiff info s.ents.length [] tm) := by
    simp only [Op.mapRef, WS.step, hnl, if_false, WS.doBuildNew, hMdef, hset]
  unfold StepRefines
  rw [hstepeq, hs]
  refine ⟨hborn.1, hborn.2, ⟨?_, ?_⟩, ?_⟩
  · rw [hr.len]; exact ordOf_snoc_self iss h
  · rw [hr.len]; simp
  · simp only [isUnlockOp, Bool.false_eq_true, if_false]
    have hord : ordOf (iss ++ [h]) h = some s.ents.length := by rw [hr.len]; exact ordOf_snoc_self iss h
    unfold cbsAgree
    rw [insCbs_eq, addsCbs]
    have hadds : (adds.filter (fun p => tm.contains p.1 && (info p.1).callbacks)).map (fun p => Cb.assign p.1 h) =
        ((adds.filter (fun p => tm.contains p.1 && (info p.1).callbacks)).map (·.1)).map (Cb.assign · h) := by
      rw [List.map_map]; rfl
    rw [hadds, ← List.map_append, cbAbs_assign_map hord, cbDiff_nil_left]
    apply List.Perm.map
    apply List.Perm.map
    have hp := build_cb_list info [] tm adds (maskOk_nodup htmok) han (fun _ _ h => by cases h)
    have e1 : tm.filter (fun c => !([] : Mask).contains c && (info c).callbacks && !(Mask.ofList (adds.map (·.1))).contains c) =
        tm.filter (fun c => (info c).callbacks && !M.contains c) := by
      rw [hMdef]
      apply List.filter_congr
      intro c _; simp
    rw [e1] at hp
    exact hp

end Mustache.Proofs.Refine

import Mustache.Proofs.RefineAll
import Mustache.Proofs.RowsCheck
/-!
# Refinement: executable checkers (`relB`, `opWfB`) with their soundness, runs of histories
-/
namespace Mustache.Proofs.Refine
open Mustache.Model Mustache.Spec
open Mustache.Proofs.Rows

variable (info : CompId → CompInfo)

/-! ## `Rel`, executably -/

def entRelB (a b : SEnt) : Bool :=
  a.comps == b.comps &&
  ((a.shared.map (·.1)) ++ (b.shared.map (·.1))).all (fun sid => lookupS a.shared sid == lookupS b.shared sid)

def optRelB : Option SEnt → Option SEnt → Bool
  | none, none => true
  | some a, some b => entRelB a b
  | _, _ => false

def cmdRelB (issued : List Handle) (pool : Pool) : Cmd → SCmd → Bool
  | .create e m sh, .create o m' sh' =>
    ordOf issued e == some o && m' == m &&
      ((sh'.map (·.1)) ++ ((absShared pool sh).map (·.1))).all
        (fun sid => lookupS sh' sid == lookupS (absShared pool sh) sid)
  | .destroyNow e, .destroyNow o => o == ordOf issued e
  | .destroy e, .destroy o => o == ordOf issued e
  | .remove e c, .remove o c' => o == ordOf issued e && c' == c
  | .assign e c v, .assign o c' v' => o == ordOf issued e && c' == c && v' == v
  | _, _ => false

def all2B {α β : Type} (r : α → β → Bool) : List α → List β → Bool
  | [], [] => true
  | a :: l, b :: m => r a b && all2B r l m
  | _, _ => false

def relB (c : CW) (s : WS) : Bool :=
  s.ents.length == c.issued.length &&
  (c.issued.zipIdx.all (fun p => optRelB (s.alive p.2) (absEnt c.w p.1))) &&
  s.deps == c.w.deps && s.lockDepth == c.w.lockDepth && s.nthreads == c.w.nthreads &&
  all2B (all2B (cmdRelB c.issued c.w.pool)) c.w.buffers s.buffers &&
  (List.range c.issued.length).all (fun o =>
    (s.marked.contains o && (s.alive o).isSome) ==
    c.w.marked.any (fun h => c.w.isValid h && ordOf c.issued h == some o)) &&
  s.marked.all (fun o => decide (o < s.ents.length)) && decide s.marked.Nodup &&
  s.marked.all (fun o => (c.issued[o]?).all (fun h => !(createHandles c.w.buffers).contains h))

theorem lookupS_none_of_not_mem {l : List (Nat × Nat)} {sid : Nat} (h : sid ∉ l.map (·.1)) : lookupS l sid = none := by
  unfold lookupS
  have : l.find? (·.1 == sid) = none := by
    rw [List.find?_eq_none]
    intro p hp hps
    exact h (List.mem_map.mpr ⟨p, hp, by simpa using hps⟩)
  rw [this]; rfl

theorem lookups_of_all {a b : List (Nat × Nat)}
    (h : ((a.map (·.1)) ++ (b.map (·.1))).all (fun sid => lookupS a sid == lookupS b sid) = true) (sid : Nat) :
    lookupS a sid = lookupS b sid := by
  by_cases hm : sid ∈ (a.map (·.1)) ++ (b.map (·.1))
  · have := List.all_eq_true.mp h sid hm
    simpa using this
  · rw [List.mem_append, not_or] at hm
    rw [lookupS_none_of_not_mem hm.1, lookupS_none_of_not_mem hm.2]

theorem entRelB_sound {a b : SEnt} (h : entRelB a b = true) : entRel a b := by
  unfold entRelB at h
  simp only [Bool.and_eq_true, beq_iff_eq] at h
  exact ⟨h.1, lookups_of_all h.2⟩

theorem optRelB_sound {a b : Option SEnt} (h : optRelB a b = true) : optRel a b := by
  cases a <;> cases b <;> simp only [optRelB, optRel] at h ⊢
  · cases h
  · cases h
  · exact entRelB_sound h

theorem cmdRelB_sound {iss : List Handle} {p : Pool} {c : Cmd} {sc : SCmd} (h : cmdRelB iss p c sc = true) :
    cmdRel iss p c sc := by
  cases c with
  | create e m sh =>
    cases sc <;> simp only [cmdRelB, cmdRel, Bool.and_eq_true, beq_iff_eq, Bool.false_eq_true] at h ⊢
    exact ⟨h.1.1, h.1.2, lookups_of_all h.2⟩
  | destroyNow e =>
    cases sc <;> simp only [cmdRelB, cmdRel, Bool.and_eq_true, beq_iff_eq, Bool.false_eq_true] at h ⊢
    exact h
  | destroy e =>
    cases sc <;> simp only [cmdRelB, cmdRel, Bool.and_eq_true, beq_iff_eq, Bool.false_eq_true] at h ⊢
    exact h
  | remove e c =>
    cases sc <;> simp only [cmdRelB, cmdRel, Bool.and_eq_true, beq_iff_eq, Bool.false_eq_true] at h ⊢
    exact h
  | assign e c v =>
    cases sc <;> simp only [cmdRelB, cmdRel, Bool.and_eq_true, beq_iff_eq, Bool.false_eq_true] at h ⊢
    exact ⟨h.1.1, h.1.2, h.2⟩

theorem all2B_sound {α β : Type} {r : α → β → Bool} {R : α → β → Prop} (hr : ∀ a b, r a b = true → R a b) :
    ∀ {l : List α} {m : List β}, all2B r l m = true → All2 R l m
  | [], [], _ => .nil
  | [], _ :: _, h => by simp [all2B] at h
  | _ :: _, [], h => by simp [all2B] at h
  | a :: l, b :: m, h => by
    simp only [all2B, Bool.and_eq_true] at h
    exact .cons (hr a b h.1) (all2B_sound hr h.2)

theorem relB_sound {c : CW} {s : WS} (h : relB c s = true) : Rel c s := by
  unfold relB at h
  simp only [Bool.and_eq_true, beq_iff_eq, decide_eq_true_eq] at h
  obtain ⟨⟨⟨⟨⟨⟨⟨⟨⟨hlen, hents⟩, hdeps⟩, hld⟩, hnt⟩, hbuf⟩, hmk⟩, hlt⟩, hnd⟩, hold⟩ := h
  refine
  { len := hlen
    ents := ?_
    deps := hdeps
    lockDepth := hld
    nthreads := hnt
    buffers := all2B_sound (fun _ _ hh => all2B_sound (fun _ _ h2 => cmdRelB_sound h2) hh) hbuf
    marked := ?_
    markedLt := fun o ho => by simpa using List.all_eq_true.mp hlt o ho
    markedNodup := hnd
    markedOld := by
      intro o ho h hh
      have := List.all_eq_true.mp hold o ho
      rw [hh] at this
      simpa using this }
  · intro o h ho
    have hmem : (h, o) ∈ c.issued.zipIdx := by
      rw [List.mem_zipIdx_iff_getElem?]; simpa using ho
    exact optRelB_sound (List.all_eq_true.mp hents (h, o) hmem)
  · intro o
    by_cases hol : o < c.issued.length
    · have := List.all_eq_true.mp hmk o (List.mem_range.mpr hol)
      simp only [beq_iff_eq] at this
      constructor
      · rintro ⟨hm, ha⟩
        have hl : (s.marked.contains o && (s.alive o).isSome) = true := by simp [hm, ha]
        rw [this] at hl
        rcases List.any_eq_true.mp hl with ⟨x, hx, hxx⟩
        simp only [Bool.and_eq_true, beq_iff_eq] at hxx
        exact ⟨x, hx, hxx.1, hxx.2⟩
      · rintro ⟨x, hx, hv, hox⟩
        have hr : (c.w.marked.any (fun h => c.w.isValid h && ordOf c.issued h == some o)) = true :=
          List.any_eq_true.mpr ⟨x, hx, by simp [hv, hox]⟩
        rw [← this] at hr
        simp only [Bool.and_eq_true, List.contains_iff_mem] at hr
        exact hr
    · constructor
      · rintro ⟨hm, ha⟩
        have := List.all_eq_true.mp hlt o hm
        simp only [decide_eq_true_eq] at this
        omega
      · rintro ⟨x, _, _, hox⟩
        exact absurd (ordOf_lt hox) hol

/-! ## `OpWf`, executably -/

def knownB (c : CW) (h : Handle) : Bool := c.issued.contains h || h.world != c.w.worldId || h == Handle.null

theorem knownB_sound {c : CW} {h : Handle} (hk : knownB c h = true) : Known c h := by
  unfold knownB at hk
  simp only [Bool.or_eq_true, List.contains_iff_mem, bne_iff_ne, ne_eq, beq_iff_eq] at hk
  rcases hk with (h1 | h1) | h1
  · exact Or.inl h1
  · exact Or.inr (Or.inl h1)
  · exact Or.inr (Or.inr h1)

def opWfB (c : CW) : Op Handle → Bool
  | .create t mask _ => decide (t < c.w.nthreads) && sortedb mask
  | .assign t e comp _ =>
    decide (t < c.w.nthreads) && (if c.w.isLocked then knownB c e else c.w.isValid e && !c.w.hasComp e comp)
  | .remove t e _ => decide (t < c.w.nthreads) && (!c.w.isLocked || knownB c e)
  | .buildNew t adds => decide (t < c.w.nthreads) && decide (adds.map (·.1)).Nodup
  | .build t e adds _ =>
    decide (t < c.w.nthreads) && decide (adds.map (·.1)).Nodup &&
    (if c.w.isLocked then knownB c e else c.w.isValid e && adds.all (fun p => !c.w.hasComp e p.1))
  | .destroy t e => decide (t < c.w.nthreads) && (!c.w.isLocked || knownB c e)
  | .destroyNow t e => decide (t < c.w.nthreads) && (!c.w.isLocked || knownB c e)
  | .clone _ => !c.w.isLocked
  | .sassign e _ _ => !c.w.isLocked && c.w.isValid e
  | .sremove _ _ => !c.w.isLocked
  | .clearArch mask => !c.w.isLocked && c.w.archs.all (fun a => a.mask != mask || a.shared.ids.isEmpty)
  | .dep _ extra => extra.all (fun x => decide (x < 128))
  | _ => true

theorem opWfB_sound {c : CW} {op : Op Handle} (h : opWfB c op = true) : OpWf c op := by
  cases op with
  | create t mask shared =>
    simp only [opWfB, Bool.and_eq_true, decide_eq_true_eq] at h
    exact ⟨h.1, maskOk_of_sortedb _ h.2⟩
  | assign t e comp v =>
    simp only [opWfB, Bool.and_eq_true, decide_eq_true_eq] at h
    refine ⟨h.1, ?_⟩
    cases hl : c.w.isLocked
    · have h2 := h.2
      rw [hl] at h2
      simp only [Bool.false_eq_true, if_false, Bool.and_eq_true, Bool.not_eq_true'] at h2 ⊢
      exact h2
    · have h2 := h.2
      rw [hl] at h2
      simp only [if_true] at h2 ⊢
      exact knownB_sound h2
  | remove t e comp =>
    simp only [opWfB, Bool.and_eq_true, decide_eq_true_eq, Bool.or_eq_true, Bool.not_eq_true'] at h
    refine ⟨h.1, fun hl => ?_⟩
    rcases h.2 with h2 | h2
    · rw [hl] at h2; cases h2
    · exact knownB_sound h2
  | buildNew t adds =>
    simp only [opWfB, Bool.and_eq_true, decide_eq_true_eq] at h
    exact ⟨h.1, h.2⟩
  | build t e adds rems =>
    simp only [opWfB, Bool.and_eq_true, decide_eq_true_eq] at h
    refine ⟨h.1.1, h.1.2, ?_⟩
    cases hl : c.w.isLocked
    · have h2 := h.2
      rw [hl] at h2
      simp only [Bool.false_eq_true, if_false, Bool.and_eq_true, List.all_eq_true, Bool.not_eq_true'] at h2 ⊢
      exact h2
    · have h2 := h.2
      rw [hl] at h2
      simp only [if_true] at h2 ⊢
      exact knownB_sound h2
  | destroy t e =>
    simp only [opWfB, Bool.and_eq_true, decide_eq_true_eq, Bool.or_eq_true, Bool.not_eq_true'] at h
    refine ⟨h.1, fun hl => ?_⟩
    rcases h.2 with h2 | h2
    · rw [hl] at h2; cases h2
    · exact knownB_sound h2
  | destroyNow t e =>
    simp only [opWfB, Bool.and_eq_true, decide_eq_true_eq, Bool.or_eq_true, Bool.not_eq_true'] at h
    refine ⟨h.1, fun hl => ?_⟩
    rcases h.2 with h2 | h2
    · rw [hl] at h2; cases h2
    · exact knownB_sound h2
  | clone e =>
    simp only [opWfB, Bool.not_eq_true'] at h
    exact h
  | sassign e sid v =>
    simp only [opWfB, Bool.and_eq_true, Bool.not_eq_true'] at h
    exact h
  | sremove e sid =>
    simp only [opWfB, Bool.not_eq_true'] at h
    exact h
  | clearArch mask =>
    simp only [opWfB, Bool.and_eq_true, Bool.not_eq_true'] at h
    refine ⟨h.1, ?_⟩
    intro a ha hm
    have := List.all_eq_true.mp h.2 a ha
    simp only [Bool.or_eq_true, bne_iff_ne, ne_eq, List.isEmpty_iff] at this
    exact this.resolve_left (fun hne => hne hm)
  | dep comp extra =>
    simp only [opWfB] at h
    exact fun x hx => by simpa using List.all_eq_true.mp h x hx
  | update => trivial
  | lock => trivial
  | unlock => trivial
  | valid e => trivial
  | has e comp => trivial
  | hasShared e sid => trivial
  | get e comp => trivial
  | archOf e => trivial

end Mustache.Proofs.Refine

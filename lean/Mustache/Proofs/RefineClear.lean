import Mustache.Proofs.RefineShared
/-!
# Refinement, stage (d): `clearArchetype`
-/
namespace Mustache.Proofs.Refine
open Mustache.Model Mustache.Spec
open Mustache.Proofs.IdTable (tabOf Ghost TInv rowHandles)
open Mustache.Proofs.Rows

variable (info : CompId → CompInfo)

/-! ## the model side -/

structure ClearSame (w w' : WM) : Prop where
  worldId : w'.worldId = w.worldId
  deps : w'.deps = w.deps
  pool : w'.pool = w.pool
  nextInst : w'.nextInst = w.nextInst
  lockDepth : w'.lockDepth = w.lockDepth
  nthreads : w'.nthreads = w.nthreads
  buffers : w'.buffers = w.buffers
  marked : w'.marked = w.marked
  locsLen : w'.locs.length = w.locs.length

theorem clearLoop_same (rows : List Row) (w : WM) : ClearSame w (clearLoop w rows) := by
  induction rows generalizing w with
  | nil => exact ⟨rfl, rfl, rfl, rfl, rfl, rfl, rfl, rfl, rfl⟩
  | cons r rows ih =>
    unfold clearLoop
    rw [List.foldl_cons]
    have := ih ({ ({ w with locs := w.locs.set r.ent.id ⟨none, (w.locOf r.ent).idx⟩ } : WM) with
      slots := w.slots.set r.ent.id ⟨if w.empty ≠ 0 then w.next else r.ent.id + 1, (r.ent.ver + 1) % 2^24⟩,
      next := r.ent.id, empty := w.empty + 1 })
    unfold clearLoop at this
    exact ⟨this.worldId, this.deps, this.pool, this.nextInst, this.lockDepth, this.nthreads, this.buffers, this.marked,
      by rw [this.locsLen]; simp⟩

theorem clearArch_same (w : WM) (ai : Nat) : ClearSame w (w.clearArch info ai).1 := by
  rw [clearArch_fst]
  have h := clearLoop_same (w.arch ai).rows w
  exact ⟨h.worldId, h.deps, h.pool, h.nextInst, h.lockDepth, h.nthreads, h.buffers, h.marked, h.locsLen⟩

theorem clearArch_cbs (w : WM) (ai : Nat) :
    (w.clearArch info ai).2 =
      (w.arch ai).rows.flatMap (fun r => ((w.arch ai).mask.filter (fun c => (info c).callbacks)).map (Cb.remove · r.ent)) := rfl

/-! ## the spec side: the entities cleared are those selected in the state before -/

def clearCond (mask : Mask) : Option SEnt → Bool
  | some e => compSet e == mask && e.shared.isEmpty
  | none => false

def clearList (s : WS) (mask : Mask) : List Nat :=
  ((s.ents.zipIdx).filter (fun p => clearCond mask p.1)).map (·.2)

theorem specClear_fold (mask : Mask) : ∀ (l : List (Option SEnt × Nat)) (acc : WS × List SCb),
    l.foldl (fun (acc : WS × List SCb) p =>
      match p.1 with
      | some e => if compSet e == mask && e.shared.isEmpty then
          let (s', c) := acc.1.doDestroy info p.2
          (s', acc.2 ++ c) else acc
      | none => acc) acc =
    ((l.filter (fun p => clearCond mask p.1)).map (·.2)).foldl (wsKill info) acc
  | [], _ => rfl
  | p :: rest, acc => by
    obtain ⟨oe, o⟩ := p
    rw [List.foldl_cons]
    cases oe with
    | none =>
      simp only [List.filter_cons, clearCond, Bool.false_eq_true, if_false]
      exact specClear_fold mask rest acc
    | some e =>
      by_cases hc : (compSet e == mask && e.shared.isEmpty) = true
      · simp only [List.filter_cons, clearCond, hc, if_true, List.map_cons, List.foldl_cons]
        exact specClear_fold mask rest _
      · simp only [List.filter_cons, clearCond, hc, Bool.false_eq_true, if_false]
        exact specClear_fold mask rest acc

theorem specClear_eq (s : WS) (mask : Mask) :
    s.clearArch info mask = (clearList s mask).foldl (wsKill info) (s, []) := by
  unfold WS.clearArch clearList
  exact specClear_fold info mask _ _

theorem mem_clearList (s : WS) (mask : Mask) (o : Nat) :
    o ∈ clearList s mask ↔ clearCond mask (s.alive o) = true ∧ o < s.ents.length := by
  unfold clearList
  simp only [List.mem_map, List.mem_filter]
  constructor
  · rintro ⟨p, ⟨hp, hc⟩, rfl⟩
    obtain ⟨oe, o⟩ := p
    have := List.mem_zipIdx hp
    simp only [Nat.zero_add, Nat.sub_zero] at this
    have hlt : o < s.ents.length := this.2.1
    refine ⟨?_, hlt⟩
    unfold WS.alive
    rw [List.getD_eq_getElem?_getD, List.getElem?_eq_getElem hlt]
    simp only [Option.getD_some]
    have h3 : oe = s.ents[o] := this.2.2
    rw [← h3]; exact hc
  · rintro ⟨hc, hlt⟩
    refine ⟨(s.ents[o], o), ⟨?_, ?_⟩, rfl⟩
    · rw [List.mem_zipIdx_iff_getElem?]
      simp [List.getElem?_eq_getElem hlt]
    · unfold WS.alive at hc
      rw [List.getD_eq_getElem?_getD, List.getElem?_eq_getElem hlt] at hc
      exact hc

theorem clearList_nodup (s : WS) (mask : Mask) : (clearList s mask).Nodup := by
  unfold clearList
  have h1 : ((s.ents.zipIdx).map (·.2)).Nodup := by
    rw [List.zipIdx_map_snd]
    exact List.nodup_range' (step := 1) (by omega)
  have h2 : (((s.ents.zipIdx).filter (fun p => clearCond mask p.1)).map (·.2)).Sublist ((s.ents.zipIdx).map (·.2)) :=
    List.Sublist.map _ List.filter_sublist
  exact h1.sublist h2

/-! ## which entities are cleared -/

theorem shared_nil_of_lookups {l : List (Nat × Nat)} (h : ∀ sid, lookupS l sid = none) : l = [] := by
  cases l with
  | nil => rfl
  | cons p t =>
    have := h p.1
    rw [lookupS_cons, if_pos rfl] at this
    cases this

theorem absShared_nil_iff {p : Pool} {sh : Shared} (hwf : sh.WF) : absShared p sh = [] ↔ sh.ids = [] := by
  unfold absShared
  rw [List.map_eq_nil_iff]
  constructor
  · intro h
    cases hi : sh.ids with
    | nil => rfl
    | cons a t =>
      have hl := hwf.1
      cases hd : sh.data with
      | nil => rw [hi, hd] at hl; simp at hl
      | cons b u => rw [hi, hd] at h; simp at h
  · intro h; rw [h]; rfl

/-- under `Rel`: ordinal `o` (handle `h`) is selected by `clearArch mask` iff `h` owns a row of THE shared-free
archetype with that mask -/
theorem clear_select {c : CW} {s : WS} (hi : Inv c) (hr : Rel c s) {mask : Mask} {i : Nat}
    (hilt : i < c.w.archs.length) (him : (c.w.arch i).mask = mask)
    (hnosh : ∀ a ∈ c.w.archs, a.mask = mask → a.shared.ids = []) {o : Nat} {h : Handle} (ho : c.issued[o]? = some h) :
    o ∈ clearList s mask ↔ h ∈ rowHandles c.w i := by
  have hrel := hr.ents o h ho
  have holt : o < s.ents.length := by rw [hr.len]; exact (List.getElem?_eq_some_iff.mp ho).1
  rw [mem_clearList]
  constructor
  · rintro ⟨hc, _⟩
    cases hal : s.alive o with
    | none => rw [hal] at hc; cases hc
    | some e =>
      rw [hal] at hc hrel
      simp only [clearCond, Bool.and_eq_true, beq_iff_eq, List.isEmpty_iff] at hc
      cases hv : c.w.isValid h with
      | false => rw [absEnt_invalid hv] at hrel; cases hrel
      | true =>
        rcases absEnt_isSome_of_valid hi.live hi.rows hv with ⟨ai, j, r, hrow, hent, hloc, habs⟩
        rw [habs] at hrel
        have hail : ai < c.w.archs.length := lt_of_row hrow
        have hcs : compSet e = (c.w.arch ai).mask := compSet_of_rel hrel.1 (hi.rows.vals ai j r hrow)
        have hm : (c.w.arch ai).mask = mask := hcs.symm.trans hc.1
        have hids : (c.w.arch ai).shared.ids = [] := hnosh _ (arch_mem hail) hm
        have hidsi : (c.w.arch i).shared.ids = [] := hnosh _ (arch_mem hilt) him
        have hd1 : (c.w.arch ai).shared.data = [] := by
          have := (hi.shared _ (arch_mem hail)).1.1; rw [hids] at this; exact List.length_eq_zero_iff.mp this.symm
        have hd2 : (c.w.arch i).shared.data = [] := by
          have := (hi.shared _ (arch_mem hilt)).1.1; rw [hidsi] at this; exact List.length_eq_zero_iff.mp this.symm
        have : ai = i := hi.keys.distinct ai i hail hilt (hm.trans him.symm) (hd1.trans hd2.symm)
        subst this
        exact List.mem_map.mpr ⟨r, List.mem_of_getElem? hrow, hent⟩
  · intro hmem
    rcases List.mem_map.mp hmem with ⟨r, hr', hent⟩
    rcases List.mem_iff_getElem?.mp hr' with ⟨j, hrow⟩
    have hv : c.w.isValid h = true := by rw [← hent]; exact hi.live.row_live i j r hrow
    have hloc := hi.rows.locOf hrow
    rw [hent] at hloc
    rw [absEnt_of_row hv hloc hrow, optRel_some_right] at hrel
    rcases hrel with ⟨e, hal, hre⟩
    refine ⟨?_, holt⟩
    rw [hal]
    simp only [clearCond, Bool.and_eq_true, beq_iff_eq, List.isEmpty_iff]
    refine ⟨(compSet_of_rel hre.1 (hi.rows.vals i j r hrow)).trans him, ?_⟩
    apply shared_nil_of_lookups
    intro sid
    rw [hre.2 sid]
    simp only
    have hidsi : (c.w.arch i).shared.ids = [] := hnosh _ (arch_mem hilt) him
    rw [(absShared_nil_iff (hi.shared _ (arch_mem hilt)).1).mpr hidsi]
    rfl

/-! ## the model state after `clearArchetype(i)` -/

theorem rowHandles_nodup {w : WM} (hok : RowsOK w) (i : Nat) : (rowHandles w i).Nodup := by
  unfold rowHandles
  rw [List.nodup_iff_pairwise_ne, List.pairwise_map]
  rw [List.pairwise_iff_getElem]
  intro a b ha hb hab heq
  have h1 : (w.arch i).rows[a]? = some (w.arch i).rows[a] := List.getElem?_eq_getElem ha
  have h2 : (w.arch i).rows[b]? = some (w.arch i).rows[b] := List.getElem?_eq_getElem hb
  have := (hok.unique h1 h2 (by rw [heq])).2
  omega

theorem clearArch_post {c : CW} (hi : Inv c) (hb : Bounds c) (i : Nat) :
    Inv ⟨(c.w.clearArch info i).1, c.issued⟩ ∧
    (∀ h, (c.w.clearArch info i).1.isValid h = true ↔ (c.w.isValid h = true ∧ h ∉ rowHandles c.w i)) ∧
    (∀ h, h ∉ rowHandles c.w i → absEnt (c.w.clearArch info i).1 h = absEnt c.w h) := by
  obtain ⟨w, iss⟩ := c
  rcases hi.tinv with ⟨g, tinv, hiss, hpend⟩
  have hle : (tabOf w).slots.length ≤ 2^30 - 1 := Nat.le_of_lt hb.inRange
  have hvalw : ∀ h, w.isValid h = true ↔ h ∈ g.live := fun h => valid_iff_ghost tinv hle h
  have hslive : ∀ h ∈ rowHandles w i, h ∈ g.live := by
    intro h hh
    rcases List.mem_map.mp hh with ⟨r, hr, rfl⟩
    rcases List.mem_iff_getElem?.mp hr with ⟨j, hrow⟩
    exact (hvalw _).mp (hi.live.row_live i j r hrow)
  have hnd := rowHandles_nodup hi.rows i
  have hnw : ∀ h ∈ rowHandles w i, h.ver + 1 < 2^24 := by
    intro h hh
    have := tinv.live_issued h (hslive h hh)
    rw [hiss] at this
    exact hb.noWrap h (List.mem_reverse.mp this)
  have htinv' : TInv (tabOf (w.clearArch info i).1) (g.destroyAll (rowHandles w i)) := by
    rw [Mustache.Proofs.IdTable.clearArch_tab]
    exact Mustache.Proofs.IdTable.clearList_inv tinv _ hslive hnd hnw
  have hslen : (w.clearArch info i).1.slots.length = w.slots.length := by
    have := congrArg (fun t : Tab => t.slots.length) (Mustache.Proofs.IdTable.clearArch_tab info w i)
    exact this.trans (Mustache.Proofs.IdTable.clearList_length _ _)
  have hval' : ∀ h, (w.clearArch info i).1.isValid h = true ↔ (w.isValid h = true ∧ h ∉ rowHandles w i) := by
    intro h
    rw [valid_iff_ghost htinv' (by rw [hslen]; exact hle) h, Mustache.Proofs.IdTable.mem_destroyAll, hvalw h]
  rcases clearArch_spec info hi.rows i with ⟨hok', hempty, hother, hkeep⟩
  have hsame := clearArch_same info w i
  have hks := keysSame_clearArch info w i
  have habs : ∀ h, h ∉ rowHandles w i → absEnt (w.clearArch info i).1 h = absEnt w h := by
    intro h hh
    cases hv : w.isValid h with
    | false =>
      have : (w.clearArch info i).1.isValid h = false := by
        cases hv' : (w.clearArch info i).1.isValid h with
        | false => rfl
        | true => rw [((hval' h).mp hv').1] at hv; cases hv
      rw [absEnt_invalid hv, absEnt_invalid this]
    | true =>
      rcases hi.live.live_in h hv with ⟨aj, j, r, hrow, rfl⟩
      have hne : aj ≠ i := by
        rintro rfl
        exact hh (List.mem_map.mpr ⟨r, List.mem_of_getElem? hrow, rfl⟩)
      have hk := hkeep aj j r hne hrow
      have hrow' : ((w.clearArch info i).1.arch aj).rows[j]? = some r := by rw [hother aj hne]; exact hrow
      rw [absEnt_of_row (hk.2.trans hv) (locOf_of_locs hk.1) hrow', absEnt_of_row hv (hi.rows.locOf hrow) hrow,
        hother aj hne, hsame.pool]
  refine ⟨?_, hval', habs⟩
  have hkn : ∀ e, Known ⟨w, iss⟩ e → Known ⟨(w.clearArch info i).1, iss⟩ e :=
    fun e hk => Known.mono (w := w) hk hsame.worldId (fun _ h => h)
  exact
  { tinv := ⟨g.destroyAll (rowHandles w i), htinv', by rw [Mustache.Proofs.IdTable.destroyAll_issued]; exact hiss,
      fun h => by
        rw [Mustache.Proofs.IdTable.destroyAll_pending]
        show h ∈ g.pending ↔ h ∈ createHandles (w.clearArch info i).1.buffers
        rw [hsame.buffers]; exact hpend h⟩
    pendNodup := by show (createHandles (w.clearArch info i).1.buffers).Nodup; rw [hsame.buffers]; exact hi.pendNodup
    rows := hok'
    keys := hks.keysOK hi.keys
    live := by
      constructor
      · intro e he
        rcases (hval' e).mp he with ⟨hv, hnot⟩
        rcases hi.live.live_in e hv with ⟨aj, j, r, hrow, rfl⟩
        have hne : aj ≠ i := by
          rintro rfl
          exact hnot (List.mem_map.mpr ⟨r, List.mem_of_getElem? hrow, rfl⟩)
        exact ⟨aj, j, r, by rw [hother aj hne]; exact hrow, rfl⟩
      · intro aj j r hrow
        by_cases hne : aj = i
        · subst hne
          rw [hempty] at hrow; cases hrow
        · rw [hother aj hne] at hrow
          rw [(hkeep aj j r hne hrow).2]
          exact hi.live.row_live aj j r hrow
    pool := by
      constructor
      · rw [hsame.pool]; exact hi.pool.vals_nodup
      · rw [hsame.pool]; exact hi.pool.insts_nodup
      · rw [hsame.pool, hsame.nextInst]; exact hi.pool.inst_lt
      · rw [hsame.pool]; exact hi.pool.inst_sid
    shared := by
      have h2 := AllKeys.keysSame (P := fun _ sh => SharedIn w.pool sh) hi.shared hks
      show AllKeys (fun _ sh => SharedIn (w.clearArch info i).1.pool sh) _
      rw [hsame.pool]; exact h2
    depsB := by show DepsBounded (w.clearArch info i).1.deps; rw [hsame.deps]; exact hi.depsB
    locsCover := by
      show (w.clearArch info i).1.slots.length ≤ (w.clearArch info i).1.locs.length
      rw [hslen, hsame.locsLen]; exact hi.locsCover
    bufLe := by
      show (w.clearArch info i).1.buffers.length ≤ (w.clearArch info i).1.nthreads
      rw [hsame.buffers, hsame.nthreads]; exact hi.bufLe
    bufLen := by
      intro h
      show (w.clearArch info i).1.buffers.length = (w.clearArch info i).1.nthreads
      rw [hsame.buffers, hsame.nthreads]; exact hi.bufLen (by rw [← hsame.lockDepth]; exact h)
    bufEmpty := by
      intro h
      show ∀ b ∈ (w.clearArch info i).1.buffers, b = []
      rw [hsame.buffers]; exact hi.bufEmpty (by rw [← hsame.lockDepth]; exact h)
    bufKnown := by
      show ∀ b ∈ (w.clearArch info i).1.buffers, ∀ cmd ∈ b, _ ∧ cmdOk (w.clearArch info i).1.pool cmd
      rw [hsame.buffers, hsame.pool]
      intro b hb' cmd hc
      exact ⟨hkn _ (hi.bufKnown b hb' cmd hc).1, (hi.bufKnown b hb' cmd hc).2⟩
    markedKnown := by
      show ∀ h ∈ (w.clearArch info i).1.marked, _ ∧ h ∉ createHandles (w.clearArch info i).1.buffers
      rw [hsame.buffers, hsame.marked]
      intro h hm
      exact ⟨hkn _ (hi.markedKnown h hm).1, (hi.markedKnown h hm).2⟩
    markedRange := by
      show ∀ h ∈ (w.clearArch info i).1.marked, HRange (w.clearArch info i).1.worldId h
      rw [hsame.marked, hsame.worldId]; exact hi.markedRange
    markedSorted := by
      show (w.clearArch info i).1.marked.Pairwise _; rw [hsame.marked]; exact hi.markedSorted }

/-! ## the relation afterwards -/

theorem killEnts_length (ents : List (Option SEnt)) (a : List Nat) : (killEnts ents a).length = ents.length := by
  induction a generalizing ents with
  | nil => rfl
  | cons o rest ih => simp only [killEnts, List.foldl_cons] at ih ⊢; rw [ih, List.length_set]

theorem alive_kill (s : WS) (L : List Nat) (o : Nat) :
    WS.alive { s with ents := killEnts s.ents L } o = if o ∈ L then none else s.alive o := by
  unfold WS.alive
  simp only [List.getD_eq_getElem?_getD, killEnts_get]
  by_cases h : o ∈ L
  · simp only [h, if_true]
    cases s.ents[o]? <;> rfl
  · simp only [h, if_false]

theorem clear_rel {c : CW} {s : WS} (hi : Inv c) (hr : Rel c s) {w' : WM} {hs : List Handle} {L : List Nat}
    (hsel : ∀ o h, c.issued[o]? = some h → (o ∈ L ↔ h ∈ hs))
    (hval' : ∀ h, w'.isValid h = true ↔ (c.w.isValid h = true ∧ h ∉ hs))
    (habs : ∀ h, h ∉ hs → absEnt w' h = absEnt c.w h) (hsame : ClearSame c.w w') :
    Rel ⟨w', c.issued⟩ { s with ents := killEnts s.ents L } := by
  refine
  { len := by show (killEnts s.ents L).length = _; rw [killEnts_length]; exact hr.len
    ents := ?_, deps := hr.deps.trans hsame.deps.symm, lockDepth := hr.lockDepth.trans hsame.lockDepth.symm
    nthreads := hr.nthreads.trans hsame.nthreads.symm, buffers := ?_, marked := ?_
    markedLt := by
      intro o ho
      show o < (killEnts s.ents L).length
      rw [killEnts_length]; exact hr.markedLt o ho
    markedNodup := hr.markedNodup
    markedOld := by
      intro o ho h hh
      show h ∉ createHandles w'.buffers
      rw [hsame.buffers]; exact hr.markedOld o ho h hh }
  · intro o h ho
    rw [alive_kill]
    by_cases hoL : o ∈ L
    · rw [if_pos hoL]
      have hh := (hsel o h ho).mp hoL
      have : w'.isValid h = false := by
        cases hv : w'.isValid h with
        | false => rfl
        | true => exact absurd hh ((hval' h).mp hv).2
      show optRel none (absEnt w' h)
      rw [absEnt_invalid this]; trivial
    · rw [if_neg hoL]
      show optRel _ (absEnt w' h)
      rw [habs h (fun hh => hoL ((hsel o h ho).mpr hh))]
      exact hr.ents o h ho
  · show All2 (All2 (cmdRel c.issued w'.pool)) w'.buffers s.buffers
    rw [hsame.buffers, hsame.pool]; exact hr.buffers
  · intro o
    show (o ∈ s.marked ∧ (WS.alive { s with ents := killEnts s.ents L } o).isSome = true) ↔
      ∃ h ∈ w'.marked, w'.isValid h = true ∧ ordOf c.issued h = some o
    rw [hsame.marked, alive_kill]
    constructor
    · rintro ⟨hm, ha⟩
      by_cases hoL : o ∈ L
      · rw [if_pos hoL] at ha; cases ha
      · rw [if_neg hoL] at ha
        rcases (hr.marked o).mp ⟨hm, ha⟩ with ⟨h, hmk, hv, hord⟩
        have ho := ordOf_some hord
        exact ⟨h, hmk, (hval' h).mpr ⟨hv, fun hh => hoL ((hsel o h ho).mpr hh)⟩, hord⟩
    · rintro ⟨h, hmk, hv, hord⟩
      have ho := ordOf_some hord
      rcases (hval' h).mp hv with ⟨hvw, hnot⟩
      have hoL : o ∉ L := fun hh => hnot ((hsel o h ho).mp hh)
      rw [if_neg hoL]
      exact (hr.marked o).mpr ⟨h, hmk, hvw, hord⟩

/-! ## `clearArchetype` -/

theorem killCbs_selected (s : WS) (mask : Mask) {o : Nat} (ho : o ∈ clearList s mask) :
    killCbs info s o = ((mask.filter (fun c => (info c).callbacks)).map (fun x => ((false, x, o) : SCb))) := by
  rcases (mem_clearList s mask o).mp ho with ⟨hc, _⟩
  unfold killCbs WS.doDestroy
  cases hal : s.alive o with
  | none => rw [hal] at hc; cases hc
  | some e =>
    rw [hal] at hc
    simp only [clearCond, Bool.and_eq_true, beq_iff_eq] at hc
    simp only [cbDiff_nil_right, hc.1]
    congr 1
    apply List.filter_congr
    intro x _; simp

theorem clearArch_refines {c : CW} {s : WS} (hi : Inv c) (hb : Bounds c) (hr : Rel c s)
    (hl : c.w.isLocked = false) (mask : Mask)
    (hnosh : ∀ a ∈ c.w.archs, a.mask = mask → a.shared.ids = []) :
    StepRefines info c s (.clearArch mask) := by
  obtain ⟨w, iss⟩ := c
  have hs0 : s.step info (Op.mapRef (ordOf iss) (.clearArch mask : Op Handle)) =
      (((clearList s mask).foldl (wsKill info) (s, [])).1, .ok, ((clearList s mask).foldl (wsKill info) (s, [])).2) := by
    simp only [Op.mapRef, WS.step, specClear_eq]
  rw [wsKill_fold info _ s [] (clearList_nodup s mask)] at hs0
  by_cases hilt : w.archs.findIdx (fun a => a.mask == mask) < w.archs.length
  · -- an archetype with this mask exists: it is cleared
    generalize hidef : w.archs.findIdx (fun a => a.mask == mask) = i at hilt
    have him : (w.arch i).mask = mask := by
      have := List.findIdx_getElem (w := by rw [hidef]; exact hilt) (p := fun a : Arch => a.mask == mask) (xs := w.archs)
      simp only [hidef, beq_iff_eq] at this
      rw [arch_def, List.getD_eq_getElem?_getD, List.getElem?_eq_getElem hilt]
      exact this
    have hstep : CW.step info ⟨w, iss⟩ (.clearArch mask) = (⟨(w.clearArch info i).1, iss⟩, .ok, (w.clearArch info i).2) := by
      simp only [CW.step, WM.step, hidef, hilt, if_true, issueOut]
    rcases clearArch_post info hi hb i with ⟨hinv', hval', habs⟩
    have hsel : ∀ o h, iss[o]? = some h → (o ∈ clearList s mask ↔ h ∈ rowHandles w i) :=
      fun o h ho => clear_select (c := ⟨w, iss⟩) hi hr hilt him hnosh ho
    have hrel' := clear_rel (c := ⟨w, iss⟩) hi hr hsel hval' habs (clearArch_same info w i)
    unfold StepRefines
    rw [hstep, hs0]
    refine ⟨hinv', hrel', trivial, ?_⟩
    simp only [isUnlockOp, Bool.false_eq_true, if_false, List.nil_append]
    -- callbacks
    unfold cbsAgree
    rw [clearArch_cbs, him]
    -- every row handle has an ordinal
    have hord : ∀ r ∈ (w.arch i).rows, ∃ o, ordOf iss r.ent = some o ∧ o ∈ clearList s mask := by
      intro r hr'
      rcases List.mem_iff_getElem?.mp hr' with ⟨j, hrow⟩
      have hv := hi.live.row_live i j r hrow
      have hmem := valid_issued (c := ⟨w, iss⟩) hi hb hv
      cases ho : ordOf iss r.ent with
      | none => exact absurd hmem ((ordOf_none_iff _ _).mp ho)
      | some o =>
        exact ⟨o, rfl, (hsel o r.ent (ordOf_some ho)).mpr (List.mem_map.mpr ⟨r, hr', rfl⟩)⟩
    have hL : ((w.arch i).rows.map (fun r => (ordOf iss r.ent).getD 0)).Perm (clearList s mask) := by
      rw [List.perm_ext_iff_of_nodup _ (clearList_nodup s mask)]
      · intro o
        constructor
        · intro ho
          rcases List.mem_map.mp ho with ⟨r, hr', rfl⟩
          rcases hord r hr' with ⟨o, h1, h2⟩
          rw [h1]; exact h2
        · intro ho
          rcases (mem_clearList s mask o).mp ho with ⟨_, holt⟩
          have holt' : o < iss.length := by rw [← hr.len]; exact holt
          have hio : iss[o]? = some iss[o] := List.getElem?_eq_getElem holt'
          have := (hsel o _ hio).mp ho
          rcases List.mem_map.mp this with ⟨r, hr', hre⟩
          refine List.mem_map.mpr ⟨r, hr', ?_⟩
          rw [hre, ordOf_unique (issued_nodup (c := ⟨w, iss⟩) hi) hio]; rfl
      · -- distinct rows have distinct ordinals
        have hnd := rowHandles_nodup hi.rows i (w := w)
        unfold rowHandles at hnd
        rw [List.nodup_iff_pairwise_ne, List.pairwise_map] at hnd ⊢
        refine hnd.imp_of_mem ?_
        intro a b ha hb' hab heq
        rcases hord a ha with ⟨oa, h1, _⟩
        rcases hord b hb' with ⟨ob, h2, _⟩
        rw [h1, h2] at heq
        simp only [Option.getD_some] at heq
        have e1 := ordOf_some h1
        have e2 := ordOf_some h2
        rw [heq] at e1
        rw [e1] at e2
        exact hab (Option.some.inj e2)
    have hmodel : ((w.arch i).rows.flatMap (fun r => (mask.filter (fun c => (info c).callbacks)).map (Cb.remove · r.ent))).map
          (cbAbs iss) =
        (((w.arch i).rows.map (fun r => (ordOf iss r.ent).getD 0)).flatMap
          (fun o => (mask.filter (fun c => (info c).callbacks)).map (fun x => ((false, x, o) : SCb)))).map some := by
      rw [List.map_flatMap, List.flatMap_map, List.map_flatMap]
      apply flatMap_congr'
      intro r hr'
      rcases hord r hr' with ⟨o, h1, _⟩
      rw [cbAbs_remove_map h1, h1]; rfl
    rw [hmodel]
    apply List.Perm.map
    have hspec : (clearList s mask).flatMap (killCbs info s) =
        (clearList s mask).flatMap (fun o => (mask.filter (fun c => (info c).callbacks)).map (fun x => ((false, x, o) : SCb))) :=
      flatMap_congr' (fun o ho => killCbs_selected info s mask ho)
    rw [hspec]
    exact List.Perm.flatMap_right _ hL
  · -- no archetype with this mask: nothing is selected
    have hstep : CW.step info ⟨w, iss⟩ (.clearArch mask) = (⟨w, iss⟩, .noArch, []) := by
      simp only [CW.step, WM.step, hilt, if_false, issueOut]
    have hnil : clearList s mask = [] := by
      apply List.eq_nil_iff_forall_not_mem.mpr
      intro o ho
      rcases (mem_clearList s mask o).mp ho with ⟨hc, holt⟩
      have holt' : o < iss.length := by rw [← hr.len]; exact holt
      have hio : iss[o]? = some iss[o] := List.getElem?_eq_getElem holt'
      have hrel := hr.ents o _ hio
      cases hal : s.alive o with
      | none => rw [hal] at hc; cases hc
      | some e =>
        rw [hal] at hc hrel
        simp only [clearCond, Bool.and_eq_true, beq_iff_eq] at hc
        cases hv : w.isValid iss[o] with
        | false => rw [show (⟨w, iss⟩ : CW).w = w from rfl, absEnt_invalid hv] at hrel; cases hrel
        | true =>
          rcases absEnt_isSome_of_valid hi.live hi.rows hv with ⟨ai, j, r, hrow, _, _, habs⟩
          rw [show (⟨w, iss⟩ : CW).w = w from rfl, habs] at hrel
          have hcs : compSet e = (w.arch ai).mask := compSet_of_rel hrel.1 (hi.rows.vals ai j r hrow)
          have hail : ai < w.archs.length := lt_of_row hrow
          apply hilt
          apply List.findIdx_lt_length_of_exists
          refine ⟨w.arch ai, arch_mem hail, ?_⟩
          simp only [beq_iff_eq]
          exact hcs.symm.trans hc.1
    unfold StepRefines
    rw [hstep, hs0, hnil]
    simp only [killEnts, List.foldl_nil, List.flatMap_nil, List.append_nil]
    exact ⟨hi, hr, trivial, by simp [isUnlockOp, cbsAgree]⟩

end Mustache.Proofs.Refine

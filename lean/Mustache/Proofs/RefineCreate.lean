import Mustache.Proofs.RefineBorn
/-!
# Refinement, stage (c): unlocked `create`
-/
namespace Mustache.Proofs.Refine
open Mustache.Model Mustache.Spec
open Mustache.Proofs.IdTable (tabOf Ghost TInv)
open Mustache.Proofs.Rows

variable (info : CompId → CompInfo)

theorem allocId_ctl (w : WM) : SameCtl w (w.allocId).1 := by
  unfold WM.allocId
  split
  · exact ⟨rfl, rfl, rfl, rfl, rfl, rfl, rfl, rfl, rfl⟩
  · split
    · exact ⟨rfl, rfl, rfl, rfl, rfl, rfl, rfl, rfl, rfl⟩
    · exact SameCtl.refl w

theorem allocId_marked (w : WM) : (w.allocId).1.marked = w.marked := by
  unfold WM.allocId
  split
  · rfl
  · split <;> rfl

/-- the state after `getArch` + `allocId` + an inserted row, seen from the state before -/
structure BornFacts (w w' : WM) (g : WM) (h : Handle) : Prop where
  ctl : SameCtl w w'
  marked : w'.marked = w.marked
  cover : w.slots.length ≤ w.locs.length → w'.slots.length ≤ w'.locs.length
  keys : KeysSame g w'

theorem bornFacts_insert (w : WM) (m : Mask) (sh : Shared) (vals : List Val) :
    BornFacts w (insertRow ((w.getArch m sh).1.allocId).1 (w.getArch m sh).2 ((w.getArch m sh).1.allocId).2 vals)
      (w.getArch m sh).1 ((w.getArch m sh).1.allocId).2 := by
  have hg := getArch_sameTable w m sh
  have hins := insertRow_sameTable ((w.getArch m sh).1.allocId).1 (w.getArch m sh).2 ((w.getArch m sh).1.allocId).2 vals
  refine ⟨hg.ctl.trans ((allocId_ctl _).trans hins.ctl), ?_, ?_, ?_⟩
  · rw [hins.marked, allocId_marked, hg.marked]
  · intro hc
    rw [hins.slots, insertRow_locs_length]
    apply allocId_cover
    rw [hg.slots, Mustache.Proofs.Rows.getArch_locs]; exact hc
  · exact (KeysSame.of_archs (allocId_archs _)).trans
      (insertRow_keysSame _ _ _ _ (by rw [allocId_archs]; exact getArch_idx_lt w m sh))

/-- unlocked `create`, unfolded -/
theorem create_form (w : WM) (t : Nat) (mask : Mask) (sh : Shared) (hl : w.isLocked = false) :
    ∃ vals, w.create info t mask sh =
      (insertRow ((w.getArch mask sh).1.allocId).1 (w.getArch mask sh).2 ((w.getArch mask sh).1.allocId).2 vals,
       ((w.getArch mask sh).1.allocId).2,
       ((closedMask w.deps mask).filter (fun c => (info c).callbacks && !([] : Mask).contains c)).map
          (Cb.assign · ((w.getArch mask sh).1.allocId).2)) := by
  rcases archInsert_default_vals info ((w.getArch mask sh).1.allocId).1 (w.getArch mask sh).2
    ((w.getArch mask sh).1.allocId).2 with ⟨vals, heq, _, _⟩
  refine ⟨vals, ?_⟩
  unfold WM.create
  simp only [hl, Bool.false_eq_true, if_false]
  rw [← heq]
  refine Prod.ext rfl (Prod.ext rfl ?_)
  simp only [WM.archInsert, allocId_arch, (getArch_key w mask sh).1]
  by_cases hm : (([] : Mask) == closedMask w.deps mask) = true
  · have : closedMask w.deps mask = [] := by
      have := hm; simp only [beq_iff_eq] at this; exact this.symm
    simp [this]
  · simp only [hm, Bool.false_eq_true, if_false]

theorem specPair_nil (x : CompId) : specPair info [] [] x = (x, defaultVal info x) := rfl

theorem cbDiff_nil_left (o : Nat) (tm : Mask) :
    cbDiff info o [] tm = (tm.filter (fun c => (info c).callbacks && !([] : Mask).contains c)).map
      (fun x => ((true, x, o) : SCb)) := by
  unfold cbDiff; simp

theorem bounds_frame {w w' : WM} {iss : List Handle} (hb : Bounds ⟨w, iss⟩) (hs : w'.slots = w.slots) :
    Bounds ⟨w', iss⟩ := ⟨by show w'.slots.length < _; rw [hs]; exact hb.inRange, hb.noWrap⟩

/-- unlocked `create(mask, shared descriptor)` against `WS.doCreate` with ANY list of shared values that reads like
the descriptor (the `.create` operation: type ids at value 0 through the pool; `create(Archetype&)`: the instances
the archetype already has) -/
theorem create_unlocked_core {w1 : WM} {iss : List Handle} {s : WS} (hi1 : Inv ⟨w1, iss⟩) (hb1 : Bounds ⟨w1, iss⟩)
    (hr1 : Rel ⟨w1, iss⟩ s) (hl1 : w1.isLocked = false) (t : Nat) (mask : Mask) (hm : MaskOk mask) (sh : Shared)
    (hshin : SharedIn w1.pool sh) (ssh : List (Nat × Nat))
    (hv : ∀ sid, lookupS ssh sid = lookupS (absShared w1.pool sh) sid)
    (hb' : Bounds ⟨(w1.create info t mask sh).1, iss ++ [(w1.create info t mask sh).2.1]⟩) :
    Inv ⟨(w1.create info t mask sh).1, iss ++ [(w1.create info t mask sh).2.1]⟩ ∧
    Rel ⟨(w1.create info t mask sh).1, iss ++ [(w1.create info t mask sh).2.1]⟩ (s.doCreate info mask ssh).1 ∧
    outAgree (iss ++ [(w1.create info t mask sh).2.1]) (.created (w1.create info t mask sh).2.1)
      (.created (s.doCreate info mask ssh).2.1) ∧
    cbsAgree (iss ++ [(w1.create info t mask sh).2.1]) (w1.create info t mask sh).2.2 (s.doCreate info mask ssh).2.2 := by
  have ha1 : AllocOK w1 := allocOK_of_inv (c := ⟨w1, iss⟩) hi1 hb1
  rcases create_unlocked info hi1.rows ha1 t mask sh hl1 hm with ⟨ai, vals, hstep, howns, hmask, hdata, hvals, hfresh⟩
  rcases create_form info w1 t mask sh hl1 with ⟨vals2, hform⟩
  have facts := bornFacts_insert w1 mask sh vals2
  have hw'eq : (w1.create info t mask sh).1 =
      insertRow ((w1.getArch mask sh).1.allocId).1 (w1.getArch mask sh).2 ((w1.getArch mask sh).1.allocId).2 vals2 := by
    rw [hform]
  have hheq : (w1.create info t mask sh).2.1 = ((w1.getArch mask sh).1.allocId).2 := by rw [hform]
  have hcbeq : (w1.create info t mask sh).2.2 =
      ((closedMask w1.deps mask).filter (fun c => (info c).callbacks && !([] : Mask).contains c)).map
          (Cb.assign · (w1.create info t mask sh).2.1) := by rw [hform]
  rw [← hw'eq, ← hheq] at facts
  rw [hcbeq]
  generalize hw'def : (w1.create info t mask sh).1 = w' at *
  generalize hhdef : (w1.create info t mask sh).2.1 = h at *
  have htab := Mustache.Proofs.IdTable.create_tab info w1 t mask sh
  rw [hw'def, hhdef] at htab
  simp only [hl1, Bool.false_eq_true, if_false] at htab
  have hpool' : w'.pool = w1.pool := facts.ctl.pool
  have hdeps' : w'.deps = w1.deps := facts.ctl.deps
  have hsh' : SharedPooled w' := by
    have h1 := AllKeys.getArch (P := fun _ x => SharedIn w1.pool x) (w := w1) hi1.shared mask sh hshin
    have h2 := h1.keysSame facts.keys
    show AllKeys (fun _ x => SharedIn w'.pool x) w'
    rw [hpool']; exact h2
  have hdeps1 : s.deps = w1.deps := hr1.deps
  -- the new record
  have hailt : ai < w'.archs.length := by
    rcases howns.here with ⟨n, _, hrow⟩; exact lt_of_row hrow
  have hshai : (w'.arch ai).shared = sh := by
    have h1 : SharedIn w1.pool (w'.arch ai).shared := by
      have := hsh' _ (arch_mem hailt)
      rw [← hpool']; exact this
    exact shared_eq_of_data hi1.pool h1 hshin hdata
  have htmok : MaskOk (closedMask w1.deps mask) := maskOk_closedMask w1.deps hm
  have hvlen : vals.length = (closedMask w1.deps mask).length := by
    rcases howns.here with ⟨n, _, hrow⟩
    have := hstep.ok.vals ai n _ hrow
    rw [hmask] at this
    exact this
  have hx : optRel (some ⟨rebuild info [] (closed s.deps mask) [], ssh⟩) (absEnt w' h) := by
    rw [owns_absEnt howns, hmask, hshai, hpool']
    refine ⟨?_, fun sid => ?_⟩
    · show rebuild info [] (closed s.deps mask) [] = _
      rw [hdeps1]
      symm
      apply zip_eq_rebuild info (maskOk_nodup htmok) hvlen
      intro x hx
      rw [specPair_nil, hvals x hx]
    · exact hv sid
  have hborn := born_refines hi1 hr1 hl1 htab.1 htab.2 hstep howns hfresh hsh' facts.ctl facts.marked
    (facts.cover hi1.locsCover) hb' _ hx
  simp only [WS.doCreate]
  refine ⟨hborn.1, hborn.2, ⟨?_, ?_⟩, ?_⟩
  · rw [hr1.len]; exact ordOf_snoc_self iss h
  · rw [hr1.len]; simp
  · unfold cbsAgree
    rw [cbAbs_assign_map (k := s.ents.length) (by rw [hr1.len]; exact ordOf_snoc_self iss h), cbDiff_nil_left,
      hdeps1]
    rfl

theorem create_unlocked_refines {c : CW} {s : WS} (hi : Inv c) (hb : Bounds c) (hr : Rel c s)
    (hl : c.w.isLocked = false) (t : Nat) (mask : Mask) (shared : List Nat) (hm : MaskOk mask)
    (hb' : Bounds (c.step info (.create t mask shared)).1) :
    StepRefines info c s (.create t mask shared) := by
  obtain ⟨w, iss⟩ := c
  have hl0 : w.isLocked = false := hl
  have hnl := unlocked_spec hr hl
  have spec := poolFold_spec shared w Shared.null [] hi.pool (sharedIn_null _)
    (fun sid => by simp [absShared, Shared.null, lookupS])
  generalize hpf : poolFold w shared Shared.null = pf at spec
  obtain ⟨w1, sh⟩ := pf
  simp only at spec
  have hi1 : Inv ⟨w1, iss⟩ := inv_frame (c := ⟨w, iss⟩) hi spec.1 spec.2.1 spec.2.2.1
  have hr1 : Rel ⟨w1, iss⟩ s := rel_frame (c := ⟨w, iss⟩) hi hr spec.1 spec.2.1
  have hl1 : w1.isLocked = false := by
    have : w1.lockDepth = w.lockDepth := spec.1.lockDepth
    unfold WM.isLocked at hl0 ⊢
    rw [this]; exact hl0
  have hb1 : Bounds ⟨w1, iss⟩ := bounds_frame hb spec.1.slots
  have hstepeq : CW.step info ⟨w, iss⟩ (.create t mask shared) =
      (⟨(w1.create info t mask sh).1, iss ++ [(w1.create info t mask sh).2.1]⟩, .created (w1.create info t mask sh).2.1,
        (w1.create info t mask sh).2.2) := by
    simp only [CW.step, step_create_eq, hpf, issueOut]
  rw [hstepeq] at hb'
  have hcore := create_unlocked_core info hi1 hb1 hr1 hl1 t mask hm sh spec.2.2.2.1
    (shared.map (fun sid => (sid, 0))) (fun sid => by rw [spec.2.2.2.2 sid, lookupS_defaults]; simp) hb'
  have hs : s.step info (Op.mapRef (ordOf iss) (.create t mask shared)) =
      ((s.doCreate info mask (shared.map (fun sid => (sid, 0)))).1,
        .created (s.doCreate info mask (shared.map (fun sid => (sid, 0)))).2.1,
        (s.doCreate info mask (shared.map (fun sid => (sid, 0)))).2.2) := by
    simp only [Op.mapRef, WS.step, hnl, if_false]
  unfold StepRefines
  rw [hstepeq, hs]
  exact ⟨hcore.1, hcore.2.1, hcore.2.2.1, by simpa only [isUnlockOp, Bool.false_eq_true, if_false] using hcore.2.2.2⟩

/-! ## `clone` -/

theorem bornFacts_plain (w : WM) (ai : Nat) (hai : ai < w.archs.length) (vals : List Val) :
    BornFacts w (insertRow (w.allocId).1 ai (w.allocId).2 vals) w (w.allocId).2 := by
  have hins := insertRow_sameTable (w.allocId).1 ai (w.allocId).2 vals
  refine ⟨(allocId_ctl _).trans hins.ctl, ?_, ?_, ?_⟩
  · rw [hins.marked, allocId_marked]
  · intro hc
    rw [hins.slots, insertRow_locs_length]
    exact allocId_cover hc
  · exact (KeysSame.of_archs (allocId_archs _)).trans
      (insertRow_keysSame _ _ _ _ (by rw [allocId_archs]; exact hai))

theorem clone_refines {c : CW} {s : WS} (hi : Inv c) (hb : Bounds c) (hr : Rel c s)
    (hl : c.w.isLocked = false) (e : Handle) (hb' : Bounds (c.step info (.clone e)).1) :
    StepRefines info c s (.clone e) := by
  obtain ⟨w, iss⟩ := c
  have hl0 : w.isLocked = false := hl
  rcases rel_cases hi hb hr e with ⟨hinv, hdead⟩ | ⟨hv, k, ai, i, prow, ent, hord, hk, hrow, hent, hloc, hal, hrel⟩
  · -- invalid handle: null on both sides
    have hinv2 : w.isValid e = false := hinv
    have hstep : CW.step info ⟨w, iss⟩ (.clone e) = (⟨w, iss⟩, .null, []) := by
      simp only [CW.step, WM.step, WM.clone, hinv2, Bool.not_false, if_true, issueOut]
    have hs : s.step info (Op.mapRef (ordOf iss) (.clone e)) = (s, .null, []) := by
      simp only [Op.mapRef, WS.step]
      cases ho : ordOf iss e with
      | none => rfl
      | some k =>
        have ho' : ordOf (⟨w, iss⟩ : CW).issued e = some k := ho
        rw [ho'] at hdead
        simp only [WS.isAlive] at hdead
        have : s.alive k = none := by
          cases h : s.alive k with
          | none => rfl
          | some x => rw [h] at hdead; cases hdead
        simp only [WS.doClone, this]
    unfold StepRefines
    rw [hstep, hs]
    exact ⟨hi, hr, trivial, by simp [isUnlockOp, cbsAgree]⟩
  · have hv2 : w.isValid e = true := hv
    have hord2 : ordOf iss e = some k := hord
    have hrow2 : (w.arch ai).rows[i]? = some prow := hrow
    have hai : ai < w.archs.length := lt_of_row hrow2
    have ha : AllocOK w := allocOK_of_inv (c := ⟨w, iss⟩) hi hb
    rcases clone_spec hi.rows ha e hv2 hrow2 hent with ⟨hres, hstep, howns, hmask, hshared, hfresh⟩
    have hloc2 : w.locOf e = ⟨some ai, i⟩ := hloc
    have hla : (w.locOf e).arch = some ai := by rw [hloc2]
    have hidx : (w.locOf e).idx = i := by rw [hloc2]
    have hclone : w.clone e = (insertRow (w.allocId).1 ai (w.allocId).2 prow.vals, some (w.allocId).2) := by
      unfold WM.clone
      simp only [hv2, Bool.not_true, Bool.false_eq_true, if_false, hla, hidx]
      unfold insertRow
      simp only [allocId_arch, List.getD_eq_getElem?_getD, hrow2, Option.getD_some]
    have facts := bornFacts_plain w ai hai prow.vals
    have hw'eq : (w.clone e).1 = insertRow (w.allocId).1 ai (w.allocId).2 prow.vals := by rw [hclone]
    rw [← hw'eq] at facts
    generalize hw'def : (w.clone e).1 = w' at *
    generalize hhdef : (w.allocId).2 = h at *
    have htab := Mustache.Proofs.IdTable.allocId_tab w
    have htab1 : tabOf w' = ((tabOf w).alloc).1 := by
      rw [← htab.1, hw'eq]
      exact (SameTable.tab (insertRow_sameTable _ _ _ _))
    have htab2 : h = ((tabOf w).alloc).2 := by rw [← htab.2, hhdef]
    have hpool' : w'.pool = w.pool := facts.ctl.pool
    have hdeps' : w'.deps = w.deps := facts.ctl.deps
    have hsh' : SharedPooled w' := by
      have h2 := AllKeys.keysSame (P := fun _ x => SharedIn w.pool x) hi.shared facts.keys
      show AllKeys (fun _ x => SharedIn w'.pool x) w'
      rw [hpool']; exact h2
    have hstepeq : CW.step info ⟨w, iss⟩ (.clone e) = (⟨w', iss ++ [h]⟩, .created h, []) := by
      have : w.clone e = (w', some h) := by rw [hclone, ← hw'def, hclone]
      simp only [CW.step, WM.step, this, issueOut]
    rw [hstepeq] at hb'
    have hx : optRel (some ent) (absEnt w' h) := by
      rw [owns_absEnt howns, hmask, hshared, hpool']
      exact hrel
    have hborn := born_refines hi hr hl0 htab1 htab2 hstep howns hfresh hsh' facts.ctl facts.marked
      (facts.cover hi.locsCover) hb' ent hx
    have hs : s.step info (Op.mapRef (ordOf iss) (.clone e)) =
        ({ s with ents := s.ents ++ [some ent] }, .created s.ents.length, []) := by
      simp only [Op.mapRef, WS.step, hord2, WS.doClone, hal]
    unfold StepRefines
    rw [hstepeq, hs]
    refine ⟨hborn.1, hborn.2, ?_⟩
    rw [hr.len]
    exact agree_created _ _ _ _ rfl

end Mustache.Proofs.Refine

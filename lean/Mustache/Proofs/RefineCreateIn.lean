import Mustache.Model.WorldClear
import Mustache.Proofs.RefineCreate
import Mustache.Proofs.RefineLocked2
/-!
# Refinement: `create(Archetype&)` (`WM.createIn`), the creating entry point outside `Op`

`WM.createIn info t ai` is `WM.create info t (arch ai).mask (arch ai).shared` on every state whose archetype keys are
unique (`createIn_eq_create`): with an empty dependency table the lookup of the archetype's own key returns the
archetype itself, otherwise both look the key up (the archetype may predate a declaration, then the entity goes to
the archetype of the closed set). The refinement statement is that of `.create`, against the spec creation with the
archetype's component set and the VALUES of its shared components (`specCreateWith`; `WS.step (.create t m ids)` is
`specCreateWith s t m (ids at value 0)`, by `rfl`).
-/
namespace Mustache.Proofs.Refine
open Mustache.Model Mustache.Spec
open Mustache.Proofs.IdTable (tabOf Ghost TInv)
open Mustache.Proofs.Rows

variable (info : CompId → CompInfo)

theorem closedMask_of_isEmpty {deps : List (CompId × Mask)} (h : deps.isEmpty = true) (m : Mask) :
    closedMask deps m = m := by
  simp [closedMask, extraComponents, h, Mask.union]

/-- `create(Archetype&)` is `create(mask, shared)` of the archetype's own key -/
theorem createIn_eq_create {w : WM} (hk : KeysOK w) (t ai : Nat) (hai : ai < w.archs.length) :
    w.createIn info t ai = w.create info t (w.arch ai).mask (w.arch ai).shared := by
  unfold WM.createIn WM.create
  by_cases hl : w.isLocked = true
  · simp only [hl, if_true]
  · simp only [hl, Bool.false_eq_true, if_false]
    by_cases hd : w.deps.isEmpty = true
    · have hg : w.getArch (w.arch ai).mask (w.arch ai).shared = (w, ai) :=
        getArch_own hk _ _ ai hai (closedMask_of_isEmpty hd _).symm rfl
      simp only [hd, if_true, hg]
    · simp only [hd, Bool.false_eq_true, if_false]

/-- `create(Archetype&)` on the combined state: the returned handle gets the next ordinal, as for `.create` -/
def CW.createIn (c : CW) (t ai : Nat) : CW × Out Handle × List Cb :=
  let r := c.w.createIn info t ai
  (⟨r.1, issueOut c.issued (.created r.2.1)⟩, .created r.2.1, r.2.2)

/-- the spec's creation step with explicit shared VALUES (`WS.step (.create …)` has every value 0) -/
def specCreateWith (s : WS) (t : Nat) (mask : Mask) (sh : List (Nat × Nat)) : WS × Out Nat × List SCb :=
  if s.lockDepth > 0 then
    let o := s.ents.length
    ({ s with ents := s.ents ++ [none] }.push t (.create o mask sh), .created o, [])
  else
    let (s, o, cbs) := s.doCreate info mask sh
    (s, .created o, cbs)

theorem step_create_eq_specCreateWith (s : WS) (t : Nat) (mask : Mask) (shared : List Nat) :
    s.step info (.create t mask shared) = specCreateWith info s t mask (shared.map (fun sid => (sid, 0))) := rfl

/-- the statement of `step_refines` for `.create`, for `create(Archetype&)`; `ssh` = any list of shared values that
reads like the archetype's descriptor -/
theorem createIn_refines_gen {c : CW} {s : WS} (hi : Inv c) (hb : Bounds c) (hr : Rel c s) (t ai : Nat)
    (ht : t < c.w.nthreads) (hai : ai < c.w.archs.length) (ssh : List (Nat × Nat))
    (hv : ∀ sid, lookupS ssh sid = lookupS (absShared c.w.pool (c.w.arch ai).shared) sid)
    (hb' : Bounds (c.createIn info t ai).1) :
    Inv (c.createIn info t ai).1 ∧
    Rel (c.createIn info t ai).1 (specCreateWith info s t (c.w.arch ai).mask ssh).1 ∧
    stepAgree (c.createIn info t ai).1 (.create t (c.w.arch ai).mask []) (c.createIn info t ai).2.1
      (c.createIn info t ai).2.2 (specCreateWith info s t (c.w.arch ai).mask ssh).2.1
      (specCreateWith info s t (c.w.arch ai).mask ssh).2.2 := by
  obtain ⟨w, iss⟩ := c
  have hai' : ai < w.archs.length := hai
  have heq := createIn_eq_create info hi.keys t ai hai'
  have hm : MaskOk (w.arch ai).mask := hi.keys.masks ai hai'
  have hshin : SharedIn w.pool (w.arch ai).shared := hi.shared _ (arch_mem hai')
  have hv' : ∀ sid, lookupS ssh sid = lookupS (absShared w.pool (w.arch ai).shared) sid := hv
  generalize hmdef : (w.arch ai).mask = mask at *
  generalize hshdef : (w.arch ai).shared = sh at *
  have hceq : CW.createIn info ⟨w, iss⟩ t ai =
      (⟨(w.create info t mask sh).1, iss ++ [(w.create info t mask sh).2.1]⟩, .created (w.create info t mask sh).2.1,
        (w.create info t mask sh).2.2) := by
    simp only [CW.createIn, heq, issueOut]
  rw [hceq] at hb' ⊢
  by_cases hl : w.isLocked = true
  · have hl' : 0 < w.lockDepth := (isLocked_iff w).mp hl
    have hcore := createLocked_core (w := w) (iss := iss) hi hr hl' t ht mask hm sh hshin ssh hv'
    have hcr : w.create info t mask sh = ((w.createLocked t mask sh).1, (w.createLocked t mask sh).2, []) := by
      simp only [WM.create, hl, if_true]
    have hsl : s.lockDepth > 0 := by rw [hr.lockDepth]; exact hl'
    have hs : specCreateWith info s t mask ssh =
        (WS.push { s with ents := s.ents ++ [none] } t (.create s.ents.length mask ssh), .created s.ents.length, []) := by
      simp only [specCreateWith, hsl, if_true]
    rw [hcr, hs]
    refine ⟨hcore.1, hcore.2.1, ?_⟩
    rw [hr.len]
    exact agree_created _ _ _ _ rfl
  · have hl0 : w.isLocked = false := by simpa using hl
    have hnl := unlocked_spec (c := ⟨w, iss⟩) hr hl0
    have hcore := create_unlocked_core info hi hb hr hl0 t mask hm sh hshin ssh hv' hb'
    have hs : specCreateWith info s t mask ssh =
        ((s.doCreate info mask ssh).1, .created (s.doCreate info mask ssh).2.1, (s.doCreate info mask ssh).2.2) := by
      simp only [specCreateWith, hnl, if_false]
    rw [hs]
    exact ⟨hcore.1, hcore.2.1, hcore.2.2.1,
      by simpa only [isUnlockOp, Bool.false_eq_true, if_false] using hcore.2.2.2⟩

/-- `create(Archetype&)` refines the spec creation with the archetype's component set and the values of its shared
components, in every state (locked or not, dependencies declared before or after the archetype came to exist) -/
theorem createIn_refines {c : CW} {s : WS} (hi : Inv c) (hb : Bounds c) (hr : Rel c s) (t ai : Nat)
    (ht : t < c.w.nthreads) (hai : ai < c.w.archs.length) (hb' : Bounds (c.createIn info t ai).1) :
    Inv (c.createIn info t ai).1 ∧
    Rel (c.createIn info t ai).1
      (specCreateWith info s t (c.w.arch ai).mask (absShared c.w.pool (c.w.arch ai).shared)).1 ∧
    stepAgree (c.createIn info t ai).1 (.create t (c.w.arch ai).mask []) (c.createIn info t ai).2.1
      (c.createIn info t ai).2.2
      (specCreateWith info s t (c.w.arch ai).mask (absShared c.w.pool (c.w.arch ai).shared)).2.1
      (specCreateWith info s t (c.w.arch ai).mask (absShared c.w.pool (c.w.arch ai).shared)).2.2 :=
  createIn_refines_gen info hi hb hr t ai ht hai _ (fun _ => rfl) hb'

/-- for an archetype without shared components the spec step is literally the operation `.create t mask []` -/
theorem createIn_refines_sharedfree {c : CW} {s : WS} (hi : Inv c) (hb : Bounds c) (hr : Rel c s) (t ai : Nat)
    (ht : t < c.w.nthreads) (hai : ai < c.w.archs.length) (hsf : (c.w.arch ai).shared = Shared.null)
    (hb' : Bounds (c.createIn info t ai).1) :
    Inv (c.createIn info t ai).1 ∧
    Rel (c.createIn info t ai).1 (s.step info (.create t (c.w.arch ai).mask [])).1 ∧
    stepAgree (c.createIn info t ai).1 (.create t (c.w.arch ai).mask []) (c.createIn info t ai).2.1
      (c.createIn info t ai).2.2 (s.step info (.create t (c.w.arch ai).mask [])).2.1
      (s.step info (.create t (c.w.arch ai).mask [])).2.2 := by
  rw [step_create_eq_specCreateWith]
  exact createIn_refines_gen info hi hb hr t ai ht hai _
    (fun sid => by rw [hsf]; rfl) hb'

end Mustache.Proofs.Refine

import Mustache.Model.WorldStep
import Mustache.Proofs.IdTablePack
import Mustache.Proofs.RowsLive2
import Mustache.Proofs.RowsPackOne
import Mustache.Proofs.SharedMove
import Mustache.Proofs.SharedInfo
import Mustache.Proofs.ClosureSpec
/-!
# Refinement WM ⊑ WS: definitions

`CW` = world model + the list of handles returned by creating operations (index = creation ordinal), as the
line-protocol driver keeps it (`Driver/World.lean`, `St.issued`). `ordOf` is the driver's handle → ordinal map
(`St.ordinal`: the LATEST ordinal whose handle is the given one). `absEnt` reads the abstract entity record off
the archetype row of a valid handle. `Rel` relates a `CW` to a spec state `WS`; `Inv` collects the invariants of
the reachable model states (C01 id table, C02 rows/locations, C12 pool, bounded dependency table, buffers); `OpWf` is the
documented contract (DESIGN.md 3.3) of one operation; `Bounds` the range side conditions (3.2).
-/
namespace Mustache.Proofs.Refine
open Mustache.Model Mustache.Spec
open Mustache.Proofs.IdTable (tabOf Ghost TInv)
open Mustache.Proofs.Rows (RowsOK KeysOK LiveInv MaskOk)

/-- pointwise relation of two lists (same length) -/
inductive All2 {α β : Type} (R : α → β → Prop) : List α → List β → Prop
  | nil : All2 R [] []
  | cons {a b l m} : R a b → All2 R l m → All2 R (a :: l) (b :: m)

/-! ## the combined concrete state -/

structure CW where
  w : WM
  /-- handles returned by creating operations, oldest first: `issued[k]` is ordinal `k` -/
  issued : List Handle := []

def CW.init (wid nthreads : Nat) : CW := ⟨{ worldId := wid, nthreads := nthreads }, []⟩
def specInit (nthreads : Nat) : WS := { nthreads := nthreads }

/-- the driver's `St.issue`: a `.created` result gets the next ordinal -/
def issueOut (issued : List Handle) : Out Handle → List Handle
  | .created h => issued ++ [h]
  | _ => issued

variable (info : CompId → CompInfo)

def CW.step (c : CW) (op : Op Handle) : CW × Out Handle × List Cb :=
  let r := c.w.step info op
  (⟨r.1, issueOut c.issued r.2.1⟩, r.2.1, r.2.2)

def CW.run (c : CW) (ops : List (Op Handle)) : CW := ops.foldl (fun c op => (c.step info op).1) c

/-! ## handle ↦ ordinal -/

def ordGo (h : Handle) : List Handle → Nat → Option Nat → Option Nat
  | [], _, acc => acc
  | x :: xs, i, acc => ordGo h xs (i + 1) (if x = h then some i else acc)

/-- the latest ordinal whose handle is `h` (`St.ordinal` of the driver), `none` = nobody was issued `h` -/
def ordOf (issued : List Handle) (h : Handle) : Option Nat := ordGo h issued 0 none

/-! ## abstraction of one entity -/

/-- the value of the pooled instance `inst` of shared type `sid` (0 when not pooled) -/
def instVal (pool : List (Nat × List (Nat × Nat))) (sid inst : Nat) : Nat :=
  match (poolEntries pool sid).find? (·.2 == inst) with
  | some p => p.1
  | none => 0

def absShared (pool : List (Nat × List (Nat × Nat))) (sh : Shared) : List (Nat × Nat) :=
  (sh.ids.zip sh.data).map (fun p => (p.1, instVal pool p.1 p.2))

/-- the record of a valid handle: archetype mask zipped with the row's values; the archetype's shared types
with the value of each instance. Invalid handles (dead, reserved and not installed yet, never issued) ↦ none -/
def absEnt (w : WM) (h : Handle) : Option SEnt :=
  if w.isValid h then
    match (w.locOf h).arch with
    | some ai =>
      let a := w.arch ai
      let row := a.rows.getD (w.locOf h).idx default
      some ⟨a.mask.zip row.vals, absShared w.pool a.shared⟩
    | none => none
  else none

def lookupS (l : List (Nat × Nat)) (sid : Nat) : Option Nat := (l.find? (·.1 == sid)).map (·.2)

/-- equal records, the shared part compared as a finite map (the spec keeps shared types in order of assignment,
the model in order of type id; every observation goes through a lookup by type) -/
def entRel (a b : SEnt) : Prop := a.comps = b.comps ∧ ∀ sid, lookupS a.shared sid = lookupS b.shared sid

def optRel : Option SEnt → Option SEnt → Prop
  | none, none => True
  | some a, some b => entRel a b
  | _, _ => False

/-! ## commands -/

def cmdRel (issued : List Handle) (pool : List (Nat × List (Nat × Nat))) : Cmd → SCmd → Prop
  | .create e m sh, .create o m' sh' =>
    ordOf issued e = some o ∧ m' = m ∧ ∀ sid, lookupS sh' sid = lookupS (absShared pool sh) sid
  | .destroyNow e, .destroyNow o => o = ordOf issued e
  | .destroy e, .destroy o => o = ordOf issued e
  | .remove e c, .remove o c' => o = ordOf issued e ∧ c' = c
  | .assign e c v, .assign o c' v' => o = ordOf issued e ∧ c' = c ∧ v' = v
  | _, _ => False

/-- the handle a create command installs -/
def crH : Cmd → Option Handle
  | .create e _ _ => some e
  | _ => none

def createHandles (bufs : List (List Cmd)) : List Handle := bufs.flatten.filterMap crH

/-- a handle whose meaning cannot change any more by being issued later: it was issued, or can never be -/
def Known (c : CW) (h : Handle) : Prop := h ∈ c.issued ∨ h.world ≠ c.w.worldId ∨ h = Handle.null

/-! ## the relation -/

structure Rel (c : CW) (s : WS) : Prop where
  len : s.ents.length = c.issued.length
  ents : ∀ o h, c.issued[o]? = some h → optRel (s.alive o) (absEnt c.w h)
  deps : s.deps = c.w.deps
  lockDepth : s.lockDepth = c.w.lockDepth
  nthreads : s.nthreads = c.w.nthreads
  buffers : All2 (All2 (cmdRel c.issued c.w.pool)) c.w.buffers s.buffers
  /-- the marked sets agree on what `update` will act on: ordinals of valid handles -/
  marked : ∀ o, (o ∈ s.marked ∧ (s.alive o).isSome = true) ↔
    ∃ h ∈ c.w.marked, c.w.isValid h = true ∧ ordOf c.issued h = some o
  markedLt : ∀ o ∈ s.marked, o < s.ents.length
  markedNodup : s.marked.Nodup
  /-- a marked ordinal was alive when it was marked, so it is not one of the reserved, still pending ones -/
  markedOld : ∀ o ∈ s.marked, ∀ h, c.issued[o]? = some h → h ∉ createHandles c.w.buffers

/-! ## invariants -/

/-- a descriptor whose instances are all pooled under their type -/
def SharedIn (pool : List (Nat × List (Nat × Nat))) (sh : Shared) : Prop :=
  sh.WF ∧ ∀ p ∈ sh.ids.zip sh.data, p.2 ∈ (poolEntries pool p.1).map (·.2)

/-- every instance an archetype descriptor names is pooled under its type -/
def SharedPooled (w : WM) : Prop := ∀ a ∈ w.archs, SharedIn w.pool a.shared

/-- a handle of world `wid` whose id fits the 30-bit field (C16): the packed values of two such handles differ -/
def HRange (wid : Nat) (h : Handle) : Prop := h.id < 2^30 ∧ h.world = wid

def cmdOk (pool : List (Nat × List (Nat × Nat))) : Cmd → Prop
  | .create _ m sh => MaskOk m ∧ SharedIn pool sh
  | _ => True

structure Inv (c : CW) : Prop where
  /-- C01: the id-table invariant, its ghost read from `issued` and from the buffered create commands -/
  tinv : ∃ g : Ghost, TInv (tabOf c.w) g ∧ g.issued = c.issued.reverse ∧
    (∀ h, h ∈ g.pending ↔ h ∈ createHandles c.w.buffers)
  pendNodup : (createHandles c.w.buffers).Nodup
  rows : RowsOK c.w
  keys : KeysOK c.w
  live : LiveInv c.w
  pool : PoolInv c.w
  shared : SharedPooled c.w
  depsB : DepsBounded c.w.deps
  locsCover : c.w.slots.length ≤ c.w.locs.length
  bufLe : c.w.buffers.length ≤ c.w.nthreads
  bufLen : 0 < c.w.lockDepth → c.w.buffers.length = c.w.nthreads
  bufEmpty : c.w.lockDepth = 0 → ∀ b ∈ c.w.buffers, b = []
  bufKnown : ∀ b ∈ c.w.buffers, ∀ cmd ∈ b, Known c cmd.entity ∧ cmdOk c.w.pool cmd
  markedKnown : ∀ h ∈ c.w.marked, Known c h ∧ h ∉ createHandles c.w.buffers
  markedRange : ∀ h ∈ c.w.marked, HRange c.w.worldId h
  markedSorted : c.w.marked.Pairwise (fun a b => a.value < b.value)

/-- range side conditions (DESIGN.md 3.2): fewer ids than the null id, no version wrapped -/
structure Bounds (c : CW) : Prop where
  inRange : c.w.slots.length < 2^30 - 1
  noWrap : ∀ h ∈ c.issued, h.ver + 1 < 2^24

/-! ## the contract of one operation -/

def addsOk (adds : List (CompId × Option Nat)) : Prop := (adds.map (·.1)).Nodup

def OpWf (c : CW) : Op Handle → Prop
  | .create t mask _ => t < c.w.nthreads ∧ MaskOk mask
  | .assign t e comp _ =>
    t < c.w.nthreads ∧
    (if c.w.isLocked then Known c e else c.w.isValid e = true ∧ c.w.hasComp e comp = false)
  | .remove t e _ => t < c.w.nthreads ∧ (c.w.isLocked = true → Known c e)
  | .buildNew t adds => t < c.w.nthreads ∧ addsOk adds
  | .build t e adds _ =>
    t < c.w.nthreads ∧ addsOk adds ∧
    (if c.w.isLocked then Known c e else c.w.isValid e = true ∧ ∀ p ∈ adds, c.w.hasComp e p.1 = false)
  | .destroy t e => t < c.w.nthreads ∧ (c.w.isLocked = true → Known c e)
  | .destroyNow t e => t < c.w.nthreads ∧ (c.w.isLocked = true → Known c e)
  | .clone _ => c.w.isLocked = false
  | .sassign e _ _ => c.w.isLocked = false ∧ c.w.isValid e = true
  | .sremove _ _ => c.w.isLocked = false
  | .clearArch mask => c.w.isLocked = false ∧ ∀ a ∈ c.w.archs, a.mask = mask → a.shared.ids = []
  | .update => True
  | .lock => True
  | .unlock => True
  | .dep _ extra => ∀ x ∈ extra, x < 128
  | .valid _ => True
  | .has _ _ => True
  | .hasShared _ _ => True
  | .get _ _ => True
  | .archOf _ => True

/-! ## agreement of the observations -/

def outAgree (issued' : List Handle) : Out Handle → Out Nat → Prop
  | .created h, .created o => ordOf issued' h = some o ∧ o + 1 = issued'.length
  | .null, .null => True
  | .ok, .ok => True
  | .selfMove, .selfMove => True
  | .lockedUpdate, .lockedUpdate => True
  | .noArch, .ok => True
  | .ret a, .ret b => a = b
  | .flag a, .flag b => a = b
  | .val a, .val b => a = b
  | .arch a, .arch b => a = b
  | _, _ => False

def cbAbs (issued : List Handle) : Cb → Option SCb
  | .assign c e => (ordOf issued e).map (fun o => (true, c, o))
  | .remove c e => (ordOf issued e).map (fun o => (false, c, o))

/-- the same callbacks as multisets, handles read as ordinals -/
def cbsAgree (issued' : List Handle) (cbs : List Cb) (scbs : List SCb) : Prop :=
  (cbs.map (cbAbs issued')).Perm (scbs.map some)

def cbCount (l : List (Option SCb)) (k : Option SCb) : Nat := l.count k

/-- the agreement the driver's oracle uses for a flush (`spec_line_eq`): per (component, entity) the net count
assign − remove is the same and the model fires no more than the command-by-command spec -/
def cbsAgreeNet (issued' : List Handle) (cbs : List Cb) (scbs : List SCb) : Prop :=
  (∀ cb ∈ cbs, (cbAbs issued' cb).isSome = true) ∧
  ∀ (comp : CompId) (o : Nat),
    let ma := (cbs.map (cbAbs issued')).count (some (true, comp, o))
    let mr := (cbs.map (cbAbs issued')).count (some (false, comp, o))
    let sa := scbs.count (true, comp, o)
    let sr := scbs.count (false, comp, o)
    ma + sr = sa + mr ∧ ma ≤ sa ∧ mr ≤ sr

def isUnlockOp {ρ : Type} : Op ρ → Bool
  | .unlock => true
  | _ => false

def stepAgree (c' : CW) (op : Op Handle) (out : Out Handle) (cbs : List Cb) (sout : Out Nat) (scbs : List SCb) : Prop :=
  outAgree c'.issued out sout ∧
  (if isUnlockOp op then cbsAgreeNet c'.issued cbs scbs else cbsAgree c'.issued cbs scbs)

/-- the refinement statement for one operation issued from related states -/
def StepRefines (c : CW) (s : WS) (op : Op Handle) : Prop :=
  Inv (c.step info op).1 ∧ Rel (c.step info op).1 (s.step info (op.mapRef (ordOf c.issued))).1 ∧
  stepAgree (c.step info op).1 op (c.step info op).2.1 (c.step info op).2.2
    (s.step info (op.mapRef (ordOf c.issued))).2.1 (s.step info (op.mapRef (ordOf c.issued))).2.2

end Mustache.Proofs.Refine

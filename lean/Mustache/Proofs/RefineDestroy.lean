import Mustache.Proofs.RefineMisc
import Mustache.Proofs.IdTableEvents
/-!
# Refinement, stage (c): unlocked `destroyNow`
-/
namespace Mustache.Proofs.Refine
open Mustache.Model Mustache.Spec
open Mustache.Proofs.IdTable (tabOf Ghost TInv valid_iff_live_any isValid_tab Chain)
open Mustache.Proofs.Rows

variable (info : CompId → CompInfo)

/-- C01 `freelist_wf` in the form C02 uses: the head of a non-empty free list is a free slot -/
theorem freeHeadFree_of_tinv {w : WM} {g : Ghost} (inv : TInv (tabOf w) g) : FreeHeadFree w := by
  intro he
  rcases inv.chain with ⟨fs, hch, _, hlen, _, hidf⟩
  cases fs with
  | nil => exact absurd hlen.symm he
  | cons a rest =>
    have ha : a = w.next := hch.head_eq
    subst ha
    cases hch with
    | cons _ s _ hs _ => exact ⟨s, hs, hidf _ (by simp) s hs⟩

theorem allocOK_of_inv {c : CW} (hi : Inv c) (hb : Bounds c) : AllocOK c.w := by
  rcases hi.tinv with ⟨g, tinv, _, _⟩
  exact allocOK_of_table hi.live hi.locsCover hb.inRange (freeHeadFree_of_tinv tinv)

/-- validity of every handle in terms of the ghost -/
theorem valid_iff_ghost {w : WM} {g : Ghost} (inv : TInv (tabOf w) g) (hr : w.slots.length ≤ 2^30 - 1) (h : Handle) :
    w.isValid h = true ↔ h ∈ g.live := by
  rw [isValid_tab]; exact valid_iff_live_any inv hr h

theorem destroyNowU_marked (w : WM) (h : Handle) : (w.destroyNowU info h).1.marked = w.marked := by
  rw [destroyNowU_fst]
  split
  · cases (w.locOf h).arch with
    | none =>
      simp only [WM.release]; split <;> rfl
    | some ai =>
      simp only
      have := (archRemove_sameTable info w ai (w.locOf h).idx []).marked
      simp only [WM.release]
      split <;> exact this
  · rfl

/-- the relation after the valid entity `e` (ordinal `k`) was destroyed -/
theorem rel_kill {c : CW} {s : WS} (hi : Inv c) (hr : Rel c s) {w' : WM} {e : Handle} {k : Nat}
    (hk : c.issued[k]? = some e) (hev : c.w.isValid e = true)
    (hs : OpFrame c.w w' e.id) (hvalid : ∀ h, h ≠ e → w'.isValid h = c.w.isValid h) (hdead : w'.isValid e = false)
    (hpool : w'.pool = c.w.pool) (hdeps : w'.deps = c.w.deps) (hld : w'.lockDepth = c.w.lockDepth)
    (hbuf : w'.buffers = c.w.buffers) (hmk : w'.marked = c.w.marked) (hnt : w'.nthreads = c.w.nthreads) :
    Rel ⟨w', c.issued⟩ (s.setEnt k none) := by
  have hnd := issued_nodup hi
  have hklt : k < s.ents.length := by rw [hr.len]; exact (List.getElem?_eq_some_iff.mp hk).1
  refine
  { len := by show (s.ents.set k none).length = _; rw [List.length_set]; exact hr.len
    ents := ?_, deps := hr.deps.trans hdeps.symm, lockDepth := hr.lockDepth.trans hld.symm
    nthreads := hr.nthreads.trans hnt.symm, buffers := ?_, marked := ?_
    markedLt := by
      intro o ho
      show o < (s.ents.set k none).length
      rw [List.length_set]; exact hr.markedLt o ho
    markedNodup := hr.markedNodup
    markedOld := by
      intro o ho h hh
      show h ∉ createHandles w'.buffers
      rw [hbuf]; exact hr.markedOld o ho h hh }
  · intro o h ho
    have ho' : c.issued[o]? = some h := ho
    rw [setEnt_alive]
    by_cases hok : o = k
    · subst hok
      rw [hk] at ho'; cases ho'
      simp only [hklt, and_self, if_true]
      show optRel none (absEnt w' e)
      rw [absEnt_invalid hdead]; trivial
    · have : ¬ (o = k ∧ k < s.ents.length) := fun hh => hok hh.1
      rw [if_neg this]
      have hne : h ≠ e := by
        intro heq; subst heq
        exact hok ((List.getElem?_inj (List.getElem?_eq_some_iff.mp ho').1 hnd).mp (ho'.trans hk.symm))
      have : absEnt w' h = absEnt c.w h := by
        by_cases hid : h.id = e.id
        · have hinv : c.w.isValid h = false := by
            cases hv : c.w.isValid h with
            | false => rfl
            | true => exact absurd (valid_same_id hev hv hid) hne
          rw [absEnt_invalid hinv, absEnt_invalid ((hvalid h hne).trans hinv)]
        · exact absEnt_step hi.rows hi.live hi.shared hs (by rw [hpool]; exact PoolExt.refl _) h hid
      show optRel _ (absEnt w' h)
      rw [this]
      exact hr.ents o h ho'
  · show All2 (All2 (cmdRel c.issued w'.pool)) w'.buffers (s.setEnt k none).buffers
    rw [hbuf, hpool]
    exact hr.buffers
  · intro o
    show (o ∈ s.marked ∧ ((s.setEnt k none).alive o).isSome = true) ↔
      ∃ h ∈ w'.marked, w'.isValid h = true ∧ ordOf c.issued h = some o
    rw [hmk, setEnt_alive]
    by_cases hok : o = k
    · subst hok
      simp only [hklt, and_self, if_true, Option.isSome_none, Bool.false_eq_true, and_false, false_iff]
      rintro ⟨h, _, hv, ho⟩
      have := ordOf_some ho
      rw [hk] at this; cases this
      rw [hdead] at hv; cases hv
    · have : ¬ (o = k ∧ k < s.ents.length) := fun hh => hok hh.1
      rw [if_neg this, hr.marked o]
      constructor
      · rintro ⟨h, hm, hv, ho⟩
        have hne : h ≠ e := by
          rintro rfl
          have := ordOf_some ho
          exact hok ((List.getElem?_inj (List.getElem?_eq_some_iff.mp this).1 hnd).mp (this.trans hk.symm))
        exact ⟨h, hm, (hvalid h hne).trans hv, ho⟩
      · rintro ⟨h, hm, hv, ho⟩
        have hne : h ≠ e := by
          rintro rfl
          rw [hdead] at hv; cases hv
        exact ⟨h, hm, (hvalid h hne).symm.trans hv, ho⟩

/-- `Inv` after a step that changes the id table (new ghost supplied), same issued list -/
theorem inv_of_step {c : CW} (hi : Inv c) {w' : WM} {id : Nat} (hs : Step c.w w' id)
    (htinv : ∃ g : Ghost, TInv (tabOf w') g ∧ g.issued = c.issued.reverse ∧
      (∀ h, h ∈ g.pending ↔ h ∈ createHandles c.w.buffers))
    (hslots : w'.slots.length ≤ c.w.slots.length ∨ w'.slots.length ≤ w'.locs.length)
    (hwid : w'.worldId = c.w.worldId) (hld : w'.lockDepth = c.w.lockDepth)
    (hlive : LiveInv w') (hpool : PoolInv w') (hext : PoolExt c.w.pool w'.pool) (hsh : SharedPooled w')
    (hdeps : w'.deps = c.w.deps)
    (hbuf : w'.buffers = c.w.buffers) (hmk : w'.marked = c.w.marked) (hnt : w'.nthreads = c.w.nthreads) :
    Inv ⟨w', c.issued⟩ := by
  have hkn : ∀ e, Known c e → Known ⟨w', c.issued⟩ e := fun e hk => Known.mono (w := c.w) hk hwid (fun _ h => h)
  refine
  { tinv := by simpa only [hbuf] using htinv
    pendNodup := by show (createHandles w'.buffers).Nodup; rw [hbuf]; exact hi.pendNodup
    rows := hs.ok, keys := hs.keys hi.keys, live := hlive, pool := hpool, shared := hsh
    depsB := by show DepsBounded w'.deps; rw [hdeps]; exact hi.depsB
    locsCover := by
      show w'.slots.length ≤ w'.locs.length
      rcases hslots with h | h
      · exact Nat.le_trans h (Nat.le_trans hi.locsCover hs.llen)
      · exact h
    bufLe := by show w'.buffers.length ≤ w'.nthreads; rw [hbuf, hnt]; exact hi.bufLe
    bufLen := by
      intro h
      show w'.buffers.length = w'.nthreads
      rw [hbuf, hnt]; exact hi.bufLen (by rw [← hld]; exact h)
    bufEmpty := by
      intro h
      show ∀ b ∈ w'.buffers, b = []
      rw [hbuf]; exact hi.bufEmpty (by rw [← hld]; exact h)
    bufKnown := by
      show ∀ b ∈ w'.buffers, ∀ cmd ∈ b, Known ⟨w', c.issued⟩ cmd.entity ∧ cmdOk w'.pool cmd
      rw [hbuf]
      intro b hb cmd hc
      exact ⟨hkn _ (hi.bufKnown b hb cmd hc).1, cmdOk_ext hext (hi.bufKnown b hb cmd hc).2⟩
    markedKnown := by
      show ∀ h ∈ w'.marked, Known ⟨w', c.issued⟩ h ∧ h ∉ createHandles w'.buffers
      rw [hbuf, hmk]
      intro h hm
      exact ⟨hkn _ (hi.markedKnown h hm).1, (hi.markedKnown h hm).2⟩
    markedRange := by
      show ∀ h ∈ w'.marked, HRange w'.worldId h
      rw [hmk, hwid]; exact hi.markedRange
    markedSorted := by show w'.marked.Pairwise _; rw [hmk]; exact hi.markedSorted }

/-- everything `destroyNowU` of a valid handle guarantees, for `Inv` and `Rel` -/
theorem destroyNowU_valid_refines {c : CW} {s : WS} (hi : Inv c) (hb : Bounds c) (hr : Rel c s) {e : Handle} {k : Nat}
    (hk : c.issued[k]? = some e) (hev : c.w.isValid e = true) :
    Inv ⟨(c.w.destroyNowU info e).1, c.issued⟩ ∧ Rel ⟨(c.w.destroyNowU info e).1, c.issued⟩ (s.setEnt k none) := by
  obtain ⟨w, iss⟩ := c
  have hev2 : w.isValid e = true := hev
  rcases hi.tinv with ⟨g, tinv, hiss, hpend⟩
  have hle : (tabOf w).slots.length ≤ 2^30 - 1 := Nat.le_of_lt hb.inRange
  have hemem : e ∈ iss := List.mem_of_getElem? hk
  have htinv' : TInv (tabOf (w.destroyNowU info e).1) (g.destroy e) := by
    rw [Mustache.Proofs.IdTable.destroyNowU_tab]
    exact Mustache.Proofs.IdTable.destroyNow_inv tinv hle e (fun _ => hb.noWrap e hemem)
  rcases hi.live.live_in e hev2 with ⟨ai, i, hrow⟩
  have hloc : Located w e := located_of_row hi.rows hrow
  have hs := destroyNowU_step info hi.rows e hloc
  have hctl := destroyNowU_ctl info w e
  have hks := keysSame_destroyNowU info w e
  have hmk := destroyNowU_marked info w e
  have hslen : (w.destroyNowU info e).1.slots.length = w.slots.length := by
    have := congrArg (fun t : Tab => t.slots.length) (Mustache.Proofs.IdTable.destroyNowU_tab info w e)
    exact this.trans (Mustache.Proofs.IdTable.destroyNow_length _ _)
  have hlive' := liveInv_destroyNowU info hi.rows hi.live e
    (freeHeadNot_of_table (freeHeadFree_of_tinv tinv) hev2)
  have hpool' : PoolInv (w.destroyNowU info e).1 := by
    constructor
    · rw [hctl.pool]; exact hi.pool.vals_nodup
    · rw [hctl.pool]; exact hi.pool.insts_nodup
    · rw [hctl.pool, hctl.nextInst]; exact hi.pool.inst_lt
    · rw [hctl.pool]; exact hi.pool.inst_sid
  have hinv' : Inv ⟨(w.destroyNowU info e).1, iss⟩ := by
    refine inv_of_step (c := ⟨w, iss⟩) hi hs ⟨g.destroy e, htinv', hiss, hpend⟩ (Or.inl (Nat.le_of_eq hslen)) hctl.worldId
      hctl.lockDepth hlive' hpool' (by rw [hctl.pool]; exact PoolExt.refl _) ?_ hctl.deps hctl.buffers hmk hctl.nthreads
    · have h2 := AllKeys.keysSame (P := fun _ sh => SharedIn w.pool sh) hi.shared hks
      show AllKeys (fun _ sh => SharedIn (w.destroyNowU info e).1.pool sh) _
      rw [hctl.pool]; exact h2
  refine ⟨hinv', ?_⟩
  -- validity after the step, through the ghost
  have hslots' : (w.destroyNowU info e).1.slots.length ≤ 2^30 - 1 := by rw [hslen]; exact hle
  have hval : ∀ h, (w.destroyNowU info e).1.isValid h = true ↔ (h ∈ g.live ∧ h ≠ e) := by
    intro h
    rw [valid_iff_ghost htinv' hslots' h, Mustache.Proofs.IdTable.mem_destroy]
  have hvalw : ∀ h, w.isValid h = true ↔ h ∈ g.live := fun h => valid_iff_ghost tinv hle h
  have hdead : (w.destroyNowU info e).1.isValid e = false := by
    cases hv : (w.destroyNowU info e).1.isValid e with
    | false => rfl
    | true => exact absurd rfl ((hval e).mp hv).2
  have hvalid : ∀ h, h ≠ e → (w.destroyNowU info e).1.isValid h = w.isValid h := by
    intro h hne
    rw [Bool.eq_iff_iff, hval h, hvalw h]
    exact ⟨fun hh => hh.1, fun hh => ⟨hh, hne⟩⟩
  exact rel_kill (c := ⟨w, iss⟩) hi hr hk hev hs.frame hvalid hdead hctl.pool hctl.deps hctl.lockDepth hctl.buffers hmk
    hctl.nthreads

/-- callbacks of `destroyNowU` on a located valid handle -/
theorem destroyNowU_cbs {w : WM} {e : Handle} {pi i : Nat} {prow : Row} (hv : w.isValid e = true)
    (hloc : w.locOf e = ⟨some pi, i⟩) (hrow : (w.arch pi).rows[i]? = some prow) :
    (w.destroyNowU info e).2 =
      ((w.arch pi).mask.filter (fun c => (info c).callbacks && !([] : Mask).contains c)).map (Cb.remove · prow.ent) := by
  unfold WM.destroyNowU
  simp only [hv, Bool.not_true, Bool.false_eq_true, if_false, hloc]
  exact archRemove_cbs info w pi i [] prow hrow

theorem cbDiff_nil_right (k : Nat) (pm : Mask) :
    cbDiff info k pm [] = (pm.filter (fun c => (info c).callbacks && !([] : Mask).contains c)).map
      (fun x => ((false, x, k) : SCb)) := by
  unfold cbDiff; rfl

/-- the spec's `doDestroy` of a dead or unknown ordinal does nothing -/
theorem doDestroy_dead {s : WS} {k : Nat} (h : s.alive k = none) : s.doDestroy info k = (s, []) := by
  simp only [WS.doDestroy, h]

theorem destroyNow_unlocked_refines {c : CW} {s : WS} (hi : Inv c) (hb : Bounds c) (hr : Rel c s)
    (hl : c.w.isLocked = false) (t : Nat) (e : Handle) : StepRefines info c s (.destroyNow t e) := by
  obtain ⟨w, iss⟩ := c
  have hl2 : w.isLocked = false := hl
  have hnl := unlocked_spec hr hl
  rcases rel_cases hi hb hr e with ⟨hinv, hdead⟩ | ⟨hv, k, pi, i, prow, ent, hord, hk, hrow, hent, hloc, hal, hrel⟩
  · have hinv2 : w.isValid e = false := hinv
    apply noop_refines info hi hr _ rfl
    · simp only [CW.step, WM.step, WM.destroyNow, hl2, Bool.false_eq_true, if_false, WM.destroyNowU, hinv2,
        Bool.not_false, if_true, issueOut]
    · simp only [Op.mapRef, WS.step, hnl, if_false]
      cases ho : ordOf iss e with
      | none => rfl
      | some k =>
        have ho' : ordOf (⟨w, iss⟩ : CW).issued e = some k := ho
        rw [ho'] at hdead
        simp only [WS.isAlive] at hdead
        have : s.alive k = none := by
          cases h : s.alive k with
          | none => rfl
          | some x => rw [h] at hdead; cases hdead
        simp only [doDestroy_dead info this]
  · have hv2 : w.isValid e = true := hv
    have hord2 : ordOf iss e = some k := hord
    have hrow2 : (w.arch pi).rows[i]? = some prow := hrow
    have hloc2 : w.locOf e = ⟨some pi, i⟩ := hloc
    have hplen : prow.vals.length = (w.arch pi).mask.length := hi.rows.vals pi i prow hrow2
    have hcs : compSet ent = (w.arch pi).mask := compSet_of_rel hrel.1 hplen
    have hcore := destroyNowU_valid_refines info hi hb hr hk hv
    have hstep : CW.step info ⟨w, iss⟩ (.destroyNow t e) =
        (⟨(w.destroyNowU info e).1, iss⟩, .ok, (w.destroyNowU info e).2) := by
      simp only [CW.step, WM.step, WM.destroyNow, hl2, Bool.false_eq_true, if_false, issueOut]
    have hs : s.step info (Op.mapRef (ordOf iss) (.destroyNow t e)) =
        (s.setEnt k none, .ok, cbDiff info k (w.arch pi).mask []) := by
      simp only [Op.mapRef, WS.step, hnl, if_false, hord2, WS.doDestroy, hal, hcs]
    unfold StepRefines
    rw [hstep, hs]
    refine ⟨hcore.1, hcore.2, trivial, ?_⟩
    simp only [isUnlockOp, Bool.false_eq_true, if_false]
    unfold cbsAgree
    rw [destroyNowU_cbs info hv2 hloc2 hrow2, hent, cbAbs_remove_map hord2, cbDiff_nil_right]

end Mustache.Proofs.Refine

import Mustache.Proofs.RefinePackStep
import Mustache.Proofs.LifeFlush
/-!
# Refinement, stage (e): one pack against the linear ghost buffers
-/
namespace Mustache.Proofs.Refine
open Mustache.Model Mustache.Spec
open Mustache.Proofs.IdTable (tabOf Ghost TInv)
open Mustache.Proofs.Rows

variable (info : CompId → CompInfo)

/-! ## more on `All2` -/

theorem All2.cons_inv {α β : Type} {R : α → β → Prop} {a : α} {l : List α} {m : List β} (h : All2 R (a :: l) m) :
    ∃ b m', m = b :: m' ∧ R a b ∧ All2 R l m' := by
  cases h with
  | cons hr ht => exact ⟨_, _, rfl, hr, ht⟩

theorem All2.append_inv {α β : Type} {R : α → β → Prop} : ∀ {l₁ l₂ : List α} {m : List β}, All2 R (l₁ ++ l₂) m →
    ∃ m₁ m₂, m = m₁ ++ m₂ ∧ All2 R l₁ m₁ ∧ All2 R l₂ m₂
  | [], _, m, h => ⟨[], m, rfl, .nil, h⟩
  | a :: l₁, l₂, m, h => by
    rcases All2.cons_inv h with ⟨b, m', rfl, hab, ht⟩
    rcases All2.append_inv ht with ⟨m₁, m₂, rfl, h1, h2⟩
    exact ⟨b :: m₁, m₂, rfl, .cons hab h1, h2⟩

theorem All2.flatten {α β : Type} {R : α → β → Prop} {L : List (List α)} {M : List (List β)} (h : All2 (All2 R) L M) :
    All2 R L.flatten M.flatten := by
  induction h with
  | nil => exact .nil
  | cons hr _ ih => simp only [List.flatten_cons]; exact hr.append ih

theorem All2.eq_map {α β : Type} {R : α → β → Prop} {f : α → β} : ∀ {l : List α} {m : List β}, All2 R l m →
    (∀ a ∈ l, ∀ b, R a b → b = f a) → m = l.map f
  | [], _, h, _ => by cases h; rfl
  | a :: l, _, h, hf => by
    rcases All2.cons_inv h with ⟨b, m', rfl, hab, ht⟩
    rw [List.map_cons, hf a (by simp) b hab, All2.eq_map ht (fun x hx y hxy => hf x (by simp [hx]) y hxy)]

/-! ## linear ghost buffers: everything still to do in the first buffer -/

def lin {α : Type} (n : Nat) (R : List α) : List (List α) := R :: List.replicate (n - 1) []

theorem lin_length {α : Type} (n : Nat) (R : List α) (hn : 0 < n) : (lin n R).length = n := by
  simp only [lin, List.length_cons, List.length_replicate]; omega

theorem lin_flatten {α : Type} (n : Nat) (R : List α) : (lin n R).flatten = R := by
  unfold lin
  have : (List.replicate (n - 1) ([] : List α)).flatten = [] := by
    induction (n - 1) with
    | zero => rfl
    | succ k ih => simp [List.replicate_succ, ih]
  rw [List.flatten_cons, this, List.append_nil]

theorem createHandles_lin (n : Nat) (R : List Cmd) : createHandles (lin n R) = R.filterMap crH := by
  unfold createHandles; rw [lin_flatten]

theorem mem_lin {α : Type} {n : Nat} {R x : List α} {a : α} (hx : x ∈ lin n R) (ha : a ∈ x) : a ∈ R := by
  unfold lin at hx
  rcases List.mem_cons.mp hx with rfl | h
  · exact ha
  · rw [(List.mem_replicate.mp h).2] at ha; cases ha

theorem all2_lin {α β : Type} {R : α → β → Prop} {n : Nat} {l : List α} {m : List β} (h : All2 R l m) :
    All2 (All2 R) (lin n l) (lin n m) := .cons h (All2.replicate .nil _)

theorem all2_of_lin {α β : Type} {R : α → β → Prop} {n : Nat} {l : List α} {m : List β}
    (h : All2 (All2 R) (lin n l) (lin n m)) : All2 R l m := by
  rcases All2.cons_inv h with ⟨b, m', heq, hab, _⟩
  cases heq
  exact hab

/-! ## the shape of a pack -/

def IsPack (p : List Cmd) : Prop :=
  ∃ first rest, p = first :: rest ∧ ∀ c ∈ rest, c.entity = first.entity ∧ crH c = none

theorem crH_none_of_not_create {c : Cmd} (h : isCreateCmd c = false) : crH c = none := by
  cases c <;> first | rfl | (simp [isCreateCmd] at h)

theorem packs_cons' (c : Cmd) (cs : List Cmd) :
    packs (c :: cs) =
      match packs cs with
      | [] => [[c]]
      | [] :: ps => [c] :: ps
      | (d :: ds) :: ps =>
        if c.entity = d.entity ∧ isCreateCmd d = false then (c :: d :: ds) :: ps
        else [c] :: (d :: ds) :: ps := by
  rw [packs]
  cases packs cs with
  | nil => rfl
  | cons p ps =>
    cases p with
    | nil => rfl
    | cons d ds =>
      simp only
      cases d <;> simp [isCreateCmd]

theorem packs_shape (buf : List Cmd) : ∀ p ∈ packs buf, IsPack p := by
  induction buf with
  | nil => intro p hp; simp [packs] at hp
  | cons c cs ih =>
    rw [packs_cons']
    cases hp : packs cs with
    | nil =>
      intro p hp'
      simp only [List.mem_singleton] at hp'
      subst hp'
      exact ⟨c, [], rfl, fun _ h => by cases h⟩
    | cons p ps =>
      rw [hp] at ih
      cases p with
      | nil =>
        intro q hq
        simp only [List.mem_cons] at hq
        rcases hq with rfl | hq
        · exact ⟨c, [], rfl, fun _ h => by cases h⟩
        · exact ih q (by simp [hq])
      | cons d ds =>
        simp only
        have hd := ih (d :: ds) (by simp)
        rcases hd with ⟨f, r, hfr, hall⟩
        cases hfr
        split
        · rename_i hc
          intro q hq
          simp only [List.mem_cons] at hq
          rcases hq with rfl | hq
          · refine ⟨c, d :: ds, rfl, ?_⟩
            intro x hx
            rcases List.mem_cons.mp hx with rfl | hx'
            · exact ⟨hc.1.symm, crH_none_of_not_create hc.2⟩
            · exact ⟨(hall x hx').1.trans hc.1.symm, (hall x hx').2⟩
          · exact ih q (by simp [hq])
        · intro q hq
          simp only [List.mem_cons] at hq
          rcases hq with rfl | rfl | hq
          · exact ⟨c, [], rfl, fun _ h => by cases h⟩
          · exact ⟨d, ds, rfl, hall⟩
          · exact ih q (by simp [hq])

end Mustache.Proofs.Refine

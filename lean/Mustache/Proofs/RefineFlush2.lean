import Mustache.Proofs.RefineFlush
/-!
# Refinement, stage (e): one pack of the flush, whatever its kind
-/
namespace Mustache.Proofs.Refine
open Mustache.Model Mustache.Spec
open Mustache.Proofs.IdTable (tabOf Ghost TInv)
open Mustache.Proofs.Rows

variable (info : CompId → CompInfo)

theorem filterMap_crH_nil {l : List Cmd} (h : ∀ c ∈ l, crH c = none) : l.filterMap crH = [] := by
  induction l with
  | nil => rfl
  | cons a t ih =>
    rw [List.filterMap_cons, h a (by simp)]
    exact ih (fun c hc => h c (by simp [hc]))

theorem pack_step {G : WM} {iss : List Handle} {S : WS} (hi : Inv ⟨G, iss⟩) (hb : Bounds ⟨G, iss⟩) (hr : Rel ⟨G, iss⟩ S)
    (n : Nat) (P R : List Cmd) (SPR : List SCmd) (hGb : G.buffers = lin n (P ++ R)) (hSb : S.buffers = lin n SPR)
    (hP : IsPack P) (hb' : (G.applyPack info P).1.slots.length < 2^30 - 1) :
    ∃ SP SR, SPR = SP ++ SR ∧ PackRefinesPop info G iss S P SP (lin n R) (lin n SR) := by
  rcases hP with ⟨first, rest, rfl, hall⟩
  have hbufs := hr.buffers
  rw [show (⟨G, iss⟩ : CW).w.buffers = lin n ((first :: rest) ++ R) from hGb, hSb] at hbufs
  have hflat := all2_of_lin hbufs
  rcases All2.append_inv hflat with ⟨SP, SR, rfl, hSP, hSR⟩
  refine ⟨SP, SR, rfl, ?_⟩
  have hmemP : ∀ c ∈ first :: rest, ∃ y ∈ G.buffers, c ∈ y := by
    intro c hc
    refine ⟨(first :: rest) ++ R, by rw [hGb]; simp [lin], List.mem_append_left _ hc⟩
  have hld : 0 < G.lockDepth := by
    rcases Nat.eq_zero_or_pos G.lockDepth with h0 | h0
    · have := hi.bufEmpty h0 ((first :: rest) ++ R) (by rw [hGb]; simp [lin])
      simp at this
    · exact h0
  have hbsub : ∀ x ∈ lin n R, ∀ cmd ∈ x, ∃ y ∈ G.buffers, cmd ∈ y := by
    intro x hx cmd hc
    exact ⟨(first :: rest) ++ R, by rw [hGb]; simp [lin], List.mem_append_right _ (mem_lin hx hc)⟩
  have hblen : (lin n R).length = G.buffers.length := by rw [hGb]; simp [lin]
  have hbrel : All2 (All2 (cmdRel iss G.pool)) (lin n R) (lin n SR) := all2_lin hSR
  cases hfc : isCreateCmd first with
  | false =>
    have hall' : ∀ c ∈ first :: rest, c.entity = first.entity ∧ crH c = none := by
      intro c hc
      rcases List.mem_cons.mp hc with rfl | hc'
      · exact ⟨rfl, crH_none_of_not_create hfc⟩
      · exact hall c hc'
    have hSPeq : SP = (first :: rest).map (specCmdRef (ordOf iss first.entity)) := by
      apply All2.eq_map hSP
      intro c hc sc hcs
      rw [← (hall' c hc).1]
      exact cmdRel_noncreate (hall' c hc).2 hcs
    rw [hSPeq]
    have hpr := pack_existing_refines info hi hb hr first rest hfc hall'
    unfold PackRefines at hpr
    unfold PackRefinesPop
    have hctl := applyPack_ctl info G (first :: rest)
    have hchP : createHandles (lin n R) = createHandles G.buffers := by
      rw [hGb, createHandles_lin, createHandles_lin, List.filterMap_append,
        filterMap_crH_nil (fun c hc => (hall' c hc).2), List.nil_append]
    refine ⟨?_, ?_, hpr.2.2⟩
    · rw [← hctl.lockDepth]
      apply inv_pop hpr.1
      · rw [hchP, hctl.buffers]
      · rw [hblen, hctl.buffers]
      · rw [hctl.buffers]; exact hbsub
      · rw [hctl.lockDepth]; exact hld
    · rw [← hctl.lockDepth]
      apply rel_pop hpr.2.1
      · rw [hctl.pool]; exact hbrel
      · intro h hh; rw [hctl.buffers, ← hchP]; exact hh
  | true =>
    cases first with
    | create e m sh =>
      rcases All2.cons_inv hSP with ⟨sc, SPr, rfl, hsc, hSPr⟩
      cases sc with
      | create k m' ssh =>
        simp only [cmdRel] at hsc
        obtain ⟨hord, rfl, hssh⟩ := hsc
        have hall' : ∀ c ∈ rest, c.entity = e ∧ crH c = none := hall
        have hSPeq : SPr = rest.map (specCmd k) := by
          apply All2.eq_map hSPr
          intro c hc sc hcs
          have := cmdRel_noncreate (hall' c hc).2 hcs
          rw [(hall' c hc).1, hord, specCmdRef_some k c (hall' c hc).2] at this
          exact this
        rw [hSPeq]
        have hk : iss[k]? = some e := ordOf_some hord
        have hch : createHandles G.buffers = e :: createHandles (lin n R) := by
          rw [hGb, createHandles_lin, createHandles_lin, List.cons_append, List.filterMap_cons]
          simp only [crH]
          rw [List.filterMap_append, filterMap_crH_nil (fun c hc => (hall' c hc).2), List.nil_append]
        have hpe : e ∈ createHandles G.buffers := by rw [hch]; simp
        rcases hmemP (.create e m' sh) (by simp) with ⟨y, hy, hcy⟩
        have hok := (hi.bufKnown y hy _ hcy).2
        have hb0 : (startCreate G e).slots.length < 2^30 - 1 := by
          rw [applyPack_slots_length] at hb'
          simpa [isCreateCmd, Cmd.entity] using hb'
        cases hd : (rest.foldl bodyFlags (false, false)).1 with
        | true =>
          exact pack_create_dead info hi hb hr e m' sh ssh rest hok.1 hall' hk hpe (lin n R) (lin n SR)
            (by rw [hch]) hblen hbsub hbrel hb0 hd
        | false =>
          exact pack_create_alive info hi hb hr e m' sh ssh rest hok.1 hok.2 hall' hk hpe hssh (lin n R) (lin n SR)
            (by rw [hch]) hblen hbsub hbrel hb0 hd
      | destroyNow o => simp [cmdRel] at hsc
      | destroy o => simp [cmdRel] at hsc
      | remove o c => simp [cmdRel] at hsc
      | assign o c v => simp [cmdRel] at hsc
    | destroyNow e => simp [isCreateCmd] at hfc
    | destroy e => simp [isCreateCmd] at hfc
    | remove e c => simp [isCreateCmd] at hfc
    | assign e c v => simp [isCreateCmd] at hfc

end Mustache.Proofs.Refine

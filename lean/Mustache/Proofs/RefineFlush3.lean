import Mustache.Proofs.RefineFlush2
/-!
# Refinement, stage (e): all packs of a flush, by induction
-/
namespace Mustache.Proofs.Refine
open Mustache.Model Mustache.Spec
open Mustache.Proofs.IdTable (tabOf Ghost TInv)
open Mustache.Proofs.Rows

variable (info : CompId → CompInfo)

/-! ## the spec fold -/

theorem applyCmd_buffers (T : WS) (x : List (List SCmd)) (c : SCmd) :
    ({ T with buffers := x }).applyCmd info c = ({ (T.applyCmd info c).1 with buffers := x }, (T.applyCmd info c).2) := by
  cases c with
  | create o m sh => rfl
  | destroyNow o =>
    cases o with
    | none => rfl
    | some o =>
      simp only [WS.applyCmd, WS.doDestroy]
      show (match T.alive o with | none => _ | some e => _) = _
      cases T.alive o <;> rfl
  | destroy o =>
    cases o with
    | none => rfl
    | some o =>
      simp only [WS.applyCmd]
      show (if (T.alive o).isSome = true then _ else _) = _
      split <;> rfl
  | remove o c =>
    cases o with
    | none => rfl
    | some o =>
      simp only [WS.applyCmd, WS.doRemove]
      show (match T.alive o with | none => _ | some e => _) = _
      cases T.alive o with
      | none => rfl
      | some e =>
        simp only
        split
        · rfl
        · split <;> rfl
  | assign o c v =>
    cases o with
    | none => rfl
    | some o =>
      simp only [WS.applyCmd, WS.doAssign]
      show (match T.alive o with | none => _ | some e => _) = _
      cases T.alive o with
      | none => rfl
      | some e =>
        simp only
        split <;> rfl

theorem specFold_buffers (x : List (List SCmd)) : ∀ (l : List SCmd) (T : WS) (a : List SCb),
    specFold info ({ T with buffers := x }, a) l =
      ({ (specFold info (T, a) l).1 with buffers := x }, (specFold info (T, a) l).2)
  | [], _, _ => rfl
  | c :: l, T, a => by
    rw [specFold_cons, specFold_cons]
    simp only
    rw [applyCmd_buffers]
    exact specFold_buffers x l _ _

theorem specFold_append (acc : WS × List SCb) (a b : List SCmd) :
    specFold info acc (a ++ b) = specFold info (specFold info acc a) b := by
  unfold specFold; rw [List.foldl_append]

theorem specFold_acc : ∀ (l : List SCmd) (S : WS) (scbs : List SCb),
    specFold info (S, scbs) l = ((specFold info (S, []) l).1, scbs ++ (specFold info (S, []) l).2)
  | [], _, _ => by simp [specFold]
  | c :: l, S, scbs => by
    rw [specFold_cons, specFold_cons]
    simp only [List.nil_append]
    rw [specFold_acc l _ (scbs ++ _), specFold_acc l _ ((S.applyCmd info c).2), List.append_assoc]

/-! ## the slot table only grows over the packs -/

theorem applyPack_slots_mono (w : WM) (pack : List Cmd) : w.slots.length ≤ (w.applyPack info pack).1.slots.length := by
  cases pack with
  | nil => exact Nat.le_refl _
  | cons first rest =>
    rw [applyPack_slots_length]
    split
    · simp only [startCreate, WM.ensureId, List.length_set, List.length_append]; omega
    · exact Nat.le_refl _

theorem applyPacks_slots_mono : ∀ (PL : List (List Cmd)) (acc : WM × List Cb),
    acc.1.slots.length ≤ (applyPacks info acc PL).1.slots.length
  | [], _ => Nat.le_refl _
  | P :: PL, acc => by
    rw [applyPacks_cons]
    exact Nat.le_trans (applyPack_slots_mono info acc.1 P)
      (applyPacks_slots_mono PL ((acc.1.applyPack info P).1, acc.2 ++ (acc.1.applyPack info P).2))

/-! ## the induction over the packs -/

theorem flush_packs (iss : List Handle) (n d : Nat) :
    ∀ (PL : List (List Cmd)) (W : WM) (S : WS) (SPR : List SCmd) (cbs : List Cb) (scbs : List SCb),
      (∀ P ∈ PL, IsPack P) →
      Inv ⟨setCtl W d (lin n PL.flatten) W.marked, iss⟩ → Rel ⟨setCtl W d (lin n PL.flatten) W.marked, iss⟩ S →
      S.buffers = lin n SPR →
      (applyPacks info (W, cbs) PL).1.slots.length < 2^30 - 1 → (∀ h ∈ iss, h.ver + 1 < 2^24) →
      cbsAgreeNet iss cbs scbs →
      Inv ⟨setCtl (applyPacks info (W, cbs) PL).1 d (lin n []) (applyPacks info (W, cbs) PL).1.marked, iss⟩ ∧
      Rel ⟨setCtl (applyPacks info (W, cbs) PL).1 d (lin n []) (applyPacks info (W, cbs) PL).1.marked, iss⟩
        { (specFold info (S, scbs) SPR).1 with buffers := lin n [] } ∧
      cbsAgreeNet iss (applyPacks info (W, cbs) PL).2 (specFold info (S, scbs) SPR).2
  | [], W, S, SPR, cbs, scbs, _, hi, hr, hSb, _, _, hcb => by
    have hbufs := hr.buffers
    rw [show (⟨setCtl W d (lin n ([] : List (List Cmd)).flatten) W.marked, iss⟩ : CW).w.buffers = lin n [] from rfl, hSb] at hbufs
    have hnil : SPR = [] := by
      have := all2_of_lin hbufs
      cases this; rfl
    subst hnil
    have hS : { S with buffers := lin n [] } = S := by
      cases S; simp only at hSb; subst hSb; rfl
    refine ⟨hi, ?_, hcb⟩
    show Rel _ { S with buffers := lin n [] }
    rw [hS]; exact hr
  | P :: PL, W, S, SPR, cbs, scbs, hPL, hi, hr, hSb, hfin, hnw, hcb => by
    have hflat : (P :: PL).flatten = P ++ PL.flatten := rfl
    rw [hflat] at hi hr
    rw [applyPacks_cons] at hfin ⊢
    have hmono := applyPacks_slots_mono info PL ((W.applyPack info P).1, cbs ++ (W.applyPack info P).2)
    have happly := setCtl_applyPack info (d := d) (b := lin n (P ++ PL.flatten)) W P
    have hb1 : (W.applyPack info P).1.slots.length < 2^30 - 1 := Nat.lt_of_le_of_lt hmono hfin
    have hb0 : Bounds ⟨setCtl W d (lin n (P ++ PL.flatten)) W.marked, iss⟩ :=
      ⟨Nat.lt_of_le_of_lt (applyPack_slots_mono info W P) hb1, hnw⟩
    rcases pack_step info hi hb0 hr n P PL.flatten SPR rfl hSb (hPL P (by simp))
      (by rw [happly]; exact hb1) with ⟨SP, SR, rfl, hpr⟩
    unfold PackRefinesPop at hpr
    rw [happly] at hpr
    obtain ⟨hi1, hr1, hcb1⟩ := hpr
    have ih := flush_packs iss n d PL (W.applyPack info P).1
      { (specFold info (S, []) SP).1 with buffers := lin n SR } SR (cbs ++ (W.applyPack info P).2)
      (scbs ++ (specFold info (S, []) SP).2) (fun Q hQ => hPL Q (by simp [hQ])) hi1 hr1 rfl hfin hnw
      (cbsAgreeNet_append hcb hcb1)
    rw [specFold_append, specFold_acc info SP S scbs]
    rw [specFold_buffers] at ih
    exact ih

end Mustache.Proofs.Refine

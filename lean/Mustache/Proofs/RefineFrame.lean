import Mustache.Proofs.RefineQuery
/-!
# Refinement: frame moves

Elementary state changes that most operations are made of, each with its `Inv` and `Rel` lemma:
* `frame`: everything but the shared pool (which may grow), `nextInst` and `temps` is unchanged;
* `push`: one non-creating command is appended to a buffer.
-/
namespace Mustache.Proofs.Refine
open Mustache.Model Mustache.Spec
open Mustache.Proofs.IdTable (tabOf Ghost TInv)
open Mustache.Proofs.Rows

variable (info : CompId → CompInfo)

/-! ## the pool only grows -/

abbrev Pool := List (Nat × List (Nat × Nat))

/-- per shared type the entries of `p'` are those of `p` followed by new ones -/
def PoolExt (p p' : Pool) : Prop := ∀ sid, ∃ ext, poolEntries p' sid = poolEntries p sid ++ ext

theorem PoolExt.refl (p : Pool) : PoolExt p p := fun _ => ⟨[], by simp⟩

theorem PoolExt.trans {a b c : Pool} (h₁ : PoolExt a b) (h₂ : PoolExt b c) : PoolExt a c := by
  intro sid
  rcases h₁ sid with ⟨e₁, h₁⟩
  rcases h₂ sid with ⟨e₂, h₂⟩
  exact ⟨e₁ ++ e₂, by rw [h₂, h₁, List.append_assoc]⟩

theorem poolGet_ext (w : WM) (sid v : Nat) : PoolExt w.pool (w.poolGet sid v).1.pool := by
  intro sid'
  rw [poolGet_entries]
  by_cases hs : sid' = sid
  · subst hs
    cases (poolEntries w.pool sid').any (·.1 == v)
    · exact ⟨[(v, w.nextInst)], by simp⟩
    · exact ⟨[], by simp⟩
  · exact ⟨[], by simp [hs]⟩

theorem instVal_ext {p p' : Pool} (h : PoolExt p p') {sid inst : Nat}
    (hm : inst ∈ (poolEntries p sid).map (·.2)) : instVal p' sid inst = instVal p sid inst := by
  rcases h sid with ⟨ext, he⟩
  unfold instVal
  rw [he, List.find?_append]
  cases hf : (poolEntries p sid).find? (·.2 == inst) with
  | some q => rfl
  | none =>
    exfalso
    rcases List.mem_map.mp hm with ⟨q, hq, hq2⟩
    have := List.find?_eq_none.mp hf q hq
    simp [hq2] at this

theorem pooled_ext {p p' : Pool} (h : PoolExt p p') {sid inst : Nat}
    (hm : inst ∈ (poolEntries p sid).map (·.2)) : inst ∈ (poolEntries p' sid).map (·.2) := by
  rcases h sid with ⟨ext, he⟩
  rw [he, List.map_append]
  exact List.mem_append_left _ hm

theorem SharedIn.ext {p p' : Pool} {sh : Shared} (h : SharedIn p sh) (he : PoolExt p p') : SharedIn p' sh :=
  ⟨h.1, fun q hq => pooled_ext he (h.2 q hq)⟩

theorem absShared_ext {p p' : Pool} {sh : Shared} (h : SharedIn p sh) (he : PoolExt p p') :
    absShared p' sh = absShared p sh := by
  unfold absShared
  apply List.map_congr_left
  intro q hq
  rw [instVal_ext he (h.2 q hq)]

theorem cmdOk_ext {p p' : Pool} (he : PoolExt p p') {cmd : Cmd} (h : cmdOk p cmd) : cmdOk p' cmd := by
  cases cmd <;> simp only [cmdOk] at h ⊢
  exact ⟨h.1, h.2.ext he⟩

theorem cmdRel_ext {iss : List Handle} {p p' : Pool} (he : PoolExt p p') {cmd : Cmd} {sc : SCmd} (hok : cmdOk p cmd)
    (h : cmdRel iss p cmd sc) : cmdRel iss p' cmd sc := by
  cases cmd <;> cases sc <;> simp only [cmdRel] at h ⊢ <;> try exact h
  rw [absShared_ext hok.2 he]
  exact h

/-! ## `arch` membership -/

theorem arch_mem {w : WM} {ai : Nat} (h : ai < w.archs.length) : w.arch ai ∈ w.archs := by
  rw [arch_def, List.getD_eq_getElem?_getD, List.getElem?_eq_getElem h]
  exact List.getElem_mem h

/-! ## the frame move -/

/-- `w'` agrees with `w` on everything but `pool`, `nextInst`, `temps` -/
structure FrameEq (w w' : WM) : Prop where
  worldId : w'.worldId = w.worldId
  slots : w'.slots = w.slots
  next : w'.next = w.next
  empty : w'.empty = w.empty
  locs : w'.locs = w.locs
  archs : w'.archs = w.archs
  deps : w'.deps = w.deps
  lockDepth : w'.lockDepth = w.lockDepth
  nextEntityId : w'.nextEntityId = w.nextEntityId
  nthreads : w'.nthreads = w.nthreads
  buffers : w'.buffers = w.buffers
  marked : w'.marked = w.marked

theorem FrameEq.eq {w w' : WM} (h : FrameEq w w') :
    w' = { w with pool := w'.pool, nextInst := w'.nextInst, temps := w'.temps } := by
  cases w; cases w'
  rcases h with ⟨h1, h2, h3, h4, h5, h6, h7, h8, h9, h10, h11, h12⟩
  simp only at h1 h2 h3 h4 h5 h6 h7 h8 h9 h10 h11 h12
  subst h1 h2 h3 h4 h5 h6 h7 h8 h9 h10 h11 h12
  rfl

theorem absEnt_set (w : WM) (hsh : SharedPooled w) (p : Pool) (n : Nat) (t : List (CompId × Nat)) (he : PoolExt w.pool p)
    (h : Handle) : absEnt { w with pool := p, nextInst := n, temps := t } h = absEnt w h := by
  unfold absEnt
  show (if w.isValid h then _ else _) = _
  cases hv : w.isValid h with
  | false => rfl
  | true =>
    simp only [if_true]
    show (match (w.locOf h).arch with | some ai => _ | none => none) = _
    cases hl : (w.locOf h).arch with
    | none => rfl
    | some ai =>
      simp only
      show some (⟨(w.arch ai).mask.zip ((w.arch ai).rows.getD (w.locOf h).idx default).vals,
        absShared p (w.arch ai).shared⟩ : SEnt) = _
      by_cases hai : ai < w.archs.length
      · rw [absShared_ext (hsh _ (arch_mem hai)) he]
      · rw [arch_of_ge w ai (by omega)]
        rfl

theorem inv_set {w : WM} {iss : List Handle} (hi : Inv ⟨w, iss⟩) (p : Pool) (n : Nat) (t : List (CompId × Nat))
    (he : PoolExt w.pool p) (hp : PoolInv { w with pool := p, nextInst := n, temps := t }) :
    Inv ⟨{ w with pool := p, nextInst := n, temps := t }, iss⟩ :=
  { tinv := hi.tinv
    pendNodup := hi.pendNodup
    rows := ⟨hi.rows.vals, hi.rows.loc⟩
    keys := ⟨hi.keys.masks, hi.keys.distinct⟩
    live := ⟨hi.live.live_in, hi.live.row_live⟩
    pool := hp
    shared := fun a ha => (hi.shared a ha).ext he
    depsB := hi.depsB
    locsCover := hi.locsCover
    bufLe := hi.bufLe
    bufLen := hi.bufLen
    bufEmpty := hi.bufEmpty
    bufKnown := fun b hb cmd hc => ⟨(hi.bufKnown b hb cmd hc).1, cmdOk_ext he (hi.bufKnown b hb cmd hc).2⟩
    markedKnown := hi.markedKnown
    markedRange := hi.markedRange
    markedSorted := hi.markedSorted }

theorem rel_set {w : WM} {iss : List Handle} {s : WS} (hsh : SharedPooled w)
    (hcmd : ∀ b ∈ w.buffers, ∀ cmd ∈ b, cmdOk w.pool cmd) (hr : Rel ⟨w, iss⟩ s) (p : Pool) (n : Nat)
    (t : List (CompId × Nat)) (k : Nat) (he : PoolExt w.pool p) :
    Rel ⟨{ w with pool := p, nextInst := n, temps := t, nextEntityId := k }, iss⟩ s :=
  { len := hr.len
    ents := fun o h ho => by
      have := hr.ents o h ho
      show optRel (s.alive o) (absEnt { w with pool := p, nextInst := n, temps := t } h)
      rw [absEnt_set w hsh p n t he]
      exact this
    deps := hr.deps
    lockDepth := hr.lockDepth
    nthreads := hr.nthreads
    buffers := by
      have hb := hr.buffers
      show All2 (All2 (cmdRel iss p)) w.buffers s.buffers
      refine hb.mono ?_
      intro b hb' sb hbb
      refine hbb.mono ?_
      intro cmd hc sc hcs
      exact cmdRel_ext he (hcmd b hb' cmd hc) hcs
    marked := hr.marked
    markedLt := hr.markedLt
    markedNodup := hr.markedNodup
    markedOld := hr.markedOld }

/-- the frame move: `Inv` -/
theorem inv_frame {c : CW} {w' : WM} (hi : Inv c) (hf : FrameEq c.w w') (he : PoolExt c.w.pool w'.pool)
    (hp : PoolInv w') : Inv ⟨w', c.issued⟩ := by
  rw [hf.eq] at hp ⊢
  exact inv_set hi _ _ _ he hp

theorem rel_frame {c : CW} {s : WS} {w' : WM} (hi : Inv c) (hr : Rel c s) (hf : FrameEq c.w w')
    (he : PoolExt c.w.pool w'.pool) : Rel ⟨w', c.issued⟩ s := by
  rw [hf.eq]
  exact rel_set hi.shared (fun b hb cmd hc => (hi.bufKnown b hb cmd hc).2) hr _ _ _ _ he

theorem frameEq_temps (w : WM) (t : List (CompId × Nat)) : FrameEq w { w with temps := t } :=
  ⟨rfl, rfl, rfl, rfl, rfl, rfl, rfl, rfl, rfl, rfl, rfl, rfl⟩

theorem poolInv_temps {w : WM} (h : PoolInv w) (t : List (CompId × Nat)) : PoolInv { w with temps := t } :=
  ⟨h.vals_nodup, h.insts_nodup, h.inst_lt, h.inst_sid⟩

theorem frameEq_poolGet (w : WM) (sid v : Nat) : FrameEq w (w.poolGet sid v).1 :=
  ⟨by simp, by simp, by simp, by simp, by simp, by simp, by simp, by simp, by simp, by simp, by simp, by simp⟩

theorem FrameEq.refl (w : WM) : FrameEq w w := ⟨rfl, rfl, rfl, rfl, rfl, rfl, rfl, rfl, rfl, rfl, rfl, rfl⟩

theorem FrameEq.trans {a b c : WM} (h₁ : FrameEq a b) (h₂ : FrameEq b c) : FrameEq a c :=
  ⟨h₂.worldId.trans h₁.worldId, h₂.slots.trans h₁.slots, h₂.next.trans h₁.next, h₂.empty.trans h₁.empty,
   h₂.locs.trans h₁.locs, h₂.archs.trans h₁.archs, h₂.deps.trans h₁.deps, h₂.lockDepth.trans h₁.lockDepth,
   h₂.nextEntityId.trans h₁.nextEntityId, h₂.nthreads.trans h₁.nthreads, h₂.buffers.trans h₁.buffers,
   h₂.marked.trans h₁.marked⟩

/-! ## buffers: pushing a command -/

theorem flatten_set_perm {α : Type} (l : List (List α)) (t : Nat) (x : α) (ht : t < l.length) :
    (l.set t (l.getD t [] ++ [x])).flatten.Perm (l.flatten ++ [x]) := by
  induction l generalizing t with
  | nil => simp at ht
  | cons b bs ih =>
    cases t with
    | zero =>
      simp only [List.set_cons_zero, List.getD_cons_zero, List.flatten_cons, List.append_assoc]
      exact List.Perm.append_left b List.perm_append_comm
    | succ t =>
      simp only [List.set_cons_succ, List.getD_cons_succ, List.flatten_cons, List.append_assoc]
      exact List.Perm.append_left b (ih t (by simpa using ht))

theorem createHandles_push (bufs : List (List Cmd)) (t : Nat) (cmd : Cmd) (ht : t < bufs.length) :
    (createHandles (bufs.set t (bufs.getD t [] ++ [cmd]))).Perm (createHandles bufs ++ (crH cmd).toList) := by
  unfold createHandles
  have := (flatten_set_perm bufs t cmd ht).filterMap crH
  rw [List.filterMap_append] at this
  refine this.trans ?_
  have : List.filterMap crH [cmd] = (crH cmd).toList := by
    cases h : crH cmd <;> simp [h]
  rw [this]

theorem createHandles_push_ge (bufs : List (List Cmd)) (t : Nat) (x : List Cmd) (ht : bufs.length ≤ t) :
    createHandles (bufs.set t x) = createHandles bufs := by
  rw [List.set_eq_of_length_le ht]

theorem mem_push {bufs : List (List Cmd)} {t : Nat} {cmd : Cmd} {b : List Cmd} {x : Cmd}
    (hb : b ∈ bufs.set t (bufs.getD t [] ++ [cmd])) (hx : x ∈ b) : (∃ b' ∈ bufs, x ∈ b') ∨ x = cmd := by
  rcases List.mem_or_eq_of_mem_set hb with h | h
  · exact Or.inl ⟨b, h, hx⟩
  · subst h
    rcases List.mem_append.mp hx with h | h
    · left
      by_cases ht : t < bufs.length
      · refine ⟨bufs.getD t [], ?_, h⟩
        rw [List.getD_eq_getElem?_getD, List.getElem?_eq_getElem ht]
        exact List.getElem_mem ht
      · rw [List.getD_eq_getElem?_getD, List.getElem?_eq_none (by omega)] at h
        simp at h
    · right; simpa using h

/-- appending one non-creating command on a `Known` handle to buffer `t` -/
theorem inv_push {c : CW} (hi : Inv c) (t : Nat) (cmd : Cmd) (hcr : crH cmd = none) (hk : Known c cmd.entity)
    (hok : cmdOk c.w.pool cmd) (hl : 0 < c.w.lockDepth) : Inv ⟨c.w.pushCmd t cmd, c.issued⟩ := by
  have hch : ∀ h, h ∈ createHandles (c.w.pushCmd t cmd).buffers ↔ h ∈ createHandles c.w.buffers := by
    intro h
    show h ∈ createHandles (c.w.buffers.set t (c.w.buffers.getD t [] ++ [cmd])) ↔ _
    by_cases ht : t < c.w.buffers.length
    · have := (createHandles_push c.w.buffers t cmd ht).mem_iff (a := h)
      rw [this, hcr]; simp
    · rw [createHandles_push_ge _ _ _ (by omega)]
  refine
  { tinv := ?_, pendNodup := ?_, rows := (pushCmd_step hi.rows t cmd 0).ok, keys := (pushCmd_step hi.rows t cmd 0).keys hi.keys,
    live := liveInv_of_same hi.live (fun _ => rfl) (fun _ => rfl),
    pool := ⟨hi.pool.vals_nodup, hi.pool.insts_nodup, hi.pool.inst_lt, hi.pool.inst_sid⟩,
    shared := hi.shared, depsB := hi.depsB, locsCover := hi.locsCover,
    bufLe := ?_, bufLen := ?_, bufEmpty := ?_, bufKnown := ?_, markedKnown := ?_, markedRange := hi.markedRange,
    markedSorted := hi.markedSorted }
  · rcases hi.tinv with ⟨g, tinv, hiss, hpend⟩
    exact ⟨g, tinv, hiss, fun h => (hpend h).trans (hch h).symm⟩
  · show (createHandles (c.w.buffers.set t (c.w.buffers.getD t [] ++ [cmd]))).Nodup
    by_cases ht : t < c.w.buffers.length
    · rw [(createHandles_push c.w.buffers t cmd ht).nodup_iff, hcr]
      simpa using hi.pendNodup
    · rw [createHandles_push_ge _ _ _ (by omega)]; exact hi.pendNodup
  · show (c.w.buffers.set t _).length ≤ _
    rw [List.length_set]; exact hi.bufLe
  · intro h
    show (c.w.buffers.set t _).length = _
    rw [List.length_set]; exact hi.bufLen h
  · intro h
    have : c.w.lockDepth = 0 := h
    omega
  · intro b hb x hx
    rcases mem_push hb hx with ⟨b', hb', hx'⟩ | rfl
    · exact hi.bufKnown b' hb' x hx'
    · exact ⟨hk, hok⟩
  · intro h hm
    exact ⟨(hi.markedKnown h hm).1, fun hc => (hi.markedKnown h hm).2 ((hch h).mp hc)⟩

theorem rel_push {c : CW} {s : WS} (hr : Rel c s) (t : Nat) (cmd : Cmd) (sc : SCmd)
    (hrel : cmdRel c.issued c.w.pool cmd sc)
    (hnm : ∀ e, crH cmd = some e → ∀ o ∈ s.marked, c.issued[o]? ≠ some e) :
    Rel ⟨c.w.pushCmd t cmd, c.issued⟩ (s.push t sc) :=
  { len := hr.len
    ents := hr.ents
    deps := hr.deps
    lockDepth := hr.lockDepth
    nthreads := hr.nthreads
    buffers := hr.buffers.set t ((hr.buffers.getD t [] [] .nil).append (.cons hrel .nil))
    marked := hr.marked
    markedLt := hr.markedLt
    markedNodup := hr.markedNodup
    markedOld := by
      intro o ho h hh
      show h ∉ createHandles (c.w.buffers.set t (c.w.buffers.getD t [] ++ [cmd]))
      have hold := hr.markedOld o ho h hh
      by_cases ht : t < c.w.buffers.length
      · rw [(createHandles_push c.w.buffers t cmd ht).mem_iff, List.mem_append]
        rintro (hc | hc)
        · exact hold hc
        · cases hcr : crH cmd with
          | none => rw [hcr] at hc; simp at hc
          | some e =>
            rw [hcr] at hc
            have : h = e := by simpa using hc
            exact hnm e hcr o ho (this ▸ hh)
      · rw [createHandles_push_ge _ _ _ (by omega)]; exact hold }

end Mustache.Proofs.Refine

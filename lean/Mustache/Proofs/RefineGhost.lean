import Mustache.Proofs.RefineRun
/-!
# Refinement, stage (e): `applyCommandPack` does not read `lockDepth` / `buffers`

`setCtl w d b mk` replaces the two fields; every piece of `applyPack` commutes with it. This lets the flush be run on
"ghost" states that still carry the not-yet-applied commands in `buffers` (so that `Inv` — whose id-table part names
the reserved handles through the buffered create commands — holds after every pack).
-/
namespace Mustache.Proofs.Refine
open Mustache.Model Mustache.Spec
open Mustache.Proofs.Rows

variable (info : CompId → CompInfo)

def setCtl (w : WM) (d : Nat) (b : List (List Cmd)) (mk : List Handle) : WM :=
  { w with lockDepth := d, buffers := b, marked := mk }

variable (d : Nat) (b : List (List Cmd)) (mk : List Handle)

theorem setCtl_setArch (w : WM) (i : Nat) (a : Arch) : (setCtl w d b mk).setArch i a = setCtl (w.setArch i a) d b mk := rfl

theorem setCtl_arch (w : WM) (i : Nat) : (setCtl w d b mk).arch i = w.arch i := rfl
theorem setCtl_locOf (w : WM) (h : Handle) : (setCtl w d b mk).locOf h = w.locOf h := rfl
theorem setCtl_isValid (w : WM) (h : Handle) : (setCtl w d b mk).isValid h = w.isValid h := rfl

theorem setCtl_setLoc (w : WM) (h : Handle) (a : Option Nat) (i : Nat) :
    (setCtl w d b mk).setLoc h a i = setCtl (w.setLoc h a i) d b mk := by
  unfold WM.setLoc
  split <;> rfl

theorem setCtl_release (w : WM) (h : Handle) : (setCtl w d b mk).release h = setCtl (w.release h) d b mk := by
  unfold WM.release
  by_cases hc : h.id < w.slots.length
  · have : h.id < (setCtl w d b mk).slots.length := hc
    simp only [hc, this, if_true]; rfl
  · have : ¬ h.id < (setCtl w d b mk).slots.length := hc
    simp only [hc, this, if_false]; rfl

theorem setCtl_archRemove (w : WM) (ai idx : Nat) (sk : Mask) :
    (setCtl w d b mk).archRemove info ai idx sk =
      (setCtl (w.archRemove info ai idx sk).1 d b mk, (w.archRemove info ai idx sk).2) := by
  unfold WM.archRemove
  simp only [setCtl_arch]
  cases (w.arch ai).rows[idx]? with
  | none => rfl
  | some row =>
    simp only
    by_cases hl : idx = (w.arch ai).rows.length - 1
    · simp only [hl, if_true, setCtl_setArch, setCtl_setLoc]
    · simp only [hl, if_false, setCtl_setArch, setCtl_setLoc]

theorem setCtl_destroyNowU (w : WM) (h : Handle) :
    (setCtl w d b mk).destroyNowU info h = (setCtl (w.destroyNowU info h).1 d b mk, (w.destroyNowU info h).2) := by
  unfold WM.destroyNowU
  simp only [setCtl_isValid, setCtl_locOf]
  by_cases hv : (!w.isValid h) = true
  · simp only [hv, if_true]
  · simp only [hv, if_false]
    cases (w.locOf h).arch with
    | none => simp only [setCtl_release, Bool.false_eq_true, if_false]
    | some ai => simp only [setCtl_archRemove, setCtl_release, Bool.false_eq_true, if_false]

theorem setCtl_getArch (w : WM) (m : Mask) (sh : Shared) :
    (setCtl w d b mk).getArch m sh = (setCtl (w.getArch m sh).1 d b mk, (w.getArch m sh).2) := by
  unfold WM.getArch
  have hf : (setCtl w d b mk).findArch (Mask.union m (extraComponents (setCtl w d b mk).deps m)) sh =
      w.findArch (Mask.union m (extraComponents w.deps m)) sh := rfl
  simp only [hf]
  cases w.findArch (Mask.union m (extraComponents w.deps m)) sh <;> rfl

theorem setCtl_archInsert (w : WM) (ai : Nat) (e : Handle) (skip : Mask) :
    (setCtl w d b mk).archInsert info ai e skip =
      (setCtl (w.archInsert info ai e skip).1 d b mk, (w.archInsert info ai e skip).2) := by
  unfold WM.archInsert
  simp only [setCtl_arch, setCtl_setArch, setCtl_setLoc]
  rfl

theorem setCtl_externalMove (w : WM) (t : Nat) (e : Handle) (p i : Nat) (skip : Mask) :
    (setCtl w d b mk).externalMove info t e p i skip =
      (w.externalMove info t e p i skip).map (fun r => (setCtl r.1 d b mk, r.2)) := by
  unfold WM.externalMove
  by_cases ht : t = p
  · simp only [ht, if_true, Option.map_none]
  · simp only [ht, if_false, setCtl_arch, setCtl_setArch, setCtl_archRemove, setCtl_setLoc, Option.map_some]

theorem setCtl_packSetVal (ti idx : Nat) (w : WM) (c : CompId) (v : Val) :
    packSetVal ti idx (setCtl w d b mk) c v = setCtl (packSetVal ti idx w c v) d b mk := by
  unfold packSetVal
  simp only [setCtl_arch]
  cases (w.arch ti).mask.indexOf? c <;> rfl

theorem setCtl_packStart (w : WM) (first : Cmd) :
    packStart (setCtl w d b mk) first = (packStart w first).map (fun r => (setCtl r.1 d b mk, r.2.1, r.2.2)) := by
  unfold packStart
  cases first with
  | create e m sh => rfl
  | destroyNow e =>
    simp only [setCtl_isValid, setCtl_locOf, setCtl_arch]
    by_cases hv : (!w.isValid (Cmd.destroyNow e).entity) = true
    · simp only [hv, if_true, Option.map_none]
    · simp only [hv, if_false]
      cases (w.locOf (Cmd.destroyNow e).entity).arch <;> rfl
  | destroy e =>
    simp only [setCtl_isValid, setCtl_locOf, setCtl_arch]
    by_cases hv : (!w.isValid (Cmd.destroy e).entity) = true
    · simp only [hv, if_true, Option.map_none]
    · simp only [hv, if_false]
      cases (w.locOf (Cmd.destroy e).entity).arch <;> rfl
  | remove e c =>
    simp only [setCtl_isValid, setCtl_locOf, setCtl_arch]
    by_cases hv : (!w.isValid (Cmd.remove e c).entity) = true
    · simp only [hv, if_true, Option.map_none]
    · simp only [hv, if_false]
      cases (w.locOf (Cmd.remove e c).entity).arch <;> rfl
  | assign e c v =>
    simp only [setCtl_isValid, setCtl_locOf, setCtl_arch]
    by_cases hv : (!w.isValid (Cmd.assign e c v).entity) = true
    · simp only [hv, if_true, Option.map_none]
    · simp only [hv, if_false]
      cases (w.locOf (Cmd.assign e c v).entity).arch <;> rfl

theorem release_marked' (w : WM) (h : Handle) : (w.release h).marked = w.marked := by
  unfold WM.release; simp only; split <;> rfl

theorem destroyNowU_marked' (w : WM) (h : Handle) : (w.destroyNowU info h).1.marked = w.marked := by
  rw [destroyNowU_fst]
  split
  · cases (w.locOf h).arch with
    | none => exact release_marked' w h
    | some ai =>
      simp only
      rw [release_marked']
      exact (archRemove_sameTable info w ai (w.locOf h).idx []).marked
  · rfl

/-- a pack command on a state with other `lockDepth` / `buffers` (the `marked` set is read by `destroy`, so it is kept) -/
theorem setCtl_packStep (e : Handle) (isCreate : Bool) (w : WM) (p : PackSt) (cbs : List Cb) (c : Cmd) :
    packStep info e isCreate (setCtl w d b w.marked, p, cbs) c =
      (setCtl (packStep info e isCreate (w, p, cbs) c).1 d b (packStep info e isCreate (w, p, cbs) c).1.marked,
        (packStep info e isCreate (w, p, cbs) c).2.1, (packStep info e isCreate (w, p, cbs) c).2.2) := by
  unfold packStep
  simp only
  by_cases hd : p.dead = true
  · simp only [hd, if_true]
  · simp only [hd, Bool.false_eq_true, if_false]
    cases c with
    | create e' m sh => rfl
    | destroyNow e' =>
      simp only
      cases isCreate with
      | true => simp only [if_true, setCtl_release, release_marked']
      | false => simp only [Bool.false_eq_true, if_false, setCtl_destroyNowU, destroyNowU_marked']
    | destroy h => rfl
    | remove e' c' =>
      simp only
      have hdeps : (setCtl w d b w.marked).deps = w.deps := rfl
      rw [hdeps]
      by_cases h1 : p.final.contains c' = true
      · simp only [h1, if_true]
        by_cases h2 : (closedMask w.deps (Mask.erase p.final c')).contains c' = true
        · simp only [h2, if_true]
        · simp only [h2, Bool.false_eq_true, if_false]
      · simp only [h1, Bool.false_eq_true, if_false]
    | assign e' c' v =>
      simp only
      have hdeps : (setCtl w d b w.marked).deps = w.deps := rfl
      rw [hdeps]
      by_cases h1 : p.final.contains c' = true
      · simp only [h1, if_true]
      · simp only [h1, Bool.false_eq_true, if_false]

theorem setCtl_packFold (e : Handle) (isCreate : Bool) (l : List Cmd) (w : WM) (p : PackSt) (cbs : List Cb) :
    l.foldl (packStep info e isCreate) (setCtl w d b w.marked, p, cbs) =
      (setCtl (l.foldl (packStep info e isCreate) (w, p, cbs)).1 d b (l.foldl (packStep info e isCreate) (w, p, cbs)).1.marked,
        (l.foldl (packStep info e isCreate) (w, p, cbs)).2.1, (l.foldl (packStep info e isCreate) (w, p, cbs)).2.2) := by
  induction l generalizing w p cbs with
  | nil => rfl
  | cons c rest ih =>
    simp only [List.foldl_cons]
    rw [setCtl_packStep, ih]

theorem fold_setCtl {α : Type} (F : WM × List Cb → α → WM × List Cb)
    (hF : ∀ W cbs x, F (setCtl W d b mk, cbs) x = (setCtl (F (W, cbs) x).1 d b mk, (F (W, cbs) x).2)) (l : List α) (W : WM)
    (cbs : List Cb) :
    l.foldl F (setCtl W d b mk, cbs) = (setCtl (l.foldl F (W, cbs)).1 d b mk, (l.foldl F (W, cbs)).2) := by
  induction l generalizing W cbs with
  | nil => rfl
  | cons x rest ih =>
    simp only [List.foldl_cons]
    rw [hF, ih]

/-- what `packFinish` does after the move: the stale-instance loop and the loop over the supplied values -/
def packLoops (e : Handle) (isCreate : Bool) (initial : Mask) (p : PackSt) (ti : Nat) (W1 : WM) (cbs1 cbs : List Cb) :
    WM × List Cb :=
  ((p.src.foldl (packF3 info e
      (((packStale isCreate initial p (Mask.ofList (p.src.map (·.1))) (W1.arch ti).mask).foldl
        (packF2 info e (Mask.ofList (p.src.map (·.1))) ti (W1.locOf e).idx) (W1, [])).1.arch ti).mask ti (W1.locOf e).idx)
      (((packStale isCreate initial p (Mask.ofList (p.src.map (·.1))) (W1.arch ti).mask).foldl
        (packF2 info e (Mask.ofList (p.src.map (·.1))) ti (W1.locOf e).idx) (W1, [])).1, [])).1,
   cbs ++ cbs1 ++
    ((packStale isCreate initial p (Mask.ofList (p.src.map (·.1))) (W1.arch ti).mask).foldl
        (packF2 info e (Mask.ofList (p.src.map (·.1))) ti (W1.locOf e).idx) (W1, [])).2 ++
    (p.src.foldl (packF3 info e
      (((packStale isCreate initial p (Mask.ofList (p.src.map (·.1))) (W1.arch ti).mask).foldl
        (packF2 info e (Mask.ofList (p.src.map (·.1))) ti (W1.locOf e).idx) (W1, [])).1.arch ti).mask ti (W1.locOf e).idx)
      (((packStale isCreate initial p (Mask.ofList (p.src.map (·.1))) (W1.arch ti).mask).foldl
        (packF2 info e (Mask.ofList (p.src.map (·.1))) ti (W1.locOf e).idx) (W1, [])).1, [])).2)

theorem packFinish_eq (e : Handle) (isCreate : Bool) (initial : Mask) (sh : Shared) (w : WM) (p : PackSt)
    (cbs : List Cb) :
    packFinish info e isCreate initial sh (w, p, cbs) =
      if p.dead then (w, cbs) else
        packLoops info e isCreate initial p (packTarget e isCreate initial sh w p).2
          (packMoved info e isCreate initial sh w p).1 (packMoved info e isCreate initial sh w p).2 cbs := by
  unfold packFinish packLoops packMoved packStale packF2 packF3 packTarget
  simp only

theorem setCtl_packTarget (e : Handle) (isCreate : Bool) (initial : Mask) (sh : Shared) (w : WM) (p : PackSt) :
    packTarget e isCreate initial sh (setCtl w d b mk) p =
      (setCtl (packTarget e isCreate initial sh w p).1 d b mk, (packTarget e isCreate initial sh w p).2) := by
  unfold packTarget
  simp only [setCtl_locOf]
  split
  · rfl
  · exact setCtl_getArch ..

theorem setCtl_packMoved (e : Handle) (isCreate : Bool) (initial : Mask) (sh : Shared) (w : WM) (p : PackSt) :
    packMoved info e isCreate initial sh (setCtl w d b mk) p =
      (setCtl (packMoved info e isCreate initial sh w p).1 d b mk, (packMoved info e isCreate initial sh w p).2) := by
  unfold packMoved
  simp only [setCtl_packTarget, setCtl_locOf]
  generalize packTarget e isCreate initial sh w p = g
  cases isCreate with
  | true => simp only [if_true, setCtl_archInsert]
  | false =>
    simp only [Bool.false_eq_true, if_false]
    cases (g.1.locOf e).arch with
    | none => rfl
    | some pi =>
      simp only
      by_cases hc : (pi = g.2 || initial == p.final) = true
      · simp only [hc, if_true]
      · simp only [hc, if_false, setCtl_externalMove]
        cases g.1.externalMove info g.2 e pi (g.1.locOf e).idx (Mask.ofList (p.src.map (·.1))) <;> rfl

theorem setCtl_packLoops (e : Handle) (isCreate : Bool) (initial : Mask) (p : PackSt) (ti : Nat) (W1 : WM)
    (cbs1 cbs : List Cb) :
    packLoops info e isCreate initial p ti (setCtl W1 d b mk) cbs1 cbs =
      (setCtl (packLoops info e isCreate initial p ti W1 cbs1 cbs).1 d b mk,
        (packLoops info e isCreate initial p ti W1 cbs1 cbs).2) := by
  unfold packLoops
  simp only [setCtl_arch, setCtl_locOf]
  have h2 := fold_setCtl d b mk (packF2 info e (Mask.ofList (p.src.map (·.1))) ti (W1.locOf e).idx) (fun W c x => by
      unfold packF2
      simp only
      by_cases hs : (Mask.ofList (p.src.map (·.1))).contains x = true
      · simp only [hs, if_true]
      · simp only [hs, Bool.false_eq_true, if_false, setCtl_packSetVal])
    (packStale isCreate initial p (Mask.ofList (p.src.map (·.1))) (W1.arch ti).mask) W1 []
  rw [h2]
  simp only [setCtl_arch]
  have h3 := fun tmask => fold_setCtl d b mk (packF3 info e tmask ti (W1.locOf e).idx) (fun W c x => by
      unfold packF3
      by_cases hs : tmask.contains x.1 = true
      · simp only [hs, if_true, setCtl_packSetVal]
      · simp only [hs, Bool.false_eq_true, if_false]) p.src
  rw [h3]

theorem setCtl_packFinish (e : Handle) (isCreate : Bool) (initial : Mask) (sh : Shared) (w : WM) (p : PackSt)
    (cbs : List Cb) :
    packFinish info e isCreate initial sh (setCtl w d b mk, p, cbs) =
      (setCtl (packFinish info e isCreate initial sh (w, p, cbs)).1 d b mk,
        (packFinish info e isCreate initial sh (w, p, cbs)).2) := by
  rw [packFinish_eq, packFinish_eq]
  by_cases hd : p.dead = true
  · simp only [hd, if_true]
  · simp only [hd, Bool.false_eq_true, if_false, setCtl_packTarget, setCtl_packMoved, setCtl_packLoops]

theorem packFinish_marked (e : Handle) (isCreate : Bool) (initial : Mask) (sh : Shared) (st : WM × PackSt × List Cb) :
    (packFinish info e isCreate initial sh st).1.marked = st.1.marked :=
  (packFinish_sameTable info e isCreate initial sh st).marked

/-- `applyCommandPack` reads neither `lockDepth` nor `buffers` -/
theorem setCtl_applyPack (w : WM) (pack : List Cmd) :
    (setCtl w d b w.marked).applyPack info pack =
      (setCtl (w.applyPack info pack).1 d b (w.applyPack info pack).1.marked, (w.applyPack info pack).2) := by
  cases pack with
  | nil => rfl
  | cons first rest =>
    rw [applyPack_eq, applyPack_eq, setCtl_packStart]
    cases hps : packStart w first with
    | none => rfl
    | some r =>
      obtain ⟨w1, initial0, sh⟩ := r
      simp only [Option.map_some]
      have hdeps : (setCtl w1 d b w.marked).deps = w1.deps := rfl
      have hm1 : w1.marked = w.marked := by
        unfold packStart at hps
        cases first with
        | create e m sh' => simp only at hps; cases hps; rfl
        | destroyNow e => simp only at hps; split at hps; cases hps; split at hps; cases hps; cases hps; rfl
        | destroy e => simp only at hps; split at hps; cases hps; split at hps; cases hps; cases hps; rfl
        | remove e c => simp only at hps; split at hps; cases hps; split at hps; cases hps; cases hps; rfl
        | assign e c v => simp only at hps; split at hps; cases hps; split at hps; cases hps; cases hps; rfl
      rw [hdeps, ← hm1, setCtl_packFold, setCtl_packFinish, packFinish_marked]

end Mustache.Proofs.Refine

import Mustache.Proofs.RefineLocked
/-!
# Refinement: issuing a handle (the next ordinal), the default-valued shared components of `create`
-/
namespace Mustache.Proofs.Refine
open Mustache.Model Mustache.Spec
open Mustache.Proofs.IdTable (tabOf Ghost TInv)
open Mustache.Proofs.Rows

variable (info : CompId → CompInfo)

/-! ## `Known` handles keep their ordinal -/

theorem Known.mono {w w' : WM} {iss iss' : List Handle} {e : Handle} (hk : Known ⟨w, iss⟩ e)
    (hw : w'.worldId = w.worldId) (hsub : ∀ x ∈ iss, x ∈ iss') : Known ⟨w', iss'⟩ e := by
  unfold Known at hk ⊢
  simp only at hk ⊢
  rw [hw]
  rcases hk with h | h | h
  · exact Or.inl (hsub _ h)
  · exact Or.inr (Or.inl h)
  · exact Or.inr (Or.inr h)

/-- a `Known` handle is not a handle that is issued only now -/
theorem Known.ne_new {w : WM} {iss : List Handle} {e h : Handle} (hk : Known ⟨w, iss⟩ e) (hnew : h ∉ iss)
    (hw : h.world = w.worldId) (hn : h ≠ Handle.null) : e ≠ h := by
  rintro rfl
  rcases hk with h1 | h1 | h1
  · exact hnew h1
  · exact h1 hw
  · exact hn h1

theorem cmdRel_issue {iss : List Handle} {p : Pool} {cmd : Cmd} {sc : SCmd} {h : Handle} (hne : cmd.entity ≠ h)
    (hrel : cmdRel iss p cmd sc) : cmdRel (iss ++ [h]) p cmd sc := by
  have ho : ordOf (iss ++ [h]) cmd.entity = ordOf iss cmd.entity := ordOf_snoc_ne iss (Ne.symm hne)
  cases cmd <;> cases sc <;> simp only [cmdRel, Cmd.entity] at hrel ho ⊢ <;> first | exact hrel | (rw [ho]; exact hrel)

/-- the next ordinal is given to `h`; the spec gets the entry `x` for it -/
theorem rel_issue {w : WM} {iss : List Handle} {s : WS} (hr : Rel ⟨w, iss⟩ s) (h : Handle) (x : Option SEnt)
    (hx : optRel x (absEnt w h))
    (hbk : ∀ b ∈ w.buffers, ∀ cmd ∈ b, cmd.entity ≠ h) (hmk : ∀ e ∈ w.marked, e ≠ h) :
    Rel ⟨w, iss ++ [h]⟩ { s with ents := s.ents ++ [x] } := by
  have hlen : s.ents.length = iss.length := hr.len
  have halive : ∀ o, o < s.ents.length → WS.alive { s with ents := s.ents ++ [x] } o = s.alive o := by
    intro o ho
    simp only [WS.alive, List.getD_eq_getElem?_getD, List.getElem?_append_left ho]
  refine
  { len := by show (s.ents ++ [x]).length = (iss ++ [h]).length; simp [hlen]
    ents := ?_, deps := hr.deps, lockDepth := hr.lockDepth, nthreads := hr.nthreads, buffers := ?_, marked := ?_,
    markedLt := ?_, markedNodup := hr.markedNodup
    markedOld := by
      intro o ho h' hh
      have hh' : (iss ++ [h])[o]? = some h' := hh
      have hlt : o < iss.length := hlen ▸ hr.markedLt o ho
      rw [List.getElem?_append_left hlt] at hh'
      exact hr.markedOld o ho h' hh' }
  · intro o h' ho
    have ho' : (iss ++ [h])[o]? = some h' := ho
    by_cases hlt : o < iss.length
    · rw [List.getElem?_append_left hlt] at ho'
      rw [halive o (by omega)]
      exact hr.ents o h' ho'
    · rw [List.getElem?_append_right (by omega)] at ho'
      have ho0 : o - iss.length = 0 := by
        rcases Nat.eq_zero_or_pos (o - iss.length) with h0 | h0
        · exact h0
        · rw [List.getElem?_eq_none (by simp; omega)] at ho'; cases ho'
      rw [ho0] at ho'
      simp only [List.getElem?_cons_zero, Option.some.injEq] at ho'
      subst ho'
      have : o = s.ents.length := by omega
      have hal : WS.alive { s with ents := s.ents ++ [x] } o = x := by
        simp only [WS.alive, List.getD_eq_getElem?_getD, this, List.getElem?_append_right (Nat.le_refl _)]
        simp
      rw [hal]
      exact hx
  · show All2 (All2 (cmdRel (iss ++ [h]) w.pool)) w.buffers s.buffers
    refine hr.buffers.mono ?_
    intro b hb sb hbb
    refine hbb.mono ?_
    intro cmd hc sc hcs
    exact cmdRel_issue (hbk b hb cmd hc) hcs
  · intro o
    show (o ∈ s.marked ∧ (WS.alive { s with ents := s.ents ++ [x] } o).isSome = true) ↔
      ∃ e ∈ w.marked, w.isValid e = true ∧ ordOf (iss ++ [h]) e = some o
    have hrhs : (∃ e ∈ w.marked, w.isValid e = true ∧ ordOf (iss ++ [h]) e = some o) ↔
        ∃ e ∈ w.marked, w.isValid e = true ∧ ordOf iss e = some o := by
      constructor
      · rintro ⟨e, he, hv, ho⟩
        exact ⟨e, he, hv, by rw [← ordOf_snoc_ne iss (Ne.symm (hmk e he))]; exact ho⟩
      · rintro ⟨e, he, hv, ho⟩
        exact ⟨e, he, hv, by rw [ordOf_snoc_ne iss (Ne.symm (hmk e he))]; exact ho⟩
    rw [hrhs, ← hr.marked o]
    constructor
    · rintro ⟨hm, ha⟩
      rw [halive o (hr.markedLt o hm)] at ha
      exact ⟨hm, ha⟩
    · rintro ⟨hm, ha⟩
      rw [← halive o (hr.markedLt o hm)] at ha
      exact ⟨hm, ha⟩
  · intro o hm
    show o < (s.ents ++ [x]).length
    have := hr.markedLt o hm
    simp only [List.length_append, List.length_singleton]
    omega

/-! ## the default-valued shared components of a creation -/

theorem instVal_of_mem {w : WM} (hp : PoolInv w) {sid v i : Nat} (hm : (v, i) ∈ poolEntries w.pool sid) :
    instVal w.pool sid i = v := by
  unfold instVal
  cases hf : (poolEntries w.pool sid).find? (·.2 == i) with
  | none =>
    have := List.find?_eq_none.mp hf _ hm
    simp at this
  | some q =>
    have hq := List.mem_of_find?_eq_some hf
    have hq2 : q.2 = i := by simpa using List.find?_some hf
    have : q = (q.1, i) := by rw [← hq2]
    rw [this] at hq
    exact snd_inj_of_nodup (hp.insts_nodup sid) hq hm

def poolFold (w : WM) (shared : List Nat) (sh0 : Shared) : WM × Shared :=
  shared.foldl (fun (acc : WM × Shared) sid =>
    let (w', inst) := acc.1.poolGet sid 0
    (w', acc.2.add sid inst)) (w, sh0)

theorem poolGet_zero_mem (w : WM) (sid : Nat) : (0, (w.poolGet sid 0).2) ∈ poolEntries (w.poolGet sid 0).1.pool sid :=
  poolGet_mem w sid 0

theorem lookK_of_mem_sorted {l : List (Nat × Nat)} (hl : SortedK l) {a b : Nat} (hm : (a, b) ∈ l) :
    lookK l a = some b := by
  induction l with
  | nil => simp at hm
  | cons p t ih =>
    obtain ⟨a', b'⟩ := p
    rcases List.mem_cons.mp hm with h | h
    · cases h; simp [lookK]
    · have hlt := hl.head_lt (a, b) h
      have hne : a ≠ a' := by simp only at hlt; omega
      simp only [lookK, if_neg hne]
      exact ih hl.tail h

theorem sharedIn_add {p : Pool} {sh : Shared} (h : SharedIn p sh) (sid inst : Nat)
    (hin : inst ∈ (poolEntries p sid).map (·.2)) : SharedIn p (sh.add sid inst) := by
  refine ⟨Shared.wf_add sid inst h.1, ?_⟩
  intro q hq
  have hwf := Shared.wf_add sid inst h.1
  -- the entry is either the new one or an old one
  have hget : (sh.add sid inst).get? q.1 = some q.2 := by
    obtain ⟨l, hl, he⟩ := hwf.exists_pairs
    rw [he, zip_ofPairs] at hq
    rw [he, Shared.get?_ofPairs]
    obtain ⟨a, b⟩ := q
    exact lookK_of_mem_sorted hl hq
  by_cases hs : q.1 = sid
  · rw [hs, Shared.get?_add_self sid inst h.1.1] at hget
    cases hget
    rw [hs]; exact hin
  · rw [Shared.get?_add_ne inst h.1.1 hs] at hget
    obtain ⟨l, hl, he⟩ := h.1.exists_pairs
    rw [he, Shared.get?_ofPairs] at hget
    have := lookK_mem hget
    apply h.2
    rw [he, zip_ofPairs]
    exact this

theorem lookupS_defaults (shared : List Nat) (sid : Nat) :
    lookupS (shared.map (fun x => (x, 0))) sid = if sid ∈ shared then some 0 else none := by
  unfold lookupS
  induction shared with
  | nil => rfl
  | cons a t ih =>
    simp only [List.map_cons, List.find?_cons, List.mem_cons]
    by_cases h : a = sid
    · subst h; simp
    · have hb : (a == sid) = false := by simpa using h
      have hne : ¬ sid = a := fun e => h e.symm
      simp only [hb, hne, false_or]
      exact ih

theorem poolFold_spec : ∀ (shared : List Nat) (w : WM) (sh0 : Shared) (S : List Nat), PoolInv w → SharedIn w.pool sh0 →
    (∀ sid, lookupS (absShared w.pool sh0) sid = if sid ∈ S then some 0 else none) →
    FrameEq w (poolFold w shared sh0).1 ∧ PoolExt w.pool (poolFold w shared sh0).1.pool ∧
    PoolInv (poolFold w shared sh0).1 ∧ SharedIn (poolFold w shared sh0).1.pool (poolFold w shared sh0).2 ∧
    (∀ sid, lookupS (absShared (poolFold w shared sh0).1.pool (poolFold w shared sh0).2) sid =
      if sid ∈ S ++ shared then some 0 else none) := by
  intro shared
  induction shared with
  | nil =>
    intro w sh0 S hp hsh hv
    simp only [poolFold, List.foldl_nil, List.append_nil]
    exact ⟨FrameEq.refl w, PoolExt.refl _, hp, hsh, hv⟩
  | cons sid0 rest ih =>
    intro w sh0 S hp hsh hv
    have hp1 : PoolInv (w.poolGet sid0 0).1 := poolGet_inv sid0 0 hp
    have he1 : PoolExt w.pool (w.poolGet sid0 0).1.pool := poolGet_ext w sid0 0
    have hmem := poolGet_zero_mem w sid0
    have hin : (w.poolGet sid0 0).2 ∈ (poolEntries (w.poolGet sid0 0).1.pool sid0).map (·.2) :=
      List.mem_map.mpr ⟨_, hmem, rfl⟩
    have hsh1 : SharedIn (w.poolGet sid0 0).1.pool (sh0.add sid0 (w.poolGet sid0 0).2) :=
      sharedIn_add (hsh.ext he1) sid0 _ hin
    have hv1 : ∀ sid, lookupS (absShared (w.poolGet sid0 0).1.pool (sh0.add sid0 (w.poolGet sid0 0).2)) sid =
        if sid ∈ S ++ [sid0] then some 0 else none := by
      intro sid
      rw [lookupS_absShared _ hsh1.1.1]
      by_cases hs : sid = sid0
      · subst hs
        rw [Shared.get?_add_self sid _ hsh.1.1]
        simp [instVal_of_mem hp1 hmem]
      · rw [Shared.get?_add_ne _ hsh.1.1 hs, ← lookupS_absShared _ hsh.1.1, absShared_ext hsh he1, hv sid]
        simp [hs]
    have := ih (w.poolGet sid0 0).1 (sh0.add sid0 (w.poolGet sid0 0).2) (S ++ [sid0]) hp1 hsh1 hv1
    have hfold : poolFold w (sid0 :: rest) sh0 =
        poolFold (w.poolGet sid0 0).1 rest (sh0.add sid0 (w.poolGet sid0 0).2) := by
      simp only [poolFold, List.foldl_cons]
    rw [hfold]
    refine ⟨(frameEq_poolGet w sid0 0).trans this.1, he1.trans this.2.1, this.2.2.1, this.2.2.2.1, ?_⟩
    intro sid
    rw [this.2.2.2.2 sid, List.append_assoc]
    rfl

theorem sharedIn_null (p : Pool) : SharedIn p Shared.null :=
  ⟨Shared.wf_null, fun q hq => by simp [Shared.null] at hq⟩

/-! ## control-only move with a longer `issued` list -/

theorem inv_ctl_iss {w : WM} {iss : List Handle} (hi : Inv ⟨w, iss⟩) (iss' : List Handle) (hsub : ∀ x ∈ iss, x ∈ iss')
    (d n : Nat) (b : List (List Cmd)) (t : List (CompId × Nat))
    (htinv : ∃ g : Ghost, TInv (tabOf { w with lockDepth := d, nextEntityId := n, buffers := b, temps := t }) g ∧
      g.issued = iss'.reverse ∧ (∀ h, h ∈ g.pending ↔ h ∈ createHandles b))
    (hnd : (createHandles b).Nodup) (hle : b.length ≤ w.nthreads) (hlen : 0 < d → b.length = w.nthreads)
    (hemp : d = 0 → ∀ x ∈ b, x = [])
    (hkn : ∀ x ∈ b, ∀ cmd ∈ x, Known ⟨w, iss'⟩ cmd.entity ∧ cmdOk w.pool cmd)
    (hmk : ∀ h ∈ w.marked, h ∉ createHandles b) :
    Inv ⟨{ w with lockDepth := d, nextEntityId := n, buffers := b, temps := t }, iss'⟩ :=
  { tinv := htinv
    pendNodup := hnd
    rows := ⟨hi.rows.vals, hi.rows.loc⟩
    keys := ⟨hi.keys.masks, hi.keys.distinct⟩
    live := ⟨hi.live.live_in, hi.live.row_live⟩
    pool := ⟨hi.pool.vals_nodup, hi.pool.insts_nodup, hi.pool.inst_lt, hi.pool.inst_sid⟩
    shared := hi.shared
    depsB := hi.depsB
    locsCover := hi.locsCover
    bufLe := hle
    bufLen := hlen
    bufEmpty := hemp
    bufKnown := hkn
    markedKnown := fun h hm => ⟨(hi.markedKnown h hm).1.mono rfl hsub, hmk h hm⟩
    markedRange := hi.markedRange
    markedSorted := hi.markedSorted }

/-! ## a creation while locked: reserve a handle, push the create command -/

theorem createLocked_core {w : WM} {iss : List Handle} {s : WS} (hi : Inv ⟨w, iss⟩) (hr : Rel ⟨w, iss⟩ s)
    (hl : 0 < w.lockDepth) (t : Nat) (ht : t < w.nthreads) (m : Mask) (hm : MaskOk m) (sh : Shared)
    (hsh : SharedIn w.pool sh) (ssh : List (Nat × Nat))
    (hv : ∀ sid, lookupS ssh sid = lookupS (absShared w.pool sh) sid) :
    Inv ⟨(w.createLocked t m sh).1, iss ++ [(w.createLocked t m sh).2]⟩ ∧
    Rel ⟨(w.createLocked t m sh).1, iss ++ [(w.createLocked t m sh).2]⟩
      (WS.push { s with ents := s.ents ++ [none] } t (.create s.ents.length m ssh)) ∧
    (w.createLocked t m sh).1.isLocked = true ∧
    (w.createLocked t m sh).1.worldId = w.worldId ∧
    (w.createLocked t m sh).2 ∉ iss := by
  rcases hi.tinv with ⟨g, tinv, hiss, hpend⟩
  have hd : 0 < (tabOf w).lockDepth := hl
  have hres := Mustache.Proofs.IdTable.reserve_inv tinv hd
  have hreq := Mustache.Proofs.IdTable.reserve_eq tinv hd
  have htab := Mustache.Proofs.IdTable.createLocked_tab w t m sh
  -- the handle
  generalize hh : (w.createLocked t m sh).2 = h at *
  have hh' : ((tabOf w).reserve).2 = h := htab.2.symm
  have hval : h = ⟨w.nextEntityId, 0, w.worldId⟩ := by
    rw [← hh', hreq]; rfl
  have hworld : h.world = w.worldId := by rw [hval]
  have hnn : h ≠ Handle.null := by
    rw [hval]; intro e
    have := congrArg Handle.ver e
    simp [Handle.null] at this
  have hnew : h ∉ iss := by
    intro hin
    have : h ∈ g.issued := by rw [hiss]; exact List.mem_reverse.mpr hin
    rw [← hh'] at this
    exact hres.2.not_issued this
  have hw' : (w.createLocked t m sh).1 =
      { w with lockDepth := w.lockDepth, nextEntityId := w.nextEntityId + 1,
               buffers := w.buffers.set t (w.buffers.getD t [] ++ [.create h m sh]), temps := w.temps } := by
    rw [← hh]; rfl
  have htl : t < w.buffers.length := by rw [hi.bufLen hl]; exact ht
  have hperm := createHandles_push w.buffers t (.create h m sh) htl
  have hchm : ∀ x, x ∈ createHandles (w.buffers.set t (w.buffers.getD t [] ++ [.create h m sh])) ↔
      x = h ∨ x ∈ createHandles w.buffers := by
    intro x
    rw [hperm.mem_iff]; simp [crH, or_comm]
  have hnc : h ∉ createHandles w.buffers := by
    intro hc
    have := tinv.pend_issued h ((hpend h).mpr hc)
    rw [hiss] at this
    exact hnew (List.mem_reverse.mp this)
  have hbne : ∀ b ∈ w.buffers, ∀ cmd ∈ b, cmd.entity ≠ h := fun b hb cmd hc =>
    (hi.bufKnown b hb cmd hc).1.ne_new hnew hworld hnn
  have hmne : ∀ e ∈ w.marked, e ≠ h := fun e he => (hi.markedKnown e he).1.ne_new hnew hworld hnn
  have hsub : ∀ x ∈ iss, x ∈ iss ++ [h] := fun x hx => List.mem_append_left _ hx
  have htinv' : TInv (tabOf (w.createLocked t m sh).1) (g.reserve h) := by
    rw [htab.1, ← hh']; exact hres.1
  refine ⟨?_, ?_, ?_, ?_, hnew⟩
  · rw [hw']
    refine inv_ctl_iss hi (iss ++ [h]) hsub _ _ _ _ ⟨g.reserve h, hw' ▸ htinv', ?_, ?_⟩ ?_ ?_ ?_ ?_ ?_ ?_
    · show h :: g.issued = (iss ++ [h]).reverse
      rw [hiss]; simp
    · intro x
      show x ∈ h :: g.pending ↔ _
      rw [hchm x, List.mem_cons, hpend x]
    · rw [hperm.nodup_iff]
      simp only [crH, Option.toList_some]
      rw [List.nodup_append]
      exact ⟨hi.pendNodup, by simp, by
        intro a ha b hb; simp at hb; subst hb; intro e; subst e; exact hnc ha⟩
    · rw [List.length_set]; exact hi.bufLe
    · intro _; rw [List.length_set]; exact hi.bufLen hl
    · intro h0; omega
    · intro b hb cmd hc
      rcases mem_push hb hc with ⟨b', hb', hc'⟩ | rfl
      · exact ⟨(hi.bufKnown b' hb' cmd hc').1.mono rfl hsub, (hi.bufKnown b' hb' cmd hc').2⟩
      · exact ⟨Or.inl (by simp [Cmd.entity]), hm, hsh⟩
    · intro e he hc
      rcases (hchm e).mp hc with rfl | hc'
      · exact hmne e he rfl
      · exact (hi.markedKnown e he).2 hc'
  · -- Rel
    have hinv : w.isValid h = false := by
      have : (tabOf (w.createLocked t m sh).1).valid h = false :=
        Mustache.Proofs.IdTable.pending_invalid htinv' (by show h ∈ h :: g.pending; simp)
      rw [hw'] at this
      exact this
    have hr1 := rel_issue hr h none (by rw [absEnt_invalid hinv]; trivial) hbne hmne
    have hr2 : Rel ⟨{ w with nextEntityId := w.nextEntityId + 1 }, iss ++ [h]⟩ { s with ents := s.ents ++ [none] } :=
      rel_set (w := w) hi.shared (fun b hb cmd hc => (hi.bufKnown b hb cmd hc).2) hr1 w.pool w.nextInst w.temps
        (w.nextEntityId + 1) (PoolExt.refl _)
    have hr3 := rel_push hr2 t (.create h m sh) (.create s.ents.length m ssh)
      ⟨by rw [hr.len]; exact ordOf_snoc_self iss h, rfl, hv⟩
      (by
        intro e he o ho hh
        have he' : h = e := by simpa [crH] using he
        subst he'
        have hh' : (iss ++ [h])[o]? = some h := hh
        have hlt : o < iss.length := by
          have := hr.markedLt o ho
          rw [hr.len] at this; exact this
        rw [List.getElem?_append_left hlt] at hh'
        exact hnew (List.mem_of_getElem? hh'))
    rw [hw']
    exact hr3
  · rw [hw']; exact (isLocked_iff _).mpr hl
  · rw [hw']

end Mustache.Proofs.Refine

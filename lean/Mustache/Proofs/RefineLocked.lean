import Mustache.Proofs.RefineFrame
/-!
# Refinement, stage (b): `lock`, inner `unlock`, and every structural call issued while locked

While `lockDepth > 0` both sides only append a command to buffer `t` (`locked_isolation`): the model state
changes in `buffers`, `nextEntityId`, `temps` (and the pool, for the default-valued shared components of a
`create`), the spec state in `buffers` (and one `none` entry per reserved ordinal).
-/
namespace Mustache.Proofs.Refine
open Mustache.Model Mustache.Spec
open Mustache.Proofs.IdTable (tabOf Ghost TInv)
open Mustache.Proofs.Rows

variable (info : CompId → CompInfo)

/-! ## control-only moves: `lockDepth`, `nextEntityId`, `buffers`, `temps` change, nothing else -/

structure StructEq (w w' : WM) : Prop where
  worldId : w'.worldId = w.worldId
  slots : w'.slots = w.slots
  next : w'.next = w.next
  empty : w'.empty = w.empty
  locs : w'.locs = w.locs
  archs : w'.archs = w.archs
  deps : w'.deps = w.deps
  pool : w'.pool = w.pool
  nextInst : w'.nextInst = w.nextInst
  nthreads : w'.nthreads = w.nthreads
  marked : w'.marked = w.marked

theorem StructEq.eq {w w' : WM} (h : StructEq w w') :
    w' = { w with lockDepth := w'.lockDepth, nextEntityId := w'.nextEntityId, buffers := w'.buffers, temps := w'.temps } := by
  cases w; cases w'
  rcases h with ⟨h1, h2, h3, h4, h5, h6, h7, h8, h9, h10, h11⟩
  simp only at h1 h2 h3 h4 h5 h6 h7 h8 h9 h10 h11
  subst h1 h2 h3 h4 h5 h6 h7 h8 h9 h10 h11
  rfl

theorem inv_ctl_set {w : WM} {iss : List Handle} (hi : Inv ⟨w, iss⟩) (d n : Nat) (b : List (List Cmd))
    (t : List (CompId × Nat))
    (htinv : ∃ g : Ghost, TInv (tabOf { w with lockDepth := d, nextEntityId := n, buffers := b, temps := t }) g ∧
      g.issued = iss.reverse ∧ (∀ h, h ∈ g.pending ↔ h ∈ createHandles b))
    (hnd : (createHandles b).Nodup) (hle : b.length ≤ w.nthreads) (hlen : 0 < d → b.length = w.nthreads) (hemp : d = 0 → ∀ x ∈ b, x = [])
    (hkn : ∀ x ∈ b, ∀ cmd ∈ x, Known ⟨w, iss⟩ cmd.entity ∧ cmdOk w.pool cmd)
    (hmk : ∀ h ∈ w.marked, h ∉ createHandles b) :
    Inv ⟨{ w with lockDepth := d, nextEntityId := n, buffers := b, temps := t }, iss⟩ :=
  { tinv := htinv
    pendNodup := hnd
    rows := ⟨hi.rows.vals, hi.rows.loc⟩
    keys := ⟨hi.keys.masks, hi.keys.distinct⟩
    live := ⟨hi.live.live_in, hi.live.row_live⟩
    pool := ⟨hi.pool.vals_nodup, hi.pool.insts_nodup, hi.pool.inst_lt, hi.pool.inst_sid⟩
    shared := hi.shared
    depsB := hi.depsB
    locsCover := hi.locsCover
    bufLe := hle
    bufLen := hlen
    bufEmpty := hemp
    bufKnown := hkn
    markedKnown := fun h hm => ⟨(hi.markedKnown h hm).1, hmk h hm⟩
    markedRange := hi.markedRange
    markedSorted := hi.markedSorted }

/-! ## `createHandles` of padded / emptied buffers -/

theorem createHandles_pad (bufs : List (List Cmd)) (n : Nat) :
    createHandles (bufs ++ List.replicate n []) = createHandles bufs := by
  unfold createHandles
  have : (List.replicate n ([] : List Cmd)).flatten = [] := by
    induction n with
    | zero => rfl
    | succ n ih => simp [List.replicate_succ, ih]
  rw [List.flatten_append, this, List.append_nil]

theorem createHandles_of_empty {bufs : List (List Cmd)} (h : ∀ b ∈ bufs, b = []) : createHandles bufs = [] := by
  unfold createHandles
  have : bufs.flatten = [] := by
    induction bufs with
    | nil => rfl
    | cons b bs ih =>
      rw [List.flatten_cons, h b (by simp), ih (fun x hx => h x (by simp [hx]))]; rfl
  rw [this]; rfl

theorem pending_nil_of_unlocked {c : CW} (hi : Inv c) (hd : c.w.lockDepth = 0) {g : Ghost}
    (hp : ∀ h, h ∈ g.pending ↔ h ∈ createHandles c.w.buffers) : g.pending = [] := by
  rw [createHandles_of_empty (hi.bufEmpty hd)] at hp
  exact List.eq_nil_iff_forall_not_mem.mpr (fun h hh => by simpa using (hp h).mp hh)

/-! ## `lock` -/

theorem lock_eq (w : WM) :
    w.lock = { w with lockDepth := w.lockDepth + 1,
                      nextEntityId := if w.lockDepth = 0 then w.slots.length else w.nextEntityId,
                      buffers := if w.lockDepth = 0 then w.buffers ++ List.replicate (w.nthreads - w.buffers.length) []
                                 else w.buffers } := by
  unfold WM.lock
  by_cases hd : w.lockDepth = 0
  · simp [hd]
  · simp [hd]

theorem specLock_eq (s : WS) :
    s.lock = { s with lockDepth := s.lockDepth + 1,
                      buffers := if s.lockDepth = 0 then s.buffers ++ List.replicate (s.nthreads - s.buffers.length) []
                                 else s.buffers } := by
  unfold WS.lock
  by_cases hd : s.lockDepth = 0
  · simp [hd]
  · simp [hd]

theorem lock_refines {c : CW} {s : WS} (hi : Inv c) (hr : Rel c s) : StepRefines info c s .lock := by
  obtain ⟨w, iss⟩ := c
  have hstep : (CW.step info ⟨w, iss⟩ .lock) = (⟨w.lock, iss⟩, .ok, []) := rfl
  have hs : s.step info (Op.mapRef (ordOf iss) (.lock : Op Handle)) = (s.lock, .ok, []) := rfl
  unfold StepRefines
  rw [hstep, hs]
  refine ⟨?_, ?_, ⟨trivial, by simp [isUnlockOp, cbsAgree]⟩⟩
  · -- Inv
    have htab : tabOf w.lock = (tabOf w).lock := Mustache.Proofs.IdTable.lock_tab w
    rw [lock_eq] at htab ⊢
    rcases hi.tinv with ⟨g, tinv, hiss, hpend⟩
    have htl : TInv (tabOf w).lock g :=
      Mustache.Proofs.IdTable.lock_inv tinv (fun hd => pending_nil_of_unlocked hi hd hpend)
    by_cases hd : w.lockDepth = 0
    · simp only [hd, if_true] at htab ⊢
      have hlen' : (w.buffers ++ List.replicate (w.nthreads - w.buffers.length) ([] : List Cmd)).length = w.nthreads := by
        have : w.buffers.length ≤ w.nthreads := hi.bufLe
        simp only [List.length_append, List.length_replicate]
        omega
      refine inv_ctl_set hi _ _ _ w.temps ⟨g, htab ▸ htl, hiss, fun h => ?_⟩ ?_ (Nat.le_of_eq hlen') (fun _ => hlen') ?_ ?_ ?_
      · rw [createHandles_pad]; exact hpend h
      · rw [createHandles_pad]; exact hi.pendNodup
      · intro h; omega
      · intro x hx cmd hc
        rcases List.mem_append.mp hx with h | h
        · exact hi.bufKnown x h cmd hc
        · rw [(List.mem_replicate.mp h).2] at hc; simp at hc
      · intro h hm; rw [createHandles_pad]; exact (hi.markedKnown h hm).2
    · simp only [hd, if_false] at htab ⊢
      refine inv_ctl_set hi _ _ _ w.temps ⟨g, htab ▸ htl, hiss, hpend⟩ hi.pendNodup hi.bufLe ?_ ?_ hi.bufKnown
        (fun h hm => (hi.markedKnown h hm).2)
      · intro _; exact hi.bufLen (by show 0 < w.lockDepth; omega)
      · intro h; omega
  · -- Rel
    rw [lock_eq, specLock_eq]
    have hlen : w.buffers.length = s.buffers.length := hr.buffers.length
    exact
    { len := hr.len
      ents := hr.ents
      deps := hr.deps
      lockDepth := by show s.lockDepth + 1 = w.lockDepth + 1; rw [hr.lockDepth]
      nthreads := hr.nthreads
      buffers := by
        show All2 _ (if w.lockDepth = 0 then _ else _) (if s.lockDepth = 0 then _ else _)
        rw [hr.lockDepth]
        have hld : s.lockDepth = w.lockDepth := hr.lockDepth
        by_cases hd : w.lockDepth = 0
        · simp only [hd, if_true]
          rw [hr.nthreads, ← hlen]
          exact hr.buffers.append (All2.replicate .nil _)
        · simp only [hd, if_false]
          exact hr.buffers
      marked := hr.marked
      markedLt := hr.markedLt
      markedNodup := hr.markedNodup
      markedOld := by
        intro o ho h hh
        show h ∉ createHandles (if w.lockDepth = 0 then _ else _)
        by_cases hd : w.lockDepth = 0
        · simp only [hd, if_true]
          rw [createHandles_pad]; exact hr.markedOld o ho h hh
        · simp only [hd, if_false]
          exact hr.markedOld o ho h hh }

/-! ## inner `unlock` (depth ≥ 2): only the counter moves -/

theorem unlock_inner_refines {c : CW} {s : WS} (hi : Inv c) (hr : Rel c s) (hd : 2 ≤ c.w.lockDepth) :
    StepRefines info c s .unlock := by
  obtain ⟨w, iss⟩ := c
  have hd' : 2 ≤ w.lockDepth := hd
  have h1 : w.lockDepth > 0 := by omega
  have h2 : ¬ (w.lockDepth - 1 = 0) := by omega
  have hw : w.unlock info = ({ w with lockDepth := w.lockDepth - 1 }, false, []) := by
    simp [WM.unlock, h1, h2]
  have hs1 : s.lockDepth > 0 := by rw [hr.lockDepth]; exact h1
  have hs2 : ¬ (s.lockDepth - 1 = 0) := by rw [hr.lockDepth]; exact h2
  have hsu : s.unlock info = ({ s with lockDepth := s.lockDepth - 1 }, false, []) := by
    simp [WS.unlock, hs1, hs2]
  have hstep : (CW.step info ⟨w, iss⟩ .unlock) = (⟨{ w with lockDepth := w.lockDepth - 1 }, iss⟩, .ret false, []) := by
    simp only [CW.step, WM.step, hw, issueOut]
  have hs : s.step info (Op.mapRef (ordOf iss) (.unlock : Op Handle)) =
      ({ s with lockDepth := s.lockDepth - 1 }, .ret false, []) := by
    simp only [Op.mapRef, WS.step, hsu]
  unfold StepRefines
  rw [hstep, hs]
  refine ⟨?_, ?_, ⟨rfl, ?_⟩⟩
  · rcases hi.tinv with ⟨g, tinv, hiss, hpend⟩
    have htab : tabOf { w with lockDepth := w.lockDepth - 1 } = (tabOf w).unlockDepth := by
      unfold Mustache.Model.Tab.unlockDepth
      have : (tabOf w).lockDepth > 0 := h1
      simp only [this, if_true]; rfl
    refine inv_ctl_set hi _ _ _ w.temps ⟨g, htab ▸ Mustache.Proofs.IdTable.unlockDepth_inv tinv, hiss, hpend⟩
      hi.pendNodup hi.bufLe (fun _ => hi.bufLen h1) (fun h => by omega) hi.bufKnown (fun h hm => (hi.markedKnown h hm).2)
  · exact
    { len := hr.len, ents := hr.ents, deps := hr.deps
      lockDepth := by show s.lockDepth - 1 = w.lockDepth - 1; rw [hr.lockDepth]
      nthreads := hr.nthreads, buffers := hr.buffers, marked := hr.marked, markedLt := hr.markedLt,
      markedNodup := hr.markedNodup, markedOld := hr.markedOld }
  · simp [isUnlockOp, cbsAgreeNet]

/-! ## one command pushed on each side -/

theorem pushed_refines {c : CW} {s : WS} (hi : Inv c) (hr : Rel c s) (hl : 0 < c.w.lockDepth) (t : Nat) (cmd : Cmd)
    (sc : SCmd) (hcr : crH cmd = none) (hk : Known c cmd.entity) (hok : cmdOk c.w.pool cmd)
    (hrel : cmdRel c.issued c.w.pool cmd sc) (tmp : List (CompId × Nat)) :
    Inv ⟨{ c.w.pushCmd t cmd with temps := tmp }, c.issued⟩ ∧
    Rel ⟨{ c.w.pushCmd t cmd with temps := tmp }, c.issued⟩ (s.push t sc) := by
  have hi1 := inv_push hi t cmd hcr hk hok hl
  have hr1 := rel_push hr t cmd sc hrel (fun e he => by rw [hcr] at he; cases he)
  exact ⟨inv_frame (c := ⟨c.w.pushCmd t cmd, c.issued⟩) hi1 (frameEq_temps _ tmp) (PoolExt.refl _)
      (poolInv_temps hi1.pool tmp),
    rel_frame (c := ⟨c.w.pushCmd t cmd, c.issued⟩) hi1 hr1 (frameEq_temps _ tmp) (PoolExt.refl _)⟩

theorem isLocked_iff (w : WM) : w.isLocked = true ↔ 0 < w.lockDepth := by simp [WM.isLocked]

theorem agree_ok_nil (c' : CW) (op : Op Handle) (h : isUnlockOp op = false) :
    stepAgree c' op .ok [] .ok [] := by
  refine ⟨trivial, ?_⟩
  rw [h]; simp [cbsAgree]

/-! ## `destroyNow`, `destroy`, `remove`, `assign` while locked -/

theorem destroyNow_locked_refines {c : CW} {s : WS} (hi : Inv c) (hr : Rel c s) (hl : c.w.isLocked = true)
    (t : Nat) (e : Handle) (hk : Known c e) : StepRefines info c s (.destroyNow t e) := by
  obtain ⟨w, iss⟩ := c
  have hl' : 0 < w.lockDepth := (isLocked_iff w).mp hl
  have hl2 : w.isLocked = true := hl
  have hstep : CW.step info ⟨w, iss⟩ (.destroyNow t e) = (⟨w.pushCmd t (.destroyNow e), iss⟩, .ok, []) := by
    simp only [CW.step, WM.step, WM.destroyNow, hl2, if_true, issueOut]
  have hsl : s.lockDepth > 0 := by rw [hr.lockDepth]; exact hl'
  have hs : s.step info (Op.mapRef (ordOf iss) (.destroyNow t e)) = (s.push t (.destroyNow (ordOf iss e)), .ok, []) := by
    simp only [Op.mapRef, WS.step, hsl, if_true]
  unfold StepRefines
  rw [hstep, hs]
  exact ⟨inv_push hi t (.destroyNow e) rfl hk trivial hl', rel_push hr t (.destroyNow e) (.destroyNow (ordOf iss e)) rfl (fun _ h => nomatch h),
    agree_ok_nil _ _ rfl⟩

theorem destroy_locked_refines {c : CW} {s : WS} (hi : Inv c) (hr : Rel c s) (hl : c.w.isLocked = true)
    (t : Nat) (e : Handle) (hk : Known c e) : StepRefines info c s (.destroy t e) := by
  obtain ⟨w, iss⟩ := c
  have hl' : 0 < w.lockDepth := (isLocked_iff w).mp hl
  have hl2 : w.isLocked = true := hl
  have hstep : CW.step info ⟨w, iss⟩ (.destroy t e) = (⟨w.pushCmd t (.destroy e), iss⟩, .ok, []) := by
    simp only [CW.step, WM.step, WM.destroy, hl2, if_true, issueOut]
  have hsl : s.lockDepth > 0 := by rw [hr.lockDepth]; exact hl'
  have hs : s.step info (Op.mapRef (ordOf iss) (.destroy t e)) = (s.push t (.destroy (ordOf iss e)), .ok, []) := by
    simp only [Op.mapRef, WS.step, hsl, if_true]
  unfold StepRefines
  rw [hstep, hs]
  exact ⟨inv_push hi t (.destroy e) rfl hk trivial hl', rel_push hr t (.destroy e) (.destroy (ordOf iss e)) rfl (fun _ h => nomatch h),
    agree_ok_nil _ _ rfl⟩

theorem remove_locked_refines {c : CW} {s : WS} (hi : Inv c) (hr : Rel c s) (hl : c.w.isLocked = true)
    (t : Nat) (e : Handle) (comp : CompId) (hk : Known c e) : StepRefines info c s (.remove t e comp) := by
  obtain ⟨w, iss⟩ := c
  have hl' : 0 < w.lockDepth := (isLocked_iff w).mp hl
  have hl2 : w.isLocked = true := hl
  have hstep : CW.step info ⟨w, iss⟩ (.remove t e comp) = (⟨w.pushCmd t (.remove e comp), iss⟩, .ok, []) := by
    simp only [CW.step, WM.step, WM.removeComp, hl2, if_true, issueOut]
  have hsl : s.lockDepth > 0 := by rw [hr.lockDepth]; exact hl'
  have hs : s.step info (Op.mapRef (ordOf iss) (.remove t e comp)) =
      (s.push t (.remove (ordOf iss e) comp), .ok, []) := by
    simp only [Op.mapRef, WS.step, hsl, if_true]
  unfold StepRefines
  rw [hstep, hs]
  exact ⟨inv_push hi t (.remove e comp) rfl hk trivial hl',
    rel_push hr t (.remove e comp) (.remove (ordOf iss e) comp) ⟨rfl, rfl⟩ (fun _ h => nomatch h), agree_ok_nil _ _ rfl⟩

/-- the value a locked `assign` records is the value the spec records -/
theorem stored_eq (comp : CompId) (v : Option Nat) : storedOf info comp v = storedVal info comp v := rfl

/-- the model side of a locked `assign` -/
theorem assign_locked_eq (w : WM) (hl : w.isLocked = true) (t : Nat) (e : Handle) (comp : CompId) (v : Option Nat) :
    ∃ tmp, w.assign info t e comp v =
      ({ w.pushCmd t (.assign e comp (storedOf info comp v)) with temps := tmp }, .ok, []) := by
  unfold WM.assign
  simp only [hl, if_true]
  by_cases hc : (info comp).counted = true
  · exact ⟨_, by simp only [hc, if_true]; rfl⟩
  · exact ⟨w.temps, by simp only [hc]; rfl⟩

theorem assign_locked_refines {c : CW} {s : WS} (hi : Inv c) (hr : Rel c s) (hl : c.w.isLocked = true)
    (t : Nat) (e : Handle) (comp : CompId) (v : Option Nat) (hk : Known c e) :
    StepRefines info c s (.assign t e comp v) := by
  obtain ⟨w, iss⟩ := c
  have hl' : 0 < w.lockDepth := (isLocked_iff w).mp hl
  rcases assign_locked_eq info w hl t e comp v with ⟨tmp, hw⟩
  have hstep : CW.step info ⟨w, iss⟩ (.assign t e comp v) =
      (⟨{ w.pushCmd t (.assign e comp (storedOf info comp v)) with temps := tmp }, iss⟩, .ok, []) := by
    simp only [CW.step, WM.step, hw, issueOut, resOut]
  have hsl : s.lockDepth > 0 := by rw [hr.lockDepth]; exact hl'
  have hs : s.step info (Op.mapRef (ordOf iss) (.assign t e comp v)) =
      (s.push t (.assign (ordOf iss e) comp (storedVal info comp v)), .ok, []) := by
    simp only [Op.mapRef, WS.step, hsl, if_true]
  unfold StepRefines
  rw [hstep, hs]
  have := pushed_refines (c := ⟨w, iss⟩) hi hr hl' t (.assign e comp (storedOf info comp v))
    (.assign (ordOf iss e) comp (storedVal info comp v)) rfl hk trivial ⟨rfl, rfl, (stored_eq info comp v).symm⟩ tmp
  exact ⟨this.1, this.2, agree_ok_nil _ _ rfl⟩

/-- `update()` while locked is refused on both sides -/
theorem update_locked_refines {c : CW} {s : WS} (hi : Inv c) (hr : Rel c s) (hl : c.w.isLocked = true) :
    StepRefines info c s .update := by
  obtain ⟨w, iss⟩ := c
  have hl' : 0 < w.lockDepth := (isLocked_iff w).mp hl
  have hl2 : w.isLocked = true := hl
  have hstep : CW.step info ⟨w, iss⟩ .update = (⟨w, iss⟩, .lockedUpdate, []) := by
    simp only [CW.step, WM.step, WM.update, hl2, if_true, issueOut, resOut]
  have hsl : s.lockDepth > 0 := by rw [hr.lockDepth]; exact hl'
  have hs : s.step info (Op.mapRef (ordOf iss) (.update : Op Handle)) = (s, .lockedUpdate, []) := by
    simp only [Op.mapRef, WS.step, hsl, if_true]
  unfold StepRefines
  rw [hstep, hs]
  exact ⟨hi, hr, trivial, by simp [isUnlockOp, cbsAgree]⟩

/-! ## builder edit while locked: one `assign` command per argument, then one `remove` per removed component -/

theorem known_of_worldId {w w' : WM} {iss : List Handle} {e : Handle} (hw : w'.worldId = w.worldId)
    (hk : Known ⟨w, iss⟩ e) : Known ⟨w', iss⟩ e := by
  unfold Known at hk ⊢
  simp only at hk ⊢
  rw [hw]; exact hk

theorem assignFold_locked (iss : List Handle) (t : Nat) (e : Handle) :
    ∀ (adds : List (CompId × Option Nat)) (w : WM) (s : WS) (cbs0 : List Cb),
      Inv ⟨w, iss⟩ → Rel ⟨w, iss⟩ s → w.isLocked = true → Known ⟨w, iss⟩ e →
      Inv ⟨(adds.foldl (fun (acc : WM × List Cb) p =>
              let (w', _, c) := acc.1.assign info t e p.1 p.2
              (w', acc.2 ++ c)) (w, cbs0)).1, iss⟩ ∧
      Rel ⟨(adds.foldl (fun (acc : WM × List Cb) p =>
              let (w', _, c) := acc.1.assign info t e p.1 p.2
              (w', acc.2 ++ c)) (w, cbs0)).1, iss⟩
          (adds.foldl (fun s p => s.push t (.assign (ordOf iss e) p.1 (storedVal info p.1 p.2))) s) ∧
      (adds.foldl (fun (acc : WM × List Cb) p =>
              let (w', _, c) := acc.1.assign info t e p.1 p.2
              (w', acc.2 ++ c)) (w, cbs0)).2 = cbs0 ∧
      (adds.foldl (fun (acc : WM × List Cb) p =>
              let (w', _, c) := acc.1.assign info t e p.1 p.2
              (w', acc.2 ++ c)) (w, cbs0)).1.isLocked = true ∧
      (adds.foldl (fun (acc : WM × List Cb) p =>
              let (w', _, c) := acc.1.assign info t e p.1 p.2
              (w', acc.2 ++ c)) (w, cbs0)).1.worldId = w.worldId := by
  intro adds
  induction adds with
  | nil => intro w s cbs0 hi hr hl _; exact ⟨hi, hr, rfl, hl, rfl⟩
  | cons p ps ih =>
    intro w s cbs0 hi hr hl hk
    rcases assign_locked_eq info w hl t e p.1 p.2 with ⟨tmp, hw⟩
    simp only [List.foldl_cons, hw, List.append_nil]
    have hl' : 0 < w.lockDepth := (isLocked_iff w).mp hl
    have h1 := pushed_refines (c := ⟨w, iss⟩) hi hr hl' t (.assign e p.1 (storedOf info p.1 p.2))
      (.assign (ordOf iss e) p.1 (storedVal info p.1 p.2)) rfl hk trivial ⟨rfl, rfl, (stored_eq info p.1 p.2).symm⟩ tmp
    have := ih _ _ cbs0 h1.1 h1.2 hl (known_of_worldId (w := w) rfl hk)
    exact ⟨this.1, this.2.1, this.2.2.1, this.2.2.2.1, this.2.2.2.2⟩

theorem removeFold_locked (iss : List Handle) (t : Nat) (e : Handle) :
    ∀ (rems : List CompId) (w : WM) (s : WS),
      Inv ⟨w, iss⟩ → Rel ⟨w, iss⟩ s → w.isLocked = true → Known ⟨w, iss⟩ e →
      Inv ⟨rems.foldl (fun w c => (w.removeComp info t e c).1) w, iss⟩ ∧
      Rel ⟨rems.foldl (fun w c => (w.removeComp info t e c).1) w, iss⟩
          (rems.foldl (fun s c => s.push t (.remove (ordOf iss e) c)) s) := by
  intro rems
  induction rems with
  | nil => intro w s hi hr _ _; exact ⟨hi, hr⟩
  | cons x xs ih =>
    intro w s hi hr hl hk
    have hw : (w.removeComp info t e x).1 = w.pushCmd t (.remove e x) := by
      simp only [WM.removeComp, hl, if_true]
    simp only [List.foldl_cons, hw]
    have hl' : 0 < w.lockDepth := (isLocked_iff w).mp hl
    exact ih _ _ (inv_push (c := ⟨w, iss⟩) hi t (.remove e x) rfl hk trivial hl')
      (rel_push (c := ⟨w, iss⟩) hr t (.remove e x) (.remove (ordOf iss e) x) ⟨rfl, rfl⟩ (fun _ h => nomatch h)) hl
      (known_of_worldId (w := w) rfl hk)

theorem build_locked_refines {c : CW} {s : WS} (hi : Inv c) (hr : Rel c s) (hl : c.w.isLocked = true)
    (t : Nat) (e : Handle) (adds : List (CompId × Option Nat)) (rems : Mask) (hk : Known c e) :
    StepRefines info c s (.build t e adds rems) := by
  obtain ⟨w, iss⟩ := c
  have hl' : 0 < w.lockDepth := (isLocked_iff w).mp hl
  have hl2 : w.isLocked = true := hl
  have hsl : s.lockDepth > 0 := by rw [hr.lockDepth]; exact hl'
  have ha := assignFold_locked info iss t e adds w s [] hi hr hl hk
  have hb := removeFold_locked info iss t e rems _ _ ha.1 ha.2.1 ha.2.2.2.1
    (known_of_worldId ha.2.2.2.2 hk)
  have hstep : CW.step info ⟨w, iss⟩ (.build t e adds rems) =
      (⟨rems.foldl (fun w c => (w.removeComp info t e c).1)
          (adds.foldl (fun (acc : WM × List Cb) p =>
              let (w', _, c) := acc.1.assign info t e p.1 p.2
              (w', acc.2 ++ c)) (w, [])).1, iss⟩, .ok, []) := by
    simp only [CW.step, WM.step, hl2, if_true, issueOut]
    rw [ha.2.2.1]
  have hs : s.step info (Op.mapRef (ordOf iss) (.build t e adds rems)) =
      (rems.foldl (fun s c => s.push t (.remove (ordOf iss e) c))
        (adds.foldl (fun s p => s.push t (.assign (ordOf iss e) p.1 (storedVal info p.1 p.2))) s), .ok, []) := by
    simp only [Op.mapRef, WS.step, hsl, if_true]
  unfold StepRefines
  rw [hstep, hs]
  exact ⟨hb.1, hb.2, agree_ok_nil _ _ rfl⟩

end Mustache.Proofs.Refine

import Mustache.Proofs.RefineIssue
/-!
# Refinement, stage (b) continued: `create` and builder creation while locked
-/
namespace Mustache.Proofs.Refine
open Mustache.Model Mustache.Spec
open Mustache.Proofs.IdTable (tabOf Ghost TInv)
open Mustache.Proofs.Rows

variable (info : CompId → CompInfo)

theorem step_create_eq (w : WM) (t : Nat) (mask : Mask) (shared : List Nat) :
    w.step info (.create t mask shared) =
      (((poolFold w shared Shared.null).1.create info t mask (poolFold w shared Shared.null).2).1,
       .created ((poolFold w shared Shared.null).1.create info t mask (poolFold w shared Shared.null).2).2.1,
       ((poolFold w shared Shared.null).1.create info t mask (poolFold w shared Shared.null).2).2.2) := rfl

theorem agree_created (w' : WM) (iss : List Handle) (h : Handle) (op : Op Handle) (hu : isUnlockOp op = false) :
    stepAgree ⟨w', iss ++ [h]⟩ op (.created h) [] (.created iss.length) [] := by
  refine ⟨⟨ordOf_snoc_self iss h, by simp⟩, ?_⟩
  rw [hu]; simp [cbsAgree]

theorem create_locked_refines {c : CW} {s : WS} (hi : Inv c) (hr : Rel c s) (hl : c.w.isLocked = true)
    (t : Nat) (mask : Mask) (shared : List Nat) (ht : t < c.w.nthreads) (hm : MaskOk mask) :
    StepRefines info c s (.create t mask shared) := by
  obtain ⟨w, iss⟩ := c
  have hl' : 0 < w.lockDepth := (isLocked_iff w).mp hl
  have spec := poolFold_spec shared w Shared.null [] hi.pool (sharedIn_null _) (fun sid => by simp [absShared, Shared.null, lookupS])
  generalize hpf : poolFold w shared Shared.null = pf at spec
  obtain ⟨w1, sh⟩ := pf
  simp only at spec
  have hi1 : Inv ⟨w1, iss⟩ := inv_frame (c := ⟨w, iss⟩) hi spec.1 spec.2.1 spec.2.2.1
  have hr1 : Rel ⟨w1, iss⟩ s := rel_frame (c := ⟨w, iss⟩) hi hr spec.1 spec.2.1
  have hl1 : 0 < w1.lockDepth := by rw [spec.1.lockDepth]; exact hl'
  have hl1' : w1.isLocked = true := (isLocked_iff w1).mpr hl1
  have hcore := createLocked_core hi1 hr1 hl1 t (by rw [spec.1.nthreads]; exact ht) mask hm sh spec.2.2.2.1
    (shared.map (fun sid => (sid, 0))) (fun sid => by rw [spec.2.2.2.2 sid, lookupS_defaults]; simp)
  have hstep : CW.step info ⟨w, iss⟩ (.create t mask shared) =
      (⟨(w1.createLocked t mask sh).1, iss ++ [(w1.createLocked t mask sh).2]⟩, .created (w1.createLocked t mask sh).2, []) := by
    simp only [CW.step, step_create_eq, hpf, WM.create, hl1', if_true, issueOut]
  have hsl : s.lockDepth > 0 := by rw [hr.lockDepth]; exact hl'
  have hs : s.step info (Op.mapRef (ordOf iss) (.create t mask shared)) =
      (WS.push { s with ents := s.ents ++ [none] } t (.create s.ents.length mask (shared.map (fun sid => (sid, 0)))),
        .created s.ents.length, []) := by
    simp only [Op.mapRef, WS.step, hsl, if_true]
  unfold StepRefines
  rw [hstep, hs]
  refine ⟨hcore.1, hcore.2.1, ?_⟩
  rw [hr.len]
  exact agree_created _ _ _ _ rfl

theorem buildNew_locked_refines {c : CW} {s : WS} (hi : Inv c) (hr : Rel c s) (hl : c.w.isLocked = true)
    (t : Nat) (adds : List (CompId × Option Nat)) (ht : t < c.w.nthreads) :
    StepRefines info c s (.buildNew t adds) := by
  obtain ⟨w, iss⟩ := c
  have hl' : 0 < w.lockDepth := (isLocked_iff w).mp hl
  have hl2 : w.isLocked = true := hl
  have hcore := createLocked_core hi hr hl' t ht [] maskOk_nil Shared.null (sharedIn_null _) []
    (fun sid => by simp [absShared, Shared.null, lookupS])
  generalize hcl : w.createLocked t [] Shared.null = cl at hcore
  obtain ⟨w2, h⟩ := cl
  simp only at hcore
  have hk : Known ⟨w2, iss ++ [h]⟩ h := Or.inl (by simp)
  have ha := assignFold_locked info (iss ++ [h]) t h adds w2 _ [] hcore.1 hcore.2.1 hcore.2.2.1 hk
  have hstep : CW.step info ⟨w, iss⟩ (.buildNew t adds) =
      (⟨(adds.foldl (fun (acc : WM × List Cb) p =>
              let (w', _, c) := acc.1.assign info t h p.1 p.2
              (w', acc.2 ++ c)) (w2, [])).1, iss ++ [h]⟩, .created h, []) := by
    simp only [CW.step, WM.step, hl2, if_true, hcl, issueOut]
    rw [ha.2.2.1]
  have hsl : s.lockDepth > 0 := by rw [hr.lockDepth]; exact hl'
  have hord : ordOf (iss ++ [h]) h = some s.ents.length := by rw [hr.len]; exact ordOf_snoc_self iss h
  have hs : s.step info (Op.mapRef (ordOf iss) (.buildNew t adds)) =
      (adds.foldl (fun s p => s.push t (.assign (ordOf (iss ++ [h]) h) p.1 (storedVal info p.1 p.2)))
        (WS.push { s with ents := s.ents ++ [none] } t (.create s.ents.length [] [])), .created s.ents.length, []) := by
    simp only [Op.mapRef, WS.step, hsl, if_true, hord]
  unfold StepRefines
  rw [hstep, hs]
  refine ⟨ha.1, ha.2.1, ?_⟩
  rw [hr.len]
  exact agree_created _ _ _ _ rfl

end Mustache.Proofs.Refine

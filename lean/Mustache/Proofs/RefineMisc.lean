import Mustache.Proofs.RefineRemove
/-!
# Refinement, stage (c): `addDependency`, unlocked `destroy` (marking)
-/
namespace Mustache.Proofs.Refine
open Mustache.Model Mustache.Spec
open Mustache.Proofs.IdTable (tabOf Ghost TInv)
open Mustache.Proofs.Rows

variable (info : CompId → CompInfo)

/-! ## `addDependency` -/

theorem dep_refines {c : CW} {s : WS} (hi : Inv c) (hr : Rel c s) (comp : CompId) (extra : Mask)
    (hex : ∀ x ∈ extra, x < 128) :
    StepRefines info c s (.dep comp extra) := by
  obtain ⟨w, iss⟩ := c
  have hstep : CW.step info ⟨w, iss⟩ (.dep comp extra) =
      (⟨{ w with deps := addDependency w.deps comp extra }, iss⟩, .ok, []) := rfl
  have hs : s.step info (Op.mapRef (ordOf iss) (.dep comp extra)) =
      ({ s with deps := addDependency s.deps comp extra }, .ok, []) := rfl
  unfold StepRefines
  rw [hstep, hs]
  refine ⟨?_, ?_, agree_ok_nil _ _ rfl⟩
  · exact
    { tinv := hi.tinv
      pendNodup := hi.pendNodup
      rows := ⟨hi.rows.vals, hi.rows.loc⟩
      keys := ⟨hi.keys.masks, hi.keys.distinct⟩
      live := ⟨hi.live.live_in, hi.live.row_live⟩
      pool := ⟨hi.pool.vals_nodup, hi.pool.insts_nodup, hi.pool.inst_lt, hi.pool.inst_sid⟩
      shared := hi.shared
      depsB := addDependency_bounded hi.depsB comp hex
      locsCover := hi.locsCover
      bufLe := hi.bufLe
      bufLen := hi.bufLen
      bufEmpty := hi.bufEmpty
      bufKnown := hi.bufKnown
      markedKnown := hi.markedKnown
      markedRange := hi.markedRange
      markedSorted := hi.markedSorted }
  · exact
    { len := hr.len
      ents := hr.ents
      deps := by show addDependency s.deps comp extra = addDependency w.deps comp extra; rw [hr.deps]
      lockDepth := hr.lockDepth
      nthreads := hr.nthreads
      buffers := hr.buffers
      marked := hr.marked
      markedLt := hr.markedLt
      markedNodup := hr.markedNodup
      markedOld := hr.markedOld }

/-! ## the marked set -/

theorem value_inj {wid : Nat} {a b : Handle} (ha : HRange wid a) (hb : HRange wid b) (h : a.value = b.value) : a = b := by
  cases a with | mk ai av aw => cases b with | mk bi bv bw =>
  simp only [HRange] at ha hb
  simp only [Handle.value] at h
  have h30 : (2:Nat)^30 = 1073741824 := by decide
  have h40 : (2:Nat)^40 = 1099511627776 := by decide
  rw [h30] at ha hb
  rw [h30, h40] at h
  obtain ⟨ha1, ha2⟩ := ha
  obtain ⟨hb1, hb2⟩ := hb
  subst ha2
  subst hb2
  have : ai = bi ∧ av = bv := by omega
  rw [this.1, this.2]

theorem mem_insertSorted {wid : Nat} {l : List Handle} {h : Handle} (hl : ∀ x ∈ l, HRange wid x) (hh : HRange wid h)
    (x : Handle) :
    x ∈ insertSorted l h ↔ x = h ∨ x ∈ l := by
  induction l with
  | nil => simp [insertSorted]
  | cons a t ih =>
    unfold insertSorted
    by_cases h1 : h.value < a.value
    · simp [h1]
    · by_cases h2 : h.value = a.value
      · have : h = a := value_inj hh (hl a (by simp)) h2
        subst this
        simp [h1]
      · simp only [h1, h2, if_false, List.mem_cons]
        rw [ih (fun y hy => hl y (by simp [hy]))]
        constructor
        · rintro (h | h | h)
          · exact Or.inr (Or.inl h)
          · exact Or.inl h
          · exact Or.inr (Or.inr h)
        · rintro (h | h | h)
          · exact Or.inr (Or.inl h)
          · exact Or.inl h
          · exact Or.inr (Or.inr h)

theorem mem_insertNat (l : List Nat) (k x : Nat) : x ∈ insertNat l k ↔ x = k ∨ x ∈ l := by
  unfold insertNat
  by_cases h : l.contains k = true
  · rw [if_pos h]
    have : k ∈ l := by simpa using h
    constructor
    · exact Or.inr
    · rintro (rfl | h); exact this; exact h
  · rw [if_neg h]; simp [or_comm]

theorem nodup_insertNat {l : List Nat} (h : l.Nodup) (k : Nat) : (insertNat l k).Nodup := by
  unfold insertNat
  by_cases hc : l.contains k = true
  · rw [if_pos hc]; exact h
  · rw [if_neg hc]
    have : k ∉ l := by simpa using hc
    rw [List.nodup_append]
    exact ⟨h, by simp, fun a ha b hb => by simp at hb; subst hb; exact fun e => this (e ▸ ha)⟩

theorem mem_insertSorted_imp {l : List Handle} {h y : Handle} (hy : y ∈ insertSorted l h) : y = h ∨ y ∈ l := by
  induction l with
  | nil => simp [insertSorted] at hy; exact Or.inl hy
  | cons b u ih =>
    unfold insertSorted at hy
    by_cases g1 : h.value < b.value
    · rw [if_pos g1] at hy
      rcases List.mem_cons.mp hy with e | e
      · exact Or.inl e
      · exact Or.inr e
    · by_cases g2 : h.value = b.value
      · rw [if_neg g1, if_pos g2] at hy; exact Or.inr hy
      · rw [if_neg g1, if_neg g2] at hy
        rcases List.mem_cons.mp hy with e | e
        · exact Or.inr (by simp [e])
        · rcases ih e with r | r
          · exact Or.inl r
          · exact Or.inr (by simp [r])

theorem sorted_insertSorted {l : List Handle} (h : Handle) (hs : l.Pairwise (fun a b => a.value < b.value)) :
    (insertSorted l h).Pairwise (fun a b => a.value < b.value) := by
  induction l with
  | nil => simp [insertSorted]
  | cons a t ih =>
    have hs' := List.pairwise_cons.mp hs
    unfold insertSorted
    by_cases h1 : h.value < a.value
    · rw [if_pos h1]
      refine List.pairwise_cons.mpr ⟨?_, hs⟩
      intro y hy
      rcases List.mem_cons.mp hy with rfl | hy'
      · exact h1
      · exact Nat.lt_trans h1 (hs'.1 y hy')
    · by_cases h2 : h.value = a.value
      · rw [if_neg h1, if_pos h2]; exact hs
      · rw [if_neg h1, if_neg h2]
        refine List.pairwise_cons.mpr ⟨?_, ih hs'.2⟩
        intro y hy
        have hmem : y = h ∨ y ∈ t := mem_insertSorted_imp hy
        rcases hmem with rfl | hy'
        · omega
        · exact hs'.1 y hy'

theorem alive_lt {s : WS} {k : Nat} (h : (s.alive k).isSome = true) : k < s.ents.length := by
  apply Classical.byContradiction
  intro hn
  unfold WS.alive at h
  rw [List.getD_eq_getElem?_getD, List.getElem?_eq_none (by omega)] at h
  cases h

theorem valid_range {c : CW} (hb : Bounds c) {e : Handle} (hv : c.w.isValid e = true) : HRange c.w.worldId e := by
  have hlt := isValid_id_lt hv
  have hw : e.world = c.w.worldId := by
    unfold WM.isValid at hv
    simp only [Bool.and_eq_true, beq_iff_eq] at hv
    exact hv.1.2
  refine ⟨?_, hw⟩
  have := hb.inRange
  have h30 : (2:Nat)^30 = 1073741824 := by decide
  rw [h30] at this ⊢
  omega

theorem destroy_unlocked_refines {c : CW} {s : WS} (hi : Inv c) (hb : Bounds c) (hr : Rel c s)
    (hl : c.w.isLocked = false) (t : Nat) (e : Handle) : StepRefines info c s (.destroy t e) := by
  obtain ⟨w, iss⟩ := c
  have hl2 : w.isLocked = false := hl
  have hnl := unlocked_spec hr hl
  have hd0 : w.lockDepth = 0 := by
    cases h : w.lockDepth with
    | zero => rfl
    | succ n => have := (isLocked_iff w).mpr (by omega); rw [hl2] at this; cases this
  have hch : createHandles w.buffers = [] := createHandles_of_empty (hi.bufEmpty hd0)
  have hvr := valid_refines hi hb hr e
  cases hve : w.isValid e with
  | false =>
    -- a handle that is not alive is not queued
    apply noop_refines info hi hr _ rfl
    · simp only [CW.step, WM.step, WM.destroy, hl2, Bool.false_eq_true, if_false, hve, issueOut]
    · simp only [Op.mapRef, WS.step, hnl, if_false]
      cases ho : ordOf iss e with
      | none => rfl
      | some k =>
        have ho' : ordOf (⟨w, iss⟩ : CW).issued e = some k := ho
        rw [show (⟨w, iss⟩ : CW).w = w from rfl, hve, ho'] at hvr
        simp only [WS.isAlive] at hvr
        simp only [← hvr, Bool.false_eq_true, if_false]
  | true =>
    have hk : Known ⟨w, iss⟩ e := Or.inl (valid_issued (c := ⟨w, iss⟩) hi hb hve)
    have hrg : HRange w.worldId e := valid_range (c := ⟨w, iss⟩) hb hve
    have hstep : CW.step info ⟨w, iss⟩ (.destroy t e) = (⟨{ w with marked := insertSorted w.marked e }, iss⟩, .ok, []) := by
      simp only [CW.step, WM.step, WM.destroy, hl2, Bool.false_eq_true, if_false, hve, if_true, issueOut]
    have hmem := mem_insertSorted (l := w.marked) (h := e) hi.markedRange hrg
    have hinv' : Inv ⟨{ w with marked := insertSorted w.marked e }, iss⟩ :=
      { tinv := hi.tinv
        pendNodup := hi.pendNodup
        rows := ⟨hi.rows.vals, hi.rows.loc⟩
        keys := ⟨hi.keys.masks, hi.keys.distinct⟩
        live := ⟨hi.live.live_in, hi.live.row_live⟩
        pool := ⟨hi.pool.vals_nodup, hi.pool.insts_nodup, hi.pool.inst_lt, hi.pool.inst_sid⟩
        shared := hi.shared
        depsB := hi.depsB
        locsCover := hi.locsCover
        bufLe := hi.bufLe
        bufLen := hi.bufLen
        bufEmpty := hi.bufEmpty
        bufKnown := hi.bufKnown
        markedKnown := by
          intro x hx
          rcases (hmem x).mp hx with rfl | hx'
          · exact ⟨hk, by show x ∉ createHandles w.buffers; rw [hch]; simp⟩
          · exact hi.markedKnown x hx'
        markedRange := by
          intro x hx
          rcases (hmem x).mp hx with rfl | hx'
          · exact hrg
          · exact hi.markedRange x hx'
        markedSorted := sorted_insertSorted e hi.markedSorted }
    have hmemiss := valid_issued (c := ⟨w, iss⟩) hi hb hve
    cases ho : ordOf iss e with
    | none => exact absurd hmemiss ((ordOf_none_iff _ _).mp ho)
    | some k =>
      have ho' : ordOf (⟨w, iss⟩ : CW).issued e = some k := ho
      rw [show (⟨w, iss⟩ : CW).w = w from rfl, hve, ho'] at hvr
      simp only [WS.isAlive] at hvr
      have hak : (s.alive k).isSome = true := hvr.symm
      have hs : s.step info (Op.mapRef (ordOf iss) (.destroy t e)) =
          ({ s with marked := insertNat s.marked k }, .ok, []) := by
        simp only [Op.mapRef, WS.step, hnl, if_false, ho, hak, if_true]
      unfold StepRefines
      rw [hstep, hs]
      refine ⟨hinv', ?_, agree_ok_nil _ _ rfl⟩
      exact
      { len := hr.len, ents := hr.ents, deps := hr.deps, lockDepth := hr.lockDepth, nthreads := hr.nthreads
        buffers := hr.buffers
        markedNodup := nodup_insertNat hr.markedNodup k
        markedOld := by
          intro o _ h _
          show h ∉ createHandles w.buffers
          rw [hch]; simp
        markedLt := by
          intro o hom
          rcases (mem_insertNat _ _ _).mp hom with rfl | h
          · exact alive_lt hak
          · exact hr.markedLt o h
        marked := by
          intro o
          show (o ∈ insertNat s.marked k ∧ (s.alive o).isSome = true) ↔ _
          rw [mem_insertNat]
          constructor
          · rintro ⟨rfl | hm, ha⟩
            · exact ⟨e, (hmem e).mpr (Or.inl rfl), hve, ho⟩
            · rcases (hr.marked o).mp ⟨hm, ha⟩ with ⟨h, hm', hv, hoo⟩
              exact ⟨h, (hmem h).mpr (Or.inr hm'), hv, hoo⟩
          · rintro ⟨h, hm, hv, hoo⟩
            rcases (hmem h).mp hm with rfl | hm'
            · have : ordOf iss h = some o := hoo
              rw [ho] at this; cases this
              exact ⟨Or.inl rfl, hak⟩
            · have := (hr.marked o).mpr ⟨h, hm', hv, hoo⟩
              exact ⟨Or.inr this.1, this.2⟩ }

end Mustache.Proofs.Refine

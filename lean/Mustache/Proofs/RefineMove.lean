import Mustache.Proofs.RefineStep
/-!
# Refinement: the abstraction of an entity after `getArchetype` + `externalMove`, callbacks of a move
-/
namespace Mustache.Proofs.Refine
open Mustache.Model Mustache.Spec
open Mustache.Proofs.IdTable (tabOf Ghost TInv)
open Mustache.Proofs.Rows

variable (info : CompId → CompInfo)

/-! ## rows as maps -/

theorem zip_eq_map : ∀ {m : List Nat} {vals : List Val}, m.Nodup → vals.length = m.length →
    m.zip vals = m.map (fun x => (x, vals.getD (m.idxOf x) none))
  | [], _, _, _ => by simp
  | a :: t, [], _, h => by simp at h
  | a :: t, x :: xs, hn, hl => by
    have hn' := List.nodup_cons.mp hn
    simp only [List.zip_cons_cons, List.map_cons, List.idxOf_cons_self, List.getD_cons_zero, List.cons.injEq, true_and]
    rw [zip_eq_map hn'.2 (by simpa using hl)]
    apply List.map_congr_left
    intro y hy
    have hne : a ≠ y := fun e => hn'.1 (e ▸ hy)
    have hb : (a == y) = false := by simpa using hne
    simp [List.idxOf_cons, hb]

theorem maskOk_nodup {m : Mask} (h : MaskOk m) : m.Nodup := h.imp (fun h => Nat.ne_of_lt h)

/-- the spec's `rebuild`, one component at a time -/
def specPair (old given : List (CompId × Val)) (x : CompId) : CompId × Val :=
  match old.find? (·.1 == x) with
  | some p => p
  | none => match given.find? (·.1 == x) with
    | some p => p
    | none => (x, defaultVal info x)

theorem rebuild_eq (old : List (CompId × Val)) (newSet : Mask) (given : List (CompId × Val)) :
    rebuild info old newSet given = newSet.map (specPair info old given) := rfl

theorem find_zip_some {m : List Nat} {vals : List Val} (hl : vals.length = m.length) {x : Nat} (hx : x ∈ m) :
    (m.zip vals).find? (·.1 == x) = some (x, vals.getD (m.idxOf x) none) := by
  induction m generalizing vals with
  | nil => simp at hx
  | cons a t ih =>
    cases vals with
    | nil => simp at hl
    | cons v vs =>
      simp only [List.zip_cons_cons, List.find?_cons]
      by_cases hax : a = x
      · subst hax; simp
      · have hb : (a == x) = false := by simpa using hax
        have hx' : x ∈ t := by
          rcases List.mem_cons.mp hx with h | h
          · exact absurd h.symm hax
          · exact h
        simp only [hb, List.idxOf_cons, cond_false]
        rw [ih (by simpa using hl) hx']
        simp

theorem find_zip_none {m : List Nat} {vals : List Val} {x : Nat} (hx : x ∉ m) :
    (m.zip vals).find? (·.1 == x) = none := by
  rw [List.find?_eq_none]
  intro p hp
  have : p.1 ∈ m := (List.of_mem_zip hp).1
  simp only [beq_iff_eq]
  intro e; exact hx (e ▸ this)

/-- `tm.zip vals = rebuild …` pointwise -/
theorem zip_eq_rebuild {tm : Mask} {vals : List Val} (hn : tm.Nodup) (hl : vals.length = tm.length)
    (old given : List (CompId × Val))
    (h : ∀ x ∈ tm, specPair info old given x = (x, vals.getD (tm.idxOf x) none)) :
    tm.zip vals = rebuild info old tm given := by
  rw [zip_eq_map hn hl, rebuild_eq]
  apply List.map_congr_left
  intro x hx
  exact (h x hx).symm

/-! ## the abstraction of a moved entity -/

theorem moved_absEnt {w w2 : WM} {e : Handle} {ti : Nat} {vals : List Val} (hm : Moved w w2 e ti vals)
    (hv : w.isValid e = true) :
    absEnt w2 e = some ⟨(w2.arch ti).mask.zip vals, absShared w2.pool (w2.arch ti).shared⟩ := by
  rcases hm.here with ⟨n, hl, hr⟩
  rw [absEnt_of_row ((hm.same.isValid e).trans hv) hl hr]

theorem owns_absEnt {w' : WM} {e : Handle} {ai : Nat} {vals : List Val} (ho : Owns w' e ai vals) :
    absEnt w' e = some ⟨(w'.arch ai).mask.zip vals, absShared w'.pool (w'.arch ai).shared⟩ := by
  rcases ho.here with ⟨n, hl, hr⟩
  rw [absEnt_of_row ho.valid hl hr]

/-! ## callbacks -/

theorem filter_split_perm {l : List Nat} (hn : l.Nodup) (p : Nat → Bool) {c : Nat} (hc : c ∈ l) :
    (l.filter p).Perm (l.filter (fun x => p x && x != c) ++ if p c then [c] else []) := by
  induction l with
  | nil => simp at hc
  | cons a t ih =>
    have hn' := List.nodup_cons.mp hn
    by_cases hac : a = c
    · subst hac
      have hrest : t.filter (fun x => p x && x != a) = t.filter p := by
        apply List.filter_congr
        intro x hx
        have : x ≠ a := fun e => hn'.1 (e ▸ hx)
        simp [this]
      simp only [List.filter_cons, bne_self_eq_false, Bool.and_false, Bool.false_eq_true, if_false, hrest]
      by_cases hp : p a = true
      · simp only [hp, if_true]
        exact (List.perm_append_singleton a (t.filter p)).symm
      · simp [hp]
    · have hc' : c ∈ t := by
        rcases List.mem_cons.mp hc with h | h
        · exact absurd h.symm hac
        · exact h
      have hb : (a != c) = true := by simpa using hac
      simp only [List.filter_cons, hb, Bool.and_true]
      by_cases hp : p a = true
      · simp only [hp, if_true, List.cons_append]
        exact (ih hn'.2 hc').cons a
      · simp only [hp, Bool.false_eq_true, if_false]
        exact ih hn'.2 hc'

theorem cbAbs_assign_map {iss : List Handle} {e : Handle} {k : Nat} (hk : ordOf iss e = some k) (l : List CompId) :
    (l.map (Cb.assign · e)).map (cbAbs iss) = (l.map (fun x => ((true, x, k) : SCb))).map some := by
  simp only [List.map_map]
  apply List.map_congr_left
  intro x _
  simp [cbAbs, hk]

theorem cbAbs_remove_map {iss : List Handle} {e : Handle} {k : Nat} (hk : ordOf iss e = some k) (l : List CompId) :
    (l.map (Cb.remove · e)).map (cbAbs iss) = (l.map (fun x => ((false, x, k) : SCb))).map some := by
  simp only [List.map_map]
  apply List.map_congr_left
  intro x _
  simp [cbAbs, hk]

end Mustache.Proofs.Refine

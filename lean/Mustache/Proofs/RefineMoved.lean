import Mustache.Proofs.RefineMove
/-!
# Refinement: `Inv` and `Rel` after `getArchetype(m, sh)` + a move of the valid entity `e` into that archetype
-/
namespace Mustache.Proofs.Refine
open Mustache.Model Mustache.Spec
open Mustache.Proofs.IdTable (tabOf Ghost TInv)
open Mustache.Proofs.Rows

variable (info : CompId → CompInfo)

theorem SameTable.tab {w w' : WM} (h : SameTable w w') : tabOf w' = tabOf w := by
  unfold tabOf
  rw [h.worldId, h.slots, h.next, h.empty, h.lockDepth, h.nextEntityId]

theorem SameTable.poolInv {w w' : WM} (h : SameTable w w') (hp : PoolInv w) : PoolInv w' := by
  constructor
  · rw [h.pool]; exact hp.vals_nodup
  · rw [h.pool]; exact hp.insts_nodup
  · rw [h.pool, h.nextInst]; exact hp.inst_lt
  · rw [h.pool]; exact hp.inst_sid

theorem getArch_keysSame_or (w : WM) (m : Mask) (sh : Shared) :
    (w.getArch m sh).1.deps = w.deps ∧ (w.getArch m sh).1.pool = w.pool := by
  have := getArch_sameTable w m sh
  exact ⟨this.deps, this.pool⟩

/-- the invariant after key-preserving steps from a state `w0` (whose descriptors are pooled) ending with `e` owning a row -/
theorem moved_inv' {w : WM} {iss : List Handle} (hi : Inv ⟨w, iss⟩) {e : Handle} (hv : w.isValid e = true)
    {w0 : WM} (h0 : AllKeys (fun _ s => SharedIn w.pool s) w0) {w' : WM} {ti : Nat} {vals : List Val}
    (hm : Moved w w' e ti vals) (hks : KeysSame w0 w') :
    Inv ⟨w', iss⟩ := by
  have hsame := hm.same
  have hpool : w'.pool = w.pool := hsame.pool
  have hdeps : w'.deps = w.deps := hsame.deps
  refine inv_entity (c := ⟨w, iss⟩) hi hm.step (SameTable.tab hsame) (liveInv_owns hm.step hi.rows hi.live (hm.owns hv))
    (SameTable.poolInv hsame hi.pool) (by rw [hpool]; exact PoolExt.refl _) ?_ hdeps hsame.buffers hsame.marked
    hsame.nthreads
  have h2 := h0.keysSame hks
  show AllKeys (fun _ s => SharedIn w'.pool s) w'
  rw [hpool]; exact h2

/-- the invariant after `getArch m sh` followed by key-preserving steps ending with `e` owning a row -/
theorem moved_inv {w : WM} {iss : List Handle} (hi : Inv ⟨w, iss⟩) {e : Handle} (hv : w.isValid e = true)
    {m : Mask} {sh : Shared} (hshin : SharedIn w.pool sh) {w' : WM} {ti : Nat} {vals : List Val}
    (hm : Moved w w' e ti vals) (hks : KeysSame (w.getArch m sh).1 w') :
    Inv ⟨w', iss⟩ :=
  moved_inv' hi hv (AllKeys.getArch (P := fun _ s => SharedIn w.pool s) (w := w) hi.shared m sh hshin) hm hks

/-- the relation after such a move: the spec record of `e`'s ordinal becomes `x` -/
theorem moved_rel {w : WM} {iss : List Handle} {s : WS} (hi : Inv ⟨w, iss⟩) (hr : Rel ⟨w, iss⟩ s) {e : Handle} {k : Nat}
    (hk : iss[k]? = some e) (hv : w.isValid e = true)
    {sh : Shared} (hshin : SharedIn w.pool sh) {w' : WM} {ti : Nat} {vals : List Val}
    (hm : Moved w w' e ti vals) (hsh' : SharedIn w.pool (w'.arch ti).shared)
    (hdata : (w'.arch ti).shared.data = sh.data)
    (x : SEnt) (hcomps : x.comps = (w'.arch ti).mask.zip vals)
    (hshared : ∀ sid, lookupS x.shared sid = lookupS (absShared w.pool sh) sid) :
    Rel ⟨w', iss⟩ (s.setEnt k (some x)) := by
  have hsame := hm.same
  have hpool : w'.pool = w.pool := hsame.pool
  refine rel_entity (c := ⟨w, iss⟩) hi hr hk hv hm.step.frame (fun h => hsame.isValid h)
    (by rw [hpool]; exact PoolExt.refl _) hsame.deps hsame.lockDepth hsame.buffers hsame.marked hsame.nthreads x ?_
  rw [moved_absEnt hm hv]
  refine ⟨hcomps, fun sid => ?_⟩
  rw [hshared sid, hpool, shared_eq_of_data hi.pool hsh' hshin hdata]

end Mustache.Proofs.Refine

import Mustache.Proofs.RefinePackVals
/-!
# Refinement, stage (e): the callbacks of a pack, counted per component
-/
namespace Mustache.Proofs.Refine
open Mustache.Model Mustache.Spec
open Mustache.Proofs.Rows

variable (info : CompId → CompInfo)

theorem count_flatMap_tag {α : Type} (key : α → CompId) (f : α → List SCb) (hf : ∀ a, ∀ t ∈ f a, t.2.1 = key a) :
    ∀ (l : List α), (l.map key).Nodup → ∀ (t : SCb),
      (l.flatMap f).count t = match l.find? (fun a => key a == t.2.1) with
        | some a => (f a).count t
        | none => 0
  | [], _, _ => rfl
  | a :: rest, hn, t => by
    have hn' : key a ∉ rest.map key ∧ (rest.map key).Nodup := List.nodup_cons.mp hn
    rw [List.flatMap_cons, List.count_append, count_flatMap_tag key f hf rest hn'.2 t, List.find?_cons]
    by_cases hk : key a = t.2.1
    · have hb : (key a == t.2.1) = true := by simpa using hk
      simp only [hb]
      have : rest.find? (fun a' => key a' == t.2.1) = none := by
        rw [List.find?_eq_none]
        intro a' ha' hka'
        have : key a' = t.2.1 := by simpa using hka'
        exact hn'.1 (List.mem_map.mpr ⟨a', ha', this.trans hk.symm⟩)
      rw [this]; simp
    · have hb : (key a == t.2.1) = false := by simpa using hk
      simp only [hb]
      have : (f a).count t = 0 := by
        apply List.count_eq_zero_of_not_mem
        intro hm
        exact hk (hf a t hm).symm
      rw [this]; simp

/-- the model's callbacks of a pack whose entity is alive at the end, as spec events of ordinal `k` -/
def packCbsS (k : Nat) (tm base : Mask) (isCreate : Bool) (initial : Mask) (p : PackSt) : List SCb :=
  (tm.filter (fun c => !base.contains c && (info c).callbacks && !(Mask.ofList (p.src.map (·.1))).contains c)).map
      (fun x => ((true, x, k) : SCb)) ++
  (base.filter (fun c => (info c).callbacks && !tm.contains c)).map (fun x => ((false, x, k) : SCb)) ++
  (packStale isCreate initial p (Mask.ofList (p.src.map (·.1))) tm).flatMap (fun c =>
    (if (info c).callbacks then [((false, c, k) : SCb)] else []) ++
      (if (Mask.ofList (p.src.map (·.1))).contains c then [] else if (info c).callbacks then [((true, c, k) : SCb)] else [])) ++
  p.src.flatMap (fun cv => if (info cv.1).callbacks then [((true, cv.1, k) : SCb)] else [])

theorem find_self (l : List CompId) (x : CompId) : l.find? (fun a => a == x) = if x ∈ l then some x else none := by
  induction l with
  | nil => rfl
  | cons a t ih =>
    simp only [List.find?_cons, List.mem_cons]
    by_cases h : a = x
    · subst h; simp
    · have hb : (a == x) = false := by simpa using h
      have hne : ¬ x = a := fun e => h e.symm
      simp only [hb, hne, false_or]
      exact ih

theorem count_singleton_if (c : Bool) (t u : SCb) :
    (if c then [u] else ([] : List SCb)).count t = if c ∧ u = t then 1 else 0 := by
  cases c with
  | false => simp
  | true =>
    simp only [if_true, true_and, List.count_cons, List.count_nil, Nat.zero_add]
    by_cases h : u = t
    · simp [h]
    · have : (u == t) = false := by simpa using h
      simp [h, this]

theorem packStale_nodup (isCreate : Bool) (initial : Mask) (p : PackSt) (supplied tm : Mask) (hn : p.final.Nodup) :
    (packStale isCreate initial p supplied tm).Nodup := by
  unfold packStale
  exact (hn.sublist List.filter_sublist).sublist List.filter_sublist

theorem packCbsS_count_assign (k : Nat) (tm base : Mask) (isCreate : Bool) (initial : Mask) (p : PackSt)
    (htn : tm.Nodup) (hpf : p.final = tm) (hsn : (p.src.map (·.1)).Nodup) (x : CompId) (hcb : (info x).callbacks = true) :
    (packCbsS info k tm base isCreate initial p).count (true, x, k) =
      (if x ∈ tm ∧ x ∉ base ∧ x ∉ Mask.ofList (p.src.map (·.1)) then 1 else 0) +
      (if x ∈ packStale isCreate initial p (Mask.ofList (p.src.map (·.1))) tm ∧ x ∉ Mask.ofList (p.src.map (·.1)) then 1 else 0) +
      (if x ∈ Mask.ofList (p.src.map (·.1)) then 1 else 0) := by
  unfold packCbsS
  rw [List.count_append, List.count_append, List.count_append, count_map_tag, count_map_tag,
    count_nodup (htn.sublist List.filter_sublist)]
  have hst := packStale_nodup isCreate initial p (Mask.ofList (p.src.map (·.1))) tm (hpf ▸ htn)
  rw [count_flatMap_tag (fun c : CompId => c) _ (by
      intro a t ht
      rcases List.mem_append.mp ht with h | h
      · split at h
        · simp only [List.mem_singleton] at h; rw [h]
        · cases h
      · split at h
        · cases h
        · split at h
          · simp only [List.mem_singleton] at h; rw [h]
          · cases h) _ (by rw [List.map_id']; exact hst)]
  rw [count_flatMap_tag (fun cv : CompId × Val => cv.1) _ (by
      intro a t ht
      split at ht
      · simp only [List.mem_singleton] at ht; rw [ht]
      · cases ht) _ hsn]
  simp only [find_self, true_and, Bool.true_eq_false, false_and, if_false, Nat.add_zero, and_self, if_true]
  -- first term
  have h1 : (if x ∈ tm.filter (fun c => !base.contains c && (info c).callbacks &&
        !(Mask.ofList (p.src.map (·.1))).contains c) then 1 else 0) =
      (if x ∈ tm ∧ x ∉ base ∧ x ∉ Mask.ofList (p.src.map (·.1)) then (1 : Nat) else 0) := by
    by_cases h : x ∈ tm ∧ x ∉ base ∧ x ∉ Mask.ofList (p.src.map (·.1))
    · rw [if_pos h, if_pos]
      rw [List.mem_filter]
      refine ⟨h.1, ?_⟩
      simp [hcb, h.2.1, h.2.2]
    · rw [if_neg h, if_neg]
      rw [List.mem_filter]
      intro hh
      apply h
      simp only [Bool.and_eq_true, Bool.not_eq_true', contains_false_iff] at hh
      exact ⟨hh.1, hh.2.1.1, hh.2.2⟩
  rw [h1]
  congr 1
  · congr 1
    -- the stale loop
    by_cases hxs : x ∈ packStale isCreate initial p (Mask.ofList (p.src.map (·.1))) tm
    · rw [if_pos hxs]
      simp only
      rw [List.count_append, count_singleton_if, hcb]
      by_cases hsup : x ∈ Mask.ofList (p.src.map (·.1))
      · simp [hxs, hsup]
      · have hc : (Mask.ofList (p.src.map (·.1))).contains x = false := contains_false_iff.mpr hsup
        simp [hxs, hsup, hc]
    · rw [if_neg hxs]
      simp [hxs]
  · -- the supplied values
    cases hf : p.src.find? (fun a => a.1 == x) with
    | none =>
      have : x ∉ Mask.ofList (p.src.map (·.1)) := by
        intro h; have := (mem_supplied p.src x).mp h; rw [hf] at this; cases this
      simp [this]
    | some q =>
      have hq : q.1 = x := by simpa using List.find?_some hf
      have : x ∈ Mask.ofList (p.src.map (·.1)) := (mem_supplied p.src x).mpr (by rw [hf]; rfl)
      simp [this, hq, hcb]

theorem packCbsS_count_remove (k : Nat) (tm base : Mask) (isCreate : Bool) (initial : Mask) (p : PackSt)
    (htn : tm.Nodup) (hbn : base.Nodup) (hpf : p.final = tm) (hsn : (p.src.map (·.1)).Nodup) (x : CompId)
    (hcb : (info x).callbacks = true) :
    (packCbsS info k tm base isCreate initial p).count (false, x, k) =
      (if x ∈ base ∧ x ∉ tm then 1 else 0) +
      (if x ∈ packStale isCreate initial p (Mask.ofList (p.src.map (·.1))) tm then 1 else 0) := by
  unfold packCbsS
  rw [List.count_append, List.count_append, List.count_append, count_map_tag, count_map_tag,
    count_nodup (hbn.sublist List.filter_sublist)]
  have hst := packStale_nodup isCreate initial p (Mask.ofList (p.src.map (·.1))) tm (hpf ▸ htn)
  rw [count_flatMap_tag (fun c : CompId => c) _ (by
      intro a t ht
      rcases List.mem_append.mp ht with h | h
      · split at h
        · simp only [List.mem_singleton] at h; rw [h]
        · cases h
      · split at h
        · cases h
        · split at h
          · simp only [List.mem_singleton] at h; rw [h]
          · cases h) _ (by rw [List.map_id']; exact hst)]
  rw [count_flatMap_tag (fun cv : CompId × Val => cv.1) _ (by
      intro a t ht
      split at ht
      · simp only [List.mem_singleton] at ht; rw [ht]
      · cases ht) _ hsn]
  simp only [find_self, true_and, Bool.false_eq_true, false_and, if_false, Nat.zero_add, and_self, if_true]
  have h1 : (if x ∈ base.filter (fun c => (info c).callbacks && !tm.contains c) then 1 else 0) =
      (if x ∈ base ∧ x ∉ tm then (1 : Nat) else 0) := by
    by_cases h : x ∈ base ∧ x ∉ tm
    · rw [if_pos h, if_pos]
      rw [List.mem_filter]
      exact ⟨h.1, by simp [hcb, h.2]⟩
    · rw [if_neg h, if_neg]
      rw [List.mem_filter]
      intro hh
      apply h
      simp only [Bool.and_eq_true, Bool.not_eq_true', contains_false_iff] at hh
      exact ⟨hh.1, hh.2.2⟩
  rw [h1]
  have h4 : ∀ q : CompId × Val,
      (if (info q.1).callbacks then [((true, q.1, k) : SCb)] else []).count (false, x, k) = 0 := by
    intro q
    rw [count_singleton_if]
    simp
  have hstale : ∀ a : CompId, a = x →
      ((if (info a).callbacks then [((false, a, k) : SCb)] else []) ++
        (if (Mask.ofList (p.src.map (·.1))).contains a then []
          else if (info a).callbacks then [((true, a, k) : SCb)] else [])).count (false, x, k) = 1 := by
    intro a ha
    subst ha
    rw [List.count_append, count_singleton_if, hcb]
    have : (if (Mask.ofList (p.src.map (·.1))).contains a then ([] : List SCb)
        else if true = true then [((true, a, k) : SCb)] else []).count (false, a, k) = 0 := by
      split
      · rfl
      · simp
    rw [this]
    simp
  cases hf : p.src.find? (fun a => a.1 == x) with
  | none =>
    simp only [Nat.add_zero]
    congr 1
    by_cases hxs : x ∈ packStale isCreate initial p (Mask.ofList (p.src.map (·.1))) tm
    · rw [if_pos hxs, if_pos hxs]
      exact hstale x rfl
    · rw [if_neg hxs, if_neg hxs]
  | some q =>
    simp only [h4 q, Nat.add_zero]
    congr 1
    by_cases hxs : x ∈ packStale isCreate initial p (Mask.ofList (p.src.map (·.1))) tm
    · rw [if_pos hxs, if_pos hxs]
      exact hstale x rfl
    · rw [if_neg hxs, if_neg hxs]

theorem packCbsS_count_zero (k : Nat) (tm base : Mask) (isCreate : Bool) (initial : Mask) (p : PackSt) (b : Bool)
    (x : CompId) (o : Nat) (h : (info x).callbacks = false ∨ o ≠ k) :
    (packCbsS info k tm base isCreate initial p).count (b, x, o) = 0 := by
  apply List.count_eq_zero_of_not_mem
  intro hm
  unfold packCbsS at hm
  simp only [List.mem_append, List.mem_map, List.mem_filter, List.mem_flatMap, Bool.and_eq_true] at hm
  rcases hm with ((⟨y, hy, he⟩ | ⟨y, hy, he⟩) | ⟨y, _, hy⟩) | ⟨q, _, hq⟩
  · simp only [Prod.mk.injEq] at he
    rcases h with h | h
    · rw [← he.2.1, hy.2.1.2] at h; cases h
    · exact h he.2.2.symm
  · simp only [Prod.mk.injEq] at he
    rcases h with h | h
    · rw [← he.2.1, hy.2.1] at h; cases h
    · exact h he.2.2.symm
  · rcases hy with hy | hy
    · split at hy
      · rename_i hc
        simp only [List.mem_singleton, Prod.mk.injEq] at hy
        rcases h with h | h
        · rw [hy.2.1, hc] at h; cases h
        · exact h hy.2.2
      · cases hy
    · split at hy
      · cases hy
      · split at hy
        · rename_i hc
          simp only [List.mem_singleton, Prod.mk.injEq] at hy
          rcases h with h | h
          · rw [hy.2.1, hc] at h; cases h
          · exact h hy.2.2
        · cases hy
  · split at hq
    · rename_i hc
      simp only [List.mem_singleton, Prod.mk.injEq] at hq
      rcases h with h | h
      · rw [hq.2.1, hc] at h; cases h
      · exact h hq.2.2
    · cases hq

/-- the three conditions of the flush oracle, for one list of model events and one of spec events -/
def NetAgree (mc scbs : List SCb) : Prop :=
  ∀ (x : CompId) (o : Nat),
    mc.count (true, x, o) + scbs.count (false, x, o) = scbs.count (true, x, o) + mc.count (false, x, o) ∧
    mc.count (true, x, o) ≤ scbs.count (true, x, o) ∧ mc.count (false, x, o) ≤ scbs.count (false, x, o)

theorem NetAgree.append {a b c d : List SCb} (h1 : NetAgree a b) (h2 : NetAgree c d) : NetAgree (a ++ c) (b ++ d) := by
  intro x o
  have := h1 x o
  have := h2 x o
  simp only [List.count_append]
  omega

theorem NetAgree.nil : NetAgree [] [] := fun _ _ => by simp

/-- a pack whose entity is alive at the end: the model's events against the spec's -/
theorem pack_agree_alive {deps : List (CompId × Mask)} {ic : List (CompId × Val)} {base : Mask} {k : Nat} {p : PackSt}
    {ent : SEnt} {scbs : List SCb} (hp : PInv info deps ic base k p ent scbs) (isCreate : Bool) (initial : Mask)
    (hic : ∀ x, x ∈ ic.map (·.1) ↔ x ∈ initial) (hbase : base = if isCreate then [] else initial) (hbn : base.Nodup) :
    NetAgree (packCbsS info k p.final base isCreate initial p) scbs := by
  intro x o
  by_cases hz : (info x).callbacks = false ∨ o ≠ k
  · rw [packCbsS_count_zero info k _ _ _ _ _ true x o hz, packCbsS_count_zero info k _ _ _ _ _ false x o hz]
    rcases hz with h | h
    · rw [hp.nocb true x o h, hp.nocb false x o h]; simp
    · rw [hp.other true x o h, hp.other false x o h]; simp
  · have hcb : (info x).callbacks = true := by
      cases h : (info x).callbacks with
      | true => rfl
      | false => exact absurd (Or.inl h) hz
    have hok : o = k := Classical.not_not.mp (fun h => hz (Or.inr h))
    subst hok
    have htn := maskOk_nodup hp.sorted
    rw [packCbsS_count_assign info o p.final base isCreate initial p htn rfl hp.srcNodup x hcb,
      packCbsS_count_remove info o p.final base isCreate initial p htn hbn rfl hp.srcNodup x hcb]
    have hnet := hp.net x hcb
    have hst := mem_packStale isCreate initial p (Mask.ofList (p.src.map (·.1))) p.final x
    have hsup : x ∈ Mask.ofList (p.src.map (·.1)) → x ∈ p.final ∧ (x ∈ p.replaced ∨ x ∉ initial) := by
      intro h
      have hs := (mem_supplied p.src x).mp h
      cases hf : p.src.find? (·.1 == x) with
      | none => rw [hf] at hs; cases hs
      | some q =>
        have hq : q.1 = x := by simpa using List.find?_some hf
        have hqm := List.mem_of_find?_eq_some hf
        refine ⟨hq ▸ hp.srcSub q hqm, ?_⟩
        rcases hp.srcRepl q hqm with h1 | h1
        · exact Or.inl (hq ▸ h1)
        · exact Or.inr (fun hi => h1 (hq ▸ (hic x).mpr hi))
    have hrepl : x ∈ p.replaced → 1 ≤ scbs.count (false, x, o) := fun h => hp.repl x h hcb
    by_cases hT : x ∈ p.final <;> by_cases hS : x ∈ Mask.ofList (p.src.map (·.1)) <;>
      by_cases hR : x ∈ p.replaced <;> by_cases hI : x ∈ initial <;> cases isCreate <;>
      simp only [hbase, hT, hS, hR, hI, hst, if_true, if_false, Bool.false_eq_true, true_and, false_and, and_true, and_false,
        not_true_eq_false, not_false_eq_true, and_self, List.not_mem_nil, Nat.add_zero, Nat.zero_add] at hnet hsup hrepl ⊢ <;>
      first
        | omega
        | (have := hrepl trivial; omega)
        | (exfalso; simp at hsup; done)
        | (exfalso; simpa using hsup)
        | skip

end Mustache.Proofs.Refine

import Mustache.Proofs.RefinePackExisting4
/-!
# Refinement, stage (e): a pack that starts with a deferred creation — the slot installation as a `Step`
-/
namespace Mustache.Proofs.Refine
open Mustache.Model Mustache.Spec
open Mustache.Proofs.IdTable (tabOf Ghost TInv)
open Mustache.Proofs.Rows

variable (info : CompId → CompInfo)

theorem startCreate_arch (w : WM) (e : Handle) (ai : Nat) : (startCreate w e).arch ai = w.arch ai := rfl

theorem startCreate_isValid_ne (w : WM) (e h : Handle) (hb1 : (startCreate w e).slots.length < 2^30 - 1)
    (hne : h.id ≠ e.id) : (startCreate w e).isValid h = w.isValid h := by
  unfold WM.isValid
  have hw : (startCreate w e).worldId = w.worldId := rfl
  rw [hw]
  have hs : (startCreate w e).slots[h.id]? =
      (w.slots ++ List.replicate (e.id + 1 - w.slots.length) (⟨2^30 - 1, 2^24 - 1⟩ : Slot))[h.id]? := by
    simp only [startCreate, WM.ensureId]
    rw [List.getElem?_set_ne (fun e' => hne e'.symm)]
  rw [hs]
  by_cases hlt : h.id < w.slots.length
  · rw [List.getElem?_append_left hlt]
  · rw [List.getElem?_append_right (by omega), List.getElem?_eq_none (i := h.id) (by omega)]
    by_cases hin : h.id - w.slots.length < e.id + 1 - w.slots.length
    · rw [List.getElem?_replicate, if_pos hin]
      have hlen : h.id < (startCreate w e).slots.length := by
        simp only [startCreate, WM.ensureId, List.length_set, List.length_append, List.length_replicate]; omega
      have : ¬ ((2^30 - 1 : Nat) = h.id) := by omega
      simp [this]
    · rw [List.getElem?_replicate, if_neg hin]

theorem startCreate_step {w : WM} (hok : RowsOK w) (e : Handle) (hb1 : (startCreate w e).slots.length < 2^30 - 1) :
    Step w (startCreate w e) e.id := by
  have hf := startCreate_facts w e
  refine ⟨⟨?_, ?_⟩, ⟨?_, fun h hne => startCreate_isValid_ne w e h hb1 hne⟩, ?_, ?_, fun hk => (KeysSame.of_archs hf.1).keysOK hk⟩
  · intro ai i r hr
    rw [startCreate_arch] at hr ⊢
    exact hok.vals ai i r hr
  · intro ai i r hr
    rw [startCreate_arch] at hr
    refine ⟨(hok.loc ai i r hr).1, ?_⟩
    rw [hf.2.1 _ (hok.id_lt hr)]
    exact (hok.loc ai i r hr).2
  · intro aj j r hr _
    refine ⟨⟨j, by rw [startCreate_arch]; exact hr, ?_⟩, rfl, rfl⟩
    rw [hf.2.1 _ (hok.id_lt hr)]
    exact (hok.loc aj j r hr).2
  · simp only [startCreate, WM.ensureId, List.length_append]; omega
  · intro x _ hn ai i r hr
    rw [startCreate_arch] at hr
    exact hn ai i r hr

theorem startCreate_tab (w : WM) (e : Handle) : tabOf (startCreate w e) = (tabOf w).install e := rfl

theorem startCreate_ctl (w : WM) (e : Handle) : SameCtl w (startCreate w e) := ⟨rfl, rfl, rfl, rfl, rfl, rfl, rfl, rfl, rfl⟩

theorem startCreate_marked (w : WM) (e : Handle) : (startCreate w e).marked = w.marked := rfl

/-- the relation after the reserved handle `e` (ordinal `k`) came alive -/
theorem rel_install {c : CW} {s : WS} (hi : Inv c) (hb : Bounds c) (hr : Rel c s) {w' : WM} {e : Handle} {k : Nat}
    (hk : c.issued[k]? = some e) (hpe : e ∈ createHandles c.w.buffers)
    (hs : OpFrame c.w w' e.id) (hvalid : ∀ h, h ≠ e → w'.isValid h = c.w.isValid h)
    (hpool : w'.pool = c.w.pool) (hdeps : w'.deps = c.w.deps) (hld : w'.lockDepth = c.w.lockDepth)
    (sb' : List (List SCmd)) (hbuf : All2 (All2 (cmdRel c.issued c.w.pool)) w'.buffers sb')
    (hsub : ∀ h ∈ createHandles w'.buffers, h ∈ createHandles c.w.buffers)
    (hmk : w'.marked = c.w.marked) (hnt : w'.nthreads = c.w.nthreads)
    (x : Option SEnt) (hx : optRel x (absEnt w' e)) :
    Rel ⟨w', c.issued⟩ { s.setEnt k x with buffers := sb' } := by
  have hnd := issued_nodup hi
  have hklt : k < s.ents.length := by rw [hr.len]; exact (List.getElem?_eq_some_iff.mp hk).1
  have hord : ordOf c.issued e = some k := ordOf_unique hnd hk
  have hev : c.w.isValid e = false := by
    cases hv : c.w.isValid e with
    | false => rfl
    | true => exact absurd hpe (valid_not_pending hi hb hv)
  have hem : e ∉ c.w.marked := fun hm => (hi.markedKnown e hm).2 hpe
  have hkm : k ∉ s.marked := fun hm => hr.markedOld k hm e hk hpe
  refine
  { len := by show (s.ents.set k x).length = _; rw [List.length_set]; exact hr.len
    ents := ?_, deps := hr.deps.trans hdeps.symm, lockDepth := hr.lockDepth.trans hld.symm
    nthreads := hr.nthreads.trans hnt.symm, buffers := ?_, marked := ?_
    markedLt := by
      intro o ho
      show o < (s.ents.set k x).length
      rw [List.length_set]; exact hr.markedLt o ho
    markedNodup := hr.markedNodup
    markedOld := fun o ho h hh hc => hr.markedOld o ho h hh (hsub h hc) }
  · intro o h ho
    have ho' : c.issued[o]? = some h := ho
    show optRel ((s.setEnt k x).alive o) _
    rw [setEnt_alive]
    by_cases hok : o = k
    · subst hok
      rw [hk] at ho'; cases ho'
      simp only [hklt, and_self, if_true]
      exact hx
    · have : ¬ (o = k ∧ k < s.ents.length) := fun hh => hok hh.1
      rw [if_neg this]
      have hne : h ≠ e := by
        intro heq; subst heq
        exact hok ((List.getElem?_inj (List.getElem?_eq_some_iff.mp ho').1 hnd).mp (ho'.trans hk.symm))
      have : absEnt w' h = absEnt c.w h := by
        by_cases hid : h.id = e.id
        · -- a handle with the id of a reserved handle is not valid
          have hinv : c.w.isValid h = false := by
            cases hv : c.w.isValid h with
            | false => rfl
            | true =>
              exfalso
              rcases hi.tinv with ⟨g, tinv, hiss, hpend⟩
              have hl := (valid_iff_ghost tinv (Nat.le_of_lt hb.inRange) h).mp hv
              exact hne (tinv.pend_unique e ((hpend e).mpr hpe) h (tinv.live_issued h hl) hid)
          rw [absEnt_invalid hinv, absEnt_invalid ((hvalid h hne).trans hinv)]
        · exact absEnt_step hi.rows hi.live hi.shared hs (by rw [hpool]; exact PoolExt.refl _) h hid
      show optRel _ (absEnt w' h)
      rw [this]
      exact hr.ents o h ho'
  · show All2 (All2 (cmdRel c.issued w'.pool)) w'.buffers sb'
    rw [hpool]
    exact hbuf
  · intro o
    show (o ∈ s.marked ∧ ((s.setEnt k x).alive o).isSome = true) ↔
      ∃ h ∈ w'.marked, w'.isValid h = true ∧ ordOf c.issued h = some o
    rw [hmk, setEnt_alive]
    have hak : s.alive k = none := by
      have := hr.ents k e hk
      rw [absEnt_invalid hev, optRel_none_right] at this
      exact this
    by_cases hok : o = k
    · subst hok
      constructor
      · rintro ⟨hm, _⟩
        exact absurd hm hkm
      · rintro ⟨h, hm, hv, ho⟩
        have := ordOf_some ho
        rw [hk] at this; cases this
        exact absurd hm hem
    · have : ¬ (o = k ∧ k < s.ents.length) := fun hh => hok hh.1
      rw [if_neg this, hr.marked o]
      constructor
      · rintro ⟨h, hm, hv, ho⟩
        have hne : h ≠ e := fun e' => hem (e' ▸ hm)
        exact ⟨h, hm, (hvalid h hne).trans hv, ho⟩
      · rintro ⟨h, hm, hv, ho⟩
        have hne : h ≠ e := fun e' => hem (e' ▸ hm)
        exact ⟨h, hm, (hvalid h hne).symm.trans hv, ho⟩

end Mustache.Proofs.Refine

import Mustache.Proofs.RefinePackExisting4
/-!
# Refinement, stage (e): a pack that starts with a deferred creation — the slot installation as a `Step`
-/
namespace Mustache.Proofs.Refine
open Mustache.Model Mustache.Spec
open Mustache.Proofs.IdTable (tabOf Ghost TInv)
open Mustache.Proofs.Rows

variable (info : CompId → CompInfo)

theorem startCreate_arch (w : WM) (e : Handle) (ai : Nat) : (startCreate w e).arch ai = w.arch ai := rfl

theorem startCreate_isValid_ne (w : WM) (e h : Handle) (hb1 : (startCreate w e).slots.length < 2^30 - 1)
    (hne : h.id ≠ e.id) : (startCreate w e).isValid h = w.isValid h := by
  unfold WM.isValid
  have hw : (startCreate w e).worldId = w.worldId := rfl
  rw [hw]
  have hs : (startCreate w e).slots[h.id]? =
      (w.slots ++ List.replicate (e.id + 1 - w.slots.length) (⟨2^30 - 1, 2^24 - 1⟩ : Slot))[h.id]? := by
    simp only [startCreate, WM.ensureId]
    rw [List.getElem?_set_ne (fun e' => hne e'.symm)]
  rw [hs]
  by_cases hlt : h.id < w.slots.length
  · rw [List.getElem?_append_left hlt]
  · rw [List.getElem?_append_right (by omega), List.getElem?_eq_none (i := h.id) (by omega)]
    by_cases hin : h.id - w.slots.length < e.id + 1 - w.slots.length
    · rw [List.getElem?_replicate, if_pos hin]
      have hlen : h.id < (startCreate w e).slots.length := by
        simp only [startCreate, WM.ensureId, List.length_set, List.length_append, List.length_replicate]; omega
      have : ¬ ((2^30 - 1 : Nat) = h.id) := by omega
      simp [this]
    · rw [List.getElem?_replicate, if_neg hin]

theorem startCreate_step {w : WM} (hok : RowsOK w) (e : Handle) (hb1 : (startCreate w e).slots.length < 2^30 - 1) :
    Step w (startCreate w e) e.id := by
  have hf := startCreate_facts w e
  refine ⟨⟨?_, ?_⟩, ⟨?_, fun h hne => startCreate_isValid_ne w e h hb1 hne⟩, ?_, ?_, fun hk => (KeysSame.of_archs hf.1).keysOK hk⟩
  · intro ai i r hr
    rw [startCreate_arch] at hr ⊢
    exact hok.vals ai i r hr
  · intro ai i r hr
    rw [startCreate_arch] at hr
    refine ⟨(hok.loc ai i r hr).1, ?_⟩
    rw [hf.2.1 _ (hok.id_lt hr)]
    exact (hok.loc ai i r hr).2
  · intro aj j r hr _
    refine ⟨⟨j, by rw [startCreate_arch]; exact hr, ?_⟩, rfl, rfl⟩
    rw [hf.2.1 _ (hok.id_lt hr)]
    exact (hok.loc aj j r hr).2
  · simp only [startCreate, WM.ensureId, List.length_append]; omega
  · intro x _ hn ai i r hr
    rw [startCreate_arch] at hr
    exact hn ai i r hr

theorem startCreate_tab (w : WM) (e : Handle) : tabOf (startCreate w e) = (tabOf w).install e := rfl

theorem startCreate_ctl (w : WM) (e : Handle) : SameCtl w (startCreate w e) := ⟨rfl, rfl, rfl, rfl, rfl, rfl, rfl, rfl, rfl⟩

theorem startCreate_marked (w : WM) (e : Handle) : (startCreate w e).marked = w.marked := rfl

/-- the relation after the reserved handle `e` (ordinal `k`) came alive -/
theorem rel_install {c : CW} {s : WS} (hi : Inv c) (hb : Bounds c) (hr : Rel c s) {w' : WM} {e : Handle} {k : Nat}
    (hk : c.issued[k]? = some e) (hpe : e ∈ createHandles c.w.buffers)
    (hs : OpFrame c.w w' e.id) (hvalid : ∀ h, h ≠ e → w'.isValid h = c.w.isValid h)
    (hpool : w'.pool = c.w.pool) (hdeps : w'.deps = c.w.deps) (hld : w'.lockDepth = c.w.lockDepth)
    (sb' : List (List SCmd)) (hbuf : All2 (All2 (cmdRel c.issued c.w.pool)) w'.buffers sb')
    (hsub : ∀ h ∈ createHandles w'.buffers, h ∈ createHandles c.w.buffers)
    (hmk : w'.marked = c.w.marked) (hnt : w'.nthreads = c.w.nthreads)
    (x : Option SEnt) (hx : optRel x (absEnt w' e)) :
    Rel ⟨w', c.issued⟩ { s.setEnt k x with buffers := sb' } := by
  have hnd := issued_nodup hi
  have hklt : k < s.ents.length := by rw [hr.len]; exact (List.getElem?_eq_some_iff.mp hk).1
  have hord : ordOf c.issued e = some k := ordOf_unique hnd hk
  have hev : c.w.isValid e = false := by
    cases hv : c.w.isValid e with
    | false => rfl
    | true => exact absurd hpe (valid_not_pending hi hb hv)
  have hem : e ∉ c.w.marked := fun hm => (hi.markedKnown e hm).2 hpe
  have hkm : k ∉ s.marked := fun hm => hr.markedOld k hm e hk hpe
  refine
  { len := by show (s.ents.set k x).length = _; rw [List.length_set]; exact hr.len
    ents := ?_, deps := hr.deps.trans hdeps.symm, lockDepth := hr.lockDepth.trans hld.symm
    nthreads := hr.nthreads.trans hnt.symm, buffers := ?_, marked := ?_
    markedLt := by
      intro o ho
      show o < (s.ents.set k x).length
      rw [List.length_set]; exact hr.markedLt o ho
    markedNodup := hr.markedNodup
    markedOld := fun o ho h hh hc => hr.markedOld o ho h hh (hsub h hc) }
  · intro o h ho
    have ho' : c.issued[o]? = some h := ho
    show optRel ((s.setEnt k x).alive o) _
    rw [setEnt_alive]
    by_cases hok : o = k
    · subst hok
      rw [hk] at ho'; cases ho'
      simp only [hklt, and_self, if_true]
      exact hx
    · have : ¬ (o = k ∧ k < s.ents.length) := fun hh => hok hh.1
      rw [if_neg this]
      have hne : h ≠ e := by
        intro heq; subst heq
        exact hok ((List.getElem?_inj (List.getElem?_eq_some_iff.mp ho').1 hnd).mp (ho'.trans hk.symm))
      have : absEnt w' h = absEnt c.w h := by
        by_cases hid : h.id = e.id
        · -- a handle with the id of a reserved handle is not valid
          have hinv : c.w.isValid h = false := by
            cases hv : c.w.isValid h with
            | false => rfl
            | true =>
              exfalso
              rcases hi.tinv with ⟨g, tinv, hiss, hpend⟩
              have hl := (valid_iff_ghost tinv (Nat.le_of_lt hb.inRange) h).mp hv
              exact hne (tinv.pend_unique e ((hpend e).mpr hpe) h (tinv.live_issued h hl) hid)
          rw [absEnt_invalid hinv, absEnt_invalid ((hvalid h hne).trans hinv)]
        · exact absEnt_step hi.rows hi.live hi.shared hs (by rw [hpool]; exact PoolExt.refl _) h hid
      show optRel _ (absEnt w' h)
      rw [this]
      exact hr.ents o h ho'
  · show All2 (All2 (cmdRel c.issued w'.pool)) w'.buffers sb'
    rw [hpool]
    exact hbuf
  · intro o
    show (o ∈ s.marked ∧ ((s.setEnt k x).alive o).isSome = true) ↔
      ∃ h ∈ w'.marked, w'.isValid h = true ∧ ordOf c.issued h = some o
    rw [hmk, setEnt_alive]
    have hak : s.alive k = none := by
      have := hr.ents k e hk
      rw [absEnt_invalid hev, optRel_none_right] at this
      exact this
    by_cases hok : o = k
    · subst hok
      constructor
      · rintro ⟨hm, _⟩
        exact absurd hm hkm
      · rintro ⟨h, hm, hv, ho⟩
        have := ordOf_some ho
        rw [hk] at this; cases this
        exact absurd hm hem
    · have : ¬ (o = k ∧ k < s.ents.length) := fun hh => hok hh.1
      rw [if_neg this, hr.marked o]
      constructor
      · rintro ⟨h, hm, hv, ho⟩
        have hne : h ≠ e := fun e' => hem (e' ▸ hm)
        exact ⟨h, hm, (hvalid h hne).trans hv, ho⟩
      · rintro ⟨h, hm, hv, ho⟩
        have hne : h ≠ e := fun e' => hem (e' ▸ hm)
        exact ⟨h, hm, (hvalid h hne).symm.trans hv, ho⟩

/-- a reserved handle `e` is installed and owns a row of `w'`, its create command leaves the buffers -/
theorem installed_refines {w : WM} {iss : List Handle} {s : WS} (hi : Inv ⟨w, iss⟩) (hb : Bounds ⟨w, iss⟩)
    (hr : Rel ⟨w, iss⟩ s) {w' : WM} {e : Handle} {k ai : Nat} {vals : List Val}
    (hk : iss[k]? = some e) (hpe : e ∈ createHandles w.buffers)
    (htab : tabOf w' = (tabOf w).install e) (hs : Step w w' e.id) (ho : Owns w' e ai vals)
    (hsh' : SharedPooled w')
    (hwid : w'.worldId = w.worldId) (hdeps : w'.deps = w.deps) (hpool : w'.pool = w.pool)
    (hni : w'.nextInst = w.nextInst) (hld : w'.lockDepth = w.lockDepth) (hnt : w'.nthreads = w.nthreads)
    (hmk : w'.marked = w.marked) (hcov : w'.slots.length ≤ w'.locs.length) (hb' : Bounds ⟨w', iss⟩)
    (hperm : (createHandles w.buffers).Perm (e :: createHandles w'.buffers))
    (hblen : w'.buffers.length = w.buffers.length)
    (hbsub : ∀ x ∈ w'.buffers, ∀ cmd ∈ x, ∃ y ∈ w.buffers, cmd ∈ y)
    (sb' : List (List SCmd)) (hbrel : All2 (All2 (cmdRel iss w.pool)) w'.buffers sb')
    (x : SEnt) (hx : optRel (some x) (absEnt w' e)) :
    Inv ⟨w', iss⟩ ∧ Rel ⟨w', iss⟩ { s.setEnt k (some x) with buffers := sb' } := by
  rcases hi.tinv with ⟨g, tinv, hiss, hpend⟩
  have hp : e ∈ g.pending := (hpend e).mpr hpe
  have htinv' : TInv (tabOf w') (g.install e) := htab ▸ Mustache.Proofs.IdTable.install_inv tinv hp
  have hnd' : (e :: createHandles w'.buffers).Nodup := hperm.nodup_iff.mp hi.pendNodup
  have hsub : ∀ h ∈ createHandles w'.buffers, h ∈ createHandles w.buffers := fun h hh =>
    hperm.mem_iff.mpr (List.mem_cons_of_mem _ hh)
  have hld0 : 0 < w.lockDepth := by
    rcases Nat.eq_zero_or_pos w.lockDepth with h0 | h0
    · rw [createHandles_of_empty (hi.bufEmpty h0)] at hpe; cases hpe
    · exact h0
  have hinv' : Inv ⟨w', iss⟩ :=
    { tinv := ⟨g.install e, htinv', hiss, fun y => by
        show y ∈ g.pending.filter (· ≠ e) ↔ y ∈ createHandles w'.buffers
        rw [List.mem_filter, hpend y, hperm.mem_iff, List.mem_cons]
        constructor
        · rintro ⟨h1 | h1, h2⟩
          · exact absurd h1 (by simpa using h2)
          · exact h1
        · intro h1
          refine ⟨Or.inr h1, ?_⟩
          have : y ≠ e := fun he => (List.nodup_cons.mp hnd').1 (he ▸ h1)
          simpa using this⟩
      pendNodup := (List.nodup_cons.mp hnd').2
      rows := hs.ok, keys := hs.keys hi.keys, live := liveInv_owns hs hi.rows hi.live ho
      pool := by
        constructor
        · rw [hpool]; exact hi.pool.vals_nodup
        · rw [hpool]; exact hi.pool.insts_nodup
        · rw [hpool, hni]; exact hi.pool.inst_lt
        · rw [hpool]; exact hi.pool.inst_sid
      shared := hsh'
      depsB := by show DepsBounded w'.deps; rw [hdeps]; exact hi.depsB
      locsCover := hcov
      bufLe := by show w'.buffers.length ≤ w'.nthreads; rw [hblen, hnt]; exact hi.bufLe
      bufLen := by
        intro _
        show w'.buffers.length = w'.nthreads
        rw [hblen, hnt]; exact hi.bufLen hld0
      bufEmpty := by
        intro h0
        have : w'.lockDepth = 0 := h0
        omega
      bufKnown := by
        intro b hb1 cmd hc
        rcases hbsub b hb1 cmd hc with ⟨y, hy, hcy⟩
        refine ⟨(hi.bufKnown y hy cmd hcy).1.mono hwid (fun _ h => h), ?_⟩
        show cmdOk w'.pool cmd
        rw [hpool]; exact (hi.bufKnown y hy cmd hcy).2
      markedKnown := by
        show ∀ y ∈ w'.marked, Known ⟨w', iss⟩ y ∧ y ∉ createHandles w'.buffers
        rw [hmk]
        intro y hy
        exact ⟨(hi.markedKnown y hy).1.mono hwid (fun _ h => h), fun hc => (hi.markedKnown y hy).2 (hsub y hc)⟩
      markedRange := by show ∀ y ∈ w'.marked, HRange w'.worldId y; rw [hmk, hwid]; exact hi.markedRange
      markedSorted := by show w'.marked.Pairwise _; rw [hmk]; exact hi.markedSorted }
  refine ⟨hinv', ?_⟩
  have hvalid : ∀ y, y ≠ e → w'.isValid y = w.isValid y := by
    intro y hne
    rw [Bool.eq_iff_iff, valid_iff_ghost htinv' (Nat.le_of_lt hb'.inRange) y,
      valid_iff_ghost tinv (Nat.le_of_lt hb.inRange) y]
    show y ∈ e :: g.live ↔ _
    rw [List.mem_cons]
    exact ⟨fun hh => hh.resolve_left hne, Or.inr⟩
  exact rel_install (c := ⟨w, iss⟩) hi hb hr hk hpe hs.frame hvalid hpool hdeps hld sb' hbrel hsub hmk hnt (some x) hx

end Mustache.Proofs.Refine

import Mustache.Proofs.RefinePackCreate
/-!
# Refinement, stage (e): a pack that starts with a deferred creation — both sides before the case analysis
-/
namespace Mustache.Proofs.Refine
open Mustache.Model Mustache.Spec
open Mustache.Proofs.IdTable (tabOf Ghost TInv)
open Mustache.Proofs.Rows

variable (info : CompId → CompInfo)

/-- the spec-side invariant right after the deferred creation itself -/
theorem pinv_init_created {deps : List (CompId × Mask)} {k : Nat} {initial : Mask} (ssh : List (Nat × Nat))
    (hm : MaskOk initial) (hcl : ClosedUnder deps initial) :
    PInv info deps (initial.map (fun c => (c, defaultVal info c))) [] k { final := initial }
      ⟨rebuild info [] initial [], ssh⟩ (cbDiff info k [] initial) := by
  have hnd : initial.Nodup := maskOk_nodup hm
  have hcount : ∀ b x o, (cbDiff info k [] initial).count (b, x, o) =
      if b = true ∧ o = k then (if x ∈ initial.filter (fun c => (info c).callbacks && !([] : Mask).contains c) then 1 else 0)
      else 0 := by
    intro b x o
    rw [cbDiff_nil_left, count_map_tag, count_nodup (hnd.sublist List.filter_sublist)]
  have hmemf : ∀ x, x ∈ initial.filter (fun c => (info c).callbacks && !([] : Mask).contains c) ↔
      (x ∈ initial ∧ (info x).callbacks = true) := by
    intro x; rw [List.mem_filter]; simp
  refine
  { comps := ?_, sorted := hm, closedF := Or.inr hcl, srcSub := fun q hq => (by cases hq), srcNodup := List.nodup_nil
    gone := ?_, srcRepl := fun q hq => (by cases hq), net := ?_, repl := fun x hx => (by cases hx)
    nocb := ?_, other := ?_, alive := rfl }
  · show rebuild info [] initial [] = initial.map _
    unfold rebuild
    apply List.map_congr_left
    intro x hx
    unfold pform
    simp only [List.find?_nil]
    rw [find_map_key, if_pos hx]
    simp
  · intro q hq hnf
    exfalso
    apply hnf
    rcases List.mem_map.mp hq with ⟨x, hx, rfl⟩
    exact hx
  · intro x hcb
    rw [hcount, hcount]
    simp only [true_and, Bool.false_eq_true, false_and, if_false, if_true, List.not_mem_nil, Nat.add_zero, Nat.zero_add]
    by_cases hx : x ∈ initial
    · rw [if_pos ((hmemf x).mpr ⟨hx, hcb⟩), if_pos hx]
    · rw [if_neg (fun h => hx ((hmemf x).mp h).1), if_neg hx]
  · intro b x o hcb
    rw [hcount]
    have : x ∉ initial.filter (fun c => (info c).callbacks && !([] : Mask).contains c) := by
      intro h; have := ((hmemf x).mp h).2; rw [hcb] at this; cases this
    rw [if_neg this]; simp
  · intro b x o ho
    rw [hcount]
    simp [ho]

/-- both sides of a pack `create e m sh :: rest` -/
theorem pack_create_setup {w : WM} {iss : List Handle} {s : WS} (hi : Inv ⟨w, iss⟩) (hr : Rel ⟨w, iss⟩ s)
    (e : Handle) (m : Mask) (sh : Shared) (ssh : List (Nat × Nat)) (rest : List Cmd) (hm : MaskOk m)
    (hall : ∀ c ∈ rest, c.entity = e ∧ crH c = none) {k : Nat} (hk : iss[k]? = some e) :
    (w.applyPack info (.create e m sh :: rest) =
      packFinish info e true (closedMask w.deps m) sh
        ((bodyState info e true (startCreate w e) (rest.foldl bodyFlags (false, false))).1,
         rest.foldl (pst w.deps) { final := closedMask w.deps m },
         (bodyState info e true (startCreate w e) (rest.foldl bodyFlags (false, false))).2)) ∧
    (rest.foldl (pst w.deps) { final := closedMask w.deps m }).dead = (rest.foldl bodyFlags (false, false)).1 ∧
    SpecPackInv info w.deps ((closedMask w.deps m).map (fun c => (c, defaultVal info c))) [] k ssh
      (rest.foldl (pst w.deps) { final := closedMask w.deps m })
      (specFold info (s, []) (.create k m ssh :: rest.map (specCmd k))).1
      (specFold info (s, []) (.create k m ssh :: rest.map (specCmd k))).2 ∧
    FrameK s (specFold info (s, []) (.create k m ssh :: rest.map (specCmd k))).1 k ∧
    (specFold info (s, []) (.create k m ssh :: rest.map (specCmd k))).1.marked =
      (if (rest.foldl bodyFlags (false, false)).2 then insertNat s.marked k else s.marked) := by
  have hklt : k < s.ents.length := by rw [hr.len]; exact (List.getElem?_eq_some_iff.mp hk).1
  have hbf := bodyFold info e true (startCreate w e) rest (false, false) { final := closedMask w.deps m } rfl hall
  rw [bodyState_init] at hbf
  have hdeps0 : (startCreate w e).deps = w.deps := rfl
  rw [hdeps0] at hbf
  refine ⟨?_, hbf.2, ?_⟩
  · rw [applyPack_eq, packStart_create]
    simp only [isCreateCmd, if_true, Cmd.entity, hdeps0, packInit_create]
    rw [hbf.1]
  · have hstep : s.applyCmd info (.create k m ssh) =
        (s.setEnt k (some ⟨rebuild info [] (closedMask w.deps m) [], ssh⟩), cbDiff info k [] (closedMask w.deps m)) := by
      simp only [WS.applyCmd]
      rw [hr.deps]; rfl
    rw [specFold_cons, hstep, List.nil_append]
    have hp0 := pinv_init_created info (deps := w.deps) (k := k) ssh (maskOk_closedMask w.deps hm)
      (closedMask_closed hi.depsB m)
    have hsp0 : SpecPackInv info w.deps ((closedMask w.deps m).map (fun c => (c, defaultVal info c))) [] k ssh
        { final := closedMask w.deps m } (s.setEnt k (some ⟨rebuild info [] (closedMask w.deps m) [], ssh⟩))
        (cbDiff info k [] (closedMask w.deps m)) := by
      unfold SpecPackInv
      simp only [Bool.false_eq_true, if_false]
      exact ⟨_, setEnt_alive_self s hklt _, rfl, hp0⟩
    have h := spec_body_fold info hi.depsB s.marked rest (false, false) _
      (s.setEnt k (some ⟨rebuild info [] (closedMask w.deps m) [], ssh⟩)) (cbDiff info k [] (closedMask w.deps m)) rfl hsp0
      (by show k < (s.ents.set k _).length; rw [List.length_set]; exact hklt) hr.deps rfl (fun c hc => (hall c hc).2)
    exact ⟨h.1, (frameK_setEnt s k _).trans h.2.1, h.2.2⟩

end Mustache.Proofs.Refine

import Mustache.Proofs.RefinePackCreate2
/-!
# Refinement, stage (e): a pack that starts with a deferred creation and leaves the entity alive
-/
namespace Mustache.Proofs.Refine
open Mustache.Model Mustache.Spec
open Mustache.Proofs.IdTable (tabOf Ghost TInv)
open Mustache.Proofs.Rows

variable (info : CompId → CompInfo)

/-- the conclusion of the refinement of one pack, its commands leaving the (ghost) buffers -/
def PackRefinesPop (w : WM) (iss : List Handle) (s : WS) (pack : List Cmd) (sp : List SCmd) (b' : List (List Cmd))
    (sb' : List (List SCmd)) : Prop :=
  Inv ⟨setCtl (w.applyPack info pack).1 w.lockDepth b' (w.applyPack info pack).1.marked, iss⟩ ∧
  Rel ⟨setCtl (w.applyPack info pack).1 w.lockDepth b' (w.applyPack info pack).1.marked, iss⟩
    { (specFold info (s, []) sp).1 with buffers := sb' } ∧
  cbsAgreeNet iss (w.applyPack info pack).2 (specFold info (s, []) sp).2

theorem startCreate_cover {w : WM} (e : Handle) (h : w.slots.length ≤ w.locs.length) :
    (startCreate w e).slots.length ≤ (startCreate w e).locs.length := by
  simp only [startCreate, WM.ensureId, List.length_set, List.length_append, List.length_replicate]
  omega

/-- the row insertion of a creating pack -/
theorem created_moved {w : WM} (hok : RowsOK w) (e : Handle) (hfresh : NotInRow w e.id)
    (hlt : e.id < w.locs.length) (hn : e.id ≠ nullId) (initial : Mask) (sh : Shared) (pf : PackSt) (hfok : MaskOk pf.final)
    (hfcl : ClosedUnder w.deps pf.final) :
    Moved (w.getArch pf.final sh).1 (packMoved info e true initial sh w pf).1 e (w.getArch pf.final sh).2
      (insVals info pf.final (Mask.ofList (pf.src.map (·.1)))) ∧
    KeysSame (w.getArch pf.final sh).1 (packMoved info e true initial sh w pf).1 ∧
    (packMoved info e true initial sh w pf).2 = insCbs info pf.final (Mask.ofList (pf.src.map (·.1))) e ∧
    ((w.getArch pf.final sh).1.arch (w.getArch pf.final sh).2).mask = pf.final := by
  have hcm : closedMask w.deps pf.final = pf.final := closedMask_eq_self hfok hfcl
  have hkey := getArch_key w pf.final sh
  rw [hcm] at hkey
  have hpk : packMoved info e true initial sh w pf =
      (insertRow (w.getArch pf.final sh).1 (w.getArch pf.final sh).2 e
        (insVals info pf.final (Mask.ofList (pf.src.map (·.1)))),
       insCbs info pf.final (Mask.ofList (pf.src.map (·.1))) e) := by
    unfold packMoved
    simp only [if_true, packTarget_create]
    rw [archInsert_form, hkey.1]
  rw [hpk]
  have hai := getArch_idx_lt w pf.final sh
  refine ⟨?_, insertRow_keysSame _ _ _ _ hai, rfl, hkey.1⟩
  apply insertRow_moved (rowsOK_getArch hok pf.final sh) _ e _ hai hn
  · rw [Mustache.Proofs.Rows.getArch_locs]; exact hlt
  · exact getArch_notInRow pf.final sh hfresh
  · rw [hkey.1, insVals_length]

/-- no row of the current state carries the id of a reserved handle -/
theorem pending_notInRow {c : CW} (hi : Inv c) (hb : Bounds c) {e : Handle} (hpe : e ∈ createHandles c.w.buffers) :
    NotInRow c.w e.id := by
  intro ai i r hr hid
  rcases hi.tinv with ⟨g, tinv, hiss, hpend⟩
  have hv := hi.live.row_live ai i r hr
  have hl := (valid_iff_ghost tinv (Nat.le_of_lt hb.inRange) r.ent).mp hv
  have := tinv.pend_unique e ((hpend e).mpr hpe) r.ent (tinv.live_issued _ hl) hid
  rw [this] at hv
  exact valid_not_pending hi hb hv hpe

theorem pending_facts {c : CW} (hi : Inv c) {e : Handle} (hpe : e ∈ createHandles c.w.buffers) :
    e.world = c.w.worldId ∧ e ∈ c.issued := by
  rcases hi.tinv with ⟨g, tinv, hiss, hpend⟩
  have h1 := tinv.pend_issued e ((hpend e).mpr hpe)
  refine ⟨tinv.world e h1, ?_⟩
  rw [hiss] at h1
  exact List.mem_reverse.mp h1

/-- `Rel` with a marked ordinal, read through a spec state that agrees (buffers replaced) -/
theorem rel_to_frame_buf {c : CW} {s S' : WS} {k : Nat} {x : Option SEnt} {mk : Bool} (sb' : List (List SCmd))
    (hk : k < s.ents.length)
    (hr : Rel c (if mk then { s.setEnt k x with marked := insertNat s.marked k, buffers := sb' }
      else { s.setEnt k x with buffers := sb' }))
    (hfr : FrameK s S' k) (hal : S'.alive k = x)
    (hm : S'.marked = (if mk then insertNat s.marked k else s.marked)) : Rel c { S' with buffers := sb' } := by
  have hlen : S'.ents.length = (s.setEnt k x).ents.length := by
    rw [hfr.len]; simp [WS.setEnt]
  have halive : ∀ o, S'.alive o = (s.setEnt k x).alive o := by
    intro o
    rw [setEnt_alive]
    by_cases ho : o = k
    · subst ho; rw [if_pos ⟨rfl, hk⟩]; exact hal
    · rw [if_neg (fun h => ho h.1)]; exact hfr.others o ho
  cases mk with
  | false =>
    simp only [Bool.false_eq_true, if_false] at hr hm
    exact rel_of_frame hr hlen halive hfr.deps hfr.lockDepth hfr.nthreads rfl hm
  | true =>
    simp only [if_true] at hr hm
    exact rel_of_frame hr hlen halive hfr.deps hfr.lockDepth hfr.nthreads rfl hm

end Mustache.Proofs.Refine

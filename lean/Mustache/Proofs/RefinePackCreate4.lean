import Mustache.Proofs.RefinePackCreate3
/-!
# Refinement, stage (e): a creating pack whose entity stays alive
-/
namespace Mustache.Proofs.Refine
open Mustache.Model Mustache.Spec
open Mustache.Proofs.IdTable (tabOf Ghost TInv)
open Mustache.Proofs.Rows

variable (info : CompId → CompInfo)

theorem pack_create_alive {w : WM} {iss : List Handle} {s : WS} (hi : Inv ⟨w, iss⟩) (hb : Bounds ⟨w, iss⟩)
    (hr : Rel ⟨w, iss⟩ s) (e : Handle) (m : Mask) (sh : Shared) (ssh : List (Nat × Nat)) (rest : List Cmd)
    (hm : MaskOk m) (hshin : SharedIn w.pool sh) (hall : ∀ c ∈ rest, c.entity = e ∧ crH c = none)
    {k : Nat} (hk : iss[k]? = some e) (hpe : e ∈ createHandles w.buffers)
    (hssh : ∀ sid, lookupS ssh sid = lookupS (absShared w.pool sh) sid)
    (b' : List (List Cmd)) (sb' : List (List SCmd))
    (hperm : (createHandles w.buffers).Perm (e :: createHandles b')) (hblen : b'.length = w.buffers.length)
    (hbsub : ∀ x ∈ b', ∀ cmd ∈ x, ∃ y ∈ w.buffers, cmd ∈ y) (hbrel : All2 (All2 (cmdRel iss w.pool)) b' sb')
    (hb0 : (startCreate w e).slots.length < 2^30 - 1)
    (halive : (rest.foldl bodyFlags (false, false)).1 = false) :
    PackRefinesPop info w iss s (.create e m sh :: rest) (.create k m ssh :: rest.map (specCmd k)) b' sb' := by
  rcases pack_create_setup info hi hr e m sh ssh rest hm hall hk with ⟨happly, hpd, hsp, hfr, hmk⟩
  unfold PackRefinesPop
  generalize hfl : rest.foldl bodyFlags (false, false) = fl at *
  obtain ⟨dead, mk⟩ := fl
  simp only at halive hpd
  subst halive
  generalize hpf : rest.foldl (pst w.deps) { final := closedMask w.deps m } = pf at *
  generalize hSdef : specFold info (s, []) (.create k m ssh :: rest.map (specCmd k)) = Sr at *
  have hord : ordOf iss e = some k := ordOf_unique (issued_nodup (c := ⟨w, iss⟩) hi) hk
  have hklt : k < s.ents.length := by rw [hr.len]; exact (List.getElem?_eq_some_iff.mp hk).1
  -- the spec side
  unfold SpecPackInv at hsp
  rw [if_neg (by rw [hpd]; simp)] at hsp
  rcases hsp with ⟨entn, haln, hshn, hpinv⟩
  -- the model side: the marks commute with the finish
  have hfinish : w.applyPack info (.create e m sh :: rest) =
      ({ (packFinish info e true (closedMask w.deps m) sh (startCreate w e, pf, [])).1 with
          marked := if mk then insertSorted w.marked e else w.marked },
        (packFinish info e true (closedMask w.deps m) sh (startCreate w e, pf, [])).2) := by
    rw [happly]
    have hbs : bodyState info e true (startCreate w e) (false, mk) =
        (setCtl (startCreate w e) w.lockDepth w.buffers (if mk then insertSorted w.marked e else w.marked), []) := rfl
    rw [hbs, setCtl_packFinish]
    have hctl := packFinish_ctl info e true (closedMask w.deps m) sh (startCreate w e, pf, [])
    have h1 : (packFinish info e true (closedMask w.deps m) sh (startCreate w e, pf, [])).1.lockDepth = w.lockDepth :=
      hctl.lockDepth
    have h2 : (packFinish info e true (closedMask w.deps m) sh (startCreate w e, pf, [])).1.buffers = w.buffers :=
      hctl.buffers
    rw [setMarked_setCtl _ _ _ _ h1 h2]
  have hfin0 : packFinish info e true (closedMask w.deps m) sh (startCreate w e, pf, []) =
      packLoops info e true (closedMask w.deps m) pf ((startCreate w e).getArch pf.final sh).2
        (packMoved info e true (closedMask w.deps m) sh (startCreate w e) pf).1
        (packMoved info e true (closedMask w.deps m) sh (startCreate w e) pf).2 [] := by
    rw [packFinish_eq, hpd]; rfl
  -- the structural steps
  have hsf := startCreate_facts w e
  have hstep0 := startCreate_step hi.rows e hb0
  have hfresh : NotInRow (startCreate w e) e.id := fun ai i r hr' => pending_notInRow (c := ⟨w, iss⟩) hi hb hpe ai i r hr'
  have hnid : e.id ≠ nullId := by
    have : e.id < (startCreate w e).slots.length := hsf.2.2.2
    show e.id ≠ 2^30 - 1
    omega
  rcases created_moved info hstep0.ok e hfresh hsf.2.2.1 hnid (closedMask w.deps m) sh pf hpinv.sorted
    (hpinv.closedF.elim (fun h => by rw [h]; intro x hx; cases hx) id) with
    ⟨hm1, hks1, hcb1, hmask0⟩
  have hmask1 : ((packMoved info e true (closedMask w.deps m) sh (startCreate w e) pf).1.arch
      ((startCreate w e).getArch pf.final sh).2).mask = pf.final := by rw [(hks1.key _).1]; exact hmask0
  rcases packLoops_moved info true (closedMask w.deps m) pf hpinv.srcSub hm1 hmask1
    (packMoved info e true (closedMask w.deps m) sh (startCreate w e) pf).2 [] with ⟨hmX, hksX, hcbX⟩
  rw [← hfin0] at hmX hksX hcbX
  have hstep1 := getArch_step hstep0.ok pf.final sh e.id (fun _ => hpinv.sorted)
  have hst1 := getArch_sameTable (startCreate w e) pf.final sh
  have hkey := getArch_key (startCreate w e) pf.final sh
  have hAK1 : AllKeys (fun _ s => SharedIn w.pool s) ((startCreate w e).getArch pf.final sh).1 :=
    AllKeys.getArch (P := fun _ s => SharedIn w.pool s) (w := startCreate w e) hi.shared pf.final sh hshin
  generalize hXdef : (packFinish info e true (closedMask w.deps m) sh (startCreate w e, pf, [])).1 = X at *
  generalize hCdef : (packFinish info e true (closedMask w.deps m) sh (startCreate w e, pf, [])).2 = C at *
  generalize htidef : ((startCreate w e).getArch pf.final sh).2 = ti at *
  generalize hW1def : ((startCreate w e).getArch pf.final sh).1 = W1 at *
  have hsameX : SameTable (startCreate w e) X := hst1.trans hmX.same
  have hstepX : Step w X e.id := (hstep0.trans hstep1).trans hmX.step
  have hkeysX : KeysSame W1 X := hks1.trans hksX
  have hvalid0 : (startCreate w e).isValid e = true := by
    rw [Mustache.Proofs.IdTable.isValid_tab, startCreate_tab]
    have hpf' := pending_facts (c := ⟨w, iss⟩) hi hpe
    apply Mustache.Proofs.IdTable.install_valid _ e _ hpf'.1
    intro hnull
    rw [hnull] at hnid
    exact hnid rfl
  have hvX : X.isValid e = true := (hsameX.isValid e).trans hvalid0
  have hmaskX : (X.arch ti).mask = pf.final := by rw [(hksX.key ti).1]; exact hmask1
  have hdataX : (X.arch ti).shared.data = sh.data := by rw [(hkeysX.key ti).2]; exact hkey.2
  have hXm : X.marked = w.marked := hsameX.marked
  have hXpool : X.pool = w.pool := hsameX.pool
  -- the popped ghost state
  generalize hX'def : setCtl X w.lockDepth b' X.marked = X' at *
  have hX'arch : ∀ ai, X'.arch ai = X.arch ai := by intro ai; rw [← hX'def]; rfl
  have hownX : Owns X e ti (loopVals info pf.final true (closedMask w.deps m) pf
      (insVals info pf.final (Mask.ofList (pf.src.map (·.1))))) := hmX.owns (by rw [hst1.isValid]; exact hvalid0)
  have hown' : Owns X' e ti (loopVals info pf.final true (closedMask w.deps m) pf
      (insVals info pf.final (Mask.ofList (pf.src.map (·.1))))) := by
    rw [← hX'def]; exact ⟨hownX.valid, hownX.here⟩
  have hstep' : Step w X' e.id := by
    rw [← hX'def]
    exact ⟨⟨hstepX.ok.vals, hstepX.ok.loc⟩, ⟨hstepX.frame.keeps, hstepX.frame.valid⟩, hstepX.llen, hstepX.others,
      fun hk' => ⟨(hstepX.keys hk').masks, (hstepX.keys hk').distinct⟩⟩
  have htab' : tabOf X' = (tabOf w).install e := by
    rw [← hX'def, ← startCreate_tab]
    show (⟨X.worldId, X.slots, X.next, X.empty, w.lockDepth, X.nextEntityId⟩ : Tab) = tabOf (startCreate w e)
    rw [hsameX.worldId, hsameX.slots, hsameX.next, hsameX.empty, hsameX.nextEntityId]; rfl
  have hshX : SharedIn w.pool (X.arch ti).shared := by
    have htilt : ti < X.archs.length := by rcases hmX.here with ⟨n, _, hr'⟩; exact lt_of_row hr'
    exact (hAK1.keysSame hkeysX) _ (arch_mem htilt)
  have hcomps : entn.comps = (X.arch ti).mask.zip (loopVals info pf.final true (closedMask w.deps m) pf
      (insVals info pf.final (Mask.ofList (pf.src.map (·.1))))) := by
    rw [hmaskX, hpinv.comps, zip_eq_map (maskOk_nodup hpinv.sorted)
      (by rw [loopVals, setMany_length, setMany_length, insVals_length])]
    apply List.map_congr_left
    intro x hx
    rw [loopVals_created info pf.final (closedMask w.deps m) (maskOk_nodup hpinv.sorted) pf rfl hpinv.srcNodup _
      (insVals_length info _ _) (fun y hy hns => insVals_get info pf.final _ y hy hns) x hx]
  have hx' : optRel (some entn) (absEnt X' e) := by
    rcases hown'.here with ⟨n, hl, hrow⟩
    rw [absEnt_of_row hown'.valid hl hrow, hX'arch]
    refine ⟨hcomps, fun sid => ?_⟩
    have hp' : X'.pool = w.pool := by rw [← hX'def]; exact hXpool
    rw [hshn, hssh sid, hp', shared_eq_of_data hi.pool hshX hshin hdataX]
  have hcore := installed_refines (w := w) (w' := X') hi hb hr hk hpe htab' hstep' hown'
    (by
      show AllKeys (fun _ s => SharedIn X'.pool s) X'
      have : X'.pool = w.pool := by rw [← hX'def]; exact hXpool
      rw [this, ← hX'def]; exact hAK1.keysSame ⟨hkeysX.alen, hkeysX.key⟩)
    (by rw [← hX'def]; exact hsameX.worldId) (by rw [← hX'def]; exact hsameX.deps) (by rw [← hX'def]; exact hXpool)
    (by rw [← hX'def]; exact hsameX.nextInst) (by rw [← hX'def]; rfl) (by rw [← hX'def]; exact hsameX.nthreads)
    (by rw [← hX'def]; exact hXm)
    (by
      rw [← hX'def]
      show X.slots.length ≤ X.locs.length
      rw [hsameX.slots]
      exact Nat.le_trans (startCreate_cover e hi.locsCover) ((hstep1.trans hmX.step).llen))
    ⟨by rw [← hX'def]; show X.slots.length < _; rw [hsameX.slots]; exact hb0, hb.noWrap⟩
    (by rw [← hX'def]; exact hperm) (by rw [← hX'def]; exact hblen) (by rw [← hX'def]; exact hbsub) sb'
    (by rw [← hX'def]; exact hbrel) entn hx'
  -- callbacks
  have hcb : cbsAgreeNet iss C Sr.2 := by
    apply cbsAgreeNet_of (mc := packCbsS info k pf.final [] true (closedMask w.deps m) pf)
    · rw [hcbX, List.nil_append, List.map_append, hcb1, insCbs_eq, cbAbs_assign_map hord, loopCbs_abs info hord]
      unfold packCbsS
      simp only [List.map_append, List.append_assoc, List.filter_nil, List.map_nil, List.nil_append]
      congr 2
    · exact pack_agree_alive info hpinv true (closedMask w.deps m)
        (fun x => by simp [List.map_map, Function.comp_def]) rfl List.nodup_nil
  rw [hfinish]
  have hbX' : Bounds ⟨X', iss⟩ := ⟨by rw [← hX'def]; show X.slots.length < _; rw [hsameX.slots]; exact hb0, hb.noWrap⟩
  have hvX' : X'.isValid e = true := hown'.valid
  have hmk' : X'.marked = w.marked := by rw [← hX'def]; exact hXm
  cases mk with
  | false =>
    simp only [Bool.false_eq_true, if_false]
    have hst : setCtl { X with marked := w.marked } w.lockDepth b' w.marked = X' := by
      rw [← hX'def, hXm]; rfl
    rw [hst]
    exact ⟨hcore.1, rel_to_frame_buf (mk := false) sb' hklt hcore.2 hfr haln hmk, hcb⟩
  | true =>
    simp only [if_true]
    have hst : setCtl { X with marked := insertSorted w.marked e } w.lockDepth b' (insertSorted w.marked e) =
        { X' with marked := insertSorted X'.marked e } := by
      rw [hmk', ← hX'def]; rfl
    rw [hst]
    have hrg : HRange X'.worldId e := valid_range (c := ⟨X', iss⟩) hbX' hvX'
    have hnp : e ∉ createHandles X'.buffers := valid_not_pending (c := ⟨X', iss⟩) hcore.1 hbX' hvX'
    have hm1' := mark_refines hcore.1 hcore.2 hk hrg hnp
    have hm2 := mark_rel_always hcore.1 hcore.2 hk hrg hnp
    exact ⟨hm1'.1, rel_to_frame_buf (mk := true) sb' hklt hm2 hfr haln hmk, hcb⟩

end Mustache.Proofs.Refine

import Mustache.Proofs.RefinePackCreate4
/-!
# Refinement, stage (e): a creating pack that destroys its entity again
-/
namespace Mustache.Proofs.Refine
open Mustache.Model Mustache.Spec
open Mustache.Proofs.IdTable (tabOf Ghost TInv)
open Mustache.Proofs.Rows

variable (info : CompId → CompInfo)

theorem release_step {w : WM} (hok : RowsOK w) (h : Handle) (hlt : h.id < w.slots.length) :
    Step w (w.release h) h.id := by
  refine ⟨rowsOK_release hok h hlt, release_opFrame hok h hlt, ?_, ?_,
    fun hk => (KeysSame.of_archs (release_archs_locs w h hlt).1).keysOK hk⟩
  · rw [(release_archs_locs w h hlt).2.1]; exact Nat.le_refl _
  · intro x _ hn ai i r hr
    rw [release_arch w h hlt] at hr
    exact hn ai i r hr

theorem release_slots_length (w : WM) (h : Handle) (hlt : h.id < w.slots.length) :
    (w.release h).slots.length = w.slots.length := by
  simp [WM.release, hlt]

/-- a reserved handle is installed and released at once (created and destroyed inside one pack) -/
theorem stillborn_refines {w : WM} {iss : List Handle} {s : WS} (hi : Inv ⟨w, iss⟩) (hb : Bounds ⟨w, iss⟩)
    (hr : Rel ⟨w, iss⟩ s) {w' : WM} {e : Handle} {k : Nat}
    (hk : iss[k]? = some e) (hpe : e ∈ createHandles w.buffers)
    (htab : tabOf w' = ((tabOf w).install e).release e) (hs : Step w w' e.id)
    (hrows : ∀ ai, (w'.arch ai).rows = (w.arch ai).rows)
    (hsh' : SharedPooled w')
    (hwid : w'.worldId = w.worldId) (hdeps : w'.deps = w.deps) (hpool : w'.pool = w.pool)
    (hni : w'.nextInst = w.nextInst) (hld : w'.lockDepth = w.lockDepth) (hnt : w'.nthreads = w.nthreads)
    (hmk : w'.marked = w.marked) (hcov : w'.slots.length ≤ w'.locs.length) (hb' : Bounds ⟨w', iss⟩)
    (hperm : (createHandles w.buffers).Perm (e :: createHandles w'.buffers))
    (hblen : w'.buffers.length = w.buffers.length)
    (hbsub : ∀ x ∈ w'.buffers, ∀ cmd ∈ x, ∃ y ∈ w.buffers, cmd ∈ y)
    (sb' : List (List SCmd)) (hbrel : All2 (All2 (cmdRel iss w.pool)) w'.buffers sb') :
    Inv ⟨w', iss⟩ ∧ Rel ⟨w', iss⟩ { s.setEnt k none with buffers := sb' } := by
  rcases hi.tinv with ⟨g, tinv, hiss, hpend⟩
  have hp : e ∈ g.pending := (hpend e).mpr hpe
  have hmem : e ∈ iss := List.mem_of_getElem? hk
  have htinv1 : TInv ((tabOf w).install e) (g.install e) := Mustache.Proofs.IdTable.install_inv tinv hp
  have htinv' : TInv (tabOf w') ((g.install e).destroy e) :=
    htab ▸ Mustache.Proofs.IdTable.release_inv htinv1 (by show e ∈ e :: g.live; simp) (hb.noWrap e hmem)
  have hnd' : (e :: createHandles w'.buffers).Nodup := hperm.nodup_iff.mp hi.pendNodup
  have hsub : ∀ h ∈ createHandles w'.buffers, h ∈ createHandles w.buffers := fun h hh =>
    hperm.mem_iff.mpr (List.mem_cons_of_mem _ hh)
  have hld0 : 0 < w.lockDepth := by
    rcases Nat.eq_zero_or_pos w.lockDepth with h0 | h0
    · rw [createHandles_of_empty (hi.bufEmpty h0)] at hpe; cases hpe
    · exact h0
  have hnl : e ∉ g.live := tinv.pend_not_live e hp
  have hvalid : ∀ y, w'.isValid y = w.isValid y := by
    intro y
    rw [Bool.eq_iff_iff, valid_iff_ghost htinv' (Nat.le_of_lt hb'.inRange) y,
      valid_iff_ghost tinv (Nat.le_of_lt hb.inRange) y]
    show y ∈ (e :: g.live).filter (· ≠ e) ↔ _
    rw [List.mem_filter, List.mem_cons]
    constructor
    · rintro ⟨h1 | h1, h2⟩
      · exact absurd h1 (by simpa using h2)
      · exact h1
    · intro h1
      exact ⟨Or.inr h1, by simpa using (fun he : y = e => hnl (he ▸ h1))⟩
  have hinv' : Inv ⟨w', iss⟩ :=
    { tinv := ⟨(g.install e).destroy e, htinv', hiss, fun y => by
        show y ∈ g.pending.filter (· ≠ e) ↔ y ∈ createHandles w'.buffers
        rw [List.mem_filter, hpend y, hperm.mem_iff, List.mem_cons]
        constructor
        · rintro ⟨h1 | h1, h2⟩
          · exact absurd h1 (by simpa using h2)
          · exact h1
        · intro h1
          refine ⟨Or.inr h1, ?_⟩
          have : y ≠ e := fun he => (List.nodup_cons.mp hnd').1 (he ▸ h1)
          simpa using this⟩
      pendNodup := (List.nodup_cons.mp hnd').2
      rows := hs.ok, keys := hs.keys hi.keys, live := liveInv_of_same hi.live hrows hvalid
      pool := by
        constructor
        · rw [hpool]; exact hi.pool.vals_nodup
        · rw [hpool]; exact hi.pool.insts_nodup
        · rw [hpool, hni]; exact hi.pool.inst_lt
        · rw [hpool]; exact hi.pool.inst_sid
      shared := hsh'
      depsB := by show DepsBounded w'.deps; rw [hdeps]; exact hi.depsB
      locsCover := hcov
      bufLe := by show w'.buffers.length ≤ w'.nthreads; rw [hblen, hnt]; exact hi.bufLe
      bufLen := by
        intro _
        show w'.buffers.length = w'.nthreads
        rw [hblen, hnt]; exact hi.bufLen hld0
      bufEmpty := by
        intro h0
        have : w'.lockDepth = 0 := h0
        omega
      bufKnown := by
        intro b hb1 cmd hc
        rcases hbsub b hb1 cmd hc with ⟨y, hy, hcy⟩
        refine ⟨(hi.bufKnown y hy cmd hcy).1.mono hwid (fun _ h => h), ?_⟩
        show cmdOk w'.pool cmd
        rw [hpool]; exact (hi.bufKnown y hy cmd hcy).2
      markedKnown := by
        show ∀ y ∈ w'.marked, Known ⟨w', iss⟩ y ∧ y ∉ createHandles w'.buffers
        rw [hmk]
        intro y hy
        exact ⟨(hi.markedKnown y hy).1.mono hwid (fun _ h => h), fun hc => (hi.markedKnown y hy).2 (hsub y hc)⟩
      markedRange := by show ∀ y ∈ w'.marked, HRange w'.worldId y; rw [hmk, hwid]; exact hi.markedRange
      markedSorted := by show w'.marked.Pairwise _; rw [hmk]; exact hi.markedSorted }
  refine ⟨hinv', ?_⟩
  have hev : w'.isValid e = false := by
    rw [hvalid e]
    cases hv : w.isValid e with
    | false => rfl
    | true => exact absurd hpe (valid_not_pending (c := ⟨w, iss⟩) hi hb hv)
  exact rel_install (c := ⟨w, iss⟩) hi hb hr hk hpe hs.frame (fun y _ => hvalid y) hpool hdeps hld sb' hbrel hsub hmk hnt
    none (by rw [absEnt_invalid hev]; trivial)

theorem pack_create_dead {w : WM} {iss : List Handle} {s : WS} (hi : Inv ⟨w, iss⟩) (hb : Bounds ⟨w, iss⟩)
    (hr : Rel ⟨w, iss⟩ s) (e : Handle) (m : Mask) (sh : Shared) (ssh : List (Nat × Nat)) (rest : List Cmd)
    (hm : MaskOk m) (hall : ∀ c ∈ rest, c.entity = e ∧ crH c = none)
    {k : Nat} (hk : iss[k]? = some e) (hpe : e ∈ createHandles w.buffers)
    (b' : List (List Cmd)) (sb' : List (List SCmd))
    (hperm : (createHandles w.buffers).Perm (e :: createHandles b')) (hblen : b'.length = w.buffers.length)
    (hbsub : ∀ x ∈ b', ∀ cmd ∈ x, ∃ y ∈ w.buffers, cmd ∈ y) (hbrel : All2 (All2 (cmdRel iss w.pool)) b' sb')
    (hb0 : (startCreate w e).slots.length < 2^30 - 1)
    (hdead : (rest.foldl bodyFlags (false, false)).1 = true) :
    PackRefinesPop info w iss s (.create e m sh :: rest) (.create k m ssh :: rest.map (specCmd k)) b' sb' := by
  rcases pack_create_setup info hi hr e m sh ssh rest hm hall hk with ⟨happly, hpd, hsp, hfr, hmk⟩
  unfold PackRefinesPop
  generalize hfl : rest.foldl bodyFlags (false, false) = fl at *
  obtain ⟨dead, mk⟩ := fl
  simp only at hdead hpd
  subst hdead
  generalize hpf : rest.foldl (pst w.deps) { final := closedMask w.deps m } = pf at *
  generalize hSdef : specFold info (s, []) (.create k m ssh :: rest.map (specCmd k)) = Sr at *
  have hklt : k < s.ents.length := by rw [hr.len]; exact (List.getElem?_eq_some_iff.mp hk).1
  unfold SpecPackInv at hsp
  rw [if_pos hpd] at hsp
  have hfin : w.applyPack info (.create e m sh :: rest) =
      ({ (startCreate w e).release e with marked := if mk then insertSorted w.marked e else w.marked }, []) := by
    rw [happly, packFinish_eq, hpd]; rfl
  rw [hfin]
  have hsf := startCreate_facts w e
  have hlt : e.id < (startCreate w e).slots.length := hsf.2.2.2
  have hstep0 := startCreate_step hi.rows e hb0
  have hstep1 := release_step hstep0.ok e hlt
  have hstepD := hstep0.trans hstep1
  have hrl := release_archs_locs (startCreate w e) e hlt
  have hctl := release_ctl (startCreate w e) e
  have hpf' := pending_facts (c := ⟨w, iss⟩) hi hpe
  generalize hDdef : setCtl ((startCreate w e).release e) w.lockDepth b' w.marked = D at *
  have hslen : D.slots.length = (startCreate w e).slots.length := by
    rw [← hDdef]; exact release_slots_length _ e hlt
  have hbD : Bounds ⟨D, iss⟩ := ⟨by show D.slots.length < _; rw [hslen]; exact hb0, hb.noWrap⟩
  have hcore := stillborn_refines (w := w) (w' := D) hi hb hr hk hpe
    (by
      rw [← hDdef, ← startCreate_tab, ← Mustache.Proofs.IdTable.release_tab]
      show (⟨_, _, _, _, w.lockDepth, _⟩ : Tab) = tabOf ((startCreate w e).release e)
      unfold tabOf
      rw [show ((startCreate w e).release e).lockDepth = w.lockDepth from hctl.lockDepth]
      rfl)
    (by
      rw [← hDdef]
      exact ⟨⟨hstepD.ok.vals, hstepD.ok.loc⟩, ⟨hstepD.frame.keeps, hstepD.frame.valid⟩, hstepD.llen, hstepD.others,
        fun hk' => ⟨(hstepD.keys hk').masks, (hstepD.keys hk').distinct⟩⟩)
    (by
      intro ai
      rw [← hDdef]
      show (((startCreate w e).release e).arch ai).rows = _
      rw [release_arch _ e hlt]; rfl)
    (by
      rw [← hDdef]
      show ∀ a ∈ ((startCreate w e).release e).archs, SharedIn ((startCreate w e).release e).pool a.shared
      rw [hrl.1, hctl.pool]; exact hi.shared)
    (by rw [← hDdef]; exact hrl.2.2) (by rw [← hDdef]; exact hctl.deps) (by rw [← hDdef]; exact hctl.pool)
    (by rw [← hDdef]; exact hctl.nextInst) (by rw [← hDdef]; rfl) (by rw [← hDdef]; exact hctl.nthreads)
    (by rw [← hDdef]; rfl)
    (by
      rw [hslen, ← hDdef]
      show _ ≤ ((startCreate w e).release e).locs.length
      rw [hrl.2.1]; exact startCreate_cover e hi.locsCover)
    hbD (by rw [← hDdef]; exact hperm) (by rw [← hDdef]; exact hblen) (by rw [← hDdef]; exact hbsub) sb'
    (by rw [← hDdef]; exact hbrel)
  have hcb : cbsAgreeNet iss [] Sr.2 := by
    apply cbsAgreeNet_of (mc := [])
    · rfl
    · exact pack_agree_dead info hsp.2 List.nodup_nil
  have hDm : D.marked = w.marked := by rw [← hDdef]; rfl
  cases mk with
  | false =>
    simp only [Bool.false_eq_true, if_false]
    have hst : setCtl { (startCreate w e).release e with marked := w.marked } w.lockDepth b' w.marked = D := by
      rw [← hDdef]; rfl
    rw [hst]
    exact ⟨hcore.1, rel_to_frame_buf (mk := false) sb' hklt hcore.2 hfr hsp.1 hmk, hcb⟩
  | true =>
    simp only [if_true]
    have hst : setCtl { (startCreate w e).release e with marked := insertSorted w.marked e } w.lockDepth b'
        (insertSorted w.marked e) = { D with marked := insertSorted D.marked e } := by
      rw [hDm, ← hDdef]; rfl
    rw [hst]
    have hrg : HRange D.worldId e := by
      refine ⟨by omega, ?_⟩
      rw [← hDdef]
      show e.world = ((startCreate w e).release e).worldId
      rw [hrl.2.2]; exact hpf'.1
    have hnp : e ∉ createHandles D.buffers := by
      rw [← hDdef]
      exact (List.nodup_cons.mp (hperm.nodup_iff.mp hi.pendNodup)).1
    have hm1' := mark_refines hcore.1 hcore.2 hk hrg hnp
    have hm2 := mark_rel_always hcore.1 hcore.2 hk hrg hnp
    exact ⟨hm1'.1, rel_to_frame_buf (mk := true) sb' hklt hm2 hfr hsp.1 hmk, hcb⟩

end Mustache.Proofs.Refine

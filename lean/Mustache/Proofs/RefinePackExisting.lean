import Mustache.Proofs.RefinePackTools
/-!
# Refinement, stage (e): a pack on an existing entity (no creation)
-/
namespace Mustache.Proofs.Refine
open Mustache.Model Mustache.Spec
open Mustache.Proofs.IdTable (tabOf Ghost TInv)
open Mustache.Proofs.Rows

variable (info : CompId → CompInfo)

/-- the spec command of a non-creating model command, entity reference `o` -/
def specCmdRef (o : Option Nat) : Cmd → SCmd
  | .create _ m _ => .create 0 m []
  | .destroyNow _ => .destroyNow o
  | .destroy _ => .destroy o
  | .remove _ c => .remove o c
  | .assign _ c v => .assign o c v

theorem cmdRel_noncreate {iss : List Handle} {pool : Pool} {cmd : Cmd} {sc : SCmd} (hnc : crH cmd = none)
    (h : cmdRel iss pool cmd sc) : sc = specCmdRef (ordOf iss cmd.entity) cmd := by
  cases cmd with
  | create e m sh => simp [crH] at hnc
  | destroyNow e => cases sc <;> simp only [cmdRel, specCmdRef, Cmd.entity] at h ⊢ <;> first | (rw [h]) | (exact h.elim)
  | destroy e => cases sc <;> simp only [cmdRel, specCmdRef, Cmd.entity] at h ⊢ <;> first | (rw [h]) | (exact h.elim)
  | remove e c => cases sc <;> simp only [cmdRel, specCmdRef, Cmd.entity] at h ⊢ <;> first | (rw [h.1, h.2]) | (exact h.elim)
  | assign e c v =>
    cases sc <;> simp only [cmdRel, specCmdRef, Cmd.entity] at h ⊢ <;> first | (rw [h.1, h.2.1, h.2.2]) | (exact h.elim)

theorem specCmdRef_some (k : Nat) (cmd : Cmd) (hnc : crH cmd = none) : specCmdRef (some k) cmd = specCmd k cmd := by
  cases cmd <;> first | rfl | (simp [crH] at hnc)

theorem count_map_some (l : List SCb) (t : SCb) : (l.map some).count (some t) = l.count t := by
  induction l with
  | nil => rfl
  | cons a r ih =>
    simp only [List.map_cons, List.count_cons, ih]
    by_cases h : a = t
    · simp [h]
    · have : (some a == some t) = false := by simpa using h
      simp [h, this]

/-- from the counted form to the oracle's form -/
theorem cbsAgreeNet_of {iss : List Handle} {cbs : List Cb} {mc scbs : List SCb} (hm : cbs.map (cbAbs iss) = mc.map some)
    (hn : NetAgree mc scbs) : cbsAgreeNet iss cbs scbs := by
  refine ⟨?_, ?_⟩
  · intro cb hcb
    have : cbAbs iss cb ∈ cbs.map (cbAbs iss) := List.mem_map_of_mem hcb
    rw [hm] at this
    rcases List.mem_map.mp this with ⟨t, _, ht⟩
    rw [← ht]; rfl
  · intro comp o
    simp only
    rw [hm, count_map_some, count_map_some]
    have := hn comp o
    omega

theorem cbsAgreeNet_append {iss : List Handle} {a b : List Cb} {x y : List SCb} (h1 : cbsAgreeNet iss a x)
    (h2 : cbsAgreeNet iss b y) : cbsAgreeNet iss (a ++ b) (x ++ y) := by
  refine ⟨?_, ?_⟩
  · intro cb hcb
    rcases List.mem_append.mp hcb with h | h
    · exact h1.1 cb h
    · exact h2.1 cb h
  · intro comp o
    have := h1.2 comp o
    have := h2.2 comp o
    simp only [List.map_append, List.count_append] at *
    omega

theorem cbsAgreeNet_nil (iss : List Handle) : cbsAgreeNet iss [] [] := by
  refine ⟨?_, ?_⟩
  · intro cb h; cases h
  · intro comp o; simp

/-- spec commands through a reference that names no alive entity do nothing -/
theorem specFold_skip (S : WS) (o : Option Nat) (hdead : S.isAlive o = false) :
    ∀ (body : List Cmd) (scbs : List SCb), (∀ c ∈ body, crH c = none) →
      specFold info (S, scbs) (body.map (specCmdRef o)) = (S, scbs)
  | [], _, _ => rfl
  | c :: rest, scbs, hall => by
    have hnc := hall c (by simp)
    have hstep : S.applyCmd info (specCmdRef o c) = (S, []) := by
      cases o with
      | none =>
        cases c with
        | create e m sh => simp [crH] at hnc
        | destroyNow e => rfl
        | destroy e => rfl
        | remove e c' => rfl
        | assign e c' v => rfl
      | some k =>
        have hal : S.alive k = none := by
          simp only [WS.isAlive] at hdead
          cases h : S.alive k with
          | none => rfl
          | some x => rw [h] at hdead; cases hdead
        cases c with
        | create e m sh => simp [crH] at hnc
        | destroyNow e => simp only [specCmdRef, WS.applyCmd, WS.doDestroy, hal]
        | destroy e => simp only [specCmdRef, WS.applyCmd, hal, Option.isSome_none, Bool.false_eq_true, if_false]
        | remove e c' => simp only [specCmdRef, WS.applyCmd, WS.doRemove, hal]
        | assign e c' v => simp only [specCmdRef, WS.applyCmd, WS.doAssign, hal]
    simp only [List.map_cons, specFold_cons, hstep, List.append_nil]
    exact specFold_skip S o hdead rest scbs (fun c' hc' => hall c' (by simp [hc']))

/-- the initial spec-side invariant of a pack on the existing entity with record `ent` -/
theorem pinv_init_existing {deps : List (CompId × Mask)} {k : Nat} {ent : SEnt} {pm : Mask} {pvals : List Val}
    (hc : ent.comps = pm.zip pvals) (hl : pvals.length = pm.length) (hpm : MaskOk pm) :
    PInv info deps ent.comps pm k { final := pm } ent [] := by
  have hmap : pm.zip pvals = pm.map (fun x => (x, pvals.getD (pm.idxOf x) none)) := zip_eq_map (maskOk_nodup hpm) hl
  refine
  { comps := ?_, sorted := hpm, closedF := Or.inl rfl, srcSub := fun q hq => (by cases hq), srcNodup := List.nodup_nil
    gone := ?_, srcRepl := fun q hq => (by cases hq), net := fun x _ => (by simp), repl := fun x hx => (by cases hx)
    nocb := fun _ _ _ _ => (by simp), other := fun _ _ _ _ => (by simp), alive := rfl }
  · show ent.comps = pm.map _
    rw [hc, hmap]
    apply List.map_congr_left
    intro x hx
    unfold pform
    simp only [List.find?_nil]
    rw [find_map_key, if_pos hx]
    rfl
  · intro q hq hnf
    exfalso
    apply hnf
    rw [hc] at hq
    exact (List.of_mem_zip hq).1

theorem valid_not_pending {c : CW} (hi : Inv c) (hb : Bounds c) {e : Handle} (hv : c.w.isValid e = true) :
    e ∉ createHandles c.w.buffers := by
  rcases hi.tinv with ⟨g, tinv, _, hpend⟩
  intro hc
  have hp := (hpend e).mpr hc
  have hl := (valid_iff_ghost tinv (Nat.le_of_lt hb.inRange) e).mp hv
  exact tinv.pend_not_live e hp hl

end Mustache.Proofs.Refine

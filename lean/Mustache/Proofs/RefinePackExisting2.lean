import Mustache.Proofs.RefinePackExisting
/-!
# Refinement, stage (e): a pack on an existing entity — skipped and killed
-/
namespace Mustache.Proofs.Refine
open Mustache.Model Mustache.Spec
open Mustache.Proofs.IdTable (tabOf Ghost TInv)
open Mustache.Proofs.Rows

variable (info : CompId → CompInfo)

/-- the conclusion of the refinement of one pack -/
def PackRefines (w : WM) (iss : List Handle) (s : WS) (pack : List Cmd) (sp : List SCmd) : Prop :=
  Inv ⟨(w.applyPack info pack).1, iss⟩ ∧
  Rel ⟨(w.applyPack info pack).1, iss⟩ (specFold info (s, []) sp).1 ∧
  cbsAgreeNet iss (w.applyPack info pack).2 (specFold info (s, []) sp).2

/-- a pack whose target is not alive: skipped on both sides -/
theorem pack_skipped {w : WM} {iss : List Handle} {s : WS} (hi : Inv ⟨w, iss⟩) (hb : Bounds ⟨w, iss⟩) (hr : Rel ⟨w, iss⟩ s)
    (first : Cmd) (rest : List Cmd) (hfc : isCreateCmd first = false) (hall : ∀ c ∈ first :: rest, crH c = none)
    (hinv : w.isValid first.entity = false) :
    w.applyPack info (first :: rest) = (w, []) ∧
    specFold info (s, []) ((first :: rest).map (specCmdRef (ordOf iss first.entity))) = (s, []) := by
  refine ⟨?_, ?_⟩
  · rw [applyPack_eq, packStart_other w first hfc]
    simp only [hinv, Bool.not_false, if_true]
  · apply specFold_skip info s _ _ _ _ hall
    rw [← valid_refines (c := ⟨w, iss⟩) hi hb hr first.entity]
    exact hinv

/-- both sides of a pack on the valid entity `e` (row `prow` of archetype `pi`), before the case analysis -/
theorem pack_existing_setup {w : WM} {iss : List Handle} {s : WS} (hi : Inv ⟨w, iss⟩) (hr : Rel ⟨w, iss⟩ s)
    (first : Cmd) (rest : List Cmd) (hfc : isCreateCmd first = false)
    (hall : ∀ c ∈ first :: rest, c.entity = first.entity ∧ crH c = none)
    {k pi i : Nat} {prow : Row} {ent : SEnt} (hv : w.isValid first.entity = true)
    (hk : iss[k]? = some first.entity) (hrow : (w.arch pi).rows[i]? = some prow)
    (hloc : w.locOf first.entity = ⟨some pi, i⟩) (hal : s.alive k = some ent)
    (hrel : entRel ent ⟨(w.arch pi).mask.zip prow.vals, absShared w.pool (w.arch pi).shared⟩) :
    (w.applyPack info (first :: rest) =
      packFinish info first.entity false (w.arch pi).mask (w.arch pi).shared
        ((bodyState info first.entity false w ((first :: rest).foldl bodyFlags (false, false))).1,
         (first :: rest).foldl (pst w.deps) { final := (w.arch pi).mask },
         (bodyState info first.entity false w ((first :: rest).foldl bodyFlags (false, false))).2)) ∧
    ((first :: rest).foldl (pst w.deps) { final := (w.arch pi).mask }).dead =
      ((first :: rest).foldl bodyFlags (false, false)).1 ∧
    SpecPackInv info w.deps ent.comps (w.arch pi).mask k ent.shared
      ((first :: rest).foldl (pst w.deps) { final := (w.arch pi).mask })
      (specFold info (s, []) ((first :: rest).map (specCmdRef (some k)))).1
      (specFold info (s, []) ((first :: rest).map (specCmdRef (some k)))).2 ∧
    FrameK s (specFold info (s, []) ((first :: rest).map (specCmdRef (some k)))).1 k ∧
    (specFold info (s, []) ((first :: rest).map (specCmdRef (some k)))).1.marked =
      (if ((first :: rest).foldl bodyFlags (false, false)).2 then insertNat s.marked k else s.marked) := by
  have hpi : pi < w.archs.length := lt_of_row hrow
  have hpm : MaskOk (w.arch pi).mask := hi.keys.masks pi hpi
  have hplen : prow.vals.length = (w.arch pi).mask.length := hi.rows.vals pi i prow hrow
  have hklt : k < s.ents.length := by rw [hr.len]; exact (List.getElem?_eq_some_iff.mp hk).1
  have hstart : packStart w first = some (w, (w.arch pi).mask, (w.arch pi).shared) := by
    rw [packStart_other w first hfc]
    simp only [hv, Bool.not_true, Bool.false_eq_true, if_false, hloc]
  have hbf := bodyFold info first.entity false w (first :: rest) (false, false) { final := (w.arch pi).mask } rfl hall
  rw [bodyState_init] at hbf
  refine ⟨?_, hbf.2, ?_⟩
  · rw [applyPack_eq, hstart]
    simp only [hfc, Bool.false_eq_true, if_false, packInit_existing]
    rw [hbf.1]
  · have hp0 := pinv_init_existing info (deps := w.deps) (k := k) hrel.1 hplen hpm
    have hsp0 : SpecPackInv info w.deps ent.comps (w.arch pi).mask k ent.shared { final := (w.arch pi).mask } s [] := by
      unfold SpecPackInv
      simp only [Bool.false_eq_true, if_false]
      exact ⟨ent, hal, rfl, hp0⟩
    have hmap : (first :: rest).map (specCmdRef (some k)) = (first :: rest).map (specCmd k) := by
      apply List.map_congr_left
      intro c hc
      exact specCmdRef_some k c (hall c hc).2
    rw [hmap]
    exact spec_body_fold info hi.depsB s.marked (first :: rest) (false, false) _ s [] rfl hsp0 hklt hr.deps rfl
      (fun c hc => (hall c hc).2)

theorem setMarked_self (W : WM) (m : List Handle) (h : W.marked = m) : { W with marked := m } = W := by
  subst h; rfl

/-- transfer of `Rel` from `s.setEnt k x` (possibly with `k` marked) to a spec state that agrees with it -/
theorem rel_to_frame {c : CW} {s S' : WS} {k : Nat} {x : Option SEnt} {mk : Bool} (hk : k < s.ents.length)
    (hr : Rel c (if mk then { s.setEnt k x with marked := insertNat s.marked k } else s.setEnt k x))
    (hfr : FrameK s S' k) (hal : S'.alive k = x)
    (hm : S'.marked = (if mk then insertNat s.marked k else s.marked)) : Rel c S' := by
  have hlen : S'.ents.length = (s.setEnt k x).ents.length := by
    rw [hfr.len]; simp [WS.setEnt]
  have halive : ∀ o, S'.alive o = (s.setEnt k x).alive o := by
    intro o
    rw [setEnt_alive]
    by_cases ho : o = k
    · subst ho; rw [if_pos ⟨rfl, hk⟩]; exact hal
    · rw [if_neg (fun h => ho h.1)]; exact hfr.others o ho
  cases mk with
  | false =>
    simp only [Bool.false_eq_true, if_false] at hr hm
    exact rel_of_frame hr hlen halive hfr.deps hfr.lockDepth hfr.nthreads hfr.buffers hm
  | true =>
    simp only [if_true] at hr hm
    exact rel_of_frame hr hlen halive hfr.deps hfr.lockDepth hfr.nthreads hfr.buffers hm

/-- a pack that destroys its (existing) entity -/
theorem pack_existing_dead {w : WM} {iss : List Handle} {s : WS} (hi : Inv ⟨w, iss⟩) (hb : Bounds ⟨w, iss⟩)
    (hr : Rel ⟨w, iss⟩ s) (first : Cmd) (rest : List Cmd) (hfc : isCreateCmd first = false)
    (hall : ∀ c ∈ first :: rest, c.entity = first.entity ∧ crH c = none)
    {k pi i : Nat} {prow : Row} {ent : SEnt} (hv : w.isValid first.entity = true)
    (hk : iss[k]? = some first.entity) (hrow : (w.arch pi).rows[i]? = some prow) (hent : prow.ent = first.entity)
    (hloc : w.locOf first.entity = ⟨some pi, i⟩) (hal : s.alive k = some ent)
    (hrel : entRel ent ⟨(w.arch pi).mask.zip prow.vals, absShared w.pool (w.arch pi).shared⟩)
    (hdead : ((first :: rest).foldl bodyFlags (false, false)).1 = true) :
    PackRefines info w iss s (first :: rest) ((first :: rest).map (specCmdRef (some k))) := by
  rcases pack_existing_setup info hi hr first rest hfc hall hv hk hrow hloc hal hrel with ⟨happly, hpd, hsp, hfr, hmk⟩
  unfold PackRefines
  generalize hfl : (first :: rest).foldl bodyFlags (false, false) = fl at *
  obtain ⟨dead, mk⟩ := fl
  simp only at hdead hpd
  subst hdead
  generalize hpf : (first :: rest).foldl (pst w.deps) { final := (w.arch pi).mask } = pf at *
  generalize hSdef : specFold info (s, []) ((first :: rest).map (specCmdRef (some k))) = Sr at *
  have hord : ordOf iss first.entity = some k := ordOf_unique (issued_nodup (c := ⟨w, iss⟩) hi) hk
  have hklt : k < s.ents.length := by rw [hr.len]; exact (List.getElem?_eq_some_iff.mp hk).1
  have hpi : pi < w.archs.length := lt_of_row hrow
  -- the model side
  have hfin : w.applyPack info (first :: rest) =
      ((bodyState info first.entity false w (true, mk)).1, (bodyState info first.entity false w (true, mk)).2) := by
    rw [happly, packFinish_eq, hpd]; rfl
  have hDm := destroyNowU_marked info w first.entity
  have hctl := destroyNowU_ctl info w first.entity
  have hcore := destroyNowU_valid_refines info (c := ⟨w, iss⟩) hi hb hr hk hv
  have hbs2 : (bodyState info first.entity false w (true, mk)).2 = (w.destroyNowU info first.entity).2 := rfl
  -- the spec side
  unfold SpecPackInv at hsp
  rw [if_pos hpd] at hsp
  rw [hfin]
  have hcb : cbsAgreeNet iss (w.destroyNowU info first.entity).2 Sr.2 := by
    apply cbsAgreeNet_of (mc := ((w.arch pi).mask.filter (fun c => (info c).callbacks && !([] : Mask).contains c)).map
      (fun x => ((false, x, k) : SCb)))
    · rw [destroyNowU_cbs info hv hloc hrow, hent, cbAbs_remove_map hord]
    · exact pack_agree_dead info hsp.2 (maskOk_nodup (hi.keys.masks pi hpi))
  cases mk with
  | false =>
    have hW : (bodyState info first.entity false w (true, false)).1 = (w.destroyNowU info first.entity).1 := by
      show ({ (w.destroyNowU info first.entity).1 with marked := w.marked } : WM) = _
      exact setMarked_self _ _ hDm
    rw [hW, hbs2]
    refine ⟨hcore.1, ?_, hcb⟩
    exact rel_to_frame (mk := false) hklt hcore.2 hfr hsp.1 hmk
  | true =>
    have hW : (bodyState info first.entity false w (true, true)).1 =
        { (w.destroyNowU info first.entity).1 with
          marked := insertSorted (w.destroyNowU info first.entity).1.marked first.entity } := by
      show ({ (w.destroyNowU info first.entity).1 with marked := insertSorted w.marked first.entity } : WM) = _
      rw [hDm]
    rw [hW, hbs2]
    have hrg : HRange (w.destroyNowU info first.entity).1.worldId first.entity := by
      rw [hctl.worldId]; exact valid_range (c := ⟨w, iss⟩) hb hv
    have hnp : first.entity ∉ createHandles (w.destroyNowU info first.entity).1.buffers := by
      rw [hctl.buffers]; exact valid_not_pending (c := ⟨w, iss⟩) hi hb hv
    have hm1 := mark_refines hcore.1 hcore.2 hk hrg hnp
    have hm2 := mark_rel_always hcore.1 hcore.2 hk hrg hnp
    refine ⟨hm1.1, ?_, hcb⟩
    exact rel_to_frame (mk := true) hklt hm2 hfr hsp.1 hmk

end Mustache.Proofs.Refine

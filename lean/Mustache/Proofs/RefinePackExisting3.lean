import Mustache.Proofs.RefinePackExisting2
/-!
# Refinement, stage (e): a pack on an existing entity that stays alive — the move and its callbacks
-/
namespace Mustache.Proofs.Refine
open Mustache.Model Mustache.Spec
open Mustache.Proofs.IdTable (tabOf Ghost TInv)
open Mustache.Proofs.Rows

variable (info : CompId → CompInfo)

/-- the callbacks of the two loops, as spec events -/
theorem loopCbs_abs {iss : List Handle} {e : Handle} {k : Nat} (hord : ordOf iss e = some k) (tm : Mask) (isCreate : Bool)
    (initial : Mask) (p : PackSt) :
    (loopCbs info tm e isCreate initial p).map (cbAbs iss) =
      ((packStale isCreate initial p (Mask.ofList (p.src.map (·.1))) tm).flatMap (fun c =>
        (if (info c).callbacks then [((false, c, k) : SCb)] else []) ++
          (if (Mask.ofList (p.src.map (·.1))).contains c then [] else if (info c).callbacks then [((true, c, k) : SCb)] else [])) ++
      p.src.flatMap (fun cv => if (info cv.1).callbacks then [((true, cv.1, k) : SCb)] else [])).map some := by
  unfold loopCbs
  rw [List.map_append, List.map_append, List.map_flatMap, List.map_flatMap, List.map_flatMap, List.map_flatMap]
  congr 1
  · apply flatMap_congr'
    intro c _
    unfold staleCbs
    by_cases hcb : (info c).callbacks = true
    · by_cases hs : c ∈ Mask.ofList (p.src.map (·.1))
      · simp [hcb, hs, cbAbs, hord]
      · simp [hcb, hs, cbAbs, hord]
    · simp [hcb]
  · apply flatMap_congr'
    intro cv _
    by_cases hcb : (info cv.1).callbacks = true
    · simp [hcb, cbAbs, hord]
    · simp [hcb]

theorem Moved.rfl' {w : WM} (hok : RowsOK w) {e : Handle} {pi i : Nat} {prow : Row} (hloc : w.locOf e = ⟨some pi, i⟩)
    (hrow : (w.arch pi).rows[i]? = some prow) (hent : prow.ent = e) : Moved w w e pi prow.vals := by
  refine ⟨Step.refl hok _, SameTable.refl w, ⟨i, hloc, ?_⟩⟩
  rw [hrow]
  cases prow
  simp only at hent
  subst hent
  rfl

end Mustache.Proofs.Refine

import Mustache.Proofs.RefinePackExisting2
/-!
# Refinement, stage (e): a pack on an existing entity that stays alive — the move and its callbacks
-/
namespace Mustache.Proofs.Refine
open Mustache.Model Mustache.Spec
open Mustache.Proofs.IdTable (tabOf Ghost TInv)
open Mustache.Proofs.Rows

variable (info : CompId → CompInfo)

/-- the callbacks of the two loops, as spec events -/
theorem loopCbs_abs {iss : List Handle} {e : Handle} {k : Nat} (hord : ordOf iss e = some k) (tm : Mask) (isCreate : Bool)
    (initial : Mask) (p : PackSt) :
    (loopCbs info tm e isCreate initial p).map (cbAbs iss) =
      ((packStale isCreate initial p (Mask.ofList (p.src.map (·.1))) tm).flatMap (fun c =>
        (if (info c).callbacks then [((false, c, k) : SCb)] else []) ++
          (if (Mask.ofList (p.src.map (·.1))).contains c then [] else if (info c).callbacks then [((true, c, k) : SCb)] else [])) ++
      p.src.flatMap (fun cv => if (info cv.1).callbacks then [((true, cv.1, k) : SCb)] else [])).map some := by
  unfold loopCbs
  rw [List.map_append, List.map_append, List.map_flatMap, List.map_flatMap, List.map_flatMap, List.map_flatMap]
  congr 1
  · apply flatMap_congr'
    intro c _
    unfold staleCbs
    by_cases hcb : (info c).callbacks = true
    · by_cases hs : c ∈ Mask.ofList (p.src.map (·.1))
      · simp [hcb, hs, cbAbs, hord]
      · simp [hcb, hs, cbAbs, hord]
    · simp [hcb]
  · apply flatMap_congr'
    intro cv _
    by_cases hcb : (info cv.1).callbacks = true
    · simp [hcb, cbAbs, hord]
    · simp [hcb]

theorem Moved.rfl' {w : WM} (hok : RowsOK w) {e : Handle} {pi i : Nat} {prow : Row} (hloc : w.locOf e = ⟨some pi, i⟩)
    (hrow : (w.arch pi).rows[i]? = some prow) (hent : prow.ent = e) : Moved w w e pi prow.vals := by
  refine ⟨Step.refl hok _, SameTable.refl w, ⟨i, hloc, ?_⟩⟩
  rw [hrow]
  cases prow
  simp only at hent
  subst hent
  rfl

/-- the descriptors of the state the pack's target lives in are pooled -/
theorem allKeys_packTarget {w : WM} {iss : List Handle} (hi : Inv ⟨w, iss⟩) (e : Handle) (isCreate : Bool)
    (initial : Mask) (sh : Shared) (hshin : SharedIn w.pool sh) (p : PackSt) :
    AllKeys (fun _ s => SharedIn w.pool s) (packTarget e isCreate initial sh w p).1 := by
  rcases packTarget_cases e isCreate initial sh w p with ⟨_, _, pi, _, ht⟩ | ht
  · rw [ht]; exact hi.shared
  · rw [ht]; exact AllKeys.getArch (P := fun _ s => SharedIn w.pool s) (w := w) hi.shared p.final sh hshin

/-- the single move of a pack on an existing entity; the target is the entity's own archetype when the component set
did not change (the archetype may predate a dependency declaration: no lookup), else the archetype of the final
(closed) set -/
theorem packMoved_existing {w : WM} {iss : List Handle} (hi : Inv ⟨w, iss⟩) {e : Handle} {k pi i : Nat} {prow : Row}
    (hrow : (w.arch pi).rows[i]? = some prow) (hent : prow.ent = e)
    (hloc : w.locOf e = ⟨some pi, i⟩) (hord : ordOf iss e = some k) (pf : PackSt) (hfok : MaskOk pf.final)
    (hfcl0 : pf.final = (w.arch pi).mask ∨ ClosedUnder w.deps pf.final) :
    ∃ vals1,
      Moved w (packMoved info e false (w.arch pi).mask (w.arch pi).shared w pf).1 e
        (packTarget e false (w.arch pi).mask (w.arch pi).shared w pf).2 vals1 ∧
      KeysSame (packTarget e false (w.arch pi).mask (w.arch pi).shared w pf).1
        (packMoved info e false (w.arch pi).mask (w.arch pi).shared w pf).1 ∧
      ((packMoved info e false (w.arch pi).mask (w.arch pi).shared w pf).1.arch
        (packTarget e false (w.arch pi).mask (w.arch pi).shared w pf).2).mask = pf.final ∧
      ((packMoved info e false (w.arch pi).mask (w.arch pi).shared w pf).1.arch
        (packTarget e false (w.arch pi).mask (w.arch pi).shared w pf).2).shared.data = (w.arch pi).shared.data ∧
      vals1.length = pf.final.length ∧
      (∀ x ∈ pf.final, x ∉ Mask.ofList (pf.src.map (·.1)) → vals1.getD (pf.final.idxOf x) none =
        if x ∈ (w.arch pi).mask then prow.vals.getD ((w.arch pi).mask.idxOf x) none else defaultVal info x) ∧
      (packMoved info e false (w.arch pi).mask (w.arch pi).shared w pf).2.map (cbAbs iss) =
        ((pf.final.filter (fun c => !(w.arch pi).mask.contains c && (info c).callbacks &&
            !(Mask.ofList (pf.src.map (·.1))).contains c)).map (fun x => ((true, x, k) : SCb)) ++
         ((w.arch pi).mask.filter (fun c => (info c).callbacks && !pf.final.contains c)).map
            (fun x => ((false, x, k) : SCb))).map some := by
  have hpi : pi < w.archs.length := lt_of_row hrow
  have hpm : MaskOk (w.arch pi).mask := hi.keys.masks pi hpi
  have hplen : prow.vals.length = (w.arch pi).mask.length := hi.rows.vals pi i prow hrow
  have hla : (w.locOf e).arch = some pi := by rw [hloc]
  by_cases hfin : pf.final = (w.arch pi).mask
  · -- the set did not change: the entity stays where it is
    have hT := packTarget_stay e (w.arch pi).mask (w.arch pi).shared w pf pi hfin.symm hla
    rw [packMoved_stay info e _ _ w pf pi hla hT, hT]
    refine ⟨prow.vals, Moved.rfl' hi.rows hloc hrow hent, KeysSame.refl w, hfin.symm, rfl, by rw [hfin]; exact hplen, ?_, ?_⟩
    · intro x hx _
      rw [hfin] at hx ⊢
      rw [if_pos hx]
    · rw [hfin]
      have h1 : (w.arch pi).mask.filter (fun c => !(w.arch pi).mask.contains c && (info c).callbacks &&
          !(Mask.ofList (pf.src.map (·.1))).contains c) = [] := by
        rw [List.filter_eq_nil_iff]; intro x hx; simp [hx]
      have h2 : (w.arch pi).mask.filter (fun c => (info c).callbacks && !(w.arch pi).mask.contains c) = [] := by
        rw [List.filter_eq_nil_iff]; intro x hx; simp [hx]
      rw [h1, h2]; rfl
  have hfcl : ClosedUnder w.deps pf.final := hfcl0.resolve_left hfin
  have hT : packTarget e false (w.arch pi).mask (w.arch pi).shared w pf = w.getArch pf.final (w.arch pi).shared :=
    packTarget_ne e false _ _ w pf (fun h => hfin h.symm)
  rw [hT]
  have hcm : closedMask w.deps pf.final = pf.final := closedMask_eq_self hfok hfcl
  have hgloc : (w.getArch pf.final (w.arch pi).shared).1.locOf e = ⟨some pi, i⟩ := by
    unfold WM.locOf; rw [Mustache.Proofs.Rows.getArch_locs]; exact hloc
  have hkey := getArch_key w pf.final (w.arch pi).shared
  rw [hcm] at hkey
  rcases getArch_move info hi.rows pf.final (w.arch pi).shared e pi i (Mask.ofList (pf.src.map (·.1))) prow hrow hent
    (fun _ => hfok) with ⟨hti, hnone⟩ | ⟨hti, w2, cbs1, hsome, hm, hmask, hshd⟩
  · -- no move: the entity's own archetype
    have hw1 : (w.getArch pf.final (w.arch pi).shared).1 = w := by
      rcases Mustache.Proofs.Rows.getArch_cases w pf.final (w.arch pi).shared with ⟨h, _⟩ | ⟨_, h, _⟩
      · exact h
      · rw [hti] at h; omega
    have hfin : pf.final = (w.arch pi).mask := by
      have := hkey.1; rw [hti, hw1] at this; exact this.symm
    have hpk : packMoved info e false (w.arch pi).mask (w.arch pi).shared w pf = (w, []) := by
      unfold packMoved
      simp only [hT, Bool.false_eq_true, if_false, hgloc]
      simp only [hti, decide_true, Bool.true_or, if_true, hw1]
    rw [hpk, hti, hw1]
    refine ⟨prow.vals, Moved.rfl' hi.rows hloc hrow hent, KeysSame.refl w, hfin.symm, rfl, by rw [hfin]; exact hplen, ?_, ?_⟩
    · intro x hx _
      rw [hfin] at hx ⊢
      rw [if_pos hx]
    · rw [hfin]
      have h1 : (w.arch pi).mask.filter (fun c => !(w.arch pi).mask.contains c && (info c).callbacks &&
          !(Mask.ofList (pf.src.map (·.1))).contains c) = [] := by
        rw [List.filter_eq_nil_iff]; intro x hx; simp [hx]
      have h2 : (w.arch pi).mask.filter (fun c => (info c).callbacks && !(w.arch pi).mask.contains c) = [] := by
        rw [List.filter_eq_nil_iff]; intro x hx; simp [hx]
      rw [h1, h2]; rfl
  · -- the entity moves
    rw [hcm] at hm hmask
    have hne : pf.final ≠ (w.arch pi).mask := by
      intro heq
      have hk1 : KeysOK (w.getArch pf.final (w.arch pi).shared).1 := keysOK_getArch hi.keys pf.final _ hfok
      have hpi1 : pi < (w.getArch pf.final (w.arch pi).shared).1.archs.length :=
        Nat.lt_of_lt_of_le hpi (getArch_length_le w pf.final _)
      have ha : (w.getArch pf.final (w.arch pi).shared).1.arch pi = w.arch pi := getArch_arch_lt w _ _ pi hpi
      exact hti (hk1.distinct _ pi (getArch_idx_lt w pf.final _) hpi1 (by rw [hkey.1, ha, heq]) (by rw [hkey.2, ha]))
    have hcond : (decide (pi = (w.getArch pf.final (w.arch pi).shared).2) || (w.arch pi).mask == pf.final) = false := by
      have h1 : ¬ pi = (w.getArch pf.final (w.arch pi).shared).2 := fun h => hti h.symm
      have h2 : ((w.arch pi).mask == pf.final) = false := by simpa using (Ne.symm hne)
      simp [h1, h2]
    have hpk : packMoved info e false (w.arch pi).mask (w.arch pi).shared w pf = (w2, cbs1) := by
      unfold packMoved
      simp only [hT, Bool.false_eq_true, if_false, hgloc, hcond, hsome]
    rw [hpk]
    have hks : KeysSame (w.getArch pf.final (w.arch pi).shared).1 w2 :=
      externalMove_keysSame info _ _ e pi i _ (w2, cbs1) hsome (getArch_idx_lt w pf.final _)
    refine ⟨_, hm, hks, hmask, hshd, carry_length info _ _ _ _, ?_, ?_⟩
    · intro x hx hns
      rw [carry_get info _ _ _ _ x hx]
      by_cases hxp : x ∈ (w.arch pi).mask
      · rw [if_pos hxp, carried_of_mem info _ _ _ x hxp]
      · rw [if_neg hxp, carried_of_not_mem info _ _ _ x hxp, contains_false_iff.mpr hns]; rfl
    · have hw1pi : (w.getArch pf.final (w.arch pi).shared).1.arch pi = w.arch pi := getArch_arch_lt w _ _ pi hpi
      have hcbs : cbs1 = moveCbs info (w.getArch pf.final (w.arch pi).shared).1 (w.getArch pf.final (w.arch pi).shared).2 e pi
            (Mask.ofList (pf.src.map (·.1))) ++
          ((w.getArch pf.final (w.arch pi).shared).1.archRemove info pi i
            ((w.getArch pf.final (w.arch pi).shared).1.arch (w.getArch pf.final (w.arch pi).shared).2).mask).2 := by
        have := externalMove_eq2 info (w.getArch pf.final (w.arch pi).shared).1 (w.getArch pf.final (w.arch pi).shared).2 e pi i
          (Mask.ofList (pf.src.map (·.1))) hti
        rw [hsome] at this
        exact (Prod.mk.inj (Option.some.inj this)).2
      have hrow1 : ((w.getArch pf.final (w.arch pi).shared).1.arch pi).rows[i]? = some prow := by rw [hw1pi]; exact hrow
      rw [hcbs, archRemove_cbs info _ pi i _ prow hrow1, moveCbs, hw1pi, hkey.1, hent, List.map_append, List.map_append,
        cbAbs_assign_map hord, cbAbs_remove_map hord]

end Mustache.Proofs.Refine

import Mustache.Proofs.RefinePackExisting3
/-!
# Refinement, stage (e): a pack on an existing entity that stays alive
-/
namespace Mustache.Proofs.Refine
open Mustache.Model Mustache.Spec
open Mustache.Proofs.IdTable (tabOf Ghost TInv)
open Mustache.Proofs.Rows

variable (info : CompId → CompInfo)

theorem pack_existing_alive {w : WM} {iss : List Handle} {s : WS} (hi : Inv ⟨w, iss⟩) (hb : Bounds ⟨w, iss⟩)
    (hr : Rel ⟨w, iss⟩ s) (first : Cmd) (rest : List Cmd) (hfc : isCreateCmd first = false)
    (hall : ∀ c ∈ first :: rest, c.entity = first.entity ∧ crH c = none)
    {k pi i : Nat} {prow : Row} {ent : SEnt} (hv : w.isValid first.entity = true)
    (hk : iss[k]? = some first.entity) (hrow : (w.arch pi).rows[i]? = some prow) (hent : prow.ent = first.entity)
    (hloc : w.locOf first.entity = ⟨some pi, i⟩) (hal : s.alive k = some ent)
    (hrel : entRel ent ⟨(w.arch pi).mask.zip prow.vals, absShared w.pool (w.arch pi).shared⟩)
    (halive : ((first :: rest).foldl bodyFlags (false, false)).1 = false) :
    PackRefines info w iss s (first :: rest) ((first :: rest).map (specCmdRef (some k))) := by
  rcases pack_existing_setup info hi hr first rest hfc hall hv hk hrow hloc hal hrel with ⟨happly, hpd, hsp, hfr, hmk⟩
  unfold PackRefines
  generalize hfl : (first :: rest).foldl bodyFlags (false, false) = fl at *
  obtain ⟨dead, mk⟩ := fl
  simp only at halive hpd
  subst halive
  generalize hpf : (first :: rest).foldl (pst w.deps) { final := (w.arch pi).mask } = pf at *
  generalize hSdef : specFold info (s, []) ((first :: rest).map (specCmdRef (some k))) = Sr at *
  have hord : ordOf iss first.entity = some k := ordOf_unique (issued_nodup (c := ⟨w, iss⟩) hi) hk
  have hklt : k < s.ents.length := by rw [hr.len]; exact (List.getElem?_eq_some_iff.mp hk).1
  have hpi : pi < w.archs.length := lt_of_row hrow
  have hpm : MaskOk (w.arch pi).mask := hi.keys.masks pi hpi
  have hplen : prow.vals.length = (w.arch pi).mask.length := hi.rows.vals pi i prow hrow
  -- the spec side
  unfold SpecPackInv at hsp
  rw [if_neg (by rw [hpd]; simp)] at hsp
  rcases hsp with ⟨entn, haln, hshn, hpinv⟩
  -- the model side: the marks commute with the finish
  have hfinish : w.applyPack info (first :: rest) =
      ({ (packFinish info first.entity false (w.arch pi).mask (w.arch pi).shared (w, pf, [])).1 with
          marked := if mk then insertSorted w.marked first.entity else w.marked },
        (packFinish info first.entity false (w.arch pi).mask (w.arch pi).shared (w, pf, [])).2) := by
    rw [happly]
    have hbs : bodyState info first.entity false w (false, mk) =
        (setCtl w w.lockDepth w.buffers (if mk then insertSorted w.marked first.entity else w.marked), []) := rfl
    rw [hbs, setCtl_packFinish]
    have hctl := packFinish_ctl info first.entity false (w.arch pi).mask (w.arch pi).shared (w, pf, [])
    rw [setMarked_setCtl _ _ _ _ hctl.lockDepth hctl.buffers]
  -- the finish itself
  have hfin0 : packFinish info first.entity false (w.arch pi).mask (w.arch pi).shared (w, pf, []) =
      packLoops info first.entity false (w.arch pi).mask pf
        (packTarget first.entity false (w.arch pi).mask (w.arch pi).shared w pf).2
        (packMoved info first.entity false (w.arch pi).mask (w.arch pi).shared w pf).1
        (packMoved info first.entity false (w.arch pi).mask (w.arch pi).shared w pf).2 [] := by
    rw [packFinish_eq, hpd]; rfl
  rcases packMoved_existing info hi hrow hent hloc hord pf hpinv.sorted hpinv.closedF with
    ⟨vals1, hm1, hks1, hmask1, hdata1, hlen1, hv1, hcb1⟩
  rcases packLoops_moved info false (w.arch pi).mask pf hpinv.srcSub hm1 hmask1
    (packMoved info first.entity false (w.arch pi).mask (w.arch pi).shared w pf).2 [] with ⟨hmX, hksX, hcbX⟩
  rw [← hfin0] at hmX hksX hcbX
  generalize hXdef : (packFinish info first.entity false (w.arch pi).mask (w.arch pi).shared (w, pf, [])).1 = X at *
  generalize hCdef : (packFinish info first.entity false (w.arch pi).mask (w.arch pi).shared (w, pf, [])).2 = C at *
  have hshin : SharedIn w.pool (w.arch pi).shared := hi.shared _ (arch_mem hpi)
  have hAK := allKeys_packTarget hi first.entity false (w.arch pi).mask (w.arch pi).shared hshin pf
  generalize htidef : (packTarget first.entity false (w.arch pi).mask (w.arch pi).shared w pf).2 = ti at *
  have hinvX : Inv ⟨X, iss⟩ := moved_inv' hi hv hAK hmX (hks1.trans hksX)
  have hpoolX : X.pool = w.pool := hmX.same.pool
  have htilt : ti < X.archs.length := by rcases hmX.here with ⟨n, _, hr'⟩; exact lt_of_row hr'
  have hshX : SharedIn w.pool (X.arch ti).shared := by
    have := hinvX.shared _ (arch_mem htilt); rw [← hpoolX]; exact this
  have hmaskX : (X.arch ti).mask = pf.final := by rw [(hksX.key ti).1]; exact hmask1
  have hdataX : (X.arch ti).shared.data = (w.arch pi).shared.data := by rw [(hksX.key ti).2]; exact hdata1
  have hcomps : entn.comps = (X.arch ti).mask.zip (loopVals info pf.final false (w.arch pi).mask pf vals1) := by
    rw [hmaskX, hpinv.comps, zip_eq_map (maskOk_nodup hpinv.sorted) (by rw [loopVals, setMany_length, setMany_length]; exact hlen1)]
    apply List.map_congr_left
    intro x hx
    rw [loopVals_existing info pf.final (w.arch pi).mask prow.vals hplen (maskOk_nodup hpinv.sorted) pf rfl hpinv.srcNodup
      vals1 hlen1 hv1 x hx, hrel.1]
  have hrelX : Rel ⟨X, iss⟩ (s.setEnt k (some entn)) :=
    moved_rel (sh := (w.arch pi).shared) hi hr hk hv hshin hmX hshX hdataX entn hcomps
      (fun sid => by rw [hshn]; exact hrel.2 sid)
  have hXm : X.marked = w.marked := hmX.same.marked
  -- callbacks
  have hcb : cbsAgreeNet iss C Sr.2 := by
    apply cbsAgreeNet_of (mc := packCbsS info k pf.final (w.arch pi).mask false (w.arch pi).mask pf)
    · rw [hcbX, List.nil_append, List.map_append, hcb1, loopCbs_abs info hord]
      unfold packCbsS
      simp only [List.map_append, List.append_assoc]
    · exact pack_agree_alive info hpinv false (w.arch pi).mask
        (fun x => by rw [hrel.1, map_fst_zip_eq hplen]) rfl (maskOk_nodup hpm)
  rw [hfinish]
  cases mk with
  | false =>
    simp only [Bool.false_eq_true, if_false]
    rw [setMarked_self X w.marked hXm]
    exact ⟨hinvX, rel_to_frame (mk := false) hklt hrelX hfr haln hmk, hcb⟩
  | true =>
    simp only [if_true]
    rw [← hXm]
    have hvX : X.isValid first.entity = true := (hmX.same.isValid _).trans hv
    have hbX : Bounds ⟨X, iss⟩ := ⟨by show X.slots.length < _; rw [hmX.same.slots]; exact hb.inRange, hb.noWrap⟩
    have hrg : HRange X.worldId first.entity := valid_range (c := ⟨X, iss⟩) hbX hvX
    have hnp : first.entity ∉ createHandles X.buffers := valid_not_pending (c := ⟨X, iss⟩) hinvX hbX hvX
    have hm1' := mark_refines hinvX hrelX hk hrg hnp
    have hm2 := mark_rel_always hinvX hrelX hk hrg hnp
    exact ⟨hm1'.1, rel_to_frame (mk := true) hklt hm2 hfr haln hmk, hcb⟩

end Mustache.Proofs.Refine

import Mustache.Proofs.RefinePackModel
/-!
# Refinement, stage (e): the two value loops at the end of `applyCommandPack`
-/
namespace Mustache.Proofs.Refine
open Mustache.Model Mustache.Spec
open Mustache.Proofs.Rows

variable (info : CompId → CompInfo)

/-- write the values `kvs` into a row with mask `tm` -/
def setMany (tm : Mask) (kvs : List (CompId × Val)) (vals : List Val) : List Val :=
  kvs.foldl (fun vs kv => match tm.indexOf? kv.1 with
    | none => vs
    | some ci => vs.set ci kv.2) vals

theorem setMany_length (tm : Mask) (kvs : List (CompId × Val)) (vals : List Val) :
    (setMany tm kvs vals).length = vals.length := by
  induction kvs generalizing vals with
  | nil => rfl
  | cons p rest ih =>
    simp only [setMany, List.foldl_cons] at ih ⊢
    cases tm.indexOf? p.1 with
    | none => exact ih vals
    | some ci => simp only; rw [ih]; simp

theorem setMany_get (tm : Mask) (kvs : List (CompId × Val)) (hn : (kvs.map (·.1)).Nodup) (vals : List Val)
    (hl : vals.length = tm.length) (x : CompId) (hx : x ∈ tm) :
    (setMany tm kvs vals).getD (tm.idxOf x) none =
      match kvs.find? (·.1 == x) with
      | some p => p.2
      | none => vals.getD (tm.idxOf x) none := by
  induction kvs generalizing vals with
  | nil => rfl
  | cons p rest ih =>
    have hn' : p.1 ∉ rest.map (·.1) ∧ (rest.map (·.1)).Nodup := List.nodup_cons.mp hn
    by_cases hpx : p.1 = x
    · have hb : (p.1 == x) = true := by simpa using hpx
      have hidx : tm.indexOf? p.1 = some (tm.idxOf x) := by rw [hpx]; exact (indexOf?_of_mem hx).1
      simp only [setMany, List.foldl_cons, hidx, List.find?_cons, hb]
      have hnot : rest.find? (·.1 == x) = none := by
        rw [List.find?_eq_none]
        intro q hq hqx
        have : q.1 = x := by simpa using hqx
        exact hn'.1 (List.mem_map.mpr ⟨q, hq, this.trans hpx.symm⟩)
      have := ih hn'.2 (vals.set (tm.idxOf x) p.2) (by simpa using hl)
      simp only [setMany] at this
      rw [this, hnot]
      have hlt : tm.idxOf x < vals.length := by rw [hl]; exact (indexOf?_of_mem hx).2.1
      simp [List.getD_eq_getElem?_getD, hlt]
    · have hb : (p.1 == x) = false := by simpa using hpx
      simp only [List.find?_cons, hb]
      cases hidx : tm.indexOf? p.1 with
      | none =>
        simp only [setMany, List.foldl_cons, hidx]
        exact ih hn'.2 vals hl
      | some ci =>
        simp only [setMany, List.foldl_cons, hidx]
        have := ih hn'.2 (vals.set ci p.2) (by simpa using hl)
        simp only [setMany] at this
        rw [this]
        cases rest.find? (·.1 == x) with
        | some q => rfl
        | none =>
          simp only
          have hpm : p.1 ∈ tm := (indexOf?_some hidx).1
          have hci : ci = tm.idxOf p.1 := (indexOf?_some hidx).2
          have hne : ci ≠ tm.idxOf x := by rw [hci]; exact idxOf_ne hpm hx hpx
          rw [List.getD_eq_getElem?_getD, List.getElem?_set_ne hne, ← List.getD_eq_getElem?_getD]

theorem packSetVal_eq (ti idx : Nat) (W : WM) (c : CompId) (v : Val) :
    packSetVal ti idx W c v =
      match (W.arch ti).mask.indexOf? c with
      | none => W
      | some k => setCell W ti idx k v := by
  unfold packSetVal setCell
  simp only
  cases h : (W.arch ti).mask.indexOf? c <;> rfl

/-- writing values into the row of the moved entity -/
theorem setVals_moved {w : WM} {e : Handle} {ti : Nat} (tm : Mask) (idx : Nat) :
    ∀ (kvs : List (CompId × Val)) (W : WM) (vals : List Val), Moved w W e ti vals → (W.arch ti).mask = tm →
      (W.locOf e).idx = idx →
      Moved w (kvs.foldl (fun W kv => packSetVal ti idx W kv.1 kv.2) W) e ti (setMany tm kvs vals) ∧
      KeysSame W (kvs.foldl (fun W kv => packSetVal ti idx W kv.1 kv.2) W) ∧
      ((kvs.foldl (fun W kv => packSetVal ti idx W kv.1 kv.2) W).locOf e).idx = idx
  | [], W, vals, hm, _, hix => ⟨hm, KeysSame.refl W, hix⟩
  | kv :: rest, W, vals, hm, htm, hix => by
    simp only [List.foldl_cons, setMany]
    rw [packSetVal_eq, htm]
    cases hidx : tm.indexOf? kv.1 with
    | none =>
      simp only
      exact setVals_moved tm idx rest W vals hm htm hix
    | some ci =>
      simp only
      have hm' := hm.setCell ci kv.2
      rw [hix] at hm'
      have htm' : ((setCell W ti idx ci kv.2).arch ti).mask = tm := by
        rw [(setCell_mask W ti ti _ ci _).1]; exact htm
      have hloc' : ((setCell W ti idx ci kv.2).locOf e).idx = idx := by
        unfold WM.locOf; rw [setCell_locs]; exact hix
      have ih := setVals_moved tm idx rest _ _ hm' htm' hloc'
      exact ⟨ih.1, (setCell_keysSame W ti _ ci _).trans ih.2.1, ih.2.2⟩

/-- callbacks of the stale-instance loop for one component -/
def staleCbs (e : Handle) (supplied : Mask) (c : CompId) : List Cb :=
  (if (info c).callbacks then [Cb.remove c e] else []) ++
    (if supplied.contains c then [] else if (info c).callbacks then [Cb.assign c e] else [])

theorem packF2_fold (e : Handle) (supplied : Mask) (ti idx : Nat) :
    ∀ (stale : List CompId) (W : WM) (cbs : List Cb),
      stale.foldl (packF2 info e supplied ti idx) (W, cbs) =
        ((((stale.filter (fun c => !supplied.contains c)).map (fun c => (c, defaultVal info c))).foldl
            (fun W kv => packSetVal ti idx W kv.1 kv.2) W),
         cbs ++ stale.flatMap (staleCbs info e supplied))
  | [], W, cbs => by simp
  | c :: rest, W, cbs => by
    simp only [List.foldl_cons]
    by_cases hs : supplied.contains c = true
    · have h1 : packF2 info e supplied ti idx (W, cbs) c =
          (W, cbs ++ (if (info c).callbacks then [Cb.remove c e] else [])) := by
        unfold packF2; simp only [hs, if_true]
      rw [h1, packF2_fold e supplied ti idx rest]
      simp only [List.filter_cons, hs, Bool.not_true, Bool.false_eq_true, if_false, List.flatMap_cons, staleCbs, if_true,
        List.append_nil, List.append_assoc]
    · have hs' : supplied.contains c = false := by simpa using hs
      have h1 : packF2 info e supplied ti idx (W, cbs) c =
          (packSetVal ti idx W c (defaultVal info c),
            cbs ++ (if (info c).callbacks then [Cb.remove c e] else []) ++
              (if (info c).callbacks then [Cb.assign c e] else [])) := by
        unfold packF2; simp only [hs', Bool.false_eq_true, if_false]
      rw [h1, packF2_fold e supplied ti idx rest]
      simp only [List.filter_cons, hs', Bool.not_false, if_true, List.map_cons, List.foldl_cons, List.flatMap_cons, staleCbs,
        Bool.false_eq_true, if_false, List.append_assoc]

theorem packF3_fold (e : Handle) (tmask : Mask) (ti idx : Nat) :
    ∀ (src : List (CompId × Val)) (W : WM) (cbs : List Cb),
      src.foldl (packF3 info e tmask ti idx) (W, cbs) =
        (((src.filter (fun cv => tmask.contains cv.1)).foldl (fun W kv => packSetVal ti idx W kv.1 kv.2) W),
         cbs ++ (src.filter (fun cv => tmask.contains cv.1)).flatMap
           (fun cv => if (info cv.1).callbacks then [Cb.assign cv.1 e] else []))
  | [], W, cbs => by simp
  | cv :: rest, W, cbs => by
    simp only [List.foldl_cons]
    by_cases hs : tmask.contains cv.1 = true
    · have h1 : packF3 info e tmask ti idx (W, cbs) cv =
          (packSetVal ti idx W cv.1 cv.2, cbs ++ (if (info cv.1).callbacks then [Cb.assign cv.1 e] else [])) := by
        unfold packF3; simp only [hs, if_true]
      rw [h1, packF3_fold e tmask ti idx rest]
      simp only [List.filter_cons, hs, if_true, List.foldl_cons, List.flatMap_cons, List.append_assoc]
    · have h1 : packF3 info e tmask ti idx (W, cbs) cv = (W, cbs) := by
        unfold packF3; simp only [hs, Bool.false_eq_true, if_false]
      rw [h1, packF3_fold e tmask ti idx rest]
      simp only [List.filter_cons, hs, Bool.false_eq_true, if_false]

/-- the values after both loops -/
def loopVals (tm : Mask) (isCreate : Bool) (initial : Mask) (p : PackSt) (vals1 : List Val) : List Val :=
  setMany tm p.src
    (setMany tm (((packStale isCreate initial p (Mask.ofList (p.src.map (·.1))) tm).filter
      (fun c => !(Mask.ofList (p.src.map (·.1))).contains c)).map (fun c => (c, defaultVal info c))) vals1)

/-- the callbacks of both loops -/
def loopCbs (tm : Mask) (e : Handle) (isCreate : Bool) (initial : Mask) (p : PackSt) : List Cb :=
  (packStale isCreate initial p (Mask.ofList (p.src.map (·.1))) tm).flatMap
      (staleCbs info e (Mask.ofList (p.src.map (·.1)))) ++
    p.src.flatMap (fun cv => if (info cv.1).callbacks then [Cb.assign cv.1 e] else [])

theorem packLoops_moved {w : WM} {e : Handle} {ti : Nat} {tm : Mask} (isCreate : Bool) (initial : Mask) (p : PackSt)
    (hsub : ∀ q ∈ p.src, q.1 ∈ tm) {W1 : WM} {vals1 : List Val} (hm : Moved w W1 e ti vals1)
    (htm : (W1.arch ti).mask = tm) (cbs1 cbs : List Cb) :
    Moved w (packLoops info e isCreate initial p ti W1 cbs1 cbs).1 e ti (loopVals info tm isCreate initial p vals1) ∧
    KeysSame W1 (packLoops info e isCreate initial p ti W1 cbs1 cbs).1 ∧
    (packLoops info e isCreate initial p ti W1 cbs1 cbs).2 = cbs ++ cbs1 ++ loopCbs info tm e isCreate initial p := by
  unfold packLoops
  simp only [htm, packF2_fold]
  have h2 := setVals_moved tm (W1.locOf e).idx
    (((packStale isCreate initial p (Mask.ofList (p.src.map (·.1))) tm).filter
      (fun c => !(Mask.ofList (p.src.map (·.1))).contains c)).map (fun c => (c, defaultVal info c))) W1 vals1 hm htm rfl
  generalize hW2 : (((packStale isCreate initial p (Mask.ofList (p.src.map (·.1))) tm).filter
      (fun c => !(Mask.ofList (p.src.map (·.1))).contains c)).map (fun c => (c, defaultVal info c))).foldl
        (fun W kv => packSetVal ti (W1.locOf e).idx W kv.1 kv.2) W1 = W2 at h2 ⊢
  have htm2 : (W2.arch ti).mask = tm := by rw [(h2.2.1.key ti).1]; exact htm
  have hidx2 : (W2.locOf e).idx = (W1.locOf e).idx := h2.2.2
  simp only [htm2, packF3_fold]
  have hfil : p.src.filter (fun cv => tm.contains cv.1) = p.src := by
    rw [List.filter_eq_self]
    intro q hq
    exact (contains_iff tm q.1).mpr (hsub q hq)
  rw [hfil]
  have h3 := setVals_moved tm (W1.locOf e).idx p.src W2 _ h2.1 htm2 hidx2
  refine ⟨h3.1, h2.2.1.trans h3.2.1, ?_⟩
  unfold loopCbs
  simp only [List.nil_append, List.append_assoc]

end Mustache.Proofs.Refine

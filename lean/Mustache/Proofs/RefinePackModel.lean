import Mustache.Proofs.RefinePackSpec2
/-!
# Refinement, stage (e): the command fold of `applyCommandPack` on the model side, in closed form

Along the commands of a pack (all on one entity `e`, no creation) the model state changes in two ways only:
`destroy` inserts `e` into `marked`, the first `destroyNow` destroys `e` (after which nothing happens).
-/
namespace Mustache.Proofs.Refine
open Mustache.Model Mustache.Spec
open Mustache.Proofs.Rows

variable (info : CompId → CompInfo)

/-- (dead, marked) after the commands -/
def bodyFlags : Bool × Bool → Cmd → Bool × Bool
  | (true, mk), _ => (true, mk)
  | (false, mk), .destroyNow _ => (true, mk)
  | (false, _), .destroy _ => (false, true)
  | (false, mk), _ => (false, mk)

theorem insertSorted_idem (l : List Handle) (h : Handle) : insertSorted (insertSorted l h) h = insertSorted l h := by
  induction l with
  | nil => simp [insertSorted]
  | cons a t ih =>
    by_cases h1 : h.value < a.value
    · simp only [insertSorted, h1, if_true, Nat.lt_irrefl, if_false]
    · by_cases h2 : h.value = a.value
      · simp only [insertSorted, h1, h2, if_false, if_true, Nat.lt_irrefl]
      · simp only [insertSorted, h1, h2, if_false, ih]

theorem insertNat_idem (l : List Nat) (k : Nat) : insertNat (insertNat l k) k = insertNat l k := by
  unfold insertNat
  by_cases h : l.contains k = true
  · rw [if_pos h, if_pos h]
  · rw [if_neg h]
    have : (l ++ [k]).contains k = true := by simp
    rw [if_pos this]

theorem setMarked_setCtl (X : WM) (d : Nat) (b : List (List Cmd)) (mk : List Handle) (hd : X.lockDepth = d)
    (hb : X.buffers = b) : setCtl X d b mk = { X with marked := mk } := by
  subst hd; subst hb; rfl

/-- the state the fold of the pack commands reaches: killed or not, marked or not -/
def bodyState (e : Handle) (isCreate : Bool) (w : WM) (fl : Bool × Bool) : WM × List Cb :=
  let base : WM × List Cb :=
    if fl.1 then (if isCreate then (w.release e, []) else w.destroyNowU info e) else (w, [])
  ({ base.1 with marked := if fl.2 then insertSorted w.marked e else w.marked }, base.2)

theorem setMarked_eq (w : WM) (mk : List Handle) : { w with marked := mk } = setCtl w w.lockDepth w.buffers mk := rfl

theorem bodyState_step (e : Handle) (isCreate : Bool) (w : WM) (fl : Bool × Bool) (p : PackSt) (hd : p.dead = fl.1)
    (c : Cmd) (hent : c.entity = e) (hnc : crH c = none) :
    packStep info e isCreate ((bodyState info e isCreate w fl).1, p, (bodyState info e isCreate w fl).2) c =
      ((bodyState info e isCreate w (bodyFlags fl c)).1, pst w.deps p c, (bodyState info e isCreate w (bodyFlags fl c)).2) := by
  obtain ⟨dead, mk⟩ := fl
  simp only at hd
  have hpst := packStep_pst info e isCreate (bodyState info e isCreate w (dead, mk)).1 p
    (bodyState info e isCreate w (dead, mk)).2 c
  have hdeps : (bodyState info e isCreate w (dead, mk)).1.deps = w.deps := by
    unfold bodyState
    simp only
    cases dead with
    | false => rfl
    | true =>
      cases isCreate with
      | true => simp only [if_true]; exact (release_ctl w e).deps
      | false => simp only [if_true, Bool.false_eq_true, if_false]; exact (destroyNowU_ctl info w e).deps
  rw [hdeps] at hpst
  cases dead with
  | true =>
    -- already dead: nothing happens
    have : packStep info e isCreate ((bodyState info e isCreate w (true, mk)).1, p,
        (bodyState info e isCreate w (true, mk)).2) c =
        ((bodyState info e isCreate w (true, mk)).1, p, (bodyState info e isCreate w (true, mk)).2) := by
      unfold packStep; simp only [hd, if_true]
    rw [this, pst_dead _ _ _ hd]
    rfl
  | false =>
    have hd' : p.dead = false := hd
    cases c with
    | create e' m sh => simp [crH] at hnc
    | destroyNow e' =>
      refine Prod.ext ?_ (Prod.ext hpst ?_)
      · unfold packStep bodyState bodyFlags
        simp only [hd', Bool.false_eq_true, if_false, if_true]
        cases isCreate with
        | true =>
          simp only [if_true]
          rw [setMarked_eq, setCtl_release]
          exact setMarked_setCtl _ _ _ _ (release_ctl w e).lockDepth (release_ctl w e).buffers
        | false =>
          simp only [Bool.false_eq_true, if_false]
          rw [setMarked_eq, setCtl_destroyNowU]
          simp only
          exact setMarked_setCtl _ _ _ _ (destroyNowU_ctl info w e).lockDepth (destroyNowU_ctl info w e).buffers
      · unfold packStep bodyState bodyFlags
        simp only [hd', Bool.false_eq_true, if_false, if_true]
        cases isCreate with
        | true => simp only [if_true]
        | false =>
          simp only [Bool.false_eq_true, if_false]
          rw [setMarked_eq, setCtl_destroyNowU]
          simp
    | destroy h =>
      have hh : h = e := hent
      subst hh
      refine Prod.ext ?_ (Prod.ext hpst ?_)
      · unfold packStep bodyState bodyFlags
        simp only [hd', Bool.false_eq_true, if_false, if_true]
        cases mk with
        | true => simp only [if_true, insertSorted_idem]
        | false => simp only [Bool.false_eq_true, if_false]
      · unfold packStep bodyState bodyFlags
        simp only [hd', Bool.false_eq_true, if_false]
    | remove e' c' =>
      refine Prod.ext ?_ (Prod.ext hpst ?_)
      · unfold packStep bodyState bodyFlags
        simp only [hd', Bool.false_eq_true, if_false]
        split
        · split <;> rfl
        · rfl
      · unfold packStep bodyState bodyFlags
        simp only [hd', Bool.false_eq_true, if_false]
        split
        · split <;> rfl
        · rfl
    | assign e' c' v =>
      refine Prod.ext ?_ (Prod.ext hpst ?_)
      · unfold packStep bodyState bodyFlags
        simp only [hd', Bool.false_eq_true, if_false]
        split <;> rfl
      · unfold packStep bodyState bodyFlags
        simp only [hd', Bool.false_eq_true, if_false]
        split <;> rfl

theorem pst_dead_flags (deps : List (CompId × Mask)) (p : PackSt) (fl : Bool × Bool) (hd : p.dead = fl.1) (c : Cmd)
    (hnc : crH c = none) : (pst deps p c).dead = (bodyFlags fl c).1 := by
  obtain ⟨dead, mk⟩ := fl
  simp only at hd
  cases dead with
  | true => rw [pst_dead deps p c hd]; cases c <;> exact hd
  | false =>
    cases c with
    | create e m sh => simp [crH] at hnc
    | destroyNow e => simp [pst, hd, bodyFlags]
    | destroy e => exact hd
    | remove e c' =>
      simp only [pst, hd, Bool.false_eq_true, if_false, bodyFlags]
      split
      · split <;> first | exact hd | rfl
      · exact hd
    | assign e c' v =>
      simp only [pst, hd, Bool.false_eq_true, if_false, bodyFlags]
      split <;> first | exact hd | rfl

/-- the fold of the commands of a pack, in closed form -/
theorem bodyFold (e : Handle) (isCreate : Bool) (w : WM) :
    ∀ (body : List Cmd) (fl : Bool × Bool) (p : PackSt), p.dead = fl.1 → (∀ c ∈ body, c.entity = e ∧ crH c = none) →
      body.foldl (packStep info e isCreate) ((bodyState info e isCreate w fl).1, p, (bodyState info e isCreate w fl).2) =
        ((bodyState info e isCreate w (body.foldl bodyFlags fl)).1, body.foldl (pst w.deps) p,
          (bodyState info e isCreate w (body.foldl bodyFlags fl)).2) ∧
      (body.foldl (pst w.deps) p).dead = (body.foldl bodyFlags fl).1
  | [], fl, p, hd, _ => ⟨rfl, hd⟩
  | c :: rest, fl, p, hd, hall => by
    have hc := hall c (by simp)
    simp only [List.foldl_cons]
    rw [bodyState_step info e isCreate w fl p hd c hc.1 hc.2]
    exact bodyFold e isCreate w rest (bodyFlags fl c) (pst w.deps p c) (pst_dead_flags w.deps p fl hd c hc.2)
      (fun c' hc' => hall c' (by simp [hc']))

theorem bodyState_init (e : Handle) (isCreate : Bool) (w : WM) : bodyState info e isCreate w (false, false) = (w, []) := rfl

/-! ## the spec side over the whole body -/

def specFold (acc : WS × List SCb) (scs : List SCmd) : WS × List SCb :=
  scs.foldl (fun (acc : WS × List SCb) c =>
    let (s', cb) := acc.1.applyCmd info c
    (s', acc.2 ++ cb)) acc

theorem specFold_cons (acc : WS × List SCb) (c : SCmd) (rest : List SCmd) :
    specFold info acc (c :: rest) = specFold info ((acc.1.applyCmd info c).1, acc.2 ++ (acc.1.applyCmd info c).2) rest := rfl

theorem spec_body_fold {deps : List (CompId × Mask)} {ic : List (CompId × Val)} {base : Mask} {k : Nat}
    {shr : List (Nat × Nat)} (hdb : DepsBounded deps) (M0 : List Nat) :
    ∀ (body : List Cmd) (fl : Bool × Bool) (p : PackSt) (S : WS) (scbs : List SCb), p.dead = fl.1 →
      SpecPackInv info deps ic base k shr p S scbs → k < S.ents.length → S.deps = deps →
      S.marked = (if fl.2 then insertNat M0 k else M0) → (∀ c ∈ body, crH c = none) →
      SpecPackInv info deps ic base k shr (body.foldl (pst deps) p) (specFold info (S, scbs) (body.map (specCmd k))).1
        (specFold info (S, scbs) (body.map (specCmd k))).2 ∧
      FrameK S (specFold info (S, scbs) (body.map (specCmd k))).1 k ∧
      (specFold info (S, scbs) (body.map (specCmd k))).1.marked =
        (if (body.foldl bodyFlags fl).2 then insertNat M0 k else M0)
  | [], fl, p, S, scbs, _, h, _, _, hm, _ => ⟨h, FrameK.refl S k, hm⟩
  | c :: rest, fl, p, S, scbs, hd, h, hk, hdeps, hm, hall => by
    have hnc := hall c (by simp)
    rcases spec_pack_step info hdb h hk hdeps c hnc with ⟨h1, hfr, hmk⟩
    simp only [List.map_cons, List.foldl_cons, specFold_cons]
    have hd1 := pst_dead_flags deps p fl hd c hnc
    have hm1 : (S.applyCmd info (specCmd k c)).1.marked = (if (bodyFlags fl c).2 then insertNat M0 k else M0) := by
      rw [hmk, hm]
      obtain ⟨dead, mk⟩ := fl
      simp only at hd
      cases dead <;> cases mk <;> cases c <;>
        simp_all [isDestroyCmd, bodyFlags, insertNat_idem, crH]
    have ih := spec_body_fold hdb M0 rest (bodyFlags fl c) (pst deps p c) _ _ hd1 h1 (by rw [hfr.len]; exact hk)
      (hfr.deps.trans hdeps) hm1 (fun c' hc' => hall c' (by simp [hc']))
    exact ⟨ih.1, hfr.trans ih.2.1, ih.2.2⟩

end Mustache.Proofs.Refine

import Mustache.Proofs.RefineGhost
/-!
# Refinement, stage (e): the pack state of `applyCommandPack` against the spec's command-by-command meaning

`pst` is the pure evolution of `PackSt` (final component set, components removed/re-assigned on the way, the supplying
assign commands). `PInv` ties it to the spec entity after the same commands: the entity has exactly `final`, every
value is given by `pform` (latest supplied value, else the carried-over value unless the component was replaced, else the
default), and the callbacks the spec fired so far balance (`net`) and cover every replaced component (`repl`).
-/
namespace Mustache.Proofs.Refine
open Mustache.Model Mustache.Spec
open Mustache.Proofs.Rows

variable (info : CompId → CompInfo)

/-! ## the pure pack state -/

def pst (deps : List (CompId × Mask)) (p : PackSt) : Cmd → PackSt
  | .destroyNow _ => if p.dead then p else { p with dead := true }
  | .create .. => p
  | .destroy _ => p
  | .remove _ c =>
    if p.dead then p else
    if p.final.contains c then
      if (closedMask deps (Mask.erase p.final c)).contains c then p
      else { p with final := closedMask deps (Mask.erase p.final c), replaced := Mask.insert p.replaced c,
                    src := p.src.filter (·.1 != c) }
    else p
  | .assign _ c v =>
    if p.dead then p else
    if p.final.contains c then { p with replaced := Mask.insert p.replaced c, src := p.src.filter (·.1 != c) ++ [(c, v)] }
    else { p with final := closedMask deps (Mask.insert p.final c), src := p.src.filter (·.1 != c) ++ [(c, v)] }

theorem packStep_pst (e : Handle) (isCreate : Bool) (w : WM) (p : PackSt) (cbs : List Cb) (c : Cmd) :
    (packStep info e isCreate (w, p, cbs) c).2.1 = pst w.deps p c := by
  unfold packStep pst
  simp only
  by_cases hd : p.dead = true
  · simp only [hd, if_true]
    cases c <;> rfl
  · simp only [hd, Bool.false_eq_true, if_false]
    cases c with
    | create e' m sh => rfl
    | destroyNow e' => cases isCreate <;> rfl
    | destroy h => rfl
    | remove e' c' =>
      simp only
      by_cases h1 : p.final.contains c' = true
      · simp only [h1, if_true]
        by_cases h2 : (closedMask w.deps (Mask.erase p.final c')).contains c' = true
        · simp only [h2, if_true]
        · simp only [h2, Bool.false_eq_true, if_false]
      · simp only [h1, Bool.false_eq_true, if_false]
    | assign e' c' v =>
      simp only
      by_cases h1 : p.final.contains c' = true
      · simp only [h1, if_true]
      · simp only [h1, Bool.false_eq_true, if_false]

/-- the value of component `x` after the pack: latest supplied value, else the carried-over value unless `x` was
removed / re-assigned on the way, else the default -/
def pform (ic : List (CompId × Val)) (p : PackSt) (x : CompId) : Val :=
  match p.src.find? (·.1 == x) with
  | some q => q.2
  | none =>
    match ic.find? (·.1 == x) with
    | some q => if p.replaced.contains x then defaultVal info x else q.2
    | none => defaultVal info x

/-! ## counting callbacks -/

theorem count_map_tag (l : List CompId) (b b' : Bool) (x : CompId) (o o' : Nat) :
    (l.map (fun y => ((b', y, o') : SCb))).count (b, x, o) = if b = b' ∧ o = o' then l.count x else 0 := by
  induction l with
  | nil => simp
  | cons a t ih =>
    simp only [List.map_cons, List.count_cons, ih]
    by_cases h : b = b' ∧ o = o'
    · obtain ⟨rfl, rfl⟩ := h
      simp only [and_self, if_true]
      by_cases hax : a = x
      · simp [hax]
      · have : ¬ ((b, a, o) == (b, x, o)) = true := by simpa using hax
        simp [hax]
    · simp only [h, if_false, Nat.zero_add]
      have : ((b', a, o') == (b, x, o)) = false := by
        simp only [beq_eq_false_iff_ne, ne_eq, Prod.mk.injEq, not_and]
        intro hb _ ho
        exact h ⟨hb.symm, ho.symm⟩
      simp [this]

theorem count_nodup {l : List CompId} (hn : l.Nodup) (x : CompId) : l.count x = if x ∈ l then 1 else 0 := by
  by_cases hx : x ∈ l
  · rw [if_pos hx]; exact List.count_eq_one_of_mem hn hx
  · rw [if_neg hx]; exact List.count_eq_zero_of_not_mem hx

theorem count_cbDiff_assign (o : Nat) (before after : Mask) (ha : after.Nodup) (x : CompId) (o' : Nat) :
    (cbDiff info o before after).count (true, x, o') =
      if o' = o ∧ x ∈ after ∧ (info x).callbacks = true ∧ x ∉ before then 1 else 0 := by
  unfold cbDiff
  rw [List.count_append, count_map_tag, count_map_tag]
  simp only [true_and, Bool.true_eq_false, false_and, if_false, Nat.add_zero]
  by_cases ho : o' = o
  · simp only [ho, true_and, if_true]
    rw [count_nodup (ha.sublist List.filter_sublist)]
    simp only [List.mem_filter, Bool.and_eq_true, Bool.not_eq_true', contains_false_iff]
    by_cases h : x ∈ after ∧ (info x).callbacks = true ∧ x ∉ before
    · rw [if_pos h, if_pos ⟨h.1, h.2.1, h.2.2⟩]
    · rw [if_neg h, if_neg (fun hh => h ⟨hh.1, hh.2.1, hh.2.2⟩)]
  · simp [ho]

theorem count_cbDiff_remove (o : Nat) (before after : Mask) (hb : before.Nodup) (x : CompId) (o' : Nat) :
    (cbDiff info o before after).count (false, x, o') =
      if o' = o ∧ x ∈ before ∧ (info x).callbacks = true ∧ x ∉ after then 1 else 0 := by
  unfold cbDiff
  rw [List.count_append, count_map_tag, count_map_tag]
  simp only [Bool.false_eq_true, false_and, if_false, Nat.zero_add, true_and]
  by_cases ho : o' = o
  · simp only [ho, if_true, true_and]
    rw [count_nodup (hb.sublist List.filter_sublist)]
    simp only [List.mem_filter, Bool.and_eq_true, Bool.not_eq_true', contains_false_iff]
    by_cases h : x ∈ before ∧ (info x).callbacks = true ∧ x ∉ after
    · rw [if_pos h, if_pos ⟨h.1, h.2.1, h.2.2⟩]
    · rw [if_neg h, if_neg (fun hh => h ⟨hh.1, hh.2.1, hh.2.2⟩)]
  · simp [ho]

end Mustache.Proofs.Refine

import Mustache.Proofs.RefineGhost
/-!
# Refinement, stage (e): the pack state of `applyCommandPack` against the spec's command-by-command meaning

`pst` is the pure evolution of `PackSt` (final component set, components removed/re-assigned on the way, the supplying
assign commands). `PInv` ties it to the spec entity after the same commands: the entity has exactly `final`, every
value is given by `pform` (latest supplied value, else the carried-over value unless the component was replaced, else the
default), and the callbacks the spec fired so far balance (`net`) and cover every replaced component (`repl`).
-/
namespace Mustache.Proofs.Refine
open Mustache.Model Mustache.Spec
open Mustache.Proofs.Rows

variable (info : CompId → CompInfo)

/-! ## the pure pack state -/

def pst (deps : List (CompId × Mask)) (p : PackSt) : Cmd → PackSt
  | .destroyNow _ => if p.dead then p else { p with dead := true }
  | .create .. => p
  | .destroy _ => p
  | .remove _ c =>
    if p.dead then p else
    if p.final.contains c then
      if (closedMask deps (Mask.erase p.final c)).contains c then { p with final := closedMask deps (Mask.erase p.final c) }
      else { p with final := closedMask deps (Mask.erase p.final c), replaced := Mask.insert p.replaced c,
                    src := p.src.filter (·.1 != c) }
    else p
  | .assign _ c v =>
    if p.dead then p else
    if p.final.contains c then { p with replaced := Mask.insert p.replaced c, src := p.src.filter (·.1 != c) ++ [(c, v)] }
    else { p with final := closedMask deps (Mask.insert p.final c), src := p.src.filter (·.1 != c) ++ [(c, v)] }

theorem packStep_pst (e : Handle) (isCreate : Bool) (w : WM) (p : PackSt) (cbs : List Cb) (c : Cmd) :
    (packStep info e isCreate (w, p, cbs) c).2.1 = pst w.deps p c := by
  unfold packStep pst
  simp only
  by_cases hd : p.dead = true
  · simp only [hd, if_true]
    cases c <;> rfl
  · simp only [hd, Bool.false_eq_true, if_false]
    cases c with
    | create e' m sh => rfl
    | destroyNow e' => cases isCreate <;> rfl
    | destroy h => rfl
    | remove e' c' =>
      simp only
      by_cases h1 : p.final.contains c' = true
      · simp only [h1, if_true]
        by_cases h2 : (closedMask w.deps (Mask.erase p.final c')).contains c' = true
        · simp only [h2, if_true]
        · simp only [h2, Bool.false_eq_true, if_false]
      · simp only [h1, Bool.false_eq_true, if_false]
    | assign e' c' v =>
      simp only
      by_cases h1 : p.final.contains c' = true
      · simp only [h1, if_true]
      · simp only [h1, Bool.false_eq_true, if_false]

/-- the value of component `x` after the pack: latest supplied value, else the carried-over value unless `x` was
removed / re-assigned on the way, else the default -/
def pform (ic : List (CompId × Val)) (p : PackSt) (x : CompId) : Val :=
  match p.src.find? (·.1 == x) with
  | some q => q.2
  | none =>
    match ic.find? (·.1 == x) with
    | some q => if p.replaced.contains x then defaultVal info x else q.2
    | none => defaultVal info x

/-! ## counting callbacks -/

theorem count_map_tag (l : List CompId) (b b' : Bool) (x : CompId) (o o' : Nat) :
    (l.map (fun y => ((b', y, o') : SCb))).count (b, x, o) = if b = b' ∧ o = o' then l.count x else 0 := by
  induction l with
  | nil => simp
  | cons a t ih =>
    simp only [List.map_cons, List.count_cons, ih]
    by_cases h : b = b' ∧ o = o'
    · obtain ⟨rfl, rfl⟩ := h
      simp only [and_self, if_true]
      by_cases hax : a = x
      · simp [hax]
      · have : ¬ ((b, a, o) == (b, x, o)) = true := by simpa using hax
        simp [hax]
    · simp only [h, if_false, Nat.zero_add]
      have : ((b', a, o') == (b, x, o)) = false := by
        simp only [beq_eq_false_iff_ne, ne_eq, Prod.mk.injEq, not_and]
        intro hb _ ho
        exact h ⟨hb.symm, ho.symm⟩
      simp [this]

theorem count_nodup {l : List CompId} (hn : l.Nodup) (x : CompId) : l.count x = if x ∈ l then 1 else 0 := hn.count

theorem count_cbDiff_assign (o : Nat) (before after : Mask) (ha : after.Nodup) (x : CompId) (o' : Nat) :
    (cbDiff info o before after).count (true, x, o') =
      if o' = o ∧ x ∈ after ∧ (info x).callbacks = true ∧ x ∉ before then 1 else 0 := by
  unfold cbDiff
  rw [List.count_append, count_map_tag, count_map_tag, count_nodup (ha.sublist List.filter_sublist)]
  simp only [List.mem_filter, Bool.and_eq_true, Bool.not_eq_true', contains_false_iff]
  by_cases ho : o' = o
  · by_cases h : x ∈ after ∧ (info x).callbacks = true ∧ x ∉ before
    · simp [ho, h.1, h.2.1, h.2.2]
    · have : ¬ (x ∈ after ∧ ((info x).callbacks = true ∧ x ∉ before)) := h
      simp [ho, h, this]
  · simp [ho]

theorem count_cbDiff_remove (o : Nat) (before after : Mask) (hb : before.Nodup) (x : CompId) (o' : Nat) :
    (cbDiff info o before after).count (false, x, o') =
      if o' = o ∧ x ∈ before ∧ (info x).callbacks = true ∧ x ∉ after then 1 else 0 := by
  unfold cbDiff
  rw [List.count_append, count_map_tag, count_map_tag, count_nodup (hb.sublist List.filter_sublist)]
  simp only [List.mem_filter, Bool.and_eq_true, Bool.not_eq_true', contains_false_iff]
  by_cases ho : o' = o
  · by_cases h : x ∈ before ∧ (info x).callbacks = true ∧ x ∉ after
    · simp [ho, h.1, h.2.1, h.2.2]
    · have : ¬ (x ∈ before ∧ ((info x).callbacks = true ∧ x ∉ after)) := h
      simp [ho, h, this]
  · simp [ho]

/-! ## lookups in keyed lists -/

theorem find_map_key (l : List CompId) (f : CompId → Val) (y : CompId) :
    (l.map (fun x => (x, f x))).find? (·.1 == y) = if y ∈ l then some (y, f y) else none := by
  induction l with
  | nil => rfl
  | cons a t ih =>
    simp only [List.map_cons, List.find?_cons, List.mem_cons]
    by_cases h : a = y
    · subst h; simp
    · have hb : (a == y) = false := by simpa using h
      have hne : ¬ y = a := fun e => h e.symm
      simp only [hb, hne, false_or]
      exact ih

theorem find_filter_append_self (src : List (CompId × Val)) (c : CompId) (v : Val) :
    (src.filter (·.1 != c) ++ [(c, v)]).find? (·.1 == c) = some (c, v) := by
  rw [List.find?_append]
  have : (src.filter (·.1 != c)).find? (·.1 == c) = none := by
    rw [List.find?_eq_none]
    intro q hq hqc
    have := (List.mem_filter.mp hq).2
    have e : q.1 = c := by simpa using hqc
    simp [e] at this
  rw [this]; simp

theorem find_filter_append_ne (src : List (CompId × Val)) (c : CompId) (v : Val) {x : CompId} (hx : x ≠ c) :
    (src.filter (·.1 != c) ++ [(c, v)]).find? (·.1 == x) = src.find? (·.1 == x) := by
  rw [List.find?_append]
  have h1 : (src.filter (·.1 != c)).find? (·.1 == x) = src.find? (·.1 == x) := by
    induction src with
    | nil => rfl
    | cons q t ih =>
      by_cases hq : q.1 = x
      · have h1 : (q.1 != c) = true := by rw [hq]; simpa using hx
        have h2 : (q.1 == x) = true := by simpa using hq
        simp only [List.filter_cons, h1, if_true, List.find?_cons, h2]
      · have h2 : (q.1 == x) = false := by simpa using hq
        by_cases h1 : (q.1 != c) = true
        · simp only [List.filter_cons, h1, if_true, List.find?_cons, h2]; exact ih
        · simp only [List.filter_cons, h1, Bool.false_eq_true, if_false, List.find?_cons, h2]; exact ih
  rw [h1]
  have h2 : ([(c, v)] : List (CompId × Val)).find? (·.1 == x) = none := by
    have : (c == x) = false := by simpa using (Ne.symm hx)
    simp [List.find?_cons, this]
  rw [h2]; simp

theorem find_filter_ne' (src : List (CompId × Val)) (c : CompId) {x : CompId} (hx : x ≠ c) :
    (src.filter (·.1 != c)).find? (·.1 == x) = src.find? (·.1 == x) := by
  induction src with
  | nil => rfl
  | cons q t ih =>
    by_cases hq : q.1 = x
    · have h1 : (q.1 != c) = true := by rw [hq]; simpa using hx
      have h2 : (q.1 == x) = true := by simpa using hq
      simp only [List.filter_cons, h1, if_true, List.find?_cons, h2]
    · have h2 : (q.1 == x) = false := by simpa using hq
      by_cases h1 : (q.1 != c) = true
      · simp only [List.filter_cons, h1, if_true, List.find?_cons, h2]; exact ih
      · simp only [List.filter_cons, h1, Bool.false_eq_true, if_false, List.find?_cons, h2]; exact ih

/-! ## the invariant -/

structure PInv (deps : List (CompId × Mask)) (ic : List (CompId × Val)) (base : Mask) (k : Nat) (p : PackSt)
    (ent : SEnt) (scbs : List SCb) : Prop where
  comps : ent.comps = p.final.map (fun x => (x, pform info ic p x))
  sorted : MaskOk p.final
  /-- an existing entity's archetype may predate a dependency declaration: the set is closed once it has changed -/
  closedF : p.final = base ∨ ClosedUnder deps p.final
  srcSub : ∀ q ∈ p.src, q.1 ∈ p.final
  srcNodup : (p.src.map (·.1)).Nodup
  gone : ∀ q ∈ ic, q.1 ∉ p.final → q.1 ∈ p.replaced
  srcRepl : ∀ q ∈ p.src, q.1 ∈ p.replaced ∨ q.1 ∉ ic.map (·.1)
  net : ∀ x, (info x).callbacks = true →
    scbs.count (true, x, k) + (if x ∈ base then 1 else 0) = scbs.count (false, x, k) + (if x ∈ p.final then 1 else 0)
  repl : ∀ x ∈ p.replaced, (info x).callbacks = true → 1 ≤ scbs.count (false, x, k)
  nocb : ∀ b x o, (info x).callbacks = false → scbs.count (b, x, o) = 0
  other : ∀ b x o, o ≠ k → scbs.count (b, x, o) = 0
  alive : p.dead = false

/-- the spec state changes at ordinal `k` only -/
structure FrameK (S S' : WS) (k : Nat) : Prop where
  len : S'.ents.length = S.ents.length
  others : ∀ o, o ≠ k → S'.alive o = S.alive o
  deps : S'.deps = S.deps
  lockDepth : S'.lockDepth = S.lockDepth
  nthreads : S'.nthreads = S.nthreads
  buffers : S'.buffers = S.buffers

theorem FrameK.refl (S : WS) (k : Nat) : FrameK S S k := ⟨rfl, fun _ _ => rfl, rfl, rfl, rfl, rfl⟩

theorem FrameK.trans {A B C : WS} {k : Nat} (h₁ : FrameK A B k) (h₂ : FrameK B C k) : FrameK A C k :=
  ⟨h₂.len.trans h₁.len, fun o ho => (h₂.others o ho).trans (h₁.others o ho), h₂.deps.trans h₁.deps,
   h₂.lockDepth.trans h₁.lockDepth, h₂.nthreads.trans h₁.nthreads, h₂.buffers.trans h₁.buffers⟩

theorem frameK_setEnt (S : WS) (k : Nat) (x : Option SEnt) : FrameK S (S.setEnt k x) k :=
  ⟨by simp [WS.setEnt], fun o ho => by
      rw [setEnt_alive]
      have : ¬ (o = k ∧ k < S.ents.length) := fun h => ho h.1
      rw [if_neg this], rfl, rfl, rfl, rfl⟩

theorem setEnt_alive_self (S : WS) {k : Nat} (hk : k < S.ents.length) (x : Option SEnt) : (S.setEnt k x).alive k = x := by
  rw [setEnt_alive, if_pos ⟨rfl, hk⟩]

theorem PInv.compSet {deps : List (CompId × Mask)} {ic : List (CompId × Val)} {base : Mask} {k : Nat} {p : PackSt}
    {ent : SEnt} {scbs : List SCb} (h : PInv info deps ic base k p ent scbs) : compSet ent = p.final := by
  unfold Mustache.Spec.compSet
  rw [h.comps, List.map_map]
  exact List.map_id' _

theorem pform_assign_self (ic : List (CompId × Val)) (p p' : PackSt) (c : CompId) (v : Val)
    (hs : p'.src = p.src.filter (·.1 != c) ++ [(c, v)]) : pform info ic p' c = v := by
  unfold pform
  rw [hs, find_filter_append_self]

theorem pform_assign_ne (ic : List (CompId × Val)) (p p' : PackSt) (c : CompId) (v : Val) {x : CompId} (hx : x ≠ c)
    (hs : p'.src = p.src.filter (·.1 != c) ++ [(c, v)])
    (hr : p'.replaced.contains x = p.replaced.contains x) : pform info ic p' x = pform info ic p x := by
  unfold pform
  rw [hs, find_filter_append_ne _ _ _ hx, hr]

theorem contains_insert_ne (m : Mask) (c : CompId) {x : CompId} (hx : x ≠ c) :
    (Mask.insert m c).contains x = m.contains x := by
  rw [Bool.eq_iff_iff]
  simp only [List.contains_iff_mem, mem_insert]
  exact ⟨fun h => h.resolve_left hx, Or.inr⟩

theorem count_append_pair (scbs : List SCb) (cb : Bool) (c : CompId) (k : Nat) (t : SCb) :
    (scbs ++ (if cb then [(false, c, k), (true, c, k)] else [])).count t =
      scbs.count t + (if cb ∧ t = (false, c, k) then 1 else 0) + (if cb ∧ t = (true, c, k) then 1 else 0) := by
  rw [List.count_append]
  cases cb with
  | false => simp
  | true =>
    simp only [if_true, true_and, List.count_cons, List.count_nil, Nat.zero_add]
    have e1 : ((false, c, k) == t) = decide (t = (false, c, k)) := by
      by_cases h : t = (false, c, k)
      · simp [h]
      · have : ¬ ((false, c, k) = t) := fun e => h e.symm
        simp [h, this]
    have e2 : ((true, c, k) == t) = decide (t = (true, c, k)) := by
      by_cases h : t = (true, c, k)
      · simp [h]
      · have : ¬ ((true, c, k) = t) := fun e => h e.symm
        simp [h, this]
    rw [e1, e2]
    by_cases h1 : t = (false, c, k) <;> by_cases h2 : t = (true, c, k) <;> simp [h1, h2]

/-- a deferred `assign` -/
theorem pinv_assign {deps : List (CompId × Mask)} {ic : List (CompId × Val)} {base : Mask} {k : Nat} {p : PackSt}
    {ent : SEnt} {scbs : List SCb} (hp : PInv info deps ic base k p ent scbs) (hdb : DepsBounded deps) (S : WS)
    (hk : k < S.ents.length) (hal : S.alive k = some ent) (hdeps : S.deps = deps) (e : Handle) (c : CompId) (v : Val) :
    ∃ ent', (S.doAssign info k c v).1.alive k = some ent' ∧ ent'.shared = ent.shared ∧
      PInv info deps ic base k (pst deps p (.assign e c v)) ent' (scbs ++ (S.doAssign info k c v).2) ∧
      FrameK S (S.doAssign info k c v).1 k ∧ (S.doAssign info k c v).1.marked = S.marked := by
  have hcs := hp.compSet
  have halive := hp.alive
  by_cases hc : c ∈ p.final
  · -- re-assignment of a present component
    have hcc : p.final.contains c = true := (contains_iff _ _).mpr hc
    have hpst : pst deps p (.assign e c v) =
        { p with replaced := Mask.insert p.replaced c, src := p.src.filter (·.1 != c) ++ [(c, v)] } := by
      simp only [pst, halive, Bool.false_eq_true, if_false, hcc, if_true]
    have hdo : S.doAssign info k c v =
        (S.setEnt k (some { ent with comps := ent.comps.map (fun q => if q.1 == c then (c, v) else q) }),
          if (info c).callbacks then [(false, c, k), (true, c, k)] else []) := by
      simp only [WS.doAssign, hal, hcs, hcc, if_true]
    rw [hdo, hpst]
    refine ⟨_, setEnt_alive_self S hk _, rfl, ?_, frameK_setEnt S k _, rfl⟩
    refine
    { comps := ?_, sorted := hp.sorted, closedF := hp.closedF, srcSub := ?_, srcNodup := ?_, gone := ?_, net := ?_
      repl := ?_, nocb := ?_, other := ?_, alive := halive
      srcRepl := by
        intro q hq
        rcases List.mem_append.mp hq with h | h
        · rcases hp.srcRepl q (List.mem_filter.mp h).1 with h1 | h1
          · exact Or.inl ((mem_insert _ _ _).mpr (Or.inr h1))
          · exact Or.inr h1
        · simp only [List.mem_singleton] at h
          rw [h]; exact Or.inl ((mem_insert _ _ _).mpr (Or.inl rfl)) }
    · show ent.comps.map _ = _
      rw [hp.comps, List.map_map]
      apply List.map_congr_left
      intro x hx
      by_cases hxc : x = c
      · subst hxc
        simp only [Function.comp, beq_self_eq_true, if_true]
        rw [pform_assign_self info ic p
          { p with replaced := Mask.insert p.replaced x, src := p.src.filter (·.1 != x) ++ [(x, v)] } x v rfl]
      · have hb : (x == c) = false := by simpa using hxc
        simp only [Function.comp, hb, Bool.false_eq_true, if_false]
        rw [pform_assign_ne info ic p
          { p with replaced := Mask.insert p.replaced c, src := p.src.filter (·.1 != c) ++ [(c, v)] } c v hxc rfl
          (contains_insert_ne _ _ hxc)]
    · intro q hq
      rcases List.mem_append.mp hq with h | h
      · exact hp.srcSub q (List.mem_filter.mp h).1
      · simp only [List.mem_singleton] at h; rw [h]; exact hc
    · show ((p.src.filter (·.1 != c) ++ [(c, v)]).map (·.1)).Nodup
      rw [List.map_append, List.nodup_append]
      refine ⟨(hp.srcNodup.sublist (List.Sublist.map _ List.filter_sublist)), by simp, ?_⟩
      intro a ha b' hb'
      simp only [List.map_cons, List.map_nil, List.mem_singleton] at hb'
      subst hb'
      rcases List.mem_map.mp ha with ⟨q, hq, rfl⟩
      have := (List.mem_filter.mp hq).2
      simpa using this
    · intro q hq hnf
      exact (mem_insert _ _ _).mpr (Or.inr (hp.gone q hq hnf))
    · intro x hx
      rw [count_append_pair, count_append_pair]
      have := hp.net x hx
      by_cases hxc : x = c
      · subst hxc; simp [hx]; omega
      · have h1 : ¬ ((true, x, k) = ((false, c, k) : SCb)) := by simp
        have h2 : ¬ ((true, x, k) = ((true, c, k) : SCb)) := by simp [hxc]
        have h3 : ¬ ((false, x, k) = ((false, c, k) : SCb)) := by simp [hxc]
        have h4 : ¬ ((false, x, k) = ((true, c, k) : SCb)) := by simp
        simp only [h1, h2, h3, h4, and_false, if_false, Nat.add_zero]
        exact this
    · intro x hx hcb
      rw [count_append_pair]
      rcases (mem_insert _ _ _).mp hx with rfl | h
      · simp [hcb]
      · have := hp.repl x h hcb; omega
    · intro b x o hcb
      rw [count_append_pair, hp.nocb b x o hcb]
      by_cases hxc : x = c
      · subst hxc; simp [hcb]
      · have h1 : ¬ ((b, x, o) = ((false, c, k) : SCb)) := by simp [hxc]
        have h2 : ¬ ((b, x, o) = ((true, c, k) : SCb)) := by simp [hxc]
        simp [h1, h2]
    · intro b x o ho
      rw [count_append_pair, hp.other b x o ho]
      have h1 : ¬ ((b, x, o) = ((false, c, k) : SCb)) := by simp [ho]
      have h2 : ¬ ((b, x, o) = ((true, c, k) : SCb)) := by simp [ho]
      simp [h1, h2]
  · -- a new component
    have hcc : p.final.contains c = false := contains_false_iff.mpr hc
    have hfok := hp.sorted
    have hsubA : ∀ x ∈ p.final, x ∈ closedMask deps (Mask.insert p.final c) :=
      fun x hx => subset_closedMask ((mem_insert _ _ _).mpr (Or.inr hx))
    have hcA : c ∈ closedMask deps (Mask.insert p.final c) := subset_closedMask ((mem_insert _ _ _).mpr (Or.inl rfl))
    have haok : MaskOk (closedMask deps (Mask.insert p.final c)) := maskOk_closedMask deps (maskOk_insert hfok c)
    have hpst : pst deps p (.assign e c v) =
        { p with final := closedMask deps (Mask.insert p.final c), src := p.src.filter (·.1 != c) ++ [(c, v)] } := by
      simp only [pst, halive, Bool.false_eq_true, if_false, hcc]
    have hdo : S.doAssign info k c v =
        (S.setEnt k (some { ent with comps := rebuild info ent.comps (closedMask deps (Mask.insert p.final c)) [(c, v)] }),
          cbDiff info k p.final (closedMask deps (Mask.insert p.final c))) := by
      simp only [WS.doAssign, hal, hcs, hcc, Bool.false_eq_true, if_false, hdeps]
      rfl
    rw [hdo, hpst]
    refine ⟨_, setEnt_alive_self S hk _, rfl, ?_, frameK_setEnt S k _, rfl⟩
    refine
    { comps := ?_, sorted := haok, closedF := Or.inr (closedMask_closed hdb _), srcSub := ?_, srcNodup := ?_, gone := ?_, net := ?_
      repl := ?_, nocb := ?_, other := ?_, alive := halive
      srcRepl := by
        intro q hq
        rcases List.mem_append.mp hq with h | h
        · exact hp.srcRepl q (List.mem_filter.mp h).1
        · simp only [List.mem_singleton] at h
          rw [h]
          by_cases hci : c ∈ ic.map (·.1)
          · rcases List.mem_map.mp hci with ⟨q', hq', hq'c⟩
            have := hp.gone q' hq' (by rw [hq'c]; exact hc)
            rw [hq'c] at this
            exact Or.inl this
          · exact Or.inr hci }
    · show rebuild info ent.comps _ [(c, v)] = _
      rw [rebuild_eq]
      apply List.map_congr_left
      intro x hx
      unfold specPair
      rw [hp.comps, find_map_key]
      by_cases hxf : x ∈ p.final
      · have hxc : x ≠ c := fun e => hc (e ▸ hxf)
        rw [if_pos hxf]
        simp only
        rw [pform_assign_ne info ic p
          { p with final := closedMask deps (Mask.insert p.final c), src := p.src.filter (·.1 != c) ++ [(c, v)] } c v hxc
          rfl rfl]
      · rw [if_neg hxf]
        simp only
        by_cases hxc : x = c
        · subst hxc
          simp only [List.find?_cons, beq_self_eq_true]
          rw [pform_assign_self info ic p
            { p with final := closedMask deps (Mask.insert p.final x), src := p.src.filter (·.1 != x) ++ [(x, v)] } x v rfl]
        · have hb : (c == x) = false := by simpa using (Ne.symm hxc)
          simp only [List.find?_cons, hb, List.find?_nil]
          rw [pform_assign_ne info ic p
            { p with final := closedMask deps (Mask.insert p.final c), src := p.src.filter (·.1 != c) ++ [(c, v)] } c v hxc
            rfl rfl]
          unfold pform
          have hsn : p.src.find? (·.1 == x) = none := by
            rw [List.find?_eq_none]
            intro q hq hqx
            have : q.1 = x := by simpa using hqx
            exact hxf (this ▸ hp.srcSub q hq)
          rw [hsn]
          simp only
          cases hf : ic.find? (·.1 == x) with
          | none => rfl
          | some q =>
            simp only
            have hq1 : q.1 = x := by simpa using List.find?_some hf
            have := hp.gone q (List.mem_of_find?_eq_some hf) (by rw [hq1]; exact hxf)
            rw [hq1] at this
            rw [(contains_iff _ _).mpr this]; rfl
    · intro q hq
      rcases List.mem_append.mp hq with h | h
      · exact hsubA _ (hp.srcSub q (List.mem_filter.mp h).1)
      · simp only [List.mem_singleton] at h; rw [h]; exact hcA
    · show ((p.src.filter (·.1 != c) ++ [(c, v)]).map (·.1)).Nodup
      rw [List.map_append, List.nodup_append]
      refine ⟨(hp.srcNodup.sublist (List.Sublist.map _ List.filter_sublist)), by simp, ?_⟩
      intro a ha b' hb'
      simp only [List.map_cons, List.map_nil, List.mem_singleton] at hb'
      subst hb'
      rcases List.mem_map.mp ha with ⟨q, hq, rfl⟩
      have := (List.mem_filter.mp hq).2
      simpa using this
    · intro q hq hnf
      exact hp.gone q hq (fun h => hnf (hsubA _ h))
    · intro x hx
      rw [List.count_append, List.count_append, count_cbDiff_assign info k _ _ (maskOk_nodup haok),
        count_cbDiff_remove info k _ _ (maskOk_nodup hfok)]
      have := hp.net x hx
      have hR : (if k = k ∧ x ∈ p.final ∧ (info x).callbacks = true ∧ x ∉ closedMask deps (Mask.insert p.final c)
          then 1 else 0) = (0 : Nat) := if_neg (fun h => h.2.2.2 (hsubA x h.2.1))
      rw [hR]
      by_cases hxf : x ∈ p.final
      · have hxa := hsubA x hxf
        have hA : (if k = k ∧ x ∈ closedMask deps (Mask.insert p.final c) ∧ (info x).callbacks = true ∧ x ∉ p.final
            then 1 else 0) = (0 : Nat) := if_neg (fun h => h.2.2.2 hxf)
        rw [hA, if_pos hxa]
        rw [if_pos hxf] at this
        omega
      · by_cases hxa : x ∈ closedMask deps (Mask.insert p.final c)
        · have hA : (if k = k ∧ x ∈ closedMask deps (Mask.insert p.final c) ∧ (info x).callbacks = true ∧ x ∉ p.final
              then 1 else 0) = (1 : Nat) := if_pos ⟨rfl, hxa, hx, hxf⟩
          rw [hA, if_pos hxa]
          rw [if_neg hxf] at this
          omega
        · have hA : (if k = k ∧ x ∈ closedMask deps (Mask.insert p.final c) ∧ (info x).callbacks = true ∧ x ∉ p.final
              then 1 else 0) = (0 : Nat) := if_neg (fun h => hxa h.2.1)
          rw [hA, if_neg hxa]
          rw [if_neg hxf] at this
          omega
    · intro x hx hcb
      rw [List.count_append]
      have := hp.repl x hx hcb
      omega
    · intro b x o hcb
      rw [List.count_append, hp.nocb b x o hcb]
      cases b with
      | true => rw [count_cbDiff_assign info k _ _ (maskOk_nodup haok)]; simp [hcb]
      | false => rw [count_cbDiff_remove info k _ _ (maskOk_nodup hfok)]; simp [hcb]
    · intro b x o ho
      rw [List.count_append, hp.other b x o ho]
      cases b with
      | true => rw [count_cbDiff_assign info k _ _ (maskOk_nodup haok)]; simp [ho]
      | false => rw [count_cbDiff_remove info k _ _ (maskOk_nodup hfok)]; simp [ho]

theorem pform_remove_ne (ic : List (CompId × Val)) (p p' : PackSt) (c : CompId) {x : CompId} (hx : x ≠ c)
    (hs : p'.src = p.src.filter (·.1 != c)) (hr : p'.replaced.contains x = p.replaced.contains x) :
    pform info ic p' x = pform info ic p x := by
  unfold pform
  rw [hs, find_filter_ne' _ _ hx, hr]

/-- the balance of the callbacks after one more change of the component set -/
theorem net_cbDiff (k : Nat) (scbs : List SCb) (base final next : Mask) (hf : final.Nodup) (hn : next.Nodup) (x : CompId)
    (hx : (info x).callbacks = true)
    (h : scbs.count (true, x, k) + (if x ∈ base then 1 else 0) = scbs.count (false, x, k) + (if x ∈ final then 1 else 0)) :
    (scbs ++ cbDiff info k final next).count (true, x, k) + (if x ∈ base then 1 else 0) =
      (scbs ++ cbDiff info k final next).count (false, x, k) + (if x ∈ next then 1 else 0) := by
  rw [List.count_append, List.count_append, count_cbDiff_assign info k _ _ hn, count_cbDiff_remove info k _ _ hf]
  by_cases hxf : x ∈ final
  · rw [if_pos hxf] at h
    have hA : (if k = k ∧ x ∈ next ∧ (info x).callbacks = true ∧ x ∉ final then 1 else 0) = (0 : Nat) :=
      if_neg (fun h => h.2.2.2 hxf)
    by_cases hxn : x ∈ next
    · have hR : (if k = k ∧ x ∈ final ∧ (info x).callbacks = true ∧ x ∉ next then 1 else 0) = (0 : Nat) :=
        if_neg (fun h => h.2.2.2 hxn)
      have hN : (if x ∈ next then 1 else 0) = (1 : Nat) := if_pos hxn
      rw [hA, hR, hN]; omega
    · have hR : (if k = k ∧ x ∈ final ∧ (info x).callbacks = true ∧ x ∉ next then 1 else 0) = (1 : Nat) :=
        if_pos ⟨rfl, hxf, hx, hxn⟩
      have hN : (if x ∈ next then 1 else 0) = (0 : Nat) := if_neg hxn
      rw [hA, hR, hN]; omega
  · rw [if_neg hxf] at h
    have hR : (if k = k ∧ x ∈ final ∧ (info x).callbacks = true ∧ x ∉ next then 1 else 0) = (0 : Nat) :=
      if_neg (fun h => hxf h.2.1)
    by_cases hxn : x ∈ next
    · have hA : (if k = k ∧ x ∈ next ∧ (info x).callbacks = true ∧ x ∉ final then 1 else 0) = (1 : Nat) :=
        if_pos ⟨rfl, hxn, hx, hxf⟩
      have hN : (if x ∈ next then 1 else 0) = (1 : Nat) := if_pos hxn
      rw [hA, hR, hN]; omega
    · have hA : (if k = k ∧ x ∈ next ∧ (info x).callbacks = true ∧ x ∉ final then 1 else 0) = (0 : Nat) :=
        if_neg (fun h => hxn h.2.1)
      have hN : (if x ∈ next then 1 else 0) = (0 : Nat) := if_neg hxn
      rw [hA, hR, hN]; omega

/-- a component outside the current set has the default value in the formula (it was never there, or it was
replaced on the way) -/
theorem PInv.pform_new {deps : List (CompId × Mask)} {ic : List (CompId × Val)} {base : Mask} {k : Nat} {p : PackSt}
    {ent : SEnt} {scbs : List SCb} (hp : PInv info deps ic base k p ent scbs) {x : CompId} (hxf : x ∉ p.final) :
    pform info ic p x = defaultVal info x := by
  unfold pform
  have hsn : p.src.find? (·.1 == x) = none := by
    rw [List.find?_eq_none]
    intro q hq hqx
    have : q.1 = x := by simpa using hqx
    exact hxf (this ▸ hp.srcSub q hq)
  rw [hsn]
  simp only
  cases hf : ic.find? (·.1 == x) with
  | none => rfl
  | some q =>
    simp only
    have hq1 : q.1 = x := by simpa using List.find?_some hf
    have := hp.gone q (List.mem_of_find?_eq_some hf) (by rw [hq1]; exact hxf)
    rw [hq1] at this
    rw [(contains_iff _ _).mpr this]; rfl

/-- a deferred `removeComponent` -/
theorem pinv_remove {deps : List (CompId × Mask)} {ic : List (CompId × Val)} {base : Mask} {k : Nat} {p : PackSt}
    {ent : SEnt} {scbs : List SCb} (hp : PInv info deps ic base k p ent scbs) (hdb : DepsBounded deps) (S : WS)
    (hk : k < S.ents.length) (hal : S.alive k = some ent) (hdeps : S.deps = deps) (e : Handle) (c : CompId) :
    ∃ ent', (S.doRemove info k c).1.alive k = some ent' ∧ ent'.shared = ent.shared ∧
      PInv info deps ic base k (pst deps p (.remove e c)) ent' (scbs ++ (S.doRemove info k c).2) ∧
      FrameK S (S.doRemove info k c).1 k ∧ (S.doRemove info k c).1.marked = S.marked := by
  have hcs := hp.compSet
  have halive := hp.alive
  have hfok := hp.sorted
  rcases Classical.em (c ∉ p.final) with hc | hc
  · have hcc : p.final.contains c = false := contains_false_iff.mpr hc
    have hpst : pst deps p (.remove e c) = p := by
      simp only [pst, halive, Bool.false_eq_true, if_false, hcc]
    have hdo : S.doRemove info k c = (S, []) := by
      simp only [WS.doRemove, hal, hcs, hcc, Bool.not_false, if_true]
    rw [hdo, hpst, List.append_nil]
    exact ⟨ent, hal, rfl, hp, FrameK.refl S k, rfl⟩
  have hc : c ∈ p.final := Classical.not_not.mp hc
  have hcc : p.final.contains c = true := (contains_iff _ _).mpr hc
  have haok : MaskOk (closedMask deps (Mask.erase p.final c)) := maskOk_closedMask deps (maskOk_erase hfok c)
  by_cases heq : closedMask deps (Mask.erase p.final c) = p.final
  · -- the closure puts the component back and nothing else changes
    have hca : c ∈ closedMask deps (Mask.erase p.final c) := by rw [heq]; exact hc
    have hpst : pst deps p (.remove e c) = p := by
      have h1 : pst deps p (.remove e c) = { p with final := closedMask deps (Mask.erase p.final c) } := by
        simp only [pst, halive, Bool.false_eq_true, if_false, hcc, if_true, (contains_iff _ _).mpr hca]
      rw [h1, heq]
    have hdo : S.doRemove info k c = (S, []) := by
      simp only [WS.doRemove, hal, hcs, hcc, Bool.not_true, Bool.false_eq_true, if_false, hdeps]
      have : (closed deps (Mask.erase p.final c) == p.final) = true := by
        have : closed deps (Mask.erase p.final c) = p.final := heq
        simp [this]
      simp only [this, if_true]
    rw [hdo, hpst, List.append_nil]
    exact ⟨ent, hal, rfl, hp, FrameK.refl S k, rfl⟩
  have hne : (closed deps (Mask.erase p.final c) == p.final) = false := by
    have : closed deps (Mask.erase p.final c) ≠ p.final := heq
    simpa using this
  by_cases hca : c ∈ closedMask deps (Mask.erase p.final c)
  · -- the closure puts the component back (its master is there) and adds what the set lacked: `c` is carried over
    have hsubN : ∀ x ∈ p.final, x ∈ closedMask deps (Mask.erase p.final c) := by
      intro x hx
      by_cases hxc : x = c
      · rw [hxc]; exact hca
      · exact subset_closedMask ((mem_erase _ _ _).mpr ⟨hx, hxc⟩)
    have hpst : pst deps p (.remove e c) = { p with final := closedMask deps (Mask.erase p.final c) } := by
      simp only [pst, halive, Bool.false_eq_true, if_false, hcc, if_true, (contains_iff _ _).mpr hca]
    have hdo : S.doRemove info k c =
        (S.setEnt k (some { ent with comps := (rebuild info ent.comps (closedMask deps (Mask.erase p.final c)) []) }),
          cbDiff info k p.final (closedMask deps (Mask.erase p.final c))) := by
      have hcaS : (closed deps (Mask.erase p.final c)).contains c = true := (contains_iff _ _).mpr hca
      simp only [WS.doRemove, hal, hcs, hcc, Bool.not_true, Bool.false_eq_true, if_false, hdeps, hne, hcaS, if_true]
      rfl
    rw [hdo, hpst]
    refine ⟨_, setEnt_alive_self S hk _, rfl, ?_, frameK_setEnt S k _, rfl⟩
    refine
    { comps := ?_, sorted := haok, closedF := Or.inr (closedMask_closed hdb _), srcSub := ?_, srcNodup := hp.srcNodup
      gone := ?_, net := ?_, repl := ?_, nocb := ?_, other := ?_, alive := halive, srcRepl := hp.srcRepl }
    · show rebuild info ent.comps _ [] = _
      rw [rebuild_eq]
      apply List.map_congr_left
      intro x hx
      unfold specPair
      rw [hp.comps, find_map_key]
      by_cases hxf : x ∈ p.final
      · rw [if_pos hxf]; rfl
      · rw [if_neg hxf]
        simp only [List.find?_nil]
        exact congrArg (Prod.mk x) (hp.pform_new info hxf).symm
    · intro q hq
      exact hsubN _ (hp.srcSub q hq)
    · intro q hq hnf
      exact hp.gone q hq (fun h => hnf (hsubN _ h))
    · intro x hx
      exact net_cbDiff info k scbs base _ _ (maskOk_nodup hfok) (maskOk_nodup haok) x hx (hp.net x hx)
    · intro x hx hcb
      rw [List.count_append]
      have := hp.repl x hx hcb
      omega
    · intro b x o hcb
      rw [List.count_append, hp.nocb b x o hcb]
      cases b with
      | true => rw [count_cbDiff_assign info k _ _ (maskOk_nodup haok)]; simp [hcb]
      | false => rw [count_cbDiff_remove info k _ _ (maskOk_nodup hfok)]; simp [hcb]
    · intro b x o ho
      rw [List.count_append, hp.other b x o ho]
      cases b with
      | true => rw [count_cbDiff_assign info k _ _ (maskOk_nodup haok)]; simp [ho]
      | false => rw [count_cbDiff_remove info k _ _ (maskOk_nodup hfok)]; simp [ho]
  · have hpst : pst deps p (.remove e c) =
        { p with final := closedMask deps (Mask.erase p.final c), replaced := Mask.insert p.replaced c,
                 src := p.src.filter (·.1 != c) } := by
      simp only [pst, halive, Bool.false_eq_true, if_false, hcc, if_true, contains_false_iff.mpr hca]
    have hdo : S.doRemove info k c =
        (S.setEnt k (some { ent with comps :=
            (rebuild info (ent.comps.filter (·.1 != c)) (closedMask deps (Mask.erase p.final c)) []) }),
          cbDiff info k p.final (closedMask deps (Mask.erase p.final c))) := by
      have hcaS : (closed deps (Mask.erase p.final c)).contains c = false := contains_false_iff.mpr hca
      simp only [WS.doRemove, hal, hcs, hcc, Bool.not_true, Bool.false_eq_true, if_false, hdeps, hne, hcaS]
      rfl
    rw [hdo, hpst]
    refine ⟨_, setEnt_alive_self S hk _, rfl, ?_, frameK_setEnt S k _, rfl⟩
    refine
    { comps := ?_, sorted := haok, closedF := Or.inr (closedMask_closed hdb _), srcSub := ?_, srcNodup := ?_, gone := ?_
      net := ?_, repl := ?_, nocb := ?_, other := ?_, alive := halive
      srcRepl := by
        intro q hq
        rcases hp.srcRepl q (List.mem_filter.mp hq).1 with h1 | h1
        · exact Or.inl ((mem_insert _ _ _).mpr (Or.inr h1))
        · exact Or.inr h1 }
    · show rebuild info (ent.comps.filter (·.1 != c)) _ [] = _
      rw [rebuild_eq]
      apply List.map_congr_left
      intro x hx
      have hxc : x ≠ c := fun e' => hca (e' ▸ hx)
      unfold specPair
      rw [find_filter_ne' _ _ hxc, hp.comps, find_map_key]
      have hpf : pform info ic { p with final := closedMask deps (Mask.erase p.final c), replaced := Mask.insert p.replaced c, src := p.src.filter (·.1 != c) } x = pform info ic p x :=
        pform_remove_ne info ic p _ c hxc rfl (contains_insert_ne _ _ hxc)
      by_cases hxf : x ∈ p.final
      · rw [if_pos hxf]
        simp only
        rw [hpf]
      · rw [if_neg hxf]
        simp only [List.find?_nil]
        rw [hpf, hp.pform_new info hxf]
    · intro q hq
      have h1 := List.mem_filter.mp hq
      have hne : q.1 ≠ c := by simpa using h1.2
      exact subset_closedMask ((mem_erase _ _ _).mpr ⟨hp.srcSub q h1.1, hne⟩)
    · exact hp.srcNodup.sublist (List.Sublist.map _ List.filter_sublist)
    · intro q hq hnf
      by_cases hqf : q.1 ∈ p.final
      · have : q.1 = c := by
          apply Classical.byContradiction
          intro hne
          exact hnf (subset_closedMask ((mem_erase _ _ _).mpr ⟨hqf, hne⟩))
        exact (mem_insert _ _ _).mpr (Or.inl this)
      · exact (mem_insert _ _ _).mpr (Or.inr (hp.gone q hq hqf))
    · intro x hx
      exact net_cbDiff info k scbs base _ _ (maskOk_nodup hfok) (maskOk_nodup haok) x hx (hp.net x hx)
    · intro x hx hcb
      rw [List.count_append]
      rcases (mem_insert _ _ _).mp hx with rfl | h
      · rw [count_cbDiff_remove info k _ _ (maskOk_nodup hfok), if_pos ⟨rfl, hc, hcb, hca⟩]
        omega
      · have := hp.repl x h hcb; omega
    · intro b x o hcb
      rw [List.count_append, hp.nocb b x o hcb]
      cases b with
      | true => rw [count_cbDiff_assign info k _ _ (maskOk_nodup haok)]; simp [hcb]
      | false => rw [count_cbDiff_remove info k _ _ (maskOk_nodup hfok)]; simp [hcb]
    · intro b x o ho
      rw [List.count_append, hp.other b x o ho]
      cases b with
      | true => rw [count_cbDiff_assign info k _ _ (maskOk_nodup haok)]; simp [ho]
      | false => rw [count_cbDiff_remove info k _ _ (maskOk_nodup hfok)]; simp [ho]

end Mustache.Proofs.Refine

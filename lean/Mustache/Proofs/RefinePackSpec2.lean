import Mustache.Proofs.RefinePackSpec
/-!
# Refinement, stage (e): one command of a pack on the spec side, alive or dead
-/
namespace Mustache.Proofs.Refine
open Mustache.Model Mustache.Spec
open Mustache.Proofs.Rows

variable (info : CompId → CompInfo)

/-- after a `destroyNow` inside the pack: the entity is gone, the spec's callbacks balance against `base` -/
structure DeadInv (base : Mask) (k : Nat) (scbs : List SCb) : Prop where
  net : ∀ x, (info x).callbacks = true →
    scbs.count (true, x, k) + (if x ∈ base then 1 else 0) = scbs.count (false, x, k)
  nocb : ∀ b x o, (info x).callbacks = false → scbs.count (b, x, o) = 0
  other : ∀ b x o, o ≠ k → scbs.count (b, x, o) = 0

/-- the spec side of a pack after some of its commands -/
def SpecPackInv (deps : List (CompId × Mask)) (ic : List (CompId × Val)) (base : Mask) (k : Nat) (shr : List (Nat × Nat))
    (p : PackSt) (S : WS) (scbs : List SCb) : Prop :=
  if p.dead then S.alive k = none ∧ DeadInv info base k scbs
  else ∃ ent, S.alive k = some ent ∧ ent.shared = shr ∧ PInv info deps ic base k p ent scbs

def isDestroyCmd : Cmd → Bool
  | .destroy _ => true
  | _ => false

/-- the spec command of a model command on the entity with ordinal `k` -/
def specCmd (k : Nat) : Cmd → SCmd
  | .create _ m _ => .create k m []
  | .destroyNow _ => .destroyNow (some k)
  | .destroy _ => .destroy (some k)
  | .remove _ c => .remove (some k) c
  | .assign _ c v => .assign (some k) c v

theorem pst_dead (deps : List (CompId × Mask)) (p : PackSt) (c : Cmd) (hd : p.dead = true) : pst deps p c = p := by
  cases c <;> simp [pst, hd]

theorem spec_pack_step {deps : List (CompId × Mask)} {ic : List (CompId × Val)} {base : Mask} {k : Nat}
    {shr : List (Nat × Nat)} {p : PackSt} {S : WS} {scbs : List SCb} (hdb : DepsBounded deps)
    (h : SpecPackInv info deps ic base k shr p S scbs) (hk : k < S.ents.length) (hdeps : S.deps = deps)
    (cmd : Cmd) (hnc : crH cmd = none) :
    SpecPackInv info deps ic base k shr (pst deps p cmd) (S.applyCmd info (specCmd k cmd)).1
      (scbs ++ (S.applyCmd info (specCmd k cmd)).2) ∧
    FrameK S (S.applyCmd info (specCmd k cmd)).1 k ∧
    (S.applyCmd info (specCmd k cmd)).1.marked =
      (if isDestroyCmd cmd && !p.dead then insertNat S.marked k else S.marked) := by
  unfold SpecPackInv at h
  by_cases hd : p.dead = true
  · -- the entity is dead: every command is skipped
    rw [if_pos hd] at h
    have hstep : S.applyCmd info (specCmd k cmd) = (S, []) := by
      cases cmd with
      | create e m sh => simp [crH] at hnc
      | destroyNow e => simp only [specCmd, WS.applyCmd, WS.doDestroy, h.1]
      | destroy e => simp only [specCmd, WS.applyCmd, h.1, Option.isSome_none, Bool.false_eq_true, if_false]
      | remove e c => simp only [specCmd, WS.applyCmd, WS.doRemove, h.1]
      | assign e c v => simp only [specCmd, WS.applyCmd, WS.doAssign, h.1]
    rw [hstep, pst_dead deps p cmd hd, List.append_nil]
    refine ⟨?_, FrameK.refl S k, ?_⟩
    · unfold SpecPackInv; rw [if_pos hd]; exact h
    · simp [hd]
  · have hd' : p.dead = false := by simpa using hd
    rw [if_neg hd] at h
    rcases h with ⟨ent, hal, hshr, hp⟩
    cases cmd with
    | create e m sh => simp [crH] at hnc
    | destroyNow e =>
      have hstep : S.applyCmd info (specCmd k (.destroyNow e)) =
          (S.setEnt k none, cbDiff info k p.final []) := by
        simp only [specCmd, WS.applyCmd, WS.doDestroy, hal, hp.compSet]
      have hpst : pst deps p (.destroyNow e) = { p with dead := true } := by simp [pst, hd']
      rw [hstep, hpst]
      refine ⟨?_, frameK_setEnt S k none, by simp [isDestroyCmd]; rfl⟩
      unfold SpecPackInv
      simp only [if_true]
      refine ⟨setEnt_alive_self S hk none, ?_, ?_, ?_⟩
      · intro x hx
        rw [List.count_append, List.count_append, count_cbDiff_assign info k _ _ List.nodup_nil,
          count_cbDiff_remove info k _ _ (maskOk_nodup hp.sorted)]
        have := hp.net x hx
        have hA : (if k = k ∧ x ∈ ([] : Mask) ∧ (info x).callbacks = true ∧ x ∉ p.final then 1 else 0) = (0 : Nat) :=
          if_neg (fun h => by simp at h)
        rw [hA]
        by_cases hxf : x ∈ p.final
        · have hR : (if k = k ∧ x ∈ p.final ∧ (info x).callbacks = true ∧ x ∉ ([] : Mask) then 1 else 0) = (1 : Nat) :=
            if_pos ⟨rfl, hxf, hx, by simp⟩
          rw [hR]; rw [if_pos hxf] at this; omega
        · have hR : (if k = k ∧ x ∈ p.final ∧ (info x).callbacks = true ∧ x ∉ ([] : Mask) then 1 else 0) = (0 : Nat) :=
            if_neg (fun h => hxf h.2.1)
          rw [hR]; rw [if_neg hxf] at this; omega
      · intro b x o hcb
        rw [List.count_append, hp.nocb b x o hcb]
        cases b with
        | true => rw [count_cbDiff_assign info k _ _ List.nodup_nil]; simp
        | false => rw [count_cbDiff_remove info k _ _ (maskOk_nodup hp.sorted)]; simp [hcb]
      · intro b x o ho
        rw [List.count_append, hp.other b x o ho]
        cases b with
        | true => rw [count_cbDiff_assign info k _ _ List.nodup_nil]; simp
        | false => rw [count_cbDiff_remove info k _ _ (maskOk_nodup hp.sorted)]; simp [ho]
    | destroy e =>
      have hstep : S.applyCmd info (specCmd k (.destroy e)) = ({ S with marked := insertNat S.marked k }, []) := by
        simp only [specCmd, WS.applyCmd, hal, Option.isSome_some, if_true]
      have hpst : pst deps p (.destroy e) = p := rfl
      rw [hstep, hpst, List.append_nil]
      refine ⟨?_, ⟨rfl, fun _ _ => rfl, rfl, rfl, rfl, rfl⟩, by simp [isDestroyCmd, hd']⟩
      unfold SpecPackInv
      rw [if_neg hd]
      exact ⟨ent, hal, hshr, hp⟩
    | remove e c =>
      rcases pinv_remove info hp hdb S hk hal hdeps e c with ⟨ent', hal', hsh', hp', hfr, hmk⟩
      have hstep : S.applyCmd info (specCmd k (.remove e c)) = S.doRemove info k c := rfl
      rw [hstep]
      refine ⟨?_, hfr, by rw [hmk]; simp [isDestroyCmd]⟩
      unfold SpecPackInv
      rw [if_neg (by rw [hp'.alive]; simp)]
      exact ⟨ent', hal', hsh'.trans hshr, hp'⟩
    | assign e c v =>
      rcases pinv_assign info hp hdb S hk hal hdeps e c v with ⟨ent', hal', hsh', hp', hfr, hmk⟩
      have hstep : S.applyCmd info (specCmd k (.assign e c v)) = S.doAssign info k c v := rfl
      rw [hstep]
      refine ⟨?_, hfr, by rw [hmk]; simp [isDestroyCmd]⟩
      unfold SpecPackInv
      rw [if_neg (by rw [hp'.alive]; simp)]
      exact ⟨ent', hal', hsh'.trans hshr, hp'⟩

end Mustache.Proofs.Refine

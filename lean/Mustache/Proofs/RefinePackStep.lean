import Mustache.Proofs.RefinePackCreate5
/-!
# Refinement, stage (e): one pack, uniformly — slot-table length, linear ghost buffers
-/
namespace Mustache.Proofs.Refine
open Mustache.Model Mustache.Spec
open Mustache.Proofs.IdTable (tabOf Ghost TInv)
open Mustache.Proofs.Rows

variable (info : CompId → CompInfo)

/-! ## the length of the slot table over a pack -/

theorem packStep_slots (e : Handle) (isCreate : Bool) (acc : WM × PackSt × List Cb) (c : Cmd)
    (hlt : e.id < acc.1.slots.length) :
    (packStep info e isCreate acc c).1.slots.length = acc.1.slots.length := by
  obtain ⟨w, p, cbs⟩ := acc
  unfold packStep
  simp only
  by_cases hd : p.dead = true
  · simp only [hd, if_true]
  · simp only [hd, Bool.false_eq_true, if_false]
    cases c with
    | create e' m sh => rfl
    | destroyNow e' =>
      cases isCreate with
      | true => simp only [if_true]; exact release_slots_length w e hlt
      | false => simp only [Bool.false_eq_true, if_false]; exact destroyNowU_slots_length info w e
    | destroy h => rfl
    | remove e' c' =>
      simp only
      split
      · split <;> rfl
      · rfl
    | assign e' c' v =>
      simp only
      split <;> rfl

theorem packFold_slots (e : Handle) (isCreate : Bool) : ∀ (body : List Cmd) (acc : WM × PackSt × List Cb),
    e.id < acc.1.slots.length →
    (body.foldl (packStep info e isCreate) acc).1.slots.length = acc.1.slots.length
  | [], _, _ => rfl
  | c :: rest, acc, hlt => by
    have h1 := packStep_slots info e isCreate acc c hlt
    simp only [List.foldl_cons]
    rw [packFold_slots e isCreate rest _ (by rw [h1]; exact hlt), h1]

theorem applyPack_slots_other (w : WM) (first : Cmd) (rest : List Cmd) (hfc : isCreateCmd first = false) :
    (match packStart w first with
      | none => (w, [])
      | some (w1, initial0, sh) =>
        packFinish info first.entity (isCreateCmd first) (packInit (isCreateCmd first) w1.deps initial0) sh
          ((if isCreateCmd first then rest else first :: rest).foldl
            (packStep info first.entity (isCreateCmd first))
            (w1, { final := packInit (isCreateCmd first) w1.deps initial0 }, []))).1.slots.length =
      if isCreateCmd first then (startCreate w first.entity).slots.length else w.slots.length := by
  rw [packStart_other w first hfc, hfc]
  simp only [Bool.false_eq_true, if_false]
  by_cases hv : w.isValid first.entity = true
  · simp only [hv, Bool.not_true, Bool.false_eq_true, if_false]
    cases hl : (w.locOf first.entity).arch with
    | none => rfl
    | some ai =>
      simp only
      rw [(packFinish_sameTable info first.entity false _ _ _).slots,
        packFold_slots info first.entity false (first :: rest) _ (isValid_id_lt hv)]
  · have : w.isValid first.entity = false := by simpa using hv
    simp only [this, Bool.not_false, if_true]

theorem applyPack_slots_length (w : WM) (first : Cmd) (rest : List Cmd) :
    (w.applyPack info (first :: rest)).1.slots.length =
      if isCreateCmd first then (startCreate w first.entity).slots.length else w.slots.length := by
  rw [applyPack_eq]
  cases first with
  | create e m sh =>
    rw [packStart_create]
    simp only [isCreateCmd, if_true, Cmd.entity]
    rw [(packFinish_sameTable info e true _ sh _).slots, packFold_slots info e true rest _ (startCreate_facts w e).2.2.2]
  | destroyNow e => exact applyPack_slots_other info w _ rest rfl
  | destroy e => exact applyPack_slots_other info w _ rest rfl
  | remove e c => exact applyPack_slots_other info w _ rest rfl
  | assign e c v => exact applyPack_slots_other info w _ rest rfl

/-! ## a pack on an existing entity: the three cases together -/

theorem pack_existing_refines {w : WM} {iss : List Handle} {s : WS} (hi : Inv ⟨w, iss⟩) (hb : Bounds ⟨w, iss⟩)
    (hr : Rel ⟨w, iss⟩ s) (first : Cmd) (rest : List Cmd) (hfc : isCreateCmd first = false)
    (hall : ∀ c ∈ first :: rest, c.entity = first.entity ∧ crH c = none) :
    PackRefines info w iss s (first :: rest) ((first :: rest).map (specCmdRef (ordOf iss first.entity))) := by
  rcases rel_cases (c := ⟨w, iss⟩) hi hb hr first.entity with ⟨hinv, _⟩ | ⟨hv, k, pi, i, prow, ent, hord, hk, hrow, hent, hloc, hal, hrel⟩
  · have h := pack_skipped info hi hb hr first rest hfc (fun c hc => (hall c hc).2) hinv
    unfold PackRefines
    rw [h.1, h.2]
    exact ⟨hi, hr, cbsAgreeNet_nil iss⟩
  · have hord' : ordOf iss first.entity = some k := hord
    rw [hord']
    cases hd : ((first :: rest).foldl bodyFlags (false, false)).1 with
    | true => exact pack_existing_dead info hi hb hr first rest hfc hall hv hk hrow hent hloc hal hrel hd
    | false => exact pack_existing_alive info hi hb hr first rest hfc hall hv hk hrow hent hloc hal hrel hd

/-! ## commands leaving the ghost buffers -/

theorem inv_pop {X : WM} {iss : List Handle} (hi : Inv ⟨X, iss⟩) (b' : List (List Cmd))
    (hperm : (createHandles b').Perm (createHandles X.buffers)) (hblen : b'.length = X.buffers.length)
    (hbsub : ∀ x ∈ b', ∀ cmd ∈ x, ∃ y ∈ X.buffers, cmd ∈ y) (hld : 0 < X.lockDepth) :
    Inv ⟨setCtl X X.lockDepth b' X.marked, iss⟩ := by
  rcases hi.tinv with ⟨g, tinv, hiss, hpend⟩
  exact inv_ctl_set hi X.lockDepth X.nextEntityId b' X.temps
    ⟨g, tinv, hiss, fun h => (hpend h).trans hperm.mem_iff.symm⟩ (hperm.nodup_iff.mpr hi.pendNodup)
    (by rw [hblen]; exact hi.bufLe) (fun _ => by rw [hblen]; exact hi.bufLen hld) (fun h => by omega)
    (fun x hx cmd hc => by
      rcases hbsub x hx cmd hc with ⟨y, hy, hcy⟩
      exact hi.bufKnown y hy cmd hcy)
    (fun h hm hc => (hi.markedKnown h hm).2 (hperm.mem_iff.mp hc))

theorem rel_pop {X : WM} {iss : List Handle} {T : WS} (hr : Rel ⟨X, iss⟩ T) (b' : List (List Cmd)) (sb' : List (List SCmd))
    (hbrel : All2 (All2 (cmdRel iss X.pool)) b' sb')
    (hsub : ∀ h ∈ createHandles b', h ∈ createHandles X.buffers) :
    Rel ⟨setCtl X X.lockDepth b' X.marked, iss⟩ { T with buffers := sb' } :=
  { len := hr.len, ents := hr.ents, deps := hr.deps, lockDepth := hr.lockDepth, nthreads := hr.nthreads
    buffers := hbrel, marked := hr.marked, markedLt := hr.markedLt, markedNodup := hr.markedNodup
    markedOld := fun o ho h hh hc => hr.markedOld o ho h hh (hsub h hc) }

end Mustache.Proofs.Refine

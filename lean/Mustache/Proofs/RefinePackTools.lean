import Mustache.Proofs.RefinePackCount
/-!
# Refinement, stage (e): tools for assembling the refinement of one pack
-/
namespace Mustache.Proofs.Refine
open Mustache.Model Mustache.Spec
open Mustache.Proofs.IdTable (tabOf Ghost TInv)
open Mustache.Proofs.Rows

variable (info : CompId → CompInfo)

/-- `Rel` only reads the spec state through its observable fields -/
theorem rel_of_frame {c : CW} {A B : WS} (hr : Rel c A) (hlen : B.ents.length = A.ents.length)
    (hal : ∀ o, B.alive o = A.alive o) (hdeps : B.deps = A.deps) (hld : B.lockDepth = A.lockDepth)
    (hnt : B.nthreads = A.nthreads) (hbuf : B.buffers = A.buffers) (hmk : B.marked = A.marked) : Rel c B :=
  { len := hlen.trans hr.len
    ents := fun o h ho => by rw [hal o]; exact hr.ents o h ho
    deps := hdeps.trans hr.deps
    lockDepth := hld.trans hr.lockDepth
    nthreads := hnt.trans hr.nthreads
    buffers := by rw [hbuf]; exact hr.buffers
    marked := fun o => by rw [hmk, hal o]; exact hr.marked o
    markedLt := fun o ho => by rw [hlen]; rw [hmk] at ho; exact hr.markedLt o ho
    markedNodup := by rw [hmk]; exact hr.markedNodup
    markedOld := fun o ho => by rw [hmk] at ho; exact hr.markedOld o ho }

/-- marking the issued, installed, in-range handle `e` (ordinal `k`) on both sides -/
theorem mark_refines {w : WM} {iss : List Handle} {s : WS} (hi : Inv ⟨w, iss⟩) (hr : Rel ⟨w, iss⟩ s) {e : Handle} {k : Nat}
    (hk : iss[k]? = some e) (hrg : HRange w.worldId e) (hnp : e ∉ createHandles w.buffers) :
    Inv ⟨{ w with marked := insertSorted w.marked e }, iss⟩ ∧
    Rel ⟨{ w with marked := insertSorted w.marked e }, iss⟩
      (if (s.alive k).isSome then { s with marked := insertNat s.marked k } else s) := by
  have hmem := mem_insertSorted (l := w.marked) (h := e) hi.markedRange hrg
  have hkn : Known ⟨w, iss⟩ e := Or.inl (List.mem_of_getElem? hk)
  have hord : ordOf iss e = some k := ordOf_unique (issued_nodup (c := ⟨w, iss⟩) hi) hk
  have hav : (s.alive k).isSome = w.isValid e := by
    rw [optRel_isSome (hr.ents k e hk)]
    exact absEnt_isSome_iff hi.live hi.rows e
  refine ⟨?_, ?_⟩
  · exact
    { tinv := hi.tinv
      pendNodup := hi.pendNodup
      rows := ⟨hi.rows.vals, hi.rows.loc⟩
      keys := ⟨hi.keys.masks, hi.keys.distinct⟩
      live := ⟨hi.live.live_in, hi.live.row_live⟩
      pool := ⟨hi.pool.vals_nodup, hi.pool.insts_nodup, hi.pool.inst_lt, hi.pool.inst_sid⟩
      shared := hi.shared
      depsB := hi.depsB
      locsCover := hi.locsCover
      bufLe := hi.bufLe
      bufLen := hi.bufLen
      bufEmpty := hi.bufEmpty
      bufKnown := hi.bufKnown
      markedKnown := by
        intro x hx
        rcases (hmem x).mp hx with rfl | hx'
        · exact ⟨hkn, hnp⟩
        · exact hi.markedKnown x hx'
      markedRange := by
        intro x hx
        rcases (hmem x).mp hx with rfl | hx'
        · exact hrg
        · exact hi.markedRange x hx'
      markedSorted := sorted_insertSorted e hi.markedSorted }
  · by_cases hak : (s.alive k).isSome = true
    · rw [if_pos hak]
      have hve : w.isValid e = true := by rw [← hav]; exact hak
      exact
      { len := hr.len, ents := hr.ents, deps := hr.deps, lockDepth := hr.lockDepth, nthreads := hr.nthreads
        buffers := hr.buffers
        markedNodup := nodup_insertNat hr.markedNodup k
        markedLt := by
          intro o hom
          rcases (mem_insertNat _ _ _).mp hom with rfl | h
          · exact alive_lt hak
          · exact hr.markedLt o h
        markedOld := by
          intro o hom h hh
          rcases (mem_insertNat _ _ _).mp hom with rfl | hm
          · have : iss[o]? = some h := hh
            rw [hk] at this; cases this
            exact hnp
          · exact hr.markedOld o hm h hh
        marked := by
          intro o
          show (o ∈ insertNat s.marked k ∧ (s.alive o).isSome = true) ↔ _
          rw [mem_insertNat]
          constructor
          · rintro ⟨rfl | hm, ha⟩
            · exact ⟨e, (hmem e).mpr (Or.inl rfl), hve, hord⟩
            · rcases (hr.marked o).mp ⟨hm, ha⟩ with ⟨h, hm', hv, hoo⟩
              exact ⟨h, (hmem h).mpr (Or.inr hm'), hv, hoo⟩
          · rintro ⟨h, hm, hv, hoo⟩
            rcases (hmem h).mp hm with rfl | hm'
            · have : ordOf iss h = some o := hoo
              rw [hord] at this; cases this
              exact ⟨Or.inl rfl, hak⟩
            · have := (hr.marked o).mpr ⟨h, hm', hv, hoo⟩
              exact ⟨Or.inr this.1, this.2⟩ }
    · rw [if_neg hak]
      have hve : w.isValid e = false := by
        have : (s.alive k).isSome = false := by simpa using hak
        rw [← hav]; exact this
      exact
      { len := hr.len, ents := hr.ents, deps := hr.deps, lockDepth := hr.lockDepth, nthreads := hr.nthreads
        buffers := hr.buffers, markedLt := hr.markedLt, markedNodup := hr.markedNodup, markedOld := hr.markedOld
        marked := by
          intro o
          rw [hr.marked o]
          constructor
          · rintro ⟨h, hm, hv, hoo⟩; exact ⟨h, (hmem h).mpr (Or.inr hm), hv, hoo⟩
          · rintro ⟨h, hm, hv, hoo⟩
            rcases (hmem h).mp hm with rfl | hm'
            · have : w.isValid h = true := hv
              rw [hve] at this; cases this
            · exact ⟨h, hm', hv, hoo⟩ }

/-- the same with the ordinal marked on the spec side whether or not it is (still) alive: a dead ordinal in the
spec's marked list is not observable -/
theorem mark_rel_always {w : WM} {iss : List Handle} {s : WS} (hi : Inv ⟨w, iss⟩) (hr : Rel ⟨w, iss⟩ s) {e : Handle} {k : Nat}
    (hk : iss[k]? = some e) (hrg : HRange w.worldId e) (hnp : e ∉ createHandles w.buffers) :
    Rel ⟨{ w with marked := insertSorted w.marked e }, iss⟩ { s with marked := insertNat s.marked k } := by
  have hmem := mem_insertSorted (l := w.marked) (h := e) hi.markedRange hrg
  have hord : ordOf iss e = some k := ordOf_unique (issued_nodup (c := ⟨w, iss⟩) hi) hk
  have hav : (s.alive k).isSome = w.isValid e := by
    rw [optRel_isSome (hr.ents k e hk)]
    exact absEnt_isSome_iff hi.live hi.rows e
  have hklt : k < s.ents.length := by rw [hr.len]; exact (List.getElem?_eq_some_iff.mp hk).1
  exact
  { len := hr.len, ents := hr.ents, deps := hr.deps, lockDepth := hr.lockDepth, nthreads := hr.nthreads
    buffers := hr.buffers
    markedNodup := nodup_insertNat hr.markedNodup k
    markedLt := by
      intro o hom
      rcases (mem_insertNat _ _ _).mp hom with rfl | h
      · exact hklt
      · exact hr.markedLt o h
    markedOld := by
      intro o hom h hh
      rcases (mem_insertNat _ _ _).mp hom with rfl | hm
      · have : iss[o]? = some h := hh
        rw [hk] at this; cases this
        exact hnp
      · exact hr.markedOld o hm h hh
    marked := by
      intro o
      show (o ∈ insertNat s.marked k ∧ (s.alive o).isSome = true) ↔ _
      rw [mem_insertNat]
      constructor
      · rintro ⟨rfl | hm, ha⟩
        · have hve : w.isValid e = true := by rw [← hav]; exact ha
          exact ⟨e, (hmem e).mpr (Or.inl rfl), hve, hord⟩
        · rcases (hr.marked o).mp ⟨hm, ha⟩ with ⟨h, hm', hv, hoo⟩
          exact ⟨h, (hmem h).mpr (Or.inr hm'), hv, hoo⟩
      · rintro ⟨h, hm, hv, hoo⟩
        rcases (hmem h).mp hm with rfl | hm'
        · have : ordOf iss h = some o := hoo
          rw [hord] at this; cases this
          have hv' : w.isValid h = true := hv
          exact ⟨Or.inl rfl, by rw [hav]; exact hv'⟩
        · have := (hr.marked o).mpr ⟨h, hm', hv, hoo⟩
          exact ⟨Or.inr this.1, this.2⟩ }

/-- the model's events of a pack whose entity died in it (`destroyNow` of the row it had), as spec events -/
theorem pack_agree_dead {base : Mask} {k : Nat} {scbs : List SCb} (hd : DeadInv info base k scbs) (hbn : base.Nodup) :
    NetAgree ((base.filter (fun c => (info c).callbacks && !([] : Mask).contains c)).map (fun x => ((false, x, k) : SCb)))
      scbs := by
  intro x o
  rw [count_map_tag, count_map_tag, count_nodup (hbn.sublist List.filter_sublist)]
  by_cases hz : (info x).callbacks = false ∨ o ≠ k
  · rcases hz with h | h
    · rw [hd.nocb true x o h, hd.nocb false x o h]
      have : x ∉ base.filter (fun c => (info c).callbacks && !([] : Mask).contains c) := by
        rw [List.mem_filter]; intro hh; simp [h] at hh
      rw [if_neg this]; simp
    · rw [hd.other true x o h, hd.other false x o h]
      simp [h]
  · have hcb : (info x).callbacks = true := by
      cases h : (info x).callbacks with
      | true => rfl
      | false => exact absurd (Or.inl h) hz
    have hok : o = k := Classical.not_not.mp (fun h => hz (Or.inr h))
    subst hok
    have hnet := hd.net x hcb
    have hmf : x ∈ base.filter (fun c => (info c).callbacks && !([] : Mask).contains c) ↔ x ∈ base := by
      rw [List.mem_filter]; simp [hcb]
    by_cases hb : x ∈ base
    · simp only [hb, hmf, if_true, and_self, Bool.true_eq_false, false_and, if_false] at hnet ⊢
      omega
    · simp only [hb, hmf, if_false, and_self, Bool.true_eq_false, false_and, if_true] at hnet ⊢
      omega

end Mustache.Proofs.Refine

import Mustache.Proofs.RefinePackFinish
/-!
# Refinement, stage (e): the values `applyCommandPack` leaves in the row = the spec's values (`pform`)
-/
namespace Mustache.Proofs.Refine
open Mustache.Model Mustache.Spec
open Mustache.Proofs.Rows

variable (info : CompId → CompInfo)

theorem mem_supplied (src : List (CompId × Val)) (x : CompId) :
    x ∈ Mask.ofList (src.map (·.1)) ↔ (src.find? (·.1 == x)).isSome = true := by
  rw [mem_ofList]
  constructor
  · intro h
    rcases List.mem_map.mp h with ⟨q, hq, hqx⟩
    cases hf : src.find? (·.1 == x) with
    | some r => rfl
    | none =>
      have := List.find?_eq_none.mp hf q hq
      simp [hqx] at this
  · intro h
    cases hf : src.find? (·.1 == x) with
    | none => rw [hf] at h; cases h
    | some r =>
      have hr : r.1 = x := by simpa using List.find?_some hf
      exact List.mem_map.mpr ⟨r, List.mem_of_find?_eq_some hf, hr⟩

theorem mem_packStale (isCreate : Bool) (initial : Mask) (p : PackSt) (supplied tm : Mask) (x : CompId) :
    x ∈ packStale isCreate initial p supplied tm ↔
      (x ∈ p.final ∧ x ∈ p.replaced ∧ x ∈ initial ∧ ¬ (isCreate = true ∧ x ∈ supplied) ∧ x ∈ tm) := by
  unfold packStale
  simp only [List.mem_filter, Bool.and_eq_true, List.contains_iff_mem, Bool.not_eq_true', Bool.and_eq_false_iff,
    contains_false_iff]
  constructor
  · rintro ⟨⟨h1, h2, h3⟩, h4, h5⟩
    refine ⟨h1, h2, h3, ?_, h5⟩
    rintro ⟨hc, hs⟩
    rcases h4 with h | h
    · rw [hc] at h; cases h
    · exact h hs
  · rintro ⟨h1, h2, h3, h4, h5⟩
    refine ⟨⟨h1, h2, h3⟩, ?_, h5⟩
    by_cases hc : isCreate = true
    · right; intro hs; exact h4 ⟨hc, hs⟩
    · left; simpa using hc

/-- the value both loops leave in the cell of `x` -/
theorem loopVals_get (tm : Mask) (htn : tm.Nodup) (isCreate : Bool) (initial : Mask) (p : PackSt) (hpf : p.final = tm)
    (hsn : (p.src.map (·.1)).Nodup) (vals1 : List Val) (hl : vals1.length = tm.length) (x : CompId) (hx : x ∈ tm) :
    (loopVals info tm isCreate initial p vals1).getD (tm.idxOf x) none =
      match p.src.find? (·.1 == x) with
      | some q => q.2
      | none =>
        if x ∈ p.replaced ∧ x ∈ initial then defaultVal info x else vals1.getD (tm.idxOf x) none := by
  unfold loopVals
  rw [setMany_get tm p.src hsn _ (by rw [setMany_length]; exact hl) x hx]
  cases hf : p.src.find? (·.1 == x) with
  | some q => rfl
  | none =>
    simp only
    have hns : x ∉ Mask.ofList (p.src.map (·.1)) := by
      intro h; have := (mem_supplied p.src x).mp h; rw [hf] at this; cases this
    have hkn : ((((packStale isCreate initial p (Mask.ofList (p.src.map (·.1))) tm).filter
        (fun c => !(Mask.ofList (p.src.map (·.1))).contains c)).map (fun c => (c, defaultVal info c))).map (·.1)).Nodup := by
      rw [List.map_map]
      have : ((fun q : CompId × Val => q.1) ∘ fun c => (c, defaultVal info c)) = id := rfl
      rw [this, List.map_id]
      apply List.Nodup.sublist List.filter_sublist
      unfold packStale
      rw [hpf]
      exact (htn.sublist List.filter_sublist).sublist List.filter_sublist
    rw [setMany_get tm _ hkn vals1 hl x hx, find_map_key]
    by_cases hst : x ∈ p.replaced ∧ x ∈ initial
    · have hmem : x ∈ (packStale isCreate initial p (Mask.ofList (p.src.map (·.1))) tm).filter
          (fun c => !(Mask.ofList (p.src.map (·.1))).contains c) := by
        rw [List.mem_filter, mem_packStale]
        refine ⟨⟨hpf ▸ hx, hst.1, hst.2, fun h => hns h.2, hx⟩, ?_⟩
        simp only [Bool.not_eq_true', contains_false_iff]; exact hns
      rw [if_pos hmem, if_pos hst]
    · have hmem : x ∉ (packStale isCreate initial p (Mask.ofList (p.src.map (·.1))) tm).filter
          (fun c => !(Mask.ofList (p.src.map (·.1))).contains c) := by
        intro h
        have := (mem_packStale isCreate initial p _ tm x).mp (List.mem_filter.mp h).1
        exact hst ⟨this.2.1, this.2.2.1⟩
      rw [if_neg hmem, if_neg hst]

/-- a pack on an existing entity: the row holds the spec's values -/
theorem loopVals_existing (tm pm : Mask) (pvals : List Val) (hpl : pvals.length = pm.length) (htn : tm.Nodup)
    (p : PackSt) (hpf : p.final = tm) (hsn : (p.src.map (·.1)).Nodup) (vals1 : List Val) (hl : vals1.length = tm.length)
    (hv1 : ∀ x ∈ tm, x ∉ Mask.ofList (p.src.map (·.1)) → vals1.getD (tm.idxOf x) none =
      if x ∈ pm then pvals.getD (pm.idxOf x) none else defaultVal info x)
    (x : CompId) (hx : x ∈ tm) :
    (loopVals info tm false pm p vals1).getD (tm.idxOf x) none = pform info (pm.zip pvals) p x := by
  rw [loopVals_get info tm htn false pm p hpf hsn vals1 hl x hx]
  unfold pform
  cases hf : p.src.find? (·.1 == x) with
  | some q => rfl
  | none =>
    simp only
    have hns : x ∉ Mask.ofList (p.src.map (·.1)) := by
      intro h; have := (mem_supplied p.src x).mp h; rw [hf] at this; cases this
    by_cases hxp : x ∈ pm
    · rw [find_zip_some hpl hxp]
      simp only
      by_cases hr : x ∈ p.replaced
      · rw [if_pos ⟨hr, hxp⟩, (contains_iff _ _).mpr hr]; rfl
      · rw [if_neg (fun h => hr h.1), contains_false_iff.mpr hr, hv1 x hx hns, if_pos hxp]; rfl
    · rw [find_zip_none hxp]
      simp only
      rw [if_neg (fun h => hxp h.2), hv1 x hx hns, if_neg hxp]

/-- a pack that creates its entity: the row holds the spec's values -/
theorem loopVals_created (tm initial : Mask) (htn : tm.Nodup) (p : PackSt) (hpf : p.final = tm)
    (hsn : (p.src.map (·.1)).Nodup) (vals1 : List Val) (hl : vals1.length = tm.length)
    (hv1 : ∀ x ∈ tm, x ∉ Mask.ofList (p.src.map (·.1)) → vals1.getD (tm.idxOf x) none = defaultVal info x)
    (x : CompId) (hx : x ∈ tm) :
    (loopVals info tm true initial p vals1).getD (tm.idxOf x) none =
      pform info (initial.map (fun c => (c, defaultVal info c))) p x := by
  rw [loopVals_get info tm htn true initial p hpf hsn vals1 hl x hx]
  unfold pform
  cases hf : p.src.find? (·.1 == x) with
  | some q => rfl
  | none =>
    simp only
    have hns : x ∉ Mask.ofList (p.src.map (·.1)) := by
      intro h; have := (mem_supplied p.src x).mp h; rw [hf] at this; cases this
    rw [find_map_key, hv1 x hx hns]
    by_cases hxi : x ∈ initial
    · rw [if_pos hxi]
      simp only
      split <;> split <;> rfl
    · rw [if_neg hxi, if_neg (fun h => hxi h.2)]

end Mustache.Proofs.Refine

import Mustache.Proofs.RefineBasic
/-!
# Refinement, stage (a): what a handle reads in the model is what its ordinal reads in the spec

`rel_cases`: under `Inv`, `Bounds`, `Rel` a handle is either invalid and its ordinal (if any) is not alive, or it is
valid, has an ordinal, owns a row, and the spec record of the ordinal is the abstraction of that row.
The five queries (`valid`, `has`, `hasShared`, `get`, `archOf`) follow.
-/
namespace Mustache.Proofs.Refine
open Mustache.Model Mustache.Spec
open Mustache.Proofs.IdTable (tabOf Ghost TInv valid_iff_live_any isValid_tab)
open Mustache.Proofs.Rows

variable (info : CompId → CompInfo)

/-! ## list facts about `zip` -/

theorem lookupS_eq_lookK (l : List (Nat × Nat)) (k : Nat) : lookupS l k = lookK l k := by
  induction l with
  | nil => rfl
  | cons p t ih =>
    obtain ⟨a, b⟩ := p
    unfold lookupS at ih ⊢
    simp only [List.find?_cons, lookK]
    by_cases h : k = a
    · subst h; simp
    · have : (a == k) = false := by simp; exact fun e => h e.symm
      simp only [this, if_neg h]
      exact ih

theorem lookK_map_val (l : List (Nat × Nat)) (f : Nat → Nat → Nat) (k : Nat) :
    lookK (l.map (fun p => (p.1, f p.1 p.2))) k = (lookK l k).map (f k) := by
  induction l with
  | nil => rfl
  | cons p t ih =>
    obtain ⟨a, b⟩ := p
    simp only [List.map_cons, lookK]
    by_cases h : k = a
    · subst h; simp
    · simp [h, ih]

theorem zip_ofPairs (l : List (Nat × Nat)) : (Shared.ofPairs l).ids.zip (Shared.ofPairs l).data = l := by
  simp only [Shared.ofPairs]
  induction l with
  | nil => rfl
  | cons p t ih => simp [ih]

/-- looking a shared type up in the abstraction = the value of the instance the descriptor names -/
theorem lookupS_absShared (pool : List (Nat × List (Nat × Nat))) {sh : Shared} (h : sh.ids.length = sh.data.length)
    (sid : Nat) : lookupS (absShared pool sh) sid = (sh.get? sid).map (instVal pool sid) := by
  obtain ⟨l, rfl⟩ := Shared.exists_pairs h
  rw [lookupS_eq_lookK, absShared, zip_ofPairs, Shared.get?_ofPairs]
  exact lookK_map_val l (instVal pool) sid

theorem lookupS_isSome (l : List (Nat × Nat)) (sid : Nat) : (lookupS l sid).isSome = l.any (·.1 == sid) := by
  unfold lookupS
  induction l with
  | nil => rfl
  | cons p t ih =>
    simp only [List.find?_cons, List.any_cons]
    cases h : p.1 == sid <;> simp [ih]

theorem map_fst_zip_eq {m : List Nat} {v : List Val} (h : v.length = m.length) : (m.zip v).map (·.1) = m := by
  exact List.map_fst_zip (Nat.le_of_eq h.symm)

theorem find_zip (m : List Nat) (v : List Val) (h : v.length = m.length) (c : Nat) :
    ((m.zip v).find? (·.1 == c)).map (·.2) =
      (match Mask.indexOf? m c with | none => none | some ci => some (v.getD ci none)) := by
  unfold Mask.indexOf?
  induction m generalizing v with
  | nil => simp
  | cons a t ih =>
    cases v with
    | nil => simp at h
    | cons x xs =>
      simp only [List.zip_cons_cons, List.find?_cons, List.idxOf_cons, List.length_cons]
      by_cases hac : a = c
      · subst hac; simp
      · have hb : (a == c) = false := by simpa using hac
        simp only [hb, cond_false]
        have := ih xs (by simpa using h)
        rw [this]
        by_cases hlt : List.idxOf c t < t.length
        · simp [hlt]
        · simp [hlt]

/-! ## reading the relation at one handle -/

theorem getComp_invalid {w : WM} {h : Handle} (c : CompId) (hv : w.isValid h = false) : w.getComp h c = none := by
  simp [WM.getComp, hv]
theorem hasComp_invalid {w : WM} {h : Handle} (c : CompId) (hv : w.isValid h = false) : w.hasComp h c = false := by
  simp [WM.hasComp, hv]
theorem hasShared_invalid {w : WM} {h : Handle} (sid : Nat) (hv : w.isValid h = false) : w.hasShared h sid = false := by
  simp [WM.hasShared, hv]
theorem archOf_invalid {w : WM} {h : Handle} (hv : w.isValid h = false) : w.archOf h = none := by
  simp [WM.archOf, hv]

/-- an invalid handle that was issued names a dead ordinal; a never-issued one names none -/
theorem valid_issued {c : CW} (hi : Inv c) (hb : Bounds c) {e : Handle} (hv : c.w.isValid e = true) : e ∈ c.issued := by
  rcases hi.tinv with ⟨g, tinv, hiss, _⟩
  have hl := (valid_iff_live_any tinv (Nat.le_of_lt hb.inRange) e).mp (by rw [← isValid_tab]; exact hv)
  have := tinv.live_issued e hl
  rw [hiss] at this
  exact List.mem_reverse.mp this

theorem issued_nodup {c : CW} (hi : Inv c) : c.issued.Nodup := by
  rcases hi.tinv with ⟨g, tinv, hiss, _⟩
  have := tinv.fresh.nodup
  rw [hiss] at this
  unfold List.Nodup at this ⊢
  rw [List.pairwise_reverse] at this
  exact this.imp (fun h => Ne.symm h)

/-- the shape of the relation at handle `e` -/
theorem rel_cases {c : CW} {s : WS} (hi : Inv c) (hb : Bounds c) (hr : Rel c s) (e : Handle) :
    (c.w.isValid e = false ∧ s.isAlive (ordOf c.issued e) = false) ∨
    (c.w.isValid e = true ∧ ∃ k ai i r ent, ordOf c.issued e = some k ∧ c.issued[k]? = some e ∧
      (c.w.arch ai).rows[i]? = some r ∧ r.ent = e ∧ c.w.locOf e = ⟨some ai, i⟩ ∧
      s.alive k = some ent ∧ entRel ent ⟨(c.w.arch ai).mask.zip r.vals, absShared c.w.pool (c.w.arch ai).shared⟩) := by
  cases hv : c.w.isValid e with
  | false =>
    left
    refine ⟨rfl, ?_⟩
    cases ho : ordOf c.issued e with
    | none => rfl
    | some k =>
      have := hr.ents k e (ordOf_some ho)
      rw [absEnt_invalid hv, optRel_none_right] at this
      simp [WS.isAlive, this]
  | true =>
    right
    refine ⟨rfl, ?_⟩
    have hmem := valid_issued hi hb hv
    cases ho : ordOf c.issued e with
    | none => exact absurd hmem ((ordOf_none_iff _ _).mp ho)
    | some k =>
      have hk := ordOf_some ho
      rcases absEnt_isSome_of_valid hi.live hi.rows hv with ⟨ai, i, r, hrow, hent, hloc, habs⟩
      have := hr.ents k e hk
      rw [habs, optRel_some_right] at this
      rcases this with ⟨ent, hal, hrel⟩
      exact ⟨k, ai, i, r, ent, rfl, hk, hrow, hent, hloc, hal, hrel⟩

/-- `isEntityValid` -/
theorem valid_refines {c : CW} {s : WS} (hi : Inv c) (hb : Bounds c) (hr : Rel c s) (e : Handle) :
    c.w.isValid e = s.isAlive (ordOf c.issued e) := by
  rcases rel_cases hi hb hr e with ⟨hv, ha⟩ | ⟨hv, k, _, _, _, ent, ho, _, _, _, _, hal, _⟩
  · rw [hv, ha]
  · rw [hv, ho]; simp [WS.isAlive, hal]

theorem has_refines {c : CW} {s : WS} (hi : Inv c) (hb : Bounds c) (hr : Rel c s) (e : Handle) (comp : CompId) :
    c.w.hasComp e comp = (match ordOf c.issued e with
      | some k => (match s.alive k with | some ent => (compSet ent).contains comp | none => false)
      | none => false) := by
  rcases rel_cases hi hb hr e with ⟨hv, ha⟩ | ⟨hv, k, ai, i, r, ent, ho, _, hrow, _, hloc, hal, hrel⟩
  · rw [hasComp_invalid _ hv]
    cases ho : ordOf c.issued e with
    | none => rfl
    | some k =>
      rw [ho] at ha
      simp only [WS.isAlive] at ha
      cases hal : s.alive k with
      | none => simp only [hal]
      | some ent => rw [hal] at ha; cases ha
  · rw [ho, hasComp_of_loc hloc, hv]
    simp only [hal, Bool.true_and]
    unfold compSet
    rw [hrel.1]
    simp only
    rw [map_fst_zip_eq (hi.rows.vals ai i r hrow)]

theorem hasShared_refines {c : CW} {s : WS} (hi : Inv c) (hb : Bounds c) (hr : Rel c s) (e : Handle) (sid : Nat) :
    c.w.hasShared e sid = (match ordOf c.issued e with
      | some k => (match s.alive k with | some ent => ent.shared.any (·.1 == sid) | none => false)
      | none => false) := by
  rcases rel_cases hi hb hr e with ⟨hv, ha⟩ | ⟨hv, k, ai, i, r, ent, ho, _, hrow, _, hloc, hal, hrel⟩
  · rw [hasShared_invalid _ hv]
    cases ho : ordOf c.issued e with
    | none => rfl
    | some k =>
      rw [ho] at ha
      simp only [WS.isAlive] at ha
      cases hal : s.alive k with
      | none => simp only [hal]
      | some ent => rw [hal] at ha; cases ha
  · rw [ho, hasShared_of_loc hloc, hv]
    simp only [hal, Bool.true_and]
    have hai : ai < c.w.archs.length := lt_of_row hrow
    have hmem : c.w.arch ai ∈ c.w.archs := by
      rw [arch_def, List.getD_eq_getElem?_getD, List.getElem?_eq_getElem hai]
      exact List.getElem_mem hai
    have hwf := (hi.shared _ hmem).1
    rw [← lookupS_isSome, hrel.2 sid]
    simp only
    rw [lookupS_absShared _ hwf.1, Option.isSome_map]
    cases hh : (c.w.arch ai).shared.has sid with
    | true => exact ((Shared.has_iff_get? sid hwf.1).mp hh).symm
    | false =>
      cases hg : ((c.w.arch ai).shared.get? sid).isSome with
      | false => rfl
      | true => rw [(Shared.has_iff_get? sid hwf.1).mpr hg] at hh; cases hh

theorem get_refines {c : CW} {s : WS} (hi : Inv c) (hb : Bounds c) (hr : Rel c s) (e : Handle) (comp : CompId) :
    c.w.getComp e comp = (match ordOf c.issued e with
      | some k => (match s.alive k with
        | some ent => (ent.comps.find? (·.1 == comp)).map (·.2)
        | none => none)
      | none => none) := by
  rcases rel_cases hi hb hr e with ⟨hv, ha⟩ | ⟨hv, k, ai, i, r, ent, ho, _, hrow, _, hloc, hal, hrel⟩
  · rw [getComp_invalid _ hv]
    cases ho : ordOf c.issued e with
    | none => rfl
    | some k =>
      rw [ho] at ha
      simp only [WS.isAlive] at ha
      cases hal : s.alive k with
      | none => simp only [hal]
      | some ent => rw [hal] at ha; cases ha
  · rw [ho, getComp_of_loc hloc hrow, hv]
    simp only [hal, if_true]
    rw [hrel.1]
    simp only
    rw [find_zip _ _ (hi.rows.vals ai i r hrow)]
    cases (c.w.arch ai).mask.indexOf? comp <;> rfl

theorem archOf_refines {c : CW} {s : WS} (hi : Inv c) (hb : Bounds c) (hr : Rel c s) (e : Handle) :
    (c.w.archOf e).isSome = s.isAlive (ordOf c.issued e) := by
  rcases rel_cases hi hb hr e with ⟨hv, ha⟩ | ⟨hv, k, ai, i, r, ent, ho, _, hrow, _, hloc, hal, hrel⟩
  · rw [archOf_invalid hv, ha]; rfl
  · rw [archOf_of_loc hloc, hv, ho]; simp [WS.isAlive, hal]

end Mustache.Proofs.Refine

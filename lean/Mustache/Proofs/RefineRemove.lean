import Mustache.Proofs.RefineAssign
/-!
# Refinement, stage (c): unlocked `removeComponent`
-/
namespace Mustache.Proofs.Refine
open Mustache.Model Mustache.Spec
open Mustache.Proofs.IdTable (tabOf Ghost TInv)
open Mustache.Proofs.Rows

variable (info : CompId → CompInfo)

/-- a step that changes nothing on either side and reports `ok` without callbacks -/
theorem noop_refines {c : CW} {s : WS} (hi : Inv c) (hr : Rel c s) (op : Op Handle) (hu : isUnlockOp op = false)
    (hstep : c.step info op = (c, .ok, [])) (hs : s.step info (op.mapRef (ordOf c.issued)) = (s, .ok, [])) :
    StepRefines info c s op := by
  unfold StepRefines
  rw [hstep, hs]
  exact ⟨hi, hr, agree_ok_nil _ _ hu⟩

/-- the spec's `rebuild` after a removal, for a component that stays -/
theorem remove_specPair (pm : Mask) (pvals : List Val) (hl : pvals.length = pm.length) (comp : CompId)
    (x : CompId) (hx : x ∈ pm) (hne : x ≠ comp) :
    specPair info ((pm.zip pvals).filter (·.1 != comp)) [] x = (x, pvals.getD (pm.idxOf x) none) := by
  unfold specPair
  have : ∀ l : List (CompId × Val), (l.filter (·.1 != comp)).find? (·.1 == x) = l.find? (·.1 == x) := by
    intro l
    induction l with
    | nil => rfl
    | cons p t ih =>
      by_cases hp : p.1 = x
      · have h1 : (p.1 != comp) = true := by rw [hp]; simpa using hne
        have h2 : (p.1 == x) = true := by simpa using hp
        simp only [List.filter_cons, h1, if_true, List.find?_cons, h2]
      · have h2 : (p.1 == x) = false := by simpa using hp
        by_cases h1 : (p.1 != comp) = true
        · simp only [List.filter_cons, h1, if_true, List.find?_cons, h2]; exact ih
        · simp only [List.filter_cons, h1, Bool.false_eq_true, if_false, List.find?_cons, h2]; exact ih
  rw [this, find_zip_some hl hx]

/-- … and for a component the entity did not have: default-constructed -/
theorem remove_specPair_new (pm : Mask) (pvals : List Val) (comp : CompId) (x : CompId) (hx : x ∉ pm) :
    specPair info ((pm.zip pvals).filter (·.1 != comp)) [] x = (x, defaultVal info x) := by
  unfold specPair
  have : ((pm.zip pvals).filter (·.1 != comp)).find? (·.1 == x) = none := by
    rw [List.find?_eq_none]
    intro p hp
    have : p.1 ∈ pm := (List.of_mem_zip (List.mem_filter.mp hp).1).1
    simp only [beq_iff_eq]
    intro e; exact hx (e ▸ this)
  rw [this]; rfl

theorem zip_specPair_new (pm : Mask) (pvals : List Val) (x : CompId) (hx : x ∉ pm) :
    specPair info (pm.zip pvals) [] x = (x, defaultVal info x) := by
  unfold specPair
  rw [find_zip_none hx]; rfl

theorem zip_specPair_old (pm : Mask) (pvals : List Val) (hl : pvals.length = pm.length) (x : CompId) (hx : x ∈ pm) :
    specPair info (pm.zip pvals) [] x = (x, pvals.getD (pm.idxOf x) none) := by
  unfold specPair
  rw [find_zip_some hl hx]

theorem remove_unlocked_refines {c : CW} {s : WS} (hi : Inv c) (hb : Bounds c) (hr : Rel c s)
    (hl : c.w.isLocked = false) (t : Nat) (e : Handle) (comp : CompId) :
    StepRefines info c s (.remove t e comp) := by
  obtain ⟨w, iss⟩ := c
  have hl2 : w.isLocked = false := hl
  have hnl := unlocked_spec hr hl
  rcases rel_cases hi hb hr e with ⟨hinv, hdead⟩ | ⟨hv, k, pi, i, prow, ent, hord, hk, hrow, hent, hloc, hal, hrel⟩
  · -- invalid handle: nothing happens
    have hinv2 : w.isValid e = false := hinv
    apply noop_refines info hi hr _ rfl
    · simp only [CW.step, WM.step, WM.removeComp, hl2, hinv2, Bool.false_eq_true, if_false, Bool.not_false, if_true,
        issueOut]
    · simp only [Op.mapRef, WS.step, hnl, if_false]
      cases ho : ordOf iss e with
      | none => rfl
      | some k =>
        have ho' : ordOf (⟨w, iss⟩ : CW).issued e = some k := ho
        rw [ho'] at hdead
        simp only [WS.isAlive] at hdead
        have : s.alive k = none := by
          cases h : s.alive k with
          | none => rfl
          | some x => rw [h] at hdead; cases hdead
        simp only [WS.doRemove, this]
  have hv2 : w.isValid e = true := hv
  have hord2 : ordOf iss e = some k := hord
  have hk2 : iss[k]? = some e := hk
  have hrow2 : (w.arch pi).rows[i]? = some prow := hrow
  have hloc2 : w.locOf e = ⟨some pi, i⟩ := hloc
  have hla : (w.locOf e).arch = some pi := by rw [hloc2]
  have hidx : (w.locOf e).idx = i := by rw [hloc2]
  have hpi : pi < w.archs.length := lt_of_row hrow2
  have hpm : MaskOk (w.arch pi).mask := hi.keys.masks pi hpi
  have hplen : prow.vals.length = (w.arch pi).mask.length := hi.rows.vals pi i prow hrow2
  have hcs : compSet ent = (w.arch pi).mask := compSet_of_rel hrel.1 hplen
  have hdeps : s.deps = w.deps := hr.deps
  rcases Classical.em (comp ∉ (w.arch pi).mask) with hcm | hcm
  · -- the entity lacks the component
    have hcc : (w.arch pi).mask.contains comp = false := contains_false_iff.mpr hcm
    apply noop_refines info hi hr _ rfl
    · simp only [CW.step, WM.step, WM.removeComp, hl2, hv2, Bool.false_eq_true, if_false, Bool.not_true, hla, hcc,
        Bool.not_false, if_true, issueOut]
    · simp only [Op.mapRef, WS.step, hnl, if_false, hord2, WS.doRemove, hal, hcs, hcc, Bool.not_false, if_true]
  have hcm : comp ∈ (w.arch pi).mask := Classical.not_not.mp hcm
  have hcc : (w.arch pi).mask.contains comp = true := by simpa using hcm
  generalize hmdef : Mask.erase (w.arch pi).mask comp = m at *
  generalize htmdef : closedMask w.deps m = tm at *
  have hmok : MaskOk m := by rw [← hmdef]; exact maskOk_erase hpm comp
  have htmok : MaskOk tm := by rw [← htmdef]; exact maskOk_closedMask w.deps hmok
  have hafter : closed s.deps (Mask.erase (w.arch pi).mask comp) = tm := by
    rw [hdeps, hmdef, ← htmdef]; rfl
  rcases getArch_move info hi.rows m (w.arch pi).shared e pi i [] prow hrow2 hent (fun _ => hmok) with
    ⟨hti, hnone⟩ | ⟨hti, w2, cbs, hsome, hm, hmask, hshd⟩
  · -- the closure puts the component back: same archetype, nothing happens
    have hmodel : w.removeComp info t e comp = ((w.getArch m (w.arch pi).shared).1, []) := by
      unfold WM.removeComp
      simp only [hl2, Bool.false_eq_true, if_false, hv2, Bool.not_true, hla, hcc, hidx, hmdef]
      rw [hnone]
    have hw1 : (w.getArch m (w.arch pi).shared).1 = w := by
      rcases Mustache.Proofs.Rows.getArch_cases w m (w.arch pi).shared with ⟨h, _⟩ | ⟨_, h, _⟩
      · exact h
      · rw [hti] at h; omega
    have htm : tm = (w.arch pi).mask := by
      have := (getArch_key w m (w.arch pi).shared).1
      rw [hti, hw1, htmdef] at this
      exact this.symm
    apply noop_refines info hi hr _ rfl
    · simp only [CW.step, WM.step, hmodel, hw1, issueOut]
    · simp only [Op.mapRef, WS.step, hnl, if_false, hord2, WS.doRemove, hal, hcs, hcc, Bool.not_true, Bool.false_eq_true,
        hafter, htm, beq_self_eq_true, if_true]
  · -- the entity moves
    have hmodel : w.removeComp info t e comp = (w2, cbs) := by
      unfold WM.removeComp
      simp only [hl2, Bool.false_eq_true, if_false, hv2, Bool.not_true, hla, hcc, hidx, hmdef]
      rw [hsome]
    rw [htmdef] at hm hmask
    have hks : KeysSame (w.getArch m (w.arch pi).shared).1 w2 :=
      externalMove_keysSame info _ _ e pi i [] (w2, cbs) hsome (getArch_idx_lt w m (w.arch pi).shared)
    have hshin : SharedIn w.pool (w.arch pi).shared := hi.shared _ (arch_mem hpi)
    have hinv' : Inv ⟨w2, iss⟩ := moved_inv (m := m) (sh := (w.arch pi).shared) hi hv2 hshin hm hks
    have hpool' : w2.pool = w.pool := hm.same.pool
    have htilt : (w.getArch m (w.arch pi).shared).2 < w2.archs.length := by
      rcases hm.here with ⟨n, _, hr'⟩; exact lt_of_row hr'
    have hsh' : SharedIn w.pool (w2.arch (w.getArch m (w.arch pi).shared).2).shared := by
      have := hinv'.shared _ (arch_mem htilt)
      rw [← hpool']; exact this
    -- the target is another archetype, so its mask differs
    have hne : tm ≠ (w.arch pi).mask := by
      intro heq
      have hk1 : KeysOK (w.getArch m (w.arch pi).shared).1 := keysOK_getArch hi.keys m _ hmok
      have hpi1 : pi < (w.getArch m (w.arch pi).shared).1.archs.length :=
        Nat.lt_of_lt_of_le hpi (getArch_length_le w m _)
      have hkey := getArch_key w m (w.arch pi).shared
      have ha : (w.getArch m (w.arch pi).shared).1.arch pi = w.arch pi := getArch_arch_lt w _ _ pi hpi
      exact hti (hk1.distinct _ pi (getArch_idx_lt w m _) hpi1 (by rw [hkey.1, ha, htmdef, heq]) (by rw [hkey.2, ha]))
    have hbne : (tm == (w.arch pi).mask) = false := by simpa using hne
    have hs : s.step info (Op.mapRef (ordOf iss) (.remove t e comp)) =
        (s.setEnt k (some { ent with
            comps := rebuild info (if tm.contains comp then ent.comps else ent.comps.filter (·.1 != comp)) tm [] }),
          .ok, cbDiff info k (w.arch pi).mask tm) := by
      simp only [Op.mapRef, WS.step, hnl, if_false, hord2, WS.doRemove, hal, hcs, hcc, Bool.not_true, Bool.false_eq_true,
        hafter, hbne]
    have hcomps : rebuild info (if tm.contains comp then ent.comps else ent.comps.filter (·.1 != comp)) tm [] =
        (w2.arch (w.getArch m (w.arch pi).shared).2).mask.zip (carry info tm (w.arch pi).mask prow []) := by
      rw [hmask]
      symm
      apply zip_eq_rebuild info (maskOk_nodup htmok) (carry_length info _ _ _ _)
      intro x hx
      rw [carry_get info _ _ _ _ x hx, hrel.1]
      by_cases hxp : x ∈ (w.arch pi).mask
      · rw [carried_of_mem info _ _ _ x hxp]
        cases hct : tm.contains comp with
        | true => simp only [if_true]; exact zip_specPair_old info _ _ hplen x hxp
        | false =>
          simp only [Bool.false_eq_true, if_false]
          have hxc : x ≠ comp := fun e => by
            rw [e] at hx
            have : tm.contains comp = true := by simpa using hx
            rw [hct] at this; cases this
          exact remove_specPair info _ _ hplen comp x hxp hxc
      · rw [carried_of_not_mem info _ _ _ x hxp]
        have hnil : ([] : Mask).contains x = false := rfl
        simp only [hnil, Bool.false_eq_true, if_false]
        cases hct : tm.contains comp with
        | true => simp only [if_true]; exact zip_specPair_new info _ _ x hxp
        | false => simp only [Bool.false_eq_true, if_false]; exact remove_specPair_new info _ _ comp x hxp
    have hrel' := moved_rel (sh := (w.arch pi).shared) hi hr hk2 hv2 hshin hm hsh' hshd
      { ent with comps := rebuild info (if tm.contains comp then ent.comps else ent.comps.filter (·.1 != comp)) tm [] }
      hcomps (fun sid => hrel.2 sid)
    have hstep : CW.step info ⟨w, iss⟩ (.remove t e comp) = (⟨w2, iss⟩, .ok, cbs) := by
      simp only [CW.step, WM.step, hmodel, issueOut]
    unfold StepRefines
    rw [hstep, hs]
    refine ⟨hinv', hrel', trivial, ?_⟩
    simp only [isUnlockOp, Bool.false_eq_true, if_false]
    -- callbacks
    have hw1pi : (w.getArch m (w.arch pi).shared).1.arch pi = w.arch pi := getArch_arch_lt w _ _ pi hpi
    have hw1ti : ((w.getArch m (w.arch pi).shared).1.arch (w.getArch m (w.arch pi).shared).2).mask = tm := by
      rw [← htmdef]; exact (getArch_key w m (w.arch pi).shared).1
    have hcbs : cbs = moveCbs info (w.getArch m (w.arch pi).shared).1 (w.getArch m (w.arch pi).shared).2 e pi [] ++
        ((w.getArch m (w.arch pi).shared).1.archRemove info pi i
          ((w.getArch m (w.arch pi).shared).1.arch (w.getArch m (w.arch pi).shared).2).mask).2 := by
      have := externalMove_eq2 info (w.getArch m (w.arch pi).shared).1 (w.getArch m (w.arch pi).shared).2 e pi i [] hti
      rw [hsome] at this
      exact (Prod.mk.inj (Option.some.inj this)).2
    have hrow1 : ((w.getArch m (w.arch pi).shared).1.arch pi).rows[i]? = some prow := by rw [hw1pi]; exact hrow2
    have hmove : moveCbs info (w.getArch m (w.arch pi).shared).1 (w.getArch m (w.arch pi).shared).2 e pi [] =
        (tm.filter (fun c => (info c).callbacks && !(w.arch pi).mask.contains c)).map (Cb.assign · e) := by
      rw [moveCbs, hw1pi, hw1ti]
      congr 1
      apply List.filter_congr
      intro x _
      have hnil : ([] : Mask).contains x = false := rfl
      rw [hnil]
      cases (w.arch pi).mask.contains x <;> cases (info x).callbacks <;> rfl
    unfold cbsAgree
    rw [hcbs, hmove, archRemove_cbs info _ pi i _ prow hrow1, hw1pi, hw1ti, hent, List.map_append,
      cbAbs_assign_map hord2, cbAbs_remove_map hord2]
    unfold cbDiff
    rw [List.map_append]

end Mustache.Proofs.Refine

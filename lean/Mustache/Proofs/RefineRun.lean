import Mustache.Proofs.RefineCheck
/-!
# Refinement: initial states, joint runs of model and spec over a history
-/
namespace Mustache.Proofs.Refine
open Mustache.Model Mustache.Spec
open Mustache.Proofs.IdTable (tabOf Ghost TInv)
open Mustache.Proofs.Rows

variable (info : CompId → CompInfo)

/-! ## initial states -/

theorem init_inv (wid n : Nat) : Inv (CW.init wid n) :=
  { tinv := ⟨Ghost.init, Mustache.Proofs.IdTable.init_inv wid, rfl, fun h => by simp [Ghost.init, createHandles, CW.init]⟩
    pendNodup := by simp [createHandles, CW.init]
    rows := by constructor <;> intro ai i r h <;> simp [WM.arch, CW.init] at h
    keys := ⟨fun _ h => absurd h (by simp [CW.init]), fun _ _ h => absurd h (by simp [CW.init])⟩
    live := by
      constructor
      · intro e h; simp [WM.isValid, CW.init] at h
      · intro ai i r h; simp [WM.arch, CW.init] at h
    pool := poolInv_of_pool_nil rfl
    shared := fun a ha => by simp [CW.init] at ha
    depsB := fun p hp => by simp [CW.init] at hp
    locsCover := Nat.le_refl _
    bufLe := by simp [CW.init]
    bufLen := fun h => by simp [CW.init] at h
    bufEmpty := fun _ b hb => by simp [CW.init] at hb
    bufKnown := fun b hb => by simp [CW.init] at hb
    markedKnown := fun h hm => by simp [CW.init] at hm
    markedRange := fun h hm => by simp [CW.init] at hm
    markedSorted := List.Pairwise.nil }

theorem init_rel (wid n : Nat) : Rel (CW.init wid n) (specInit n) :=
  { len := rfl
    ents := fun o h ho => by simp [CW.init] at ho
    deps := rfl
    lockDepth := rfl
    nthreads := rfl
    buffers := .nil
    marked := fun o => by
      constructor
      · rintro ⟨hm, _⟩; simp [specInit] at hm
      · rintro ⟨h, hm, _⟩; simp [CW.init] at hm
    markedLt := fun o hm => by simp [specInit] at hm
    markedOld := fun o hm => by simp [specInit] at hm
    markedNodup := List.nodup_nil }

theorem init_bounds (wid n : Nat) : Bounds (CW.init wid n) :=
  ⟨by simp [CW.init], fun h hh => by simp [CW.init] at hh⟩

/-! ## joint runs -/

/-- model and spec run side by side; the spec reads every handle through the ordinal map of the moment -/
def runBoth (c : CW) (s : WS) : List (Op Handle) → CW × WS
  | [] => (c, s)
  | op :: rest => runBoth (c.step info op).1 (s.step info (op.mapRef (ordOf c.issued))).1 rest

/-- the history keeps the contract and the range side conditions at every step -/
def WfRun (c : CW) : List (Op Handle) → Prop
  | [] => True
  | op :: rest => OpWf c op ∧ Bounds (c.step info op).1 ∧ WfRun (c.step info op).1 rest

/-- every observation (result and callbacks) of the run agrees -/
def AllAgree (c : CW) (s : WS) : List (Op Handle) → Prop
  | [] => True
  | op :: rest =>
    stepAgree (c.step info op).1 op (c.step info op).2.1 (c.step info op).2.2
      (s.step info (op.mapRef (ordOf c.issued))).2.1 (s.step info (op.mapRef (ordOf c.issued))).2.2 ∧
    AllAgree (c.step info op).1 (s.step info (op.mapRef (ordOf c.issued))).1 rest

def wfRunB (c : CW) : List (Op Handle) → Bool
  | [] => true
  | op :: rest => opWfB c op && wfRunB (c.step info op).1 rest

/-- the contract part of `WfRun` only (what `wfRunB` decides) -/
def OpWfRun (c : CW) : List (Op Handle) → Prop
  | [] => True
  | op :: rest => OpWf c op ∧ OpWfRun (c.step info op).1 rest

theorem opWfRun_of_check : ∀ (ops : List (Op Handle)) (c : CW), wfRunB info c ops = true → OpWfRun info c ops
  | [], _, _ => trivial
  | op :: rest, c, h => by
    simp only [wfRunB, Bool.and_eq_true] at h
    exact ⟨opWfB_sound h.1, opWfRun_of_check rest _ h.2⟩

/-- the induction over a history, given the refinement of every single step the history contains -/
theorem run_refines_of_steps
    (hstep : ∀ (c : CW) (s : WS) (op : Op Handle), Inv c → Bounds c → Rel c s → OpWf c op →
      Bounds (c.step info op).1 → StepRefines info c s op) :
    ∀ (ops : List (Op Handle)) (c : CW) (s : WS), Inv c → Bounds c → Rel c s → WfRun info c ops →
      Inv (runBoth info c s ops).1 ∧ Rel (runBoth info c s ops).1 (runBoth info c s ops).2 ∧ AllAgree info c s ops
  | [], _, _, hi, _, hr, _ => ⟨hi, hr, trivial⟩
  | op :: rest, c, s, hi, hb, hr, hwf => by
    have h1 := hstep c s op hi hb hr hwf.1 hwf.2.1
    have ih := run_refines_of_steps hstep rest _ _ h1.1 hwf.2.1 h1.2.1 hwf.2.2
    exact ⟨ih.1, ih.2.1, h1.2.2, ih.2.2⟩

/-! ## the range side conditions, executably -/

def boundsB (c : CW) : Bool :=
  decide (c.w.slots.length < 2^30 - 1) && c.issued.all (fun h => decide (h.ver + 1 < 2^24))

theorem boundsB_sound {c : CW} (h : boundsB c = true) : Bounds c := by
  unfold boundsB at h
  simp only [Bool.and_eq_true, decide_eq_true_eq, List.all_eq_true] at h
  exact ⟨h.1, h.2⟩

/-- contract and range conditions at every step of a history, executably -/
def wfRunFullB (c : CW) : List (Op Handle) → Bool
  | [] => true
  | op :: rest => opWfB c op && boundsB (c.step info op).1 && wfRunFullB (c.step info op).1 rest

theorem wfRun_of_check : ∀ (ops : List (Op Handle)) (c : CW), wfRunFullB info c ops = true → WfRun info c ops
  | [], _, _ => trivial
  | op :: rest, c, h => by
    simp only [wfRunFullB, Bool.and_eq_true] at h
    exact ⟨opWfB_sound h.1.1, boundsB_sound h.1.2, wfRun_of_check rest _ h.2⟩

/-! ## a concrete history (non-vacuity of the hypotheses) -/

/-- five-field component descriptions: constructible with default `c + 100`, callbacks on the even ids -/
def exInfo : CompId → CompInfo := fun c => ⟨true, some (c + 100), none, c % 2 == 0, false⟩

def exH (i v : Nat) : Handle := ⟨i, v, 0⟩

/-- create, assign, lock, deferred create + assign from two threads, unlock (flush), destroyNow, a creation that
recycles the freed id, remove, clone -/
def exHistory : List (Op Handle) :=
  [ .create 0 [0, 1] [],
    .assign 0 (exH 0 0) 2 (some 5),
    .lock,
    .create 0 [0] [],
    .assign 0 (exH 1 0) 4 (some 7),
    .create 1 [2] [3],
    .assign 1 (exH 2 0) 0 none,
    .unlock,
    .destroyNow 0 (exH 0 0),
    .create 0 [2] [],
    .remove 0 (exH 1 0) 4,
    .clone (exH 2 0) ]

/-- a LATE dependency declaration on a held master: entity 0 holds component 0, then `0 → 1` is declared (its
archetype `[0]` is no longer closed); a deferred re-assignment of the held component (the entity stays in its
archetype), `assignShared` (archetype lookup: the entity gains component 1), a removal the closure undoes, reads -/
def exLateHistory : List (Op Handle) :=
  [ .create 0 [0] [],
    .dep 0 [1],
    .lock,
    .assign 0 (exH 0 0) 0 (some 5),
    .unlock,
    .get (exH 0 0) 0,
    .has (exH 0 0) 1,
    .sassign (exH 0 0) 7 3,
    .has (exH 0 0) 1,
    .remove 0 (exH 0 0) 1,
    .get (exH 0 0) 0 ]

end Mustache.Proofs.Refine

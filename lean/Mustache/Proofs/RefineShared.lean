import Mustache.Proofs.RefineUpdate
/-!
# Refinement, stage (d): `assignShared`, `removeSharedComponent`
-/
namespace Mustache.Proofs.Refine
open Mustache.Model Mustache.Spec
open Mustache.Proofs.IdTable (tabOf Ghost TInv)
open Mustache.Proofs.Rows

variable (info : CompId → CompInfo)

theorem lookupS_cons (p : Nat × Nat) (t : List (Nat × Nat)) (sid : Nat) :
    lookupS (p :: t) sid = if p.1 = sid then some p.2 else lookupS t sid := by
  unfold lookupS
  simp only [List.find?_cons]
  by_cases h : p.1 = sid
  · simp [h]
  · have : (p.1 == sid) = false := by simpa using h
    simp [this, h]

theorem lookupS_setShared (l : List (Nat × Nat)) (sid v sid' : Nat) :
    lookupS (setShared l sid v) sid' = if sid' = sid then some v else lookupS l sid' := by
  unfold setShared
  by_cases ha : l.any (·.1 == sid) = true
  · rw [if_pos ha]
    unfold lookupS
    rw [find?_map_fst (fun p => if p.1 == sid then (sid, v) else p) (by
      intro p
      by_cases hp : p.1 = sid
      · simp [hp]
      · have : (p.1 == sid) = false := by simpa using hp
        simp [this])]
    by_cases hs : sid' = sid
    · subst hs
      rcases List.any_eq_true.mp ha with ⟨q, hq, hqs⟩
      cases hf : l.find? (·.1 == sid') with
      | none => exact absurd hqs (by simpa using List.find?_eq_none.mp hf q hq)
      | some r =>
        have hr : r.1 = sid' := by simpa using List.find?_some hf
        simp [hr]
    · rw [if_neg hs]
      cases hf : l.find? (·.1 == sid') with
      | none => rfl
      | some r =>
        have hr : r.1 = sid' := by simpa using List.find?_some hf
        have hne : ¬ r.1 = sid := by rw [hr]; exact hs
        simp [hne]
  · rw [if_neg ha]
    unfold lookupS
    rw [List.find?_append]
    have hnone : l.find? (·.1 == sid) = none := by
      rw [List.find?_eq_none]
      intro p hp hps
      exact ha (List.any_eq_true.mpr ⟨p, hp, hps⟩)
    by_cases hs : sid' = sid
    · subst hs
      rw [hnone]; simp
    · rw [if_neg hs]
      have hb : (sid == sid') = false := by simpa using (fun e => hs e.symm)
      cases hf : l.find? (·.1 == sid') with
      | none => simp [List.find?_cons, hb]
      | some r => simp

theorem lookupS_filter_ne (l : List (Nat × Nat)) (sid sid' : Nat) :
    lookupS (l.filter (·.1 != sid)) sid' = if sid' = sid then none else lookupS l sid' := by
  unfold lookupS
  rw [List.find?_filter]
  by_cases hs : sid' = sid
  · subst hs
    rw [if_pos rfl]
    have : (fun a : Nat × Nat => decide ((a.1 != sid') = true ∧ (a.1 == sid') = true)) = fun _ => false := by
      funext a
      by_cases ha : a.1 = sid' <;> simp [ha]
    rw [this]
    simp
  · rw [if_neg hs]
    have : (fun a : Nat × Nat => decide ((a.1 != sid) = true ∧ (a.1 == sid') = true)) = fun a => a.1 == sid' := by
      funext a
      by_cases ha : a.1 = sid'
      · simp [ha, hs]
      · simp [ha]
    rw [this]

theorem zip_mem_iff_get? {sh : Shared} (h : sh.WF) (a b : Nat) :
    (a, b) ∈ sh.ids.zip sh.data ↔ sh.get? a = some b := by
  obtain ⟨l, hl, he⟩ := h.exists_pairs
  rw [he, zip_ofPairs, Shared.get?_ofPairs]
  exact ⟨lookK_of_mem_sorted hl, lookK_mem⟩

theorem sharedIn_remove {p : Pool} {sh : Shared} (h : SharedIn p sh) (sid : Nat) : SharedIn p (sh.remove sid) := by
  have hwf := Shared.wf_remove sid h.1
  refine ⟨hwf, ?_⟩
  intro q hq
  obtain ⟨a, b⟩ := q
  have hg := (zip_mem_iff_get? hwf a b).mp hq
  by_cases hs : a = sid
  · rw [hs, Shared.get?_remove_self sid h.1] at hg; cases hg
  · rw [Shared.get?_remove_ne h.1.1 hs] at hg
    exact h.2 (a, b) ((zip_mem_iff_get? h.1 a b).mpr hg)

theorem rebuild_zip_self {pm : Mask} {vals : List Val} (hn : pm.Nodup) (hl : vals.length = pm.length) :
    rebuild info (pm.zip vals) pm [] = pm.zip vals :=
  (zip_eq_rebuild info hn hl _ _ (fun x hx => by unfold specPair; rw [find_zip_some hl hx])).symm

theorem cbDiff_self (o : Nat) (m : Mask) : cbDiff info o m m = [] := by
  unfold cbDiff
  have : m.filter (fun c => (info c).callbacks && !m.contains c) = [] := by
    rw [List.filter_eq_nil_iff]; intro x hx; simp [hx]
  rw [this]; rfl

/-- on a closed component set the spec's pass through the archetype lookup changes nothing -/
theorem reclose_noop {w : WM} {iss : List Handle} {s : WS} (hi : Inv ⟨w, iss⟩) (hr : Rel ⟨w, iss⟩ s)
    {pi i : Nat} {prow : Row} {ent : SEnt} (hrow : (w.arch pi).rows[i]? = some prow)
    (hcomps : ent.comps = (w.arch pi).mask.zip prow.vals)
    (hclosed : closedMask w.deps (w.arch pi).mask = (w.arch pi).mask) (k : Nat) :
    rebuild info ent.comps (closed s.deps (compSet ent)) [] = ent.comps ∧
    cbDiff info k (compSet ent) (closed s.deps (compSet ent)) = [] := by
  have hpi : pi < w.archs.length := lt_of_row hrow
  have hpm : MaskOk (w.arch pi).mask := hi.keys.masks pi hpi
  have hplen : prow.vals.length = (w.arch pi).mask.length := hi.rows.vals pi i prow hrow
  have hcs : compSet ent = (w.arch pi).mask := compSet_of_rel hcomps hplen
  have hcl : closed s.deps (compSet ent) = compSet ent := by
    rw [hcs, hr.deps, closed_eq]; exact hclosed
  rw [hcl]
  refine ⟨?_, cbDiff_self info k _⟩
  rw [hcs, hcomps]
  exact rebuild_zip_self info (maskOk_nodup hpm) hplen

/-- `getArchetype(mask of e, sh)` + move of the valid entity `e` there: the shared part becomes `sh`; the component
set becomes its closure under the dependencies declared so far (the entity's archetype may predate a declaration):
kept components keep their values, the newly required ones are default-constructed and fire `afterAssign` -/
theorem reshare_refines {w : WM} {iss : List Handle} {s : WS} (hi : Inv ⟨w, iss⟩) (hr : Rel ⟨w, iss⟩ s)
    {e : Handle} {k pi i : Nat} {prow : Row} {ent : SEnt}
    (hk : iss[k]? = some e) (hv : w.isValid e = true) (hrow : (w.arch pi).rows[i]? = some prow) (hent : prow.ent = e)
    (hloc : w.locOf e = ⟨some pi, i⟩) (hal : s.alive k = some ent)
    (hrel : entRel ent ⟨(w.arch pi).mask.zip prow.vals, absShared w.pool (w.arch pi).shared⟩)
    (sh : Shared) (hshin : SharedIn w.pool sh) (xsh : List (Nat × Nat))
    (hx : ∀ sid', lookupS xsh sid' = lookupS (absShared w.pool sh) sid') :
    ((w.getArch (w.arch pi).mask sh).2 = pi ∧
      (w.getArch (w.arch pi).mask sh).1.externalMove info (w.getArch (w.arch pi).mask sh).2 e pi i [] = none ∧
      sh = (w.arch pi).shared ∧ closedMask w.deps (w.arch pi).mask = (w.arch pi).mask ∧
      Inv ⟨(w.getArch (w.arch pi).mask sh).1, iss⟩ ∧
      Rel ⟨(w.getArch (w.arch pi).mask sh).1, iss⟩ (s.setEnt k (some { ent with shared := xsh }))) ∨
    ((w.getArch (w.arch pi).mask sh).2 ≠ pi ∧ ∃ w2 cbs,
      (w.getArch (w.arch pi).mask sh).1.externalMove info (w.getArch (w.arch pi).mask sh).2 e pi i [] = some (w2, cbs) ∧
      Inv ⟨w2, iss⟩ ∧
      Rel ⟨w2, iss⟩ (s.setEnt k (some
        { comps := rebuild info ent.comps (closedMask w.deps (w.arch pi).mask) [], shared := xsh })) ∧
      cbsAgree iss cbs (cbDiff info k (w.arch pi).mask (closedMask w.deps (w.arch pi).mask))) := by
  have hpi : pi < w.archs.length := lt_of_row hrow
  have hpm : MaskOk (w.arch pi).mask := hi.keys.masks pi hpi
  have hplen : prow.vals.length = (w.arch pi).mask.length := hi.rows.vals pi i prow hrow
  have hpsh : SharedIn w.pool (w.arch pi).shared := hi.shared _ (arch_mem hpi)
  have hord : ordOf iss e = some k := ordOf_unique (issued_nodup (c := ⟨w, iss⟩) hi) hk
  generalize htmdef : closedMask w.deps (w.arch pi).mask = tm at *
  have htmok : MaskOk tm := by rw [← htmdef]; exact maskOk_closedMask w.deps hpm
  rcases getArch_move info hi.rows (w.arch pi).mask sh e pi i [] prow hrow hent (fun _ => hpm) with
    ⟨hti, hnone⟩ | ⟨hti, w2, cbs, hsome, hm, hmask, hshd⟩
  · left
    have hw1 : (w.getArch (w.arch pi).mask sh).1 = w := by
      rcases Mustache.Proofs.Rows.getArch_cases w (w.arch pi).mask sh with ⟨h, _⟩ | ⟨_, h, _⟩
      · exact h
      · rw [hti] at h; omega
    have hkey := getArch_key w (w.arch pi).mask sh
    have hdata := hkey.2
    rw [hti, hw1] at hdata
    have hcl : tm = (w.arch pi).mask := by
      have := hkey.1; rw [hti, hw1, htmdef] at this; exact this.symm
    have hsheq : sh = (w.arch pi).shared := (shared_eq_of_data hi.pool hpsh hshin hdata).symm
    refine ⟨hti, hnone, hsheq, hcl, by rw [hw1]; exact hi, ?_⟩
    rw [hw1]
    refine rel_entity (c := ⟨w, iss⟩) hi hr hk hv (OpFrame.refl hi.rows _) (fun _ => rfl) (PoolExt.refl _) rfl rfl rfl rfl rfl
      { ent with shared := xsh } ?_
    rw [absEnt_of_row hv hloc hrow]
    refine ⟨hrel.1, fun sid' => ?_⟩
    show lookupS xsh sid' = _
    rw [hx sid', hsheq]
  · right
    rw [htmdef] at hm hmask
    have hks : KeysSame (w.getArch (w.arch pi).mask sh).1 w2 :=
      externalMove_keysSame info _ _ e pi i [] (w2, cbs) hsome (getArch_idx_lt w _ sh)
    have hinv' : Inv ⟨w2, iss⟩ := moved_inv (m := (w.arch pi).mask) (sh := sh) hi hv hshin hm hks
    have hpool' : w2.pool = w.pool := hm.same.pool
    have htilt : (w.getArch (w.arch pi).mask sh).2 < w2.archs.length := by
      rcases hm.here with ⟨n, _, hr'⟩; exact lt_of_row hr'
    have hsh' : SharedIn w.pool (w2.arch (w.getArch (w.arch pi).mask sh).2).shared := by
      have := hinv'.shared _ (arch_mem htilt)
      rw [← hpool']; exact this
    have hcomps : rebuild info ent.comps tm [] =
        (w2.arch (w.getArch (w.arch pi).mask sh).2).mask.zip (carry info tm (w.arch pi).mask prow []) := by
      rw [hmask]
      symm
      apply zip_eq_rebuild info (maskOk_nodup htmok) (carry_length info _ _ _ _)
      intro x hx'
      rw [carry_get info _ _ _ _ x hx', hrel.1]
      by_cases hxp : x ∈ (w.arch pi).mask
      · rw [carried_of_mem info _ _ _ x hxp]
        exact zip_specPair_old info _ _ hplen x hxp
      · rw [carried_of_not_mem info _ _ _ x hxp]
        have hnil : ([] : Mask).contains x = false := rfl
        simp only [hnil, Bool.false_eq_true, if_false]
        exact zip_specPair_new info _ _ x hxp
    have hrel' := moved_rel (sh := sh) hi hr hk hv hshin hm hsh' hshd
      { comps := rebuild info ent.comps tm [], shared := xsh } hcomps hx
    refine ⟨hti, w2, cbs, hsome, hinv', hrel', ?_⟩
    -- callbacks
    have hw1pi : (w.getArch (w.arch pi).mask sh).1.arch pi = w.arch pi := getArch_arch_lt w _ _ pi hpi
    have hw1ti : ((w.getArch (w.arch pi).mask sh).1.arch (w.getArch (w.arch pi).mask sh).2).mask = tm := by
      rw [(getArch_key w (w.arch pi).mask sh).1, htmdef]
    have hcbs : cbs = moveCbs info (w.getArch (w.arch pi).mask sh).1 (w.getArch (w.arch pi).mask sh).2 e pi [] ++
        ((w.getArch (w.arch pi).mask sh).1.archRemove info pi i
          ((w.getArch (w.arch pi).mask sh).1.arch (w.getArch (w.arch pi).mask sh).2).mask).2 := by
      have := externalMove_eq2 info (w.getArch (w.arch pi).mask sh).1 (w.getArch (w.arch pi).mask sh).2 e pi i [] hti
      rw [hsome] at this
      exact (Prod.mk.inj (Option.some.inj this)).2
    have hrow1 : ((w.getArch (w.arch pi).mask sh).1.arch pi).rows[i]? = some prow := by rw [hw1pi]; exact hrow
    have hmove : moveCbs info (w.getArch (w.arch pi).mask sh).1 (w.getArch (w.arch pi).mask sh).2 e pi [] =
        (tm.filter (fun c => (info c).callbacks && !(w.arch pi).mask.contains c)).map (Cb.assign · e) := by
      rw [moveCbs, hw1pi, hw1ti]
      congr 1
      apply List.filter_congr
      intro x _
      have hnil : ([] : Mask).contains x = false := rfl
      rw [hnil]
      cases (w.arch pi).mask.contains x <;> cases (info x).callbacks <;> rfl
    unfold cbsAgree
    rw [hcbs, hmove, archRemove_cbs info _ pi i _ prow hrow1, hw1pi, hw1ti, hent, List.map_append,
      cbAbs_assign_map hord, cbAbs_remove_map hord]
    unfold cbDiff
    rw [List.map_append]

theorem frame_arch {w w' : WM} (h : FrameEq w w') (ai : Nat) : w'.arch ai = w.arch ai := by
  rw [arch_def, arch_def, h.archs]

theorem frame_locOf {w w' : WM} (h : FrameEq w w') (e : Handle) : w'.locOf e = w.locOf e := by
  unfold WM.locOf; rw [h.locs]

theorem frame_isValid {w w' : WM} (h : FrameEq w w') (e : Handle) : w'.isValid e = w.isValid e := by
  unfold WM.isValid; rw [h.slots, h.worldId]

theorem sassign_refines {c : CW} {s : WS} (hi : Inv c) (hb : Bounds c) (hr : Rel c s)
    (e : Handle) (sid v : Nat) (hv : c.w.isValid e = true) :
    StepRefines info c s (.sassign e sid v) := by
  obtain ⟨w, iss⟩ := c
  rcases rel_cases hi hb hr e with ⟨hinv, _⟩ | ⟨_, k, pi, i, prow, ent, hord, hk, hrow, hent, hloc, hal, hrel⟩
  · rw [hv] at hinv; cases hinv
  have hv2 : w.isValid e = true := hv
  have hord2 : ordOf iss e = some k := hord
  have hloc2 : w.locOf e = ⟨some pi, i⟩ := hloc
  have hla : (w.locOf e).arch = some pi := by rw [hloc2]
  have hidx : (w.locOf e).idx = i := by rw [hloc2]
  have hpi : pi < w.archs.length := lt_of_row hrow
  -- the pool step
  have hfe := frameEq_poolGet w sid v
  have hext := poolGet_ext w sid v
  have hp0 : PoolInv (w.poolGet sid v).1 := poolGet_inv sid v hi.pool
  have hi0 : Inv ⟨(w.poolGet sid v).1, iss⟩ := inv_frame (c := ⟨w, iss⟩) hi hfe hext hp0
  have hr0 : Rel ⟨(w.poolGet sid v).1, iss⟩ s := rel_frame (c := ⟨w, iss⟩) hi hr hfe hext
  have harch : (w.poolGet sid v).1.arch pi = w.arch pi := frame_arch hfe pi
  have hpsh : SharedIn w.pool (w.arch pi).shared := hi.shared _ (arch_mem hpi)
  have hmem := poolGet_mem w sid v
  have hshin : SharedIn (w.poolGet sid v).1.pool ((w.arch pi).shared.add sid (w.poolGet sid v).2) :=
    sharedIn_add (hpsh.ext hext) sid _ (List.mem_map.mpr ⟨_, hmem, rfl⟩)
  have hrel0 : entRel ent ⟨((w.poolGet sid v).1.arch pi).mask.zip prow.vals,
      absShared (w.poolGet sid v).1.pool ((w.poolGet sid v).1.arch pi).shared⟩ := by
    rw [harch, absShared_ext hpsh hext]; exact hrel
  have hx : ∀ sid', lookupS (setShared ent.shared sid v) sid' =
      lookupS (absShared (w.poolGet sid v).1.pool ((w.arch pi).shared.add sid (w.poolGet sid v).2)) sid' := by
    intro sid'
    rw [lookupS_setShared, lookupS_absShared _ hshin.1.1]
    by_cases hs : sid' = sid
    · subst hs
      rw [if_pos rfl, Shared.get?_add_self sid' _ hpsh.1.1]
      simp [instVal_of_mem hp0 hmem]
    · rw [if_neg hs, Shared.get?_add_ne _ hpsh.1.1 hs, ← lookupS_absShared _ hpsh.1.1, absShared_ext hpsh hext]
      exact hrel.2 sid'
  have hrs := reshare_refines info hi0 hr0 (e := e) (k := k) (pi := pi) (i := i) (prow := prow) (ent := ent) hk
    ((frame_isValid hfe e).trans hv2) (by rw [harch]; exact hrow) hent ((frame_locOf hfe e).trans hloc2) hal hrel0
    ((w.arch pi).shared.add sid (w.poolGet sid v).2) hshin (setShared ent.shared sid v) hx
  rw [harch] at hrs
  have hdeps0 : (w.poolGet sid v).1.deps = w.deps := hfe.deps
  have hpm : MaskOk (w.arch pi).mask := hi.keys.masks pi hpi
  have hplen : prow.vals.length = (w.arch pi).mask.length := hi.rows.vals pi i prow hrow
  have hcs : compSet ent = (w.arch pi).mask := compSet_of_rel hrel.1 hplen
  have hcl : closed s.deps (compSet ent) = closedMask w.deps (w.arch pi).mask := by rw [hcs, hr.deps, closed_eq]
  have hcl' : closed s.deps (w.arch pi).mask = closedMask w.deps (w.arch pi).mask := by rw [hr.deps, closed_eq]
  have hs : s.step info (Op.mapRef (ordOf iss) (.sassign e sid v)) =
      (s.setEnt k (some { comps := rebuild info ent.comps (closedMask w.deps (w.arch pi).mask) [],
                          shared := setShared ent.shared sid v }), .ok,
        cbDiff info k (w.arch pi).mask (closedMask w.deps (w.arch pi).mask)) := by
    simp only [Op.mapRef, WS.step, hord2, hal, hcs, hcl']
  unfold StepRefines
  rw [hs]
  rw [hdeps0] at hrs
  rcases hrs with ⟨_, hnone, _, hclosed, hinv', hrel'⟩ | ⟨_, w2, cbs, hsome, hinv', hrel', hcb⟩
  · have hstep : CW.step info ⟨w, iss⟩ (.sassign e sid v) =
        (⟨((w.poolGet sid v).1.getArch (w.arch pi).mask ((w.arch pi).shared.add sid (w.poolGet sid v).2)).1, iss⟩, .ok, []) := by
      simp only [CW.step, WM.step, WM.sassign, hla, hidx, harch, hnone, issueOut]
    rw [hstep]
    have hno := reclose_noop info hi hr hrow hrel.1 hclosed k
    rw [hcl, hcs] at hno
    rw [hno.1, hno.2]
    exact ⟨hinv', hrel', agree_ok_nil _ _ rfl⟩
  · have hstep : CW.step info ⟨w, iss⟩ (.sassign e sid v) = (⟨w2, iss⟩, .ok, cbs) := by
      simp only [CW.step, WM.step, WM.sassign, hla, hidx, harch, hsome, issueOut]
    rw [hstep]
    refine ⟨hinv', hrel', trivial, ?_⟩
    simp only [isUnlockOp, Bool.false_eq_true, if_false]
    exact hcb

theorem agree_ret_nil (c' : CW) (op : Op Handle) (b : Bool) (h : isUnlockOp op = false) :
    stepAgree c' op (.ret b) [] (.ret b) [] := by
  refine ⟨rfl, ?_⟩
  rw [h]; simp [cbsAgree]

theorem sremove_refines {c : CW} {s : WS} (hi : Inv c) (hb : Bounds c) (hr : Rel c s)
    (e : Handle) (sid : Nat) : StepRefines info c s (.sremove e sid) := by
  obtain ⟨w, iss⟩ := c
  rcases rel_cases hi hb hr e with ⟨hinv, hdead⟩ | ⟨hv, k, pi, i, prow, ent, hord, hk, hrow, hent, hloc, hal, hrel⟩
  · have hinv2 : w.isValid e = false := hinv
    have hstep : CW.step info ⟨w, iss⟩ (.sremove e sid) = (⟨w, iss⟩, .ret false, []) := by
      simp only [CW.step, WM.step, WM.sremove, hinv2, Bool.not_false, if_true, issueOut]
    have hs : s.step info (Op.mapRef (ordOf iss) (.sremove e sid)) = (s, .ret false, []) := by
      simp only [Op.mapRef, WS.step]
      cases ho : ordOf iss e with
      | none => rfl
      | some k =>
        have ho' : ordOf (⟨w, iss⟩ : CW).issued e = some k := ho
        rw [ho'] at hdead
        simp only [WS.isAlive] at hdead
        have : s.alive k = none := by
          cases h : s.alive k with
          | none => rfl
          | some x => rw [h] at hdead; cases hdead
        simp only [this]
    unfold StepRefines
    rw [hstep, hs]
    exact ⟨hi, hr, agree_ret_nil _ _ _ rfl⟩
  have hv2 : w.isValid e = true := hv
  have hord2 : ordOf iss e = some k := hord
  have hloc2 : w.locOf e = ⟨some pi, i⟩ := hloc
  have hla : (w.locOf e).arch = some pi := by rw [hloc2]
  have hidx : (w.locOf e).idx = i := by rw [hloc2]
  have hpi : pi < w.archs.length := lt_of_row hrow
  have hpsh : SharedIn w.pool (w.arch pi).shared := hi.shared _ (arch_mem hpi)
  have hany : ent.shared.any (·.1 == sid) = (w.arch pi).shared.has sid := by
    rw [← lookupS_isSome, hrel.2 sid]
    simp only
    rw [lookupS_absShared _ hpsh.1.1, Option.isSome_map]
    cases hh : (w.arch pi).shared.has sid with
    | true => exact (Shared.has_iff_get? sid hpsh.1.1).mp hh
    | false =>
      cases hg : ((w.arch pi).shared.get? sid).isSome with
      | false => rfl
      | true => rw [(Shared.has_iff_get? sid hpsh.1.1).mpr hg] at hh; cases hh
  cases hhas : (w.arch pi).shared.has sid with
  | false =>
    have hstep : CW.step info ⟨w, iss⟩ (.sremove e sid) = (⟨w, iss⟩, .ret false, []) := by
      simp only [CW.step, WM.step, WM.sremove, hv2, Bool.not_true, Bool.false_eq_true, if_false, hla, hhas, Bool.not_false,
        if_true, issueOut]
    have hs : s.step info (Op.mapRef (ordOf iss) (.sremove e sid)) = (s, .ret false, []) := by
      simp only [Op.mapRef, WS.step, hord2, hal, hany, hhas, Bool.false_eq_true, if_false]
    unfold StepRefines
    rw [hstep, hs]
    exact ⟨hi, hr, agree_ret_nil _ _ _ rfl⟩
  | true =>
    have hshin : SharedIn w.pool ((w.arch pi).shared.remove sid) := sharedIn_remove hpsh sid
    have hx : ∀ sid', lookupS (ent.shared.filter (·.1 != sid)) sid' =
        lookupS (absShared w.pool ((w.arch pi).shared.remove sid)) sid' := by
      intro sid'
      rw [lookupS_filter_ne, lookupS_absShared _ hshin.1.1]
      by_cases hs : sid' = sid
      · subst hs
        rw [if_pos rfl, Shared.get?_remove_self sid' hpsh.1]; rfl
      · rw [if_neg hs, Shared.get?_remove_ne hpsh.1.1 hs, ← lookupS_absShared _ hpsh.1.1]
        exact hrel.2 sid'
    have hrs := reshare_refines info hi hr (e := e) (k := k) (pi := pi) (i := i) (prow := prow) (ent := ent) hk hv2 hrow
      hent hloc2 hal hrel ((w.arch pi).shared.remove sid) hshin (ent.shared.filter (·.1 != sid)) hx
    have hpm : MaskOk (w.arch pi).mask := hi.keys.masks pi hpi
    have hplen : prow.vals.length = (w.arch pi).mask.length := hi.rows.vals pi i prow hrow
    have hcs : compSet ent = (w.arch pi).mask := compSet_of_rel hrel.1 hplen
    have hcl' : closed s.deps (w.arch pi).mask = closedMask w.deps (w.arch pi).mask := by rw [hr.deps, closed_eq]
    have hs : s.step info (Op.mapRef (ordOf iss) (.sremove e sid)) =
        (s.setEnt k (some { comps := rebuild info ent.comps (closedMask w.deps (w.arch pi).mask) [],
                            shared := ent.shared.filter (·.1 != sid) }), .ret true,
          cbDiff info k (w.arch pi).mask (closedMask w.deps (w.arch pi).mask)) := by
      simp only [Op.mapRef, WS.step, hord2, hal, hany, hhas, if_true, hcs, hcl']
    unfold StepRefines
    rw [hs]
    rcases hrs with ⟨_, _, hsheq, _, _, _⟩ | ⟨_, w2, cbs, hsome, hinv', hrel', hcb⟩
    · -- the descriptor without `sid` would be the descriptor with it
      exfalso
      have h1 := Shared.get?_remove_self sid hpsh.1
      rw [hsheq] at h1
      have h2 := (Shared.has_iff_get? sid hpsh.1.1).mp hhas
      rw [h1] at h2; cases h2
    · have hstep : CW.step info ⟨w, iss⟩ (.sremove e sid) = (⟨w2, iss⟩, .ret true, cbs) := by
        simp only [CW.step, WM.step, WM.sremove, hv2, Bool.not_true, Bool.false_eq_true, if_false, hla, hidx, hhas, hsome,
          issueOut]
      rw [hstep]
      refine ⟨hinv', hrel', rfl, ?_⟩
      simp only [isUnlockOp, Bool.false_eq_true, if_false]
      exact hcb

end Mustache.Proofs.Refine

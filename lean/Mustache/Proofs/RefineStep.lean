import Mustache.Proofs.RefineLocked2
/-!
# Refinement: generic tools for the unlocked operations on one entity

* `absEnt_step`: a `Step` on id `id` (C02 frame) leaves the abstraction of every handle with another id alone;
* `inv_entity` / `rel_entity`: `Inv` / `Rel` after an operation on a valid entity that does not touch the id table;
* key predicates through `getArch` / `KeysSame`.
-/
namespace Mustache.Proofs.Refine
open Mustache.Model Mustache.Spec
open Mustache.Proofs.IdTable (tabOf Ghost TInv)
open Mustache.Proofs.Rows

variable (info : CompId → CompInfo)

/-! ## the frame of the abstraction -/

theorem absEnt_step {w w' : WM} (hok : RowsOK w) (hl : LiveInv w) (hsh : SharedPooled w) {id : Nat}
    (hs : OpFrame w w' id) (he : PoolExt w.pool w'.pool) (h : Handle) (hne : h.id ≠ id) :
    absEnt w' h = absEnt w h := by
  have hv := hs.valid h hne
  cases hvw : w.isValid h with
  | false =>
    rw [absEnt_invalid hvw, absEnt_invalid (hv.trans hvw)]
  | true =>
    rcases hl.live_in h hvw with ⟨aj, j, r, hr, rfl⟩
    rcases hs.keeps aj j r hr hne with ⟨⟨j', hr', hl'⟩, hm, hsd⟩
    rw [absEnt_of_row (hv.trans hvw) (locOf_of_locs hl') hr', absEnt_of_row hvw (hok.locOf hr) hr, hm, hsd,
      absShared_ext (hsh _ (arch_mem (lt_of_row hr))) he]

/-! ## predicates on archetype keys -/

/-- `P` holds of the (mask, shared descriptor) of every archetype -/
def AllKeys (P : Mask → Shared → Prop) (w : WM) : Prop := ∀ a ∈ w.archs, P a.mask a.shared

theorem allKeys_iff (P : Mask → Shared → Prop) (w : WM) :
    AllKeys P w ↔ ∀ ai, ai < w.archs.length → P (w.arch ai).mask (w.arch ai).shared := by
  constructor
  · intro h ai hai; exact h _ (arch_mem hai)
  · intro h a ha
    rcases List.mem_iff_getElem.mp ha with ⟨i, hi, rfl⟩
    have := h i hi
    rw [arch_def, List.getD_eq_getElem?_getD, List.getElem?_eq_getElem hi] at this
    exact this

theorem AllKeys.keysSame {P : Mask → Shared → Prop} {w w' : WM} (h : AllKeys P w) (hk : KeysSame w w') :
    AllKeys P w' := by
  rw [allKeys_iff] at h ⊢
  intro ai hai
  rw [(hk.key ai).1, (hk.key ai).2]
  exact h ai (by rw [← hk.alen]; exact hai)

theorem AllKeys.getArch {P : Mask → Shared → Prop} {w : WM} (h : AllKeys P w) (m : Mask) (sh : Shared)
    (hp : P (closedMask w.deps m) sh) : AllKeys P (w.getArch m sh).1 := by
  obtain ⟨tail, ht, hcase⟩ := (getArch_post w m sh).prefix_
  intro a ha
  rw [ht] at ha
  rcases List.mem_append.mp ha with ha | ha
  · exact h a ha
  · rcases hcase with rfl | ⟨rfl, _⟩
    · cases ha
    · have : a = ⟨closedMask w.deps m, sh, []⟩ := by simpa using ha
      subst this; exact hp

theorem sharedPooled_iff (w : WM) : SharedPooled w ↔ AllKeys (fun _ sh => SharedIn w.pool sh) w := Iff.rfl

theorem archsClosed_iff (w : WM) :
    Mustache.Model.ArchsClosed w.deps w.archs ↔ AllKeys (fun m _ => ClosedUnder w.deps m) w := Iff.rfl

/-- two pooled descriptors with the same instance list are the same descriptor -/
theorem shared_eq_of_data {w : WM} (hp : PoolInv w) {a b : Shared} (ha : SharedIn w.pool a) (hb : SharedIn w.pool b)
    (hd : a.data = b.data) : a = b := by
  have hla := ha.1.1
  have hlb := hb.1.1
  have hids : a.ids = b.ids := by
    apply List.ext_getElem
    · rw [hla, hlb, hd]
    · intro i h1 h2
      have hda : i < a.data.length := by rw [← hla]; exact h1
      have hdb : i < b.data.length := by rw [← hlb]; exact h2
      have hma : (a.ids[i], a.data[i]) ∈ a.ids.zip a.data := by
        rw [List.mem_iff_getElem]
        exact ⟨i, by rw [List.length_zip]; omega, by simp⟩
      have hmb : (b.ids[i], b.data[i]) ∈ b.ids.zip b.data := by
        rw [List.mem_iff_getElem]
        exact ⟨i, by rw [List.length_zip]; omega, by simp⟩
      have pa := ha.2 _ hma
      have pb := hb.2 _ hmb
      simp only at pa pb
      rcases List.mem_map.mp pa with ⟨qa, hqa, hqa2⟩
      rcases List.mem_map.mp pb with ⟨qb, hqb, hqb2⟩
      have hdi : a.data[i] = b.data[i] := by simp [hd]
      exact hp.inst_sid _ _ qa hqa qb hqb (by rw [hqa2, hqb2, hdi])
  cases a; cases b
  simp only at hids hd
  rw [hids, hd]

/-! ## `Inv` after an operation that leaves the id table, the control fields and `marked` alone -/

theorem inv_entity {c : CW} (hi : Inv c) {w' : WM} {id : Nat} (hs : Step c.w w' id) (htab : tabOf w' = tabOf c.w)
    (hlive : LiveInv w') (hpool : PoolInv w') (hext : PoolExt c.w.pool w'.pool) (hsh : SharedPooled w')
    (hdeps : w'.deps = c.w.deps)
    (hbuf : w'.buffers = c.w.buffers) (hmk : w'.marked = c.w.marked) (hnt : w'.nthreads = c.w.nthreads) :
    Inv ⟨w', c.issued⟩ := by
  have hslots : w'.slots = c.w.slots := congrArg Tab.slots htab
  have hld : w'.lockDepth = c.w.lockDepth := congrArg Tab.lockDepth htab
  have hwid : w'.worldId = c.w.worldId := congrArg Tab.worldId htab
  have hkn : ∀ e, Known c e → Known ⟨w', c.issued⟩ e := fun e hk => Known.mono (w := c.w) hk hwid (fun _ h => h)
  refine
  { tinv := by rw [htab]; simpa only [hbuf] using hi.tinv
    pendNodup := by show (createHandles w'.buffers).Nodup; rw [hbuf]; exact hi.pendNodup
    rows := hs.ok, keys := hs.keys hi.keys, live := hlive, pool := hpool, shared := hsh
    depsB := by show DepsBounded w'.deps; rw [hdeps]; exact hi.depsB
    locsCover := by
      show w'.slots.length ≤ w'.locs.length
      rw [hslots]; exact Nat.le_trans hi.locsCover hs.llen
    bufLe := by show w'.buffers.length ≤ w'.nthreads; rw [hbuf, hnt]; exact hi.bufLe
    bufLen := by
      intro h
      show w'.buffers.length = w'.nthreads
      rw [hbuf, hnt]; exact hi.bufLen (by rw [← hld]; exact h)
    bufEmpty := by
      intro h
      show ∀ b ∈ w'.buffers, b = []
      rw [hbuf]; exact hi.bufEmpty (by rw [← hld]; exact h)
    bufKnown := by
      show ∀ b ∈ w'.buffers, ∀ cmd ∈ b, Known ⟨w', c.issued⟩ cmd.entity ∧ cmdOk w'.pool cmd
      rw [hbuf]
      intro b hb cmd hc
      exact ⟨hkn _ (hi.bufKnown b hb cmd hc).1, cmdOk_ext hext (hi.bufKnown b hb cmd hc).2⟩
    markedKnown := by
      show ∀ h ∈ w'.marked, Known ⟨w', c.issued⟩ h ∧ h ∉ createHandles w'.buffers
      rw [hbuf, hmk]
      intro h hm
      exact ⟨hkn _ (hi.markedKnown h hm).1, (hi.markedKnown h hm).2⟩
    markedRange := by
      show ∀ h ∈ w'.marked, HRange w'.worldId h
      rw [hmk, hwid]; exact hi.markedRange
    markedSorted := by show w'.marked.Pairwise _; rw [hmk]; exact hi.markedSorted }

/-! ## `Rel` after such an operation on the valid entity `e` with ordinal `k` -/

theorem setEnt_alive (s : WS) (k : Nat) (x : Option SEnt) (o : Nat) :
    (s.setEnt k x).alive o = if o = k ∧ k < s.ents.length then x else s.alive o := by
  unfold WS.setEnt WS.alive
  simp only [List.getD_eq_getElem?_getD, List.getElem?_set]
  by_cases hk : k = o
  · subst hk
    by_cases hlt : k < s.ents.length
    · simp [hlt]
    · simp [hlt]
  · have : ¬ (o = k ∧ k < s.ents.length) := fun h => hk h.1.symm
    simp [hk, this]

theorem rel_entity {c : CW} {s : WS} (hi : Inv c) (hr : Rel c s) {w' : WM} {e : Handle} {k : Nat}
    (hk : c.issued[k]? = some e) (hev : c.w.isValid e = true)
    (hs : OpFrame c.w w' e.id) (hvalid : ∀ h, w'.isValid h = c.w.isValid h)
    (hext : PoolExt c.w.pool w'.pool) (hdeps : w'.deps = c.w.deps) (hld : w'.lockDepth = c.w.lockDepth)
    (hbuf : w'.buffers = c.w.buffers) (hmk : w'.marked = c.w.marked) (hnt : w'.nthreads = c.w.nthreads)
    (x : SEnt) (hx : optRel (some x) (absEnt w' e)) :
    Rel ⟨w', c.issued⟩ (s.setEnt k (some x)) := by
  have hnd := issued_nodup hi
  have hklt : k < s.ents.length := by rw [hr.len]; exact (List.getElem?_eq_some_iff.mp hk).1
  have hsome : (s.alive k).isSome = true := by
    have := hr.ents k e hk
    rw [optRel_isSome this, absEnt_isSome_iff hi.live hi.rows, hev]
  refine
  { len := by show (s.ents.set k (some x)).length = _; rw [List.length_set]; exact hr.len
    ents := ?_, deps := hr.deps.trans hdeps.symm, lockDepth := hr.lockDepth.trans hld.symm
    nthreads := hr.nthreads.trans hnt.symm, buffers := ?_, marked := ?_
    markedLt := by
      intro o ho
      show o < (s.ents.set k (some x)).length
      rw [List.length_set]; exact hr.markedLt o ho
    markedNodup := hr.markedNodup
    markedOld := by
      intro o ho h hh
      show h ∉ createHandles w'.buffers
      rw [hbuf]; exact hr.markedOld o ho h hh }
  · intro o h ho
    have ho' : c.issued[o]? = some h := ho
    rw [setEnt_alive]
    by_cases hok : o = k
    · subst hok
      rw [hk] at ho'; cases ho'
      simp only [hklt, and_self, if_true]
      exact hx
    · have : ¬ (o = k ∧ k < s.ents.length) := fun hh => hok hh.1
      rw [if_neg this]
      have hne : h ≠ e := by
        intro heq; subst heq
        have := (List.getElem?_inj (List.getElem?_eq_some_iff.mp ho').1 hnd).mp (ho'.trans hk.symm)
        exact hok this
      have : absEnt w' h = absEnt c.w h := by
        by_cases hid : h.id = e.id
        · have hinv : c.w.isValid h = false := by
            cases hv : c.w.isValid h with
            | false => rfl
            | true => exact absurd (valid_same_id hev hv hid) hne
          rw [absEnt_invalid hinv, absEnt_invalid ((hvalid h).trans hinv)]
        · exact absEnt_step hi.rows hi.live hi.shared hs hext h hid
      show optRel _ (absEnt w' h)
      rw [this]
      exact hr.ents o h ho'
  · show All2 (All2 (cmdRel c.issued w'.pool)) w'.buffers (s.setEnt k (some x)).buffers
    rw [hbuf]
    refine hr.buffers.mono ?_
    intro b hb sb hbb
    refine hbb.mono ?_
    intro cmd hc sc hcs
    exact cmdRel_ext hext (hi.bufKnown b hb cmd hc).2 hcs
  · intro o
    show (o ∈ s.marked ∧ ((s.setEnt k (some x)).alive o).isSome = true) ↔
      ∃ h ∈ w'.marked, w'.isValid h = true ∧ ordOf c.issued h = some o
    rw [hmk]
    have : ((s.setEnt k (some x)).alive o).isSome = (s.alive o).isSome := by
      rw [setEnt_alive]
      by_cases hok : o = k ∧ k < s.ents.length
      · rw [if_pos hok, hok.1, hsome]; rfl
      · rw [if_neg hok]
    rw [this, hr.marked o]
    constructor
    · rintro ⟨h, hm, hv, ho⟩; exact ⟨h, hm, (hvalid h).trans hv, ho⟩
    · rintro ⟨h, hm, hv, ho⟩; exact ⟨h, hm, (hvalid h).symm.trans hv, ho⟩

end Mustache.Proofs.Refine

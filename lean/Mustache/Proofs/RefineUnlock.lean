import Mustache.Proofs.RefineFlush3
/-!
# Refinement, stage (e): the outermost `unlock`
-/
namespace Mustache.Proofs.Refine
open Mustache.Model Mustache.Spec
open Mustache.Proofs.IdTable (tabOf Ghost TInv)
open Mustache.Proofs.Rows

variable (info : CompId → CompInfo)

/-! ## the flush, on both sides, as one fold -/

theorem applyPacks_setCtl (d : Nat) (b : List (List Cmd)) : ∀ (PL : List (List Cmd)) (W : WM) (cbs : List Cb),
    applyPacks info (setCtl W d b W.marked, cbs) PL =
      (setCtl (applyPacks info (W, cbs) PL).1 d b (applyPacks info (W, cbs) PL).1.marked,
        (applyPacks info (W, cbs) PL).2)
  | [], _, _ => rfl
  | P :: PL, W, cbs => by
    rw [applyPacks_cons, applyPacks_cons]
    simp only
    rw [setCtl_applyPack]
    exact applyPacks_setCtl d b PL _ _

theorem specFlush_eq (s : WS) :
    s.flush info = specFold info ({ s with buffers := s.buffers.map (fun _ => []) }, []) s.buffers.flatten := by
  unfold WS.flush specFold
  simp only
  rw [List.foldl_flatten]

theorem applyCmd_lockDepth (T : WS) (x : Nat) (c : SCmd) :
    ({ T with lockDepth := x }).applyCmd info c =
      ({ (T.applyCmd info c).1 with lockDepth := x }, (T.applyCmd info c).2) := by
  cases c with
  | create o m sh => rfl
  | destroyNow o =>
    cases o with
    | none => rfl
    | some o =>
      simp only [WS.applyCmd, WS.doDestroy]
      show (match T.alive o with | none => _ | some e => _) = _
      cases T.alive o <;> rfl
  | destroy o =>
    cases o with
    | none => rfl
    | some o =>
      simp only [WS.applyCmd]
      show (if (T.alive o).isSome = true then _ else _) = _
      split <;> rfl
  | remove o c =>
    cases o with
    | none => rfl
    | some o =>
      simp only [WS.applyCmd, WS.doRemove]
      show (match T.alive o with | none => _ | some e => _) = _
      cases T.alive o with
      | none => rfl
      | some e =>
        simp only
        split
        · rfl
        · split <;> rfl
  | assign o c v =>
    cases o with
    | none => rfl
    | some o =>
      simp only [WS.applyCmd, WS.doAssign]
      show (match T.alive o with | none => _ | some e => _) = _
      cases T.alive o with
      | none => rfl
      | some e =>
        simp only
        split <;> rfl

theorem specFold_lockDepth (x : Nat) : ∀ (l : List SCmd) (T : WS) (a : List SCb),
    specFold info ({ T with lockDepth := x }, a) l =
      ({ (specFold info (T, a) l).1 with lockDepth := x }, (specFold info (T, a) l).2)
  | [], _, _ => rfl
  | c :: l, T, a => by
    rw [specFold_cons, specFold_cons]
    simp only
    rw [applyCmd_lockDepth]
    exact specFold_lockDepth x l _ _

/-! ## after the last pack: depth 0, all buffers empty, temporaries dropped -/

theorem finish_refines {X : WM} {iss : List Handle} {T : WS} (hi : Inv ⟨X, iss⟩) (hr : Rel ⟨X, iss⟩ T)
    (hE : ∀ b ∈ X.buffers, b = []) (hd : X.lockDepth ≤ 1) (b2 : List (List Cmd)) (sb2 : List (List SCmd))
    (hb2 : ∀ b ∈ b2, b = []) (hsb2 : ∀ b ∈ sb2, b = []) (hlen : b2.length = sb2.length) (hle : b2.length ≤ X.nthreads) :
    Inv ⟨{ X with lockDepth := 0, buffers := b2, temps := [] }, iss⟩ ∧
    Rel ⟨{ X with lockDepth := 0, buffers := b2, temps := [] }, iss⟩ { T with lockDepth := 0, buffers := sb2 } := by
  rcases hi.tinv with ⟨g, tinv, hiss, hpend⟩
  have hch : createHandles X.buffers = [] := createHandles_of_empty hE
  have hch2 : createHandles b2 = [] := createHandles_of_empty hb2
  refine ⟨?_, ?_⟩
  · have htab : TInv (tabOf { X with lockDepth := 0, nextEntityId := X.nextEntityId, buffers := b2, temps := [] }) g := by
      rcases Nat.eq_zero_or_pos X.lockDepth with h0 | h0
      · have : tabOf { X with lockDepth := 0, nextEntityId := X.nextEntityId, buffers := b2, temps := [] } = tabOf X := by
          unfold tabOf; simp only; rw [h0]
        rw [this]; exact tinv
      · have h1 : X.lockDepth = 1 := by omega
        have : tabOf { X with lockDepth := 0, nextEntityId := X.nextEntityId, buffers := b2, temps := [] } =
            (tabOf X).unlockDepth := by
          unfold Mustache.Model.Tab.unlockDepth
          have : (tabOf X).lockDepth > 0 := h0
          simp only [this, if_true]
          unfold tabOf; simp only; rw [h1]
        rw [this]; exact Mustache.Proofs.IdTable.unlockDepth_inv tinv
    exact inv_ctl_set hi 0 X.nextEntityId b2 []
      ⟨g, htab, hiss, fun h => by rw [hpend h, hch, hch2]⟩ (by rw [hch2]; exact List.nodup_nil) hle (fun h => by omega)
      (fun _ => hb2) (fun x hx cmd hc => by rw [hb2 x hx] at hc; cases hc) (fun h _ => by rw [hch2]; simp)
  · exact
    { len := hr.len, ents := hr.ents, deps := hr.deps, lockDepth := rfl, nthreads := hr.nthreads
      buffers := by
        show All2 (All2 (cmdRel iss X.pool)) b2 sb2
        apply All2.of_forall hlen
        intro i a b ha hb
        rw [hb2 a (List.mem_of_getElem? ha), hsb2 b (List.mem_of_getElem? hb)]
        exact .nil
      marked := hr.marked, markedLt := hr.markedLt, markedNodup := hr.markedNodup
      markedOld := fun o _ h _ => by
        show h ∉ createHandles b2
        rw [hch2]; simp }

theorem packs_all_flatten (bufs : List (List Cmd)) : (bufs.map packs).flatten.flatten = bufs.flatten := by
  induction bufs with
  | nil => rfl
  | cons b t ih =>
    simp only [List.map_cons, List.flatten_cons, List.flatten_append, Mustache.Proofs.Life.packs_flatten, ih]

theorem unlock_model_eq (w : WM) (hd : w.lockDepth ≤ 1) :
    w.unlock info =
      ({ setCtl (applyPacks info (w, []) (w.buffers.map packs).flatten).1 0 (w.buffers.map (fun _ => []))
            (applyPacks info (w, []) (w.buffers.map packs).flatten).1.marked with temps := [] },
        true, (applyPacks info (w, []) (w.buffers.map packs).flatten).2) := by
  have hwU : (if w.lockDepth > 0 then { w with lockDepth := w.lockDepth - 1 } else w) = { w with lockDepth := 0 } := by
    rcases Nat.eq_zero_or_pos w.lockDepth with h0 | h0
    · have : ¬ w.lockDepth > 0 := by omega
      rw [if_neg this]
      cases w; simp only at h0; subst h0; rfl
    · rw [if_pos h0]
      have : w.lockDepth - 1 = 0 := by omega
      rw [this]
  unfold WM.unlock
  simp only [hwU, if_true]
  rw [flush_eq]
  simp only
  have h0 : ({ ({ w with lockDepth := 0 } : WM) with buffers := ({ w with lockDepth := 0 } : WM).buffers.map (fun _ => []) } : WM) =
      setCtl w 0 (w.buffers.map (fun _ => [])) w.marked := rfl
  rw [h0, applyPacks_setCtl]

theorem unlock_spec_eq (s : WS) (hd : s.lockDepth ≤ 1) :
    s.unlock info =
      ({ (specFold info (s, []) s.buffers.flatten).1 with lockDepth := 0, buffers := s.buffers.map (fun _ => []) },
        true, (specFold info (s, []) s.buffers.flatten).2) := by
  have hsU : (if s.lockDepth > 0 then { s with lockDepth := s.lockDepth - 1 } else s) = { s with lockDepth := 0 } := by
    rcases Nat.eq_zero_or_pos s.lockDepth with h0 | h0
    · have : ¬ s.lockDepth > 0 := by omega
      rw [if_neg this]
      cases s; simp only at h0; subst h0; rfl
    · rw [if_pos h0]
      have : s.lockDepth - 1 = 0 := by omega
      rw [this]
  unfold WS.unlock
  simp only [hsU, if_true]
  rw [specFlush_eq]
  have h0 : ({ ({ s with lockDepth := 0 } : WS) with buffers := ({ s with lockDepth := 0 } : WS).buffers.map (fun _ => []) } : WS) =
      { ({ s with buffers := s.buffers.map (fun _ => []) } : WS) with lockDepth := 0 } := rfl
  have h1 : ({ s with lockDepth := 0 } : WS).buffers = s.buffers := rfl
  rw [h0, h1, specFold_lockDepth, specFold_buffers]

theorem mem_lin_cases {α : Type} {n : Nat} {R x : List α} (hx : x ∈ lin n R) : x = R ∨ x = [] := by
  unfold lin at hx
  rcases List.mem_cons.mp hx with h | h
  · exact Or.inl h
  · exact Or.inr (List.mem_replicate.mp h).2

/-- the outermost `unlock`: the whole flush refines the command-by-command spec (callbacks: net agreement) -/
theorem unlock_outer_refines {c : CW} {s : WS} (hi : Inv c) (hr : Rel c s) (hd : c.w.lockDepth ≤ 1)
    (hb' : Bounds (c.step info .unlock).1) : StepRefines info c s .unlock := by
  obtain ⟨w, iss⟩ := c
  have hd' : w.lockDepth ≤ 1 := hd
  have hsd : s.lockDepth ≤ 1 := by rw [hr.lockDepth]; exact hd'
  have hstep : (CW.step info ⟨w, iss⟩ .unlock) =
      (⟨{ setCtl (applyPacks info (w, []) (w.buffers.map packs).flatten).1 0 (w.buffers.map (fun _ => []))
            (applyPacks info (w, []) (w.buffers.map packs).flatten).1.marked with temps := [] }, iss⟩,
        .ret true, (applyPacks info (w, []) (w.buffers.map packs).flatten).2) := by
    simp only [CW.step, WM.step, unlock_model_eq info w hd', issueOut]
  have hs : s.step info (Op.mapRef (ordOf iss) (.unlock : Op Handle)) =
      ({ (specFold info (s, []) s.buffers.flatten).1 with lockDepth := 0, buffers := s.buffers.map (fun _ => []) },
        .ret true, (specFold info (s, []) s.buffers.flatten).2) := by
    simp only [Op.mapRef, WS.step, unlock_spec_eq info s hsd]
  have hblen : w.buffers.length = s.buffers.length := hr.buffers.length
  unfold StepRefines
  rw [hstep] at hb' ⊢
  rw [hs]
  have hE1 : ∀ (l : List (List Cmd)), ∀ b ∈ l.map (fun _ => ([] : List Cmd)), b = [] := by
    intro l b hb; rcases List.mem_map.mp hb with ⟨_, _, rfl⟩; rfl
  have hE2 : ∀ (l : List (List SCmd)), ∀ b ∈ l.map (fun _ => ([] : List SCmd)), b = [] := by
    intro l b hb; rcases List.mem_map.mp hb with ⟨_, _, rfl⟩; rfl
  by_cases hnil : w.buffers = []
  · -- nothing buffered at all
    have hsnil : s.buffers = [] := by
      rw [hnil] at hblen
      exact List.eq_nil_of_length_eq_zero hblen.symm
    rw [hnil, hsnil]
    have hf := finish_refines (X := w) (T := s) hi hr (by rw [hnil]; intro b hb; cases hb) hd' [] [] (by intro b hb; cases hb)
      (by intro b hb; cases hb) rfl (Nat.zero_le _)
    exact ⟨hf.1, hf.2, rfl, by simp only [isUnlockOp, if_true]; exact cbsAgreeNet_nil iss⟩
  · have hn : 0 < w.buffers.length := List.length_pos_iff.mpr hnil
    generalize hPL : (w.buffers.map packs).flatten = PL at *
    have hflat : PL.flatten = w.buffers.flatten := by rw [← hPL]; exact packs_all_flatten w.buffers
    have hPLs : ∀ P ∈ PL, IsPack P := by
      intro P hP
      rw [← hPL] at hP
      rcases List.mem_flatten.mp hP with ⟨l, hl, hPl⟩
      rcases List.mem_map.mp hl with ⟨buf, _, rfl⟩
      exact packs_shape buf P hPl
    have hchl : createHandles (lin w.buffers.length w.buffers.flatten) = createHandles w.buffers := by
      rw [createHandles_lin]; rfl
    rcases hi.tinv with ⟨g, tinv, hiss, hpend⟩
    have hiG : Inv ⟨setCtl w w.lockDepth (lin w.buffers.length w.buffers.flatten) w.marked, iss⟩ :=
      inv_ctl_set hi w.lockDepth w.nextEntityId (lin w.buffers.length w.buffers.flatten) w.temps
        ⟨g, tinv, hiss, fun h => by rw [hchl]; exact hpend h⟩ (by rw [hchl]; exact hi.pendNodup)
        (by rw [lin_length _ _ hn]; exact hi.bufLe) (fun h0 => by rw [lin_length _ _ hn]; exact hi.bufLen h0)
        (fun h0 x hx => by
          have hfl : w.buffers.flatten = [] := by
            rw [List.flatten_eq_nil_iff]; exact hi.bufEmpty h0
          rcases mem_lin_cases hx with h | h
          · rw [h, hfl]
          · exact h)
        (fun x hx cmd hc => by
          have := mem_lin hx hc
          rcases List.mem_flatten.mp this with ⟨buf, hbuf, hcb⟩
          exact hi.bufKnown buf hbuf cmd hcb)
        (fun h hm => by rw [hchl]; exact (hi.markedKnown h hm).2)
    have hrG : Rel ⟨setCtl w w.lockDepth (lin w.buffers.length w.buffers.flatten) w.marked, iss⟩
        { s with buffers := lin w.buffers.length s.buffers.flatten } :=
      rel_pop hr _ _ (all2_lin hr.buffers.flatten) (fun h hh => by rw [hchl] at hh; exact hh)
    rw [← hflat] at hiG hrG
    have hfp := flush_packs info iss w.buffers.length w.lockDepth PL w
      { s with buffers := lin w.buffers.length s.buffers.flatten } s.buffers.flatten [] [] hPLs hiG hrG rfl
      hb'.inRange hb'.noWrap (cbsAgreeNet_nil iss)
    rw [specFold_buffers] at hfp
    obtain ⟨hiX, hrX, hcb⟩ := hfp
    have hleX : w.buffers.length ≤ (applyPacks info (w, []) PL).1.nthreads := by
      have := hiX.bufLe
      rw [show (⟨setCtl (applyPacks info (w, []) PL).1 w.lockDepth (lin w.buffers.length []) (applyPacks info (w, []) PL).1.marked,
        iss⟩ : CW).w.buffers.length = (lin w.buffers.length ([] : List Cmd)).length from rfl, lin_length _ _ hn] at this
      exact this
    have hf := finish_refines hiX hrX
      (by
        intro b hb
        rcases mem_lin_cases hb with h | h <;> exact h)
      hd' (w.buffers.map (fun _ => [])) (s.buffers.map (fun _ => [])) (hE1 _) (hE2 _)
      (by simp [hblen]) (by rw [List.length_map]; exact hleX)
    exact ⟨hf.1, hf.2, rfl, by simp only [isUnlockOp, if_true]; exact hcb⟩

end Mustache.Proofs.Refine

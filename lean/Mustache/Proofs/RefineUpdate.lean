import Mustache.Proofs.RefineCreate
/-!
# Refinement, stage (c): `update()` — the deferred `destroy` of every marked entity

The model walks `marked` in the order of the packed values, the spec in the order of marking; both kill
exactly the marked entities that are still alive, and the callbacks agree as multisets.
-/
namespace Mustache.Proofs.Refine
open Mustache.Model Mustache.Spec
open Mustache.Proofs.IdTable (tabOf Ghost TInv)
open Mustache.Proofs.Rows

variable (info : CompId → CompInfo)

theorem flatMap_congr' {α β : Type} {l : List α} {f g : α → List β} (h : ∀ x ∈ l, f x = g x) :
    l.flatMap f = l.flatMap g := by
  induction l with
  | nil => rfl
  | cons a t ih =>
    simp only [List.flatMap_cons]
    rw [h a (by simp), ih (fun x hx => h x (by simp [hx]))]

/-! ## the spec fold, explicitly -/

def wsKill (acc : WS × List SCb) (o : Nat) : WS × List SCb :=
  let (s', c) := acc.1.doDestroy info o
  (s', acc.2 ++ c)

def wsKillOpt (acc : WS × List SCb) (o : Option Nat) : WS × List SCb :=
  match o with
  | some k => wsKill info acc k
  | none => acc

def killEnts (ents : List (Option SEnt)) (a : List Nat) : List (Option SEnt) := a.foldl (fun e o => e.set o none) ents

/-- callbacks of destroying ordinal `o` in state `s` -/
def killCbs (s : WS) (o : Nat) : List SCb := (s.doDestroy info o).2

theorem doDestroy_eq (s : WS) (o : Nat) :
    s.doDestroy info o = ({ s with ents := s.ents.set o none }, killCbs info s o) := by
  unfold killCbs WS.doDestroy
  cases ha : s.alive o with
  | some e => rfl
  | none =>
    simp only
    have : s.ents.set o none = s.ents := by
      unfold WS.alive at ha
      by_cases hlt : o < s.ents.length
      · apply List.ext_getElem? 
        intro i
        rw [List.getElem?_set]
        by_cases hio : o = i
        · subst hio
          rw [List.getD_eq_getElem?_getD, List.getElem?_eq_getElem hlt] at ha
          simp only [Option.getD_some] at ha
          simp [hlt, List.getElem?_eq_getElem hlt, ha]
        · simp [hio]
      · exact List.set_eq_of_length_le (by omega)
    rw [this]

theorem killCbs_congr {s s' : WS} {o : Nat} (h : s'.alive o = s.alive o) : killCbs info s' o = killCbs info s o := by
  unfold killCbs WS.doDestroy
  rw [h]
  cases s.alive o <;> rfl

theorem alive_set_ne (s : WS) (o o' : Nat) (hne : o' ≠ o) :
    WS.alive { s with ents := s.ents.set o none } o' = s.alive o' := by
  unfold WS.alive
  simp only [List.getD_eq_getElem?_getD, List.getElem?_set_ne (Ne.symm hne)]

/-- the fold of `doDestroy` over a duplicate-free list -/
theorem wsKill_fold : ∀ (a : List Nat) (s : WS) (cbs0 : List SCb), a.Nodup →
    a.foldl (wsKill info) (s, cbs0) = ({ s with ents := killEnts s.ents a }, cbs0 ++ a.flatMap (killCbs info s))
  | [], s, cbs0, _ => by simp [killEnts]
  | o :: rest, s, cbs0, hn => by
    have hn' := List.nodup_cons.mp hn
    rw [List.foldl_cons]
    have h1 : wsKill info (s, cbs0) o = ({ s with ents := s.ents.set o none }, cbs0 ++ killCbs info s o) := by
      unfold wsKill; rw [doDestroy_eq]
    rw [h1, wsKill_fold rest _ _ hn'.2]
    refine Prod.ext ?_ ?_
    · simp only [killEnts, List.foldl_cons]
    · simp only [List.flatMap_cons, List.append_assoc]
      congr 2
      apply flatMap_congr'
      intro o' ho'
      exact killCbs_congr info (alive_set_ne s o o' (fun e => hn'.1 (e ▸ ho')))

theorem wsKillOpt_fold (b : List (Option Nat)) (acc : WS × List SCb) :
    b.foldl (wsKillOpt info) acc = (b.filterMap id).foldl (wsKill info) acc := by
  induction b generalizing acc with
  | nil => rfl
  | cons x xs ih =>
    cases x with
    | none => simp only [List.foldl_cons, wsKillOpt, List.filterMap_cons, id]; exact ih acc
    | some k => simp only [List.foldl_cons, wsKillOpt, List.filterMap_cons, id]; exact ih _

theorem killEnts_get (ents : List (Option SEnt)) (a : List Nat) (i : Nat) :
    (killEnts ents a)[i]? = if i ∈ a then (ents[i]?).map (fun _ => none) else ents[i]? := by
  induction a generalizing ents with
  | nil => simp [killEnts]
  | cons o rest ih =>
    simp only [killEnts, List.foldl_cons] at ih ⊢
    rw [ih, List.getElem?_set]
    by_cases hio : o = i
    · subst hio
      by_cases hlt : o < ents.length
      · by_cases hr : o ∈ rest <;> simp [hr, hlt, List.getElem?_eq_getElem hlt]
      · have : ents[o]? = none := List.getElem?_eq_none (by omega)
        by_cases hr : o ∈ rest <;> simp [hr, hlt, this]
    · have : i ∈ o :: rest ↔ i ∈ rest := by simp [Ne.symm hio]
      by_cases hr : i ∈ rest <;> simp [hr, hio, this]

/-- two duplicate-free lists with the same ALIVE members kill the same entities and fire the same callbacks -/
theorem wsKill_fold_perm (s : WS) (a a' : List Nat) (ha : a.Nodup) (ha' : a'.Nodup)
    (hmem : ∀ o, (o ∈ a ∧ (s.alive o).isSome = true) ↔ (o ∈ a' ∧ (s.alive o).isSome = true)) (cbs0 : List SCb) :
    (a.foldl (wsKill info) (s, cbs0)).1 = (a'.foldl (wsKill info) (s, cbs0)).1 ∧
    ((a.foldl (wsKill info) (s, cbs0)).2).Perm ((a'.foldl (wsKill info) (s, cbs0)).2) := by
  rw [wsKill_fold info a s cbs0 ha, wsKill_fold info a' s cbs0 ha']
  constructor
  · simp only
    congr 1
    apply List.ext_getElem?
    intro i
    rw [killEnts_get, killEnts_get]
    have hal : (s.alive i).isSome = (s.ents[i]?).join.isSome := by
      unfold WS.alive
      rw [List.getD_eq_getElem?_getD]
      cases s.ents[i]? <;> rfl
    by_cases h1 : i ∈ a <;> by_cases h2 : i ∈ a'
    · simp [h1, h2]
    · have : ¬ (s.alive i).isSome = true := fun h => h2 ((hmem i).mp ⟨h1, h⟩).1
      rw [hal] at this
      simp only [h1, h2, if_true, if_false]
      cases hg : s.ents[i]? with
      | none => rfl
      | some x => cases x with
        | none => rfl
        | some e => rw [hg] at this; simp at this
    · have : ¬ (s.alive i).isSome = true := fun h => h1 ((hmem i).mpr ⟨h2, h⟩).1
      rw [hal] at this
      simp only [h1, h2, if_true, if_false]
      cases hg : s.ents[i]? with
      | none => rfl
      | some x => cases x with
        | none => rfl
        | some e => rw [hg] at this; simp at this
    · simp [h1, h2]
  · simp only
    apply List.Perm.append_left
    have hdead : ∀ o, ¬ (s.alive o).isSome = true → killCbs info s o = [] := by
      intro o ho
      unfold killCbs WS.doDestroy
      cases h : s.alive o with
      | none => rfl
      | some e => rw [h] at ho; simp at ho
    have hfil : ∀ l : List Nat, l.flatMap (killCbs info s) = (l.filter (fun o => (s.alive o).isSome)).flatMap (killCbs info s) := by
      intro l
      induction l with
      | nil => rfl
      | cons o rest ih =>
        by_cases ho : (s.alive o).isSome = true
        · simp only [List.flatMap_cons, List.filter_cons, ho, if_true, ih]
        · simp only [List.flatMap_cons, List.filter_cons, ho, Bool.false_eq_true, if_false, hdead o ho, List.nil_append, ih]
    rw [hfil a, hfil a']
    apply List.Perm.flatMap_right
    rw [List.perm_ext_iff_of_nodup (ha.sublist List.filter_sublist) (ha'.sublist List.filter_sublist)]
    intro o
    simp only [List.mem_filter]
    exact hmem o

/-! ## the model fold against the spec fold over the same handles -/

def wmKill (acc : WM × List Cb) (h : Handle) : WM × List Cb :=
  let (w', c) := acc.1.destroyNowU info h
  (w', acc.2 ++ c)

theorem destroyNowU_slots_length (w : WM) (h : Handle) : (w.destroyNowU info h).1.slots.length = w.slots.length := by
  have := congrArg (fun t : Tab => t.slots.length) (Mustache.Proofs.IdTable.destroyNowU_tab info w h)
  exact this.trans (Mustache.Proofs.IdTable.destroyNow_length _ _)

theorem cbsAgree_append {iss : List Handle} {a b : List Cb} {x y : List SCb} (h1 : cbsAgree iss a x)
    (h2 : cbsAgree iss b y) : cbsAgree iss (a ++ b) (x ++ y) := by
  unfold cbsAgree at *
  rw [List.map_append, List.map_append]
  exact h1.append h2

theorem wmKill_fold_refines (iss : List Handle) : ∀ (l : List Handle) (w : WM) (s : WS) (cbs : List Cb) (scbs : List SCb),
    Inv ⟨w, iss⟩ → Bounds ⟨w, iss⟩ → Rel ⟨w, iss⟩ s → w.isLocked = false → cbsAgree iss cbs scbs →
    Inv ⟨(l.foldl (wmKill info) (w, cbs)).1, iss⟩ ∧
    Rel ⟨(l.foldl (wmKill info) (w, cbs)).1, iss⟩ ((l.map (ordOf iss)).foldl (wsKillOpt info) (s, scbs)).1 ∧
    cbsAgree iss (l.foldl (wmKill info) (w, cbs)).2 ((l.map (ordOf iss)).foldl (wsKillOpt info) (s, scbs)).2 ∧
    (l.foldl (wmKill info) (w, cbs)).1.marked = w.marked ∧
    (l.foldl (wmKill info) (w, cbs)).1.isLocked = false
  | [], w, s, cbs, scbs, hi, _, hr, hl, hc => ⟨hi, hr, hc, rfl, hl⟩
  | h :: rest, w, s, cbs, scbs, hi, hb, hr, hl, hc => by
    have hnl := unlocked_spec hr hl
    have hstep := destroyNow_unlocked_refines info hi hb hr hl 0 h
    have hcw : CW.step info ⟨w, iss⟩ (.destroyNow 0 h) =
        (⟨(w.destroyNowU info h).1, iss⟩, .ok, (w.destroyNowU info h).2) := by
      simp only [CW.step, WM.step, WM.destroyNow, hl, Bool.false_eq_true, if_false, issueOut]
    have hsw : wsKillOpt info (s, scbs) (ordOf iss h) =
        ((s.step info (Op.mapRef (ordOf iss) (.destroyNow 0 h))).1,
         scbs ++ (s.step info (Op.mapRef (ordOf iss) (.destroyNow 0 h))).2.2) := by
      simp only [Op.mapRef, WS.step, hnl, if_false]
      cases ordOf iss h with
      | none => simp [wsKillOpt]
      | some k => simp [wsKillOpt, wsKill]
    unfold StepRefines at hstep
    rw [hcw] at hstep
    simp only [isUnlockOp, Bool.false_eq_true, if_false, stepAgree] at hstep
    have hb1 : Bounds ⟨(w.destroyNowU info h).1, iss⟩ :=
      ⟨by show (w.destroyNowU info h).1.slots.length < _; rw [destroyNowU_slots_length]; exact hb.inRange, hb.noWrap⟩
    have hl1 : (w.destroyNowU info h).1.isLocked = false := by
      unfold WM.isLocked at hl ⊢
      rw [(destroyNowU_ctl info w h).lockDepth]; exact hl
    have ih := wmKill_fold_refines iss rest (w.destroyNowU info h).1
      (s.step info (Op.mapRef (ordOf iss) (.destroyNow 0 h))).1 (cbs ++ (w.destroyNowU info h).2)
      (scbs ++ (s.step info (Op.mapRef (ordOf iss) (.destroyNow 0 h))).2.2) hstep.1 hb1 hstep.2.1 hl1
      (cbsAgree_append hc hstep.2.2.2)
    simp only [List.foldl_cons, List.map_cons, hsw]
    have hwk : wmKill info (w, cbs) h = ((w.destroyNowU info h).1, cbs ++ (w.destroyNowU info h).2) := rfl
    rw [hwk]
    exact ⟨ih.1, ih.2.1, ih.2.2.1, ih.2.2.2.1.trans (destroyNowU_marked info w h), ih.2.2.2.2⟩

/-! ## `update` -/

theorem inv_clear_marked {w : WM} {iss : List Handle} (hi : Inv ⟨w, iss⟩) : Inv ⟨{ w with marked := [] }, iss⟩ :=
  { tinv := hi.tinv
    pendNodup := hi.pendNodup
    rows := ⟨hi.rows.vals, hi.rows.loc⟩
    keys := ⟨hi.keys.masks, hi.keys.distinct⟩
    live := ⟨hi.live.live_in, hi.live.row_live⟩
    pool := ⟨hi.pool.vals_nodup, hi.pool.insts_nodup, hi.pool.inst_lt, hi.pool.inst_sid⟩
    shared := hi.shared
    depsB := hi.depsB
    locsCover := hi.locsCover
    bufLe := hi.bufLe
    bufLen := hi.bufLen
    bufEmpty := hi.bufEmpty
    bufKnown := hi.bufKnown
    markedKnown := fun h hm => by cases hm
    markedRange := fun h hm => by cases hm
    markedSorted := List.Pairwise.nil }

theorem rel_clear_marked {w : WM} {iss : List Handle} {s : WS} (hr : Rel ⟨w, iss⟩ s) :
    Rel ⟨{ w with marked := [] }, iss⟩ { s with marked := [] } :=
  { len := hr.len
    ents := hr.ents
    deps := hr.deps
    lockDepth := hr.lockDepth
    nthreads := hr.nthreads
    buffers := hr.buffers
    marked := fun o => by
      constructor
      · rintro ⟨hm, _⟩; cases hm
      · rintro ⟨h, hm, _⟩; cases hm
    markedLt := fun o hm => by cases hm
    markedOld := fun o hm => by cases hm
    markedNodup := List.nodup_nil }

theorem update_unlocked_refines {c : CW} {s : WS} (hi : Inv c) (hb : Bounds c) (hr : Rel c s)
    (hl : c.w.isLocked = false) : StepRefines info c s .update := by
  obtain ⟨w, iss⟩ := c
  have hl0 : w.isLocked = false := hl
  have hnl := unlocked_spec hr hl
  have hA := wmKill_fold_refines info iss w.marked w s [] [] hi hb hr hl0 (by simp [cbsAgree])
  rw [wsKillOpt_fold, List.filterMap_map] at hA
  have hfm : (id ∘ ordOf iss) = ordOf iss := rfl
  rw [hfm] at hA
  -- the two spec folds
  have hnd' : (w.marked.filterMap (ordOf iss)).Nodup := by
    unfold List.Nodup
    apply hi.markedSorted.filterMap
    intro a a' hlt b hb' b' hb''
    intro e
    subst e
    have h1 := ordOf_some hb'
    have h2 := ordOf_some hb''
    rw [h1] at h2
    cases h2
    exact Nat.lt_irrefl _ hlt
  have hmem : ∀ o, (o ∈ s.marked ∧ (s.alive o).isSome = true) ↔
      (o ∈ w.marked.filterMap (ordOf iss) ∧ (s.alive o).isSome = true) := by
    intro o
    rw [hr.marked o]
    constructor
    · rintro ⟨h, hm, hv, ho⟩
      refine ⟨List.mem_filterMap.mpr ⟨h, hm, ho⟩, ?_⟩
      have := valid_refines hi hb hr h
      rw [show (⟨w, iss⟩ : CW).issued = iss from rfl, ho] at this
      simp only [WS.isAlive] at this
      rw [← this]; exact hv
    · rintro ⟨hm, ha⟩
      rcases List.mem_filterMap.mp hm with ⟨h, hm', ho⟩
      refine ⟨h, hm', ?_, ho⟩
      have := valid_refines hi hb hr h
      rw [show (⟨w, iss⟩ : CW).issued = iss from rfl, ho] at this
      simp only [WS.isAlive] at this
      rw [this]; exact ha
  have hP := wsKill_fold_perm info s s.marked (w.marked.filterMap (ordOf iss)) hr.markedNodup hnd' hmem []
  -- the two steps
  have hstep : CW.step info ⟨w, iss⟩ .update =
      (⟨{ (w.marked.foldl (wmKill info) (w, [])).1 with marked := [] }, iss⟩, .ok,
        (w.marked.foldl (wmKill info) (w, [])).2) := by
    simp only [CW.step, WM.step, WM.update, hl0, Bool.false_eq_true, if_false, issueOut, resOut]
    rfl
  have hs : s.step info (Op.mapRef (ordOf iss) (.update : Op Handle)) =
      ({ (s.marked.foldl (wsKill info) (s, [])).1 with marked := [] }, .ok,
        (s.marked.foldl (wsKill info) (s, [])).2) := by
    simp only [Op.mapRef, WS.step, hnl, if_false, WS.update]
    rfl
  unfold StepRefines
  rw [hstep, hs, hP.1]
  refine ⟨inv_clear_marked hA.1, rel_clear_marked hA.2.1, trivial, ?_⟩
  simp only [isUnlockOp, Bool.false_eq_true, if_false]
  unfold cbsAgree at hA ⊢
  exact hA.2.2.1.trans (hP.2.symm.map some)

end Mustache.Proofs.Refine

import Mustache.Model.World
/-!
# Rows / locations of the world model: invariant and primitive steps (C02, basis)

`RowsOK w`: every row has one value per mask entry, and the location table points back at every row
(`locs[row.ent.id] = (archetype, index)`), which also makes ids unique over all rows.
This file: accessor lemmas for `setArch` / `setLoc`, the generic step `insertRow`, its invariant and
frame lemmas. `RowsRemove.lean` has the swap-remove, `RowsMove.lean` `externalMove` / `getArch`.
-/
namespace Mustache.Proofs.Rows
open Mustache.Model

/-- the id of the null handle (all ones in 30 bits): `setLoc` ignores it -/
def nullId : Nat := 2^30 - 1

/-- the value `Archetype::remove` leaves in a cleared location's index -/
def noIdx : Nat := 2^32 - 1

/-! ## accessors through `setArch` / `setLoc` -/

theorem arch_def (w : WM) (i : Nat) : w.arch i = w.archs.getD i ⟨[], Shared.null, []⟩ := rfl

theorem arch_of_ge (w : WM) (i : Nat) (h : w.archs.length ≤ i) : w.arch i = ⟨[], Shared.null, []⟩ := by
  simp [arch_def, List.getD_eq_getElem?_getD, List.getElem?_eq_none_iff.mpr h]

theorem arch_rows_of_ge (w : WM) (i j : Nat) (h : w.archs.length ≤ i) : (w.arch i).rows[j]? = none := by
  rw [arch_of_ge w i h]; rfl

theorem lt_of_row {w : WM} {ai i : Nat} {r : Row} (h : (w.arch ai).rows[i]? = some r) :
    ai < w.archs.length := by
  apply Classical.byContradiction
  intro hn
  rw [arch_rows_of_ge w ai i (by omega)] at h
  cases h

theorem idx_lt_of_row {w : WM} {ai i : Nat} {r : Row} (h : (w.arch ai).rows[i]? = some r) :
    i < (w.arch ai).rows.length :=
  (List.getElem?_eq_some_iff.mp h).1

theorem arch_setArch_same (w : WM) (i : Nat) (a : Arch) (h : i < w.archs.length) :
    (w.setArch i a).arch i = a := by
  simp [WM.setArch, arch_def, List.getD_eq_getElem?_getD, List.getElem?_set_self h]

theorem arch_setArch_ne (w : WM) (i j : Nat) (a : Arch) (h : j ≠ i) :
    (w.setArch i a).arch j = w.arch j := by
  simp [WM.setArch, arch_def, List.getD_eq_getElem?_getD, List.getElem?_set_ne (Ne.symm h)]

theorem archs_length_setArch (w : WM) (i : Nat) (a : Arch) :
    (w.setArch i a).archs.length = w.archs.length := by
  simp [WM.setArch]

theorem locs_setArch (w : WM) (i : Nat) (a : Arch) : (w.setArch i a).locs = w.locs := rfl

theorem archs_setLoc (w : WM) (h : Handle) (a : Option Nat) (i : Nat) :
    (w.setLoc h a i).archs = w.archs := by
  unfold WM.setLoc; split <;> rfl

theorem arch_setLoc (w : WM) (h : Handle) (a : Option Nat) (i j : Nat) :
    (w.setLoc h a i).arch j = w.arch j := by
  simp [arch_def, archs_setLoc]

theorem locs_setLoc (w : WM) (h : Handle) (a : Option Nat) (i : Nat) :
    (w.setLoc h a i).locs = if h.id = nullId then w.locs else w.locs.set h.id ⟨a, i⟩ := by
  unfold WM.setLoc nullId; split <;> rfl

theorem locs_length_setLoc (w : WM) (h : Handle) (a : Option Nat) (i : Nat) :
    (w.setLoc h a i).locs.length = w.locs.length := by
  rw [locs_setLoc]; split <;> simp

/-- location of `id` after `setLoc h` when `h` is a proper id -/
theorem locs_setLoc_get (w : WM) (h : Handle) (a : Option Nat) (i id : Nat) (hn : h.id ≠ nullId) :
    (w.setLoc h a i).locs[id]? =
      if h.id = id then (if id < w.locs.length then some ⟨a, i⟩ else none) else w.locs[id]? := by
  rw [locs_setLoc, if_neg hn, List.getElem?_set]
  by_cases hid : h.id = id
  · subst hid; simp
  · simp [hid]

/-- the fields `setLoc` / `setArch` do not touch -/
structure SameTable (w w' : WM) : Prop where
  worldId : w'.worldId = w.worldId
  slots : w'.slots = w.slots
  next : w'.next = w.next
  empty : w'.empty = w.empty
  deps : w'.deps = w.deps
  pool : w'.pool = w.pool
  nextInst : w'.nextInst = w.nextInst
  lockDepth : w'.lockDepth = w.lockDepth
  nextEntityId : w'.nextEntityId = w.nextEntityId
  nthreads : w'.nthreads = w.nthreads
  buffers : w'.buffers = w.buffers
  marked : w'.marked = w.marked
  temps : w'.temps = w.temps

theorem SameTable.refl (w : WM) : SameTable w w :=
  ⟨rfl, rfl, rfl, rfl, rfl, rfl, rfl, rfl, rfl, rfl, rfl, rfl, rfl⟩

theorem SameTable.trans {a b c : WM} (h₁ : SameTable a b) (h₂ : SameTable b c) : SameTable a c :=
  ⟨h₂.worldId.trans h₁.worldId, h₂.slots.trans h₁.slots, h₂.next.trans h₁.next,
   h₂.empty.trans h₁.empty, h₂.deps.trans h₁.deps, h₂.pool.trans h₁.pool,
   h₂.nextInst.trans h₁.nextInst, h₂.lockDepth.trans h₁.lockDepth,
   h₂.nextEntityId.trans h₁.nextEntityId, h₂.nthreads.trans h₁.nthreads,
   h₂.buffers.trans h₁.buffers, h₂.marked.trans h₁.marked, h₂.temps.trans h₁.temps⟩

theorem sameTable_setArch (w : WM) (i : Nat) (a : Arch) : SameTable w (w.setArch i a) :=
  ⟨rfl, rfl, rfl, rfl, rfl, rfl, rfl, rfl, rfl, rfl, rfl, rfl, rfl⟩

theorem sameTable_setLoc (w : WM) (h : Handle) (a : Option Nat) (i : Nat) :
    SameTable w (w.setLoc h a i) := by
  unfold WM.setLoc; split <;> exact ⟨rfl, rfl, rfl, rfl, rfl, rfl, rfl, rfl, rfl, rfl, rfl, rfl, rfl⟩

theorem SameTable.isValid {w w' : WM} (h : SameTable w w') (e : Handle) : w'.isValid e = w.isValid e := by
  unfold WM.isValid; rw [h.worldId, h.slots]

theorem SameTable.isLocked {w w' : WM} (h : SameTable w w') : w'.isLocked = w.isLocked := by
  unfold WM.isLocked; rw [h.lockDepth]

/-! ## the invariant -/

/-- rows are well-formed and the location table points back at each of them -/
structure RowsOK (w : WM) : Prop where
  vals : ∀ (ai i : Nat) (r : Row), (w.arch ai).rows[i]? = some r →
    r.vals.length = (w.arch ai).mask.length
  loc : ∀ (ai i : Nat) (r : Row), (w.arch ai).rows[i]? = some r →
    r.ent.id ≠ nullId ∧ w.locs[r.ent.id]? = some ⟨some ai, i⟩

/-- no row belongs to id `id` -/
def NotInRow (w : WM) (id : Nat) : Prop :=
  ∀ (ai i : Nat) (r : Row), (w.arch ai).rows[i]? = some r → r.ent.id ≠ id

/-- `e` owns row `i` of archetype `ai` -/
def InRowAt (w : WM) (e : Handle) (ai i : Nat) : Prop := ∃ r, (w.arch ai).rows[i]? = some r ∧ r.ent = e

/-- ids are unique over all rows of all archetypes -/
theorem RowsOK.unique {w : WM} (h : RowsOK w) {ai i aj j : Nat} {r r' : Row}
    (h₁ : (w.arch ai).rows[i]? = some r) (h₂ : (w.arch aj).rows[j]? = some r')
    (hid : r.ent.id = r'.ent.id) : ai = aj ∧ i = j := by
  have a := (h.loc ai i r h₁).2
  have b := (h.loc aj j r' h₂).2
  rw [hid, b] at a
  simp at a
  exact ⟨a.1.symm, a.2.symm⟩

theorem RowsOK.locOf {w : WM} (h : RowsOK w) {ai i : Nat} {r : Row}
    (h₁ : (w.arch ai).rows[i]? = some r) : w.locOf r.ent = ⟨some ai, i⟩ := by
  unfold WM.locOf
  rw [List.getD_eq_getElem?_getD, (h.loc ai i r h₁).2]; rfl

theorem RowsOK.id_lt {w : WM} (h : RowsOK w) {ai i : Nat} {r : Row}
    (h₁ : (w.arch ai).rows[i]? = some r) : r.ent.id < w.locs.length :=
  (List.getElem?_eq_some_iff.mp (h.loc ai i r h₁).2).1

theorem rowsOK_init : RowsOK ({} : WM) := by
  constructor <;> intro ai i r h <;> simp [WM.arch] at h

/-! ## the generic insertion step -/

/-- append the row `⟨e, vals⟩` to archetype `ai` and point `e`'s location at it -/
def insertRow (w : WM) (ai : Nat) (e : Handle) (vals : List Val) : WM :=
  (w.setArch ai { w.arch ai with rows := (w.arch ai).rows ++ [⟨e, vals⟩] }).setLoc e (some ai)
    (w.arch ai).rows.length

theorem insertRow_sameTable (w : WM) (ai : Nat) (e : Handle) (vals : List Val) :
    SameTable w (insertRow w ai e vals) :=
  (sameTable_setArch _ _ _).trans (sameTable_setLoc _ _ _ _)

theorem insertRow_archs_length (w : WM) (ai : Nat) (e : Handle) (vals : List Val) :
    (insertRow w ai e vals).archs.length = w.archs.length := by
  simp [insertRow, archs_setLoc, archs_length_setArch]

theorem insertRow_locs_length (w : WM) (ai : Nat) (e : Handle) (vals : List Val) :
    (insertRow w ai e vals).locs.length = w.locs.length := by
  simp [insertRow, locs_length_setLoc, locs_setArch]

theorem insertRow_arch_same (w : WM) (ai : Nat) (e : Handle) (vals : List Val) (h : ai < w.archs.length) :
    (insertRow w ai e vals).arch ai = { w.arch ai with rows := (w.arch ai).rows ++ [⟨e, vals⟩] } := by
  simp [insertRow, arch_setLoc, arch_setArch_same _ _ _ h]

theorem insertRow_arch_ne (w : WM) (ai aj : Nat) (e : Handle) (vals : List Val) (h : aj ≠ ai) :
    (insertRow w ai e vals).arch aj = w.arch aj := by
  simp [insertRow, arch_setLoc, arch_setArch_ne _ _ _ _ h]

theorem insertRow_mask (w : WM) (ai aj : Nat) (e : Handle) (vals : List Val) (h : ai < w.archs.length) :
    ((insertRow w ai e vals).arch aj).mask = (w.arch aj).mask ∧
    ((insertRow w ai e vals).arch aj).shared = (w.arch aj).shared := by
  by_cases hj : aj = ai
  · subst hj; rw [insertRow_arch_same _ _ _ _ h]; exact ⟨rfl, rfl⟩
  · rw [insertRow_arch_ne _ _ _ _ _ hj]; exact ⟨rfl, rfl⟩

/-- rows after the insertion: the old ones where they were, plus the new one at the end of `ai` -/
theorem insertRow_rows (w : WM) (ai aj j : Nat) (e : Handle) (vals : List Val) (r : Row)
    (h : ai < w.archs.length) :
    ((insertRow w ai e vals).arch aj).rows[j]? = some r ↔
      (w.arch aj).rows[j]? = some r ∨ (aj = ai ∧ j = (w.arch ai).rows.length ∧ r = ⟨e, vals⟩) := by
  by_cases hj : aj = ai
  · subst hj
    rw [insertRow_arch_same _ _ _ _ h]
    simp only [List.getElem?_append]
    by_cases hlt : j < (w.arch aj).rows.length
    · simp only [hlt, if_true]
      constructor
      · intro hh; exact Or.inl hh
      · rintro (hh | ⟨_, hh, _⟩)
        · exact hh
        · omega
    · simp only [hlt, if_false]
      have hnone : (w.arch aj).rows[j]? = none := List.getElem?_eq_none_iff.mpr (by omega)
      rw [hnone]
      by_cases hje : j = (w.arch aj).rows.length
      · subst hje; simp [eq_comm]
      · have : j - (w.arch aj).rows.length ≠ 0 := by omega
        have h2 : [(⟨e, vals⟩ : Row)][j - (w.arch aj).rows.length]? = none :=
          List.getElem?_eq_none_iff.mpr (by simp; omega)
        rw [h2]; simp [hje]
  · rw [insertRow_arch_ne _ _ _ _ _ hj]
    simp [hj]

theorem insertRow_locs (w : WM) (ai : Nat) (e : Handle) (vals : List Val) (id : Nat)
    (hn : e.id ≠ nullId) :
    (insertRow w ai e vals).locs[id]? =
      if e.id = id then (if id < w.locs.length then some ⟨some ai, (w.arch ai).rows.length⟩ else none)
      else w.locs[id]? := by
  unfold insertRow
  rw [locs_setLoc_get _ _ _ _ _ hn]; rfl

/-- the invariant survives the insertion of a row for a fresh, in-range, non-null id -/
theorem rowsOK_insertRow {w : WM} (hok : RowsOK w) (ai : Nat) (e : Handle) (vals : List Val)
    (hai : ai < w.archs.length) (hn : e.id ≠ nullId) (hlt : e.id < w.locs.length)
    (hfresh : NotInRow w e.id) (hvals : vals.length = (w.arch ai).mask.length) :
    RowsOK (insertRow w ai e vals) := by
  constructor
  · intro aj j r hr
    rw [(insertRow_mask w ai aj e vals hai).1]
    rcases (insertRow_rows w ai aj j e vals r hai).mp hr with hold | ⟨rfl, _, rfl⟩
    · exact hok.vals aj j r hold
    · exact hvals
  · intro aj j r hr
    rw [insertRow_locs w ai e vals _ hn]
    rcases (insertRow_rows w ai aj j e vals r hai).mp hr with hold | ⟨rfl, rfl, rfl⟩
    · have hne : e.id ≠ r.ent.id := fun h => hfresh aj j r hold h.symm
      rw [if_neg hne]
      exact hok.loc aj j r hold
    · simp [hn, hlt]

/-- frame: every old row is still where it was, and its location still points at it -/
theorem insertRow_keeps {w : WM} (ai : Nat) (e : Handle) (vals : List Val)
    (hai : ai < w.archs.length) {aj j : Nat} {r : Row} (hr : (w.arch aj).rows[j]? = some r) :
    ((insertRow w ai e vals).arch aj).rows[j]? = some r :=
  (insertRow_rows w ai aj j e vals r hai).mpr (Or.inl hr)

theorem insertRow_locOf_other (w : WM) (ai : Nat) (e : Handle) (vals : List Val) (h : Handle)
    (hne : h.id ≠ e.id) : (insertRow w ai e vals).locOf h = w.locOf h := by
  unfold WM.locOf insertRow
  rw [locs_setLoc, locs_setArch]
  split
  · rfl
  · rw [List.getD_eq_getElem?_getD, List.getD_eq_getElem?_getD, List.getElem?_set_ne (Ne.symm hne)]

theorem insertRow_locOf_self (w : WM) (ai : Nat) (e : Handle) (vals : List Val)
    (hn : e.id ≠ nullId) (hlt : e.id < w.locs.length) :
    (insertRow w ai e vals).locOf e = ⟨some ai, (w.arch ai).rows.length⟩ := by
  unfold WM.locOf
  rw [List.getD_eq_getElem?_getD, insertRow_locs _ _ _ _ _ hn]
  simp [hlt]

theorem archInsert_eq (info : CompId → CompInfo) (w : WM) (ai : Nat) (e : Handle) (skip : Mask) :
    ∃ vals, (w.archInsert info ai e skip).1 = insertRow w ai e vals ∧
      vals.length = (w.arch ai).mask.length :=
  ⟨_, rfl, by simp⟩

end Mustache.Proofs.Rows

import Mustache.Proofs.RowsNew
/-!
# Builder operations (`begin(e)…end()`, `begin()…end()`) and `clearArchetype`
-/
namespace Mustache.Proofs.Rows
open Mustache.Model

theorem foldl_inv {α β : Type} (P : α → Prop) (f : α → β → α) (hf : ∀ a b, P a → P (f a b)) :
    ∀ (l : List β) (a : α), P a → P (l.foldl f a) := by
  intro l
  induction l with
  | nil => intro a h; exact h
  | cons b l ih => intro a h; exact ih _ (hf a b h)

/-- a fresh row for an id that owns none -/
theorem insertRow_moved {w : WM} (hok : RowsOK w) (ai : Nat) (e : Handle) (vals : List Val)
    (hai : ai < w.archs.length) (hn : e.id ≠ nullId) (hlt : e.id < w.locs.length)
    (hfresh : NotInRow w e.id) (hvals : vals.length = (w.arch ai).mask.length) :
    Moved w (insertRow w ai e vals) e ai vals := by
  refine ⟨⟨rowsOK_insertRow hok ai e vals hai hn hlt hfresh hvals,
    OpFrame.of_sameTable (insertRow_keepsOthers hok ai e vals hai) (insertRow_sameTable _ _ _ _),
    by rw [insertRow_locs_length]; exact Nat.le_refl _, ?_,
    fun hk => (insertRow_keysSame w ai e vals hai).keysOK hk⟩, insertRow_sameTable _ _ _ _,
    ⟨_, insertRow_locOf_self w ai e vals hn hlt,
      (insertRow_rows w ai ai _ e vals _ hai).mpr (Or.inr ⟨rfl, rfl, rfl⟩)⟩⟩
  intro x hx hnr aj j r hr
  rcases (insertRow_rows w ai aj j e vals r hai).mp hr with hold | ⟨_, _, rfl⟩
  · exact hnr aj j r hold
  · exact fun h => hx h.symm

/-- the `initComponent` loop of the builder: every step is a `setCell` on the operand's row -/
theorem builder_fold_moved (info : CompId → CompInfo) {w w2 : WM} {e : Handle} {ti : Nat} {vals : List Val}
    (hm : Moved w w2 e ti vals) (n : Nat) (hn : (w2.locOf e).idx = n)
    (adds : List (CompId × Option Nat)) (cbs0 : List Cb) :
    ∃ vals', Moved w (adds.foldl (fun (acc : WM × List Cb) (p : CompId × Option Nat) =>
        let w := acc.1
        let ta := w.arch ti
        match ta.mask.indexOf? p.1 with
        | none => acc
        | some ci =>
          let row := ta.rows.getD n default
          let v : Val := match (info p.1).fixed with
            | some f => some f
            | none => match p.2 with
              | some tok => some tok
              | none => defaultVal info p.1
          let w := w.setArch ti { ta with rows := ta.rows.set n { row with vals := row.vals.set ci v } }
          (w, acc.2 ++ (if (info p.1).callbacks then [Cb.assign p.1 e] else []))) (w2, cbs0)).1 e ti vals' := by
  have key := foldl_inv (fun (acc : WM × List Cb) => ∃ vals', Moved w acc.1 e ti vals' ∧ (acc.1.locOf e).idx = n)
    (fun (acc : WM × List Cb) (p : CompId × Option Nat) =>
        let w := acc.1
        let ta := w.arch ti
        match ta.mask.indexOf? p.1 with
        | none => acc
        | some ci =>
          let row := ta.rows.getD n default
          let v : Val := match (info p.1).fixed with
            | some f => some f
            | none => match p.2 with
              | some tok => some tok
              | none => defaultVal info p.1
          let w := w.setArch ti { ta with rows := ta.rows.set n { row with vals := row.vals.set ci v } }
          (w, acc.2 ++ (if (info p.1).callbacks then [Cb.assign p.1 e] else []))) ?_ adds (w2, cbs0)
    ⟨vals, hm, hn⟩
  · rcases key with ⟨v', h', _⟩; exact ⟨v', h'⟩
  · intro a b ⟨v0, h0, hn0⟩
    simp only
    split
    · exact ⟨v0, h0, hn0⟩
    · rename_i ci _
      have h2 := fun v => h0.setCell ci v
      rw [hn0] at h2
      exact ⟨_, h2 _, hn0⟩

/-! ## builder on an existing entity -/

theorem buildUpdateU_step (info : CompId → CompInfo) {w : WM} (hok : RowsOK w) (e : Handle)
    (adds : List (CompId × Option Nat)) (rems : Mask) (hloc : Located w e) :
    Step w (w.buildUpdateU info e adds rems).1 e.id := by
  unfold WM.buildUpdateU
  cases hla : (w.locOf e).arch with
  | none => simp only [hla]; exact Step.refl hok _
  | some pi =>
    simp only [hla]
    rcases hloc pi hla with ⟨prow, hr, he⟩
    have hmk : KeysOK w →
        MaskOk (Mask.diff (Mask.union (Mask.ofList (adds.map (·.1))) (w.arch pi).mask) rems) :=
      fun _ => maskOk_diff (maskOk_union (maskOk_ofList _) _) _
    rcases getArch_move info hok
      (Mask.diff (Mask.union (Mask.ofList (adds.map (·.1))) (w.arch pi).mask) rems)
      (Shared.null.merge (w.arch pi).shared) e pi (w.locOf e).idx (Mask.ofList (adds.map (·.1)))
      prow hr he hmk with ⟨_, hnone⟩ | ⟨_, w2, cbs, hsome, hm, _, _⟩
    · rw [hnone]; exact getArch_step hok _ _ _ hmk
    · rw [hsome]
      simp only
      rcases builder_fold_moved info hm (w2.locOf e).idx rfl adds [] with ⟨v', h'⟩
      exact h'.step

/-! ## builder creating an entity -/

theorem allocId_step {w : WM} (hok : RowsOK w) (hfresh : NotInRow w (w.allocId).2.id) :
    Step w (w.allocId).1 (w.allocId).2.id :=
  ⟨rowsOK_allocId hok hfresh, allocId_opFrame hok,
   by rw [allocId_locs_length]; split <;> omega, fun _ _ h => allocId_notInRow h,
   fun hk => (KeysSame.of_archs (allocId_archs w)).keysOK hk⟩

theorem buildNewU_step (info : CompId → CompInfo) {w : WM} (hok : RowsOK w) (ha : AllocOK w)
    (adds : List (CompId × Option Nat)) :
    Step w (w.buildNewU info adds).1 (w.allocId).2.id ∧ (w.buildNewU info adds).2.1 = (w.allocId).2 := by
  have hs1 := allocId_step hok ha.fresh
  have hfresh1 : NotInRow (w.allocId).1 (w.allocId).2.id := allocId_notInRow ha.fresh
  -- the part after `allocId`, for any mask / skip
  have tail : ∀ (m skip : Mask),
      Moved ((w.allocId).1.getArch m Shared.null).1
        (((w.allocId).1.getArch m Shared.null).1.archInsert info ((w.allocId).1.getArch m Shared.null).2
          (w.allocId).2 skip).1 (w.allocId).2 ((w.allocId).1.getArch m Shared.null).2
        ((((w.allocId).1.getArch m Shared.null).1.arch ((w.allocId).1.getArch m Shared.null).2).mask.map
          (fun c => if (skip == (((w.allocId).1.getArch m Shared.null).1.arch
              ((w.allocId).1.getArch m Shared.null).2).mask) || skip.contains c
            then (match (info c).fixed with | some v => some v | none => none) else defaultVal info c)) := by
    intro m skip
    have hok2 := rowsOK_getArch hs1.ok m Shared.null
    exact insertRow_moved hok2 _ (w.allocId).2 _ (getArch_idx_lt _ m Shared.null) ha.notNull
      (by rw [getArch_locs]; exact ha.inRange) (getArch_notInRow m Shared.null hfresh1) (by simp)
  unfold WM.buildNewU
  by_cases hempty : adds.isEmpty = true
  · simp only [hempty, if_true]
    exact ⟨hs1.trans ((getArch_step hs1.ok [] Shared.null _ (fun _ => maskOk_nil)).trans (tail [] []).step),
      by first | rfl | trivial⟩
  · simp only [hempty, Bool.false_eq_true, if_false]
    have hm := tail (Mask.ofList (adds.map (·.1))) (Mask.ofList (adds.map (·.1)))
    rcases builder_fold_moved info hm _ rfl adds [] with ⟨v', h'⟩
    exact ⟨hs1.trans ((getArch_step hs1.ok _ Shared.null _ (fun _ => maskOk_ofList _)).trans h'.step),
      by first | rfl | trivial⟩

/-! ## `clearArchetype` -/

/-- the release loop of `clearArchetype` over a list of rows -/
def clearLoop (w : WM) (rows : List Row) : WM :=
  rows.foldl (fun (w : WM) r =>
    let w := { w with locs := w.locs.set r.ent.id ⟨none, (w.locOf r.ent).idx⟩ }
    { w with slots := w.slots.set r.ent.id ⟨if w.empty ≠ 0 then w.next else r.ent.id + 1, (r.ent.ver + 1) % 2^24⟩,
             next := r.ent.id, empty := w.empty + 1 }) w

theorem clearLoop_spec (rows : List Row) (w : WM) :
    (clearLoop w rows).archs = w.archs ∧ (clearLoop w rows).worldId = w.worldId ∧
    (clearLoop w rows).locs.length = w.locs.length ∧
    ∀ id, (∀ r ∈ rows, r.ent.id ≠ id) →
      (clearLoop w rows).locs[id]? = w.locs[id]? ∧ (clearLoop w rows).slots[id]? = w.slots[id]? := by
  induction rows generalizing w with
  | nil => exact ⟨rfl, rfl, rfl, fun _ _ => ⟨rfl, rfl⟩⟩
  | cons r rows ih =>
    unfold clearLoop
    rw [List.foldl_cons]
    have := ih ({ ({ w with locs := w.locs.set r.ent.id ⟨none, (w.locOf r.ent).idx⟩ } : WM) with
      slots := w.slots.set r.ent.id ⟨if w.empty ≠ 0 then w.next else r.ent.id + 1, (r.ent.ver + 1) % 2^24⟩,
      next := r.ent.id, empty := w.empty + 1 })
    unfold clearLoop at this
    refine ⟨this.1, this.2.1, ?_, ?_⟩
    · rw [this.2.2.1]; simp
    · intro id hid
      have h1 := this.2.2.2 id (fun r' hr' => hid r' (List.mem_cons_of_mem _ hr'))
      have hne : r.ent.id ≠ id := hid r (by simp)
      rw [h1.1, h1.2]
      exact ⟨List.getElem?_set_ne hne, List.getElem?_set_ne hne⟩

theorem isValid_congr {w w' : WM} {h : Handle} (h1 : w'.worldId = w.worldId)
    (h2 : w'.slots[h.id]? = w.slots[h.id]?) : w'.isValid h = w.isValid h := by
  unfold WM.isValid; rw [h1, h2]

theorem clearArch_fst (info : CompId → CompInfo) (w : WM) (ai : Nat) :
    (w.clearArch info ai).1 = (clearLoop w (w.arch ai).rows).setArch ai { w.arch ai with rows := [] } := rfl

/-- `clearArchetype(ai)`: the invariant survives; rows of the other archetypes, their locations and the
validity of their owners are untouched; the cleared archetype is empty -/
theorem clearArch_spec (info : CompId → CompInfo) {w : WM} (hok : RowsOK w) (ai : Nat) :
    RowsOK (w.clearArch info ai).1 ∧
    ((w.clearArch info ai).1.arch ai).rows = [] ∧
    (∀ aj, aj ≠ ai → (w.clearArch info ai).1.arch aj = w.arch aj) ∧
    (∀ (aj j : Nat) (r : Row), aj ≠ ai → (w.arch aj).rows[j]? = some r →
      (w.clearArch info ai).1.locs[r.ent.id]? = some ⟨some aj, j⟩ ∧
      (w.clearArch info ai).1.isValid r.ent = w.isValid r.ent) := by
  rw [clearArch_fst]
  have hl := clearLoop_spec (w.arch ai).rows w
  have harch : ∀ aj, (clearLoop w (w.arch ai).rows).arch aj = w.arch aj := fun aj => by
    rw [arch_def, hl.1]; rfl
  have hoth : ∀ aj, aj ≠ ai →
      ((clearLoop w (w.arch ai).rows).setArch ai { w.arch ai with rows := [] }).arch aj = w.arch aj := by
    intro aj hne; rw [arch_setArch_ne _ _ _ _ hne, harch]
  have hempty : (((clearLoop w (w.arch ai).rows).setArch ai { w.arch ai with rows := [] }).arch ai).rows = [] := by
    by_cases hlt : ai < w.archs.length
    · rw [arch_setArch_same _ _ _ (by rw [hl.1]; exact hlt)]
    · rw [arch_of_ge _ ai (by rw [archs_length_setArch, hl.1]; omega)]
  -- ids of rows outside `ai` are not touched by the loop
  have hkeep : ∀ (aj j : Nat) (r : Row), aj ≠ ai → (w.arch aj).rows[j]? = some r →
      ∀ r' ∈ (w.arch ai).rows, r'.ent.id ≠ r.ent.id := by
    intro aj j r hne hr r' hr' hid
    rcases List.getElem?_of_mem hr' with ⟨k, hk⟩
    exact hne (hok.unique hk hr hid).1.symm
  refine ⟨⟨?_, ?_⟩, hempty, hoth, ?_⟩
  · intro aj j r hr
    by_cases hne : aj = ai
    · subst hne; rw [hempty] at hr; cases hr
    · rw [hoth aj hne] at hr ⊢; exact hok.vals aj j r hr
  · intro aj j r hr
    by_cases hne : aj = ai
    · subst hne; rw [hempty] at hr; cases hr
    · rw [hoth aj hne] at hr
      rw [locs_setArch, (hl.2.2.2 r.ent.id (hkeep aj j r hne hr)).1]
      exact hok.loc aj j r hr
  · intro aj j r hne hr
    have h2 := hl.2.2.2 r.ent.id (hkeep aj j r hne hr)
    refine ⟨by rw [locs_setArch, h2.1]; exact (hok.loc aj j r hr).2, ?_⟩
    exact isValid_congr (hl.2.1) h2.2

end Mustache.Proofs.Rows

import Mustache.Proofs.RowsBuild
/-!
# Executable checkers for the row invariants (used for the non-vacuity examples on concrete states)
-/
namespace Mustache.Proofs.Rows
open Mustache.Model

/-- `p` holds for every row of every archetype, given archetype index, row index and row -/
def allRows (w : WM) (p : Nat → Nat → Row → Bool) : Bool :=
  (List.range w.archs.length).all fun ai =>
    (List.range (w.arch ai).rows.length).all fun i => p ai i ((w.arch ai).rows.getD i default)

theorem allRows_sound {w : WM} {p : Nat → Nat → Row → Bool} (h : allRows w p = true)
    {ai i : Nat} {r : Row} (hr : (w.arch ai).rows[i]? = some r) : p ai i r = true := by
  unfold allRows at h
  rw [List.all_eq_true] at h
  have h1 := h ai (List.mem_range.mpr (lt_of_row hr))
  rw [List.all_eq_true] at h1
  have h2 := h1 i (List.mem_range.mpr (idx_lt_of_row hr))
  rw [List.getD_eq_getElem?_getD, hr] at h2
  exact h2

def rowsOKb (w : WM) : Bool :=
  allRows w fun ai i r =>
    r.vals.length == (w.arch ai).mask.length && r.ent.id != nullId &&
      w.locs[r.ent.id]? == some ⟨some ai, i⟩

theorem rowsOK_of_check {w : WM} (h : rowsOKb w = true) : RowsOK w := by
  constructor
  · intro ai i r hr
    have := allRows_sound h hr
    simp only [Bool.and_eq_true, beq_iff_eq] at this
    exact this.1.1
  · intro ai i r hr
    have := allRows_sound h hr
    simp only [Bool.and_eq_true, beq_iff_eq, bne_iff_ne] at this
    exact ⟨this.1.2, this.2⟩

def notInRowb (w : WM) (id : Nat) : Bool := allRows w fun _ _ r => r.ent.id != id

theorem notInRow_of_check {w : WM} {id : Nat} (h : notInRowb w id = true) : NotInRow w id := by
  intro ai i r hr
  have := allRows_sound h hr
  simpa using this

def allocOKb (w : WM) : Bool :=
  notInRowb w (w.allocId).2.id && (w.allocId).2.id != nullId &&
    decide ((w.allocId).2.id < (w.allocId).1.locs.length)

theorem allocOK_of_check {w : WM} (h : allocOKb w = true) : AllocOK w := by
  unfold allocOKb at h
  simp only [Bool.and_eq_true, bne_iff_ne, decide_eq_true_eq] at h
  exact ⟨notInRow_of_check h.1.1, h.1.2, h.2⟩

def sortedb : Mask → Bool
  | [] => true
  | [_] => true
  | x :: y :: rest => decide (x < y) && sortedb (y :: rest)

theorem maskOk_of_sortedb : ∀ (m : Mask), sortedb m = true → MaskOk m
  | [], _ => List.Pairwise.nil
  | [x], _ => List.pairwise_singleton _ x
  | x :: y :: rest, h => by
    simp only [sortedb, Bool.and_eq_true, decide_eq_true_eq] at h
    have ih := maskOk_of_sortedb (y :: rest) h.2
    refine List.pairwise_cons.mpr ⟨?_, ih⟩
    intro z hz
    rcases List.mem_cons.mp hz with rfl | hz
    · exact h.1
    · exact Nat.lt_trans h.1 ((List.pairwise_cons.mp ih).1 z hz)

def keysOKb (w : WM) : Bool :=
  (List.range w.archs.length).all fun ai =>
    sortedb (w.arch ai).mask &&
    (List.range w.archs.length).all fun aj =>
      !((w.arch ai).mask == (w.arch aj).mask && (w.arch ai).shared.data == (w.arch aj).shared.data) || ai == aj

theorem keysOK_of_check {w : WM} (h : keysOKb w = true) : KeysOK w := by
  unfold keysOKb at h
  rw [List.all_eq_true] at h
  constructor
  · intro ai hai
    have := h ai (List.mem_range.mpr hai)
    simp only [Bool.and_eq_true] at this
    exact maskOk_of_sortedb _ this.1
  · intro ai aj hai haj hm hd
    have := h ai (List.mem_range.mpr hai)
    simp only [Bool.and_eq_true] at this
    have h2 := this.2
    rw [List.all_eq_true] at h2
    have h3 := h2 aj (List.mem_range.mpr haj)
    simp only [hm, hd, beq_self_eq_true, Bool.and_self, Bool.not_true, Bool.false_or, beq_iff_eq] at h3
    exact h3

def inRowAtb (w : WM) (e : Handle) (ai i : Nat) : Bool :=
  match (w.arch ai).rows[i]? with
  | some r => r.ent == e
  | none => false

theorem inRowAt_of_check {w : WM} {e : Handle} {ai i : Nat} (h : inRowAtb w e ai i = true) :
    InRowAt w e ai i := by
  unfold inRowAtb at h
  cases hr : (w.arch ai).rows[i]? with
  | none => rw [hr] at h; cases h
  | some r => rw [hr] at h; exact ⟨r, hr, by simpa using h⟩

end Mustache.Proofs.Rows

import Mustache.Proofs.RowsObs
/-!
# Archetype keys: masks are sorted duplicate-free, (mask, shared instances) identifies the archetype
-/
namespace Mustache.Proofs.Rows
open Mustache.Model

structure KeysOK (w : WM) : Prop where
  masks : ∀ ai, ai < w.archs.length → MaskOk (w.arch ai).mask
  distinct : ∀ ai aj, ai < w.archs.length → aj < w.archs.length →
    (w.arch ai).mask = (w.arch aj).mask → (w.arch ai).shared.data = (w.arch aj).shared.data → ai = aj

theorem keysOK_init : KeysOK ({} : WM) :=
  ⟨fun _ h => absurd h (Nat.not_lt_zero _), fun _ _ h => absurd h (Nat.not_lt_zero _)⟩

/-- same number of archetypes, same mask and shared values at every index -/
structure KeysSame (w w' : WM) : Prop where
  alen : w'.archs.length = w.archs.length
  key : ∀ aj, (w'.arch aj).mask = (w.arch aj).mask ∧ (w'.arch aj).shared = (w.arch aj).shared

theorem KeysSame.refl (w : WM) : KeysSame w w := ⟨rfl, fun _ => ⟨rfl, rfl⟩⟩

theorem KeysSame.trans {a b c : WM} (h₁ : KeysSame a b) (h₂ : KeysSame b c) : KeysSame a c :=
  ⟨h₂.alen.trans h₁.alen, fun aj => ⟨(h₂.key aj).1.trans (h₁.key aj).1, (h₂.key aj).2.trans (h₁.key aj).2⟩⟩

theorem KeysSame.of_archs {w w' : WM} (h : w'.archs = w.archs) : KeysSame w w' :=
  ⟨by rw [h], fun aj => by rw [arch_def, h]; exact ⟨rfl, rfl⟩⟩

theorem KeysSame.keysOK {w w' : WM} (hs : KeysSame w w') (hk : KeysOK w) : KeysOK w' := by
  constructor
  · intro ai hai
    rw [(hs.key ai).1]; exact hk.masks ai (by rw [← hs.alen]; exact hai)
  · intro ai aj hai haj hm hd
    rw [(hs.key ai).1, (hs.key aj).1] at hm
    rw [(hs.key ai).2, (hs.key aj).2] at hd
    exact hk.distinct ai aj (by rw [← hs.alen]; exact hai) (by rw [← hs.alen]; exact haj) hm hd

theorem findArch_none {w : WM} {m : Mask} {sh : Shared} (h : w.findArch m sh = none) (ai : Nat)
    (hai : ai < w.archs.length) : ¬ ((w.arch ai).mask = m ∧ (w.arch ai).shared.data = sh.data) := by
  intro ⟨h1, h2⟩
  unfold WM.findArch at h
  simp only at h
  split at h
  · cases h
  · rename_i hge
    apply hge
    apply List.findIdx_lt_length_of_exists
    refine ⟨w.archs[ai], List.getElem_mem hai, ?_⟩
    have : w.arch ai = w.archs[ai] := by
      rw [arch_def, List.getD_eq_getElem?_getD, List.getElem?_eq_getElem hai]; rfl
    rw [← this]
    simp [h1, h2]

theorem keysOK_getArch {w : WM} (hk : KeysOK w) (m : Mask) (sh : Shared) (hm : MaskOk m) :
    KeysOK (w.getArch m sh).1 := by
  rcases getArch_cases w m sh with ⟨he, _⟩ | ⟨he, _, hnone⟩
  · rw [he]; exact hk
  · have hlen : (w.getArch m sh).1.archs.length = w.archs.length + 1 := by rw [he]; simp
    have hold : ∀ ai, ai < w.archs.length → (w.getArch m sh).1.arch ai = w.arch ai :=
      fun ai h => getArch_arch_lt w m sh ai h
    have hnew : (w.getArch m sh).1.arch w.archs.length = ⟨closedMask w.deps m, sh, []⟩ := by
      rw [he]; simp [arch_def, List.getD_eq_getElem?_getD]
    constructor
    · intro ai hai
      by_cases h : ai < w.archs.length
      · rw [hold ai h]; exact hk.masks ai h
      · have : ai = w.archs.length := by omega
        subst this; rw [hnew]; exact maskOk_closedMask _ hm
    · intro ai aj hai haj hmk hd
      by_cases h1 : ai < w.archs.length <;> by_cases h2 : aj < w.archs.length
      · rw [hold ai h1, hold aj h2] at hmk hd; exact hk.distinct ai aj h1 h2 hmk hd
      · have : aj = w.archs.length := by omega
        subst this
        rw [hold ai h1, hnew] at hmk hd
        exact absurd ⟨hmk, hd⟩ (findArch_none hnone ai h1)
      · have : ai = w.archs.length := by omega
        subst this
        rw [hold aj h2, hnew] at hmk hd
        exact absurd ⟨hmk.symm, hd.symm⟩ (findArch_none hnone aj h2)
      · omega

/-- equal mask and equal shared instances ⇒ the same archetype index -/
theorem same_key_same_arch {w : WM} (hk : KeysOK w) {ai aj : Nat} (hai : ai < w.archs.length)
    (haj : aj < w.archs.length) (hm : (w.arch ai).mask = (w.arch aj).mask)
    (hd : (w.arch ai).shared.data = (w.arch aj).shared.data) : ai = aj :=
  hk.distinct ai aj hai haj hm hd

theorem archRemove_keysSame (info : CompId → CompInfo) (w : WM) (ai idx : Nat) (sk : Mask) :
    KeysSame w (w.archRemove info ai idx sk).1 := by
  refine ⟨(archRemove_lengths info w ai idx sk).1, fun aj => ?_⟩
  by_cases hj : aj = ai
  · subst hj
    by_cases hlt : aj < w.archs.length
    · unfold WM.archRemove
      simp only
      split
      · exact ⟨rfl, rfl⟩
      · split <;> simp only [arch_setLoc, arch_setArch_same _ _ _ hlt] <;> trivial
    · rw [arch_of_ge w aj (by omega), arch_of_ge _ aj (by rw [(archRemove_lengths info w aj idx sk).1]; omega)]
      exact ⟨rfl, rfl⟩
  · rw [archRemove_arch_ne info w ai aj idx sk hj]; exact ⟨rfl, rfl⟩

theorem insertRow_keysSame (w : WM) (ai : Nat) (e : Handle) (vals : List Val) (h : ai < w.archs.length) :
    KeysSame w (insertRow w ai e vals) :=
  ⟨insertRow_archs_length w ai e vals, fun aj => insertRow_mask w ai aj e vals h⟩

theorem setCell_keysSame (w : WM) (ai idx ci : Nat) (v : Val) : KeysSame w (setCell w ai idx ci v) :=
  ⟨setCell_archs_length w ai idx ci v, fun aj => setCell_mask w ai aj idx ci v⟩

end Mustache.Proofs.Rows

import Mustache.Proofs.RowsBuild
/-!
# Rows are exactly the live handles: every valid handle owns a row, every row belongs to a valid handle
-/
namespace Mustache.Proofs.Rows
open Mustache.Model

structure LiveInv (w : WM) : Prop where
  live_in : ∀ e : Handle, w.isValid e = true → ∃ ai i, InRowAt w e ai i
  row_live : ∀ (ai i : Nat) (r : Row), (w.arch ai).rows[i]? = some r → w.isValid r.ent = true

theorem liveInv_init : LiveInv ({} : WM) := by
  constructor
  · intro e h; simp [WM.isValid] at h
  · intro ai i r h; simp [WM.arch] at h

/-- two valid handles with the same id are the same handle -/
theorem valid_same_id {w : WM} {e x : Handle} (he : w.isValid e = true) (hx : w.isValid x = true)
    (hid : x.id = e.id) : x = e := by
  unfold WM.isValid at he hx
  rw [hid] at hx
  cases hs : w.slots[e.id]? with
  | none => rw [hs] at he; simp at he
  | some s =>
    rw [hs] at he hx
    simp only [Bool.and_eq_true, beq_iff_eq] at he hx
    cases e; cases x
    simp only at hid he hx ⊢
    rw [hid, ← hx.2.1, ← he.2.1, hx.1.2, he.1.2]

/-- after a step on `e.id` that leaves `e` valid and owning a row, rows = live handles again -/
theorem liveInv_owns {w w' : WM} {e : Handle} {ai : Nat} {vals : List Val} (hs : Step w w' e.id)
    (_hok : RowsOK w) (hl : LiveInv w) (ho : Owns w' e ai vals) : LiveInv w' := by
  rcases ho.here with ⟨n, _, hrow⟩
  constructor
  · intro x hx
    by_cases hid : x.id = e.id
    · have := valid_same_id ho.valid hx hid
      subst this
      exact ⟨ai, n, _, hrow, rfl⟩
    · rw [hs.frame.valid x hid] at hx
      rcases hl.live_in x hx with ⟨aj, j, r, hr, rfl⟩
      rcases hs.frame.keeps aj j r hr hid with ⟨⟨j', hr', _⟩, _⟩
      exact ⟨aj, j', r, hr', rfl⟩
  · intro aj j r hr
    by_cases hid : r.ent.id = e.id
    · have := hs.ok.unique hr hrow hid
      rcases this with ⟨rfl, rfl⟩
      rw [hrow] at hr; cases hr
      exact ho.valid
    · -- the id owned a row before (else it would own none now)
      have hex : ∃ (ak k : Nat) (r0 : Row), (w.arch ak).rows[k]? = some r0 ∧ r0.ent.id = r.ent.id := by
        apply Classical.byContradiction
        intro hno
        have hn : NotInRow w r.ent.id := fun ak k r0 h0 hh => hno ⟨ak, k, r0, h0, hh⟩
        exact hs.others r.ent.id hid hn aj j r hr rfl
      rcases hex with ⟨ak, k, r0, h0, hid0⟩
      rcases hs.frame.keeps ak k r0 h0 (by rw [hid0]; exact hid) with ⟨⟨k', hr0', _⟩, _⟩
      have := hs.ok.unique hr0' hr hid0
      rcases this with ⟨rfl, rfl⟩
      have hrr : r0 = r := by rw [hr0'] at hr; exact Option.some.inj hr
      subst hrr
      rw [hs.frame.valid r0.ent hid]
      exact hl.row_live ak k r0 h0

/-- a state with the same rows and the same validity -/
theorem liveInv_of_same {w w' : WM} (hl : LiveInv w) (hrows : ∀ ai, (w'.arch ai).rows = (w.arch ai).rows)
    (hv : ∀ h, w'.isValid h = w.isValid h) : LiveInv w' := by
  constructor
  · intro e he
    rw [hv] at he
    rcases hl.live_in e he with ⟨ai, i, r, hr, hre⟩
    exact ⟨ai, i, r, by rw [hrows]; exact hr, hre⟩
  · intro ai i r hr
    rw [hrows] at hr; rw [hv]; exact hl.row_live ai i r hr

theorem liveInv_getArch {w : WM} (hl : LiveInv w) (m : Mask) (sh : Shared) : LiveInv (w.getArch m sh).1 :=
  liveInv_of_same hl (getArch_rows w m sh) (getArch_sameTable w m sh).isValid

theorem Moved.owns {w w2 : WM} {e : Handle} {ti : Nat} {vals : List Val} (hm : Moved w w2 e ti vals)
    (hv : w.isValid e = true) : Owns w2 e ti vals :=
  ⟨by rw [hm.isValid]; exact hv, hm.here⟩

/-! ## the operations -/

theorem liveInv_assign (info : CompId → CompInfo) {w : WM} (hok : RowsOK w) (hl : LiveInv w) (t : Nat)
    (e : Handle) (c : CompId) (v : Option Nat) (hv : w.isValid e = true) :
    LiveInv (w.assign info t e c v).1 := by
  by_cases hlk : w.isLocked = true
  · unfold WM.assign
    simp only [hlk, if_true]
    split <;> exact liveInv_of_same hl (fun _ => rfl) (fun _ => rfl)
  · simp only [Bool.not_eq_true] at hlk
    rcases hl.live_in e hv with ⟨pi, idx, prow, hr, he⟩
    have hloc := hok.locOf hr
    rw [he] at hloc
    have hidx : (w.locOf e).idx = idx := by rw [hloc]
    have hla' : w.locOf e = ⟨some pi, (w.locOf e).idx⟩ := by rw [hidx]; exact hloc
    have hr' : (w.arch pi).rows[(w.locOf e).idx]? = some prow := by rw [hidx]; exact hr
    rcases assign_unlocked info hok t e c v hlk pi prow hla' hr' he _ rfl with
      ⟨_, heq⟩ | ⟨_, w2, cbs, _, hm, _, _, _, heq⟩
    · rw [heq]; exact liveInv_getArch hl _ _
    · rw [heq]
      cases v with
      | none => exact liveInv_owns hm.step hok hl (hm.owns hv)
      | some tok =>
        cases (closedMask w.deps (Mask.insert (w.arch pi).mask c)).indexOf? c with
        | none => exact liveInv_owns hm.step hok hl (hm.owns hv)
        | some ci => exact liveInv_owns (hm.setCell ci _).step hok hl ((hm.setCell ci _).owns hv)

theorem liveInv_removeComp (info : CompId → CompInfo) {w : WM} (hok : RowsOK w) (hl : LiveInv w) (t : Nat)
    (e : Handle) (c : CompId) : LiveInv (w.removeComp info t e c).1 := by
  by_cases hlk : w.isLocked = true
  · unfold WM.removeComp
    rw [if_pos hlk]; exact liveInv_of_same hl (fun _ => rfl) (fun _ => rfl)
  · simp only [Bool.not_eq_true] at hlk
    by_cases hv : w.isValid e = true
    · rcases hl.live_in e hv with ⟨pi, idx, prow, hr, he⟩
      by_cases hc : c ∈ (w.arch pi).mask
      · rcases removeComp_unlocked info hok t e c hlk hv hr he hc with ⟨_, heq⟩ | ⟨ti, hm, _, _⟩
        · rw [heq]; exact liveInv_getArch hl _ _
        · exact liveInv_owns hm.step hok hl (hm.owns hv)
      · have hloc := hok.locOf hr
        rw [he] at hloc
        have hla : (w.locOf e).arch = some pi := by rw [hloc]
        have heq : (w.removeComp info t e c).1 = w := by
          unfold WM.removeComp
          simp [hlk, hv, hla, hc]
        rw [heq]; exact hl
    · simp only [Bool.not_eq_true] at hv
      have heq : (w.removeComp info t e c).1 = w := by
        unfold WM.removeComp
        simp [hlk, hv]
      rw [heq]; exact hl

theorem liveInv_create (info : CompId → CompInfo) {w : WM} (hok : RowsOK w) (hl : LiveInv w) (ha : AllocOK w)
    (t : Nat) (mask : Mask) (sh : Shared) (hmok : MaskOk mask) : LiveInv (w.create info t mask sh).1 := by
  by_cases hlk : w.isLocked = true
  · unfold WM.create
    simp only [hlk, if_true]
    exact liveInv_of_same hl (fun _ => rfl) (fun _ => rfl)
  · simp only [Bool.not_eq_true] at hlk
    rcases create_unlocked info hok ha t mask sh hlk hmok with ⟨ai, vals, hs, ho, _⟩
    exact liveInv_owns hs hok hl ho

theorem liveInv_clone {w : WM} (hok : RowsOK w) (hl : LiveInv w) (ha : AllocOK w) (e : Handle) :
    LiveInv (w.clone e).1 := by
  by_cases hv : w.isValid e = true
  · rcases hl.live_in e hv with ⟨ai, idx, prow, hr, he⟩
    rcases clone_spec hok ha e hv hr he with ⟨_, hs, ho, _⟩
    exact liveInv_owns hs hok hl ho
  · simp only [Bool.not_eq_true] at hv
    have : w.clone e = (w, none) := by simp [WM.clone, hv]
    rw [this]; exact hl

/-- C01 fact used by `destroyNow`: the head of the free list is not the id of a live entity -/
def FreeHeadNot (w : WM) (id : Nat) : Prop := w.empty ≠ 0 → w.next ≠ id

theorem release_invalidates (w : WM) (h x : Handle) (hlt : h.id < w.slots.length)
    (hfree : FreeHeadNot w h.id) (hid : x.id = h.id) : (w.release h).isValid x = false := by
  unfold WM.isValid
  have hs : (w.release h).slots[x.id]? =
      some ⟨if w.empty ≠ 0 then w.next else h.id + 1, (h.ver + 1) % 2^24⟩ := by
    rw [hid]; simp [WM.release, hlt]
  rw [hs]
  have hne : ((if w.empty ≠ 0 then w.next else h.id + 1) == x.id) = false := by
    rw [hid, beq_eq_false_iff_ne]
    by_cases he : w.empty ≠ 0
    · rw [if_pos he]; exact hfree he
    · rw [if_neg he]; omega
  simp only [hne, Bool.and_false]

theorem liveInv_destroyNowU (info : CompId → CompInfo) {w : WM} (hok : RowsOK w) (hl : LiveInv w)
    (h : Handle) (hfree : FreeHeadNot w h.id) : LiveInv (w.destroyNowU info h).1 := by
  by_cases hv : w.isValid h = true
  · rcases hl.live_in h hv with ⟨ai, i, hrow⟩
    have hloc : Located w h := located_of_row hok hrow
    have hs := destroyNowU_step info hok h hloc
    have hnot := destroyNowU_notInRow info hok h hv hrow
    have hinv : ∀ x : Handle, x.id = h.id → (w.destroyNowU info h).1.isValid x = false := by
      intro x hid
      rcases hrow with ⟨row, hr, hre⟩
      have hl2 := hok.locOf hr
      rw [hre] at hl2
      rw [destroyNowU_fst, if_pos hv, hl2]
      simp only
      have hsame := archRemove_sameTable info w ai i []
      apply release_invalidates _ h x (by rw [hsame.slots]; exact isValid_id_lt hv) _ hid
      intro he
      rw [hsame.empty] at he
      rw [hsame.next]; exact hfree he
    constructor
    · intro x hx
      by_cases hid : x.id = h.id
      · rw [hinv x hid] at hx; cases hx
      · rw [hs.frame.valid x hid] at hx
        rcases hl.live_in x hx with ⟨aj, j, r, hr, rfl⟩
        rcases hs.frame.keeps aj j r hr hid with ⟨⟨j', hr', _⟩, _⟩
        exact ⟨aj, j', r, hr', rfl⟩
    · intro aj j r hr
      have hid : r.ent.id ≠ h.id := hnot aj j r hr
      have hex : ∃ (ak k : Nat) (r0 : Row), (w.arch ak).rows[k]? = some r0 ∧ r0.ent.id = r.ent.id := by
        apply Classical.byContradiction
        intro hno
        have hn : NotInRow w r.ent.id := fun ak k r0 h0 hh => hno ⟨ak, k, r0, h0, hh⟩
        exact hs.others r.ent.id hid hn aj j r hr rfl
      rcases hex with ⟨ak, k, r0, h0, hid0⟩
      rcases hs.frame.keeps ak k r0 h0 (by rw [hid0]; exact hid) with ⟨⟨k', hr0', _⟩, _⟩
      have := hs.ok.unique hr0' hr hid0
      rcases this with ⟨rfl, rfl⟩
      have hrr : r0 = r := by rw [hr0'] at hr; exact Option.some.inj hr
      subst hrr
      rw [hs.frame.valid r0.ent hid]
      exact hl.row_live ak k r0 h0
  · simp only [Bool.not_eq_true] at hv
    have : w.destroyNowU info h = (w, []) := by simp [WM.destroyNowU, hv]
    rw [this]; exact hl

/-! ## the id-table hypotheses, reduced to elementary facts of the C01 invariant -/

theorem isValid_slot {w : WM} {h : Handle} (hv : w.isValid h = true) :
    ∃ s, w.slots[h.id]? = some s ∧ s.idf = h.id ∧ s.ver = h.ver := by
  unfold WM.isValid at hv
  cases hs : w.slots[h.id]? with
  | none => rw [hs] at hv; simp at hv
  | some s =>
    rw [hs] at hv
    simp only [Bool.and_eq_true, beq_iff_eq] at hv
    exact ⟨s, rfl, hv.2.2, hv.2.1⟩

/-- C01 `freelist_wf`: the head of a non-empty free list is a table slot that does not store its own id -/
def FreeHeadFree (w : WM) : Prop := w.empty ≠ 0 → ∃ s, w.slots[w.next]? = some s ∧ s.idf ≠ w.next

/-- `AllocOK` from: rows = live handles, `locations_` covers `entities_`, the table is smaller than
the null id, the free-list head is free -/
theorem allocOK_of_table {w : WM} (hl : LiveInv w) (hcov : w.slots.length ≤ w.locs.length)
    (hsmall : w.slots.length < nullId) (hhead : FreeHeadFree w) : AllocOK w := by
  by_cases he : w.empty = 0
  · refine ⟨?_, ?_, ?_⟩
    · rw [allocId_grow w he]
      intro ai i r hr hid
      have := isValid_id_lt (hl.row_live ai i r hr)
      simp only at hid
      omega
    · rw [allocId_grow w he]; simp only; omega
    · rw [allocId_grow w he]; simp only [List.length_append, List.length_singleton]; omega
  · rcases hhead he with ⟨s, hs, hidf⟩
    have hlt : w.next < w.slots.length := (List.getElem?_eq_some_iff.mp hs).1
    refine ⟨?_, ?_, ?_⟩
    · rw [allocId_pop w he s hs]
      intro ai i r hr hid
      simp only at hid
      rcases isValid_slot (hl.row_live ai i r hr) with ⟨s', hs', hidf', _⟩
      rw [hid, hs] at hs'
      cases hs'
      exact hidf (hidf'.trans hid)
    · rw [allocId_pop w he s hs]; simp only; omega
    · rw [allocId_pop w he s hs]; simp only [List.length_set]; omega

/-- `FreeHeadNot` for a live handle from the same fact -/
theorem freeHeadNot_of_table {w : WM} (hhead : FreeHeadFree w) {e : Handle} (hv : w.isValid e = true) :
    FreeHeadNot w e.id := by
  intro he hn
  rcases hhead he with ⟨s, hs, hidf⟩
  rcases isValid_slot hv with ⟨s', hs', hidf', _⟩
  rw [← hn, hs] at hs'
  cases hs'
  exact hidf (hidf'.trans hn.symm)

/-! ## keys through `destroyNow`, `update`, `clearArchetype` (unconditional) -/

theorem keysSame_destroyNowU (info : CompId → CompInfo) (w : WM) (h : Handle) :
    KeysSame w (w.destroyNowU info h).1 := by
  rw [destroyNowU_fst]
  by_cases hv : w.isValid h = true
  · rw [if_pos hv]
    have hlt := isValid_id_lt hv
    cases (w.locOf h).arch with
    | none => exact KeysSame.of_archs (release_archs_locs w h hlt).1
    | some ai =>
      simp only
      refine (archRemove_keysSame info w ai _ []).trans (KeysSame.of_archs (release_archs_locs _ h ?_).1)
      rw [(archRemove_sameTable info w ai _ []).slots]; exact hlt
  · rw [if_neg hv]; exact KeysSame.refl w

theorem keysSame_update (info : CompId → CompInfo) (w : WM) : KeysSame w (w.update info).1 := by
  unfold WM.update
  split
  · exact KeysSame.refl w
  · have key : ∀ (l : List Handle) (acc : WM × List Cb), KeysSame w acc.1 →
        KeysSame w (l.foldl (fun (acc : WM × List Cb) h =>
          let (w', c) := acc.1.destroyNowU info h
          (w', acc.2 ++ c)) acc).1 := by
      intro l
      induction l with
      | nil => intro acc h; exact h
      | cons h l ih =>
        intro acc hacc
        rw [List.foldl_cons]
        exact ih _ (hacc.trans (keysSame_destroyNowU info acc.1 h))
    have := key w.marked (w, []) (KeysSame.refl w)
    exact ⟨this.alen, this.key⟩

theorem keysSame_clearArch (info : CompId → CompInfo) (w : WM) (ai : Nat) :
    KeysSame w (w.clearArch info ai).1 := by
  rw [clearArch_fst]
  have hl := clearLoop_spec (w.arch ai).rows w
  refine ⟨by rw [archs_length_setArch, hl.1], fun aj => ?_⟩
  have harch : (clearLoop w (w.arch ai).rows).arch aj = w.arch aj := by rw [arch_def, hl.1]; rfl
  by_cases hj : aj = ai
  · subst hj
    by_cases hlt : aj < w.archs.length
    · rw [arch_setArch_same _ _ _ (by rw [hl.1]; exact hlt)]; exact ⟨rfl, rfl⟩
    · have h1 : ((clearLoop w (w.arch aj).rows).setArch aj { w.arch aj with rows := [] }).arch aj =
          ⟨[], Shared.null, []⟩ := arch_of_ge _ aj (by rw [archs_length_setArch, hl.1]; omega)
      rw [h1, arch_of_ge w aj (by omega)]
      exact ⟨rfl, rfl⟩
  · rw [arch_setArch_ne _ _ _ _ hj, harch]; exact ⟨rfl, rfl⟩

end Mustache.Proofs.Rows

import Mustache.Proofs.RowsLive
/-!
# `LiveInv` through the shared-component and builder operations
-/
namespace Mustache.Proofs.Rows
open Mustache.Model

/-- an operation on a valid entity `e` either leaves rows and validity alone, or ends with `e` valid
and owning a row -/
def Outcome (w w' : WM) (e : Handle) : Prop :=
  Step w w' e.id ∧
  (((∀ ai, (w'.arch ai).rows = (w.arch ai).rows) ∧ ∀ h, w'.isValid h = w.isValid h) ∨
    ∃ ti vals, Owns w' e ti vals)

theorem Outcome.liveInv {w w' : WM} {e : Handle} (h : Outcome w w' e) (hok : RowsOK w) (hl : LiveInv w) :
    LiveInv w' := by
  rcases h with ⟨hs, ⟨hr, hv⟩ | ⟨ti, vals, ho⟩⟩
  · exact liveInv_of_same hl hr hv
  · exact liveInv_owns hs hok hl ho

theorem outcome_same {w : WM} (hok : RowsOK w) (e : Handle) : Outcome w w e :=
  ⟨Step.refl hok _, Or.inl ⟨fun _ => rfl, fun _ => rfl⟩⟩

theorem sassign_outcome (info : CompId → CompInfo) {w : WM} (hok : RowsOK w) (e : Handle) (sid value : Nat)
    (hv : w.isValid e = true) (hloc : Located w e) : Outcome w (w.sassign info e sid value).1 e := by
  refine ⟨sassign_step info hok e sid value hloc, ?_⟩
  unfold WM.sassign
  cases hla : (w.locOf e).arch with
  | none => simp only [hla]; exact Or.inl ⟨fun _ => by first | rfl | trivial, fun _ => by first | rfl | trivial⟩
  | some pi =>
    simp only [hla]
    rcases hloc pi hla with ⟨prow, hr, he⟩
    have hp := poolGet_same w sid value
    have hs0 := poolGet_step hok sid value e.id
    have harch : ∀ aj, (w.poolGet sid value).1.arch aj = w.arch aj := fun aj => by
      rw [arch_def, hp.1]; rfl
    have hval : ∀ h, (w.poolGet sid value).1.isValid h = w.isValid h := fun h => by
      unfold WM.isValid; rw [hp.2.2.1, hp.2.2.2.1]
    have hr1 : ((w.poolGet sid value).1.arch pi).rows[(w.locOf e).idx]? = some prow := by
      rw [harch]; exact hr
    have hmk : KeysOK (w.poolGet sid value).1 → MaskOk ((w.poolGet sid value).1.arch pi).mask :=
      fun hk => hk.masks pi (lt_of_row hr1)
    rcases getArch_move info hs0.ok ((w.poolGet sid value).1.arch pi).mask
      (((w.poolGet sid value).1.arch pi).shared.add sid (w.poolGet sid value).2) e pi (w.locOf e).idx []
      prow hr1 he hmk with ⟨_, hnone⟩ | ⟨_, w2, cbs, hsome, hm, _, _⟩
    · rw [hnone]
      left
      refine ⟨fun ai => by rw [getArch_rows, harch], fun h => ?_⟩
      rw [(getArch_sameTable _ _ _).isValid, hval]
    · rw [hsome]
      right
      exact ⟨_, _, hm.owns (by rw [hval]; exact hv)⟩

theorem sremove_outcome (info : CompId → CompInfo) {w : WM} (hok : RowsOK w) (e : Handle) (sid : Nat)
    (hv : w.isValid e = true) (hloc : Located w e) : Outcome w (w.sremove info e sid).1 e := by
  refine ⟨sremove_step info hok e sid hloc, ?_⟩
  unfold WM.sremove
  simp only [hv, Bool.not_true, Bool.false_eq_true, if_false]
  cases hla : (w.locOf e).arch with
  | none => exact Or.inl ⟨fun _ => by first | rfl | trivial, fun _ => by first | rfl | trivial⟩
  | some pi =>
    simp only
    by_cases hc : (w.arch pi).shared.has sid = true
    · simp only [hc, Bool.not_true, Bool.false_eq_true, if_false]
      rcases hloc pi hla with ⟨prow, hr, he⟩
      have hmk : KeysOK w → MaskOk (w.arch pi).mask := fun hk => hk.masks pi (lt_of_row hr)
      rcases getArch_move info hok (w.arch pi).mask ((w.arch pi).shared.remove sid) e pi
        (w.locOf e).idx [] prow hr he hmk with ⟨_, hnone⟩ | ⟨_, w2, cbs, hsome, hm, _, _⟩
      · rw [hnone]
        exact Or.inl ⟨fun ai => getArch_rows _ _ _ ai, (getArch_sameTable _ _ _).isValid⟩
      · rw [hsome]
        exact Or.inr ⟨_, _, hm.owns hv⟩
    · simp only [hc, Bool.not_false, if_true]; exact Or.inl ⟨fun _ => by first | rfl | trivial, fun _ => by first | rfl | trivial⟩

theorem buildUpdateU_outcome (info : CompId → CompInfo) {w : WM} (hok : RowsOK w) (e : Handle)
    (adds : List (CompId × Option Nat)) (rems : Mask) (hv : w.isValid e = true) (hloc : Located w e) :
    Outcome w (w.buildUpdateU info e adds rems).1 e := by
  refine ⟨buildUpdateU_step info hok e adds rems hloc, ?_⟩
  unfold WM.buildUpdateU
  cases hla : (w.locOf e).arch with
  | none => simp only [hla]; exact Or.inl ⟨fun _ => by first | rfl | trivial, fun _ => by first | rfl | trivial⟩
  | some pi =>
    simp only [hla]
    rcases hloc pi hla with ⟨prow, hr, he⟩
    have hmk : KeysOK w →
        MaskOk (Mask.diff (Mask.union (Mask.ofList (adds.map (·.1))) (w.arch pi).mask) rems) :=
      fun _ => maskOk_diff (maskOk_union (maskOk_ofList _) _) _
    rcases getArch_move info hok
      (Mask.diff (Mask.union (Mask.ofList (adds.map (·.1))) (w.arch pi).mask) rems)
      (Shared.null.merge (w.arch pi).shared) e pi (w.locOf e).idx (Mask.ofList (adds.map (·.1)))
      prow hr he hmk with ⟨_, hnone⟩ | ⟨_, w2, cbs, hsome, hm, _, _⟩
    · rw [hnone]
      exact Or.inl ⟨fun ai => getArch_rows _ _ _ ai, (getArch_sameTable _ _ _).isValid⟩
    · rw [hsome]
      simp only
      rcases builder_fold_moved info hm (w2.locOf e).idx rfl adds [] with ⟨v', h'⟩
      exact Or.inr ⟨_, _, h'.owns hv⟩

theorem liveInv_buildNewU (info : CompId → CompInfo) {w : WM} (hok : RowsOK w) (hl : LiveInv w)
    (ha : AllocOK w) (adds : List (CompId × Option Nat)) : LiveInv (w.buildNewU info adds).1 := by
  have hstep := (buildNewU_step info hok ha adds).1
  have hs1 := allocId_step hok ha.fresh
  have hfresh1 : NotInRow (w.allocId).1 (w.allocId).2.id := allocId_notInRow ha.fresh
  have hvalid : ∀ m, ((w.allocId).1.getArch m Shared.null).1.isValid (w.allocId).2 = true := fun m => by
    rw [(getArch_sameTable _ _ _).isValid]; exact allocId_valid w ha.notNull
  have tail : ∀ (m skip : Mask), ∃ vals,
      Moved ((w.allocId).1.getArch m Shared.null).1
        (((w.allocId).1.getArch m Shared.null).1.archInsert info ((w.allocId).1.getArch m Shared.null).2
          (w.allocId).2 skip).1 (w.allocId).2 ((w.allocId).1.getArch m Shared.null).2 vals := by
    intro m skip
    have hok2 := rowsOK_getArch hs1.ok m Shared.null
    rcases archInsert_eq info ((w.allocId).1.getArch m Shared.null).1 ((w.allocId).1.getArch m Shared.null).2
      (w.allocId).2 skip with ⟨vals, heq, hlen⟩
    rw [heq]
    exact ⟨vals, insertRow_moved hok2 _ (w.allocId).2 vals (getArch_idx_lt _ m Shared.null) ha.notNull
      (by rw [getArch_locs]; exact ha.inRange) (getArch_notInRow m Shared.null hfresh1) hlen⟩
  have hown : ∃ ti vals, Owns (w.buildNewU info adds).1 (w.allocId).2 ti vals := by
    unfold WM.buildNewU
    by_cases hempty : adds.isEmpty = true
    · simp only [hempty, if_true]
      rcases tail [] [] with ⟨vals, hm⟩
      exact ⟨_, _, hm.owns (hvalid [])⟩
    · simp only [hempty, Bool.false_eq_true, if_false]
      rcases tail (Mask.ofList (adds.map (·.1))) (Mask.ofList (adds.map (·.1))) with ⟨vals, hm⟩
      rcases builder_fold_moved info hm _ rfl adds [] with ⟨v', h'⟩
      exact ⟨_, _, h'.owns (hvalid _)⟩
  rcases hown with ⟨ti, vals, ho⟩
  exact liveInv_owns hstep hok hl ho

end Mustache.Proofs.Rows

import Mustache.Model.World
/-!
# Masks as sorted duplicate-free lists: membership and sortedness through the mask operations
(only what the row proofs need; the dependency closure itself is C13's)
-/
namespace Mustache.Proofs.Rows
open Mustache.Model

/-- a `ComponentIdMask`: strictly increasing list of component ids -/
def MaskOk (m : Mask) : Prop := List.Pairwise (· < ·) m

theorem maskOk_nil : MaskOk [] := List.Pairwise.nil

theorem mem_insert (m : Mask) (c x : CompId) : x ∈ Mask.insert m c ↔ x = c ∨ x ∈ m := by
  induction m with
  | nil => simp [Mask.insert]
  | cons y ys ih =>
    unfold Mask.insert
    by_cases h1 : c < y
    · simp [h1]
    · by_cases h2 : c = y
      · subst h2; simp
      · simp only [h1, h2, if_false, List.mem_cons, ih]
        constructor
        · rintro (h | h | h)
          · exact Or.inr (Or.inl h)
          · exact Or.inl h
          · exact Or.inr (Or.inr h)
        · rintro (h | h | h)
          · exact Or.inr (Or.inl h)
          · exact Or.inl h
          · exact Or.inr (Or.inr h)

theorem maskOk_insert {m : Mask} (h : MaskOk m) (c : CompId) : MaskOk (Mask.insert m c) := by
  induction m with
  | nil => simp [Mask.insert, MaskOk]
  | cons y ys ih =>
    unfold Mask.insert
    have hy : ∀ z ∈ ys, y < z := (List.pairwise_cons.mp h).1
    have hys : MaskOk ys := (List.pairwise_cons.mp h).2
    by_cases h1 : c < y
    · simp only [h1, if_true]
      refine List.pairwise_cons.mpr ⟨?_, h⟩
      intro z hz
      rcases List.mem_cons.mp hz with rfl | hz
      · exact h1
      · exact Nat.lt_trans h1 (hy z hz)
    · by_cases h2 : c = y
      · subst h2; simp only [Nat.lt_irrefl, if_false, if_true]; exact h
      · simp only [h1, h2, if_false]
        refine List.pairwise_cons.mpr ⟨?_, ih hys⟩
        intro z hz
        rcases (mem_insert ys c z).mp hz with hzc | hz
        · rw [hzc]; exact Nat.lt_of_le_of_ne (Nat.le_of_not_lt h1) (fun e => h2 e.symm)
        · exact hy z hz

theorem mem_union (a b : Mask) (x : CompId) : x ∈ Mask.union a b ↔ x ∈ a ∨ x ∈ b := by
  unfold Mask.union
  induction b generalizing a with
  | nil => simp
  | cons y ys ih =>
    simp only [List.foldl_cons, ih, mem_insert, List.mem_cons]
    constructor
    · rintro ((h | h) | h)
      · exact Or.inr (Or.inl h)
      · exact Or.inl h
      · exact Or.inr (Or.inr h)
    · rintro (h | h | h)
      · exact Or.inl (Or.inr h)
      · exact Or.inl (Or.inl h)
      · exact Or.inr h

theorem maskOk_union {a : Mask} (h : MaskOk a) (b : Mask) : MaskOk (Mask.union a b) := by
  unfold Mask.union
  induction b generalizing a with
  | nil => exact h
  | cons y ys ih => exact ih (maskOk_insert h y)

theorem maskOk_ofList (l : List CompId) : MaskOk (Mask.ofList l) := by
  have := maskOk_union maskOk_nil l
  exact this

theorem mem_ofList (l : List CompId) (x : CompId) : x ∈ Mask.ofList l ↔ x ∈ l := by
  have := mem_union [] l x
  simpa [Mask.union, Mask.ofList] using this

theorem mem_erase (m : Mask) (c x : CompId) : x ∈ Mask.erase m c ↔ x ∈ m ∧ x ≠ c := by
  simp [Mask.erase]

theorem maskOk_erase {m : Mask} (h : MaskOk m) (c : CompId) : MaskOk (Mask.erase m c) :=
  List.Pairwise.filter _ h

theorem maskOk_diff {a : Mask} (h : MaskOk a) (b : Mask) : MaskOk (Mask.diff a b) :=
  List.Pairwise.filter _ h

theorem mem_diff (a b : Mask) (x : CompId) : x ∈ Mask.diff a b ↔ x ∈ a ∧ x ∉ b := by
  simp [Mask.diff]

/-- the closed mask contains the mask it closes -/
theorem mem_closedMask_of_mem (deps : List (CompId × Mask)) (m : Mask) (x : CompId) (h : x ∈ m) :
    x ∈ closedMask deps m := by
  unfold closedMask; exact (mem_union _ _ _).mpr (Or.inl h)

theorem maskOk_closedMask (deps : List (CompId × Mask)) {m : Mask} (h : MaskOk m) :
    MaskOk (closedMask deps m) := maskOk_union h _

/-! ## positions -/

theorem indexOf?_of_mem {m : Mask} {c : CompId} (h : c ∈ m) :
    m.indexOf? c = some (m.idxOf c) ∧ m.idxOf c < m.length ∧ m[m.idxOf c]? = some c := by
  have hlt : m.idxOf c < m.length := List.idxOf_lt_length_iff.mpr h
  refine ⟨by simp [Mask.indexOf?, hlt], hlt, ?_⟩
  rw [List.getElem?_eq_getElem hlt, List.getElem_idxOf hlt]

theorem indexOf?_of_not_mem {m : Mask} {c : CompId} (h : c ∉ m) : m.indexOf? c = none := by
  have : ¬ m.idxOf c < m.length := fun hh => h (List.idxOf_lt_length_iff.mp hh)
  simp [Mask.indexOf?, this]

theorem indexOf?_some {m : Mask} {c : CompId} {i : Nat} (h : m.indexOf? c = some i) :
    c ∈ m ∧ i = m.idxOf c := by
  unfold Mask.indexOf? at h
  simp only at h
  split at h
  · rename_i hlt
    cases h
    exact ⟨List.idxOf_lt_length_iff.mp hlt, rfl⟩
  · cases h

theorem idxOf_ne {m : Mask} {c c' : CompId} (h : c ∈ m) (h' : c' ∈ m) (hne : c ≠ c') :
    m.idxOf c ≠ m.idxOf c' := by
  intro e
  have a := (indexOf?_of_mem h).2.2
  have b := (indexOf?_of_mem h').2.2
  rw [e, b] at a
  cases a
  exact hne rfl

theorem contains_iff (m : Mask) (c : CompId) : m.contains c = true ↔ c ∈ m := by simp

end Mustache.Proofs.Rows

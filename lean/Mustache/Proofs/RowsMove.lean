import Mustache.Proofs.RowsRemove
import Mustache.Proofs.RowsMask
/-!
# `externalMove` = swap-remove from the source + insertion into the target; `getArchetype`; frames
-/
namespace Mustache.Proofs.Rows
open Mustache.Model

/-! ## commutation of the primitive writes -/

theorem setArch_comm (w : WM) (i j : Nat) (a b : Arch) (h : i ≠ j) :
    (w.setArch i a).setArch j b = (w.setArch j b).setArch i a := by
  simp [WM.setArch, List.set_comm a b h]

theorem setLoc_setArch (w : WM) (i : Nat) (a : Arch) (h : Handle) (x : Option Nat) (y : Nat) :
    (w.setArch i a).setLoc h x y = (w.setLoc h x y).setArch i a := by
  unfold WM.setLoc; split <;> rfl

/-- a write to another archetype commutes with `Archetype::remove` -/
theorem archRemove_setArch_comm (info : CompId → CompInfo) (w : WM) (target prev idx : Nat) (sk : Mask)
    (X : Arch) (hne : target ≠ prev) :
    (w.setArch target X).archRemove info prev idx sk =
      ((w.archRemove info prev idx sk).1.setArch target X, (w.archRemove info prev idx sk).2) := by
  unfold WM.archRemove
  rw [arch_setArch_ne _ _ _ _ (Ne.symm hne)]
  simp only
  split
  · rfl
  · split
    · simp only [setLoc_setArch, setArch_comm _ _ _ _ _ hne]
    · simp only [setLoc_setArch, setArch_comm _ _ _ _ _ hne]

theorem archRemove_arch_ne (info : CompId → CompInfo) (w : WM) (ai aj idx : Nat) (sk : Mask)
    (hne : aj ≠ ai) : (w.archRemove info ai idx sk).1.arch aj = w.arch aj := by
  unfold WM.archRemove
  simp only
  split
  · rfl
  · split <;> simp only [arch_setLoc, arch_setArch_ne _ _ _ _ hne]

theorem archRemove_sameTable (info : CompId → CompInfo) (w : WM) (ai idx : Nat) (sk : Mask) :
    SameTable w (w.archRemove info ai idx sk).1 := by
  unfold WM.archRemove
  simp only
  split
  · exact SameTable.refl w
  · split
    · exact (sameTable_setArch _ _ _).trans (sameTable_setLoc _ _ _ _)
    · exact ((sameTable_setArch _ _ _).trans (sameTable_setLoc _ _ _ _)).trans (sameTable_setLoc _ _ _ _)

theorem archRemove_lengths (info : CompId → CompInfo) (w : WM) (ai idx : Nat) (sk : Mask) :
    (w.archRemove info ai idx sk).1.archs.length = w.archs.length ∧
    (w.archRemove info ai idx sk).1.locs.length = w.locs.length := by
  unfold WM.archRemove
  simp only
  split
  · exact ⟨rfl, rfl⟩
  · split <;> simp [archs_setLoc, archs_length_setArch, locs_length_setLoc, locs_setArch]

/-! ## `externalMove` -/

/-- the values of the row built in the target archetype: carried over from the source row where the
source has the component, otherwise raw/fixed (constructor skipped) or the default -/
def moveVals (info : CompId → CompInfo) (w : WM) (target prev prevIdx : Nat) (skip : Mask) : List Val :=
  (w.arch target).mask.map (fun c =>
    match (w.arch prev).mask.indexOf? c with
    | some i => ((w.arch prev).rows.getD prevIdx default).vals.getD i none
    | none =>
      if skip.contains c then (match (info c).fixed with | some v => some v | none => none)
      else defaultVal info c)

theorem moveVals_length (info : CompId → CompInfo) (w : WM) (target prev prevIdx : Nat) (skip : Mask) :
    (moveVals info w target prev prevIdx skip).length = (w.arch target).mask.length := by
  simp [moveVals]

theorem externalMove_self (info : CompId → CompInfo) (w : WM) (t : Nat) (e : Handle) (i : Nat) (skip : Mask) :
    w.externalMove info t e t i skip = none := by
  simp [WM.externalMove]

/-- `externalMove` to another archetype: remove from the source, then append to the target -/
theorem externalMove_eq (info : CompId → CompInfo) (w : WM) (target : Nat) (e : Handle)
    (prev prevIdx : Nat) (skip : Mask) (hne : target ≠ prev) :
    ∃ cbs, w.externalMove info target e prev prevIdx skip =
      some (insertRow (w.archRemove info prev prevIdx (w.arch target).mask).1 target e
        (moveVals info w target prev prevIdx skip), cbs) := by
  unfold WM.externalMove
  rw [if_neg hne]
  simp only [archRemove_setArch_comm info w target prev prevIdx _ _ hne]
  refine ⟨_, congrArg some (Prod.ext ?_ rfl)⟩
  simp only
  unfold insertRow moveVals
  rw [archRemove_arch_ne info w prev target prevIdx _ hne]
  rfl

theorem externalMove_isSome (info : CompId → CompInfo) (w : WM) (target : Nat) (e : Handle)
    (prev prevIdx : Nat) (skip : Mask) :
    (w.externalMove info target e prev prevIdx skip).isSome = true ↔ target ≠ prev := by
  unfold WM.externalMove
  by_cases h : target = prev <;> simp [h]

/-! ## frame relation: what an operation on the entity with id `id` does to everybody else -/

/-- every row of an entity other than `id` survives, in the same archetype (index, mask and shared
values unchanged), with the same values, and its location points at it -/
def KeepsOthers (w w' : WM) (id : Nat) : Prop :=
  ∀ (aj j : Nat) (r : Row), (w.arch aj).rows[j]? = some r → r.ent.id ≠ id →
    (∃ j' : Nat, (w'.arch aj).rows[j']? = some r ∧ w'.locs[r.ent.id]? = some ⟨some aj, j'⟩) ∧
    (w'.arch aj).mask = (w.arch aj).mask ∧ (w'.arch aj).shared = (w.arch aj).shared

theorem KeepsOthers.refl {w : WM} (hok : RowsOK w) (id : Nat) : KeepsOthers w w id :=
  fun aj j r hr _ => ⟨⟨j, hr, (hok.loc aj j r hr).2⟩, rfl, rfl⟩

theorem KeepsOthers.trans {a b c : WM} {id : Nat} (h₁ : KeepsOthers a b id) (h₂ : KeepsOthers b c id) :
    KeepsOthers a c id := by
  intro aj j r hr hne
  rcases h₁ aj j r hr hne with ⟨⟨j', hr', _⟩, hm, hs⟩
  rcases h₂ aj j' r hr' hne with ⟨hex, hm', hs'⟩
  exact ⟨hex, hm'.trans hm, hs'.trans hs⟩

theorem RemoveSpec.keepsOthers {w w' : WM} {ai idx : Nat} {row : Row} (hs : RemoveSpec w w' ai idx row) :
    KeepsOthers w w' row.ent.id :=
  fun aj _ _ hr hne => ⟨hs.keeps hr hne, (hs.mask aj).1, (hs.mask aj).2⟩

theorem insertRow_keepsOthers {w : WM} (hok : RowsOK w) (ai : Nat) (e : Handle) (vals : List Val)
    (hai : ai < w.archs.length) : KeepsOthers w (insertRow w ai e vals) e.id := by
  intro aj j r hr hne
  refine ⟨⟨j, insertRow_keeps ai e vals hai hr, ?_⟩, (insertRow_mask w ai aj e vals hai).1,
    (insertRow_mask w ai aj e vals hai).2⟩
  by_cases hn : e.id = nullId
  · unfold insertRow
    rw [locs_setLoc, if_pos hn, locs_setArch]; exact (hok.loc aj j r hr).2
  · rw [insertRow_locs _ _ _ _ _ hn, if_neg (Ne.symm hne)]; exact (hok.loc aj j r hr).2

/-! ## `getArchetype` -/

theorem getArch_cases (w : WM) (m : Mask) (sh : Shared) :
    ((w.getArch m sh).1 = w ∧ (w.getArch m sh).2 < w.archs.length ∧
      (w.arch (w.getArch m sh).2).mask = closedMask w.deps m ∧
      (w.arch (w.getArch m sh).2).shared.data = sh.data) ∨
    ((w.getArch m sh).1 = { w with archs := w.archs ++ [⟨closedMask w.deps m, sh, []⟩] } ∧
      (w.getArch m sh).2 = w.archs.length ∧ w.findArch (closedMask w.deps m) sh = none) := by
  unfold WM.getArch
  simp only
  cases hf : w.findArch (Mask.union m (extraComponents w.deps m)) sh with
  | none => right; exact ⟨rfl, rfl, hf⟩
  | some i =>
    left
    unfold WM.findArch at hf
    simp only at hf
    split at hf
    · rename_i hlt
      cases hf
      have hp := List.findIdx_getElem (w := hlt)
      simp only [Bool.and_eq_true, beq_iff_eq] at hp
      refine ⟨rfl, hlt, ?_, ?_⟩
      · rw [arch_def, List.getD_eq_getElem?_getD, List.getElem?_eq_getElem hlt]; exact hp.1
      · rw [arch_def, List.getD_eq_getElem?_getD, List.getElem?_eq_getElem hlt]; exact hp.2
    · cases hf

theorem getArch_sameTable (w : WM) (m : Mask) (sh : Shared) : SameTable w (w.getArch m sh).1 := by
  rcases getArch_cases w m sh with ⟨h, _⟩ | ⟨h, _⟩ <;> rw [h]
  · exact SameTable.refl w
  · exact ⟨rfl, rfl, rfl, rfl, rfl, rfl, rfl, rfl, rfl, rfl, rfl, rfl, rfl⟩

theorem getArch_locs (w : WM) (m : Mask) (sh : Shared) : (w.getArch m sh).1.locs = w.locs := by
  rcases getArch_cases w m sh with ⟨h, _⟩ | ⟨h, _⟩ <;> rw [h]

theorem getArch_arch_lt (w : WM) (m : Mask) (sh : Shared) (aj : Nat) (h : aj < w.archs.length) :
    (w.getArch m sh).1.arch aj = w.arch aj := by
  rcases getArch_cases w m sh with ⟨he, _⟩ | ⟨he, _⟩ <;> rw [he]
  simp [arch_def, List.getD_eq_getElem?_getD, List.getElem?_append_left h]

theorem getArch_rows (w : WM) (m : Mask) (sh : Shared) (aj : Nat) :
    ((w.getArch m sh).1.arch aj).rows = (w.arch aj).rows := by
  by_cases h : aj < w.archs.length
  · rw [getArch_arch_lt w m sh aj h]
  · rcases getArch_cases w m sh with ⟨he, _⟩ | ⟨he, _⟩ <;> rw [he]
    rw [arch_of_ge w aj (by omega)]
    by_cases h2 : aj = w.archs.length
    · subst h2
      simp [arch_def, List.getD_eq_getElem?_getD]
    · rw [arch_of_ge _ aj (by simp; omega)]

theorem getArch_idx_lt (w : WM) (m : Mask) (sh : Shared) :
    (w.getArch m sh).2 < (w.getArch m sh).1.archs.length := by
  rcases getArch_cases w m sh with ⟨he, hl, _⟩ | ⟨he, hi, _⟩
  · rw [he]; exact hl
  · rw [he, hi]; simp

theorem getArch_length_le (w : WM) (m : Mask) (sh : Shared) :
    w.archs.length ≤ (w.getArch m sh).1.archs.length := by
  rcases getArch_cases w m sh with ⟨he, _⟩ | ⟨he, _⟩ <;> rw [he]
  · exact Nat.le_refl _
  · simp

/-- the archetype returned has exactly the closed mask and the requested shared instances -/
theorem getArch_key (w : WM) (m : Mask) (sh : Shared) :
    ((w.getArch m sh).1.arch (w.getArch m sh).2).mask = closedMask w.deps m ∧
    ((w.getArch m sh).1.arch (w.getArch m sh).2).shared.data = sh.data := by
  rcases getArch_cases w m sh with ⟨he, _, hm, hs⟩ | ⟨he, hi, _⟩
  · rw [he]; exact ⟨hm, hs⟩
  · rw [he, hi]; simp [arch_def, List.getD_eq_getElem?_getD]

theorem rowsOK_getArch {w : WM} (hok : RowsOK w) (m : Mask) (sh : Shared) : RowsOK (w.getArch m sh).1 := by
  constructor
  · intro aj j r hr
    rw [getArch_rows] at hr
    rw [getArch_arch_lt w m sh aj (lt_of_row hr)]
    exact hok.vals aj j r hr
  · intro aj j r hr
    rw [getArch_rows] at hr
    rw [getArch_locs]
    exact hok.loc aj j r hr

theorem getArch_keepsOthers {w : WM} (hok : RowsOK w) (m : Mask) (sh : Shared) (id : Nat) :
    KeepsOthers w (w.getArch m sh).1 id := by
  intro aj j r hr _
  have hlt := lt_of_row hr
  refine ⟨⟨j, by rw [getArch_rows]; exact hr, by rw [getArch_locs]; exact (hok.loc aj j r hr).2⟩, ?_, ?_⟩ <;>
    rw [getArch_arch_lt w m sh aj hlt]

theorem getArch_notInRow {w : WM} (m : Mask) (sh : Shared) {id : Nat} (h : NotInRow w id) :
    NotInRow (w.getArch m sh).1 id := by
  intro aj j r hr
  rw [getArch_rows] at hr
  exact h aj j r hr

/-! ## what `externalMove` guarantees -/

structure MoveSpec (w w' : WM) (target : Nat) (e : Handle) (vals : List Val) : Prop where
  ok : RowsOK w'
  same : SameTable w w'
  alen : w'.archs.length = w.archs.length
  llen : w'.locs.length = w.locs.length
  mask : ∀ aj, (w'.arch aj).mask = (w.arch aj).mask ∧ (w'.arch aj).shared = (w.arch aj).shared
  keeps : KeepsOthers w w' e.id
  /-- the moved entity sits in the last row of the target, with the carried-over values -/
  here : (w'.arch target).rows[(w.arch target).rows.length]? = some ⟨e, vals⟩
  loc : w'.locOf e = ⟨some target, (w.arch target).rows.length⟩
  /-- rows that exist afterwards belong to ids that had a row before -/
  back : ∀ (aj j : Nat) (r : Row), (w'.arch aj).rows[j]? = some r →
    r.ent.id = e.id ∨ ∃ j0 : Nat, (w.arch aj).rows[j0]? = some r

/-- `externalMove` of the entity that owns row `(prev, prevIdx)` into another existing archetype -/
theorem externalMove_spec (info : CompId → CompInfo) {w : WM} (hok : RowsOK w) (target : Nat) (e : Handle)
    (prev prevIdx : Nat) (skip : Mask) (hne : target ≠ prev) (ht : target < w.archs.length)
    (hrow : InRowAt w e prev prevIdx) :
    ∃ w' cbs, w.externalMove info target e prev prevIdx skip = some (w', cbs) ∧
      MoveSpec w w' target e (moveVals info w target prev prevIdx skip) := by
  rcases externalMove_eq info w target e prev prevIdx skip hne with ⟨cbs, heq⟩
  refine ⟨_, cbs, heq, ?_⟩
  rcases hrow with ⟨row, hr, rfl⟩
  have hs := archRemove_spec info hok prev prevIdx (w.arch target).mask row hr
  generalize (w.archRemove info prev prevIdx (w.arch target).mask).1 = w1 at hs
  have hok1 : RowsOK w1 := hs.rowsOK hok
  have ht1 : target < w1.archs.length := by rw [hs.alen]; exact ht
  have hn : row.ent.id ≠ nullId := (hok.loc _ _ _ hr).1
  have hlt1 : row.ent.id < w1.locs.length := by rw [hs.llen]; exact hok.id_lt hr
  have harch : w1.arch target = w.arch target := hs.other target hne
  have hvl : (moveVals info w target prev prevIdx skip).length = (w1.arch target).mask.length := by
    rw [harch]; exact moveVals_length _ _ _ _ _ _
  refine ⟨rowsOK_insertRow hok1 target row.ent _ ht1 hn hlt1 hs.notInRow hvl,
    hs.same.trans (insertRow_sameTable _ _ _ _), ?_, ?_, ?_, ?_, ?_, ?_, ?_⟩
  · rw [insertRow_archs_length, hs.alen]
  · rw [insertRow_locs_length, hs.llen]
  · intro aj
    have a := insertRow_mask w1 target aj row.ent (moveVals info w target prev prevIdx skip) ht1
    have b := hs.mask aj
    exact ⟨a.1.trans b.1, a.2.trans b.2⟩
  · exact hs.keepsOthers.trans (insertRow_keepsOthers hok1 target row.ent _ ht1)
  · rw [← harch]
    exact (insertRow_rows w1 target target _ row.ent _ _ ht1).mpr (Or.inr ⟨rfl, rfl, rfl⟩)
  · rw [← harch]; exact insertRow_locOf_self w1 target row.ent _ hn hlt1
  · intro aj j r hr'
    rcases (insertRow_rows w1 target aj j row.ent _ r ht1).mp hr' with hold | ⟨_, _, rfl⟩
    · exact Or.inr (hs.back aj j r hold).2.1
    · exact Or.inl rfl

end Mustache.Proofs.Rows

import Mustache.Proofs.RowsVal
/-!
# Operations that add an entity (`create`, `clone`), shared-component moves, `update`
-/
namespace Mustache.Proofs.Rows
open Mustache.Model

/-- `e` owns a row `⟨e, vals⟩` of archetype `ai` in `w'` and is valid -/
structure Owns (w' : WM) (e : Handle) (ai : Nat) (vals : List Val) : Prop where
  valid : w'.isValid e = true
  here : ∃ n, w'.locOf e = ⟨some ai, n⟩ ∧ (w'.arch ai).rows[n]? = some ⟨e, vals⟩

theorem Owns.getComp {w' : WM} {e : Handle} {ai : Nat} {vals : List Val} (h : Owns w' e ai vals) (c : CompId) :
    w'.getComp e c = match (w'.arch ai).mask.indexOf? c with
      | none => none
      | some ci => some (vals.getD ci none) := by
  rcases h.here with ⟨n, hl, hr⟩
  rw [getComp_of_loc hl hr c, h.valid]; rfl

theorem Owns.hasComp {w' : WM} {e : Handle} {ai : Nat} {vals : List Val} (h : Owns w' e ai vals) (c : CompId) :
    w'.hasComp e c = (w'.arch ai).mask.contains c := by
  rcases h.here with ⟨n, hl, _⟩
  rw [hasComp_of_loc hl c, h.valid]; rfl

theorem Owns.archOf {w' : WM} {e : Handle} {ai : Nat} {vals : List Val} (h : Owns w' e ai vals) :
    w'.archOf e = some ai := by
  rcases h.here with ⟨n, hl, _⟩
  rw [archOf_of_loc hl, h.valid]; rfl

/-- allocate an id and append a row for it to archetype `ai` -/
theorem alloc_insert {w : WM} (hok : RowsOK w) (ha : AllocOK w) (ai : Nat) (vals : List Val)
    (hai : ai < w.archs.length) (hvals : vals.length = (w.arch ai).mask.length) :
    Step w (insertRow (w.allocId).1 ai (w.allocId).2 vals) (w.allocId).2.id ∧
    Owns (insertRow (w.allocId).1 ai (w.allocId).2 vals) (w.allocId).2 ai vals ∧
    ∀ aj, ((insertRow (w.allocId).1 ai (w.allocId).2 vals).arch aj).mask = (w.arch aj).mask ∧
          ((insertRow (w.allocId).1 ai (w.allocId).2 vals).arch aj).shared = (w.arch aj).shared := by
  have hok1 := rowsOK_allocId hok ha.fresh
  have hai1 : ai < (w.allocId).1.archs.length := by rw [allocId_archs]; exact hai
  have hfresh1 : NotInRow (w.allocId).1 (w.allocId).2.id := allocId_notInRow ha.fresh
  have hvals1 : vals.length = ((w.allocId).1.arch ai).mask.length := by rw [allocId_arch]; exact hvals
  have hok2 := rowsOK_insertRow hok1 ai (w.allocId).2 vals hai1 ha.notNull ha.inRange hfresh1 hvals1
  refine ⟨⟨hok2, (allocId_opFrame hok).trans (OpFrame.of_sameTable
      (insertRow_keepsOthers hok1 ai _ vals hai1) (insertRow_sameTable _ _ _ _)), ?_, ?_,
      fun hk => ((KeysSame.of_archs (allocId_archs w)).trans
        (insertRow_keysSame _ ai _ vals hai1)).keysOK hk⟩, ⟨?_, ?_⟩, ?_⟩
  · rw [insertRow_locs_length, allocId_locs_length]; split <;> omega
  · intro x hx hn aj j r hr
    rcases (insertRow_rows _ ai aj j _ vals r hai1).mp hr with hold | ⟨_, _, rfl⟩
    · rw [allocId_arch] at hold; exact hn aj j r hold
    · exact fun h => hx h.symm
  · rw [(insertRow_sameTable _ _ _ _).isValid]; exact allocId_valid w ha.notNull
  · refine ⟨_, insertRow_locOf_self _ ai _ vals ha.notNull ha.inRange, ?_⟩
    exact (insertRow_rows _ ai ai _ _ vals _ hai1).mpr (Or.inr ⟨rfl, rfl, rfl⟩)
  · intro aj
    have := insertRow_mask (w.allocId).1 ai aj (w.allocId).2 vals hai1
    rw [allocId_arch] at this; exact this

/-! ## `create` -/

/-- values `Archetype::insert(entity, {})` gives a new row: every component default-constructed -/
theorem archInsert_default_vals (info : CompId → CompInfo) (w : WM) (ai : Nat) (e : Handle) :
    ∃ vals, (w.archInsert info ai e []).1 = insertRow w ai e vals ∧
      vals.length = (w.arch ai).mask.length ∧
      ∀ c ∈ (w.arch ai).mask, vals.getD ((w.arch ai).mask.idxOf c) none = defaultVal info c := by
  refine ⟨_, rfl, by simp, ?_⟩
  intro c hc
  have hi := indexOf?_of_mem hc
  rw [List.getD_eq_getElem?_getD, List.getElem?_map, hi.2.2]
  have hne : (([] : Mask) == (w.arch ai).mask) = false := by
    cases hm : (w.arch ai).mask with
    | nil => rw [hm] at hc; cases hc
    | cons x xs => rfl
  simp [hne]

theorem create_unlocked (info : CompId → CompInfo) {w : WM} (hok : RowsOK w) (ha : AllocOK w) (t : Nat)
    (mask : Mask) (sh : Shared) (hl : w.isLocked = false) (hmok : MaskOk mask) :
    ∃ ai vals,
      Step w (w.create info t mask sh).1 (w.create info t mask sh).2.1.id ∧
      Owns (w.create info t mask sh).1 (w.create info t mask sh).2.1 ai vals ∧
      ((w.create info t mask sh).1.arch ai).mask = closedMask w.deps mask ∧
      ((w.create info t mask sh).1.arch ai).shared.data = sh.data ∧
      (∀ c ∈ closedMask w.deps mask, vals.getD ((closedMask w.deps mask).idxOf c) none = defaultVal info c) ∧
      NotInRow w (w.create info t mask sh).2.1.id := by
  have hok1 := rowsOK_getArch hok mask sh
  have ha1 : AllocOK (w.getArch mask sh).1 :=
    ha.congr (getArch_sameTable w mask sh) (by rw [getArch_locs]) (fun _ h => getArch_notInRow mask sh h)
  have hkey := getArch_key w mask sh
  rcases archInsert_default_vals info ((w.getArch mask sh).1.allocId).1 (w.getArch mask sh).2
    ((w.getArch mask sh).1.allocId).2 with ⟨vals, heq, hlen, hvals⟩
  rw [allocId_arch] at hlen hvals
  have hai := getArch_idx_lt w mask sh
  rcases alloc_insert hok1 ha1 (w.getArch mask sh).2 vals hai hlen with ⟨hstep, howns, hmask⟩
  have hcreate : w.create info t mask sh =
      (insertRow ((w.getArch mask sh).1.allocId).1 (w.getArch mask sh).2 ((w.getArch mask sh).1.allocId).2 vals,
       ((w.getArch mask sh).1.allocId).2,
       (((w.getArch mask sh).1.allocId).1.archInsert info (w.getArch mask sh).2
          ((w.getArch mask sh).1.allocId).2 []).2) := by
    unfold WM.create
    simp only [hl, Bool.false_eq_true, if_false]
    rw [← heq]
  rw [hcreate]
  refine ⟨(w.getArch mask sh).2, vals, (getArch_step hok mask sh _ (fun _ => hmok)).trans hstep, howns,
    ?_, ?_, ?_, ?_⟩
  · rw [(hmask _).1]; exact hkey.1
  · rw [(hmask _).2]; exact hkey.2
  · rw [hkey.1] at hvals; exact hvals
  · have := ha.fresh
    rw [← allocId_handle_congr (getArch_sameTable w mask sh)] at this
    exact this

/-! ## `clone` -/

theorem clone_spec {w : WM} (hok : RowsOK w) (ha : AllocOK w) (e : Handle) (hv : w.isValid e = true)
    {ai idx : Nat} {prow : Row} (hr : (w.arch ai).rows[idx]? = some prow) (he : prow.ent = e) :
    (w.clone e).2 = some (w.allocId).2 ∧
    Step w (w.clone e).1 (w.allocId).2.id ∧
    Owns (w.clone e).1 (w.allocId).2 ai prow.vals ∧
    ((w.clone e).1.arch ai).mask = (w.arch ai).mask ∧
    ((w.clone e).1.arch ai).shared = (w.arch ai).shared ∧
    NotInRow w (w.allocId).2.id := by
  have hloc := hok.locOf hr
  rw [he] at hloc
  have hla : (w.locOf e).arch = some ai := by rw [hloc]
  have hidx : (w.locOf e).idx = idx := by rw [hloc]
  have hclone : w.clone e = (insertRow (w.allocId).1 ai (w.allocId).2 prow.vals, some (w.allocId).2) := by
    unfold WM.clone
    simp only [hv, Bool.not_true, Bool.false_eq_true, if_false, hla, hidx]
    unfold insertRow
    simp only [allocId_arch, List.getD_eq_getElem?_getD, hr, Option.getD_some]
  rw [hclone]
  rcases alloc_insert hok ha ai prow.vals (lt_of_row hr) (hok.vals ai idx prow hr) with ⟨hs, ho, hm⟩
  exact ⟨rfl, hs, ho, (hm ai).1, (hm ai).2, ha.fresh⟩

/-- `clone` copies every value: the clone reads what the original reads, for every component -/
theorem clone_read {w : WM} (hok : RowsOK w) (ha : AllocOK w) (e : Handle) (hv : w.isValid e = true)
    {ai idx : Nat} (hrow : InRowAt w e ai idx) (c : CompId) :
    (w.clone e).1.getComp (w.allocId).2 c = w.getComp e c ∧
    (w.clone e).1.hasComp (w.allocId).2 c = w.hasComp e c ∧
    (w.clone e).1.getComp e c = w.getComp e c := by
  rcases hrow with ⟨prow, hr, he⟩
  rcases clone_spec hok ha e hv hr he with ⟨_, hs, ho, hm, _, hfresh⟩
  have hloc := hok.locOf hr
  rw [he] at hloc
  refine ⟨?_, ?_, ?_⟩
  · rw [ho.getComp, hm, getComp_of_loc hloc hr, hv]; rfl
  · rw [ho.hasComp, hm, hasComp_of_loc hloc, hv]; rfl
  · have hne : prow.ent.id ≠ (w.allocId).2.id := hfresh ai idx prow hr
    have := (hs.frame.observations hok hr hne).1 c
    rw [he] at this; exact this

/-! ## shared components: `assignShared`, `removeSharedComponent` -/

theorem poolGet_same (w : WM) (sid value : Nat) :
    (w.poolGet sid value).1.archs = w.archs ∧ (w.poolGet sid value).1.locs = w.locs ∧
    (w.poolGet sid value).1.slots = w.slots ∧ (w.poolGet sid value).1.worldId = w.worldId ∧
    (w.poolGet sid value).1.deps = w.deps := by
  unfold WM.poolGet
  simp only
  split <;> exact ⟨rfl, rfl, rfl, rfl, rfl⟩

theorem poolGet_step {w : WM} (hok : RowsOK w) (sid value id : Nat) : Step w (w.poolGet sid value).1 id := by
  have h := poolGet_same w sid value
  refine Step.of_same hok id h.1 h.2.1 (fun x => ?_)
  unfold WM.isValid; rw [h.2.2.1, h.2.2.2.1]

theorem sassign_step (info : CompId → CompInfo) {w : WM} (hok : RowsOK w) (e : Handle) (sid value : Nat)
    (hloc : Located w e) : Step w (w.sassign info e sid value).1 e.id := by
  unfold WM.sassign
  cases hla : (w.locOf e).arch with
  | none => simp only [hla]; exact Step.refl hok _
  | some pi =>
    simp only [hla]
    rcases hloc pi hla with ⟨prow, hr, he⟩
    have hp := poolGet_same w sid value
    have hs0 := poolGet_step hok sid value e.id
    have harch : ∀ aj, (w.poolGet sid value).1.arch aj = w.arch aj := fun aj => by
      rw [arch_def, hp.1]; rfl
    have hr1 : ((w.poolGet sid value).1.arch pi).rows[(w.locOf e).idx]? = some prow := by
      rw [harch]; exact hr
    have hmk : KeysOK (w.poolGet sid value).1 → MaskOk ((w.poolGet sid value).1.arch pi).mask :=
      fun hk => hk.masks pi (lt_of_row hr1)
    rcases getArch_move info hs0.ok ((w.poolGet sid value).1.arch pi).mask
      (((w.poolGet sid value).1.arch pi).shared.add sid (w.poolGet sid value).2) e pi (w.locOf e).idx []
      prow hr1 he hmk with ⟨_, hnone⟩ | ⟨_, w2, cbs, hsome, hm, _, _⟩
    · rw [hnone]; exact hs0.trans (getArch_step hs0.ok _ _ _ hmk)
    · rw [hsome]; exact hs0.trans hm.step

theorem sremove_step (info : CompId → CompInfo) {w : WM} (hok : RowsOK w) (e : Handle) (sid : Nat)
    (hloc : Located w e) : Step w (w.sremove info e sid).1 e.id := by
  unfold WM.sremove
  by_cases hv : w.isValid e = true
  · simp only [hv, Bool.not_true, Bool.false_eq_true, if_false]
    cases hla : (w.locOf e).arch with
    | none => exact Step.refl hok _
    | some pi =>
      simp only
      by_cases hc : (w.arch pi).shared.has sid = true
      · simp only [hc, Bool.not_true, Bool.false_eq_true, if_false]
        rcases hloc pi hla with ⟨prow, hr, he⟩
        have hmk : KeysOK w → MaskOk (w.arch pi).mask := fun hk => hk.masks pi (lt_of_row hr)
        rcases getArch_move info hok (w.arch pi).mask ((w.arch pi).shared.remove sid) e pi
          (w.locOf e).idx [] prow hr he hmk with ⟨_, hnone⟩ | ⟨_, w2, cbs, hsome, hm, _, _⟩
        · rw [hnone]; exact getArch_step hok _ _ _ hmk
        · rw [hsome]; exact hm.step
      · simp only [hc, Bool.not_false, if_true]; exact Step.refl hok _
  · simp only [Bool.not_eq_true] at hv
    simp only [hv, Bool.not_false, if_true]; exact Step.refl hok _

/-! ## `update` -/

theorem rowsOK_update (info : CompId → CompInfo) {w : WM} (hok : RowsOK w) : RowsOK (w.update info).1 := by
  unfold WM.update
  split
  · exact hok
  · have key : ∀ (l : List Handle) (acc : WM × List Cb), RowsOK acc.1 →
        RowsOK (l.foldl (fun (acc : WM × List Cb) h =>
          let (w', c) := acc.1.destroyNowU info h
          (w', acc.2 ++ c)) acc).1 := by
      intro l
      induction l with
      | nil => intro acc h; exact h
      | cons h l ih =>
        intro acc hacc
        rw [List.foldl_cons]
        exact ih _ (rowsOK_destroyNowU info hacc h)
    have := key w.marked (w, []) hok
    constructor
    · intro ai i r hr; exact this.vals ai i r hr
    · intro ai i r hr; exact this.loc ai i r hr

end Mustache.Proofs.Rows

import Mustache.Proofs.RowsMove
/-!
# Observations (`getComp`, `hasComp`, …) in terms of rows; frames; `setCell`, `allocId`, `release`
-/
namespace Mustache.Proofs.Rows
open Mustache.Model

/-! ## queries read the row the location points at -/

theorem locOf_of_locs {w : WM} {e : Handle} {l : Loc} (h : w.locs[e.id]? = some l) : w.locOf e = l := by
  unfold WM.locOf; rw [List.getD_eq_getElem?_getD, h]; rfl

theorem getComp_of_loc {w : WM} {e : Handle} {ai i : Nat} {r : Row}
    (hl : w.locOf e = ⟨some ai, i⟩) (hr : (w.arch ai).rows[i]? = some r) (c : CompId) :
    w.getComp e c = if w.isValid e then
      (match (w.arch ai).mask.indexOf? c with
       | none => none
       | some ci => some (r.vals.getD ci none)) else none := by
  unfold WM.getComp
  cases hv : w.isValid e with
  | false => simp
  | true =>
    simp only [Bool.not_true, Bool.false_eq_true, if_false, if_true, hl]
    rw [List.getD_eq_getElem?_getD, hr]; rfl

theorem hasComp_of_loc {w : WM} {e : Handle} {ai i : Nat} (hl : w.locOf e = ⟨some ai, i⟩) (c : CompId) :
    w.hasComp e c = (w.isValid e && (w.arch ai).mask.contains c) := by
  unfold WM.hasComp; rw [hl]

theorem hasShared_of_loc {w : WM} {e : Handle} {ai i : Nat} (hl : w.locOf e = ⟨some ai, i⟩) (s : Nat) :
    w.hasShared e s = (w.isValid e && (w.arch ai).shared.has s) := by
  unfold WM.hasShared; rw [hl]

theorem archOf_of_loc {w : WM} {e : Handle} {ai i : Nat} (hl : w.locOf e = ⟨some ai, i⟩) :
    w.archOf e = if w.isValid e then some ai else none := by
  unfold WM.archOf; rw [hl]; cases w.isValid e <;> rfl

/-- what an operation on the entity with id `id` may do to the others: rows kept (`KeepsOthers`) and
validity of every handle with another id unchanged -/
structure OpFrame (w w' : WM) (id : Nat) : Prop where
  keeps : KeepsOthers w w' id
  valid : ∀ h : Handle, h.id ≠ id → w'.isValid h = w.isValid h

theorem OpFrame.trans {a b c : WM} {id : Nat} (h₁ : OpFrame a b id) (h₂ : OpFrame b c id) :
    OpFrame a c id :=
  ⟨h₁.keeps.trans h₂.keeps, fun h hne => (h₂.valid h hne).trans (h₁.valid h hne)⟩

theorem OpFrame.refl {w : WM} (hok : RowsOK w) (id : Nat) : OpFrame w w id :=
  ⟨KeepsOthers.refl hok id, fun _ _ => rfl⟩

theorem OpFrame.of_sameTable {w w' : WM} {id : Nat} (hk : KeepsOthers w w' id) (hs : SameTable w w') :
    OpFrame w w' id := ⟨hk, fun h _ => hs.isValid h⟩

/-- all observations of an entity that owns a row and has another id are unchanged -/
theorem OpFrame.observations {w w' : WM} {id : Nat} (hf : OpFrame w w' id) (hok : RowsOK w)
    {aj j : Nat} {r : Row} (hr : (w.arch aj).rows[j]? = some r) (hne : r.ent.id ≠ id) :
    (∀ c, w'.getComp r.ent c = w.getComp r.ent c) ∧
    (∀ c, w'.hasComp r.ent c = w.hasComp r.ent c) ∧
    (∀ s, w'.hasShared r.ent s = w.hasShared r.ent s) ∧
    w'.archOf r.ent = w.archOf r.ent ∧ w'.isValid r.ent = w.isValid r.ent := by
  rcases hf.keeps aj j r hr hne with ⟨⟨j', hr', hl'⟩, hm, hs⟩
  have hl := hok.locOf hr
  have hl2 := locOf_of_locs hl'
  have hv := hf.valid r.ent hne
  refine ⟨fun c => ?_, fun c => ?_, fun s => ?_, ?_, hv⟩
  · rw [getComp_of_loc hl2 hr' c, getComp_of_loc hl hr c, hv, hm]
  · rw [hasComp_of_loc hl2 c, hasComp_of_loc hl c, hv, hm]
  · rw [hasShared_of_loc hl2 s, hasShared_of_loc hl s, hv, hs]
  · rw [archOf_of_loc hl2, archOf_of_loc hl, hv]

/-! ## `setCell`: overwrite one value of one row -/

def setCell (w : WM) (ai idx ci : Nat) (v : Val) : WM :=
  let a := w.arch ai
  let row := a.rows.getD idx default
  w.setArch ai { a with rows := a.rows.set idx { row with vals := row.vals.set ci v } }

theorem setCell_sameTable (w : WM) (ai idx ci : Nat) (v : Val) : SameTable w (setCell w ai idx ci v) :=
  sameTable_setArch _ _ _

theorem setCell_locs (w : WM) (ai idx ci : Nat) (v : Val) : (setCell w ai idx ci v).locs = w.locs := rfl

theorem setCell_archs_length (w : WM) (ai idx ci : Nat) (v : Val) :
    (setCell w ai idx ci v).archs.length = w.archs.length := archs_length_setArch _ _ _

theorem setCell_arch_ne (w : WM) (ai aj idx ci : Nat) (v : Val) (h : aj ≠ ai) :
    (setCell w ai idx ci v).arch aj = w.arch aj := arch_setArch_ne _ _ _ _ h

theorem setCell_mask (w : WM) (ai aj idx ci : Nat) (v : Val) :
    ((setCell w ai idx ci v).arch aj).mask = (w.arch aj).mask ∧
    ((setCell w ai idx ci v).arch aj).shared = (w.arch aj).shared := by
  by_cases hj : aj = ai
  · subst hj
    by_cases hlt : aj < w.archs.length
    · unfold setCell; rw [arch_setArch_same _ _ _ hlt]; exact ⟨rfl, rfl⟩
    · unfold setCell WM.setArch
      simp only [arch_def, List.set_eq_of_length_le (Nat.le_of_not_lt hlt)]
      trivial
  · rw [setCell_arch_ne _ _ _ _ _ _ hj]; exact ⟨rfl, rfl⟩

/-- rows after `setCell`: only row `(ai, idx)` changes, and only in its values -/
theorem setCell_rows (w : WM) (ai idx ci : Nat) (v : Val) (aj j : Nat) :
    ((setCell w ai idx ci v).arch aj).rows[j]? =
      if aj = ai ∧ j = idx then
        ((w.arch ai).rows[idx]?).map (fun r0 => { r0 with vals := r0.vals.set ci v })
      else (w.arch aj).rows[j]? := by
  by_cases hj : aj = ai
  · subst hj
    by_cases hlt : aj < w.archs.length
    · unfold setCell; rw [arch_setArch_same _ _ _ hlt]
      simp only [List.getElem?_set, true_and]
      by_cases hji : idx = j
      · subst hji
        by_cases hil : idx < (w.arch aj).rows.length
        · simp [hil, List.getD_eq_getElem?_getD]
        · simp [hil]
      · simp [hji, Ne.symm hji]
    · have h0 : (w.arch aj).rows = [] := by rw [arch_of_ge w aj (Nat.le_of_not_lt hlt)]
      have h1 : ((setCell w aj idx ci v).arch aj).rows = [] := by
        rw [arch_of_ge _ aj (by rw [setCell_archs_length]; exact Nat.le_of_not_lt hlt)]
      rw [h1, h0]; simp
  · rw [setCell_arch_ne _ _ _ _ _ _ hj]; simp [hj]

theorem rowsOK_setCell {w : WM} (hok : RowsOK w) (ai idx ci : Nat) (v : Val) :
    RowsOK (setCell w ai idx ci v) := by
  constructor
  · intro aj j r hr
    rw [(setCell_mask w ai aj idx ci v).1]
    rw [setCell_rows] at hr
    split at hr
    · rename_i hc
      rcases hc with ⟨rfl, rfl⟩
      cases h0 : (w.arch aj).rows[j]? with
      | none => rw [h0] at hr; cases hr
      | some r0 =>
        rw [h0] at hr; simp at hr; subst hr
        simp; exact hok.vals aj j r0 h0
    · exact hok.vals aj j r hr
  · intro aj j r hr
    rw [setCell_locs]
    rw [setCell_rows] at hr
    split at hr
    · rename_i hc
      rcases hc with ⟨rfl, rfl⟩
      cases h0 : (w.arch aj).rows[j]? with
      | none => rw [h0] at hr; cases hr
      | some r0 =>
        rw [h0] at hr; simp at hr; subst hr
        exact hok.loc aj j r0 h0
    · exact hok.loc aj j r hr

/-- `setCell` on a row of entity `id` keeps everybody else -/
theorem setCell_keepsOthers {w : WM} (hok : RowsOK w) (ai idx ci : Nat) (v : Val) (id : Nat)
    (hown : ∀ r0, (w.arch ai).rows[idx]? = some r0 → r0.ent.id = id) :
    KeepsOthers w (setCell w ai idx ci v) id := by
  intro aj j r hr hne
  refine ⟨⟨j, ?_, by rw [setCell_locs]; exact (hok.loc aj j r hr).2⟩,
    (setCell_mask w ai aj idx ci v).1, (setCell_mask w ai aj idx ci v).2⟩
  rw [setCell_rows]
  split
  · rename_i hc
    rcases hc with ⟨rfl, rfl⟩
    exact absurd (hown r hr) hne
  · exact hr

/-- the row `(ai, idx)` after `setCell` -/
theorem setCell_here {w : WM} {ai idx : Nat} {r0 : Row} (h : (w.arch ai).rows[idx]? = some r0)
    (ci : Nat) (v : Val) :
    ((setCell w ai idx ci v).arch ai).rows[idx]? = some { r0 with vals := r0.vals.set ci v } := by
  rw [setCell_rows]; simp [h]

theorem setCell_notInRow {w : WM} (ai idx ci : Nat) (v : Val) {id : Nat} (h : NotInRow w id) :
    NotInRow (setCell w ai idx ci v) id := by
  intro aj j r hr
  rw [setCell_rows] at hr
  split at hr
  · cases h0 : (w.arch ai).rows[idx]? with
    | none => rw [h0] at hr; cases hr
    | some r0 =>
      rw [h0] at hr; simp at hr; subst hr
      exact h ai idx r0 h0
  · exact h aj j r hr

/-! ## `release` -/

theorem release_archs_locs (w : WM) (h : Handle) (hlt : h.id < w.slots.length) :
    (w.release h).archs = w.archs ∧ (w.release h).locs = w.locs ∧ (w.release h).worldId = w.worldId := by
  simp [WM.release, hlt]

theorem release_slots (w : WM) (h : Handle) (hlt : h.id < w.slots.length) (i : Nat) (hne : i ≠ h.id) :
    (w.release h).slots[i]? = w.slots[i]? := by
  simp [WM.release, hlt, List.getElem?_set_ne (Ne.symm hne)]

theorem release_isValid (w : WM) (h x : Handle) (hlt : h.id < w.slots.length) (hne : x.id ≠ h.id) :
    (w.release h).isValid x = w.isValid x := by
  unfold WM.isValid
  rw [release_slots w h hlt x.id hne, (release_archs_locs w h hlt).2.2]

theorem release_arch (w : WM) (h : Handle) (hlt : h.id < w.slots.length) (ai : Nat) :
    (w.release h).arch ai = w.arch ai := by
  rw [arch_def, (release_archs_locs w h hlt).1]; rfl

theorem rowsOK_release {w : WM} (hok : RowsOK w) (h : Handle) (hlt : h.id < w.slots.length) :
    RowsOK (w.release h) := by
  constructor
  · intro ai i r hr
    rw [release_arch w h hlt] at hr ⊢
    exact hok.vals ai i r hr
  · intro ai i r hr
    rw [release_arch w h hlt] at hr
    rw [(release_archs_locs w h hlt).2.1]
    exact hok.loc ai i r hr

theorem release_opFrame {w : WM} (hok : RowsOK w) (h : Handle) (hlt : h.id < w.slots.length) :
    OpFrame w (w.release h) h.id := by
  refine ⟨?_, fun x hne => release_isValid w h x hlt hne⟩
  intro aj j r hr _
  rw [release_arch w h hlt, (release_archs_locs w h hlt).2.1]
  exact ⟨⟨j, hr, (hok.loc aj j r hr).2⟩, rfl, rfl⟩

theorem isValid_id_lt {w : WM} {h : Handle} (hv : w.isValid h = true) : h.id < w.slots.length := by
  unfold WM.isValid at hv
  cases hs : w.slots[h.id]? with
  | none => rw [hs] at hv; simp at hv
  | some s => exact (List.getElem?_eq_some_iff.mp hs).1

/-! ## `allocId` -/

/-- id-table facts about the next allocation (consequences of the C01 invariant: the free-list head
is a dead id inside the table, `locs` is as long as `slots`, the table is smaller than the null id) -/
structure AllocOK (w : WM) : Prop where
  /-- C01: an id handed out by `createWithOutInit` owns no archetype row -/
  fresh : NotInRow w (w.allocId).2.id
  /-- C01: the id space is not exhausted / the free chain stays inside the table -/
  notNull : (w.allocId).2.id ≠ nullId
  /-- C01: `locations_` covers every id of `entities_` -/
  inRange : (w.allocId).2.id < (w.allocId).1.locs.length

theorem allocId_grow (w : WM) (he : w.empty = 0) :
    w.allocId = ({ w with slots := w.slots ++ [⟨w.slots.length, 0⟩], locs := w.locs ++ [⟨none, 0⟩] },
      ⟨w.slots.length, 0, w.worldId⟩) := by
  unfold WM.allocId; rw [if_pos he]

theorem allocId_pop (w : WM) (he : w.empty ≠ 0) (s : Slot) (hs : w.slots[w.next]? = some s) :
    w.allocId =
      ({ w with slots := w.slots.set w.next ⟨w.next, s.ver⟩, locs := w.locs.set w.next ⟨none, 0⟩,
                next := s.idf, empty := w.empty - 1 }, ⟨w.next, s.ver, w.worldId⟩) := by
  unfold WM.allocId; rw [if_neg he]; simp only [hs]

theorem allocId_bad (w : WM) (he : w.empty ≠ 0) (hs : w.slots[w.next]? = none) :
    w.allocId = (w, Handle.null) := by
  unfold WM.allocId; rw [if_neg he]; simp only [hs]

theorem allocId_archs (w : WM) : (w.allocId).1.archs = w.archs := by
  by_cases he : w.empty = 0
  · rw [allocId_grow w he]
  · cases hs : w.slots[w.next]? with
    | none => rw [allocId_bad w he hs]
    | some s => rw [allocId_pop w he s hs]

theorem allocId_arch (w : WM) (ai : Nat) : (w.allocId).1.arch ai = w.arch ai := by
  rw [arch_def, allocId_archs]; rfl

/-- locations of the other ids inside the table are untouched -/
theorem allocId_locs (w : WM) (id : Nat) (hlt : id < w.locs.length) (hne : id ≠ (w.allocId).2.id ∨ w.empty = 0) :
    (w.allocId).1.locs[id]? = w.locs[id]? := by
  by_cases he : w.empty = 0
  · rw [allocId_grow w he]; exact List.getElem?_append_left hlt
  · cases hs : w.slots[w.next]? with
    | none => rw [allocId_bad w he hs]
    | some s =>
      rw [allocId_pop w he s hs] at hne ⊢
      rcases hne with hne | hne
      · exact List.getElem?_set_ne (Ne.symm hne)
      · exact absurd hne he

theorem rowsOK_allocId {w : WM} (hok : RowsOK w) (hfresh : NotInRow w (w.allocId).2.id) :
    RowsOK (w.allocId).1 := by
  constructor
  · intro ai i r hr
    rw [allocId_arch] at hr ⊢
    exact hok.vals ai i r hr
  · intro ai i r hr
    rw [allocId_arch] at hr
    rw [allocId_locs w r.ent.id (hok.id_lt hr) (Or.inl (hfresh ai i r hr))]
    exact hok.loc ai i r hr

theorem allocId_notInRow {w : WM} {id : Nat} (h : NotInRow w id) : NotInRow (w.allocId).1 id := by
  intro ai i r hr
  rw [allocId_arch] at hr
  exact h ai i r hr

theorem allocId_isValid (w : WM) (x : Handle) (hne : x.id ≠ (w.allocId).2.id) :
    (w.allocId).1.isValid x = w.isValid x := by
  by_cases he : w.empty = 0
  · rw [allocId_grow w he] at hne ⊢
    simp only at hne
    unfold WM.isValid
    simp only
    by_cases hlt : x.id < w.slots.length
    · rw [List.getElem?_append_left hlt]
    · have h1 : w.slots[x.id]? = none := List.getElem?_eq_none_iff.mpr (by omega)
      have h2 : (w.slots ++ [(⟨w.slots.length, 0⟩ : Slot)])[x.id]? = none :=
        List.getElem?_eq_none_iff.mpr (by simp; omega)
      rw [h1, h2]
  · cases hs : w.slots[w.next]? with
    | none => rw [allocId_bad w he hs]
    | some s =>
      rw [allocId_pop w he s hs] at hne ⊢
      simp only at hne
      unfold WM.isValid
      simp only
      rw [List.getElem?_set_ne (Ne.symm hne)]

theorem allocId_opFrame {w : WM} (hok : RowsOK w) :
    OpFrame w (w.allocId).1 (w.allocId).2.id := by
  refine ⟨?_, fun x hne => allocId_isValid w x hne⟩
  intro aj j r hr hne
  rw [allocId_arch]
  refine ⟨⟨j, hr, ?_⟩, rfl, rfl⟩
  rw [allocId_locs w r.ent.id (hok.id_lt hr) (Or.inl hne)]
  exact (hok.loc aj j r hr).2

/-- the handle `allocId` returns depends only on the id table -/
theorem allocId_handle_congr {w w' : WM} (hs : SameTable w w') :
    (w'.allocId).2 = (w.allocId).2 := by
  unfold WM.allocId
  rw [hs.empty, hs.slots, hs.next, hs.worldId]
  split
  · rfl
  · split <;> rfl

theorem allocId_locs_length (w : WM) :
    (w.allocId).1.locs.length = if w.empty = 0 then w.locs.length + 1 else w.locs.length := by
  by_cases he : w.empty = 0
  · rw [allocId_grow w he]; simp [he]
  · cases hs : w.slots[w.next]? with
    | none => rw [allocId_bad w he hs]; simp [he]
    | some s => rw [allocId_pop w he s hs]; simp [he]

theorem allocId_locs_length_congr {w w' : WM} (hs : SameTable w w') (hl : w'.locs.length = w.locs.length) :
    (w'.allocId).1.locs.length = (w.allocId).1.locs.length := by
  rw [allocId_locs_length, allocId_locs_length, hs.empty, hl]

/-- `AllocOK` is about the id table and the set of row owners only -/
theorem AllocOK.congr {w w' : WM} (h : AllocOK w) (hs : SameTable w w') (hl : w'.locs.length = w.locs.length)
    (hrows : ∀ id, NotInRow w id → NotInRow w' id) : AllocOK w' := by
  refine ⟨?_, ?_, ?_⟩
  · rw [allocId_handle_congr hs]; exact hrows _ h.fresh
  · rw [allocId_handle_congr hs]; exact h.notNull
  · rw [allocId_handle_congr hs, allocId_locs_length_congr hs hl]; exact h.inRange

/-- the freshly allocated handle is valid afterwards (it is not the null pattern: `notNull`) -/
theorem allocId_valid (w : WM) (hn : (w.allocId).2.id ≠ nullId) :
    (w.allocId).1.isValid (w.allocId).2 = true := by
  by_cases he : w.empty = 0
  · rw [allocId_grow w he] at hn ⊢
    simp only at hn
    unfold WM.isValid Handle.isNull
    have hne : (⟨w.slots.length, 0, w.worldId⟩ : Handle) ≠ Handle.null := by
      intro e; injection e with e1 _ _; exact hn e1
    simp [hne]
  · cases hs : w.slots[w.next]? with
    | none => rw [allocId_bad w he hs] at hn; exact absurd rfl hn
    | some s =>
      rw [allocId_pop w he s hs] at hn ⊢
      simp only at hn
      have hlt : w.next < w.slots.length := (List.getElem?_eq_some_iff.mp hs).1
      unfold WM.isValid Handle.isNull
      have hne : (⟨w.next, s.ver, w.worldId⟩ : Handle) ≠ Handle.null := by
        intro e; injection e with e1 _ _; exact hn e1
      simp [hne, List.getElem?_set_self hlt]

end Mustache.Proofs.Rows

import Mustache.Proofs.RowsKeys
/-!
# The unlocked operations on an existing entity: `destroyNow`, `removeComponent`, `assign`

Each is `getArchetype` + `externalMove` (+ `setCell`) or `Archetype::remove` + `release`;
`Step w w' id` = the invariant holds afterwards and nobody but `id` is affected.
-/
namespace Mustache.Proofs.Rows
open Mustache.Model

/-- the operand's location, when it names an archetype, points at the operand's own row
(C01/C02 link: every live handle is located at its row) -/
def Located (w : WM) (e : Handle) : Prop :=
  ∀ pi, (w.locOf e).arch = some pi → InRowAt w e pi (w.locOf e).idx

theorem located_of_row {w : WM} (hok : RowsOK w) {e : Handle} {ai i : Nat} (h : InRowAt w e ai i) :
    Located w e := by
  rcases h with ⟨r, hr, rfl⟩
  intro pi hpi
  rw [hok.locOf hr] at hpi ⊢
  cases hpi
  exact ⟨r, hr, rfl⟩

/-- result of an operation on the entity with id `id` -/
structure Step (w w' : WM) (id : Nat) : Prop where
  ok : RowsOK w'
  frame : OpFrame w w' id
  llen : w.locs.length ≤ w'.locs.length
  /-- ids (other than `id`) that own no row still own none -/
  others : ∀ x, x ≠ id → NotInRow w x → NotInRow w' x
  /-- archetype keys stay sorted and pairwise distinct -/
  keys : KeysOK w → KeysOK w'

theorem Step.refl {w : WM} (hok : RowsOK w) (id : Nat) : Step w w id :=
  ⟨hok, OpFrame.refl hok id, Nat.le_refl _, fun _ _ h => h, fun h => h⟩

theorem Step.trans {a b c : WM} {id : Nat} (h₁ : Step a b id) (h₂ : Step b c id) : Step a c id :=
  ⟨h₂.ok, h₁.frame.trans h₂.frame, Nat.le_trans h₁.llen h₂.llen,
   fun x hx hn => h₂.others x hx (h₁.others x hx hn), fun h => h₂.keys (h₁.keys h)⟩

/-- a state that differs only outside `archs`/`locs`/the id table is a trivial step -/
theorem Step.of_same {w w' : WM} (hok : RowsOK w) (id : Nat) (ha : w'.archs = w.archs)
    (hl : w'.locs = w.locs) (hs : ∀ h, w'.isValid h = w.isValid h) : Step w w' id := by
  have harch : ∀ ai, w'.arch ai = w.arch ai := fun ai => by rw [arch_def, ha]; rfl
  refine ⟨⟨?_, ?_⟩, ⟨?_, fun h _ => hs h⟩, by rw [hl]; exact Nat.le_refl _, ?_,
    fun hk => (KeysSame.of_archs ha).keysOK hk⟩
  · intro ai i r hr; rw [harch] at hr ⊢; exact hok.vals ai i r hr
  · intro ai i r hr; rw [harch] at hr; rw [hl]; exact hok.loc ai i r hr
  · intro aj j r hr _
    rw [harch, hl]; exact ⟨⟨j, hr, (hok.loc aj j r hr).2⟩, rfl, rfl⟩
  · intro x _ hn ai i r hr; rw [harch] at hr; exact hn ai i r hr

theorem pushCmd_step {w : WM} (hok : RowsOK w) (t : Nat) (c : Cmd) (id : Nat) : Step w (w.pushCmd t c) id :=
  Step.of_same hok id rfl rfl (fun _ => rfl)

/-! ## `getArchetype` followed by `externalMove` -/

/-- values of the row built in an archetype with mask `tm` from the row `prow` of an archetype with
mask `pm` -/
def carry (info : CompId → CompInfo) (tm pm : Mask) (prow : Row) (skip : Mask) : List Val :=
  tm.map (fun c =>
    match pm.indexOf? c with
    | some i => prow.vals.getD i none
    | none =>
      if skip.contains c then (match (info c).fixed with | some v => some v | none => none)
      else defaultVal info c)

theorem moveVals_eq_carry (info : CompId → CompInfo) (w : WM) (t p idx : Nat) (skip : Mask) :
    moveVals info w t p idx skip =
      carry info (w.arch t).mask (w.arch p).mask ((w.arch p).rows.getD idx default) skip := rfl

/-- `e` now owns a row `⟨e, vals⟩` of archetype `ti`; everything else as in `Step` -/
structure Moved (w w2 : WM) (e : Handle) (ti : Nat) (vals : List Val) : Prop where
  step : Step w w2 e.id
  same : SameTable w w2
  here : ∃ n, w2.locOf e = ⟨some ti, n⟩ ∧ (w2.arch ti).rows[n]? = some ⟨e, vals⟩

theorem getArch_step {w : WM} (hok : RowsOK w) (m : Mask) (sh : Shared) (id : Nat)
    (hmk : KeysOK w → MaskOk m) : Step w (w.getArch m sh).1 id :=
  ⟨rowsOK_getArch hok m sh, OpFrame.of_sameTable (getArch_keepsOthers hok m sh id) (getArch_sameTable w m sh),
   by rw [getArch_locs]; exact Nat.le_refl _, fun _ _ h => getArch_notInRow m sh h,
   fun hk => keysOK_getArch hk m sh (hmk hk)⟩

theorem getArch_move (info : CompId → CompInfo) {w : WM} (hok : RowsOK w) (m : Mask) (sh : Shared)
    (e : Handle) (pi idx : Nat) (skip : Mask) (prow : Row)
    (hr : (w.arch pi).rows[idx]? = some prow) (he : prow.ent = e) (hmk : KeysOK w → MaskOk m) :
    ((w.getArch m sh).2 = pi ∧
      (w.getArch m sh).1.externalMove info (w.getArch m sh).2 e pi idx skip = none) ∨
    ((w.getArch m sh).2 ≠ pi ∧ ∃ w2 cbs,
      (w.getArch m sh).1.externalMove info (w.getArch m sh).2 e pi idx skip = some (w2, cbs) ∧
      Moved w w2 e (w.getArch m sh).2 (carry info (closedMask w.deps m) (w.arch pi).mask prow skip) ∧
      (w2.arch (w.getArch m sh).2).mask = closedMask w.deps m ∧
      (w2.arch (w.getArch m sh).2).shared.data = sh.data) := by
  by_cases hti : (w.getArch m sh).2 = pi
  · left
    refine ⟨hti, ?_⟩
    rw [hti]; exact externalMove_self info _ _ _ _ _
  · right
    refine ⟨hti, ?_⟩
    have hok1 := rowsOK_getArch hok m sh
    have hpi : pi < w.archs.length := lt_of_row hr
    have harch : (w.getArch m sh).1.arch pi = w.arch pi := getArch_arch_lt w m sh pi hpi
    have hr1 : ((w.getArch m sh).1.arch pi).rows[idx]? = some prow := by rw [harch]; exact hr
    rcases externalMove_spec info hok1 (w.getArch m sh).2 e pi idx skip hti (getArch_idx_lt w m sh)
      ⟨prow, hr1, he⟩ with ⟨w2, cbs, heq, hs⟩
    refine ⟨w2, cbs, heq, ?_, ?_, ?_⟩
    · have hvals : moveVals info (w.getArch m sh).1 (w.getArch m sh).2 pi idx skip =
          carry info (closedMask w.deps m) (w.arch pi).mask prow skip := by
        rw [moveVals_eq_carry, (getArch_key w m sh).1, harch, List.getD_eq_getElem?_getD, hr]; rfl
      rw [hvals] at hs
      refine ⟨(getArch_step hok m sh e.id hmk).trans ⟨hs.ok, OpFrame.of_sameTable hs.keeps hs.same,
        by rw [hs.llen]; exact Nat.le_refl _, ?_, fun hk => (KeysSame.mk hs.alen hs.mask).keysOK hk⟩,
        (getArch_sameTable w m sh).trans hs.same, ⟨_, hs.loc, hs.here⟩⟩
      intro x hx hn aj j r hr'
      rcases hs.back aj j r hr' with hid | ⟨j0, h0⟩
      · intro hh; exact hx (hh.symm.trans hid)
      · exact hn aj j0 r h0
    · rw [(hs.mask _).1]; exact (getArch_key w m sh).1
    · rw [(hs.mask _).2]; exact (getArch_key w m sh).2

/-! ## `destroyNow` -/

theorem destroyNowU_fst (info : CompId → CompInfo) (w : WM) (h : Handle) :
    (w.destroyNowU info h).1 =
      if w.isValid h then
        (match (w.locOf h).arch with
         | some ai => (w.archRemove info ai (w.locOf h).idx []).1
         | none => w).release h
      else w := by
  unfold WM.destroyNowU
  cases w.isValid h with
  | false => rfl
  | true =>
    simp only [Bool.not_true, Bool.false_eq_true, if_false, if_true]
    cases (w.locOf h).arch <;> rfl

/-- `destroyNow h` does not change the validity of handles with another id (no hypothesis) -/
theorem destroyNowU_isValid_ne (info : CompId → CompInfo) (w : WM) (h x : Handle) (hne : x.id ≠ h.id) :
    (w.destroyNowU info h).1.isValid x = w.isValid x := by
  rw [destroyNowU_fst]
  by_cases hv : w.isValid h = true
  · rw [if_pos hv]
    have hlt := isValid_id_lt hv
    cases (w.locOf h).arch with
    | none => exact release_isValid w h x hlt hne
    | some ai =>
      simp only
      have hs := archRemove_sameTable info w ai (w.locOf h).idx []
      rw [release_isValid _ h x (by rw [hs.slots]; exact hlt) hne]
      exact hs.isValid x
  · rw [if_neg hv]

/-- the invariant survives `destroyNow` of ANY handle -/
theorem rowsOK_destroyNowU (info : CompId → CompInfo) {w : WM} (hok : RowsOK w) (h : Handle) :
    RowsOK (w.destroyNowU info h).1 := by
  rw [destroyNowU_fst]
  by_cases hv : w.isValid h = true
  · rw [if_pos hv]
    have hlt := isValid_id_lt hv
    cases (w.locOf h).arch with
    | none => exact rowsOK_release hok h hlt
    | some ai =>
      simp only
      apply rowsOK_release (rowsOK_archRemove info hok _ _ _)
      rw [(archRemove_sameTable info w ai _ []).slots]; exact hlt
  · rw [if_neg hv]; exact hok

theorem destroyNowU_step (info : CompId → CompInfo) {w : WM} (hok : RowsOK w) (h : Handle)
    (hloc : Located w h) : Step w (w.destroyNowU info h).1 h.id := by
  rw [destroyNowU_fst]
  by_cases hv : w.isValid h = true
  · rw [if_pos hv]
    have hlt := isValid_id_lt hv
    have hrel : ∀ w1 : WM, RowsOK w1 → w1.slots = w.slots → Step w1 (w1.release h) h.id := by
      intro w1 hok1 hsl
      have hlt1 : h.id < w1.slots.length := by rw [hsl]; exact hlt
      refine ⟨rowsOK_release hok1 h hlt1, release_opFrame hok1 h hlt1, ?_, ?_,
        fun hk => (KeysSame.of_archs (release_archs_locs w1 h hlt1).1).keysOK hk⟩
      · rw [(release_archs_locs w1 h hlt1).2.1]; exact Nat.le_refl _
      · intro x _ hn ai i r hr; rw [release_arch w1 h hlt1] at hr; exact hn ai i r hr
    cases hla : (w.locOf h).arch with
    | none => exact hrel w hok rfl
    | some ai =>
      simp only
      rcases hloc ai hla with ⟨row, hr, hre⟩
      have hs := archRemove_spec info hok ai (w.locOf h).idx [] row hr
      have hid : row.ent.id = h.id := by rw [hre]
      refine Step.trans ⟨hs.rowsOK hok, OpFrame.of_sameTable (hid ▸ hs.keepsOthers) hs.same,
        by rw [hs.llen]; exact Nat.le_refl _, fun x _ hn => hs.notInRow_of hn,
        fun hk => (KeysSame.mk hs.alen hs.mask).keysOK hk⟩
        (hrel _ (hs.rowsOK hok) hs.same.slots)
  · rw [if_neg hv]; exact Step.refl hok h.id

/-- after `destroyNow` of a located entity its id owns no row -/
theorem destroyNowU_notInRow (info : CompId → CompInfo) {w : WM} (hok : RowsOK w) (h : Handle)
    (hv : w.isValid h = true) {ai i : Nat} (hrow : InRowAt w h ai i) :
    NotInRow (w.destroyNowU info h).1 h.id := by
  rcases hrow with ⟨row, hr, rfl⟩
  rw [destroyNowU_fst, if_pos hv, hok.locOf hr]
  simp only
  have hs := archRemove_spec info hok ai i [] row hr
  have hlt1 : row.ent.id < (w.archRemove info ai i []).1.slots.length := by
    rw [hs.same.slots]; exact isValid_id_lt hv
  intro aj j r hr'
  rw [release_arch _ _ hlt1] at hr'
  exact hs.notInRow aj j r hr'

/-! ## typed `removeComponent` -/

theorem removeComp_step (info : CompId → CompInfo) {w : WM} (hok : RowsOK w) (t : Nat) (e : Handle)
    (c : CompId) (hloc : Located w e) : Step w (w.removeComp info t e c).1 e.id := by
  unfold WM.removeComp
  by_cases hl : w.isLocked = true
  · rw [if_pos hl]; exact pushCmd_step hok _ _ _
  · rw [if_neg hl]
    by_cases hv : w.isValid e = true
    · simp only [hv, Bool.not_true, Bool.false_eq_true, if_false]
      cases hla : (w.locOf e).arch with
      | none => exact Step.refl hok _
      | some pi =>
        simp only
        by_cases hc : (w.arch pi).mask.contains c = true
        · simp only [hc, Bool.not_true, Bool.false_eq_true, if_false]
          rcases hloc pi hla with ⟨prow, hr, he⟩
          have hmk : KeysOK w → MaskOk (Mask.erase (w.arch pi).mask c) :=
            fun hk => maskOk_erase (hk.masks pi (lt_of_row hr)) c
          rcases getArch_move info hok (Mask.erase (w.arch pi).mask c) (w.arch pi).shared e pi
            (w.locOf e).idx [] prow hr he hmk with ⟨_, hnone⟩ | ⟨_, w2, cbs, hsome, hm, _⟩
          · rw [hnone]; exact getArch_step hok _ _ _ hmk
          · rw [hsome]; exact hm.step
        · simp only [hc, Bool.not_false, if_true]; exact Step.refl hok _
    · simp only [Bool.not_eq_true] at hv
      simp only [hv, Bool.not_false, if_true]; exact Step.refl hok _

/-! ## `assign` -/

/-- the value `assign<C>(e, v)` stores: the constant of an empty type, else the token, else the default -/
def storedOf (info : CompId → CompInfo) (c : CompId) (v : Option Nat) : Val :=
  match (info c).fixed with
  | some f => some f
  | none => match v with
    | some tok => some tok
    | none => defaultVal info c

theorem storedOf_tok (info : CompId → CompInfo) (c : CompId) (tok : Nat) (h : (info c).fixed = none) :
    storedOf info c (some tok) = some tok := by
  unfold storedOf; rw [h]

/-- the unlocked `assign` on a located entity: either the "to itself" error (state = after
`getArchetype`, which found the entity's own archetype), or the move followed by one `setCell` -/
theorem assign_unlocked (info : CompId → CompInfo) {w : WM} (hok : RowsOK w) (t : Nat) (e : Handle)
    (c : CompId) (v : Option Nat) (hl : w.isLocked = false) (pi : Nat) (prow : Row)
    (hla : w.locOf e = ⟨some pi, (w.locOf e).idx⟩)
    (hr : (w.arch pi).rows[(w.locOf e).idx]? = some prow) (he : prow.ent = e)
    (m : Mask) (hmdef : m = Mask.insert (w.arch pi).mask c) :
    ((w.getArch m (w.arch pi).shared).2 = pi ∧
      w.assign info t e c v = ((w.getArch m (w.arch pi).shared).1, .selfMove, [])) ∨
    ((w.getArch m (w.arch pi).shared).2 ≠ pi ∧ ∃ w2 cbs,
      (w.getArch m (w.arch pi).shared).1.externalMove info (w.getArch m (w.arch pi).shared).2 e pi
        (w.locOf e).idx (if v.isSome then m else []) = some (w2, cbs) ∧
      Moved w w2 e (w.getArch m (w.arch pi).shared).2
        (carry info (closedMask w.deps m) (w.arch pi).mask prow (if v.isSome then m else [])) ∧
      (w2.arch (w.getArch m (w.arch pi).shared).2).mask = closedMask w.deps m ∧
      (w2.arch (w.getArch m (w.arch pi).shared).2).shared.data = (w.arch pi).shared.data ∧
      (w.assign info t e c v).2.1 = .ok ∧
      (w.assign info t e c v).1 =
        (match v, (closedMask w.deps m).indexOf? c with
          | some _, some ci => setCell w2 (w.getArch m (w.arch pi).shared).2 (w2.locOf e).idx ci (storedOf info c v)
          | _, _ => w2)) := by
  subst hmdef
  have hla' : (w.locOf e).arch = some pi := by rw [hla]
  rcases getArch_move info hok (Mask.insert (w.arch pi).mask c) (w.arch pi).shared e pi (w.locOf e).idx
    (if v.isSome then Mask.insert (w.arch pi).mask c else []) prow hr he
    (fun hk => maskOk_insert (hk.masks pi (lt_of_row hr)) c) with ⟨hti, hnone⟩ | ⟨hti, w2, cbs, hsome, hm, hmask, hsh⟩
  · left
    refine ⟨hti, ?_⟩
    unfold WM.assign
    simp only [hl, Bool.false_eq_true, if_false, hla']
    rw [hnone]
  · right
    refine ⟨hti, w2, cbs, hsome, hm, hmask, hsh, ?_⟩
    unfold WM.assign
    simp only [hl, Bool.false_eq_true, if_false, hla']
    rw [hsome]
    simp only [hmask, true_and]
    cases v with
    | none => rfl
    | some tok =>
      cases (closedMask w.deps (Mask.insert (w.arch pi).mask c)).indexOf? c with
      | none => rfl
      | some ci => simp only [setCell, hmask]; rfl

end Mustache.Proofs.Rows

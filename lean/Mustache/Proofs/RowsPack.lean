import Mustache.Proofs.RowsLive
/-!
# `applyCommandPack` decomposed (start / fold of commands / finish) and the fields it never touches
-/
namespace Mustache.Proofs.Rows
open Mustache.Model

/-- one command of a pack folded into the running state -/
def packStep (info : CompId → CompInfo) (e : Handle) (isCreate : Bool)
    (acc : WM × PackSt × List Cb) (c : Cmd) : WM × PackSt × List Cb :=
  let (w, p, cbs) := acc
  if p.dead then acc else
  match c with
  | .destroyNow _ =>
    if isCreate then (w.release e, { p with dead := true }, cbs)
    else let (w', cb) := w.destroyNowU info e; (w', { p with dead := true }, cbs ++ cb)
  | .create .. => acc
  | .destroy h => ({ w with marked := insertSorted w.marked h }, p, cbs)
  | .remove _ c =>
    if p.final.contains c then
      let next := closedMask w.deps (Mask.erase p.final c)
      if next.contains c then (w, { p with final := next }, cbs)
      else (w, { p with final := next, replaced := Mask.insert p.replaced c, src := p.src.filter (·.1 != c) }, cbs)
    else acc
  | .assign _ c v =>
    let src := p.src.filter (·.1 != c) ++ [(c, v)]
    if p.final.contains c then (w, { p with replaced := Mask.insert p.replaced c, src := src }, cbs)
    else (w, { p with final := closedMask w.deps (Mask.insert p.final c), src := src }, cbs)

def packStart (w : WM) (first : Cmd) : Option (WM × Mask × Shared) :=
  let e := first.entity
  match first with
  | .create _ m sh =>
    let w := w.ensureId e.id
    some ({ w with slots := w.slots.set e.id ⟨e.id, e.ver⟩ }, m, sh)
  | _ =>
    if !w.isValid e then none else
    match (w.locOf e).arch with
    | none => none
    | some ai => some (w, (w.arch ai).mask, (w.arch ai).shared)

def isCreateCmd (c : Cmd) : Bool := match c with | .create .. => true | _ => false

/-- the component set a pack starts from: a creation looks its archetype up (closed set), an existing entity
    starts from the mask its archetype really has -/
def packInit (isCreate : Bool) (deps : List (CompId × Mask)) (m : Mask) : Mask :=
  if isCreate then closedMask deps m else m

theorem packInit_create (deps : List (CompId × Mask)) (m : Mask) : packInit true deps m = closedMask deps m := rfl
theorem packInit_existing (deps : List (CompId × Mask)) (m : Mask) : packInit false deps m = m := rfl

def packSetVal (ti idx : Nat) (w : WM) (c : CompId) (v : Val) : WM :=
  let ta := w.arch ti
  match ta.mask.indexOf? c with
  | none => w
  | some k =>
    let row := ta.rows.getD idx default
    w.setArch ti { ta with rows := ta.rows.set idx { row with vals := row.vals.set k v } }

/-- the archetype the pack ends in: an existing entity whose component set did not change stays in the archetype it
    is in (no lookup); otherwise `getArchetype` of the final set -/
def packTarget (e : Handle) (isCreate : Bool) (initial : Mask) (sh : Shared) (w : WM) (p : PackSt) : WM × Nat :=
  match (if isCreate || !(initial == p.final) then none else (w.locOf e).arch : Option Nat) with
  | some pi => (w, pi)
  | none => w.getArch p.final sh

theorem packTarget_create (e : Handle) (initial : Mask) (sh : Shared) (w : WM) (p : PackSt) :
    packTarget e true initial sh w p = w.getArch p.final sh := rfl

theorem packTarget_ne (e : Handle) (isCreate : Bool) (initial : Mask) (sh : Shared) (w : WM) (p : PackSt)
    (h : initial ≠ p.final) : packTarget e isCreate initial sh w p = w.getArch p.final sh := by
  unfold packTarget
  have : (initial == p.final) = false := by simpa using h
  rw [this]; simp

theorem packTarget_stay (e : Handle) (initial : Mask) (sh : Shared) (w : WM) (p : PackSt) (pi : Nat)
    (h : initial = p.final) (hl : (w.locOf e).arch = some pi) : packTarget e false initial sh w p = (w, pi) := by
  unfold packTarget
  have : (initial == p.final) = true := by simpa using h
  rw [this, hl]; rfl

theorem packTarget_noarch (e : Handle) (isCreate : Bool) (initial : Mask) (sh : Shared) (w : WM) (p : PackSt)
    (hl : (w.locOf e).arch = none) : packTarget e isCreate initial sh w p = w.getArch p.final sh := by
  unfold packTarget
  split
  · rename_i pi hpi
    split at hpi
    · cases hpi
    · rw [hl] at hpi; cases hpi
  · rfl

/-- when the lookup of the final set returns the entity's own archetype anyway, staying is the lookup -/
theorem packTarget_eq_getArch (e : Handle) (isCreate : Bool) (initial : Mask) (sh : Shared) (w : WM) (p : PackSt)
    (h : isCreate = false → initial = p.final → ∀ pi, (w.locOf e).arch = some pi → w.getArch p.final sh = (w, pi)) :
    packTarget e isCreate initial sh w p = w.getArch p.final sh := by
  cases isCreate with
  | true => rfl
  | false =>
    by_cases hne : initial = p.final
    · cases hl : (w.locOf e).arch with
      | none => exact packTarget_noarch e false initial sh w p hl
      | some pi => rw [packTarget_stay e initial sh w p pi hne hl, h rfl hne pi hl]
    · exact packTarget_ne e false initial sh w p hne

/-- the archetype with the looked-up key exists and keys are unique: `getArchetype` returns it, state unchanged -/
theorem getArch_own {w : WM} (hk : KeysOK w) (m : Mask) (sh : Shared) (pi : Nat) (hpi : pi < w.archs.length)
    (hm : (w.arch pi).mask = closedMask w.deps m) (hs : (w.arch pi).shared.data = sh.data) :
    w.getArch m sh = (w, pi) := by
  rcases getArch_cases w m sh with ⟨h1, hlt, hm', hs'⟩ | ⟨_, _, hnone⟩
  · exact Prod.ext h1 (hk.distinct _ _ hlt hpi (by rw [hm', hm]) (by rw [hs', hs]))
  · exact absurd ⟨hm, hs⟩ (findArch_none hnone pi hpi)

/-- on an entity whose archetype mask is closed, staying and looking the unchanged set up are the same -/
theorem packTarget_closed {w : WM} (hk : KeysOK w) (e : Handle) (isCreate : Bool) (initial : Mask) (sh : Shared)
    (p : PackSt) (pi : Nat) (hl : (w.locOf e).arch = some pi) (hpi : pi < w.archs.length)
    (hm : (w.arch pi).mask = initial) (hsh : (w.arch pi).shared = sh)
    (hcl : closedMask w.deps initial = initial) :
    packTarget e isCreate initial sh w p = w.getArch p.final sh := by
  apply packTarget_eq_getArch
  intro _ hfin pi' hl'
  rw [hl] at hl'; cases hl'
  exact getArch_own hk p.final sh pi hpi (by rw [← hfin, hcl, hm]) (by rw [hsh])

def packFinish (info : CompId → CompInfo) (e : Handle) (isCreate : Bool) (initial : Mask) (sh : Shared)
    (st : WM × PackSt × List Cb) : WM × List Cb :=
  let (w, p, cbs) := st
  if p.dead then (w, cbs) else
  let supplied := Mask.ofList (p.src.map (·.1))
  let stay : Option Nat := if isCreate || !(initial == p.final) then none else (w.locOf e).arch
  let (w, ti) := match stay with
    | some pi => (w, pi)
    | none => w.getArch p.final sh
  let moved : WM × List Cb :=
    if isCreate then w.archInsert info ti e supplied
    else
      let l := w.locOf e
      match l.arch with
      | some pi => if pi = ti || initial == p.final then (w, []) else
          match w.externalMove info ti e pi l.idx supplied with
          | some r => r
          | none => (w, [])
      | none => (w, [])
  let (w, cbs1) := moved
  let l' := w.locOf e
  let stale := (p.final.filter (fun c => p.replaced.contains c && initial.contains c)).filter
    (fun c => !(isCreate && supplied.contains c) && (w.arch ti).mask.contains c)
  let (w, cbs2) := stale.foldl (fun (acc : WM × List Cb) c =>
    let cbR := if (info c).callbacks then [Cb.remove c e] else []
    if supplied.contains c then (acc.1, acc.2 ++ cbR)
    else (packSetVal ti l'.idx acc.1 c (defaultVal info c), acc.2 ++ cbR ++ (if (info c).callbacks then [Cb.assign c e] else []))) (w, [])
  let (w, cbs3) := p.src.foldl (fun (acc : WM × List Cb) (cv : CompId × Val) =>
    if (w.arch ti).mask.contains cv.1 then
      (packSetVal ti l'.idx acc.1 cv.1 cv.2, acc.2 ++ (if (info cv.1).callbacks then [Cb.assign cv.1 e] else []))
    else acc) (w, [])
  (w, cbs ++ cbs1 ++ cbs2 ++ cbs3)

theorem applyPack_eq (info : CompId → CompInfo) (w : WM) (first : Cmd) (rest : List Cmd) :
    w.applyPack info (first :: rest) =
      match packStart w first with
      | none => (w, [])
      | some (w1, initial0, sh) =>
        packFinish info first.entity (isCreateCmd first) (packInit (isCreateCmd first) w1.deps initial0) sh
          ((if isCreateCmd first then rest else first :: rest).foldl
            (packStep info first.entity (isCreateCmd first))
            (w1, { final := packInit (isCreateCmd first) w1.deps initial0 }, [])) := by
  rfl


/-! ## fields no structural step writes -/

/-- the control fields: world id, dependencies, shared pool, lock depth, reserved-id counter, buffers -/
structure SameCtl (w w' : WM) : Prop where
  worldId : w'.worldId = w.worldId
  deps : w'.deps = w.deps
  pool : w'.pool = w.pool
  nextInst : w'.nextInst = w.nextInst
  lockDepth : w'.lockDepth = w.lockDepth
  nextEntityId : w'.nextEntityId = w.nextEntityId
  nthreads : w'.nthreads = w.nthreads
  buffers : w'.buffers = w.buffers
  temps : w'.temps = w.temps

theorem SameCtl.refl (w : WM) : SameCtl w w := ⟨rfl, rfl, rfl, rfl, rfl, rfl, rfl, rfl, rfl⟩

theorem SameCtl.trans {a b c : WM} (h₁ : SameCtl a b) (h₂ : SameCtl b c) : SameCtl a c :=
  ⟨h₂.worldId.trans h₁.worldId, h₂.deps.trans h₁.deps, h₂.pool.trans h₁.pool,
   h₂.nextInst.trans h₁.nextInst, h₂.lockDepth.trans h₁.lockDepth,
   h₂.nextEntityId.trans h₁.nextEntityId, h₂.nthreads.trans h₁.nthreads,
   h₂.buffers.trans h₁.buffers, h₂.temps.trans h₁.temps⟩

theorem SameTable.ctl {w w' : WM} (h : SameTable w w') : SameCtl w w' :=
  ⟨h.worldId, h.deps, h.pool, h.nextInst, h.lockDepth, h.nextEntityId, h.nthreads, h.buffers, h.temps⟩

theorem release_ctl (w : WM) (h : Handle) : SameCtl w (w.release h) := by
  unfold WM.release
  simp only
  split
  · exact ⟨rfl, rfl, rfl, rfl, rfl, rfl, rfl, rfl, rfl⟩
  · exact ⟨rfl, rfl, rfl, rfl, rfl, rfl, rfl, rfl, rfl⟩

theorem ensureId_ctl (w : WM) (id : Nat) : SameCtl w (w.ensureId id) :=
  ⟨rfl, rfl, rfl, rfl, rfl, rfl, rfl, rfl, rfl⟩

theorem destroyNowU_ctl (info : CompId → CompInfo) (w : WM) (h : Handle) :
    SameCtl w (w.destroyNowU info h).1 := by
  rw [destroyNowU_fst]
  split
  · cases (w.locOf h).arch with
    | none => exact release_ctl w h
    | some ai => exact (archRemove_sameTable info w ai _ []).ctl.trans (release_ctl _ h)
  · exact SameCtl.refl w

theorem archInsert_sameTable (info : CompId → CompInfo) (w : WM) (ai : Nat) (e : Handle) (skip : Mask) :
    SameTable w (w.archInsert info ai e skip).1 := by
  rcases archInsert_eq info w ai e skip with ⟨vals, heq, _⟩
  rw [heq]; exact insertRow_sameTable _ _ _ _

theorem externalMove_sameTable (info : CompId → CompInfo) (w : WM) (t : Nat) (e : Handle) (p i : Nat)
    (skip : Mask) (r : WM × List Cb) (h : w.externalMove info t e p i skip = some r) : SameTable w r.1 := by
  by_cases hne : t = p
  · subst hne; rw [externalMove_self] at h; cases h
  · rcases externalMove_eq info w t e p i skip hne with ⟨cbs, heq⟩
    rw [heq] at h; cases h
    exact (archRemove_sameTable info w p i _).trans (insertRow_sameTable _ _ _ _)

theorem packSetVal_sameTable (ti idx : Nat) (w : WM) (c : CompId) (v : Val) :
    SameTable w (packSetVal ti idx w c v) := by
  unfold packSetVal
  simp only
  split
  · exact SameTable.refl w
  · exact sameTable_setArch _ _ _

theorem packStep_ctl (info : CompId → CompInfo) (e : Handle) (isCreate : Bool)
    (acc : WM × PackSt × List Cb) (c : Cmd) : SameCtl acc.1 (packStep info e isCreate acc c).1 := by
  rcases acc with ⟨w, p, cbs⟩
  unfold packStep
  simp only
  split
  · exact SameCtl.refl w
  · cases c with
    | create _ _ _ => exact SameCtl.refl w
    | destroyNow _ =>
      simp only
      split
      · exact release_ctl w e
      · exact destroyNowU_ctl info w e
    | destroy h => exact ⟨rfl, rfl, rfl, rfl, rfl, rfl, rfl, rfl, rfl⟩
    | remove _ c =>
      simp only
      split
      · split <;> exact SameCtl.refl w
      · exact SameCtl.refl w
    | assign _ c v =>
      simp only
      split <;> exact SameCtl.refl w

theorem foldl_rel {α β : Type} (R : α → α → Prop) (hrefl : ∀ a, R a a)
    (htrans : ∀ a b c, R a b → R b c → R a c) (f : α → β → α) (hf : ∀ a b, R a (f a b)) :
    ∀ (l : List β) (a : α), R a (l.foldl f a) := by
  intro l
  induction l with
  | nil => intro a; exact hrefl a
  | cons b l ih => intro a; exact htrans _ _ _ (hf a b) (ih (f a b))

theorem packFold_ctl (info : CompId → CompInfo) (e : Handle) (isCreate : Bool) (l : List Cmd)
    (acc : WM × PackSt × List Cb) : SameCtl acc.1 (l.foldl (packStep info e isCreate) acc).1 :=
  foldl_rel (fun a b : WM × PackSt × List Cb => SameCtl a.1 b.1) (fun a => SameCtl.refl a.1)
    (fun _ _ _ h₁ h₂ => h₁.trans h₂) _ (packStep_ctl info e isCreate) l acc

/-- the state after `getArchetype` and the single move / insertion -/
def packMoved (info : CompId → CompInfo) (e : Handle) (isCreate : Bool) (initial : Mask) (sh : Shared)
    (w : WM) (p : PackSt) : WM × List Cb :=
  let g := packTarget e isCreate initial sh w p
  if isCreate then g.1.archInsert info g.2 e (Mask.ofList (p.src.map (·.1)))
  else
    match (g.1.locOf e).arch with
    | some pi => if pi = g.2 || initial == p.final then (g.1, []) else
        match g.1.externalMove info g.2 e pi (g.1.locOf e).idx (Mask.ofList (p.src.map (·.1))) with
        | some r => r
        | none => (g.1, [])
    | none => (g.1, [])

theorem packTarget_cases (e : Handle) (isCreate : Bool) (initial : Mask) (sh : Shared) (w : WM) (p : PackSt) :
    (isCreate = false ∧ initial = p.final ∧ ∃ pi, (w.locOf e).arch = some pi ∧
      packTarget e isCreate initial sh w p = (w, pi)) ∨
    packTarget e isCreate initial sh w p = w.getArch p.final sh := by
  cases isCreate with
  | true => exact Or.inr rfl
  | false =>
    by_cases hne : initial = p.final
    · cases hl : (w.locOf e).arch with
      | none => exact Or.inr (packTarget_noarch e false initial sh w p hl)
      | some pi => exact Or.inl ⟨rfl, hne, pi, rfl, packTarget_stay e initial sh w p pi hne hl⟩
    · exact Or.inr (packTarget_ne e false initial sh w p hne)

/-- an existing entity that stays in its archetype is not moved -/
theorem packMoved_stay (info : CompId → CompInfo) (e : Handle) (initial : Mask) (sh : Shared) (w : WM) (p : PackSt)
    (pi : Nat) (hl : (w.locOf e).arch = some pi) (ht : packTarget e false initial sh w p = (w, pi)) :
    packMoved info e false initial sh w p = (w, []) := by
  unfold packMoved
  simp only [ht, hl, Bool.false_eq_true, if_false, true_or, Bool.true_or, if_true, decide_true]

def packStale (isCreate : Bool) (initial : Mask) (p : PackSt) (supplied tmask : Mask) : List CompId :=
  (p.final.filter (fun c => p.replaced.contains c && initial.contains c)).filter
    (fun c => !(isCreate && supplied.contains c) && tmask.contains c)

def packF2 (info : CompId → CompInfo) (e : Handle) (supplied : Mask) (ti idx : Nat)
    (acc : WM × List Cb) (c : CompId) : WM × List Cb :=
  let cbR := if (info c).callbacks then [Cb.remove c e] else []
  if supplied.contains c then (acc.1, acc.2 ++ cbR)
  else (packSetVal ti idx acc.1 c (defaultVal info c),
        acc.2 ++ cbR ++ (if (info c).callbacks then [Cb.assign c e] else []))

def packF3 (info : CompId → CompInfo) (e : Handle) (tmask : Mask) (ti idx : Nat)
    (acc : WM × List Cb) (cv : CompId × Val) : WM × List Cb :=
  if tmask.contains cv.1 then
    (packSetVal ti idx acc.1 cv.1 cv.2, acc.2 ++ (if (info cv.1).callbacks then [Cb.assign cv.1 e] else []))
  else acc

/-- state after the stale-instance loop -/
def packW2 (info : CompId → CompInfo) (e : Handle) (isCreate : Bool) (initial : Mask) (sh : Shared)
    (w : WM) (p : PackSt) : WM :=
  let ti := (packTarget e isCreate initial sh w p).2
  let W1 := (packMoved info e isCreate initial sh w p).1
  let supplied := Mask.ofList (p.src.map (·.1))
  ((packStale isCreate initial p supplied (W1.arch ti).mask).foldl
    (packF2 info e supplied ti (W1.locOf e).idx) (W1, [])).1

/-- state component of `packFinish`: the move, then two loops of `packSetVal` on row `(ti, idx)` -/
theorem packFinish_fst (info : CompId → CompInfo) (e : Handle) (isCreate : Bool) (initial : Mask)
    (sh : Shared) (w : WM) (p : PackSt) (cbs : List Cb) :
    (packFinish info e isCreate initial sh (w, p, cbs)).1 =
      if p.dead then w else
        (p.src.foldl (packF3 info e ((packW2 info e isCreate initial sh w p).arch (packTarget e isCreate initial sh w p).2).mask
            (packTarget e isCreate initial sh w p).2 ((packMoved info e isCreate initial sh w p).1.locOf e).idx)
          (packW2 info e isCreate initial sh w p, [])).1 := by
  unfold packFinish packW2 packMoved
  simp only
  split
  · rfl
  · rfl

theorem packF2_fst (info : CompId → CompInfo) (e : Handle) (supplied : Mask) (ti idx : Nat)
    (acc : WM × List Cb) (c : CompId) :
    (packF2 info e supplied ti idx acc c).1 = acc.1 ∨
    (packF2 info e supplied ti idx acc c).1 = packSetVal ti idx acc.1 c (defaultVal info c) := by
  unfold packF2
  simp only
  split
  · exact Or.inl rfl
  · exact Or.inr rfl

theorem packF3_fst (info : CompId → CompInfo) (e : Handle) (tmask : Mask) (ti idx : Nat)
    (acc : WM × List Cb) (cv : CompId × Val) :
    (packF3 info e tmask ti idx acc cv).1 = acc.1 ∨
    (packF3 info e tmask ti idx acc cv).1 = packSetVal ti idx acc.1 cv.1 cv.2 := by
  unfold packF3
  split
  · exact Or.inr rfl
  · exact Or.inl rfl

theorem packTarget_sameTable (e : Handle) (isCreate : Bool) (initial : Mask) (sh : Shared) (w : WM) (p : PackSt) :
    SameTable w (packTarget e isCreate initial sh w p).1 := by
  unfold packTarget
  split
  · exact SameTable.refl w
  · exact getArch_sameTable w p.final sh

theorem packMoved_sameTable (info : CompId → CompInfo) (e : Handle) (isCreate : Bool) (initial : Mask)
    (sh : Shared) (w : WM) (p : PackSt) : SameTable w (packMoved info e isCreate initial sh w p).1 := by
  unfold packMoved
  simp only
  refine (packTarget_sameTable e isCreate initial sh w p).trans ?_
  split
  · exact archInsert_sameTable info _ _ _ _
  · split
    · split
      · exact SameTable.refl _
      · split
        · rename_i r hr; exact externalMove_sameTable info _ _ _ _ _ _ r hr
        · exact SameTable.refl _
    · exact SameTable.refl _

/-- a relation that holds along `packSetVal` and is reflexive/transitive holds along both loops -/
theorem packLoops_rel (R : WM → WM → Prop) (hrefl : ∀ a, R a a) (htrans : ∀ a b c, R a b → R b c → R a c)
    (hset : ∀ ti idx a c v, R a (packSetVal ti idx a c v))
    (info : CompId → CompInfo) (e : Handle) (isCreate : Bool) (initial : Mask) (sh : Shared) (w : WM)
    (p : PackSt) :
    R (packMoved info e isCreate initial sh w p).1 (packW2 info e isCreate initial sh w p) ∧
    ∀ tmask ti idx, R (packW2 info e isCreate initial sh w p)
      (p.src.foldl (packF3 info e tmask ti idx) (packW2 info e isCreate initial sh w p, [])).1 := by
  constructor
  · unfold packW2
    simp only
    exact foldl_rel (fun a b : WM × List Cb => R a.1 b.1) (fun a => hrefl a.1)
      (fun _ _ _ h₁ h₂ => htrans _ _ _ h₁ h₂)
      (packF2 info e (Mask.ofList (p.src.map (·.1))) (packTarget e isCreate initial sh w p).2
        ((packMoved info e isCreate initial sh w p).1.locOf e).idx)
      (fun a c => by
        rcases packF2_fst info e (Mask.ofList (p.src.map (·.1))) (packTarget e isCreate initial sh w p).2
          ((packMoved info e isCreate initial sh w p).1.locOf e).idx a c with h | h <;> rw [h]
        · exact hrefl _
        · exact hset _ _ _ _ _) _ ((packMoved info e isCreate initial sh w p).1, [])
  · intro tmask ti idx
    exact foldl_rel (fun a b : WM × List Cb => R a.1 b.1) (fun a => hrefl a.1)
      (fun _ _ _ h₁ h₂ => htrans _ _ _ h₁ h₂) _
      (fun a cv => by
        rcases packF3_fst info e tmask ti idx a cv with h | h <;> rw [h]
        · exact hrefl _
        · exact hset _ _ _ _ _) p.src (packW2 info e isCreate initial sh w p, [])

theorem packFinish_sameTable (info : CompId → CompInfo) (e : Handle) (isCreate : Bool) (initial : Mask)
    (sh : Shared) (st : WM × PackSt × List Cb) :
    SameTable st.1 (packFinish info e isCreate initial sh st).1 := by
  rcases st with ⟨w, p, cbs⟩
  rw [packFinish_fst]
  split
  · exact SameTable.refl w
  · have := packLoops_rel SameTable SameTable.refl (fun _ _ _ h₁ h₂ => h₁.trans h₂)
      (fun ti idx a c v => packSetVal_sameTable ti idx a c v) info e isCreate initial sh w p
    exact ((packMoved_sameTable info e isCreate initial sh w p).trans this.1).trans (this.2 _ _ _)

theorem packFinish_ctl (info : CompId → CompInfo) (e : Handle) (isCreate : Bool) (initial : Mask)
    (sh : Shared) (st : WM × PackSt × List Cb) :
    SameCtl st.1 (packFinish info e isCreate initial sh st).1 :=
  (packFinish_sameTable info e isCreate initial sh st).ctl

theorem packStart_ctl (w : WM) (first : Cmd) (r : WM × Mask × Shared) (h : packStart w first = some r) :
    SameCtl w r.1 := by
  unfold packStart at h
  cases first with
  | create e m sh =>
    simp only at h; cases h
    exact ⟨rfl, rfl, rfl, rfl, rfl, rfl, rfl, rfl, rfl⟩
  | destroyNow e => simp only at h; split at h; cases h; split at h; cases h; cases h; exact SameCtl.refl w
  | destroy e => simp only at h; split at h; cases h; split at h; cases h; cases h; exact SameCtl.refl w
  | remove e c => simp only at h; split at h; cases h; split at h; cases h; cases h; exact SameCtl.refl w
  | assign e c v => simp only at h; split at h; cases h; split at h; cases h; cases h; exact SameCtl.refl w

/-- `applyCommandPack` never touches the buffers, the lock depth, the dependency table, … -/
theorem applyPack_ctl (info : CompId → CompInfo) (w : WM) (pack : List Cmd) :
    SameCtl w (w.applyPack info pack).1 := by
  cases pack with
  | nil => exact SameCtl.refl w
  | cons first rest =>
    rw [applyPack_eq]
    cases hs : packStart w first with
    | none => exact SameCtl.refl w
    | some r =>
      rcases r with ⟨w1, initial0, sh⟩
      simp only
      exact ((packStart_ctl w first _ hs).trans
        (packFold_ctl info first.entity (isCreateCmd first) _ (w1, { final := packInit (isCreateCmd first) w1.deps initial0 }, []))).trans
        (packFinish_ctl info _ _ _ _ _)

end Mustache.Proofs.Rows

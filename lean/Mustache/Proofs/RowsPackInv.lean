import Mustache.Proofs.RowsPack
/-!
# `applyCommandPack` preserves the row/location invariant and the archetype keys
-/
namespace Mustache.Proofs.Rows
open Mustache.Model

theorem rowsOK_congr {w w' : WM} (ha : w'.archs = w.archs) (hl : w'.locs = w.locs) (hok : RowsOK w) :
    RowsOK w' := by
  have harch : ∀ ai, w'.arch ai = w.arch ai := fun ai => by rw [arch_def, ha]; rfl
  constructor
  · intro ai i r hr; rw [harch] at hr ⊢; exact hok.vals ai i r hr
  · intro ai i r hr; rw [harch] at hr; rw [hl]; exact hok.loc ai i r hr

theorem keysOK_congr {w w' : WM} (ha : w'.archs = w.archs) (hk : KeysOK w) : KeysOK w' :=
  (KeysSame.of_archs ha).keysOK hk

/-- what a pack needs from the state it is applied to: a deferred creation brings a non-null handle
whose id owns no row (C01: reserved ids are not live) and a sorted mask; any other pack targets a
handle whose location (if any) is its own row (C01/C02 link) -/
def PackOK (w : WM) : List Cmd → Prop
  | [] => True
  | (.create e m _) :: _ => e.id ≠ nullId ∧ NotInRow w e.id ∧ MaskOk m
  | first :: _ => Located w first.entity

structure PackInv (w1 : WM) (e : Handle) (isCreate : Bool) (acc : WM × PackSt × List Cb) : Prop where
  ok : RowsOK acc.1
  keys : KeysSame w1 acc.1
  fin : MaskOk acc.2.1.final
  same : (isCreate = true ∨ acc.2.1.dead = false) → acc.1.archs = w1.archs ∧ acc.1.locs = w1.locs
  slen : isCreate = true → e.id < acc.1.slots.length

theorem release_slots_length (w : WM) (h : Handle) (hlt : h.id < w.slots.length) :
    (w.release h).slots.length = w.slots.length := by
  simp [WM.release, hlt]

theorem packStep_inv (info : CompId → CompInfo) (w1 : WM) (e : Handle) (isCreate : Bool)
    (acc : WM × PackSt × List Cb) (c : Cmd) (h : PackInv w1 e isCreate acc) :
    PackInv w1 e isCreate (packStep info e isCreate acc c) := by
  rcases acc with ⟨w, p, cbs⟩
  unfold packStep
  simp only
  split
  · exact h
  · rename_i hdead
    have hd : p.dead = false := by simpa using hdead
    have hsame := h.same (Or.inr hd)
    cases c with
    | create _ _ _ => exact h
    | destroyNow _ =>
      simp only
      split
      · rename_i hc
        have hlt := h.slen hc
        have hr := release_archs_locs w e hlt
        exact ⟨rowsOK_release h.ok e hlt, h.keys.trans (KeysSame.of_archs hr.1), h.fin,
          fun _ => ⟨hr.1.trans hsame.1, hr.2.1.trans hsame.2⟩,
          fun _ => by rw [release_slots_length w e hlt]; exact hlt⟩
      · rename_i hc
        refine ⟨rowsOK_destroyNowU info h.ok e, h.keys.trans (keysSame_destroyNowU info w e), h.fin, ?_, ?_⟩
        · rintro (h1 | h1)
          · exact absurd h1 hc
          · cases h1
        · intro h1; exact absurd h1 hc
    | destroy x =>
      simp only
      exact ⟨@rowsOK_congr w _ rfl rfl h.ok, h.keys.trans (KeysSame.of_archs rfl), h.fin,
        fun hh => h.same hh, h.slen⟩
    | remove _ c =>
      simp only
      split
      · split
        · exact ⟨h.ok, h.keys, maskOk_closedMask _ (maskOk_erase h.fin c), fun _ => hsame, h.slen⟩
        · exact ⟨h.ok, h.keys, maskOk_closedMask _ (maskOk_erase h.fin c), fun _ => hsame, h.slen⟩
      · exact h
    | assign _ c v =>
      simp only
      split
      · exact ⟨h.ok, h.keys, h.fin, fun _ => hsame, h.slen⟩
      · exact ⟨h.ok, h.keys, maskOk_closedMask _ (maskOk_insert h.fin c), fun _ => hsame, h.slen⟩

theorem packFold_inv (info : CompId → CompInfo) (w1 : WM) (e : Handle) (isCreate : Bool) (l : List Cmd)
    (acc : WM × PackSt × List Cb) (h : PackInv w1 e isCreate acc) :
    PackInv w1 e isCreate (l.foldl (packStep info e isCreate) acc) :=
  foldl_inv (PackInv w1 e isCreate) _ (fun a c ha => packStep_inv info w1 e isCreate a c ha) l acc h

/-! ## the finishing phase -/

theorem packSetVal_inv (ti idx : Nat) (w : WM) (c : CompId) (v : Val) :
    (RowsOK w → RowsOK (packSetVal ti idx w c v)) ∧ (KeysOK w → KeysOK (packSetVal ti idx w c v)) := by
  unfold packSetVal
  simp only
  split
  · exact ⟨id, id⟩
  · rename_i k _
    exact ⟨fun h => rowsOK_setCell h ti idx k v, fun h => (setCell_keysSame w ti idx k v).keysOK h⟩

/-- row invariant and keys through `packFinish`, given what the fold guarantees about the state -/
theorem packFinish_inv (info : CompId → CompInfo) (e : Handle) (isCreate : Bool) (initial : Mask)
    (sh : Shared) (w : WM) (p : PackSt) (cbs : List Cb) (hok : RowsOK w) (hk : KeysOK w)
    (hfin : MaskOk p.final)
    (hcreate : isCreate = true → p.dead = false →
      e.id ≠ nullId ∧ e.id < w.locs.length ∧ NotInRow w e.id)
    (hloc : isCreate = false → p.dead = false → Located w e) :
    RowsOK (packFinish info e isCreate initial sh (w, p, cbs)).1 ∧
    KeysOK (packFinish info e isCreate initial sh (w, p, cbs)).1 := by
  rw [packFinish_fst]
  split
  · exact ⟨hok, hk⟩
  · rename_i hdead
    have hd : p.dead = false := by simpa using hdead
    -- the move
    have hmoved : RowsOK (packMoved info e isCreate initial sh w p).1 ∧
        KeysOK (packMoved info e isCreate initial sh w p).1 := by
      rcases packTarget_cases e isCreate initial sh w p with ⟨hc, _, pi, hl, ht⟩ | hT
      · subst hc; rw [packMoved_stay info e initial sh w p pi hl ht]; exact ⟨hok, hk⟩
      unfold packMoved
      simp only
      rw [hT]
      have hokg := rowsOK_getArch hok p.final sh
      have hkg := keysOK_getArch hk p.final sh hfin
      have hlt := getArch_idx_lt w p.final sh
      split
      · rename_i hc
        rcases hcreate hc hd with ⟨hn, hl, hnr⟩
        rcases archInsert_eq info (w.getArch p.final sh).1 (w.getArch p.final sh).2 e
          (Mask.ofList (p.src.map (·.1))) with ⟨vals, heq, hlen⟩
        rw [heq]
        exact ⟨rowsOK_insertRow hokg _ e vals hlt hn (by rw [getArch_locs]; exact hl)
          (getArch_notInRow p.final sh hnr) hlen, (insertRow_keysSame _ _ e vals hlt).keysOK hkg⟩
      · rename_i hc
        have hc' : isCreate = false := by simpa using hc
        have hl := hloc hc' hd
        cases hla : ((w.getArch p.final sh).1.locOf e).arch with
        | none => exact ⟨hokg, hkg⟩
        | some pi =>
          simp only
          split
          · exact ⟨hokg, hkg⟩
          · rename_i hguard
            have hne : (w.getArch p.final sh).2 ≠ pi := by
              intro heq; apply hguard; simp [heq]
            have hlocEq : (w.getArch p.final sh).1.locOf e = w.locOf e := by
              unfold WM.locOf; rw [getArch_locs]
            rw [hlocEq] at hla ⊢
            rcases hl pi hla with ⟨prow, hr, he⟩
            have hr1 : ((w.getArch p.final sh).1.arch pi).rows[(w.locOf e).idx]? = some prow := by
              rw [getArch_rows]; exact hr
            rcases externalMove_spec info hokg (w.getArch p.final sh).2 e pi (w.locOf e).idx
              (Mask.ofList (p.src.map (·.1))) hne hlt ⟨prow, hr1, he⟩ with ⟨w', cbs', heq, hs⟩
            rw [heq]
            exact ⟨hs.ok, (KeysSame.mk hs.alen hs.mask).keysOK hkg⟩
    have hloops := packLoops_rel (fun a b => (RowsOK a → RowsOK b) ∧ (KeysOK a → KeysOK b))
      (fun _ => ⟨id, id⟩) (fun _ _ _ h₁ h₂ => ⟨fun h => h₂.1 (h₁.1 h), fun h => h₂.2 (h₁.2 h)⟩)
      (fun ti idx a c v => packSetVal_inv ti idx a c v) info e isCreate initial sh w p
    have h2 := hloops.1
    have h3 := hloops.2 ((packW2 info e isCreate initial sh w p).arch (packTarget e isCreate initial sh w p).2).mask
      (packTarget e isCreate initial sh w p).2 ((packMoved info e isCreate initial sh w p).1.locOf e).idx
    exact ⟨h3.1 (h2.1 hmoved.1), h3.2 (h2.2 hmoved.2)⟩

/-! ## the start -/

/-- the state in which a deferred creation's pack starts: slot installed, tables grown to cover the id -/
def startCreate (w : WM) (e : Handle) : WM :=
  { w.ensureId e.id with slots := (w.ensureId e.id).slots.set e.id ⟨e.id, e.ver⟩ }

theorem startCreate_facts (w : WM) (e : Handle) :
    (startCreate w e).archs = w.archs ∧
    (∀ id, id < w.locs.length → (startCreate w e).locs[id]? = w.locs[id]?) ∧
    e.id < (startCreate w e).locs.length ∧ e.id < (startCreate w e).slots.length := by
  refine ⟨rfl, ?_, ?_, ?_⟩
  · intro id hlt
    simp only [startCreate, WM.ensureId]
    exact List.getElem?_append_left hlt
  · simp only [startCreate, WM.ensureId, List.length_append, List.length_replicate]; omega
  · simp only [startCreate, WM.ensureId, List.length_set, List.length_append, List.length_replicate]; omega

theorem packStart_create (w : WM) (e : Handle) (m : Mask) (sh : Shared) :
    packStart w (.create e m sh) = some (startCreate w e, m, sh) := rfl

theorem packStart_other (w : WM) (first : Cmd) (h : isCreateCmd first = false) :
    packStart w first =
      if !w.isValid first.entity then none else
      match (w.locOf first.entity).arch with
      | none => none
      | some ai => some (w, (w.arch ai).mask, (w.arch ai).shared) := by
  cases first with
  | create e m sh => simp [isCreateCmd] at h
  | destroyNow e => rfl
  | destroy e => rfl
  | remove e c => rfl
  | assign e c v => rfl

/-- `applyCommandPack` preserves the row/location invariant and the archetype keys -/
theorem applyPack_inv (info : CompId → CompInfo) {w : WM} (hok : RowsOK w) (hk : KeysOK w)
    (pack : List Cmd) (hp : PackOK w pack) :
    RowsOK (w.applyPack info pack).1 ∧ KeysOK (w.applyPack info pack).1 := by
  cases pack with
  | nil => exact ⟨hok, hk⟩
  | cons first rest =>
    rw [applyPack_eq]
    cases hs : packStart w first with
    | none => exact ⟨hok, hk⟩
    | some r =>
      rcases r with ⟨w1, initial0, sh⟩
      simp only
      -- facts about the start state
      have hstart : RowsOK w1 ∧ KeysOK w1 ∧ MaskOk initial0 ∧
          (isCreateCmd first = true → first.entity.id ≠ nullId ∧ first.entity.id < w1.locs.length ∧
            NotInRow w1 first.entity.id ∧ first.entity.id < w1.slots.length) ∧
          (isCreateCmd first = false → Located w1 first.entity) := by
        cases hic : isCreateCmd first with
        | true =>
          cases first with
          | create e m sh' =>
            rw [packStart_create] at hs
            cases hs
            rcases hp with ⟨hn, hnr, hm⟩
            have hf := startCreate_facts w e
            have harch : ∀ ai, (startCreate w e).arch ai = w.arch ai := fun ai => rfl
            refine ⟨⟨?_, ?_⟩, (KeysSame.of_archs hf.1).keysOK hk, hm, ?_, ?_⟩
            · intro ai i r hr; rw [harch] at hr ⊢; exact hok.vals ai i r hr
            · intro ai i r hr
              rw [harch] at hr
              rw [hf.2.1 r.ent.id (hok.id_lt hr)]
              exact hok.loc ai i r hr
            · intro _
              exact ⟨hn, hf.2.2.1, fun ai i r hr => hnr ai i r (by rw [harch] at hr; exact hr), hf.2.2.2⟩
            · intro hc; exact Bool.noConfusion hc
          | destroyNow e => simp [isCreateCmd] at hic
          | destroy e => simp [isCreateCmd] at hic
          | remove e c => simp [isCreateCmd] at hic
          | assign e c v => simp [isCreateCmd] at hic
        | false =>
          rw [packStart_other w first hic] at hs
          have hp' : Located w first.entity := by
            cases first with
            | create e m sh' => simp [isCreateCmd] at hic
            | destroyNow e => exact hp
            | destroy e => exact hp
            | remove e c => exact hp
            | assign e c v => exact hp
          split at hs
          · cases hs
          · cases hla : (w.locOf first.entity).arch with
            | none => rw [hla] at hs; cases hs
            | some ai =>
              rw [hla] at hs; cases hs
              rcases hp' ai hla with ⟨prow, hr, _⟩
              exact ⟨hok, hk, hk.masks ai (lt_of_row hr), fun hc => Bool.noConfusion hc, fun _ => hp'⟩
      rcases hstart with ⟨hok1, hk1, hm0, hcr, hlc⟩
      have hinv0 : PackInv w1 first.entity (isCreateCmd first)
          (w1, { final := packInit (isCreateCmd first) w1.deps initial0 }, []) :=
        ⟨hok1, KeysSame.refl w1, by unfold packInit; split; exact maskOk_closedMask _ hm0; exact hm0,
          fun _ => ⟨rfl, rfl⟩, fun hc => (hcr hc).2.2.2⟩
      have hinv := packFold_inv info w1 first.entity (isCreateCmd first)
        (if isCreateCmd first = true then rest else first :: rest) _ hinv0
      generalize (List.foldl (packStep info first.entity (isCreateCmd first))
        (w1, { final := packInit (isCreateCmd first) w1.deps initial0 }, [])
        (if isCreateCmd first = true then rest else first :: rest)) = st at hinv
      rcases st with ⟨w2, p, cbs⟩
      have harchs : (isCreateCmd first = true ∨ p.dead = false) → ∀ ai, w2.arch ai = w1.arch ai :=
        fun hh ai => by rw [arch_def, (hinv.same hh).1]; rfl
      apply packFinish_inv info first.entity (isCreateCmd first) _ sh w2 p cbs hinv.ok
        (hinv.keys.keysOK hk1) hinv.fin
      · intro hc _
        rcases hcr hc with ⟨hn, hl, hnr, _⟩
        have hsm := hinv.same (Or.inl hc)
        refine ⟨hn, by rw [hsm.2]; exact hl, ?_⟩
        intro ai i r hr
        rw [harchs (Or.inl hc)] at hr
        exact hnr ai i r hr
      · intro hc hd
        have hsm := hinv.same (Or.inr hd)
        have hl := hlc hc
        intro pi hpi
        have hlocEq : w2.locOf first.entity = w1.locOf first.entity := by
          unfold WM.locOf; rw [hsm.2]
        rw [hlocEq] at hpi ⊢
        rcases hl pi hpi with ⟨prow, hr, he⟩
        exact ⟨prow, by rw [harchs (Or.inr hd)]; exact hr, he⟩

/-! ## the flush -/

/-- apply a list of packs in order, accumulating the callbacks -/
def applyPacks (info : CompId → CompInfo) (acc : WM × List Cb) (ps : List (List Cmd)) : WM × List Cb :=
  ps.foldl (fun (acc : WM × List Cb) p =>
    let (w', c) := acc.1.applyPack info p
    (w', acc.2 ++ c)) acc

theorem applyPacks_cons (info : CompId → CompInfo) (acc : WM × List Cb) (p : List Cmd) (ps : List (List Cmd)) :
    applyPacks info acc (p :: ps) =
      applyPacks info ((acc.1.applyPack info p).1, acc.2 ++ (acc.1.applyPack info p).2) ps := rfl

/-- `onUnlock` = ONE left fold of `applyPack` over `packs buffers[0] ++ packs buffers[1] ++ …`, started
from the state with all buffers emptied; finally the temporaries are dropped -/
theorem flush_eq (info : CompId → CompInfo) (w : WM) :
    w.flush info =
      (let r := applyPacks info ({ w with buffers := w.buffers.map (fun _ => []) }, [])
                  (w.buffers.map packs).flatten
       ({ r.1 with temps := [] }, r.2)) := by
  unfold WM.flush applyPacks
  simp only
  generalize ({ w with buffers := w.buffers.map (fun _ => []) }, ([] : List Cb)) = acc
  generalize w.buffers = bufs
  induction bufs generalizing acc with
  | nil => rfl
  | cons b bs ih =>
    simp only [List.foldl_cons, List.map_cons, List.flatten_cons, List.foldl_append]
    exact ih _

theorem applyPacks_ctl (info : CompId → CompInfo) (acc : WM × List Cb) (ps : List (List Cmd)) :
    SameCtl acc.1 (applyPacks info acc ps).1 := by
  induction ps generalizing acc with
  | nil => exact SameCtl.refl _
  | cons p ps ih =>
    rw [applyPacks_cons]
    exact (applyPack_ctl info acc.1 p).trans
      (ih ((acc.1.applyPack info p).1, acc.2 ++ (acc.1.applyPack info p).2))

/-- every pack meets its precondition in the state it is applied to -/
inductive PacksOK (info : CompId → CompInfo) : WM → List (List Cmd) → Prop
  | nil (w : WM) : PacksOK info w []
  | cons (w : WM) (p : List Cmd) (ps : List (List Cmd)) :
      PackOK w p → PacksOK info (w.applyPack info p).1 ps → PacksOK info w (p :: ps)

theorem applyPacks_inv (info : CompId → CompInfo) (acc : WM × List Cb) (ps : List (List Cmd))
    (hok : RowsOK acc.1) (hk : KeysOK acc.1) (hp : PacksOK info acc.1 ps) :
    RowsOK (applyPacks info acc ps).1 ∧ KeysOK (applyPacks info acc ps).1 := by
  induction ps generalizing acc with
  | nil => exact ⟨hok, hk⟩
  | cons p ps ih =>
    rw [applyPacks_cons]
    cases hp with
    | cons _ _ _ h1 h2 =>
      have := applyPack_inv info hok hk p h1
      exact ih _ this.1 this.2 h2

/-- the state the flush starts from -/
def detached (w : WM) : WM := { w with buffers := w.buffers.map (fun _ => []) }

theorem flush_inv (info : CompId → CompInfo) {w : WM} (hok : RowsOK w) (hk : KeysOK w)
    (hp : PacksOK info (detached w) (w.buffers.map packs).flatten) :
    RowsOK (w.flush info).1 ∧ KeysOK (w.flush info).1 := by
  rw [flush_eq]
  simp only
  have h0 : RowsOK (detached w) := @rowsOK_congr w _ rfl rfl hok
  have hk0 : KeysOK (detached w) := (KeysSame.of_archs (w := w) (w' := detached w) rfl).keysOK hk
  have := applyPacks_inv info (detached w, []) _ h0 hk0 hp
  refine ⟨rowsOK_congr ?_ ?_ this.1, keysOK_congr ?_ this.2⟩ <;> rfl

/-- after the flush every buffer is empty, the temporaries are gone, the lock depth is untouched -/
theorem flush_ctl (info : CompId → CompInfo) (w : WM) :
    (w.flush info).1.buffers = w.buffers.map (fun _ => []) ∧ (w.flush info).1.temps = [] ∧
    (w.flush info).1.lockDepth = w.lockDepth ∧ (w.flush info).1.deps = w.deps ∧
    (w.flush info).1.worldId = w.worldId := by
  rw [flush_eq]
  simp only
  have := applyPacks_ctl info (detached w, []) (w.buffers.map packs).flatten
  exact ⟨this.buffers, trivial, this.lockDepth, this.deps, this.worldId⟩

end Mustache.Proofs.Rows

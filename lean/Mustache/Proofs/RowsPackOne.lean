import Mustache.Proofs.RowsPackInv
/-!
# One-command packs mean what the command means when issued unlocked
-/
namespace Mustache.Proofs.Rows
open Mustache.Model

theorem isCreateCmd_destroyNow (e : Handle) : isCreateCmd (.destroyNow e) = false := rfl
theorem isCreateCmd_remove (e : Handle) (c : CompId) : isCreateCmd (.remove e c) = false := rfl
theorem isCreateCmd_assign (e : Handle) (c : CompId) (v : Val) : isCreateCmd (.assign e c v) = false := rfl

/-- `[destroyNow e]` applied as a pack is exactly the unlocked `destroyNow e` — state and callbacks —
for every handle that is invalid or located -/
theorem applyPack_destroyNow (info : CompId → CompInfo) (w : WM) (e : Handle)
    (h : w.isValid e = false ∨ (w.locOf e).arch.isSome = true) :
    w.applyPack info [.destroyNow e] = w.destroyNowU info e := by
  rw [applyPack_eq, packStart_other w _ (isCreateCmd_destroyNow e)]
  by_cases hv : w.isValid e = true
  · have hsome : (w.locOf e).arch.isSome = true := by
      rcases h with h | h
      · rw [hv] at h; cases h
      · exact h
    cases hla : (w.locOf e).arch with
    | none => rw [hla] at hsome; cases hsome
    | some ai =>
      simp only [Cmd.entity, hv, Bool.not_true, Bool.false_eq_true, if_false, hla, isCreateCmd_destroyNow,
        List.foldl_cons, List.foldl_nil]
      unfold packStep packFinish
      simp
  · simp only [Bool.not_eq_true] at hv
    simp only [Cmd.entity, hv, Bool.not_false, if_true]
    simp [WM.destroyNowU, hv]

/-- `getArchetype` depends on the mask only through its closure -/
theorem getArch_congr (w : WM) (m m' : Mask) (sh : Shared)
    (h : closedMask w.deps m = closedMask w.deps m') : w.getArch m sh = w.getArch m' sh := by
  unfold WM.getArch
  unfold closedMask at h
  simp only [h]

/-- an archetype with the requested key exists: `getArchetype` returns the state unchanged -/
theorem getArch_found (w : WM) (m : Mask) (sh : Shared) (pi : Nat) (hpi : pi < w.archs.length)
    (hm : (w.arch pi).mask = closedMask w.deps m) (hs : (w.arch pi).shared.data = sh.data) :
    (w.getArch m sh).1 = w := by
  rcases getArch_cases w m sh with ⟨h, _⟩ | ⟨_, _, hnone⟩
  · exact h
  · exact absurd ⟨hm, hs⟩ (findArch_none hnone pi hpi)

/-- `[remove e c]` applied as a pack = the unlocked `removeComponent<c>(e)`, state and callbacks, on a
valid located entity. C13 facts used: the entity's archetype mask is closed (`hclosed`), the closure
is idempotent on the reduced mask (`hidem`); `hout`: the removal is effective (the closure of the
reduced mask does not bring `c` back). -/
theorem applyPack_remove (info : CompId → CompInfo) (w : WM) (t : Nat) (e : Handle) (c : CompId) (pi : Nat)
    (hl : w.isLocked = false) (hv : w.isValid e = true) (hla : (w.locOf e).arch = some pi)
    (hpi : pi < w.archs.length)
    (hclosed : closedMask w.deps (w.arch pi).mask = (w.arch pi).mask)
    (hidem : closedMask w.deps (closedMask w.deps (Mask.erase (w.arch pi).mask c)) =
      closedMask w.deps (Mask.erase (w.arch pi).mask c))
    (hout : c ∈ (w.arch pi).mask → c ∉ closedMask w.deps (Mask.erase (w.arch pi).mask c)) :
    w.applyPack info [.remove e c] = w.removeComp info t e c := by
  rw [applyPack_eq, packStart_other w _ (isCreateCmd_remove e c)]
  simp only [Cmd.entity, hv, Bool.not_true, Bool.false_eq_true, if_false, hla, isCreateCmd_remove,
    List.foldl_cons, List.foldl_nil, packInit_existing]
  unfold WM.removeComp
  simp only [hl, Bool.false_eq_true, if_false, hv, Bool.not_true, hla]
  by_cases hc : c ∈ (w.arch pi).mask
  · -- effective removal
    have hcc : (w.arch pi).mask.contains c = true := by simpa using hc
    have hnc : (closedMask w.deps (Mask.erase (w.arch pi).mask c)).contains c = false := by
      simpa using hout hc
    have hg : w.getArch (closedMask w.deps (Mask.erase (w.arch pi).mask c)) (w.arch pi).shared =
        w.getArch (Mask.erase (w.arch pi).mask c) (w.arch pi).shared := getArch_congr w _ _ _ hidem
    have hloc : (w.getArch (Mask.erase (w.arch pi).mask c) (w.arch pi).shared).1.locOf e = w.locOf e := by
      unfold WM.locOf; rw [getArch_locs]
    have hne : ((w.arch pi).mask == closedMask w.deps (Mask.erase (w.arch pi).mask c)) = false := by
      rw [beq_eq_false_iff_ne]
      intro heq
      rw [← heq] at hnc
      rw [hcc] at hnc; cases hnc
    have hstale : ∀ (tm : Mask), List.filter (fun a => decide (a ∈ tm) &&
        (decide (a ∈ Mask.insert [] c) && decide (a ∈ (w.arch pi).mask)))
          (closedMask w.deps (Mask.erase (w.arch pi).mask c)) = [] := by
      intro tm
      rw [List.filter_eq_nil_iff]
      intro x hx hf
      simp only [Bool.and_eq_true, decide_eq_true_eq] at hf
      have hxc : x = c := by
        rcases (mem_insert [] c x).mp hf.2.1 with h | h
        · exact h
        · cases h
      subst hxc
      exact hout hc hx
    unfold packStep packFinish
    simp only [hcc, hnc, Bool.false_eq_true, if_false, if_true, hg, hloc, hla, hne, Bool.or_false,
      Bool.false_or, Bool.not_false, List.map_nil, List.filter_nil, List.foldl_nil, Mask.ofList]
    by_cases hti : pi = (w.getArch (Mask.erase (w.arch pi).mask c) (w.arch pi).shared).2
    · simp [hti.symm, externalMove_self, hstale]
    · cases hmove : (w.getArch (Mask.erase (w.arch pi).mask c) (w.arch pi).shared).1.externalMove info
          (w.getArch (Mask.erase (w.arch pi).mask c) (w.arch pi).shared).2 e pi (w.locOf e).idx [] with
      | none => simp [hti, hstale]
      | some r => simp [hti, hstale]
  · -- the component is absent: nothing happens
    have hcc : (w.arch pi).mask.contains c = false := by simpa using hc
    have hfound := getArch_found w (w.arch pi).mask (w.arch pi).shared pi hpi hclosed.symm rfl
    have hg2 : (w.getArch (w.arch pi).mask (w.arch pi).shared) =
        (w, (w.getArch (w.arch pi).mask (w.arch pi).shared).2) := Prod.ext hfound rfl
    unfold packStep packFinish
    simp only [hcc, Bool.false_eq_true, if_false, Bool.not_false, if_true]
    rw [hg2]
    have hf : ∀ l : Mask, List.filter (fun _ => false) l = [] := fun l => by
      induction l with
      | nil => rfl
      | cons x xs ih => simp [List.filter]
    simp [hla, hf]

/-- the afterAssign callbacks `externalMove` fires for the freshly constructed components -/
def moveCbs (info : CompId → CompInfo) (w : WM) (t : Nat) (e : Handle) (p : Nat) (skip : Mask) : List Cb :=
  ((w.arch t).mask.filter (fun c => !(w.arch p).mask.contains c && (info c).callbacks && !skip.contains c)).map
    (Cb.assign · e)

theorem externalMove_eq2 (info : CompId → CompInfo) (w : WM) (t : Nat) (e : Handle) (p i : Nat) (skip : Mask)
    (hne : t ≠ p) :
    w.externalMove info t e p i skip =
      some (insertRow (w.archRemove info p i (w.arch t).mask).1 t e (moveVals info w t p i skip),
        moveCbs info w t e p skip ++ (w.archRemove info p i (w.arch t).mask).2) := by
  unfold WM.externalMove
  rw [if_neg hne]
  simp only [archRemove_setArch_comm info w t p i _ _ hne]
  refine congrArg some (Prod.ext ?_ rfl)
  simp only
  unfold insertRow moveVals
  rw [archRemove_arch_ne info w p t i _ hne]
  rfl

/-- `externalMove` looks at the skip set only for the components the source archetype lacks -/
theorem externalMove_skip_congr (info : CompId → CompInfo) (w : WM) (t : Nat) (e : Handle) (p i : Nat)
    (skip skip' : Mask)
    (h : ∀ c' ∈ (w.arch t).mask, c' ∉ (w.arch p).mask → skip.contains c' = skip'.contains c') :
    w.externalMove info t e p i skip = w.externalMove info t e p i skip' := by
  by_cases hne : t = p
  · subst hne; rw [externalMove_self, externalMove_self]
  · rw [externalMove_eq2 info w t e p i skip hne, externalMove_eq2 info w t e p i skip' hne]
    have hvals : moveVals info w t p i skip = moveVals info w t p i skip' := by
      unfold moveVals
      apply List.map_congr_left
      intro c' hc'
      cases hidx : (w.arch p).mask.indexOf? c' with
      | some k => rfl
      | none =>
        have hnm : c' ∉ (w.arch p).mask := fun hm => by
          rw [(indexOf?_of_mem hm).1] at hidx; cases hidx
        simp only [h c' hc' hnm]
    have hcbs : moveCbs info w t e p skip = moveCbs info w t e p skip' := by
      unfold moveCbs
      congr 1
      apply List.filter_congr
      intro c' hc'
      by_cases hm : c' ∈ (w.arch p).mask
      · simp [hm]
      · rw [h c' hc' hm]
    rw [hvals, hcbs]

theorem externalMove_keysSame (info : CompId → CompInfo) (w : WM) (t : Nat) (e : Handle) (p i : Nat)
    (skip : Mask) (r : WM × List Cb) (h : w.externalMove info t e p i skip = some r)
    (ht : t < w.archs.length) : KeysSame w r.1 := by
  by_cases hne : t = p
  · subst hne; rw [externalMove_self] at h; cases h
  · rcases externalMove_eq info w t e p i skip hne with ⟨cbs, heq⟩
    rw [heq] at h; cases h
    exact (archRemove_keysSame info w p i _).trans
      (insertRow_keysSame _ t e _ (by rw [(archRemove_lengths info w p i _).1]; exact ht))

/-- `[assign e c v]` (with `v` the value the locked `assign<c>(e, tok)` records) applied as a pack =
the unlocked `assign<c>(e, tok)`: same state, same callbacks. For a valid located entity that does
not have `c` yet. C13 facts used: the entity's archetype mask is closed (`hclosed`), the closure is
idempotent on the widened mask (`hidem`). -/
theorem applyPack_assign (info : CompId → CompInfo) (w : WM) (t : Nat) (e : Handle) (c : CompId) (tok : Nat)
    (pi : Nat) (hl : w.isLocked = false) (hv : w.isValid e = true) (hla : (w.locOf e).arch = some pi)
    (hpi : pi < w.archs.length)
    (_hclosed : closedMask w.deps (w.arch pi).mask = (w.arch pi).mask)
    (hidem : closedMask w.deps (closedMask w.deps (Mask.insert (w.arch pi).mask c)) =
      closedMask w.deps (Mask.insert (w.arch pi).mask c))
    (hnew : c ∉ (w.arch pi).mask) :
    w.applyPack info [.assign e c (storedOf info c (some tok))] =
      ((w.assign info t e c (some tok)).1, (w.assign info t e c (some tok)).2.2) ∧
    (w.assign info t e c (some tok)).2.1 = .ok := by
  -- the archetype both paths look up
  have hg : w.getArch (closedMask w.deps (Mask.insert (w.arch pi).mask c)) (w.arch pi).shared =
      w.getArch (Mask.insert (w.arch pi).mask c) (w.arch pi).shared := getArch_congr w _ _ _ hidem
  have hkey := getArch_key w (Mask.insert (w.arch pi).mask c) (w.arch pi).shared
  have hcm : c ∈ closedMask w.deps (Mask.insert (w.arch pi).mask c) :=
    mem_closedMask_of_mem _ _ _ ((mem_insert _ _ _).mpr (Or.inl rfl))
  have harchpi := getArch_arch_lt w (Mask.insert (w.arch pi).mask c) (w.arch pi).shared pi hpi
  have hti : (w.getArch (Mask.insert (w.arch pi).mask c) (w.arch pi).shared).2 ≠ pi := by
    intro heq
    have := hkey.1
    rw [heq, harchpi] at this
    rw [this] at hnew
    exact hnew hcm
  have hloc : (w.getArch (Mask.insert (w.arch pi).mask c) (w.arch pi).shared).1.locOf e = w.locOf e := by
    unfold WM.locOf; rw [getArch_locs]
  have hne : ((w.arch pi).mask == closedMask w.deps (Mask.insert (w.arch pi).mask c)) = false := by
    rw [beq_eq_false_iff_ne]
    intro heq
    rw [heq] at hnew
    exact hnew hcm
  -- the two moves agree
  have hskip := externalMove_skip_congr info (w.getArch (Mask.insert (w.arch pi).mask c) (w.arch pi).shared).1
    (w.getArch (Mask.insert (w.arch pi).mask c) (w.arch pi).shared).2 e pi (w.locOf e).idx
    (Mask.insert [] c) (Mask.insert (w.arch pi).mask c) (by
      intro c' _ hc'
      rw [harchpi] at hc'
      have h1 : (Mask.insert [] c).contains c' = decide (c' = c) := by
        by_cases hcc : c' = c
        · subst hcc; simp [Mask.insert]
        · simp [Mask.insert, hcc]
      have h2 : (Mask.insert (w.arch pi).mask c).contains c' = decide (c' = c) := by
        by_cases hcc : c' = c
        · subst hcc
          have : c' ∈ Mask.insert (w.arch pi).mask c' := (mem_insert _ _ _).mpr (Or.inl rfl)
          simpa using this
        · have : c' ∉ Mask.insert (w.arch pi).mask c := fun hm => by
            rcases (mem_insert _ _ _).mp hm with h | h
            · exact hcc h
            · exact hc' h
          simp [this, hcc]
      rw [h1, h2])
  rcases externalMove_eq info (w.getArch (Mask.insert (w.arch pi).mask c) (w.arch pi).shared).1
    (w.getArch (Mask.insert (w.arch pi).mask c) (w.arch pi).shared).2 e pi (w.locOf e).idx
    (Mask.insert (w.arch pi).mask c) hti with ⟨cbs, hmove⟩
  generalize hr : insertRow ((w.getArch (Mask.insert (w.arch pi).mask c) (w.arch pi).shared).1.archRemove info pi
    (w.locOf e).idx ((w.getArch (Mask.insert (w.arch pi).mask c) (w.arch pi).shared).1.arch
      (w.getArch (Mask.insert (w.arch pi).mask c) (w.arch pi).shared).2).mask).1
    (w.getArch (Mask.insert (w.arch pi).mask c) (w.arch pi).shared).2 e
    (moveVals info (w.getArch (Mask.insert (w.arch pi).mask c) (w.arch pi).shared).1
      (w.getArch (Mask.insert (w.arch pi).mask c) (w.arch pi).shared).2 pi (w.locOf e).idx
      (Mask.insert (w.arch pi).mask c)) = w2 at hmove
  have hks := externalMove_keysSame info _ _ e pi (w.locOf e).idx _ (w2, cbs) hmove
    (getArch_idx_lt w _ _)
  have hmask2 : (w2.arch (w.getArch (Mask.insert (w.arch pi).mask c) (w.arch pi).shared).2).mask =
      closedMask w.deps (Mask.insert (w.arch pi).mask c) := by
    rw [(hks.key _).1]; exact hkey.1
  have hpc : (w.arch pi).mask.contains c = false := by simpa using hnew
  constructor
  · rw [applyPack_eq, packStart_other w _ (isCreateCmd_assign e c _)]
    simp only [Cmd.entity, hv, Bool.not_true, Bool.false_eq_true, if_false, hla, isCreateCmd_assign,
      List.foldl_cons, List.foldl_nil, packInit_existing]
    unfold WM.assign
    simp only [hl, Bool.false_eq_true, if_false, hla]
    unfold packStep packFinish
    simp only [hpc, Bool.false_eq_true, if_false, hg, hloc, hla, hne, Bool.or_false, Bool.false_or, Bool.not_false,
      List.filter_nil,
      List.nil_append, List.map_cons, List.map_nil, Mask.ofList, List.foldl_cons, List.foldl_nil,
      Option.isSome_some, if_true, hskip, hmove, hmask2]
    have hf : ∀ l : Mask, List.filter (fun _ => false) l = [] := fun l => by
      induction l with
      | nil => rfl
      | cons x xs ih => simp [List.filter]
    simp [hti.symm, hf, packSetVal, hmask2, storedOf, (indexOf?_of_mem hcm).1, hcm]
    rfl
  · unfold WM.assign
    simp only [hl, Bool.false_eq_true, if_false, hla, Option.isSome_some, if_true, hmove]

end Mustache.Proofs.Rows

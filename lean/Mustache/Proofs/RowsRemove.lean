import Mustache.Proofs.RowsBasic
/-!
# `Archetype::remove` (swap-remove) keeps the row/location invariant and every other row

One lemma about `(rows.set idx last).dropLast` for every `idx < |rows|` carries the three cases
(last / first / middle row). `RemoveSpec` is what the rest of the development uses.
-/
namespace Mustache.Proofs.Rows
open Mustache.Model

/-- the swap-remove on the row list, for every position -/
theorem swap_getElem? (rows : List Row) (idx j : Nat) (x : Row) :
    ((rows.set idx x).dropLast)[j]? =
      if j < rows.length - 1 then (if idx = j then some x else rows[j]?) else none := by
  rw [List.getElem?_dropLast, List.length_set, List.getElem?_set]
  by_cases hj : j < rows.length - 1
  · simp only [hj, if_true]
    by_cases hij : idx = j
    · subst hij
      have : idx < rows.length := by omega
      simp [this]
    · simp [hij]
  · simp [hj]

/-- what a removal of the row `row` at `(ai, idx)` guarantees about the new state `w'` -/
structure RemoveSpec (w w' : WM) (ai idx : Nat) (row : Row) : Prop where
  same : SameTable w w'
  alen : w'.archs.length = w.archs.length
  llen : w'.locs.length = w.locs.length
  mask : ∀ aj, (w'.arch aj).mask = (w.arch aj).mask ∧ (w'.arch aj).shared = (w.arch aj).shared
  other : ∀ aj, aj ≠ ai → w'.arch aj = w.arch aj
  back : ∀ (aj j : Nat) (r : Row), (w'.arch aj).rows[j]? = some r →
    r.ent.id ≠ row.ent.id ∧ (∃ j0 : Nat, (w.arch aj).rows[j0]? = some r) ∧
      w'.locs[r.ent.id]? = some ⟨some aj, j⟩
  fwd : ∀ (aj j0 : Nat) (r : Row), (w.arch aj).rows[j0]? = some r → r.ent.id ≠ row.ent.id →
    ∃ j : Nat, (w'.arch aj).rows[j]? = some r
  gone : w'.locs[row.ent.id]? = some ⟨none, noIdx⟩
  len : (w'.arch ai).rows.length = (w.arch ai).rows.length - 1
  /-- locations of ids that own no row and are not the removed one are untouched -/
  locFrame : ∀ id, id ≠ row.ent.id → NotInRow w id → w'.locs[id]? = w.locs[id]?

theorem archRemove_none (info : CompId → CompInfo) (w : WM) (ai idx : Nat) (sk : Mask)
    (h : (w.arch ai).rows[idx]? = none) : w.archRemove info ai idx sk = (w, []) := by
  unfold WM.archRemove
  simp only [h]

theorem archRemove_last (info : CompId → CompInfo) (w : WM) (ai idx : Nat) (sk : Mask) (row : Row)
    (h : (w.arch ai).rows[idx]? = some row) (hl : idx = (w.arch ai).rows.length - 1) :
    (w.archRemove info ai idx sk).1 =
      (w.setArch ai { w.arch ai with rows := (w.arch ai).rows.dropLast }).setLoc row.ent none noIdx := by
  unfold WM.archRemove
  simp only [h]
  rw [if_pos hl]; rfl

theorem archRemove_mid (info : CompId → CompInfo) (w : WM) (ai idx : Nat) (sk : Mask) (row : Row)
    (h : (w.arch ai).rows[idx]? = some row) (hl : idx ≠ (w.arch ai).rows.length - 1) :
    (w.archRemove info ai idx sk).1 =
      ((w.setArch ai { w.arch ai with rows :=
          ((w.arch ai).rows.set idx ((w.arch ai).rows.getD ((w.arch ai).rows.length - 1) default)).dropLast
        }).setLoc row.ent none noIdx).setLoc
        ((w.arch ai).rows.getD ((w.arch ai).rows.length - 1) default).ent (some ai) idx := by
  unfold WM.archRemove
  simp only [h]
  rw [if_neg hl]; rfl

theorem archRemove_cbs (info : CompId → CompInfo) (w : WM) (ai idx : Nat) (sk : Mask) (row : Row)
    (h : (w.arch ai).rows[idx]? = some row) :
    (w.archRemove info ai idx sk).2 =
      ((w.arch ai).mask.filter (fun c => (info c).callbacks && !sk.contains c)).map (Cb.remove · row.ent) := by
  unfold WM.archRemove
  simp only [h]
  split <;> rfl

theorem removeSpec_last {w : WM} (hok : RowsOK w) (ai idx : Nat) (row : Row)
    (h : (w.arch ai).rows[idx]? = some row) (hl : idx = (w.arch ai).rows.length - 1) :
    RemoveSpec w ((w.setArch ai { w.arch ai with rows := (w.arch ai).rows.dropLast }).setLoc
      row.ent none noIdx) ai idx row := by
  have hai : ai < w.archs.length := lt_of_row h
  have hidx : idx < (w.arch ai).rows.length := idx_lt_of_row h
  have hrn : row.ent.id ≠ nullId := (hok.loc ai idx row h).1
  have hrlt : row.ent.id < w.locs.length := hok.id_lt h
  -- the rows of archetype `ai` afterwards
  have hrows : ∀ j r, (((w.setArch ai { w.arch ai with rows := (w.arch ai).rows.dropLast }).setLoc
      row.ent none noIdx).arch ai).rows[j]? = some r ↔
      (j < (w.arch ai).rows.length - 1 ∧ (w.arch ai).rows[j]? = some r) := by
    intro j r
    rw [arch_setLoc, arch_setArch_same _ _ _ hai]
    simp only [List.getElem?_dropLast]
    by_cases hj : j < (w.arch ai).rows.length - 1 <;> simp [hj]
  have hoth : ∀ aj, aj ≠ ai → ((w.setArch ai { w.arch ai with rows := (w.arch ai).rows.dropLast }).setLoc
      row.ent none noIdx).arch aj = w.arch aj := by
    intro aj hne; rw [arch_setLoc, arch_setArch_ne _ _ _ _ hne]
  refine ⟨(sameTable_setArch _ _ _).trans (sameTable_setLoc _ _ _ _), ?_, ?_, ?_, hoth, ?_, ?_, ?_, ?_, ?_⟩
  · simp [archs_setLoc, archs_length_setArch]
  · simp [locs_length_setLoc, locs_setArch]
  · intro aj
    by_cases hj : aj = ai
    · subst hj; rw [arch_setLoc, arch_setArch_same _ _ _ hai]; exact ⟨rfl, rfl⟩
    · rw [hoth aj hj]; exact ⟨rfl, rfl⟩
  · intro aj j r hr
    have hold : ∃ j0, (w.arch aj).rows[j0]? = some r ∧ (aj = ai → j0 < (w.arch ai).rows.length - 1) ∧ j0 = j := by
      by_cases hj : aj = ai
      · subst hj
        have := (hrows j r).mp hr
        exact ⟨j, this.2, fun _ => this.1, rfl⟩
      · rw [hoth aj hj] at hr; exact ⟨j, hr, fun h => absurd h hj, rfl⟩
    rcases hold with ⟨j0, hr0, hlt, rfl⟩
    have hne : r.ent.id ≠ row.ent.id := by
      intro hid
      have := hok.unique hr0 h hid
      have h2 := hlt this.1
      omega
    refine ⟨hne, ⟨j0, hr0⟩, ?_⟩
    rw [locs_setLoc_get _ _ _ _ _ hrn, if_neg (Ne.symm hne)]
    exact (hok.loc aj j0 r hr0).2
  · intro aj j0 r hr hne
    by_cases hj : aj = ai
    · subst hj
      refine ⟨j0, (hrows j0 r).mpr ⟨?_, hr⟩⟩
      have hj0 : j0 < (w.arch aj).rows.length := idx_lt_of_row hr
      have : j0 ≠ idx := by
        intro e; subst e; rw [h] at hr; cases hr; exact hne rfl
      omega
    · exact ⟨j0, by rw [hoth aj hj]; exact hr⟩
  · rw [locs_setLoc_get _ _ _ _ _ hrn]; simp [locs_setArch, hrlt]
  · rw [arch_setLoc, arch_setArch_same _ _ _ hai]; simp
  · intro id hne _
    rw [locs_setLoc_get _ _ _ _ _ hrn, if_neg (Ne.symm hne)]; rfl

theorem removeSpec_mid {w : WM} (hok : RowsOK w) (ai idx : Nat) (row : Row)
    (h : (w.arch ai).rows[idx]? = some row) (hl : idx ≠ (w.arch ai).rows.length - 1) :
    RemoveSpec w (((w.setArch ai { w.arch ai with rows :=
          ((w.arch ai).rows.set idx ((w.arch ai).rows.getD ((w.arch ai).rows.length - 1) default)).dropLast
        }).setLoc row.ent none noIdx).setLoc
        ((w.arch ai).rows.getD ((w.arch ai).rows.length - 1) default).ent (some ai) idx) ai idx row := by
  have hai : ai < w.archs.length := lt_of_row h
  have hidx : idx < (w.arch ai).rows.length := idx_lt_of_row h
  have hrn : row.ent.id ≠ nullId := (hok.loc ai idx row h).1
  have hrlt : row.ent.id < w.locs.length := hok.id_lt h
  generalize hlast : (w.arch ai).rows.getD ((w.arch ai).rows.length - 1) default = lastRow
  have hlastAt : (w.arch ai).rows[(w.arch ai).rows.length - 1]? = some lastRow := by
    rw [← hlast, List.getD_eq_getElem?_getD]
    have : (w.arch ai).rows.length - 1 < (w.arch ai).rows.length := by omega
    rw [List.getElem?_eq_getElem this]; rfl
  have hln : lastRow.ent.id ≠ nullId := (hok.loc _ _ _ hlastAt).1
  have hllt : lastRow.ent.id < w.locs.length := hok.id_lt hlastAt
  have hlr : lastRow.ent.id ≠ row.ent.id := by
    intro hid
    have := hok.unique hlastAt h hid
    exact hl this.2.symm
  have hrows : ∀ j r, ((((w.setArch ai { w.arch ai with rows := ((w.arch ai).rows.set idx lastRow).dropLast
        }).setLoc row.ent none noIdx).setLoc lastRow.ent (some ai) idx).arch ai).rows[j]? = some r ↔
      (j < (w.arch ai).rows.length - 1 ∧ (if idx = j then lastRow = r else (w.arch ai).rows[j]? = some r)) := by
    intro j r
    rw [arch_setLoc, arch_setLoc, arch_setArch_same _ _ _ hai]
    simp only [swap_getElem?]
    by_cases hj : j < (w.arch ai).rows.length - 1
    · by_cases hij : idx = j <;> simp [hj, hij]
    · simp [hj]
  have hoth : ∀ aj, aj ≠ ai → (((w.setArch ai { w.arch ai with rows :=
        ((w.arch ai).rows.set idx lastRow).dropLast }).setLoc row.ent none noIdx).setLoc lastRow.ent
        (some ai) idx).arch aj = w.arch aj := by
    intro aj hne; rw [arch_setLoc, arch_setLoc, arch_setArch_ne _ _ _ _ hne]
  have hlocs : ∀ id, (((w.setArch ai { w.arch ai with rows :=
        ((w.arch ai).rows.set idx lastRow).dropLast }).setLoc row.ent none noIdx).setLoc lastRow.ent
        (some ai) idx).locs[id]? =
      if lastRow.ent.id = id then some ⟨some ai, idx⟩
      else if row.ent.id = id then some ⟨none, noIdx⟩ else w.locs[id]? := by
    intro id
    rw [locs_setLoc_get _ _ _ _ _ hln, locs_length_setLoc, locs_setLoc_get _ _ _ _ _ hrn, locs_setArch]
    by_cases h1 : lastRow.ent.id = id
    · subst h1; simp [hllt]
    · by_cases h2 : row.ent.id = id
      · subst h2; simp [h1, hrlt]
      · simp [h1, h2]
  refine ⟨((sameTable_setArch _ _ _).trans (sameTable_setLoc _ _ _ _)).trans (sameTable_setLoc _ _ _ _),
    ?_, ?_, ?_, hoth, ?_, ?_, ?_, ?_, ?_⟩
  · simp [archs_setLoc, archs_length_setArch]
  · simp [locs_length_setLoc, locs_setArch]
  · intro aj
    by_cases hj : aj = ai
    · subst hj; rw [arch_setLoc, arch_setLoc, arch_setArch_same _ _ _ hai]; exact ⟨rfl, rfl⟩
    · rw [hoth aj hj]; exact ⟨rfl, rfl⟩
  · intro aj j r hr
    rw [hlocs]
    by_cases hj : aj = ai
    · subst hj
      have hjr := (hrows j r).mp hr
      by_cases hij : idx = j
      · subst hij
        rw [if_pos rfl] at hjr
        have : lastRow = r := hjr.2
        subst this
        exact ⟨hlr, ⟨_, hlastAt⟩, by simp⟩
      · rw [if_neg hij] at hjr
        have hne : r.ent.id ≠ row.ent.id := by
          intro hid
          exact hij (hok.unique hjr.2 h hid).2.symm
        have hne2 : lastRow.ent.id ≠ r.ent.id := by
          intro hid
          have := (hok.unique hlastAt hjr.2 hid).2
          omega
        refine ⟨hne, ⟨j, hjr.2⟩, ?_⟩
        rw [if_neg hne2, if_neg (Ne.symm hne)]
        exact (hok.loc aj j r hjr.2).2
    · rw [hoth aj hj] at hr
      have hne : r.ent.id ≠ row.ent.id := fun hid => hj (hok.unique hr h hid).1
      have hne2 : lastRow.ent.id ≠ r.ent.id := fun hid => hj (hok.unique hlastAt hr hid).1.symm
      refine ⟨hne, ⟨j, hr⟩, ?_⟩
      rw [if_neg hne2, if_neg (Ne.symm hne)]
      exact (hok.loc aj j r hr).2
  · intro aj j0 r hr hne
    by_cases hj : aj = ai
    · subst hj
      have hj0 : j0 < (w.arch aj).rows.length := idx_lt_of_row hr
      have hj0i : j0 ≠ idx := by
        intro e; subst e; rw [h] at hr; cases hr; exact hne rfl
      by_cases hj0l : j0 = (w.arch aj).rows.length - 1
      · subst hj0l
        rw [hlastAt] at hr; cases hr
        exact ⟨idx, (hrows idx lastRow).mpr ⟨by omega, by simp⟩⟩
      · exact ⟨j0, (hrows j0 r).mpr ⟨by omega, by rw [if_neg (Ne.symm hj0i)]; exact hr⟩⟩
    · exact ⟨j0, by rw [hoth aj hj]; exact hr⟩
  · rw [hlocs, if_neg hlr, if_pos rfl]
  · rw [arch_setLoc, arch_setLoc, arch_setArch_same _ _ _ hai]; simp
  · intro id hne hnot
    rw [hlocs, if_neg (fun e => hnot _ _ _ hlastAt e), if_neg (Ne.symm hne)]

/-- `Archetype::remove` of an existing row, every position -/
theorem archRemove_spec (info : CompId → CompInfo) {w : WM} (hok : RowsOK w) (ai idx : Nat) (sk : Mask)
    (row : Row) (h : (w.arch ai).rows[idx]? = some row) :
    RemoveSpec w (w.archRemove info ai idx sk).1 ai idx row := by
  by_cases hl : idx = (w.arch ai).rows.length - 1
  · rw [archRemove_last info w ai idx sk row h hl]; exact removeSpec_last hok ai idx row h hl
  · rw [archRemove_mid info w ai idx sk row h hl]; exact removeSpec_mid hok ai idx row h hl

/-! ## consequences of `RemoveSpec` -/

theorem RemoveSpec.rowsOK {w w' : WM} {ai idx : Nat} {row : Row} (hs : RemoveSpec w w' ai idx row)
    (hok : RowsOK w) : RowsOK w' := by
  constructor
  · intro aj j r hr
    rcases (hs.back aj j r hr).2.1 with ⟨j0, h0⟩
    rw [(hs.mask aj).1]; exact hok.vals aj j0 r h0
  · intro aj j r hr
    rcases hs.back aj j r hr with ⟨_, ⟨j0, h0⟩, hl⟩
    exact ⟨(hok.loc aj j0 r h0).1, hl⟩

theorem RemoveSpec.notInRow {w w' : WM} {ai idx : Nat} {row : Row} (hs : RemoveSpec w w' ai idx row) :
    NotInRow w' row.ent.id :=
  fun aj j r hr => (hs.back aj j r hr).1

/-- an id that owned no row before owns none afterwards -/
theorem RemoveSpec.notInRow_of {w w' : WM} {ai idx : Nat} {row : Row} (hs : RemoveSpec w w' ai idx row)
    {id : Nat} (hn : NotInRow w id) : NotInRow w' id := by
  intro aj j r hr
  rcases (hs.back aj j r hr).2.1 with ⟨j0, h0⟩
  exact hn aj j0 r h0

/-- frame: every other row survives in its archetype and its location points at it -/
theorem RemoveSpec.keeps {w w' : WM} {ai idx : Nat} {row : Row} (hs : RemoveSpec w w' ai idx row)
    {aj j0 : Nat} {r : Row} (hr : (w.arch aj).rows[j0]? = some r) (hne : r.ent.id ≠ row.ent.id) :
    ∃ j, (w'.arch aj).rows[j]? = some r ∧ w'.locs[r.ent.id]? = some ⟨some aj, j⟩ := by
  rcases hs.fwd aj j0 r hr hne with ⟨j, hj⟩
  exact ⟨j, hj, (hs.back aj j r hj).2.2⟩

/-- the invariant survives `Archetype::remove`, whatever the arguments -/
theorem rowsOK_archRemove (info : CompId → CompInfo) {w : WM} (hok : RowsOK w) (ai idx : Nat) (sk : Mask) :
    RowsOK (w.archRemove info ai idx sk).1 := by
  cases h : (w.arch ai).rows[idx]? with
  | none => rw [archRemove_none info w ai idx sk h]; exact hok
  | some row => exact (archRemove_spec info hok ai idx sk row h).rowsOK hok

end Mustache.Proofs.Rows

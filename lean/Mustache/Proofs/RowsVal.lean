import Mustache.Proofs.RowsOps
/-!
# Values of the entity an operation is applied to: `assign`, `removeComponent`
-/
namespace Mustache.Proofs.Rows
open Mustache.Model

/-- the value a moved row holds for a component of the target mask -/
def carried (info : CompId → CompInfo) (pm : Mask) (prow : Row) (skip : Mask) (c : CompId) : Val :=
  match pm.indexOf? c with
  | some i => prow.vals.getD i none
  | none =>
    if skip.contains c then (match (info c).fixed with | some v => some v | none => none)
    else defaultVal info c

theorem carry_get (info : CompId → CompInfo) (tm pm : Mask) (prow : Row) (skip : Mask) (c : CompId)
    (h : c ∈ tm) :
    (carry info tm pm prow skip).getD (tm.idxOf c) none = carried info pm prow skip c := by
  have hi := indexOf?_of_mem h
  unfold carry
  rw [List.getD_eq_getElem?_getD, List.getElem?_map, hi.2.2]
  rfl

theorem carry_length (info : CompId → CompInfo) (tm pm : Mask) (prow : Row) (skip : Mask) :
    (carry info tm pm prow skip).length = tm.length := by simp [carry]

/-- a component the source row had keeps its value -/
theorem carried_of_mem (info : CompId → CompInfo) (pm : Mask) (prow : Row) (skip : Mask) (c : CompId)
    (h : c ∈ pm) : carried info pm prow skip c = prow.vals.getD (pm.idxOf c) none := by
  unfold carried; rw [(indexOf?_of_mem h).1]

/-- a component the source row did not have is default-constructed (or left raw when a constructor
argument follows) -/
theorem carried_of_not_mem (info : CompId → CompInfo) (pm : Mask) (prow : Row) (skip : Mask) (c : CompId)
    (h : c ∉ pm) : carried info pm prow skip c =
      if skip.contains c then (match (info c).fixed with | some v => some v | none => none)
      else defaultVal info c := by
  unfold carried; rw [indexOf?_of_not_mem h]

/-! ## reading the operand after a move -/

theorem Moved.isValid {w w2 : WM} {e : Handle} {ti : Nat} {vals : List Val} (hm : Moved w w2 e ti vals)
    (h : Handle) : w2.isValid h = w.isValid h := hm.same.isValid h

theorem Moved.getComp {w w2 : WM} {e : Handle} {ti : Nat} {vals : List Val} (hm : Moved w w2 e ti vals)
    (hv : w.isValid e = true) (c : CompId) :
    w2.getComp e c = match (w2.arch ti).mask.indexOf? c with
      | none => none
      | some ci => some (vals.getD ci none) := by
  rcases hm.here with ⟨n, hl, hr⟩
  rw [getComp_of_loc hl hr c, hm.isValid, hv]; rfl

theorem Moved.hasComp {w w2 : WM} {e : Handle} {ti : Nat} {vals : List Val} (hm : Moved w w2 e ti vals)
    (hv : w.isValid e = true) (c : CompId) :
    w2.hasComp e c = (w2.arch ti).mask.contains c := by
  rcases hm.here with ⟨n, hl, _⟩
  rw [hasComp_of_loc hl c, hm.isValid, hv]; rfl

theorem Moved.archOf {w w2 : WM} {e : Handle} {ti : Nat} {vals : List Val} (hm : Moved w w2 e ti vals)
    (hv : w.isValid e = true) : w2.archOf e = some ti := by
  rcases hm.here with ⟨n, hl, _⟩
  rw [archOf_of_loc hl, hm.isValid, hv]; rfl

theorem setCell_step {w : WM} (hok : RowsOK w) (ai idx ci : Nat) (v : Val) (id : Nat)
    (hown : ∀ r0, (w.arch ai).rows[idx]? = some r0 → r0.ent.id = id) :
    Step w (setCell w ai idx ci v) id :=
  ⟨rowsOK_setCell hok ai idx ci v,
   OpFrame.of_sameTable (setCell_keepsOthers hok ai idx ci v id hown) (setCell_sameTable w ai idx ci v),
   by rw [setCell_locs]; exact Nat.le_refl _, fun _ _ h => setCell_notInRow ai idx ci v h,
   fun hk => (setCell_keysSame w ai idx ci v).keysOK hk⟩

/-- overwriting one value of the moved row -/
theorem Moved.setCell {w w2 : WM} {e : Handle} {ti : Nat} {vals : List Val} (hm : Moved w w2 e ti vals)
    (ci : Nat) (v : Val) :
    Moved w (setCell w2 ti (w2.locOf e).idx ci v) e ti (vals.set ci v) := by
  rcases hm.here with ⟨n, hl, hr⟩
  have hidx : (w2.locOf e).idx = n := by rw [hl]
  rw [hidx]
  refine ⟨hm.step.trans (setCell_step hm.step.ok ti n ci v e.id ?_),
    hm.same.trans (setCell_sameTable _ _ _ _ _), ⟨n, ?_, ?_⟩⟩
  · intro r0 h0; rw [hr] at h0; cases h0; rfl
  · unfold WM.locOf; rw [setCell_locs]; exact hl
  · rw [setCell_here hr]

/-! ## `assign` -/

theorem assign_step (info : CompId → CompInfo) {w : WM} (hok : RowsOK w) (t : Nat) (e : Handle)
    (c : CompId) (v : Option Nat) (hloc : Located w e) : Step w (w.assign info t e c v).1 e.id := by
  by_cases hl : w.isLocked = true
  · unfold WM.assign
    simp only [hl, if_true]
    split <;> exact Step.of_same hok _ rfl rfl (fun _ => rfl)
  · simp only [Bool.not_eq_true] at hl
    cases hla : (w.locOf e).arch with
    | none =>
      unfold WM.assign
      simp only [hl, Bool.false_eq_true, if_false, hla]
      exact Step.refl hok _
    | some pi =>
      rcases hloc pi hla with ⟨prow, hr, he⟩
      have hla' : w.locOf e = ⟨some pi, (w.locOf e).idx⟩ := by
        cases hh : w.locOf e with
        | mk a i => rw [hh] at hla; simp at hla; subst hla; rfl
      rcases assign_unlocked info hok t e c v hl pi prow hla' hr he _ rfl with
        ⟨_, heq⟩ | ⟨_, w2, cbs, _, hm, _, _, _, heq⟩
      · rw [heq]; exact getArch_step hok _ _ _ (fun hk => maskOk_insert (hk.masks pi (lt_of_row hr)) c)
      · rw [heq]
        cases v with
        | none => exact hm.step
        | some tok =>
          cases (closedMask w.deps (Mask.insert (w.arch pi).mask c)).indexOf? c with
          | none => exact hm.step
          | some ci => exact (hm.setCell ci _).step

/-- `assign<C>(e, tok)` unlocked, result `ok`: reading `C` yields the token just written (the constant
for an empty type); every other component `e` had keeps its value; the component set is the closure
of the old set plus `C` -/
theorem assign_read (info : CompId → CompInfo) {w : WM} (hok : RowsOK w) (t : Nat) (e : Handle)
    (c : CompId) (tok : Nat) (hl : w.isLocked = false) (hv : w.isValid e = true) {pi idx : Nat}
    (hrow : InRowAt w e pi idx) (hres : (w.assign info t e c (some tok)).2.1 = .ok) :
    (w.assign info t e c (some tok)).1.getComp e c = some (storedOf info c (some tok)) ∧
    (∀ c', c' ≠ c → w.hasComp e c' = true →
      (w.assign info t e c (some tok)).1.getComp e c' = w.getComp e c') ∧
    (∀ x, (w.assign info t e c (some tok)).1.hasComp e x =
      (closedMask w.deps (Mask.insert (w.arch pi).mask c)).contains x) ∧
    (w.assign info t e c (some tok)).1.isValid e = true := by
  rcases hrow with ⟨prow, hr, he⟩
  have hloc := hok.locOf hr
  rw [he] at hloc
  have hidx : (w.locOf e).idx = idx := by rw [hloc]
  have hla' : w.locOf e = ⟨some pi, (w.locOf e).idx⟩ := by rw [hidx]; exact hloc
  have hr' : (w.arch pi).rows[(w.locOf e).idx]? = some prow := by rw [hidx]; exact hr
  rcases assign_unlocked info hok t e c (some tok) hl pi prow hla' hr' he _ rfl with
    ⟨_, heq⟩ | ⟨_, w2, cbs, _, hm, hmask, _, _, heq⟩
  · rw [heq] at hres; cases hres
  · rw [heq]
    have hcm : c ∈ closedMask w.deps (Mask.insert (w.arch pi).mask c) :=
      mem_closedMask_of_mem _ _ _ ((mem_insert _ _ _).mpr (Or.inl rfl))
    have hci := indexOf?_of_mem hcm
    simp only [hci.1]
    have hm' := hm.setCell ((closedMask w.deps (Mask.insert (w.arch pi).mask c)).idxOf c)
      (storedOf info c (some tok))
    have hmask' : ((setCell w2 (w.getArch (Mask.insert (w.arch pi).mask c) (w.arch pi).shared).2
        (w2.locOf e).idx ((closedMask w.deps (Mask.insert (w.arch pi).mask c)).idxOf c)
        (storedOf info c (some tok))).arch
        (w.getArch (Mask.insert (w.arch pi).mask c) (w.arch pi).shared).2).mask =
        closedMask w.deps (Mask.insert (w.arch pi).mask c) := by
      rw [(setCell_mask _ _ _ _ _ _).1]; exact hmask
    refine ⟨?_, ?_, ?_, ?_⟩
    · rw [hm'.getComp hv, hmask', hci.1]
      simp only
      rw [List.getD_eq_getElem?_getD, List.getElem?_set_self (by rw [carry_length]; exact hci.2.1)]
      rfl
    · intro c' hne hhas
      rw [hasComp_of_loc hloc, hv] at hhas
      have hc'p : c' ∈ (w.arch pi).mask := by simpa using hhas
      have hc'm : c' ∈ closedMask w.deps (Mask.insert (w.arch pi).mask c) :=
        mem_closedMask_of_mem _ _ _ ((mem_insert _ _ _).mpr (Or.inr hc'p))
      rw [hm'.getComp hv, hmask', (indexOf?_of_mem hc'm).1]
      simp only
      rw [List.getD_eq_getElem?_getD, List.getElem?_set_ne (idxOf_ne hcm hc'm (Ne.symm hne)),
        ← List.getD_eq_getElem?_getD, carry_get info _ _ _ _ c' hc'm, carried_of_mem info _ _ _ _ hc'p,
        getComp_of_loc hloc hr c', hv, (indexOf?_of_mem hc'p).1]
      rfl
    · intro x; rw [hm'.hasComp hv, hmask']
    · rw [hm'.isValid]; exact hv

/-! ## typed `removeComponent` -/

/-- unlocked `removeComponent<C>` on a valid located entity that has `C`: either nothing happens
(the closure puts `C` back: dependent of a present component) or the entity moves -/
theorem removeComp_unlocked (info : CompId → CompInfo) {w : WM} (hok : RowsOK w) (t : Nat) (e : Handle)
    (c : CompId) (hl : w.isLocked = false) (hv : w.isValid e = true) {pi idx : Nat} {prow : Row}
    (hr : (w.arch pi).rows[idx]? = some prow) (he : prow.ent = e)
    (hc : c ∈ (w.arch pi).mask) :
    ((w.getArch (Mask.erase (w.arch pi).mask c) (w.arch pi).shared).2 = pi ∧
      (w.removeComp info t e c).1 = (w.getArch (Mask.erase (w.arch pi).mask c) (w.arch pi).shared).1) ∨
    (∃ ti, Moved w (w.removeComp info t e c).1 e ti
        (carry info (closedMask w.deps (Mask.erase (w.arch pi).mask c)) (w.arch pi).mask prow []) ∧
      ((w.removeComp info t e c).1.arch ti).mask = closedMask w.deps (Mask.erase (w.arch pi).mask c) ∧
      ((w.removeComp info t e c).1.arch ti).shared.data = (w.arch pi).shared.data) := by
  have hloc := hok.locOf hr
  rw [he] at hloc
  have hla : (w.locOf e).arch = some pi := by rw [hloc]
  have hidx : (w.locOf e).idx = idx := by rw [hloc]
  have hcc : (w.arch pi).mask.contains c = true := by simpa using hc
  unfold WM.removeComp
  simp only [hl, Bool.false_eq_true, if_false, hv, Bool.not_true, hla, hcc, hidx]
  rcases getArch_move info hok (Mask.erase (w.arch pi).mask c) (w.arch pi).shared e pi idx [] prow hr he
    (fun hk => maskOk_erase (hk.masks pi (lt_of_row hr)) c) with
    ⟨hti, hnone⟩ | ⟨_, w2, cbs, hsome, hm, hmask, hsh⟩
  · left; rw [hnone]; exact ⟨hti, rfl⟩
  · right; rw [hsome]; exact ⟨_, hm, hmask, hsh⟩

/-- after `removeComponent<C>` the other components keep their values -/
theorem removeComp_read (info : CompId → CompInfo) {w : WM} (hok : RowsOK w) (t : Nat) (e : Handle)
    (c : CompId) (hl : w.isLocked = false) (hv : w.isValid e = true) {pi idx : Nat}
    (hrow : InRowAt w e pi idx) :
    (∀ c', c' ≠ c → w.hasComp e c' = true →
      (w.removeComp info t e c).1.getComp e c' = w.getComp e c') ∧
    (w.hasComp e c = true →
      ∀ x, (w.removeComp info t e c).1.hasComp e x =
        (closedMask w.deps (Mask.erase (w.arch pi).mask c)).contains x) ∧
    (w.removeComp info t e c).1.isValid e = true := by
  rcases hrow with ⟨prow, hr, he⟩
  have hloc := hok.locOf hr
  rw [he] at hloc
  by_cases hc : c ∈ (w.arch pi).mask
  · rcases removeComp_unlocked info hok t e c hl hv hr he hc with ⟨hti, heq⟩ | ⟨ti, hm, hmask, _⟩
    · -- nothing moved: the archetype found is the entity's own
      rw [heq]
      have hsame := getArch_sameTable w (Mask.erase (w.arch pi).mask c) (w.arch pi).shared
      have hloc1 : (w.getArch (Mask.erase (w.arch pi).mask c) (w.arch pi).shared).1.locOf e = ⟨some pi, idx⟩ := by
        unfold WM.locOf; rw [getArch_locs]; exact hloc
      have harch := getArch_arch_lt w (Mask.erase (w.arch pi).mask c) (w.arch pi).shared pi (lt_of_row hr)
      have hr1 : ((w.getArch (Mask.erase (w.arch pi).mask c) (w.arch pi).shared).1.arch pi).rows[idx]? = some prow := by
        rw [harch]; exact hr
      refine ⟨fun c' _ _ => ?_, fun _ x => ?_, by rw [hsame.isValid]; exact hv⟩
      · rw [getComp_of_loc hloc1 hr1, getComp_of_loc hloc hr, hsame.isValid, harch]
      · rw [hasComp_of_loc hloc1, hsame.isValid, hv, harch]
        have := (getArch_key w (Mask.erase (w.arch pi).mask c) (w.arch pi).shared).1
        rw [hti, harch] at this
        rw [← this]; rfl
    · refine ⟨fun c' hne hhas => ?_, fun _ x => by rw [hm.hasComp hv, hmask], by rw [hm.isValid]; exact hv⟩
      rw [hasComp_of_loc hloc, hv] at hhas
      have hc'p : c' ∈ (w.arch pi).mask := by simpa using hhas
      have hc'm : c' ∈ closedMask w.deps (Mask.erase (w.arch pi).mask c) :=
        mem_closedMask_of_mem _ _ _ ((mem_erase _ _ _).mpr ⟨hc'p, hne⟩)
      rw [hm.getComp hv, hmask, (indexOf?_of_mem hc'm).1]
      simp only
      rw [carry_get info _ _ _ _ c' hc'm, carried_of_mem info _ _ _ _ hc'p,
        getComp_of_loc hloc hr c', hv, (indexOf?_of_mem hc'p).1]
      rfl
  · -- `C` absent: nothing happens
    have hla : (w.locOf e).arch = some pi := by rw [hloc]
    have hcc : (w.arch pi).mask.contains c = false := by simpa using hc
    have heq : (w.removeComp info t e c).1 = w := by
      unfold WM.removeComp
      simp [hl, hv, hla, hc]
    rw [heq]
    refine ⟨fun _ _ _ => rfl, fun hh => ?_, hv⟩
    rw [hasComp_of_loc hloc, hv, hcc] at hh
    cases hh

end Mustache.Proofs.Rows

import Mustache.Proofs.ClosureDeps
/-! # Archetype lookup is keyed by (closed component mask, shared instances) (C12 `findArch_key`) -/
namespace Mustache.Model

/-- the lookup key of an archetype -/
def Arch.key (a : Arch) : List Nat × List Nat := (a.mask, a.shared.data)

theorem Arch.key_eq_iff {a : Arch} {m d : List Nat} : a.key = (m, d) ↔ a.mask = m ∧ a.shared.data = d := by
  simp [Arch.key]

/-- the lookup only looks at the instance list of the descriptor -/
theorem findArch_congr (w : WM) (m : List Nat) {sh1 sh2 : Shared} (h : sh1.data = sh2.data) :
    w.findArch m sh1 = w.findArch m sh2 := by
  unfold WM.findArch; rw [h]

/-- `findArch` returns the FIRST archetype with the key -/
theorem findArch_eq_some_iff {w : WM} {m : List Nat} {sh : Shared} {i : Nat} :
    w.findArch m sh = some i ↔
      i < w.archs.length ∧ (w.arch i).mask = m ∧ (w.arch i).shared.data = sh.data ∧
        ∀ j, j < i → ¬ ((w.arch j).mask = m ∧ (w.arch j).shared.data = sh.data) := by
  constructor
  · exact findArch_some
  · rintro ⟨hlt, hm, hd, hfirst⟩
    cases hf : w.findArch m sh with
    | none =>
      have := findArch_none.mp hf (w.arch i) (by rw [arch_lt hlt]; exact List.getElem_mem _)
      exact absurd ⟨hm, hd⟩ this
    | some i' =>
      obtain ⟨hlt', hm', hd', hfirst'⟩ := findArch_some hf
      congr 1
      apply Classical.byContradiction
      intro hne
      rcases Nat.lt_or_gt_of_ne hne with h | h
      · exact hfirst i' h ⟨hm', hd'⟩
      · exact hfirst' i h ⟨hm, hd⟩

/-- `getArch` returns an EXISTING archetype (state unchanged, index in range) iff some archetype has the
    closed mask and the requested instances; otherwise it appends exactly that archetype -/
theorem getArch_existing_iff (w : WM) (m : List Nat) (sh : Shared) :
    ((w.getArch m sh).1 = w ∧ (w.getArch m sh).2 < w.archs.length) ↔
      ∃ a ∈ w.archs, a.mask = closedMask w.deps m ∧ a.shared.data = sh.data := by
  rcases getArch_cases w m sh with ⟨i, hf, he⟩ | ⟨hf, he⟩
  · obtain ⟨hlt, hm, hd, _⟩ := findArch_some hf
    rw [he]
    constructor
    · intro _
      exact ⟨w.arch i, by rw [arch_lt hlt]; exact List.getElem_mem _, hm, hd⟩
    · intro _; exact ⟨rfl, hlt⟩
  · rw [he]
    constructor
    · rintro ⟨_, h⟩; exact absurd h (Nat.lt_irrefl _)
    · rintro ⟨a, ha, hk⟩; exact absurd hk (findArch_none.mp hf a ha)

theorem getArch_new (w : WM) (m : List Nat) (sh : Shared)
    (h : ∀ a ∈ w.archs, ¬ (a.mask = closedMask w.deps m ∧ a.shared.data = sh.data)) :
    w.getArch m sh = ({ w with archs := w.archs ++ [⟨closedMask w.deps m, sh, []⟩] }, w.archs.length) := by
  rcases getArch_cases w m sh with ⟨i, hf, _⟩ | ⟨_, he⟩
  · rw [findArch_none.mpr h] at hf; cases hf
  · exact he

/-- in one state, equal keys give the same index -/
theorem getArch_same_key (w : WM) {m1 m2 : List Nat} {sh1 sh2 : Shared}
    (hm : closedMask w.deps m1 = closedMask w.deps m2) (hd : sh1.data = sh2.data) :
    (w.getArch m1 sh1).2 = (w.getArch m2 sh2).2 := by
  rw [getArch_eq, getArch_eq, hm, findArch_congr w _ hd]
  cases w.findArch (closedMask w.deps m2) sh2 <;> rfl

/-- a second lookup with the same key returns the archetype of the first and changes nothing -/
theorem getArch_twice (w : WM) {m1 m2 : List Nat} {sh1 sh2 : Shared}
    (hm : closedMask w.deps m1 = closedMask w.deps m2) (hd : sh1.data = sh2.data) :
    (w.getArch m1 sh1).1.getArch m2 sh2 = ((w.getArch m1 sh1).1, (w.getArch m1 sh1).2) := by
  rcases getArch_cases w m1 sh1 with ⟨i, hf, he⟩ | ⟨hf, he⟩
  · rw [he]
    simp only
    rw [getArch_eq, ← hm, ← findArch_congr w _ hd, hf]
  · rw [he]
    simp only
    rw [getArch_eq]
    have : WM.findArch { w with archs := w.archs ++ [⟨closedMask w.deps m1, sh1, []⟩] }
        (closedMask w.deps m2) sh2 = some w.archs.length := by
      apply findArch_eq_some_iff.mpr
      refine ⟨by simp, ?_, ?_, ?_⟩
      · simp [WM.arch, hm]
      · simp [WM.arch, hd]
      · intro j hj
        have : (WM.arch { w with archs := w.archs ++ [⟨closedMask w.deps m1, sh1, []⟩] } j) = w.arch j := by
          simp [WM.arch, List.getD_eq_getElem?_getD, List.getElem?_append_left hj]
        rw [this, ← hm, ← hd]
        exact findArch_none.mp hf _ (by rw [arch_lt hj]; exact List.getElem_mem _)
    rw [this]

/-- no two archetypes share a key -/
def ArchsDistinct (w : WM) : Prop :=
  ∀ i j, i < w.archs.length → j < w.archs.length → (w.arch i).key = (w.arch j).key → i = j

theorem archsDistinct_init : ArchsDistinct {} := by
  intro i j hi; simp at hi

theorem getArch_distinct {w : WM} (h : ArchsDistinct w) (m : List Nat) (sh : Shared) :
    ArchsDistinct (w.getArch m sh).1 := by
  rcases getArch_cases w m sh with ⟨i, _, he⟩ | ⟨hf, he⟩
  · rw [he]; exact h
  · rw [he]
    have hnone := findArch_none.mp hf
    have hold : ∀ j, j < w.archs.length →
        WM.arch { w with archs := w.archs ++ [⟨closedMask w.deps m, sh, []⟩] } j = w.arch j := by
      intro j hj
      simp [WM.arch, List.getD_eq_getElem?_getD, List.getElem?_append_left hj]
    have hnew : WM.arch { w with archs := w.archs ++ [⟨closedMask w.deps m, sh, []⟩] } w.archs.length =
        ⟨closedMask w.deps m, sh, []⟩ := by simp [WM.arch]
    intro i j hi hj hk
    simp only [List.length_append, List.length_cons, List.length_nil] at hi hj
    by_cases hi' : i < w.archs.length
    · by_cases hj' : j < w.archs.length
      · rw [hold i hi', hold j hj'] at hk; exact h i j hi' hj' hk
      · have hj'' : j = w.archs.length := by omega
        subst hj''
        rw [hold i hi', hnew] at hk
        have := Arch.key_eq_iff.mp hk
        exact absurd this (hnone _ (by rw [arch_lt hi']; exact List.getElem_mem _))
    · have hi'' : i = w.archs.length := by omega
      subst hi''
      by_cases hj' : j < w.archs.length
      · rw [hold j hj', hnew] at hk
        have := Arch.key_eq_iff.mp hk.symm
        exact absurd this (hnone _ (by rw [arch_lt hj']; exact List.getElem_mem _))
      · omega

/-- with distinct keys: `getArch` returns `i` exactly when archetype `i` has the key -/
theorem getArch_eq_iff_key {w : WM} (h : ArchsDistinct w) (m : List Nat) (sh : Shared) {i : Nat}
    (hi : i < w.archs.length) :
    (w.getArch m sh).2 = i ↔ (w.arch i).key = (closedMask w.deps m, sh.data) := by
  rcases getArch_cases w m sh with ⟨i', hf, he⟩ | ⟨hf, he⟩
  · obtain ⟨hlt, hm, hd, _⟩ := findArch_some hf
    rw [he]
    constructor
    · intro e; subst e; exact Arch.key_eq_iff.mpr ⟨hm, hd⟩
    · intro hk
      exact h i' i hlt hi (by rw [hk]; exact Arch.key_eq_iff.mpr ⟨hm, hd⟩)
  · rw [he]
    constructor
    · intro e; simp only at e; omega
    · intro hk
      exact absurd (Arch.key_eq_iff.mp hk) (findArch_none.mp hf _ (by rw [arch_lt hi]; exact List.getElem_mem _))

/-- the key ignores `shared.ids`; it still determines the descriptor when instances are typed: every
    instance id belongs to one shared type (`f`), as the pool guarantees (`PoolInv.inst_sid`) -/
def Shared.Typed (f : Nat → Nat) (s : Shared) : Prop := s.ids = s.data.map f

theorem Shared.eq_of_data_eq {f : Nat → Nat} {s1 s2 : Shared} (h1 : s1.Typed f) (h2 : s2.Typed f)
    (h : s1.data = s2.data) : s1 = s2 := by
  cases s1; cases s2
  simp only [Shared.Typed] at h1 h2
  simp only at h
  subst h
  simp [h1, h2]

end Mustache.Model

import Mustache.Model.World
/-! # `SharedComponentsInfo` algebra (`Shared.add / remove / merge / get? / has`)

Route: a well-formed descriptor is `Shared.ofPairs l` for a key-sorted pair list `l`; `add`, `remove`,
`get?`, `has` are bridged to structural functions on pair lists (`insKV`, `delK`, `lookK`), and the
algebra is done there by plain induction. -/
namespace Mustache.Model

def Shared.WF (s : Shared) : Prop :=
  s.ids.length = s.data.length ∧ s.ids.Nodup ∧ s.ids.Pairwise (· < ·)

theorem Shared.WF.len {s : Shared} (h : s.WF) : s.ids.length = s.data.length := h.1

/-! ## pair lists -/

def Shared.ofPairs (l : List (Nat × Nat)) : Shared := ⟨l.map Prod.fst, l.map Prod.snd⟩

def lookK : List (Nat × Nat) → Nat → Option Nat
  | [], _ => none
  | (a, b) :: t, k => if k = a then some b else lookK t k

def delK : List (Nat × Nat) → Nat → List (Nat × Nat)
  | [], _ => []
  | (a, b) :: t, k => if k = a then t else (a, b) :: delK t k

/-- overwrite the value of the first entry with key `k` -/
def setK : List (Nat × Nat) → Nat → Nat → List (Nat × Nat)
  | [], _, _ => []
  | (a, b) :: t, k, v => if k = a then (a, v) :: t else (a, b) :: setK t k v

def insKV : List (Nat × Nat) → Nat → Nat → List (Nat × Nat)
  | [], k, v => [(k, v)]
  | (a, b) :: t, k, v =>
    if k < a then (k, v) :: (a, b) :: t else if k = a then (a, v) :: t else (a, b) :: insKV t k v

/-- keys strictly increasing -/
def SortedK : List (Nat × Nat) → Prop
  | [] => True
  | (a, _) :: t => (∀ p ∈ t, a < p.1) ∧ SortedK t

theorem sortedK_iff (l : List (Nat × Nat)) : SortedK l ↔ (l.map Prod.fst).Pairwise (· < ·) := by
  induction l with
  | nil => simp [SortedK]
  | cons p t ih => obtain ⟨a, b⟩ := p; simp [SortedK, ih]

theorem SortedK.tail {p : Nat × Nat} {t : List (Nat × Nat)} (h : SortedK (p :: t)) : SortedK t := by
  obtain ⟨a, b⟩ := p; exact h.2

theorem SortedK.head_lt {a b : Nat} {t : List (Nat × Nat)} (h : SortedK ((a, b) :: t)) :
    ∀ p ∈ t, a < p.1 := h.1

/-! ### lookup -/

theorem lookK_eq_none {l : List (Nat × Nat)} {k : Nat} (h : k ∉ l.map Prod.fst) : lookK l k = none := by
  induction l with
  | nil => rfl
  | cons p t ih =>
    obtain ⟨a, b⟩ := p
    simp only [List.map_cons, List.mem_cons, not_or] at h
    simp only [lookK, if_neg h.1]; exact ih h.2

theorem lookK_isSome (l : List (Nat × Nat)) (k : Nat) : (lookK l k).isSome = true ↔ k ∈ l.map Prod.fst := by
  induction l with
  | nil => simp [lookK]
  | cons p t ih =>
    obtain ⟨a, b⟩ := p
    simp only [lookK, List.map_cons, List.mem_cons]
    by_cases h : k = a
    · simp [h]
    · simp [h, ih]

theorem lookK_mem {l : List (Nat × Nat)} {k v : Nat} (h : lookK l k = some v) : (k, v) ∈ l := by
  induction l with
  | nil => simp [lookK] at h
  | cons p t ih =>
    obtain ⟨a, b⟩ := p
    simp only [lookK] at h
    by_cases hk : k = a
    · simp only [if_pos hk, Option.some.injEq] at h; simp [hk, h]
    · simp only [if_neg hk] at h; exact List.mem_cons_of_mem _ (ih h)

theorem lookK_append (l₁ l₂ : List (Nat × Nat)) (k : Nat) :
    lookK (l₁ ++ l₂) k = (lookK l₁ k).or (lookK l₂ k) := by
  induction l₁ with
  | nil => simp [lookK]
  | cons p t ih =>
    obtain ⟨a, b⟩ := p
    simp only [List.cons_append, lookK]
    split <;> simp [ih]

theorem lookK_none_of_sorted {a b : Nat} {t : List (Nat × Nat)} (h : SortedK ((a, b) :: t)) {k : Nat}
    (hk : k ≤ a) : lookK t k = none := by
  apply lookK_eq_none
  intro hm
  obtain ⟨p, hp, rfl⟩ := List.mem_map.1 hm
  have := h.1 p hp
  omega

/-! ### bridges (arbitrary pair lists) -/

/-- `Shared.indexOf?` only looks at the ids -/
def idx? (ids : List Nat) (k : Nat) : Option Nat :=
  if ids.idxOf k < ids.length then some (ids.idxOf k) else none

theorem Shared.indexOf?_eq (s : Shared) (k : Nat) : s.indexOf? k = idx? s.ids k := rfl

theorem idx?_cons (a : Nat) (ids : List Nat) (k : Nat) :
    idx? (a :: ids) k = if k = a then some 0 else (idx? ids k).map (· + 1) := by
  unfold idx?
  by_cases h : k = a
  · subst h; simp
  · have hb : (a == k) = false := by simp; exact fun e => h e.symm
    simp only [List.idxOf_cons, hb, cond_false, List.length_cons, Nat.add_lt_add_iff_right, if_neg h]
    split <;> simp

theorem idx?_eq_none {ids : List Nat} {k : Nat} (h : k ∉ ids) : idx? ids k = none := by
  induction ids with
  | nil => rfl
  | cons a t ih =>
    simp only [List.mem_cons, not_or] at h
    rw [idx?_cons, if_neg h.1, ih h.2]; rfl

theorem idx?_some_mem {ids : List Nat} {k i : Nat} (h : idx? ids k = some i) : k ∈ ids := by
  false_or_by_contra
  rename_i hn
  rw [idx?_eq_none hn] at h; cases h

theorem Shared.get?_cons (a b : Nat) (ids data : List Nat) (k : Nat) :
    Shared.get? ⟨a :: ids, b :: data⟩ k = if k = a then some b else Shared.get? ⟨ids, data⟩ k := by
  simp only [Shared.get?, Shared.indexOf?_eq, idx?_cons]
  by_cases h : k = a
  · simp [h]
  · simp only [if_neg h]
    cases idx? ids k <;> simp

theorem Shared.get?_ofPairs (l : List (Nat × Nat)) (k : Nat) : (Shared.ofPairs l).get? k = lookK l k := by
  induction l with
  | nil => rfl
  | cons p t ih =>
    obtain ⟨a, b⟩ := p
    have := Shared.get?_cons a b (t.map Prod.fst) (t.map Prod.snd) k
    simp only [Shared.ofPairs, List.map_cons, lookK] at this ⊢ ih
    rw [this, ih]

theorem Shared.has_ofPairs (l : List (Nat × Nat)) (k : Nat) :
    (Shared.ofPairs l).has k = true ↔ k ∈ l.map Prod.fst := by
  simp [Shared.has, Shared.ofPairs]

theorem Shared.remove_cons (a b : Nat) (ids data : List Nat) (k : Nat) :
    Shared.remove ⟨a :: ids, b :: data⟩ k =
      if k = a then ⟨ids, data⟩
      else ⟨a :: (Shared.remove ⟨ids, data⟩ k).ids, b :: (Shared.remove ⟨ids, data⟩ k).data⟩ := by
  simp only [Shared.remove, Shared.indexOf?_eq, idx?_cons]
  by_cases h : k = a
  · simp [h]
  · simp only [if_neg h]
    cases idx? ids k <;> simp

theorem Shared.remove_ofPairs (l : List (Nat × Nat)) (k : Nat) :
    (Shared.ofPairs l).remove k = Shared.ofPairs (delK l k) := by
  induction l with
  | nil => rfl
  | cons p t ih =>
    obtain ⟨a, b⟩ := p
    have := Shared.remove_cons a b (t.map Prod.fst) (t.map Prod.snd) k
    simp only [Shared.ofPairs, List.map_cons, delK] at this ⊢ ih
    rw [this, ih]
    split <;> simp

theorem setK_map_fst (l : List (Nat × Nat)) (k v : Nat) : (setK l k v).map Prod.fst = l.map Prod.fst := by
  induction l with
  | nil => rfl
  | cons p t ih =>
    obtain ⟨a, b⟩ := p
    simp only [setK]; split <;> simp [ih]

theorem setK_map_snd (l : List (Nat × Nat)) (k v : Nat) :
    (setK l k v).map Prod.snd = (l.map Prod.snd).set ((l.map Prod.fst).idxOf k) v := by
  induction l with
  | nil => rfl
  | cons p t ih =>
    obtain ⟨a, b⟩ := p
    simp only [setK, List.map_cons, List.idxOf_cons]
    by_cases h : k = a
    · subst h; simp
    · have hb : (a == k) = false := by simp; exact fun e => h e.symm
      simp [h, hb, ih]

theorem Shared.add_ofPairs_mem {l : List (Nat × Nat)} {k : Nat} (v : Nat) (h : k ∈ l.map Prod.fst) :
    (Shared.ofPairs l).add k v = Shared.ofPairs (setK l k v) := by
  have hi : idx? (l.map Prod.fst) k = some ((l.map Prod.fst).idxOf k) := by
    unfold idx?; rw [if_pos (List.idxOf_lt_length_iff.2 h)]
  simp only [Shared.add, Shared.indexOf?_eq, Shared.ofPairs, hi, setK_map_fst, setK_map_snd]

theorem Shared.add_ofPairs_not_mem {l : List (Nat × Nat)} {k : Nat} (v : Nat) (h : k ∉ l.map Prod.fst) :
    (Shared.ofPairs l).add k v =
      Shared.ofPairs (l.take (l.filter (·.1 < k)).length ++ (k, v) :: l.drop (l.filter (·.1 < k)).length) := by
  have hn : ((l.map Prod.fst).filter (· < k)).length = (l.filter (·.1 < k)).length := by
    rw [List.filter_map, List.length_map]; rfl
  simp only [Shared.add, Shared.indexOf?_eq, Shared.ofPairs, idx?_eq_none h, hn]
  simp [List.map_take, List.map_drop]

/-! ### `setK`, `delK` lookups (arbitrary pair lists) -/

theorem lookK_setK_self {l : List (Nat × Nat)} {k : Nat} (v : Nat) (h : k ∈ l.map Prod.fst) :
    lookK (setK l k v) k = some v := by
  induction l with
  | nil => simp at h
  | cons p t ih =>
    obtain ⟨a, b⟩ := p
    simp only [List.map_cons, List.mem_cons] at h
    by_cases hk : k = a
    · simp [setK, lookK, hk]
    · simp only [setK, if_neg hk, lookK]
      exact ih (h.resolve_left hk)

theorem lookK_setK_ne (l : List (Nat × Nat)) {j k : Nat} (v : Nat) (h : j ≠ k) :
    lookK (setK l k v) j = lookK l j := by
  induction l with
  | nil => rfl
  | cons p t ih =>
    obtain ⟨a, b⟩ := p
    by_cases hk : k = a
    · subst hk; simp [setK, lookK, h]
    · simp only [setK, if_neg hk, lookK, ih]

theorem lookK_take_drop (l : List (Nat × Nat)) (n j : Nat) :
    (lookK (l.take n) j).or (lookK (l.drop n) j) = lookK l j := by
  rw [← lookK_append, List.take_append_drop]

theorem lookK_delK_ne (l : List (Nat × Nat)) {j k : Nat} (h : j ≠ k) : lookK (delK l k) j = lookK l j := by
  induction l with
  | nil => rfl
  | cons p t ih =>
    obtain ⟨a, b⟩ := p
    by_cases hk : k = a
    · subst hk; simp [delK, lookK, h]
    · simp only [delK, if_neg hk, lookK, ih]

theorem mem_delK {l : List (Nat × Nat)} {k : Nat} {p : Nat × Nat} (h : p ∈ delK l k) : p ∈ l := by
  induction l with
  | nil => simp [delK] at h
  | cons q t ih =>
    obtain ⟨a, b⟩ := q
    by_cases hk : k = a
    · simp only [delK, if_pos hk] at h; exact List.mem_cons_of_mem _ h
    · simp only [delK, if_neg hk, List.mem_cons] at h ⊢
      exact h.imp id ih

theorem sortedK_delK {l : List (Nat × Nat)} (k : Nat) (h : SortedK l) : SortedK (delK l k) := by
  induction l with
  | nil => exact h
  | cons q t ih =>
    obtain ⟨a, b⟩ := q
    by_cases hk : k = a
    · simp only [delK, if_pos hk]; exact h.2
    · simp only [delK, if_neg hk]
      exact ⟨fun p hp => h.1 p (mem_delK hp), ih h.2⟩

theorem lookK_delK_self {l : List (Nat × Nat)} (k : Nat) (h : SortedK l) : lookK (delK l k) k = none := by
  induction l with
  | nil => rfl
  | cons q t ih =>
    obtain ⟨a, b⟩ := q
    by_cases hk : k = a
    · simp only [delK, if_pos hk]; exact lookK_none_of_sorted h (by omega)
    · simp only [delK, if_neg hk, lookK]; exact ih h.2

/-! ### `insKV` -/

theorem mem_insKV {l : List (Nat × Nat)} {k v : Nat} {p : Nat × Nat} (h : p ∈ insKV l k v) :
    p = (k, v) ∨ p ∈ l := by
  induction l with
  | nil => simpa [insKV] using h
  | cons q t ih =>
    obtain ⟨a, b⟩ := q
    simp only [insKV] at h
    split at h
    · simpa using h
    · split at h
      · rename_i hk; subst hk
        simp only [List.mem_cons] at h ⊢
        rcases h with h | h
        · exact Or.inl h
        · exact Or.inr (Or.inr h)
      · simp only [List.mem_cons] at h ⊢
        rcases h with h | h
        · exact Or.inr (Or.inl h)
        · exact (ih h).imp id Or.inr

theorem sortedK_insKV {l : List (Nat × Nat)} (k v : Nat) (h : SortedK l) : SortedK (insKV l k v) := by
  induction l with
  | nil => simp [insKV, SortedK]
  | cons q t ih =>
    obtain ⟨a, b⟩ := q
    simp only [insKV]
    split
    · rename_i hk
      refine ⟨fun p hp => ?_, h⟩
      rcases List.mem_cons.1 hp with rfl | hp
      · exact hk
      · exact Nat.lt_trans hk (h.1 p hp)
    · split
      · exact h
      · refine ⟨fun p hp => ?_, ih h.2⟩
        rcases mem_insKV hp with rfl | hp
        · show a < k; omega
        · exact h.1 p hp

theorem insKV_insKV_self (l : List (Nat × Nat)) (k x y : Nat) : insKV (insKV l k x) k y = insKV l k y := by
  induction l with
  | nil => simp [insKV]
  | cons q t ih =>
    obtain ⟨a, b⟩ := q
    by_cases h1 : k < a
    · simp [insKV, h1]
    · by_cases h2 : k = a
      · subst h2; simp [insKV]
      · simp [insKV, h1, h2, ih]

theorem insKV_comm (l : List (Nat × Nat)) {i j : Nat} (x y : Nat) (h : i ≠ j) :
    insKV (insKV l i x) j y = insKV (insKV l j y) i x := by
  induction l with
  | nil =>
    rcases Nat.lt_or_gt_of_ne h with h' | h'
    · have : ¬ j < i := by omega
      have : ¬ j = i := by omega
      simp [insKV, *]
    · have : ¬ i < j := by omega
      simp [insKV, *]
  | cons q t ih =>
    obtain ⟨a, b⟩ := q
    by_cases i1 : i < a <;> by_cases i2 : i = a <;> by_cases j1 : j < a <;> by_cases j2 : j = a <;>
      first
      | omega
      | (by_cases ij : i < j <;>
          have hji : ¬ j = i := (fun e => h e.symm) <;>
          simp [insKV, *] <;> (repeat' split) <;> first | rfl | omega)

/-- `Shared.add` on a key-sorted pair list is ordered insertion -/
theorem setK_eq_insKV {l : List (Nat × Nat)} {k : Nat} (v : Nat) (hs : SortedK l) (h : k ∈ l.map Prod.fst) :
    setK l k v = insKV l k v := by
  induction l with
  | nil => simp at h
  | cons q t ih =>
    obtain ⟨a, b⟩ := q
    simp only [List.map_cons, List.mem_cons] at h
    by_cases hk : k = a
    · subst hk; simp [setK, insKV]
    · have hm := h.resolve_left hk
      obtain ⟨p, hp, rfl⟩ := List.mem_map.1 hm
      have := hs.1 p hp
      have h1 : ¬ p.1 < a := by omega
      simp only [setK, insKV, if_neg hk, if_neg h1, ih hs.2 hm]

theorem take_drop_eq_insKV {l : List (Nat × Nat)} {k : Nat} (v : Nat) (hs : SortedK l)
    (h : k ∉ l.map Prod.fst) :
    l.take (l.filter (·.1 < k)).length ++ (k, v) :: l.drop (l.filter (·.1 < k)).length = insKV l k v := by
  induction l with
  | nil => rfl
  | cons q t ih =>
    obtain ⟨a, b⟩ := q
    simp only [List.map_cons, List.mem_cons, not_or] at h
    by_cases h1 : k < a
    · have hf : (((a, b) :: t).filter (·.1 < k)) = [] := by
        rw [List.filter_eq_nil_iff]
        intro p hp
        rcases List.mem_cons.1 hp with rfl | hp
        · simp; omega
        · have := hs.1 p hp; simp; omega
      simp [hf, insKV, h1]
    · have ha : a < k := by omega
      have hf : (((a, b) :: t).filter (·.1 < k)) = (a, b) :: t.filter (·.1 < k) := by
        simp [ha]
      rw [hf]
      simp only [List.length_cons, List.take_succ_cons, List.drop_succ_cons, List.cons_append, insKV,
        if_neg h1, if_neg h.1, ih hs.2 h.2]

theorem Shared.add_ofPairs {l : List (Nat × Nat)} (k v : Nat) (hs : SortedK l) :
    (Shared.ofPairs l).add k v = Shared.ofPairs (insKV l k v) := by
  by_cases h : k ∈ l.map Prod.fst
  · rw [Shared.add_ofPairs_mem v h, setK_eq_insKV v hs h]
  · rw [Shared.add_ofPairs_not_mem v h, take_drop_eq_insKV v hs h]

/-! ## descriptors as pair lists -/

theorem Shared.ofPairs_zip {s : Shared} (h : s.ids.length = s.data.length) :
    Shared.ofPairs (s.ids.zip s.data) = s := by
  obtain ⟨ids, data⟩ := s
  simp only [Shared.ofPairs]
  rw [List.map_fst_zip (Nat.le_of_eq h), List.map_snd_zip (Nat.le_of_eq h.symm)]

theorem Shared.exists_pairs {s : Shared} (h : s.ids.length = s.data.length) : ∃ l, s = Shared.ofPairs l :=
  ⟨_, (Shared.ofPairs_zip h).symm⟩

theorem Shared.wf_ofPairs {l : List (Nat × Nat)} (h : SortedK l) : (Shared.ofPairs l).WF := by
  have hp := (sortedK_iff l).1 h
  refine ⟨by simp [Shared.ofPairs], ?_, hp⟩
  exact hp.imp (fun h => Nat.ne_of_lt h)

theorem Shared.WF.exists_pairs {s : Shared} (h : s.WF) : ∃ l, SortedK l ∧ s = Shared.ofPairs l := by
  refine ⟨s.ids.zip s.data, ?_, (Shared.ofPairs_zip h.1).symm⟩
  rw [sortedK_iff, List.map_fst_zip (Nat.le_of_eq h.1)]
  exact h.2.2

theorem Shared.wf_iff (s : Shared) : s.WF ↔ ∃ l, SortedK l ∧ s = Shared.ofPairs l :=
  ⟨Shared.WF.exists_pairs, fun ⟨_, hl, e⟩ => e ▸ Shared.wf_ofPairs hl⟩

/-! ## the `Shared` algebra -/

theorem Shared.wf_null : Shared.null.WF := by
  simp [Shared.WF, Shared.null]

theorem Shared.wf_add {s : Shared} (id x : Nat) (h : s.WF) : (s.add id x).WF := by
  obtain ⟨l, hl, rfl⟩ := h.exists_pairs
  rw [Shared.add_ofPairs id x hl]
  exact Shared.wf_ofPairs (sortedK_insKV id x hl)

theorem Shared.wf_remove {s : Shared} (id : Nat) (h : s.WF) : (s.remove id).WF := by
  obtain ⟨l, hl, rfl⟩ := h.exists_pairs
  rw [Shared.remove_ofPairs]
  exact Shared.wf_ofPairs (sortedK_delK id hl)

theorem Shared.len_ofPairs (l : List (Nat × Nat)) :
    (Shared.ofPairs l).ids.length = (Shared.ofPairs l).data.length := by
  simp [Shared.ofPairs]

/-- `add` keeps the two lists aligned (no order needed) -/
theorem Shared.len_add {s : Shared} (id x : Nat) (h : s.ids.length = s.data.length) :
    (s.add id x).ids.length = (s.add id x).data.length := by
  obtain ⟨l, rfl⟩ := Shared.exists_pairs h
  by_cases hm : id ∈ l.map Prod.fst
  · rw [Shared.add_ofPairs_mem x hm]; exact Shared.len_ofPairs _
  · rw [Shared.add_ofPairs_not_mem x hm]; exact Shared.len_ofPairs _

theorem Shared.len_remove {s : Shared} (id : Nat) (h : s.ids.length = s.data.length) :
    (s.remove id).ids.length = (s.remove id).data.length := by
  obtain ⟨l, rfl⟩ := Shared.exists_pairs h
  rw [Shared.remove_ofPairs]; exact Shared.len_ofPairs _

theorem Shared.wf_foldl_add (l : List (Nat × Nat)) {oth : Shared} (h : oth.WF) :
    (l.foldl (fun r p => r.add p.1 p.2) oth).WF := by
  induction l generalizing oth with
  | nil => exact h
  | cons p t ih => exact ih (Shared.wf_add p.1 p.2 h)

/-- no hypothesis on `s` -/
theorem Shared.wf_merge (s : Shared) {oth : Shared} (h : oth.WF) : (s.merge oth).WF :=
  Shared.wf_foldl_add _ h

/-- only the lengths matter (not the order of the ids) -/
theorem Shared.get?_add_self {s : Shared} (id x : Nat) (h : s.ids.length = s.data.length) :
    (s.add id x).get? id = some x := by
  obtain ⟨l, rfl⟩ := Shared.exists_pairs h
  by_cases hm : id ∈ l.map Prod.fst
  · rw [Shared.add_ofPairs_mem x hm, Shared.get?_ofPairs, lookK_setK_self x hm]
  · rw [Shared.add_ofPairs_not_mem x hm, Shared.get?_ofPairs, lookK_append]
    have : lookK (l.take (l.filter (·.1 < id)).length) id = none :=
      lookK_eq_none (fun hh => hm (by
        obtain ⟨p, hp, e⟩ := List.mem_map.1 hh
        exact List.mem_map.2 ⟨p, List.mem_of_mem_take hp, e⟩))
    simp [this, lookK]

theorem Shared.get?_add_ne {s : Shared} {j id : Nat} (x : Nat) (h : s.ids.length = s.data.length)
    (hj : j ≠ id) : (s.add id x).get? j = s.get? j := by
  obtain ⟨l, rfl⟩ := Shared.exists_pairs h
  by_cases hm : id ∈ l.map Prod.fst
  · rw [Shared.add_ofPairs_mem x hm, Shared.get?_ofPairs, Shared.get?_ofPairs, lookK_setK_ne l x hj]
  · rw [Shared.add_ofPairs_not_mem x hm, Shared.get?_ofPairs, Shared.get?_ofPairs, lookK_append]
    simp only [lookK, if_neg hj]
    exact lookK_take_drop l _ j

theorem Shared.get?_remove_self {s : Shared} (id : Nat) (h : s.WF) : (s.remove id).get? id = none := by
  obtain ⟨l, hl, rfl⟩ := h.exists_pairs
  rw [Shared.remove_ofPairs, Shared.get?_ofPairs, lookK_delK_self id hl]

theorem Shared.get?_remove_ne {s : Shared} {j id : Nat} (h : s.ids.length = s.data.length) (hj : j ≠ id) :
    (s.remove id).get? j = s.get? j := by
  obtain ⟨l, rfl⟩ := Shared.exists_pairs h
  rw [Shared.remove_ofPairs, Shared.get?_ofPairs, Shared.get?_ofPairs, lookK_delK_ne l hj]

/-- no hypothesis on `s` -/
theorem Shared.has_add (s : Shared) (id x j : Nat) :
    (s.add id x).has j = true ↔ j = id ∨ s.has j = true := by
  simp only [Shared.add, Shared.indexOf?_eq, Shared.has, List.contains_iff_mem]
  cases hi : idx? s.ids id with
  | none =>
    simp only [List.mem_append, List.mem_singleton]
    have := List.take_append_drop (s.ids.filter (· < id)).length s.ids
    constructor
    · rintro ((h | h) | h)
      · exact Or.inr (List.mem_of_mem_take h)
      · exact Or.inl h
      · exact Or.inr (List.mem_of_mem_drop h)
    · rintro (h | h)
      · exact Or.inl (Or.inr h)
      · rw [← this, List.mem_append] at h
        exact h.elim (fun h => Or.inl (Or.inl h)) Or.inr
  | some i =>
    have := idx?_some_mem hi
    constructor
    · exact Or.inr
    · rintro (h | h)
      · exact h ▸ this
      · exact h

theorem Shared.has_iff_get? {s : Shared} (j : Nat) (h : s.ids.length = s.data.length) :
    s.has j = true ↔ (s.get? j).isSome = true := by
  obtain ⟨l, rfl⟩ := Shared.exists_pairs h
  rw [Shared.has_ofPairs, Shared.get?_ofPairs, lookK_isSome]

theorem Shared.has_remove {s : Shared} (id j : Nat) (h : s.WF) :
    (s.remove id).has j = true ↔ j ≠ id ∧ s.has j = true := by
  rw [Shared.has_iff_get? j (Shared.wf_remove id h).1, Shared.has_iff_get? j h.1]
  by_cases hj : j = id
  · subst hj; simp [Shared.get?_remove_self j h]
  · simp [Shared.get?_remove_ne h.1 hj, hj]

theorem Shared.add_comm {s : Shared} {i j : Nat} (x y : Nat) (h : s.WF) (hij : i ≠ j) :
    (s.add i x).add j y = (s.add j y).add i x := by
  obtain ⟨l, hl, rfl⟩ := h.exists_pairs
  rw [Shared.add_ofPairs i x hl, Shared.add_ofPairs j y hl,
    Shared.add_ofPairs j y (sortedK_insKV i x hl), Shared.add_ofPairs i x (sortedK_insKV j y hl),
    insKV_comm l x y hij]

theorem Shared.add_add_self {s : Shared} (i x y : Nat) (h : s.WF) : (s.add i x).add i y = s.add i y := by
  obtain ⟨l, hl, rfl⟩ := h.exists_pairs
  rw [Shared.add_ofPairs i x hl, Shared.add_ofPairs i y hl,
    Shared.add_ofPairs i y (sortedK_insKV i x hl), insKV_insKV_self]

theorem Shared.null_merge (s : Shared) : Shared.null.merge s = s := rfl

theorem Shared.get?_foldl_add (l : List (Nat × Nat)) (hn : (l.map Prod.fst).Nodup) {oth : Shared}
    (h : oth.ids.length = oth.data.length) (j : Nat) :
    (l.foldl (fun r p => r.add p.1 p.2) oth).get? j =
      (match lookK l j with | some v => some v | none => oth.get? j) := by
  induction l generalizing oth with
  | nil => rfl
  | cons p t ih =>
    obtain ⟨a, b⟩ := p
    simp only [List.map_cons, List.nodup_cons] at hn
    simp only [List.foldl_cons, lookK]
    rw [ih hn.2 (Shared.len_add a b h)]
    by_cases hj : j = a
    · subst hj
      simp [lookK_eq_none hn.1, Shared.get?_add_self j b h]
    · simp only [if_neg hj, Shared.get?_add_ne b h hj]

/-- `s`'s entries override `oth`'s (of `oth` only the alignment of the two lists is used) -/
theorem Shared.get?_merge {s oth : Shared} (j : Nat) (hs : s.WF) (ho : oth.ids.length = oth.data.length) :
    (s.merge oth).get? j = (match s.get? j with | some v => some v | none => oth.get? j) := by
  have hn : ((s.ids.zip s.data).map Prod.fst).Nodup := by
    rw [List.map_fst_zip (Nat.le_of_eq hs.1)]; exact hs.2.1
  have := Shared.get?_foldl_add (s.ids.zip s.data) hn ho j
  rw [← Shared.get?_ofPairs, Shared.ofPairs_zip hs.1] at this
  exact this

/-! ## extensionality -/

theorem sortedK_ext {l₁ l₂ : List (Nat × Nat)} (h₁ : SortedK l₁) (h₂ : SortedK l₂)
    (h : ∀ j, lookK l₁ j = lookK l₂ j) : l₁ = l₂ := by
  induction l₁ generalizing l₂ with
  | nil =>
    cases l₂ with
    | nil => rfl
    | cons q t => obtain ⟨a, b⟩ := q; have := h a; simp [lookK] at this
  | cons p t₁ ih =>
    obtain ⟨a₁, b₁⟩ := p
    cases l₂ with
    | nil => have := h a₁; simp [lookK] at this
    | cons q t₂ =>
      obtain ⟨a₂, b₂⟩ := q
      have ha : a₁ = a₂ := by
        false_or_by_contra
        rename_i hne
        rcases Nat.lt_or_gt_of_ne hne with hlt | hlt
        · have := h a₁
          have hne' : ¬ a₁ = a₂ := hne
          simp only [lookK, if_true, if_neg hne', lookK_none_of_sorted h₂ (Nat.le_of_lt hlt)] at this
          cases this
        · have := h a₂
          have hne' : ¬ a₂ = a₁ := fun e => hne e.symm
          simp only [lookK, if_true, if_neg hne', lookK_none_of_sorted h₁ (Nat.le_of_lt hlt)] at this
          cases this
      subst ha
      have hb : b₁ = b₂ := by
        have := h a₁
        simpa [lookK] using this
      subst hb
      have ht : t₁ = t₂ := by
        apply ih h₁.2 h₂.2
        intro j
        by_cases hj : j = a₁
        · subst hj
          rw [lookK_none_of_sorted h₁ (Nat.le_refl _), lookK_none_of_sorted h₂ (Nat.le_refl _)]
        · have := h j
          simpa only [lookK, if_neg hj] using this
      rw [ht]

/-- a well-formed descriptor is determined by its map -/
theorem Shared.ext_get? {a b : Shared} (ha : a.WF) (hb : b.WF) (h : ∀ j, a.get? j = b.get? j) : a = b := by
  obtain ⟨l₁, h₁, rfl⟩ := ha.exists_pairs
  obtain ⟨l₂, h₂, rfl⟩ := hb.exists_pairs
  simp only [Shared.get?_ofPairs] at h
  rw [sortedK_ext h₁ h₂ h]

end Mustache.Model

import Mustache.Proofs.SharedArch
import Mustache.Proofs.SharedPool
/-! # Shared edits (`assignShared`, `removeSharedComponent`) move the row and keep the ordinary components (C12) -/
namespace Mustache.Model

variable (info : CompId → CompInfo)

/-- the entity's location is consistent: it points at a row of an archetype that holds the entity -/
structure LocAt (w : WM) (e : Handle) (ai i : Nat) (row : Row) : Prop where
  valid : w.isValid e = true
  idok : e.id ≠ 2^30 - 1
  loc : w.locOf e = ⟨some ai, i⟩
  rowAt : (w.arch ai).rows[i]? = some row
  ent : row.ent = e

def LocOK (w : WM) (e : Handle) : Prop := ∃ ai i row, LocAt w e ai i row ∧ row.vals.length = (w.arch ai).mask.length

/-! ## projections of `setLoc` / `setArch` -/

@[simp] theorem setLoc_slots (w : WM) (h : Handle) (a : Option Nat) (i : Nat) : (w.setLoc h a i).slots = w.slots := by
  unfold WM.setLoc; split <;> rfl
@[simp] theorem setLoc_worldId (w : WM) (h : Handle) (a : Option Nat) (i : Nat) : (w.setLoc h a i).worldId = w.worldId := by
  unfold WM.setLoc; split <;> rfl
@[simp] theorem setLoc_archs (w : WM) (h : Handle) (a : Option Nat) (i : Nat) : (w.setLoc h a i).archs = w.archs := by
  unfold WM.setLoc; split <;> rfl
@[simp] theorem setLoc_locs_length (w : WM) (h : Handle) (a : Option Nat) (i : Nat) :
    (w.setLoc h a i).locs.length = w.locs.length := by
  unfold WM.setLoc; split <;> simp
@[simp] theorem setLoc_arch (w : WM) (h : Handle) (a : Option Nat) (i j : Nat) : (w.setLoc h a i).arch j = w.arch j := by
  unfold WM.arch; rw [setLoc_archs]

theorem locOf_setLoc_self {w : WM} {h : Handle} (hid : h.id ≠ 2^30 - 1) (hlt : h.id < w.locs.length)
    (a : Option Nat) (i : Nat) : (w.setLoc h a i).locOf h = ⟨a, i⟩ := by
  unfold WM.setLoc
  rw [if_neg hid]
  simp [WM.locOf, List.getD_eq_getElem?_getD, hlt]

@[simp] theorem setArch_slots (w : WM) (i : Nat) (a : Arch) : (w.setArch i a).slots = w.slots := rfl
@[simp] theorem setArch_worldId (w : WM) (i : Nat) (a : Arch) : (w.setArch i a).worldId = w.worldId := rfl
@[simp] theorem setArch_locs (w : WM) (i : Nat) (a : Arch) : (w.setArch i a).locs = w.locs := rfl
@[simp] theorem setArch_archs_length (w : WM) (i : Nat) (a : Arch) : (w.setArch i a).archs.length = w.archs.length := by
  simp [WM.setArch]

theorem arch_setArch_self {w : WM} {i : Nat} (hlt : i < w.archs.length) (a : Arch) : (w.setArch i a).arch i = a := by
  simp [WM.setArch, WM.arch, List.getD_eq_getElem?_getD, hlt]

theorem arch_setArch_ne (w : WM) {i j : Nat} (hne : j ≠ i) (a : Arch) : (w.setArch i a).arch j = w.arch j := by
  simp [WM.setArch, WM.arch, List.getD_eq_getElem?_getD, List.getElem?_set_ne (Ne.symm hne)]

theorem isValid_congr {w w' : WM} (hs : w'.slots = w.slots) (hw : w'.worldId = w.worldId) (h : Handle) :
    w'.isValid h = w.isValid h := by
  unfold WM.isValid; rw [hs, hw]

theorem locOf_lt {w : WM} {e : Handle} {ai i : Nat} (h : w.locOf e = ⟨some ai, i⟩) : e.id < w.locs.length := by
  apply Classical.byContradiction
  intro hn
  have : w.locOf e = ⟨none, 0⟩ := by
    simp [WM.locOf, List.getD_eq_getElem?_getD, List.getElem?_eq_none (Nat.le_of_not_lt hn)]
  rw [this] at h; cases h

theorem arch_rows_lt {w : WM} {ai i : Nat} {row : Row} (h : (w.arch ai).rows[i]? = some row) : ai < w.archs.length := by
  apply Classical.byContradiction
  intro hn
  have : w.arch ai = ⟨[], Shared.null, []⟩ := by
    simp [WM.arch, List.getD_eq_getElem?_getD, List.getElem?_eq_none (Nat.le_of_not_lt hn)]
  rw [this] at h; simp at h

/-! ## `archRemove` touches one archetype and some locations only -/

structure ArFrame (w w' : WM) (ai : Nat) : Prop where
  slots : w'.slots = w.slots
  worldId : w'.worldId = w.worldId
  locsLen : w'.locs.length = w.locs.length
  archsLen : w'.archs.length = w.archs.length
  other : ∀ j, j ≠ ai → w'.arch j = w.arch j

theorem archRemove_frame (w : WM) (ai idx : Nat) (skip : Mask) : ArFrame w (w.archRemove info ai idx skip).1 ai := by
  unfold WM.archRemove
  simp only
  split
  · exact ⟨rfl, rfl, rfl, rfl, fun _ _ => rfl⟩
  · split
    · exact ⟨by simp, by simp, by simp, by simp, fun j hj => by simp [arch_setArch_ne _ hj]⟩
    · exact ⟨by simp, by simp, by simp, by simp, fun j hj => by simp [arch_setArch_ne _ hj]⟩

/-! ## `externalMove` to another archetype -/

/-- the values of the new row: carried over where the previous archetype has the component -/
def moveVals (w : WM) (target prev prevIdx : Nat) (skip : Mask) : List Val :=
  (w.arch target).mask.map (fun c =>
    match (w.arch prev).mask.indexOf? c with
    | some i => ((w.arch prev).rows.getD prevIdx default).vals.getD i none
    | none =>
      if skip.contains c then (match (info c).fixed with | some v => some v | none => none)
      else defaultVal info c)

/-- state after a successful `externalMove` -/
def moveState (w : WM) (target : Nat) (e : Handle) (prev prevIdx : Nat) (skip : Mask) : WM :=
  ((w.setArch target { w.arch target with rows := (w.arch target).rows ++ [⟨e, moveVals info w target prev prevIdx skip⟩] }).archRemove
      info prev prevIdx (w.arch target).mask).1.setLoc e (some target) (w.arch target).rows.length

theorem externalMove_self (w : WM) (t : Nat) (e : Handle) (idx : Nat) (skip : Mask) :
    w.externalMove info t e t idx skip = none := by
  unfold WM.externalMove; simp

theorem externalMove_ne (w : WM) {target prev : Nat} (hne : target ≠ prev) (e : Handle) (prevIdx : Nat) (skip : Mask) :
    ∃ cbs, w.externalMove info target e prev prevIdx skip = some (moveState info w target e prev prevIdx skip, cbs) := by
  unfold WM.externalMove
  rw [if_neg hne]
  exact ⟨_, rfl⟩

theorem getD_map_indexOf {β : Type} (m : List Nat) (f : Nat → β) (d : β) {c ci : Nat} (h : Mask.indexOf? m c = some ci) :
    (m.map f).getD ci d = f c := by
  obtain ⟨hlt, hget⟩ := Mask.indexOf?_eq_some h
  simp [List.getD_eq_getElem?_getD, hget]

/-- what a move to a different archetype `ti` does to entity `e` -/
theorem moveState_post {w : WM} {e : Handle} {pi idx : Nat} {row : Row} (h : LocAt w e pi idx row)
    {ti : Nat} (hti : ti < w.archs.length) (hne : ti ≠ pi) (skip : Mask) :
    LocAt (moveState info w ti e pi idx skip) e ti (w.arch ti).rows.length ⟨e, moveVals info w ti pi idx skip⟩ ∧
    ((moveState info w ti e pi idx skip).arch ti).mask = (w.arch ti).mask ∧
    ((moveState info w ti e pi idx skip).arch ti).shared = (w.arch ti).shared ∧
    (∀ c, (moveState info w ti e pi idx skip).hasComp e c = (w.arch ti).mask.contains c) ∧
    (∀ c ∈ (w.arch pi).mask, c ∈ (w.arch ti).mask →
      (moveState info w ti e pi idx skip).getComp e c = w.getComp e c) := by
  -- the three stages
  let ta' : Arch := { w.arch ti with rows := (w.arch ti).rows ++ [⟨e, moveVals info w ti pi idx skip⟩] }
  have fr := archRemove_frame info (w.setArch ti ta') pi idx (w.arch ti).mask
  have hvalid : (moveState info w ti e pi idx skip).isValid e = true := by
    rw [← h.valid]
    apply isValid_congr
    · simp only [moveState, setLoc_slots]; rw [fr.slots]; rfl
    · simp only [moveState, setLoc_worldId]; rw [fr.worldId]; rfl
  have hloc : (moveState info w ti e pi idx skip).locOf e = ⟨some ti, (w.arch ti).rows.length⟩ := by
    apply locOf_setLoc_self h.idok
    rw [fr.locsLen]
    exact locOf_lt h.loc
  have harch : (moveState info w ti e pi idx skip).arch ti = ta' := by
    simp only [moveState, setLoc_arch]
    rw [fr.other ti hne]
    exact arch_setArch_self hti ta'
  have hrow : ta'.rows[(w.arch ti).rows.length]? = some ⟨e, moveVals info w ti pi idx skip⟩ := by
    simp [ta']
  refine ⟨⟨hvalid, h.idok, hloc, by rw [harch]; exact hrow, rfl⟩, by rw [harch], by rw [harch], ?_, ?_⟩
  · intro c
    unfold WM.hasComp
    rw [hvalid, hloc]
    simp only [Bool.true_and]
    rw [harch]
  · intro c hcp hct
    obtain ⟨i, hi⟩ := Option.isSome_iff_exists.mp (Mask.indexOf?_isSome.mpr hcp)
    obtain ⟨ci, hci⟩ := Option.isSome_iff_exists.mp (Mask.indexOf?_isSome.mpr hct)
    have hv : w.isValid e = true := h.valid
    have hrowD : (w.arch pi).rows.getD idx default = row := by
      simp [List.getD_eq_getElem?_getD, h.rowAt]
    unfold WM.getComp
    rw [hvalid, hloc, hv, h.loc]
    simp only [Bool.not_true, Bool.false_eq_true, if_false]
    rw [harch]
    have hci' : Mask.indexOf? ta'.mask c = some ci := hci
    rw [hci', hi]
    simp only
    congr 1
    have : ta'.rows.getD (w.arch ti).rows.length default = ⟨e, moveVals info w ti pi idx skip⟩ := by
      simp [List.getD_eq_getElem?_getD, hrow]
    rw [this]
    simp only
    unfold moveVals
    rw [getD_map_indexOf _ _ _ hci, hi]

/-! ## frames of `poolGet` and `getArch` -/

theorem getArch_slots (w : WM) (m : List Nat) (sh : Shared) : (w.getArch m sh).1.slots = w.slots := by
  rcases getArch_cases w m sh with ⟨i, _, he⟩ | ⟨_, he⟩ <;> rw [he]
theorem getArch_worldId (w : WM) (m : List Nat) (sh : Shared) : (w.getArch m sh).1.worldId = w.worldId := by
  rcases getArch_cases w m sh with ⟨i, _, he⟩ | ⟨_, he⟩ <;> rw [he]
theorem getArch_locs (w : WM) (m : List Nat) (sh : Shared) : (w.getArch m sh).1.locs = w.locs := by
  rcases getArch_cases w m sh with ⟨i, _, he⟩ | ⟨_, he⟩ <;> rw [he]
theorem getArch_deps (w : WM) (m : List Nat) (sh : Shared) : (w.getArch m sh).1.deps = w.deps := by
  rcases getArch_cases w m sh with ⟨i, _, he⟩ | ⟨_, he⟩ <;> rw [he]

/-- `LocAt`, `getComp`, `hasComp` only read slots, world id, locations and the archetype they point at -/
theorem LocAt.transfer {w w' : WM} {e : Handle} {ai i : Nat} {row : Row} (h : LocAt w e ai i row)
    (hs : w'.slots = w.slots) (hw : w'.worldId = w.worldId) (hl : w'.locs = w.locs) (ha : w'.arch ai = w.arch ai) :
    LocAt w' e ai i row :=
  ⟨by rw [isValid_congr hs hw]; exact h.valid, h.idok, by unfold WM.locOf; rw [hl]; exact h.loc,
   by rw [ha]; exact h.rowAt, h.ent⟩

theorem getComp_transfer {w w' : WM} {e : Handle} {ai i : Nat} (hloc : w.locOf e = ⟨some ai, i⟩)
    (hs : w'.slots = w.slots) (hw : w'.worldId = w.worldId) (hl : w'.locs = w.locs) (ha : w'.arch ai = w.arch ai)
    (c : CompId) : w'.getComp e c = w.getComp e c := by
  have hloc' : w'.locOf e = ⟨some ai, i⟩ := by unfold WM.locOf; rw [hl]; exact hloc
  unfold WM.getComp
  rw [isValid_congr hs hw, hloc, hloc']
  simp only [ha]

theorem hasComp_transfer {w w' : WM} {e : Handle} {ai i : Nat} (hloc : w.locOf e = ⟨some ai, i⟩)
    (hs : w'.slots = w.slots) (hw : w'.worldId = w.worldId) (hl : w'.locs = w.locs) (ha : w'.arch ai = w.arch ai)
    (c : CompId) : w'.hasComp e c = w.hasComp e c := by
  have hloc' : w'.locOf e = ⟨some ai, i⟩ := by unfold WM.locOf; rw [hl]; exact hloc
  unfold WM.hasComp
  rw [isValid_congr hs hw, hloc, hloc']
  simp only [ha]

theorem hasComp_of_locAt {w : WM} {e : Handle} {ai i : Nat} {row : Row} (h : LocAt w e ai i row) (c : CompId) :
    w.hasComp e c = (w.arch ai).mask.contains c := by
  unfold WM.hasComp; rw [h.valid, h.loc]; simp

/-! ## the common core of `sassign` / `sremove`: same mask, new shared descriptor -/

/-- `getArch pa.mask sh` followed by `externalMove … []` -/
def WM.reshare (w : WM) (e : Handle) (pi idx : Nat) (sh : Shared) : WM × Option (List Cb) :=
  match (w.getArch (w.arch pi).mask sh).1.externalMove info (w.getArch (w.arch pi).mask sh).2 e pi idx [] with
  | none => ((w.getArch (w.arch pi).mask sh).1, none)
  | some r => (r.1, some r.2)

/-- after re-sharing the entity is at a consistent location in an archetype whose mask is the closure of
    the old mask; it has exactly those components, and every old component keeps its value -/
theorem reshare_post {w : WM} {e : Handle} {pi idx : Nat} {row : Row} (h : LocAt w e pi idx row) (sh : Shared) :
    (∃ ti i' row', LocAt (w.reshare info e pi idx sh).1 e ti i' row' ∧
      ((w.reshare info e pi idx sh).1.arch ti).mask = closedMask w.deps (w.arch pi).mask ∧
      ((w.reshare info e pi idx sh).1.arch ti).shared.data = sh.data ∧
      (row.vals.length = (w.arch pi).mask.length →
        row'.vals.length = ((w.reshare info e pi idx sh).1.arch ti).mask.length)) ∧
    (∀ c, (w.reshare info e pi idx sh).1.hasComp e c = (closedMask w.deps (w.arch pi).mask).contains c) ∧
    (∀ c ∈ (w.arch pi).mask, (w.reshare info e pi idx sh).1.getComp e c = w.getComp e c) := by
  have post := getArch_post w (w.arch pi).mask sh
  have hpi : pi < w.archs.length := arch_rows_lt h.rowAt
  have hs := getArch_slots w (w.arch pi).mask sh
  have hw := getArch_worldId w (w.arch pi).mask sh
  have hl := getArch_locs w (w.arch pi).mask sh
  have ha := post.old pi hpi
  have h1 : LocAt (w.getArch (w.arch pi).mask sh).1 e pi idx row := h.transfer hs hw hl ha
  by_cases hne : (w.getArch (w.arch pi).mask sh).2 = pi
  · -- the lookup returned the entity's own archetype: nothing moves
    have hr : w.reshare info e pi idx sh = ((w.getArch (w.arch pi).mask sh).1, none) := by
      unfold WM.reshare; rw [hne, externalMove_self]
    rw [hr]
    have hm : (w.arch pi).mask = closedMask w.deps (w.arch pi).mask := by
      have := post.mask; rw [hne, ha] at this; exact this
    have hdat : ((w.getArch (w.arch pi).mask sh).1.arch pi).shared.data = sh.data := by
      have := post.data; rw [hne] at this; exact this
    refine ⟨⟨pi, idx, row, h1, by rw [ha]; exact hm, hdat, fun hlen => by rw [ha]; exact hlen⟩, ?_, ?_⟩
    · intro c
      rw [hasComp_of_locAt h1, ha, ← hm]
    · intro c _
      exact getComp_transfer h.loc hs hw hl ha c
  · obtain ⟨cbs, hmv⟩ := externalMove_ne info (w.getArch (w.arch pi).mask sh).1 hne e idx []
    have hr : w.reshare info e pi idx sh =
        (moveState info (w.getArch (w.arch pi).mask sh).1 (w.getArch (w.arch pi).mask sh).2 e pi idx [], some cbs) := by
      unfold WM.reshare; rw [hmv]
    rw [hr]
    obtain ⟨m1, m2, m3, m4, m5⟩ := moveState_post info h1 post.lt hne []
    refine ⟨⟨_, _, _, m1, by rw [m2]; exact post.mask, by rw [m3]; exact post.data,
      fun _ => by rw [m2]; simp [moveVals]⟩, ?_, ?_⟩
    · intro c; rw [m4 c, post.mask]
    · intro c hc
      have hc1 : c ∈ ((w.getArch (w.arch pi).mask sh).1.arch pi).mask := by rw [ha]; exact hc
      have hc2 : c ∈ ((w.getArch (w.arch pi).mask sh).1.arch (w.getArch (w.arch pi).mask sh).2).mask := by
        rw [post.mask]; exact subset_closedMask hc
      rw [m5 c hc1 hc2]
      exact getComp_transfer h.loc hs hw hl ha c

/-! ## `sassign` / `sremove` are re-sharings -/

theorem LocAt.poolGet {w : WM} {e : Handle} {ai i : Nat} {row : Row} (h : LocAt w e ai i row) (sid v : Nat) :
    LocAt (w.poolGet sid v).1 e ai i row :=
  h.transfer (by simp) (by simp) (by simp) (by simp [WM.arch])

theorem sassign_eq {w : WM} {e : Handle} {pi idx : Nat} (hloc : w.locOf e = ⟨some pi, idx⟩) (sid v : Nat) :
    (w.sassign info e sid v).1 =
      ((w.poolGet sid v).1.reshare info e pi idx ((w.arch pi).shared.add sid (w.poolGet sid v).2)).1 := by
  have ha : (w.poolGet sid v).1.arch pi = w.arch pi := by simp [WM.arch]
  unfold WM.sassign WM.reshare
  simp only [hloc, ha]
  split <;> rename_i heq <;> rw [heq]

theorem sremove_eq {w : WM} {e : Handle} {pi idx : Nat} (hv : w.isValid e = true) (hloc : w.locOf e = ⟨some pi, idx⟩)
    (sid : Nat) (hhas : (w.arch pi).shared.has sid = true) :
    (w.sremove info e sid).1 = (w.reshare info e pi idx ((w.arch pi).shared.remove sid)).1 := by
  unfold WM.sremove WM.reshare
  simp only [hv, hloc, hhas, Bool.not_true, Bool.false_eq_true, if_false]
  split <;> rename_i heq <;> rw [heq]

theorem sremove_absent {w : WM} {e : Handle} {pi idx : Nat} (hloc : w.locOf e = ⟨some pi, idx⟩)
    (sid : Nat) (hhas : (w.arch pi).shared.has sid = false) : w.sremove info e sid = (w, false, []) := by
  unfold WM.sremove
  simp only [hloc, hhas]
  split <;> simp

/-- what a shared edit of entity `e` (row in archetype `ai` of `w`) guarantees about the state `w'` after -/
structure EditPost (w w' : WM) (e : Handle) (ai : Nat) : Prop where
  /-- still at a consistent location, in an archetype whose mask is the closure of the old mask -/
  loc : ∃ ai' i' row', LocAt w' e ai' i' row' ∧ (w'.arch ai').mask = closedMask w.deps (w.arch ai).mask ∧
    row'.vals.length = (w'.arch ai').mask.length
  /-- the entity has exactly the closure of its old component set -/
  has : ∀ c, w'.hasComp e c = (closedMask w.deps (w.arch ai).mask).contains c
  /-- every component it had is still there with the same value -/
  vals : ∀ c, w.hasComp e c = true → w'.hasComp e c = true ∧ w'.getComp e c = w.getComp e c
  deps : w'.deps = w.deps

theorem reshare_deps (w : WM) (e : Handle) (pi idx : Nat) (sh : Shared) :
    (w.reshare info e pi idx sh).1.deps = w.deps := by
  have hd := getArch_deps w (w.arch pi).mask sh
  by_cases hne : (w.getArch (w.arch pi).mask sh).2 = pi
  · have hr : w.reshare info e pi idx sh = ((w.getArch (w.arch pi).mask sh).1, none) := by
      unfold WM.reshare; rw [hne, externalMove_self]
    rw [hr]; exact hd
  · obtain ⟨cbs, hmv⟩ := externalMove_ne info (w.getArch (w.arch pi).mask sh).1 hne e idx []
    have hr : w.reshare info e pi idx sh =
        (moveState info (w.getArch (w.arch pi).mask sh).1 (w.getArch (w.arch pi).mask sh).2 e pi idx [], some cbs) := by
      unfold WM.reshare; rw [hmv]
    rw [hr, ← hd]
    simp only [moveState]
    have : ∀ (w : WM) (h : Handle) (a : Option Nat) (i : Nat), (w.setLoc h a i).deps = w.deps := by
      intro w h a i; unfold WM.setLoc; split <;> rfl
    rw [this]
    unfold WM.archRemove
    simp only
    split
    · rfl
    · split <;> simp [this, WM.setArch]

theorem reshare_editPost {w : WM} {e : Handle} {pi idx : Nat} {row : Row} (h : LocAt w e pi idx row)
    (hlen : row.vals.length = (w.arch pi).mask.length) (sh : Shared) :
    EditPost w (w.reshare info e pi idx sh).1 e pi := by
  obtain ⟨⟨ti, i', row', hl, hm, _, hln⟩, hhas, hvals⟩ := reshare_post info h sh
  refine ⟨⟨ti, i', row', hl, hm, hln hlen⟩, hhas, ?_, reshare_deps info w e pi idx sh⟩
  intro c hc
  have hc' : c ∈ (w.arch pi).mask := by
    rw [hasComp_of_locAt h] at hc; simpa using hc
  refine ⟨?_, hvals c hc'⟩
  rw [hhas c]
  simpa using (subset_closedMask (deps := w.deps) hc')

theorem sassign_post {w : WM} {e : Handle} {ai i : Nat} {row : Row} (h : LocAt w e ai i row)
    (hlen : row.vals.length = (w.arch ai).mask.length) (sid v : Nat) :
    EditPost w (w.sassign info e sid v).1 e ai := by
  have h0 := h.poolGet sid v
  have ha : (w.poolGet sid v).1.arch ai = w.arch ai := by simp [WM.arch]
  have hd : (w.poolGet sid v).1.deps = w.deps := by simp
  have post := reshare_editPost info h0 (by rw [ha]; exact hlen) ((w.arch ai).shared.add sid (w.poolGet sid v).2)
  rw [sassign_eq info h.loc sid v]
  obtain ⟨⟨ti, i', row', hl, hm⟩, hhas, hvals, hdeps⟩ := post
  rw [hd, ha] at hm hhas
  refine ⟨⟨ti, i', row', hl, hm⟩, hhas, ?_, hdeps.trans hd⟩
  intro c hc
  have htr : ∀ c, (w.poolGet sid v).1.getComp e c = w.getComp e c :=
    getComp_transfer h.loc (by simp) (by simp) (by simp) ha
  have htr' : ∀ c, (w.poolGet sid v).1.hasComp e c = w.hasComp e c :=
    hasComp_transfer h.loc (by simp) (by simp) (by simp) ha
  have := hvals c (by rw [htr']; exact hc)
  rw [htr] at this
  exact this

theorem sremove_post {w : WM} {e : Handle} {ai i : Nat} {row : Row} (h : LocAt w e ai i row)
    (hlen : row.vals.length = (w.arch ai).mask.length) (sid : Nat) :
    ((w.arch ai).shared.has sid = false ∧ w.sremove info e sid = (w, false, [])) ∨
    ((w.arch ai).shared.has sid = true ∧ EditPost w (w.sremove info e sid).1 e ai) := by
  cases hh : (w.arch ai).shared.has sid with
  | false => exact Or.inl ⟨rfl, sremove_absent info h.loc sid hh⟩
  | true =>
    refine Or.inr ⟨rfl, ?_⟩
    rw [sremove_eq info h.valid h.loc sid hh]
    exact reshare_editPost info h hlen _

theorem EditPost.locOK {w w' : WM} {e : Handle} {ai : Nat} (h : EditPost w w' e ai) : LocOK w' e := by
  obtain ⟨a, b, r, hl, _, hlen⟩ := h.loc
  exact ⟨a, b, r, hl, hlen⟩

end Mustache.Model

import Mustache.Model.World
/-! # the shared-value pool (`WM.poolGet`, `WM.freshInst`): one instance per (shared id, value) -/
namespace Mustache.Model

def poolEntries (pool : List (Nat × List (Nat × Nat))) (sid : Nat) : List (Nat × Nat) :=
  match pool.find? (·.1 == sid) with | some (_, l) => l | none => []

/-- per shared id: no two entries with the same value, no two with the same instance; every instance is
    below `nextInst`; and an instance id belongs to one shared id only -/
structure PoolInv (w : WM) : Prop where
  vals_nodup : ∀ sid, ((poolEntries w.pool sid).map (·.1)).Nodup
  insts_nodup : ∀ sid, ((poolEntries w.pool sid).map (·.2)).Nodup
  inst_lt : ∀ sid, ∀ p ∈ poolEntries w.pool sid, p.2 < w.nextInst
  inst_sid : ∀ sid sid', ∀ p ∈ poolEntries w.pool sid, ∀ q ∈ poolEntries w.pool sid', p.2 = q.2 → sid = sid'

/-! ## list helpers -/

/-- `find?` by first component commutes with a map that preserves first components -/
theorem find?_map_fst {β : Type} (f : Nat × β → Nat × β) (hf : ∀ p, (f p).1 = p.1)
    (l : List (Nat × β)) (k : Nat) :
    (l.map f).find? (·.1 == k) = (l.find? (·.1 == k)).map f := by
  induction l with
  | nil => rfl
  | cons p t ih =>
    simp only [List.map_cons, List.find?_cons, hf]
    cases p.1 == k <;> simp [ih]

theorem find?_fst_some {β : Type} {l : List (Nat × β)} {k : Nat} {p : Nat × β}
    (h : l.find? (·.1 == k) = some p) : p ∈ l ∧ p.1 = k := by
  refine ⟨List.mem_of_find?_eq_some h, ?_⟩
  have := List.find?_some (p := fun x : Nat × β => x.1 == k) h
  simpa using this

theorem any_fst_of_find?_some {β : Type} {l : List (Nat × β)} {k : Nat} {p : Nat × β}
    (h : l.find? (·.1 == k) = some p) : l.any (·.1 == k) = true :=
  List.any_eq_true.2 ⟨p, (find?_fst_some h).1, by simp [(find?_fst_some h).2]⟩

theorem any_fst_of_find?_none {β : Type} {l : List (Nat × β)} {k : Nat}
    (h : l.find? (·.1 == k) = none) : l.any (·.1 == k) = false := by
  rw [List.find?_eq_none] at h
  rw [List.any_eq_false]; exact h

theorem find?_fst_of_nodup {l : List (Nat × Nat)} {v i : Nat} (hn : (l.map (·.1)).Nodup)
    (hm : (v, i) ∈ l) : l.find? (·.1 == v) = some (v, i) := by
  induction l with
  | nil => cases hm
  | cons p t ih =>
    simp only [List.map_cons, List.nodup_cons] at hn
    rcases List.mem_cons.1 hm with rfl | hm
    · simp
    · have hne : ¬ p.1 = v := fun e => hn.1 (e ▸ List.mem_map.2 ⟨(v, i), hm, rfl⟩)
      have hb : (p.1 == v) = false := by simp [hne]
      rw [List.find?_cons, hb]; exact ih hn.2 hm

theorem snd_inj_of_nodup {l : List (Nat × Nat)} {a b i : Nat} (hn : (l.map (·.2)).Nodup)
    (ha : (a, i) ∈ l) (hb : (b, i) ∈ l) : a = b := by
  induction l with
  | nil => cases ha
  | cons p t ih =>
    simp only [List.map_cons, List.nodup_cons] at hn
    rcases List.mem_cons.1 ha with rfl | ha' <;> rcases List.mem_cons.1 hb with hb' | hb'
    · exact (Prod.mk.inj hb').1.symm
    · exact absurd (List.mem_map.2 ⟨(b, i), hb', rfl⟩) hn.1
    · subst hb'; exact (hn.1 (List.mem_map.2 ⟨(a, i), ha', rfl⟩)).elim
    · exact ih hn.2 ha' hb'

/-! ## `poolEntries` after an update -/

/-- the pool update of `poolGet` -/
def poolSet (pool : List (Nat × List (Nat × Nat))) (sid : Nat) (es : List (Nat × Nat)) :
    List (Nat × List (Nat × Nat)) :=
  if pool.any (·.1 == sid) then pool.map (fun p => if p.1 == sid then (sid, es) else p)
  else pool ++ [(sid, es)]

theorem poolEntries_poolSet (pool : List (Nat × List (Nat × Nat))) (sid : Nat) (es : List (Nat × Nat))
    (sid' : Nat) :
    poolEntries (poolSet pool sid es) sid' = if sid' = sid then es else poolEntries pool sid' := by
  unfold poolSet
  by_cases ha : pool.any (·.1 == sid) = true
  · rw [if_pos ha]
    unfold poolEntries
    rw [find?_map_fst (fun p => if p.1 == sid then (sid, es) else p)
      (by intro p; by_cases h : p.1 = sid <;> simp [h])]
    by_cases hs : sid' = sid
    · subst hs
      rw [if_pos rfl]
      cases hf : pool.find? (·.1 == sid') with
      | none =>
        rw [List.find?_eq_none] at hf
        rw [List.any_eq_true] at ha
        obtain ⟨p, hp, hp'⟩ := ha
        exact absurd hp' (hf p hp)
      | some p =>
        have h2 := (find?_fst_some hf).2
        simp [h2]
    · rw [if_neg hs]
      cases hf : pool.find? (·.1 == sid') with
      | none => rfl
      | some p =>
        have h2 := (find?_fst_some hf).2
        have h3 : ¬ p.1 = sid := by rw [h2]; exact hs
        simp [h3]
  · rw [if_neg ha]
    unfold poolEntries
    rw [List.find?_append]
    have ha' : ∀ p ∈ pool, ¬ (p.1 == sid) = true := by
      intro p hp hq; exact ha (List.any_eq_true.2 ⟨p, hp, hq⟩)
    by_cases hs : sid' = sid
    · subst hs
      rw [if_pos rfl, List.find?_eq_none.2 ha']
      simp
    · rw [if_neg hs]
      have hb : (sid == sid') = false := by simp; exact fun e => hs e.symm
      simp [hb]

/-! ## `poolGet` unfolded -/

theorem poolGet_eq (w : WM) (sid v : Nat) :
    w.poolGet sid v =
      match (poolEntries w.pool sid).find? (·.1 == v) with
      | some p => (w, p.2)
      | none =>
        ({ w with pool := poolSet w.pool sid (poolEntries w.pool sid ++ [(v, w.nextInst)]),
                  nextInst := w.nextInst + 1 }, w.nextInst) := by
  unfold WM.poolGet poolEntries poolSet
  cases w.pool.find? (·.1 == sid) with
  | none => simp only []; cases List.find? (fun x : Nat × Nat => x.1 == v) [] <;> rfl
  | some q =>
    obtain ⟨k, es⟩ := q
    simp only []; cases List.find? (fun x : Nat × Nat => x.1 == v) es <;> rfl

theorem poolGet_found {w : WM} {sid v : Nat} {p : Nat × Nat}
    (h : (poolEntries w.pool sid).find? (·.1 == v) = some p) : w.poolGet sid v = (w, p.2) := by
  rw [poolGet_eq, h]

theorem poolGet_fresh {w : WM} {sid v : Nat}
    (h : (poolEntries w.pool sid).find? (·.1 == v) = none) :
    w.poolGet sid v =
      ({ w with pool := poolSet w.pool sid (poolEntries w.pool sid ++ [(v, w.nextInst)]),
                nextInst := w.nextInst + 1 }, w.nextInst) := by
  rw [poolGet_eq, h]

/-- exact description of the entries after `poolGet` -/
theorem poolGet_entries (w : WM) (sid v sid' : Nat) :
    poolEntries (w.poolGet sid v).1.pool sid' =
      if sid' = sid then
        (if (poolEntries w.pool sid).any (·.1 == v) then poolEntries w.pool sid
         else poolEntries w.pool sid ++ [(v, w.nextInst)])
      else poolEntries w.pool sid' := by
  cases hf : (poolEntries w.pool sid).find? (·.1 == v) with
  | some p =>
    have ha : (poolEntries w.pool sid).any (·.1 == v) = true := any_fst_of_find?_some hf
    rw [poolGet_found hf, ha]
    by_cases hs : sid' = sid <;> simp [hs]
  | none =>
    have ha : (poolEntries w.pool sid).any (·.1 == v) = false := any_fst_of_find?_none hf
    rw [poolGet_fresh hf, ha]
    simp only [poolEntries_poolSet]
    by_cases hs : sid' = sid <;> simp [hs]

theorem poolGet_nextInst (w : WM) (sid v : Nat) :
    (w.poolGet sid v).1.nextInst =
      if (poolEntries w.pool sid).any (·.1 == v) then w.nextInst else w.nextInst + 1 := by
  cases hf : (poolEntries w.pool sid).find? (·.1 == v) with
  | some p =>
    have ha : (poolEntries w.pool sid).any (·.1 == v) = true := any_fst_of_find?_some hf
    rw [poolGet_found hf, ha]; rfl
  | none =>
    have ha : (poolEntries w.pool sid).any (·.1 == v) = false := any_fst_of_find?_none hf
    rw [poolGet_fresh hf, ha]; rfl

/-- membership form of `poolGet_entries` -/
theorem mem_poolGet_entries (w : WM) (sid v sid' : Nat) (p : Nat × Nat) :
    p ∈ poolEntries (w.poolGet sid v).1.pool sid' ↔
      p ∈ poolEntries w.pool sid' ∨
        (sid' = sid ∧ p = (v, w.nextInst) ∧ (poolEntries w.pool sid).any (·.1 == v) = false) := by
  rw [poolGet_entries]
  by_cases hs : sid' = sid
  · subst hs
    cases ha : (poolEntries w.pool sid').any (·.1 == v) <;> simp
  · simp [hs]

/-! ## frame -/

theorem poolGet_frame (w : WM) (sid v : Nat) :
    (w.poolGet sid v).1 =
      { w with pool := (w.poolGet sid v).1.pool, nextInst := (w.poolGet sid v).1.nextInst } := by
  rw [poolGet_eq]; split <;> rfl

@[simp] theorem poolGet_worldId (w : WM) (sid v : Nat) : (w.poolGet sid v).1.worldId = w.worldId := by
  rw [poolGet_eq]; split <;> rfl
@[simp] theorem poolGet_slots (w : WM) (sid v : Nat) : (w.poolGet sid v).1.slots = w.slots := by
  rw [poolGet_eq]; split <;> rfl
@[simp] theorem poolGet_next (w : WM) (sid v : Nat) : (w.poolGet sid v).1.next = w.next := by
  rw [poolGet_eq]; split <;> rfl
@[simp] theorem poolGet_empty (w : WM) (sid v : Nat) : (w.poolGet sid v).1.empty = w.empty := by
  rw [poolGet_eq]; split <;> rfl
@[simp] theorem poolGet_locs (w : WM) (sid v : Nat) : (w.poolGet sid v).1.locs = w.locs := by
  rw [poolGet_eq]; split <;> rfl
@[simp] theorem poolGet_archs (w : WM) (sid v : Nat) : (w.poolGet sid v).1.archs = w.archs := by
  rw [poolGet_eq]; split <;> rfl
@[simp] theorem poolGet_deps (w : WM) (sid v : Nat) : (w.poolGet sid v).1.deps = w.deps := by
  rw [poolGet_eq]; split <;> rfl
@[simp] theorem poolGet_lockDepth (w : WM) (sid v : Nat) : (w.poolGet sid v).1.lockDepth = w.lockDepth := by
  rw [poolGet_eq]; split <;> rfl
@[simp] theorem poolGet_nextEntityId (w : WM) (sid v : Nat) :
    (w.poolGet sid v).1.nextEntityId = w.nextEntityId := by
  rw [poolGet_eq]; split <;> rfl
@[simp] theorem poolGet_nthreads (w : WM) (sid v : Nat) : (w.poolGet sid v).1.nthreads = w.nthreads := by
  rw [poolGet_eq]; split <;> rfl
@[simp] theorem poolGet_buffers (w : WM) (sid v : Nat) : (w.poolGet sid v).1.buffers = w.buffers := by
  rw [poolGet_eq]; split <;> rfl
@[simp] theorem poolGet_marked (w : WM) (sid v : Nat) : (w.poolGet sid v).1.marked = w.marked := by
  rw [poolGet_eq]; split <;> rfl
@[simp] theorem poolGet_temps (w : WM) (sid v : Nat) : (w.poolGet sid v).1.temps = w.temps := by
  rw [poolGet_eq]; split <;> rfl

theorem poolGet_nextInst_le (w : WM) (sid v : Nat) : w.nextInst ≤ (w.poolGet sid v).1.nextInst := by
  rw [poolGet_nextInst]; split <;> omega

@[simp] theorem freshInst_pool (w : WM) : w.freshInst.1.pool = w.pool := rfl
@[simp] theorem freshInst_nextInst (w : WM) : w.freshInst.1.nextInst = w.nextInst + 1 := rfl
@[simp] theorem freshInst_snd (w : WM) : w.freshInst.2 = w.nextInst := rfl

/-! ## the invariant -/

theorem poolInv_of_pool_nil {w : WM} (h : w.pool = []) : PoolInv w := by
  constructor <;> simp [h, poolEntries]

theorem poolInv_init : PoolInv {} := poolInv_of_pool_nil rfl

theorem freshInst_inv {w : WM} (h : PoolInv w) : PoolInv w.freshInst.1 where
  vals_nodup := h.vals_nodup
  insts_nodup := h.insts_nodup
  inst_lt := fun sid p hp => Nat.lt_succ_of_lt (h.inst_lt sid p hp)
  inst_sid := h.inst_sid

theorem poolGet_inv {w : WM} (sid v : Nat) (h : PoolInv w) : PoolInv (w.poolGet sid v).1 := by
  cases hf : (poolEntries w.pool sid).find? (·.1 == v) with
  | some p => rw [poolGet_found hf]; exact h
  | none =>
    have ha : (poolEntries w.pool sid).any (·.1 == v) = false := any_fst_of_find?_none hf
    have hv : v ∉ (poolEntries w.pool sid).map (·.1) := by
      intro hm
      obtain ⟨p, hp, e⟩ := List.mem_map.1 hm
      rw [List.find?_eq_none] at hf
      exact hf p hp (by simpa using e)
    have hi : w.nextInst ∉ (poolEntries w.pool sid).map (·.2) := by
      intro hm
      obtain ⟨p, hp, e⟩ := List.mem_map.1 hm
      have := h.inst_lt sid p hp
      have e' : p.2 = w.nextInst := e
      omega
    have hn : (w.poolGet sid v).1.nextInst = w.nextInst + 1 := by rw [poolGet_nextInst, ha]; rfl
    constructor
    · intro s
      rw [poolGet_entries, ha]
      by_cases hs : s = sid
      · subst hs
        simp only [if_true, Bool.false_eq_true, if_false, List.map_append, List.map_cons, List.map_nil]
        rw [List.nodup_append]
        refine ⟨h.vals_nodup s, by simp, ?_⟩
        intro a ha' b hb; simp only [List.mem_singleton] at hb
        subst hb; exact fun e => hv (e ▸ ha')
      · simp only [if_neg hs]; exact h.vals_nodup s
    · intro s
      rw [poolGet_entries, ha]
      by_cases hs : s = sid
      · subst hs
        simp only [if_true, Bool.false_eq_true, if_false, List.map_append, List.map_cons, List.map_nil]
        rw [List.nodup_append]
        refine ⟨h.insts_nodup s, by simp, ?_⟩
        intro a ha' b hb; simp only [List.mem_singleton] at hb
        subst hb; exact fun e => hi (e ▸ ha')
      · simp only [if_neg hs]; exact h.insts_nodup s
    · intro s p hp
      rw [hn]
      rcases (mem_poolGet_entries w sid v s p).1 hp with hp | ⟨_, rfl, _⟩
      · exact Nat.lt_succ_of_lt (h.inst_lt s p hp)
      · exact Nat.lt_succ_self _
    · intro s s' p hp q hq e
      have hp' := (mem_poolGet_entries w sid v s p).1 hp
      have hq' := (mem_poolGet_entries w sid v s' q).1 hq
      rcases hp' with hp' | ⟨hs, hpe, _⟩ <;> rcases hq' with hq' | ⟨hs', hqe, _⟩
      · exact h.inst_sid s s' p hp' q hq' e
      · have := h.inst_lt s p hp'
        have e' : p.2 = w.nextInst := by rw [e, hqe]
        omega
      · have := h.inst_lt s' q hq'
        have e' : q.2 = w.nextInst := by rw [← e, hpe]
        omega
      · rw [hs, hs']

/-! ## what `poolGet` returns -/

/-- the returned instance is pooled under value `v` (no invariant needed) -/
theorem poolGet_mem (w : WM) (sid v : Nat) :
    (v, (w.poolGet sid v).2) ∈ poolEntries (w.poolGet sid v).1.pool sid := by
  cases hf : (poolEntries w.pool sid).find? (·.1 == v) with
  | some p =>
    rw [poolGet_found hf]
    have h1 := (find?_fst_some hf).1
    have h2 : p.1 = v := (find?_fst_some hf).2
    show (v, p.2) ∈ poolEntries w.pool sid
    rw [← h2]; exact h1
  | none =>
    have ha : (poolEntries w.pool sid).any (·.1 == v) = false := any_fst_of_find?_none hf
    rw [mem_poolGet_entries]
    refine Or.inr ⟨rfl, ?_, ha⟩
    rw [poolGet_fresh hf]

/-- a pooled value is found again, state unchanged -/
theorem poolGet_stable {w : WM} {sid v i : Nat} (h : PoolInv w) (hm : (v, i) ∈ poolEntries w.pool sid) :
    w.poolGet sid v = (w, i) :=
  poolGet_found (find?_fst_of_nodup (h.vals_nodup sid) hm)

/-- entries only grow -/
theorem poolGet_mono (w : WM) (sid v : Nat) {sid' : Nat} {p : Nat × Nat}
    (h : p ∈ poolEntries w.pool sid') : p ∈ poolEntries (w.poolGet sid v).1.pool sid' :=
  (mem_poolGet_entries w sid v sid' p).2 (Or.inl h)

/-- key lemma: once `(v, i)` is pooled under `sid`, `poolGet sid v'` returns `i` iff `v' = v` -/
theorem poolGet_eq_iff_of_mem {w : WM} {sid v i : Nat} (h : PoolInv w)
    (hm : (v, i) ∈ poolEntries w.pool sid) (v' : Nat) : (w.poolGet sid v').2 = i ↔ v' = v := by
  constructor
  · intro e
    have h1 := poolGet_mem w sid v'
    rw [e] at h1
    have h2 := poolGet_mono w sid v' hm
    exact snd_inj_of_nodup ((poolGet_inv sid v' h).insts_nodup sid) h1 h2
  · rintro rfl
    rw [poolGet_stable h hm]

/-- after `poolGet sid v` returned `i`, the next `poolGet sid v'` returns `i` iff `v' = v` -/
theorem poolGet_same_iff {w : WM} (sid v : Nat) (h : PoolInv w) :
    let r := w.poolGet sid v
    ∀ v', (r.1.poolGet sid v').2 = r.2 ↔ v' = v :=
  fun v' => poolGet_eq_iff_of_mem (poolGet_inv sid v h) (poolGet_mem w sid v) v'

/-! ## histories -/

/-- reflexive-transitive closure of the pool steps `poolGet` (any `sid`, `v`) and `freshInst` -/
inductive PoolReach : WM → WM → Prop
  | refl (w : WM) : PoolReach w w
  | get {w w' : WM} (sid v : Nat) : PoolReach w w' → PoolReach w (w'.poolGet sid v).1
  | fresh {w w' : WM} : PoolReach w w' → PoolReach w w'.freshInst.1

theorem PoolReach.trans {a b c : WM} (h₁ : PoolReach a b) (h₂ : PoolReach b c) : PoolReach a c := by
  induction h₂ with
  | refl => exact h₁
  | get sid v _ ih => exact .get sid v ih
  | fresh _ ih => exact .fresh ih

theorem PoolReach.inv {w w' : WM} (h : PoolInv w) (hr : PoolReach w w') : PoolInv w' := by
  induction hr with
  | refl => exact h
  | get sid v _ ih => exact poolGet_inv sid v ih
  | fresh _ ih => exact freshInst_inv ih

/-- entries are monotone along a history -/
theorem PoolReach.mono {w w' : WM} (hr : PoolReach w w') {sid : Nat} {p : Nat × Nat}
    (hp : p ∈ poolEntries w.pool sid) : p ∈ poolEntries w'.pool sid := by
  induction hr with
  | refl => exact hp
  | get sid' v _ ih => exact poolGet_mono _ sid' v ih
  | fresh _ ih => exact ih

theorem PoolReach.nextInst_le {w w' : WM} (hr : PoolReach w w') : w.nextInst ≤ w'.nextInst := by
  induction hr with
  | refl => exact Nat.le_refl _
  | get sid v _ ih => exact Nat.le_trans ih (poolGet_nextInst_le _ sid v)
  | fresh _ ih => exact Nat.le_trans ih (Nat.le_succ _)

/-- one instance per (shared id, value), across any number of later pool operations:
    equal values ⇒ same instance, different values ⇒ different instances -/
theorem one_instance_core {w w' : WM} (sid v : Nat) (h : PoolInv w) :
    let r := w.poolGet sid v
    PoolReach r.1 w' → ∀ v', (w'.poolGet sid v').2 = r.2 ↔ v' = v :=
  fun hr v' =>
    poolGet_eq_iff_of_mem (hr.inv (poolGet_inv sid v h)) (hr.mono (poolGet_mem w sid v)) v'

/-- `let`-free forms -/
theorem poolGet_same_iff' {w : WM} (sid v v' : Nat) (h : PoolInv w) :
    ((w.poolGet sid v).1.poolGet sid v').2 = (w.poolGet sid v).2 ↔ v' = v :=
  poolGet_same_iff sid v h v'

theorem one_instance_core' {w w' : WM} (sid v v' : Nat) (h : PoolInv w)
    (hr : PoolReach (w.poolGet sid v).1 w') : (w'.poolGet sid v').2 = (w.poolGet sid v).2 ↔ v' = v :=
  one_instance_core sid v h hr v'

/-- the instance handed out by `freshInst` is not a pooled one -/
theorem freshInst_not_pooled {w : WM} (h : PoolInv w) (sid : Nat) :
    ∀ p ∈ poolEntries w.freshInst.1.pool sid, p.2 ≠ w.freshInst.2 := by
  intro p hp e
  have := h.inst_lt sid p hp
  simp only [freshInst_snd] at e; omega

end Mustache.Model

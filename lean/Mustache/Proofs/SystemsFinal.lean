import Mustache.Proofs.SystemsUpdate
/-!
Removal (`removed` only grows, removed objects receive no callback), currency of the ordering problem
after every successful re-ordering op, and the statement about one manager update.
-/
namespace Mustache.Systems

/-! ### removed objects -/

theorem mgr_reorder_removed {m m' : Mgr} (h : m.reorder = some m') :
    m'.removed = m.removed ∧ m'.systems = m.systems ∧ m'.dead = m.dead ∧ m'.wasInit = m.wasInit ∧
      m'.groups = m.groups := by
  rcases mgr_reorder_some h with ⟨o, _, rfl⟩
  exact ⟨rfl, rfl, rfl, rfl, rfl⟩

theorem step_removed_mono (m : Mgr) (op : Op) {u : Nat} (hu : u ∈ m.removed) :
    u ∈ (step m op).1.removed := by
  cases hd : m.dead with
  | true => rw [step_dead hd]; exact hu
  | false =>
    cases op with
    | add name pre decl =>
      simp only [step, hd, Bool.false_eq_true, if_false]
      split
      · exact hu
      · split
        · exact hu
        · split
          · exact hu
          · rename_i m3 h3
            rw [(mgr_reorder_removed h3).1]; exact hu
    | remove name =>
      simp only [step, hd, Bool.false_eq_true, if_false]
      split
      · exact hu
      · split
        · exact List.mem_cons_of_mem _ hu
        · rename_i m2 h2
          rw [(mgr_reorder_removed h2).1]; exact List.mem_cons_of_mem _ hu
    | init =>
      simp only [step, hd, Bool.false_eq_true, if_false]
      split
      · exact hu
      · split
        · exact hu
        · split
          · exact hu
          · rename_i m2 h2
            simp only
            rw [(mgr_reorder_removed h2).1]; exact hu
    | update =>
      simp only [step, hd, Bool.false_eq_true, if_false]
      split <;> exact hu
    | setGroup g p => simp only [step, hd, Bool.false_eq_true, if_false]; exact hu
    | ext name t =>
      simp only [step, hd, Bool.false_eq_true, if_false]
      split <;> exact hu
    | teardown => simp only [step, hd, Bool.false_eq_true, if_false]; exact hu

/-- `removeSystem` of a registered name: no callback runs and the object is recorded as removed -/
theorem step_remove_spec {m : Mgr} (hd : m.dead = false) {name : Name} {u : Nat}
    (hl : m.byName.lookup name = some u) :
    (step m (.remove name)).2.2 = [] ∧ u ∈ (step m (.remove name)).1.removed := by
  simp only [step, hd, Bool.false_eq_true, if_false, hl]
  split
  · exact ⟨rfl, List.mem_cons_self ..⟩
  · rename_i m2 h2
    refine ⟨rfl, ?_⟩
    rw [(mgr_reorder_removed h2).1]; exact List.mem_cons_self ..

theorem run_removed : ∀ (ops : List Op) {m : Mgr} {tr : List Ev} {u : Nat}, Inv m tr → u ∈ m.removed →
    ∀ e ∈ allEvents (run m ops).2, e.uid ≠ u := by
  intro ops
  induction ops with
  | nil => intro m tr u _ _ e he; simp [run, allEvents] at he
  | cons op ops ih =>
    intro m tr u hi hu e he
    rw [run_cons] at he
    simp only [allEvents, List.flatMap_cons] at he
    have hstep := step_inv hi op
    have hu' := step_removed_mono m op hu
    rcases List.mem_append.mp he with he | he
    · intro heq
      exact hstep.1.removedAbsent u hu' (heq ▸ hstep.2 e he)
    · exact ih hstep.1 hu' e he

/-! ### the ordering problem solved is the current one -/

theorem applyAt_nodes (g : List (Nat × Int)) (u : Nat) {t : Tr} (ht : t ≠ .configure) :
    ∀ (ss ss' : List SysInfo) (evs : List Ev), applyAt u t ss = some (ss', evs) →
      ss'.map (toNode g) = ss.map (toNode g) := by
  intro ss
  induction ss with
  | nil => intro ss' evs h; simp [applyAt] at h; rw [h.1]
  | cons x xs ih =>
    intro ss' evs h
    simp only [applyAt] at h
    split at h
    · split at h
      · cases h
      · simp only [Option.some.injEq, Prod.mk.injEq] at h
        rw [← h.1]
        simp [toNode]
    · split at h
      · cases h
      · rename_i rest' evs' hr
        simp only [Option.some.injEq, Prod.mk.injEq] at h
        rw [← h.1]
        simp [ih _ _ hr]

theorem call_nodes (g : List (Nat × Int)) (r : Run) (u : Nat) {t : Tr} (ht : t ≠ .configure) :
    (r.call u t).ss.map (toNode g) = r.ss.map (toNode g) := by
  unfold Run.call
  split
  · rfl
  · split
    · rfl
    · rename_i ss' evs h
      exact applyAt_nodes g u ht _ _ _ h

theorem startAll_nodes (g : List (Nat × Int)) (O : List Nat) (r : Run) :
    (startAll O r).ss.map (toNode g) = r.ss.map (toNode g) := by
  unfold startAll
  apply foldl_inv (fun b : Run => b.ss.map (toNode g) = r.ss.map (toNode g)) _ _ _ rfl
  intro b a _ hb
  split
  · rw [call_nodes g b a (by simp)]; exact hb
  · exact hb

/-- ops that (re)compute the order -/
def Op.reorders (m : Mgr) : Op → Bool
  | .add _ _ _ => m.wasInit
  | .remove name => (m.byName.lookup name).isSome
  | .init => !m.wasInit
  | _ => false

/-- After every op that re-orders and returns normally, the problem that was solved is the ordering
problem of the systems registered now, with their current configs and group priorities. -/
theorem step_order_current {m : Mgr} (hd : m.dead = false) (op : Op) (hop : op.reorders m = true)
    (hok : (step m op).2.1 = .ok) : (step m op).1.snapSrc = (step m op).1.nodes := by
  cases op with
  | add name pre decl =>
    simp only [Op.reorders] at hop
    simp only [step, hd, hop, Bool.false_eq_true, if_false, Bool.not_true] at hok ⊢
    cases hk : ((addRun m name pre decl).call m.nextUid .configure).ok with
    | false => simp [hk] at hok
    | true =>
      simp only [hk, Bool.not_true, Bool.false_eq_true, if_false] at hok ⊢
      split
      · rename_i h; simp only [h] at hok; cases hok
      · rename_i m3 h3
        rcases mgr_reorder_some h3 with ⟨o, _, rfl⟩
        rfl
  | remove name =>
    simp only [Op.reorders, Option.isSome_iff_exists] at hop
    rcases hop with ⟨u, hl⟩
    simp only [step, hd, hl, Bool.false_eq_true, if_false] at hok ⊢
    split
    · rename_i h; simp only [h] at hok; cases hok
    · rename_i m2 h2
      rcases mgr_reorder_some h2 with ⟨o, _, rfl⟩
      rfl
  | init =>
    simp only [Op.reorders, Bool.not_eq_true'] at hop
    simp only [step, hd, hop, Bool.false_eq_true, if_false] at hok ⊢
    cases hk : (configureAll { ss := m.systems }).ok with
    | false => simp [hk] at hok
    | true =>
      simp only [hk, Bool.not_true, Bool.false_eq_true, if_false] at hok ⊢
      split
      · rename_i h; simp only [h] at hok; cases hok
      · rename_i m2 h2
        rcases mgr_reorder_some h2 with ⟨o, _, rfl⟩
        simp only [Mgr.nodes, startAll_nodes]
  | update => simp [Op.reorders] at hop
  | setGroup g p => simp [Op.reorders] at hop
  | ext name t => simp [Op.reorders] at hop
  | teardown => simp [Op.reorders] at hop

end Mustache.Systems

import Mustache.Proofs.SystemsRun
import Mustache.Proofs.SystemsOrder
/-!
Invariants of the manager model over arbitrary histories (`Inv`), and what a sequence of calls preserves (`RInv`).
-/
namespace Mustache.Systems

def StartedSub (O : List Nat) (ss : List SysInfo) : Prop :=
  ∀ v s, stateOf ss v = some s → s.started = true → v ∈ O

def NoUninit (ss : List SysInfo) : Prop := ∀ v, stateOf ss v ≠ some .uninit

/-- What the manager's loops preserve: `tr0` = callbacks before the current op, `dom`/`nms` = identities
and names registered, `O` = identities the op is allowed to start/update. -/
structure RInv (tr0 : List Ev) (dom : List Nat) (nms : List Name) (O : List Nat) (r : Run) : Prop where
  uids : r.ss.map (·.uid) = dom
  names : r.ss.map (·.name) = nms
  good : Good (tr0 ++ r.evs) r.ss
  present : ∀ e ∈ r.evs, e.uid ∈ dom
  noUninit : NoUninit r.ss
  started : StartedSub O r.ss

theorem call_noUninit {r : Run} (h : NoUninit r.ss) (u : Nat) {t : Tr} (ht : t ≠ .destroy) :
    NoUninit (r.call u t).ss := by
  cases hok : r.ok with
  | false => rw [call_not_ok hok]; exact h
  | true =>
    rcases call_cases r hok u t with ⟨_, h'⟩ | ⟨_, _, _, h'⟩ | ⟨s, s', cbs, _, ha, h'⟩
    · rw [h']; exact h
    · rw [h']; exact h
    · intro v
      by_cases hv : v = u
      · subst hv; rw [h'.same]
        intro e; cases e
        exact apply_ne_uninit ha ht rfl
      · rw [h'.other v hv]; exact h v

theorem call_startedSub {O : List Nat} {r : Run} (h : StartedSub O r.ss) (u : Nat) {t : Tr}
    (ht : u ∈ O ∨ t = .create ∨ t = .configure ∨ ∃ e : ExtTr, t = e.toTr) :
    StartedSub O (r.call u t).ss := by
  cases hok : r.ok with
  | false => rw [call_not_ok hok]; exact h
  | true =>
    rcases call_cases r hok u t with ⟨_, h'⟩ | ⟨_, _, _, h'⟩ | ⟨s, s', cbs, hs, ha, h'⟩
    · rw [h']; exact h
    · rw [h']; exact h
    · intro v sv hsv hst
      by_cases hv : v = u
      · subst hv
        rw [h'.same] at hsv
        cases hsv
        rcases ht with ht | ht | ht | ⟨e, rfl⟩
        · exact ht
        · rw [apply_create_configure_not_started ha (Or.inl ht)] at hst; cases hst
        · rw [apply_create_configure_not_started ha (Or.inr ht)] at hst; cases hst
        · exact h v s hs (apply_ext_started ha).1
      · rw [h'.other v hv] at hsv
        exact h v sv hsv hst

theorem call_present {dom : List Nat} {r : Run} (hu : r.ss.map (·.uid) = dom)
    (hp : ∀ e ∈ r.evs, e.uid ∈ dom) (u : Nat) (t : Tr) : ∀ e ∈ (r.call u t).evs, e.uid ∈ dom := by
  rcases call_evs r u t with ⟨cbs, hevs, hpres⟩
  intro e he
  rw [hevs] at he
  rcases List.mem_append.mp he with he | he
  · exact hp e he
  · rcases List.mem_map.mp he with ⟨c, hc, rfl⟩
    have : stateOf r.ss u ≠ none := hpres (fun e => by rw [e] at hc; cases hc)
    have := (not_congr stateOf_eq_none_iff).mp this
    rw [hu] at this
    exact Classical.not_not.mp this

theorem call_rinv {tr0 : List Ev} {dom : List Nat} {nms : List Name} {O : List Nat} {r : Run}
    (h : RInv tr0 dom nms O r) (u : Nat) {t : Tr} (ht : t ≠ .destroy)
    (hfresh : t = .create → traceOf u (tr0 ++ r.evs) = [])
    (hO : u ∈ O ∨ t = .create ∨ t = .configure ∨ ∃ e : ExtTr, t = e.toTr) :
    RInv tr0 dom nms O (r.call u t) :=
  ⟨by rw [call_uids]; exact h.uids, by rw [call_names]; exact h.names,
    call_good h.good u t (fun e => absurd e ht) hfresh, call_present h.uids h.present u t,
    call_noUninit h.noUninit u ht, call_startedSub h.started u hO⟩

theorem foldl_inv {α β : Type} (P : β → Prop) (f : β → α → β) (l : List α) (b : β) (hb : P b)
    (hf : ∀ b a, a ∈ l → P b → P (f b a)) : P (l.foldl f b) := by
  induction l generalizing b with
  | nil => exact hb
  | cons x xs ih =>
    rw [List.foldl_cons]
    exact ih _ (hf b x (List.mem_cons_self ..) hb) (fun b a ha => hf b a (List.mem_cons_of_mem _ ha))

theorem configureAll_rinv {tr0 dom nms O} {r : Run} (h : RInv tr0 dom nms O r) :
    RInv tr0 dom nms O (configureAll r) := by
  unfold configureAll
  apply foldl_inv (RInv tr0 dom nms O) _ _ _ h
  intro b a _ hb
  split
  · exact call_rinv hb a (by simp) (by simp) (Or.inr (Or.inr (Or.inl rfl)))
  · exact hb

theorem startAll_rinv {tr0 dom nms O} {r : Run} (h : RInv tr0 dom nms O r) :
    RInv tr0 dom nms O (startAll O r) := by
  unfold startAll
  apply foldl_inv (RInv tr0 dom nms O) _ _ _ h
  intro b a ha hb
  split
  · exact call_rinv hb a (by simp) (by simp) (Or.inl ha)
  · exact hb

theorem updateAll_rinv {tr0 dom nms O} {r : Run} (h : RInv tr0 dom nms O r) :
    RInv tr0 dom nms O (updateAll O r) := by
  unfold updateAll
  apply foldl_inv (RInv tr0 dom nms O) _ _ _ h
  intro b a ha hb
  simp only
  generalize hr1 : (if stateOf b.ss a = some .configured then b.call a .start else b) = r1
  have h1 : RInv tr0 dom nms O r1 := by
    rw [← hr1]
    split
    · exact call_rinv hb a (by simp) (by simp) (Or.inl ha)
    · exact hb
  split
  · exact call_rinv h1 a (by simp) (by simp) (Or.inl ha)
  · exact h1

/-! ### the global invariant -/

structure Inv (m : Mgr) (tr : List Ev) : Prop where
  good : Good tr m.systems
  uidsNodup : (m.systems.map (·.uid)).Nodup
  uidsLt : ∀ u ∈ m.systems.map (·.uid), u < m.nextUid
  trLt : ∀ e ∈ tr, e.uid < m.nextUid
  byNameLt : ∀ p ∈ m.byName, p.2 < m.nextUid
  removedLt : ∀ u ∈ m.removed, u < m.nextUid
  removedAbsent : ∀ u ∈ m.removed, u ∉ m.systems.map (·.uid)
  orderedNodup : m.ordered.Nodup
  noUninit : m.dead = false → NoUninit m.systems
  started : m.dead = false → StartedSub m.ordered m.systems

theorem inv_empty : Inv Mgr.empty [] := by
  refine ⟨⟨fun _ => rfl, ?_⟩, List.nodup_nil, ?_, ?_, ?_, ?_, ?_, List.nodup_nil, ?_, ?_⟩ <;>
    simp [Mgr.empty, stateOf_nil, NoUninit, StartedSub]

theorem Inv.toRInv {m : Mgr} {tr : List Ev} (h : Inv m tr) (hd : m.dead = false) :
    RInv tr (m.systems.map (·.uid)) (m.systems.map (·.name)) m.ordered { ss := m.systems } :=
  ⟨rfl, rfl, by simpa using h.good, by simp, h.noUninit hd, h.started hd⟩

/-- `O' ⊇` all registered identities makes `StartedSub O'` trivial -/
theorem startedSub_of_all {O : List Nat} {ss : List SysInfo} (h : ∀ u ∈ ss.map (·.uid), u ∈ O) :
    StartedSub O ss := by
  intro v s hs _
  apply h
  have : stateOf ss v ≠ none := by rw [hs]; simp
  exact Classical.not_not.mp ((not_congr stateOf_eq_none_iff).mp this)

theorem RInv.changeO {tr0 dom nms O O'} {r : Run} (h : RInv tr0 dom nms O r) (hall : ∀ u ∈ dom, u ∈ O') :
    RInv tr0 dom nms O' r :=
  ⟨h.uids, h.names, h.good, h.present, h.noUninit, startedSub_of_all (by rw [h.uids]; exact hall)⟩

/-! ### `Mgr.reorder` -/

theorem nodes_id (m : Mgr) : m.nodes.map (·.id) = m.systems.map (·.uid) := by
  simp [Mgr.nodes, toNode, List.map_map, Function.comp_def]

theorem nodes_name (m : Mgr) : m.nodes.map (·.name) = m.systems.map (·.name) := by
  simp [Mgr.nodes, toNode, List.map_map, Function.comp_def]

theorem mgr_reorder_some {m m' : Mgr} (h : m.reorder = some m') :
    ∃ o, reorder m.nodes = some o ∧
      m' = { m with ordered := o.map (·.id), snapSrc := m.nodes, snap := o } := by
  unfold Mgr.reorder at h
  split at h
  · cases h
  · rename_i o ho
    cases h
    exact ⟨o, ho, rfl⟩

theorem mgr_reorder_ordered {m m' : Mgr} (h : m.reorder = some m') :
    m'.ordered.Perm (m.systems.map (·.uid)) := by
  rcases mgr_reorder_some h with ⟨o, ho, rfl⟩
  have := (reorder_perm' ho).map (·.id)
  rw [nodes_id] at this
  exact this

/-- assembling the invariant of the state after a step from what the run of the step preserved -/
theorem inv_build {tr : List Ev} {r : Run} {dom : List Nat} {nms : List Name} {O : List Nat}
    (hr : RInv tr dom nms O r) (hO : O.Nodup) (m' : Mgr) (hs : m'.systems = r.ss) (ho : m'.ordered = O)
    (hdom : dom.Nodup) (hlt : ∀ u ∈ dom, u < m'.nextUid) (htr : ∀ e ∈ tr, e.uid < m'.nextUid)
    (hbn : ∀ p ∈ m'.byName, p.2 < m'.nextUid) (hrl : ∀ u ∈ m'.removed, u < m'.nextUid)
    (hra : ∀ u ∈ m'.removed, u ∉ dom) :
    Inv m' (tr ++ r.evs) ∧ ∀ e ∈ r.evs, e.uid ∈ m'.systems.map (·.uid) := by
  have hu : m'.systems.map (·.uid) = dom := by rw [hs, hr.uids]
  refine ⟨?_, by rw [hu]; exact hr.present⟩
  refine ⟨by rw [hs]; exact hr.good, by rw [hu]; exact hdom, by rw [hu]; exact hlt,
    ?_, hbn, hrl, by rw [hu]; exact hra, by rw [ho]; exact hO,
    fun _ => by rw [hs]; exact hr.noUninit, fun _ => by rw [hs, ho]; exact hr.started⟩
  intro e he
  rcases List.mem_append.mp he with he | he
  · exact htr e he
  · exact hlt _ (hr.present e he)

/-- same registered objects, same counters: the common case -/
theorem inv_of_rinv {m : Mgr} {tr : List Ev} (hi : Inv m tr) {r : Run} {O : List Nat}
    (hr : RInv tr (m.systems.map (·.uid)) (m.systems.map (·.name)) O r) (hO : O.Nodup)
    {m' : Mgr} (hs : m'.systems = r.ss) (ho : m'.ordered = O) (hn : m'.nextUid = m.nextUid)
    (hrm : m'.removed = m.removed) (hb : m'.byName = m.byName) :
    Inv m' (tr ++ r.evs) ∧ ∀ e ∈ r.evs, e.uid ∈ m'.systems.map (·.uid) :=
  inv_build hr hO m' hs ho hi.uidsNodup (by rw [hn]; exact hi.uidsLt) (by rw [hn]; exact hi.trLt)
    (by rw [hb, hn]; exact hi.byNameLt) (by rw [hrm, hn]; exact hi.removedLt)
    (by rw [hrm]; exact hi.removedAbsent)

/-! ### association lists -/

theorem mem_setAssoc {β : Type} {k : Nat} {v : β} {l : List (Nat × β)} {p : Nat × β}
    (h : p ∈ setAssoc k v l) : p = (k, v) ∨ p ∈ l := by
  induction l with
  | nil => simp [setAssoc] at h; exact Or.inl h
  | cons x xs ih =>
    rcases x with ⟨k', v'⟩
    simp only [setAssoc] at h
    split at h
    · rcases List.mem_cons.mp h with h | h
      · exact Or.inl h
      · exact Or.inr (List.mem_cons_of_mem _ h)
    · rcases List.mem_cons.mp h with h | h
      · exact Or.inr (h ▸ List.mem_cons_self ..)
      · rcases ih h with h | h
        · exact Or.inl h
        · exact Or.inr (List.mem_cons_of_mem _ h)

theorem mem_eraseAssoc {β : Type} {k : Nat} {l : List (Nat × β)} {p : Nat × β}
    (h : p ∈ eraseAssoc k l) : p ∈ l := by
  induction l with
  | nil => simp [eraseAssoc] at h
  | cons x xs ih =>
    rcases x with ⟨k', v'⟩
    simp only [eraseAssoc] at h
    split at h
    · exact List.mem_cons_of_mem _ h
    · rcases List.mem_cons.mp h with h | h
      · exact h ▸ List.mem_cons_self ..
      · exact List.mem_cons_of_mem _ (ih h)

theorem mem_of_lookup {β : Type} {k : Nat} {v : β} {l : List (Nat × β)} (h : l.lookup k = some v) :
    (k, v) ∈ l := by
  induction l with
  | nil => simp [List.lookup] at h
  | cons x xs ih =>
    rcases x with ⟨k', v'⟩
    simp only [List.lookup] at h
    split at h
    · rename_i heq
      have : k = k' := by simpa using heq
      cases h
      subst this
      exact List.mem_cons_self ..
    · exact List.mem_cons_of_mem _ (ih h)

/-! ### teardown -/

theorem destroyAll_good {tr0 : List Ev} {dom : List Nat} : ∀ (us : List Nat) (r : Run), us.Nodup →
    Good (tr0 ++ r.evs) r.ss → (∀ v ∈ us, stateOf r.ss v ≠ some .uninit) →
    r.ss.map (·.uid) = dom → (∀ e ∈ r.evs, e.uid ∈ dom) →
    Good (tr0 ++ (destroyAll us r).evs) (destroyAll us r).ss ∧
      (destroyAll us r).ss.map (·.uid) = dom ∧ ∀ e ∈ (destroyAll us r).evs, e.uid ∈ dom := by
  intro us
  induction us with
  | nil => intro r _ hg _ hu hp; exact ⟨hg, hu, hp⟩
  | cons x xs ih =>
    intro r hnd hg hnu hu hp
    have hnd' := List.nodup_cons.mp hnd
    simp only [destroyAll, List.foldl_cons]
    apply ih (r.call x .destroy) hnd'.2
    · exact call_good hg x .destroy (fun _ => hnu x (List.mem_cons_self ..)) (by simp)
    · intro v hv
      have : v ≠ x := fun e => hnd'.1 (e ▸ hv)
      rw [call_other r x .destroy this]
      exact hnu v (List.mem_cons_of_mem _ hv)
    · rw [call_uids]; exact hu
    · exact call_present hu hp x .destroy

end Mustache.Systems
